/* Which characters a serialiser MUST NOT write literally in a given syntactic position if the output is to re-parse
 * to the same character data. Written from the recommendations (XML 1.0 5th ed. / XML 1.1 2nd ed.), not from
 * XMLFormatter.hpp or XMLFormatter.cpp.
 *
 *   position "attribute value" (between double quotes), XML 1.0 and 1.1:
 *      &  <        [10] AttValue ::= '"' ([^<&"] | Reference)* '"'
 *      "           the delimiter itself
 *      TAB LF CR   3.3.3 Attribute-Value Normalization: a literal #x20/#xD/#xA/#x9 is replaced by #x20, a character
 *                  reference to it is not; (CR additionally 2.11)
 *   position "character data" (element content):
 *      &  <        [14] CharData ::= [^<&]* - ([^<&]* ']]>' [^<&]*)
 *      >           the only way for a per-character escaper to exclude "]]>" (2.4: MUST be escaped in that context)
 *      CR          2.11 End-of-Line Handling: literal #xD #xA and lone #xD are translated to #xA before parsing
 *   "standard escapes" = the five predefined entities of 4.6:  &amp; &lt; &gt; &apos; &quot;
 *   no escapes = nothing
 *
 *   XML 1.1 only, every position where a reference is possible:
 *      RestrictedChar [2a] ::= [#x1-#x8] | [#xB-#xC] | [#xE-#x1F] | [#x7F-#x84] | [#x86-#x9F]
 *                  may appear ONLY as character references (2.2) -- literal occurrence is a well-formedness error
 *      #x85 #x2028 XML 1.1 2.11: literal #x85, #x2028 (and #xD #x85) are translated to #xA before parsing, so they
 *                  survive a re-parse only as character references
 */
#ifndef SPEC_ESCAPE_H
#define SPEC_ESCAPE_H

static inline int spec_escape_none(unsigned c) { (void)c; return 0; }
static inline int spec_escape_std(unsigned c)  { return c == 0x26 || c == 0x3C || c == 0x3E || c == 0x22 || c == 0x27; }
static inline int spec_escape_attr(unsigned c) { return c == 0x26 || c == 0x3C || c == 0x22 || c == 0x09 || c == 0x0A || c == 0x0D; }
static inline int spec_escape_char(unsigned c) { return c == 0x26 || c == 0x3C || c == 0x3E || c == 0x0D; }

/* XML 1.1 [2a] RestrictedChar */
static inline int spec_xml11_restricted(unsigned c)
{
  return (c >= 0x1 && c <= 0x8) || c == 0xB || c == 0xC || (c >= 0xE && c <= 0x1F) || (c >= 0x7F && c <= 0x84) ||
         (c >= 0x86 && c <= 0x9F);
}
/* XML 1.1 2.11: the additional line ends that a parser folds into #xA */
static inline int spec_xml11_eol_extra(unsigned c) { return c == 0x85 || c == 0x2028; }

/* -------- character references (XML 4.1 [66] CharRef ::= '&#x' [0-9a-fA-F]+ ';') -------- */
/* s[0..n) is exactly one hexadecimal character reference "&#x" hex+ ";" with at most 16 hex digits: returns 1 and stores
 * the number it denotes in *val (hexadecimal positional value, most significant digit first); otherwise returns 0. */
static inline int spec_charref(const unsigned short *s, unsigned long n, unsigned long long *val)
{
  if (n < 5 || n > 4 + 16) return 0;
  if (s[0] != 0x26 || s[1] != 0x23 || s[2] != 0x78) return 0;     /* & # x */
  if (s[n - 1] != 0x3B) return 0;                                    /* ;     */
  unsigned long long v = 0;
  for (unsigned long i = 3; i + 1 < n; i++) {
    unsigned c = s[i];
    unsigned d;
    if (c >= 0x30 && c <= 0x39) d = c - 0x30;
    else if (c >= 0x41 && c <= 0x46) d = c - 0x41 + 10;
    else if (c >= 0x61 && c <= 0x66) d = c - 0x61 + 10;
    else return 0;
    v = (v << 4) | d;
  }
  *val = v;
  return 1;
}
/* the canonical spelling asked for by the property: upper-case digits, no leading zero ("0" for zero) */
static inline unsigned spec_hex_ndigits(unsigned long long v)
{
  unsigned n = 1;
  while (v >>= 4) n++;
  return n;
}
static inline unsigned short spec_hex_digit_upper(unsigned d) { return (unsigned short)(d < 10 ? 0x30 + d : 0x41 + (d - 10)); }
#endif
