/* End-of-line handling, written from the recommendations -- not from the xerces sources.
 *
 * XML 1.0 (Fifth Edition) 2.11: "the XML processor MUST behave as if it normalized all line breaks in external parsed
 *   entities (including the document entity) on input, before parsing, by translating both the two-character sequence
 *   #xD #xA and any #xD that is not followed by #xA to a single #xA character."
 * XML 1.1 (Second Edition) 2.11: "... by translating all of the following to a single #xA character:
 *   1. the two-character sequence #xD #xA   2. the two-character sequence #xD #x85   3. the single character #x85
 *   4. the single character #x2028          5. any #xD character that is not immediately followed by #xA or #x85."
 *   "The characters #x85 and #x2028 cannot be reliably recognized and translated until an entity's encoding declaration
 *   (if present) has been read. Therefore, it is a fatal error to use them within the XML declaration or text declaration."
 * Both: only EXTERNAL parsed entities are normalised; the replacement text of an internal entity is passed through.
 *
 * Everything is a side-effect-free macro so that it can be used in contracts and loop invariants.
 *   c        the character being read            next     the character after it in the (logical) unread sequence
 *   ext      the entity is an external parsed entity (XMLReader: fSource == Source_External)
 *   r11      the XML 1.1 rule set applies (XMLReader: fNEL; true for version 1.1 documents; xerces' non-standard
 *            "enableNELWS" option also turns it on for 1.0 documents -- recorded as an assumption in the units)
 */
#ifndef SPEC_EOL_H
#define SPEC_EOL_H

#define SPEC_CR   0x000D
#define SPEC_LF   0x000A
#define SPEC_NEL  0x0085
#define SPEC_LSEP 0x2028

/* c starts a line break that 2.11 translates to #xA */
#define SPEC_EOL_BREAK(c, ext, r11) \
  ((ext) && ((c) == SPEC_CR || (c) == SPEC_LF || ((r11) && ((c) == SPEC_NEL || (c) == SPEC_LSEP))))

/* the character delivered to the parser for c */
#define SPEC_EOL_OUT(c, ext, r11) ((XMLCh)(SPEC_EOL_BREAK(c, ext, r11) ? SPEC_LF : (c)))

/* the delivery of c depends on the character after it (a two-character break may follow) */
#define SPEC_EOL_NEEDS_NEXT(c, ext) ((ext) && (c) == SPEC_CR)

/* next is the second half of a two-character line break begun by c, i.e. it is consumed together with c */
#define SPEC_EOL_SECOND(next, r11) ((next) == SPEC_LF || ((r11) && (next) == SPEC_NEL))
#define SPEC_EOL_SWALLOW(c, next, ext, r11) (SPEC_EOL_NEEDS_NEXT(c, ext) && SPEC_EOL_SECOND(next, r11))

/* fatal error: #x85 / #x2028 inside the XML or text declaration of a version 1.1 entity */
#define SPEC_EOL_FATAL(c, in_decl, version11) ((in_decl) && (version11) && ((c) == SPEC_NEL || (c) == SPEC_LSEP))

/* Position tracking (the recommendations define no line/column numbers; this is the obvious reading, DESIGN C03):
 * the delivered character ends a line iff it is a (translated) line break; in an internal entity, whose text is already
 * normalised, a literal #xA or #xD (the latter only obtainable through &#13;) ends a line.  A line end gives
 * (line + 1, column 1); EVERY other character, whatever it is, gives (line, column + 1). */
#define SPEC_EOL_NEWLINE(c, ext, r11) (SPEC_EOL_BREAK(c, ext, r11) || (!(ext) && ((c) == SPEC_CR || (c) == SPEC_LF)))
#define SPEC_EOL_LINE(line, c, ext, r11) ((XMLFileLoc)((line) + (SPEC_EOL_NEWLINE(c, ext, r11) ? 1 : 0)))
#define SPEC_EOL_COL(col, c, ext, r11)   ((XMLFileLoc)(SPEC_EOL_NEWLINE(c, ext, r11) ? 1 : (col) + 1))

#endif
