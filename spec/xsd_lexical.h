/* Lexical-space reference functions for the XML Schema Part 2 (Second Edition) datatype kernels, written from the
 * recommendation (section numbers at each function), not from the xerces sources. */
#ifndef SPEC_XSD_LEXICAL_H
#define SPEC_XSD_LEXICAL_H
#include <stdint.h>
#include <stddef.h>

/* XML 1.0 production [3] S ::= (#x20 | #x9 | #xD | #xA)+ */
#define SPEC_IS_XMLWS(c) ((c) == 0x20 || (c) == 0x9 || (c) == 0xD || (c) == 0xA)
#define SPEC_IS_DIGIT(c) ((c) >= 0x30 && (c) <= 0x39)

/* 3.2.3.1 decimal lexical representation: "a finite-length sequence of decimal digits (#x30-#x39) separated by a
 * period as a decimal indicator. An optional leading sign is allowed. ... If the fractional part is zero, the period
 * and following zero(es) can be omitted" -- i.e. (+|-)? ( [0-9]+ (\.[0-9]*)? | \.[0-9]+ )   (the schema-for-schemas
 * pattern), after the whiteSpace=collapse step, which for a value without internal spaces is trimming of S.
 * 3.3.13.1 integer: (+|-)? [0-9]+
 *
 * spec_parse_decimal scans s[0..n) and returns 1 if it is in the lexical space (allow_point = 0: integer), else 0.
 * On success: *neg = a '-' sign was given; digits of the integer part without leading zeros and of the fraction
 * part without trailing zeros are written to ip[0..*ni) / fp[0..*nf)  (value = 0 iff *ni == 0 && *nf == 0). */
static int spec_parse_decimal(const uint16_t *s, size_t n, int allow_point, int *neg,
                              uint16_t *ip, size_t *ni, uint16_t *fp, size_t *nf)
{
  size_t a = 0, b = n, i, k;
  size_t nint = 0, nfrac = 0;
  int point = 0;
  *neg = 0; *ni = 0; *nf = 0;
  while (a < b && SPEC_IS_XMLWS(s[a])) a++;
  while (b > a && SPEC_IS_XMLWS(s[b - 1])) b--;
  if (a < b && (s[a] == 0x2B || s[a] == 0x2D)) { *neg = (s[a] == 0x2D); a++; }
  /* integer digits */
  i = a;
  while (i < b && SPEC_IS_DIGIT(s[i])) i++;
  nint = i - a;
  if (i < b && s[i] == 0x2E && allow_point) {
    point = 1;
    k = i + 1;
    while (k < b && SPEC_IS_DIGIT(s[k])) k++;
    nfrac = k - (i + 1);
    if (k != b) return 0;                    /* something after the fraction */
  } else if (i != b) return 0;               /* something after the integer digits */
  if (nint == 0 && nfrac == 0) return 0;     /* at least one digit ("." "+." "" "+" are not numerals) */
  (void)point;
  /* strip leading zeros of the integer part */
  k = a;
  while (k < a + nint && s[k] == 0x30) k++;
  for (; k < a + nint; k++) ip[(*ni)++] = s[k];
  /* strip trailing zeros of the fraction */
  if (nfrac) {
    size_t e = a + nint + 1 + nfrac;
    while (e > a + nint + 1 && s[e - 1] == 0x30) e--;
    for (k = a + nint + 1; k < e; k++) fp[(*nf)++] = s[k];
  }
  return 1;
}
#endif
