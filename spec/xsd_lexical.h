/* Lexical-space reference functions for the XML Schema Part 2 (Second Edition) datatype kernels, written from the
 * recommendation (section numbers at each function), not from the xerces sources. */
#ifndef SPEC_XSD_LEXICAL_H
#define SPEC_XSD_LEXICAL_H
#include <stdint.h>
#include <stddef.h>

/* XML 1.0 production [3] S ::= (#x20 | #x9 | #xD | #xA)+ */
#define SPEC_IS_XMLWS(c) ((c) == 0x20 || (c) == 0x9 || (c) == 0xD || (c) == 0xA)
#define SPEC_IS_DIGIT(c) ((c) >= 0x30 && (c) <= 0x39)

/* 3.2.3.1 decimal lexical representation: "a finite-length sequence of decimal digits (#x30-#x39) separated by a
 * period as a decimal indicator. An optional leading sign is allowed. ... If the fractional part is zero, the period
 * and following zero(es) can be omitted" -- i.e. (+|-)? ( [0-9]+ (\.[0-9]*)? | \.[0-9]+ )   (the schema-for-schemas
 * pattern), after the whiteSpace=collapse step, which for a value without internal spaces is trimming of S.
 * 3.3.13.1 integer: (+|-)? [0-9]+
 *
 * spec_parse_decimal scans s[0..n) and returns 1 if it is in the lexical space (allow_point = 0: integer), else 0.
 * On success: *neg = a '-' sign was given; digits of the integer part without leading zeros and of the fraction
 * part without trailing zeros are written to ip[0..*ni) / fp[0..*nf)  (value = 0 iff *ni == 0 && *nf == 0). */
static int spec_parse_decimal(const uint16_t *s, size_t n, int allow_point, int *neg,
                              uint16_t *ip, size_t *ni, uint16_t *fp, size_t *nf)
{
  size_t a = 0, b = n, i, k;
  size_t nint = 0, nfrac = 0;
  int point = 0;
  *neg = 0; *ni = 0; *nf = 0;
  while (a < b && SPEC_IS_XMLWS(s[a])) a++;
  while (b > a && SPEC_IS_XMLWS(s[b - 1])) b--;
  if (a < b && (s[a] == 0x2B || s[a] == 0x2D)) { *neg = (s[a] == 0x2D); a++; }
  /* integer digits */
  i = a;
  while (i < b && SPEC_IS_DIGIT(s[i])) i++;
  nint = i - a;
  if (i < b && s[i] == 0x2E && allow_point) {
    point = 1;
    k = i + 1;
    while (k < b && SPEC_IS_DIGIT(s[k])) k++;
    nfrac = k - (i + 1);
    if (k != b) return 0;                    /* something after the fraction */
  } else if (i != b) return 0;               /* something after the integer digits */
  if (nint == 0 && nfrac == 0) return 0;     /* at least one digit ("." "+." "" "+" are not numerals) */
  (void)point;
  /* strip leading zeros of the integer part */
  k = a;
  while (k < a + nint && s[k] == 0x30) k++;
  for (; k < a + nint; k++) ip[(*ni)++] = s[k];
  /* strip trailing zeros of the fraction */
  if (nfrac) {
    size_t e = a + nint + 1 + nfrac;
    while (e > a + nint + 1 && s[e - 1] == 0x30) e--;
    for (k = a + nint + 1; k < e; k++) fp[(*nf)++] = s[k];
  }
  return 1;
}

/* ---------------------------------------------------------------------------------------------------------------
 * base64Binary, XML Schema Part 2 (Second Edition) 3.2.16.1 Lexical representation:
 *   Base64Binary ::= ((B64S B64S B64S B64S)* ((B64S B64S B64S B64) | (B64S B64S B16S '=') | (B64S B04S '=' #x20? '=')))?
 *   B64S ::= B64 #x20?     B16S ::= B16 #x20?     B04S ::= B04 #x20?
 *   B04 ::= [AQgw]     B16 ::= [AEIMQUYcgkosw048]     B64 ::= [A-Za-z0-9+/]
 * (whiteSpace is collapse, so only single #x20 between characters remain; none leading or trailing).
 * Value: RFC 2045 6.8 -- 24-bit groups of four 6-bit values, Table 1 alphabet; with one '=' the group carries 16 bits
 * (the 2 low bits of the third value must be zero = class B16), with '==' 8 bits (4 low bits of the second value zero
 * = class B04). */
static int spec_b64_value(unsigned c)      /* RFC 2045 Table 1; -1: not in the alphabet */
{
  if (c >= 'A' && c <= 'Z') return (int)(c - 'A');
  if (c >= 'a' && c <= 'z') return (int)(c - 'a') + 26;
  if (c >= '0' && c <= '9') return (int)(c - '0') + 52;
  if (c == '+') return 62;
  if (c == '/') return 63;
  return -1;
}
static int spec_is_b04(unsigned c) { return c == 'A' || c == 'Q' || c == 'g' || c == 'w'; }
static int spec_is_b16(unsigned c)
{
  return c == 'A' || c == 'E' || c == 'I' || c == 'M' || c == 'Q' || c == 'U' || c == 'Y' || c == 'c' || c == 'g' || c == 'k' ||
         c == 'o' || c == 's' || c == 'w' || c == '0' || c == '4' || c == '8';
}
/* s[0..n): characters (bytes or UTF-16 units).  mode 1: the schema lexical space above; mode 0: RFC 2045 style, any
 * amount of XML white space anywhere is ignored.  Returns 1 and the octets in out[0..*outlen), the white-space-free
 * form in can[0..*canlen); 0 if s is not a base64Binary literal.  The empty literal is valid (zero octets). */
static int spec_base64_decode(const uint16_t *s, size_t n, int mode, uint8_t *out, size_t *outlen, uint16_t *can, size_t *canlen)
{
  size_t k = 0, i, q;
  *outlen = 0; *canlen = 0;
  for (i = 0; i < n; i++) {
    unsigned c = s[i];
    if (mode == 1) {
      if (c == 0x20) {
        if (i == 0 || i + 1 == n || s[i + 1] == 0x20) return 0;   /* leading, trailing or doubled #x20 */
        continue;
      }
    } else if (SPEC_IS_XMLWS(c)) continue;
    can[k++] = (uint16_t)c;
  }
  *canlen = k;
  if (k % 4 != 0) return 0;
  for (q = 0; q + 4 <= k; q += 4) {
    unsigned c1 = can[q], c2 = can[q + 1], c3 = can[q + 2], c4 = can[q + 3];
    int v1 = spec_b64_value(c1), v2 = spec_b64_value(c2), v3 = spec_b64_value(c3), v4 = spec_b64_value(c4);
    if (v1 < 0 || v2 < 0) return 0;
    if (q + 4 < k) {                                   /* not the last group: four B64 */
      if (v3 < 0 || v4 < 0) return 0;
    }
    if (v3 >= 0 && v4 >= 0) {                          /* B64 B64 B64 B64 */
      out[(*outlen)++] = (uint8_t)((v1 << 2) | (v2 >> 4));
      out[(*outlen)++] = (uint8_t)(((v2 & 0xF) << 4) | (v3 >> 2));
      out[(*outlen)++] = (uint8_t)(((v3 & 0x3) << 6) | v4);
    } else if (v3 >= 0 && c4 == '=') {                 /* B64 B64 B16 '=' */
      if (!spec_is_b16(c3)) return 0;
      out[(*outlen)++] = (uint8_t)((v1 << 2) | (v2 >> 4));
      out[(*outlen)++] = (uint8_t)(((v2 & 0xF) << 4) | (v3 >> 2));
    } else if (c3 == '=' && c4 == '=') {               /* B64 B04 '=' '=' */
      if (!spec_is_b04(c2)) return 0;
      out[(*outlen)++] = (uint8_t)((v1 << 2) | (v2 >> 4));
    } else return 0;
  }
  return 1;
}

/* hexBinary, 3.2.15.1: "each binary octet is encoded as a character tuple, consisting of two hexadecimal digits
 * ([0-9a-fA-F])"; canonical form (3.2.15.2): lower case hexadecimal digits prohibited */
static int spec_hex_value(unsigned c)
{
  if (c >= '0' && c <= '9') return (int)(c - '0');
  if (c >= 'A' && c <= 'F') return (int)(c - 'A') + 10;
  if (c >= 'a' && c <= 'f') return (int)(c - 'a') + 10;
  return -1;
}

/* whiteSpace facet, XML Schema Part 2 4.3.6:
 *  replace : "All occurrences of #x9 (tab), #xA (line feed) and #xD (carriage return) are replaced with #x20 (space)"
 *  collapse: "After the processing implied by replace, contiguous sequences of #x20's are collapsed to a single #x20,
 *             and leading and trailing #x20's are removed."
 * in[0..n) -> out[0..return value) */
static size_t spec_ws_replace(const uint16_t *in, size_t n, uint16_t *out)
{
  for (size_t i = 0; i < n; i++) out[i] = (in[i] == 0x9 || in[i] == 0xA || in[i] == 0xD) ? 0x20 : in[i];
  return n;
}
static size_t spec_ws_collapse(const uint16_t *in, size_t n, uint16_t *out)
{
  size_t m = 0;
  int pending = 0;                      /* a run of spaces seen after some non-space output */
  for (size_t i = 0; i < n; i++) {
    uint16_t c = (in[i] == 0x9 || in[i] == 0xA || in[i] == 0xD) ? 0x20 : in[i];
    if (c == 0x20) { if (m > 0) pending = 1; }
    else { if (pending) out[m++] = 0x20; pending = 0; out[m++] = c; }
  }
  return m;
}
#endif
