/* Pure specification functions transcribed from the productions of the recommendations -- not from the xerces sources:
 *
 *   XML 1.0 (Fifth Edition), W3C Recommendation 26 November 2008, section 2.2 / 2.3:
 *     [2]  Char          ::= #x9 | #xA | #xD | [#x20-#xD7FF] | [#xE000-#xFFFD] | [#x10000-#x10FFFF]
 *     [3]  S             ::= (#x20 | #x9 | #xD | #xA)+
 *     [4]  NameStartChar ::= ":" | [A-Z] | "_" | [a-z] | [#xC0-#xD6] | [#xD8-#xF6] | [#xF8-#x2FF] | [#x370-#x37D] |
 *                            [#x37F-#x1FFF] | [#x200C-#x200D] | [#x2070-#x218F] | [#x2C00-#x2FEF] | [#x3001-#xD7FF] |
 *                            [#xF900-#xFDCF] | [#xFDF0-#xFFFD] | [#x10000-#xEFFFF]
 *     [4a] NameChar      ::= NameStartChar | "-" | "." | [0-9] | #xB7 | [#x0300-#x036F] | [#x203F-#x2040]
 *     [5]  Name          ::= NameStartChar (NameChar)*
 *     [7]  Nmtoken       ::= (NameChar)+
 *   XML 1.1 (Second Edition), W3C Recommendation 16 August 2006:
 *     [2]  Char           ::= [#x1-#xD7FF] | [#xE000-#xFFFD] | [#x10000-#x10FFFF]
 *     [2a] RestrictedChar ::= [#x1-#x8] | [#xB-#xC] | [#xE-#x1F] | [#x7F-#x84] | [#x86-#x9F]
 *     [3], [4], [4a], [5], [7] identical to the Fifth Edition text above
 *   Namespaces in XML 1.0 (Third Edition) / 1.1 (Second Edition):
 *     [4]  NCName ::= Name - (Char* ':' Char*)       [7] QName ::= PrefixedName | UnprefixedName
 *     [8]  PrefixedName ::= Prefix ':' LocalPart      [9] UnprefixedName ::= LocalPart     [10],[11] Prefix, LocalPart ::= NCName
 *
 * All functions take a code point (uint32_t).  A UTF-16 code unit in D800..DFFF taken on its own is the "code point"
 * D800..DFFF, which is in no production: the ranges below exclude it by construction. */
#ifndef SPEC_XMLCHARS_H
#define SPEC_XMLCHARS_H
#include <stdint.h>
#include <stddef.h>

#define SPEC_IN(c, lo, hi) ((uint32_t)(c) >= (uint32_t)(lo) && (uint32_t)(c) <= (uint32_t)(hi))

/* ---- XML 1.0 [2] Char ---- */
static inline _Bool spec_xml10_Char(uint32_t c)
{
  return c == 0x9 || c == 0xA || c == 0xD || SPEC_IN(c, 0x20, 0xD7FF) || SPEC_IN(c, 0xE000, 0xFFFD) || SPEC_IN(c, 0x10000, 0x10FFFF);
}
/* ---- XML 1.1 [2] Char, [2a] RestrictedChar ---- */
static inline _Bool spec_xml11_Char(uint32_t c)
{
  return SPEC_IN(c, 0x1, 0xD7FF) || SPEC_IN(c, 0xE000, 0xFFFD) || SPEC_IN(c, 0x10000, 0x10FFFF);
}
static inline _Bool spec_xml11_RestrictedChar(uint32_t c)
{
  return SPEC_IN(c, 0x1, 0x8) || SPEC_IN(c, 0xB, 0xC) || SPEC_IN(c, 0xE, 0x1F) || SPEC_IN(c, 0x7F, 0x84) || SPEC_IN(c, 0x86, 0x9F);
}
/* ---- [3] S: one white space character (both versions) ---- */
static inline _Bool spec_xml_S(uint32_t c)
{
  return c == 0x20 || c == 0x9 || c == 0xD || c == 0xA;
}
/* ---- [4] NameStartChar, [4a] NameChar (both versions) ---- */
static inline _Bool spec_xml_NameStartChar(uint32_t c)
{
  return c == ':' || SPEC_IN(c, 'A', 'Z') || c == '_' || SPEC_IN(c, 'a', 'z') || SPEC_IN(c, 0xC0, 0xD6) || SPEC_IN(c, 0xD8, 0xF6) ||
         SPEC_IN(c, 0xF8, 0x2FF) || SPEC_IN(c, 0x370, 0x37D) || SPEC_IN(c, 0x37F, 0x1FFF) || SPEC_IN(c, 0x200C, 0x200D) ||
         SPEC_IN(c, 0x2070, 0x218F) || SPEC_IN(c, 0x2C00, 0x2FEF) || SPEC_IN(c, 0x3001, 0xD7FF) || SPEC_IN(c, 0xF900, 0xFDCF) ||
         SPEC_IN(c, 0xFDF0, 0xFFFD) || SPEC_IN(c, 0x10000, 0xEFFFF);
}
static inline _Bool spec_xml_NameChar(uint32_t c)
{
  return spec_xml_NameStartChar(c) || c == '-' || c == '.' || SPEC_IN(c, '0', '9') || c == 0xB7 || SPEC_IN(c, 0x0300, 0x036F) ||
         SPEC_IN(c, 0x203F, 0x2040);
}
/* ---- Namespaces [4] NCName: the characters of a Name other than ':' ---- */
static inline _Bool spec_xml_NCNameStartChar(uint32_t c) { return spec_xml_NameStartChar(c) && c != ':'; }
static inline _Bool spec_xml_NCNameChar(uint32_t c) { return spec_xml_NameChar(c) && c != ':'; }

/* ---- classes that are NOT productions but are defined by the text of the recommendations ---- */
/* XML 1.1 section 1.3 (rationale) "control characters #x1 through #x1F ... #x7F through #x9F": the characters that XML 1.1
 * admits only as character references are RestrictedChar = these controls minus the white space characters and NEL */
static inline _Bool spec_xml11_C0C1Control(uint32_t c) { return SPEC_IN(c, 0x1, 0x1F) || SPEC_IN(c, 0x7F, 0x9F); }
/* XML 1.1 section 2.11: the characters that take part in end-of-line handling */
static inline _Bool spec_xml11_LineEnd(uint32_t c) { return c == 0xD || c == 0xA || c == 0x85 || c == 0x2028; }
/* XML 1.0 "Letter" ([84], Fourth Edition; orphaned in the Fifth): xerces documents isXMLLetter as
 * "FirstNameChar minus ':' and '_'" -- that definition is used here, over the Fifth-Edition NameStartChar */
static inline _Bool spec_xml_LetterLike(uint32_t c) { return spec_xml_NameStartChar(c) && c != ':' && c != '_'; }

/* ---- UTF-16 view: decode the code point starting at s[i] of a string of n code units.
 *      returns the number of code units (1 or 2) and the code point; a surrogate code unit that is not part of a
 *      well-formed pair is returned as itself (length 1) -- it is in none of the classes above ---- */
static inline int spec_utf16_next(const uint16_t *s, size_t i, size_t n, uint32_t *cp)
{
  uint16_t a = s[i];
  if (a >= 0xD800 && a <= 0xDBFF && i + 1 < n && s[i + 1] >= 0xDC00 && s[i + 1] <= 0xDFFF) {
    *cp = 0x10000u + (((uint32_t)(a - 0xD800)) << 10) + (uint32_t)(s[i + 1] - 0xDC00);
    return 2;
  }
  *cp = a;
  return 1;
}

/* [5] Name / [7] Nmtoken / NCName over the UTF-16 string s[0..n): every code point must be in the class, the first one in the
 * start class.  kind: 0 Name, 1 NCName, 2 Nmtoken */
static inline _Bool spec_xml_is_name(const uint16_t *s, size_t n, int kind)
{
  if (n == 0) return 0;
  size_t i = 0;
  _Bool first = 1;
  while (i < n) {
    uint32_t cp;
    int l = spec_utf16_next(s, i, n, &cp);
    _Bool ok;
    if (kind == 2) ok = spec_xml_NameChar(cp);
    else if (kind == 1) ok = first ? spec_xml_NCNameStartChar(cp) : spec_xml_NCNameChar(cp);
    else ok = first ? spec_xml_NameStartChar(cp) : spec_xml_NameChar(cp);
    if (!ok) return 0;
    first = 0;
    i += (size_t)l;
  }
  return 1;
}
/* Namespaces [7] QName ::= NCName | NCName ':' NCName */
static inline _Bool spec_xml_is_qname(const uint16_t *s, size_t n)
{
  size_t k = 0;
  while (k < n && s[k] != ':') k++;
  if (k == n) return spec_xml_is_name(s, n, 1);
  return spec_xml_is_name(s, k, 1) && spec_xml_is_name(s + k + 1, n - k - 1, 1);
}
/* S over a whole string: (S) matches s[0..n) */
static inline _Bool spec_xml_all_S(const uint16_t *s, size_t n)
{
  if (n == 0) return 0;
  for (size_t i = 0; i < n; i++) if (!spec_xml_S(s[i])) return 0;
  return 1;
}
static inline _Bool spec_xml_contains_S(const uint16_t *s, size_t n)
{
  for (size_t i = 0; i < n; i++) if (spec_xml_S(s[i])) return 1;
  return 0;
}
#endif
