/* Pure specification functions written from the Unicode Standard (ch. 3, D91/D92, Table 3-6 "UTF-8 Bit
 * Distribution" and Table 3-7 "Well-Formed UTF-8 Byte Sequences") -- not from the xerces sources. */
#ifndef SPEC_UNICODE_H
#define SPEC_UNICODE_H
#include <stdint.h>
#include <stddef.h>

#define SPEC_TRUNC (-1)   /* a proper prefix of a well-formed sequence (needs more bytes)      */
#define SPEC_ILL   0      /* cannot start a well-formed sequence                                */

/* length (1..4) of the well-formed UTF-8 sequence at b[0..n) and its scalar value; SPEC_ILL; SPEC_TRUNC.
 * Table 3-7:  00..7F | C2..DF 80..BF | E0 A0..BF 80..BF | E1..EC 80..BF 80..BF | ED 80..9F 80..BF |
 *             EE..EF 80..BF 80..BF | F0 90..BF 80..BF 80..BF | F1..F3 80..BF x3 | F4 80..8F 80..BF 80..BF  */
static int spec_utf8_decode(const uint8_t *b, size_t n, uint32_t *cp)
{
  if (n == 0) return SPEC_TRUNC;
  uint8_t b0 = b[0];
  if (b0 <= 0x7F) { *cp = b0; return 1; }
  if (b0 >= 0xC2 && b0 <= 0xDF) {
    if (n < 2) return SPEC_TRUNC;
    if ((b[1] & 0xC0) != 0x80) return SPEC_ILL;
    *cp = ((uint32_t)(b0 & 0x1F) << 6) | (b[1] & 0x3F);
    return 2;
  }
  if (b0 >= 0xE0 && b0 <= 0xEF) {
    uint8_t lo = (b0 == 0xE0) ? 0xA0 : 0x80, hi = (b0 == 0xED) ? 0x9F : 0xBF;
    if (n < 2) return SPEC_TRUNC;
    if (b[1] < lo || b[1] > hi) return SPEC_ILL;
    if (n < 3) return SPEC_TRUNC;
    if ((b[2] & 0xC0) != 0x80) return SPEC_ILL;
    *cp = ((uint32_t)(b0 & 0x0F) << 12) | ((uint32_t)(b[1] & 0x3F) << 6) | (b[2] & 0x3F);
    return 3;
  }
  if (b0 >= 0xF0 && b0 <= 0xF4) {
    uint8_t lo = (b0 == 0xF0) ? 0x90 : 0x80, hi = (b0 == 0xF4) ? 0x8F : 0xBF;
    if (n < 2) return SPEC_TRUNC;
    if (b[1] < lo || b[1] > hi) return SPEC_ILL;
    if (n < 3) return SPEC_TRUNC;
    if ((b[2] & 0xC0) != 0x80) return SPEC_ILL;
    if (n < 4) return SPEC_TRUNC;
    if ((b[3] & 0xC0) != 0x80) return SPEC_ILL;
    *cp = ((uint32_t)(b0 & 0x07) << 18) | ((uint32_t)(b[1] & 0x3F) << 12) | ((uint32_t)(b[2] & 0x3F) << 6) | (b[3] & 0x3F);
    return 4;
  }
  return SPEC_ILL; /* 80..BF, C0, C1, F5..FF */
}

/* Table 3-6: encode scalar value cp (not a surrogate, <= 10FFFF) into out[0..4); returns the length */
static int spec_utf8_encode(uint32_t cp, uint8_t *out)
{
  if (cp <= 0x7F) { out[0] = (uint8_t)cp; return 1; }
  if (cp <= 0x7FF) { out[0] = (uint8_t)(0xC0 | (cp >> 6)); out[1] = (uint8_t)(0x80 | (cp & 0x3F)); return 2; }
  if (cp <= 0xFFFF) { out[0] = (uint8_t)(0xE0 | (cp >> 12)); out[1] = (uint8_t)(0x80 | ((cp >> 6) & 0x3F));
                      out[2] = (uint8_t)(0x80 | (cp & 0x3F)); return 3; }
  out[0] = (uint8_t)(0xF0 | (cp >> 18)); out[1] = (uint8_t)(0x80 | ((cp >> 12) & 0x3F));
  out[2] = (uint8_t)(0x80 | ((cp >> 6) & 0x3F)); out[3] = (uint8_t)(0x80 | (cp & 0x3F)); return 4;
}

/* D91 UTF-16: scalar value -> 1 or 2 code units */
static int spec_utf16_units(uint32_t cp, uint16_t *u)
{
  if (cp < 0x10000) { u[0] = (uint16_t)cp; return 1; }
  u[0] = (uint16_t)(0xD800 + ((cp - 0x10000) >> 10));
  u[1] = (uint16_t)(0xDC00 + ((cp - 0x10000) & 0x3FF));
  return 2;
}
static inline int spec_is_lead(uint32_t u)  { return u >= 0xD800 && u <= 0xDBFF; }
static inline int spec_is_trail(uint32_t u) { return u >= 0xDC00 && u <= 0xDFFF; }
static inline int spec_is_scalar(uint32_t cp) { return cp <= 0x10FFFF && !(cp >= 0xD800 && cp <= 0xDFFF); }
static inline uint32_t spec_pair_to_cp(uint32_t hi, uint32_t lo) { return 0x10000 + ((hi - 0xD800) << 10) + (lo - 0xDC00); }
#endif
