/* Specification of encoding auto-detection, written from Extensible Markup Language (XML) 1.0 (Fifth Edition),
 * Appendix F "Autodetection of Character Encodings (Non-Normative)", section F.1 "Detection Without External Encoding
 * Information" -- not from the xerces sources.
 *
 * F.1: "Because each XML entity not accompanied by external encoding information and not in UTF-8 or UTF-16 encoding must
 * begin with an XML encoding declaration, in which the first characters must be '<?xml', any conforming processor can
 * detect, after two to four octets of input, which of the following cases apply. [...] the Byte Order Mark required of
 * UTF-16 data streams is #xFEFF. The notation ## is used to denote any byte value except that two consecutive ##s cannot
 * be both 00."
 *   With a Byte Order Mark:
 *     00 00 FE FF   UCS-4, big-endian machine (1234 order)        FF FE 00 00   UCS-4, little-endian machine (4321 order)
 *     00 00 FF FE   UCS-4, unusual octet order (2143)             FE FF 00 00   UCS-4, unusual octet order (3412)
 *     FE FF ## ##   UTF-16, big-endian                            FF FE ## ##   UTF-16, little-endian
 *     EF BB BF      UTF-8
 *   Without a Byte Order Mark:
 *     00 00 00 3C | 3C 00 00 00 | 00 00 3C 00 | 00 3C 00 00   UCS-4 or other 32-bit code unit encoding, 1234 | 4321 | 2143 | 3412
 *     00 3C 00 3F   UTF-16BE or big-endian ISO-10646-UCS-2 or other 16-bit big-endian encoding
 *     3C 00 3F 00   UTF-16LE or little-endian ISO-10646-UCS-2 or other 16-bit little-endian encoding
 *     3C 3F 78 6D   UTF-8, ISO 646, ASCII, some part of ISO 8859, Shift-JIS, EUC, or any other 7-bit, 8-bit, or mixed-width
 *                   encoding which ensures that the characters of ASCII have their normal positions, width, and values
 *     4C 6F A7 94   EBCDIC (in some flavor)
 *     Other         UTF-8 without an encoding declaration, or else the data stream is mislabeled, corrupt, fragmentary, ...
 *
 * The two unusual UCS-4 octet orders are not among the encodings of property C05: SPEC_ENC_UNSUPPORTED, no claim.
 * F.1 says nothing about entities of fewer than four octets; such an entity cannot hold an XML declaration, so only the
 * UTF-16 (two octets) and UTF-8 (three octets) byte order marks can apply, anything else is "Other" = UTF-8.
 * The ASCII-compatible family is reported as UTF-8 ("to get through the declaration"), as F.1 itself suggests. */
#ifndef SPEC_ENCPROBE_H
#define SPEC_ENCPROBE_H
#include <stdint.h>
#include <stddef.h>

enum { SPEC_ENC_UTF8 = 1, SPEC_ENC_UTF16BE, SPEC_ENC_UTF16LE, SPEC_ENC_UCS4BE, SPEC_ENC_UCS4LE, SPEC_ENC_EBCDIC, SPEC_ENC_UNSUPPORTED };

/* how the decision was reached: by byte order mark / by the '<?xml' signature without a mark / by default */
enum { SPEC_BY_BOM = 1, SPEC_BY_SIGNATURE, SPEC_BY_DEFAULT };

#define SPEC_B4(a, b, c, d) (p[0] == (a) && p[1] == (b) && p[2] == (c) && p[3] == (d))

/* the F.1 table, decided on the first min(n, 4) octets */
static int spec_probe(const uint8_t *p, size_t n, int *how)
{
  *how = SPEC_BY_DEFAULT;
  if (n >= 4) {
    *how = SPEC_BY_BOM;
    if (SPEC_B4(0x00, 0x00, 0xFE, 0xFF)) return SPEC_ENC_UCS4BE;
    if (SPEC_B4(0xFF, 0xFE, 0x00, 0x00)) return SPEC_ENC_UCS4LE;
    if (SPEC_B4(0x00, 0x00, 0xFF, 0xFE)) return SPEC_ENC_UNSUPPORTED;
    if (SPEC_B4(0xFE, 0xFF, 0x00, 0x00)) return SPEC_ENC_UNSUPPORTED;
  }
  if (n >= 2) {
    *how = SPEC_BY_BOM;
    if (p[0] == 0xFE && p[1] == 0xFF) return SPEC_ENC_UTF16BE;     /* FE FF ## ## (and the two-octet entity FE FF) */
    if (p[0] == 0xFF && p[1] == 0xFE) return SPEC_ENC_UTF16LE;
  }
  if (n >= 3 && p[0] == 0xEF && p[1] == 0xBB && p[2] == 0xBF) { *how = SPEC_BY_BOM; return SPEC_ENC_UTF8; }
  if (n >= 4) {
    *how = SPEC_BY_SIGNATURE;
    if (SPEC_B4(0x00, 0x00, 0x00, 0x3C)) return SPEC_ENC_UCS4BE;
    if (SPEC_B4(0x3C, 0x00, 0x00, 0x00)) return SPEC_ENC_UCS4LE;
    if (SPEC_B4(0x00, 0x00, 0x3C, 0x00)) return SPEC_ENC_UNSUPPORTED;
    if (SPEC_B4(0x00, 0x3C, 0x00, 0x00)) return SPEC_ENC_UNSUPPORTED;
    if (SPEC_B4(0x00, 0x3C, 0x00, 0x3F)) return SPEC_ENC_UTF16BE;
    if (SPEC_B4(0x3C, 0x00, 0x3F, 0x00)) return SPEC_ENC_UTF16LE;
    if (SPEC_B4(0x3C, 0x3F, 0x78, 0x6D)) return SPEC_ENC_UTF8;
    if (SPEC_B4(0x4C, 0x6F, 0xA7, 0x94)) return SPEC_ENC_EBCDIC;
  }
  *how = SPEC_BY_DEFAULT;
  return SPEC_ENC_UTF8;
}

/* XML 1.0 production [23] XMLDecl ::= '<?xml' VersionInfo ...,  [24] VersionInfo ::= S 'version' ...,  [3] S ::= (#x20 | #x9 | #xD | #xA)+
 * Does the entity begin with '<?xml' followed by one blank, spelled in encoding enc?  Returns 0 no (or not completely inside
 * the n octets), 1 yes with #x20, 2 yes with #x9 / #xD / #xA (for EBCDIC also NEL, octet 15, which EBCDIC text uses as line end). */
static int spec_xmldecl_start(const uint8_t *p, size_t n, int enc)
{
  static const uint8_t ascii[5] = { 0x3C, 0x3F, 0x78, 0x6D, 0x6C };    /* < ? x m l  (ISO 646) */
  static const uint8_t ebcdic[5] = { 0x4C, 0x6F, 0xA7, 0x94, 0x93 };   /* < ? x m l  (EBCDIC invariant positions, cp037/cp1047/cp1140) */
  size_t w = (enc == SPEC_ENC_UCS4BE || enc == SPEC_ENC_UCS4LE) ? 4 : (enc == SPEC_ENC_UTF16BE || enc == SPEC_ENC_UTF16LE) ? 2 : 1;
  int big = (enc == SPEC_ENC_UCS4BE || enc == SPEC_ENC_UTF16BE);
  if (n < 6 * w) return 0;
  for (size_t i = 0; i < 6; i++) {
    /* the code unit i, octet by octet */
    uint32_t v = 0;
    for (size_t k = 0; k < w; k++) v = big ? ((v << 8) | p[i * w + k]) : (v | ((uint32_t)p[i * w + k] << (8 * k)));
    if (i < 5) { if (v != (enc == SPEC_ENC_EBCDIC ? ebcdic[i] : ascii[i])) return 0; }
    else if (enc == SPEC_ENC_EBCDIC) return v == 0x40 ? 1 : (v == 0x05 || v == 0x0D || v == 0x25 || v == 0x15) ? 2 : 0;
    else return v == 0x20 ? 1 : (v == 0x09 || v == 0x0D || v == 0x0A) ? 2 : 0;
  }
  return 0;
}
#endif
