/* Models of the few ISO C library functions the extracted code calls and cbmc 6.11 has no (or no precise) body for.
 * Written from ISO/IEC 9899:1999, section numbers at each function; base 10 only (the only base the callers use). */
#ifndef SPEC_LIBC_MODEL_H
#define SPEC_LIBC_MODEL_H
#include <stddef.h>
#include <limits.h>
#include <errno.h>

int verif_errno;      /* stands for errno (the extracted code's `errno` is mapped to it by a sub rule) */

/* 7.4.1.10 isspace in the "C" locale */
#define SPEC_C_ISSPACE(c) ((c) == ' ' || (c) == '\t' || (c) == '\n' || (c) == '\v' || (c) == '\f' || (c) == '\r')

/* magnitude of the longest digit prefix of p, saturating at ULONG_MAX (*over = 1); *len = number of digits */
static unsigned long spec_digits_value(const char *p, size_t *len, int *over)
{
  unsigned long v = 0;
  size_t k = 0;
  *over = 0;
  while (p[k] >= '0' && p[k] <= '9') {
    unsigned long d = (unsigned long)(p[k] - '0');
    if (v > ULONG_MAX / 10 || (v == ULONG_MAX / 10 && d > ULONG_MAX % 10)) { *over = 1; v = ULONG_MAX; }
    else if (!*over) v = v * 10 + d;
    k++;
  }
  *len = k;
  return v;
}
/* 7.20.1.4 strtoul(nptr, endptr, 10): white space, optional sign, digits; "If the subject sequence begins with a minus
 * sign, the value resulting from the conversion is negated (in the return type)"; no conversion: 0 and *endptr = nptr;
 * out of range: ULONG_MAX and errno = ERANGE */
static unsigned long spec_strtoul10(const char *nptr, char **endptr)
{
  size_t i = 0, len; int neg = 0, over;
  while (SPEC_C_ISSPACE(nptr[i])) i++;
  if (nptr[i] == '+' || nptr[i] == '-') { neg = (nptr[i] == '-'); i++; }
  unsigned long v = spec_digits_value(nptr + i, &len, &over);
  if (len == 0) { if (endptr) *endptr = (char *)nptr; return 0; }
  if (endptr) *endptr = (char *)nptr + i + len;
  if (over) { verif_errno = ERANGE; return ULONG_MAX; }
  return neg ? (0ul - v) : v;
}
/* 7.20.1.4 strtol(nptr, endptr, 10): as above; out of range: LONG_MAX / LONG_MIN and errno = ERANGE */
static long spec_strtol10(const char *nptr, char **endptr)
{
  size_t i = 0, len; int neg = 0, over;
  while (SPEC_C_ISSPACE(nptr[i])) i++;
  if (nptr[i] == '+' || nptr[i] == '-') { neg = (nptr[i] == '-'); i++; }
  unsigned long v = spec_digits_value(nptr + i, &len, &over);
  if (len == 0) { if (endptr) *endptr = (char *)nptr; return 0; }
  if (endptr) *endptr = (char *)nptr + i + len;
  if (!neg && (over || v > (unsigned long)LONG_MAX)) { verif_errno = ERANGE; return LONG_MAX; }
  if (neg && (over || v > (unsigned long)LONG_MAX + 1ul)) { verif_errno = ERANGE; return LONG_MIN; }
  if (neg) return (v == (unsigned long)LONG_MAX + 1ul) ? LONG_MIN : -(long)v;
  return (long)v;
}
#endif
