/* Pure specification functions for the date/time kernels, written from
 *   - XML Schema Part 2: Datatypes (Second Edition), Appendix E "Adding durations to dateTimes" (E.1 Algorithm), and
 *     section 3.2.7 (dateTime value space, order relation 3.2.7.4),
 *   - ISO 8601 / the proleptic Gregorian calendar (month lengths, leap-year rule),
 *   - ISO C99 7.20.6.2 (div),
 * not from the xerces sources.  All arithmetic in 64 bit so that the specification itself never overflows on the
 * 32-bit field values the code uses. */
#ifndef SPEC_GREGORIAN_H
#define SPEC_GREGORIAN_H
#include <stdint.h>
#include <stdlib.h>

/* SPEC_INT_T may be set to int by a unit that bounds its inputs so that nothing overflows (cbmc's signed-overflow
 * check covers the specification functions too, so a wrong bound shows up as a failed obligation, not as a wrong proof) */
#ifndef SPEC_INT_T
#define SPEC_INT_T long long
#endif
typedef SPEC_INT_T spec_int;

/* Appendix E: "fQuotient(a, b) = the greatest integer less than or equal to a/b"   (b > 0).
 * Written with / and % only (no multiplication: cbmc's overflow check on a 64-bit product is very expensive). */
static spec_int spec_fquot(spec_int a, spec_int b)
{
  spec_int q = a / b;                 /* C: truncation toward zero */
  if ((a % b) < 0) q -= 1;            /* negative non-multiple: floor is one below the truncated quotient */
  return q;
}
/* Appendix E: "modulo(a, b) = a - fQuotient(a,b)*b"  =  the unique r in [0, b) congruent to a */
static spec_int spec_modulo(spec_int a, spec_int b)
{
  spec_int r = a % b;                 /* C: sign of the dividend */
  if (r < 0) r += b;
  return r;
}
/* Appendix E: "fQuotient(a, low, high) = fQuotient(a - low, high - low)" */
static spec_int spec_fquot3(spec_int a, spec_int low, spec_int high) { return spec_fquot(a - low, high - low); }
/* Appendix E: "modulo(a, low, high) = modulo(a - low, high - low) + low" */
static spec_int spec_modulo3(spec_int a, spec_int low, spec_int high) { return spec_modulo(a - low, high - low) + low; }

/* Gregorian leap-year rule as Appendix E states it inside maximumDayInMonthFor:
 *   "modulo(Y, 400) = 0 OR (modulo(Y, 100) != 0) AND modulo(Y, 4) = 0" */
static int spec_is_leap(spec_int y)
{
  return spec_modulo(y, 400) == 0 || (spec_modulo(y, 100) != 0 && spec_modulo(y, 4) == 0);
}

/* Appendix E maximumDayInMonthFor(yearValue, monthValue):
 *   M := modulo(monthValue, 1, 13);  Y := yearValue + fQuotient(monthValue, 1, 13)
 *   31 if M = 1,3,5,7,8,10,12;  30 if M = 4,6,9,11;  29 if M = 2 and Y leap;  28 otherwise
 * (defined for every integer monthValue: month 0 is December of the previous year, 13 January of the next) */
static int spec_max_day_in_month(spec_int year, spec_int month)
{
  spec_int M = spec_modulo3(month, 1, 13);
  spec_int Y = year + spec_fquot3(month, 1, 13);
  if (M == 4 || M == 6 || M == 9 || M == 11) return 30;
  if (M == 2) return spec_is_leap(Y) ? 29 : 28;
  return 31;
}

/* Days from 0000-03-01 (proleptic Gregorian, astronomical year numbering) to year-month-day, month in 1..12.
 * Written from the calendar rules: a year has 365 days + 1 if leap; counting years from March puts the leap day last.
 * Used to state "normalisation preserves the instant" without reference to the code's carry loop. */
static spec_int spec_days_from_civil(spec_int y, spec_int m, spec_int d)
{
  spec_int yy = (m <= 2) ? y - 1 : y;          /* year starting in March */
  spec_int mp = (m <= 2) ? m + 9 : m - 3;      /* March = 0 ... February = 11 */
  /* days before month mp in a March-based year: 31,30,31,30,31,31,30,31,30,31,31 */
  static const int cum[12] = {0, 31, 61, 92, 122, 153, 184, 214, 245, 275, 306, 337};
  spec_int leaps = spec_fquot(yy, 4) - spec_fquot(yy, 100) + spec_fquot(yy, 400);
  return yy * 365 + leaps + cum[mp] + (d - 1);
}

/* The same two Gregorian rules as side-effect-free macros (loop invariants must not contain function calls).
 * "y % k == 0" in C is exact divisibility also for negative y, so no floor-modulo is needed here.  m in 1..12. */
#define SPEC_IS_LEAP_M(y) (((y) % 400 == 0) || (((y) % 100 != 0) && ((y) % 4 == 0)))
#define SPEC_MAXDAY_M(y, m) (((m) == 4 || (m) == 6 || (m) == 9 || (m) == 11) ? 30 : ((m) == 2) ? (SPEC_IS_LEAP_M(y) ? 29 : 28) : 31)

/* Calendar successor / predecessor of a day (proleptic Gregorian, plain integer year numbering), from the calendar
 * rules alone: the day after the last day of a month is the 1st of the next month, the month after December is
 * January of the next year.  m in 1..12, 1 <= d <= SPEC_MAXDAY_M(y, m). */
typedef struct { int y, m, d; } spec_date;
static spec_date spec_next_day(int y, int m, int d)
{
  spec_date r = { y, m, d + 1 };
  if (d >= SPEC_MAXDAY_M(y, m)) { r.d = 1; if (m == 12) { r.m = 1; r.y = y + 1; } else r.m = m + 1; }
  return r;
}
static spec_date spec_prev_day(int y, int m, int d)
{
  spec_date r = { y, m, d - 1 };
  if (d <= 1) {
    if (m == 1) { r.y = y - 1; r.m = 12; r.d = 31; }              /* the day before 1 January is 31 December */
    else { r.m = m - 1; r.d = SPEC_MAXDAY_M(y, m - 1); }          /* last day of the previous month, same year */
  }
  return r;
}

#ifdef SPEC_NEED_DIV_MODEL
/* ISO C99 7.20.6.2: "The div ... functions compute numer / denom and numer % denom in a single operation." */
div_t div(int numer, int denom)
{
  div_t r;
  r.quot = numer / denom;
  r.rem = numer % denom;
  return r;
}
#endif
#endif
