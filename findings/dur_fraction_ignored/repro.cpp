// Durations that differ only in the fractional part of the seconds compare EQUAL.
// parseDuration() stores the fraction in fMilliSecond but never sets fHasTime; compareOrder() looks at fMilliSecond
// only `if (lTemp.fHasTime)`, and addDuration() resets it anyway.  So XMLDateTime::compare(PT0.1S, PT0.2S, strict) and
// the duration datatype validator's compare() return EQUAL (0): enumeration / fixed-value / min-max facets on
// xs:duration treat PT0.1S, PT0.2S, PT0.9S as the same value (XML Schema Part 2, 3.2.6: seconds is a decimal).
// Build: g++ -I/repo/src -I/repo/_build/src repro.cpp /repo/_build/src/libxerces-c-4.0.so -Wl,-rpath,/repo/_build/src -o repro
#include <xercesc/util/PlatformUtils.hpp>
#include <xercesc/util/XMLDateTime.hpp>
#include <xercesc/util/XMLString.hpp>
#include <xercesc/validators/datatype/DatatypeValidatorFactory.hpp>
#include <xercesc/validators/datatype/DatatypeValidator.hpp>
#include <xercesc/validators/schema/SchemaSymbols.hpp>
#include <cstdio>
using namespace xercesc;
int main()
{
    XMLPlatformUtils::Initialize();
    int bad = 0;
    {
        const char* pairs[][2] = { {"PT0.1S", "PT0.2S"}, {"PT1.5S", "PT1.25S"}, {"-PT0.1S", "-PT0.9S"}, {"P1DT0.001S", "P1D"} };
        DatatypeValidatorFactory f;
        DatatypeValidator* dv = f.getDatatypeValidator(SchemaSymbols::fgDT_DURATION);
        for (auto& p : pairs) {
            XMLCh* a = XMLString::transcode(p[0]); XMLCh* b = XMLString::transcode(p[1]);
            int r;
            { XMLDateTime d1(a), d2(b); d1.parseDuration(); d2.parseDuration(); r = XMLDateTime::compare(&d1, &d2, true); }
            int v = dv->compare(a, b, XMLPlatformUtils::fgMemoryManager);
            printf("XMLDateTime::compare(%s, %s, strict) = %d   DurationDatatypeValidator::compare = %d   (0 = EQUAL; expected non-zero)\n", p[0], p[1], r, v);
            if (r == 0 || v == 0) bad++;
            XMLString::release(&a); XMLString::release(&b);
        }
    }
    printf(bad ? "DEFECT REPRODUCED (%d pairs of different durations compare EQUAL)\n" : "no defect observed\n", bad);
    XMLPlatformUtils::Terminate();
    return bad ? 1 : 0;
}
