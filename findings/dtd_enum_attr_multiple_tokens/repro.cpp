// C07 (enumerated attribute types).  DTDValidator::validateAttrValue treats NOTATION and enumeration attributes as
// multi-valued (`multipleValues` is true for XMLAttDef::Notation and XMLAttDef::Enumeration): the value is split at spaces and
// EVERY token is looked up in the declared list.  XML 1.0 3.3.1, VC Enumeration / VC Notation Attributes: the value MUST match
// ONE of the listed tokens, so `a b` violates the declaration x (a|b); Xerces reports no validity error (attribute in the
// instance and as a default value in the ATTLIST alike).  Unit: dtd_attcheck_enum (fails with exactly this shape; with values
// that contain no space it is proved).
// build: g++ -I/repo/src -I/repo/_build/src repro.cpp /repo/_build/src/libxerces-c-4.0.so -Wl,-rpath,/repo/_build/src -o repro
#include <xercesc/util/PlatformUtils.hpp>
#include <xercesc/util/XMLString.hpp>
#include <xercesc/parsers/SAXParser.hpp>
#include <xercesc/sax/HandlerBase.hpp>
#include <xercesc/framework/MemBufInputSource.hpp>
#include <string>
#include <cstdio>
using namespace xercesc;
struct H : HandlerBase { std::string msg; int n = 0;
  void error(const SAXParseException& e) override { n++; char* m = XMLString::transcode(e.getMessage()); msg += std::string("[") + m + "]"; XMLString::release(&m); }
  void fatalError(const SAXParseException& e) override { error(e); } };
static int errors(const std::string& doc) {
  SAXParser p; H h; p.setErrorHandler(&h); p.setValidationScheme(SAXParser::Val_Always);
  MemBufInputSource src((const XMLByte*)doc.data(), doc.size(), "mem");
  p.parse(src);
  printf("%s\n   -> %d validity error(s) %s\n", doc.c_str(), h.n, h.msg.c_str());
  return h.n;
}
int main() {
  XMLPlatformUtils::Initialize();
  int bad = 0;
  {
    const std::string dtd = "<!DOCTYPE e [<!ELEMENT e ANY><!NOTATION n SYSTEM 'n'><!NOTATION m SYSTEM 'm'>"
                            "<!ATTLIST e x (a|b) #IMPLIED y NOTATION (n|m) #IMPLIED>]>";
    if (errors(dtd + "<e x='c'/>") == 0) bad = 1;          // control: a value outside the list is reported
    if (errors(dtd + "<e x='a b'/>") == 0) bad |= 2;        // two listed tokens: not ONE of the tokens -> must be reported
    if (errors(dtd + "<e y='n m'/>") == 0) bad |= 4;        // same for NOTATION
    if (errors("<!DOCTYPE e [<!ELEMENT e ANY><!ATTLIST e x (a|b) 'b a'>]><e/>") == 0) bad |= 8;   // an illegal default value
  }
  puts((bad & ~1) ? "DEFECT REPRODUCED: a value made of several listed tokens is accepted for an enumerated / NOTATION attribute" : "ok");
  XMLPlatformUtils::Terminate();
  return bad;
}
