// Negative durations: parseDuration() stores the sign as fValue[utc] = UTC_NEG.  compareOrder() calls normalize() on
// its copies, and normalize() takes UTC_NEG for a '-hh:mm' time zone: it pushes the (negative) month and day fields
// of the duration through the *date* carry loop, converting days into months.  Two different negative durations can
// normalise to the same field vector, and XMLDateTime::compare(d1, d2, strict) returns EQUAL from its first shortcut
// (`compareOrder(pDate1, pDate2) == EQUAL`) where XML Schema Part 2, 3.2.6.2 says INDETERMINATE (and where the same
// pair without the sign is reported INDETERMINATE).
// Build: g++ -I/repo/src -I/repo/_build/src repro.cpp /repo/_build/src/libxerces-c-4.0.so -Wl,-rpath,/repo/_build/src -o repro
#include <xercesc/util/PlatformUtils.hpp>
#include <xercesc/util/XMLDateTime.hpp>
#include <xercesc/util/XMLString.hpp>
#include <cstdio>
using namespace xercesc;
static int cmp(const char* x, const char* y, bool strict)
{
    XMLCh* a = XMLString::transcode(x); XMLCh* b = XMLString::transcode(y);
    int r;
    { XMLDateTime d1(a), d2(b); d1.parseDuration(); d2.parseDuration(); r = XMLDateTime::compare(&d1, &d2, strict); }
    XMLString::release(&a); XMLString::release(&b);
    return r;
}
int main()
{
    XMLPlatformUtils::Initialize();
    int bad = 0;
    const char* pairs[][2] = { {"P1M", "P30D"}, {"-P1M", "-P30D"}, {"P1Y", "P365D"}, {"-P1Y", "-P365D"}, {"-P30D", "-P1M"} };
    puts("0 EQUAL, -1 LESS, 1 GREATER, 2 INDETERMINATE; all five pairs are INDETERMINATE per 3.2.6.2");
    for (auto& p : pairs) {
        int s = cmp(p[0], p[1], true), n = cmp(p[0], p[1], false);
        printf("compare(%-6s, %-7s) strict=%d non-strict=%d\n", p[0], p[1], s, n);
        if (s == 0 || n == 0) bad++;
    }
    printf(bad ? "DEFECT REPRODUCED (%d pairs of different durations compare EQUAL)\n" : "no defect observed\n", bad);
    XMLPlatformUtils::Terminate();
    return bad ? 1 : 0;
}
