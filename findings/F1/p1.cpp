#include <xercesc/util/PlatformUtils.hpp>
#include <xercesc/parsers/SAXParser.hpp>
#include <xercesc/sax/HandlerBase.hpp>
#include <xercesc/framework/MemBufInputSource.hpp>
#include <xercesc/util/XMLString.hpp>
#include <cstdio>
#include <vector>
#include <fstream>
using namespace xercesc;
struct H : HandlerBase {
  int n=0;
  void fatalError(const SAXParseException& e) override { if(n++<5){char*m=XMLString::transcode(e.getMessage()); printf("fatal@%lu:%lu %s\n",(unsigned long)e.getLineNumber(),(unsigned long)e.getColumnNumber(),m); XMLString::release(&m);} }
  void error(const SAXParseException& e) override { if(n++<5){char*m=XMLString::transcode(e.getMessage()); printf("error %s\n",m); XMLString::release(&m);} }
  void startElement(const XMLCh* const name, AttributeList&) override { printf("start len=%lu\n",(unsigned long)XMLString::stringLen(name)); }
};
int main(int argc,char**argv){
  XMLPlatformUtils::Initialize();
  std::ifstream f(argv[1],std::ios::binary); std::vector<char> b((std::istreambuf_iterator<char>(f)),std::istreambuf_iterator<char>());
  bool exitFirst = argc>2 ? atoi(argv[2]) : 1;
  {
  SAXParser p; H h; p.setDocumentHandler(&h); p.setErrorHandler(&h); p.setExitOnFirstFatalError(exitFirst);
  MemBufInputSource src((const XMLByte*)b.data(), b.size(), "mem");
  try { p.parse(src); printf("done errs=%d\n",(int)p.getErrorCount()); } catch(const XMLException&e){char*m=XMLString::transcode(e.getMessage());printf("XMLException %s\n",m);} catch(const SAXParseException&e){printf("SAXParseException\n");} catch(...){printf("other exc\n");}
  }
  XMLPlatformUtils::Terminate();
}
