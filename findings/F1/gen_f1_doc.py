# Generates the UTF-16LE document that reproduces F1 (XMLReader::getName surrogate look-ahead).
# Run p1 on it with exit-on-first-fatal off: ./p1 t1.xml 0
import struct, sys
def u16(s): return b''.join(struct.pack('<H', c) for c in s)
N = 16384
chars = [ord(c) for c in '<a>']
chars += [ord('x')] * (N - len(chars))
chars += [0xD800, 0xDC00]          # lands at index 0,1 of the second buffer fill
chars += [ord('y')] * 100
chars += [ord('<'), ord('b'), 0xD800]  # lone lead surrogate is the last character of the entity
open(sys.argv[1] if len(sys.argv) > 1 else 't1.xml', 'wb').write(b'\xff\xfe' + u16(chars))
