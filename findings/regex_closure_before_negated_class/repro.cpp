// C11, unit c11_tokenoverlap, obligation "a closure whose character class overlaps the first characters of what follows is not
// compiled as non-backtracking".
// RegularExpression::doTokenOverlap intersected the STORED ranges of a negated class ([^x] stores {x}) with the closure's class:
// [a-c]*[^x] was compiled as a non-backtracking closure, which swallows the 'b' that [^x] needs: "ab" was rejected.
// build: g++ -I/repo/src -I/repo/_build/src repro.cpp /repo/_build/src/libxerces-c-4.0.so -Wl,-rpath,/repo/_build/src -o repro
#include <xercesc/util/PlatformUtils.hpp>
#include <xercesc/util/regx/RegularExpression.hpp>
#include <cstdio>
using namespace xercesc;
static int bad = 0;
static void t(const char* pat, const char* s, const char* opt, bool expect) {
  bool r = false;
  try { RegularExpression re(pat, opt); r = re.matches(s); } catch (...) { printf("%s: exception\n", pat); bad = 1; return; }
  printf("%-14s opt=%-2s %-5s -> %-8s (expected %s)%s\n", pat, opt, s, r ? "match" : "no match", expect ? "match" : "no match", r == expect ? "" : "   <-- WRONG");
  if (r != expect) bad = 1;
}
int main() { XMLPlatformUtils::Initialize();
  t("[a-c]*[^x]", "ab", "X", true); t("[a-c]*[^x]", "ab", "", true); t("^[a-c]*[^x]$", "ab", "", true);
  t("[a-c]*[^x]", "abd", "X", true); t("[a-c]*[^a]", "ab", "X", true); t("[a-c]*[^x]", "abx", "X", false); t("[0-9]*[^.]", "12", "X", true);
  XMLPlatformUtils::Terminate(); printf(bad ? "DEFECT REPRODUCED\n" : "ok\n"); return bad; }
