// C12 / C01, unit fmt_special (XMLFormatter::specialFormat = formatBuf with UnRep_CharRef), failing obligations
//   XMLFormatter_specialFormat.pointer_dereference "pointer outside object bounds in *srcPtr"  (XMLFormatter.cpp:708)
//   XMLFormatter_specialFormat.pointer_dereference "pointer outside object bounds in *tmpPtr"  (XMLFormatter.cpp:699)
//   XMLFormatter_writeCharRef_sz.precondition  (the pair lies inside the text / second unit is a trail surrogate /
//                                               the value is the code point the pair encodes)
//
// (1) after every character reference:   srcPtr++;  if (fXCoder->canTranscodeTo(*srcPtr)) break;
//     reads toFormat[count] when the referenced character was the last one: an over-read by one XMLCh for any
//     (pointer, count) text that is not followed by readable memory (formatBuf's interface does not ask for a terminator).
// (2) a leading surrogate is combined with WHATEVER follows, without looking at it and without checking that it is inside
//     the text:  {D800, 'A'} -> one reference "&#x2441;" and the 'A' is lost;  {'A', D800} -> reads toFormat[count] (and,
//     through the double srcPtr++, toFormat[count+1]) and emits a reference computed from the terminator ("&#x2400;").
//     C12: "content that cannot be expressed as well-formed XML is reported as an error rather than emitted".
//
// build: g++ -g -I/repo/src -I/repo/_build/src repro.cpp /repo/_build/src/libxerces-c-4.0.so -Wl,-rpath,/repo/_build/src -o repro
// run:   ./repro            (wrong output, part 2)
//        valgrind -q ./repro overread     (part 1: "Invalid read of size 2 ... XMLFormatter::specialFormat")
#include <xercesc/util/PlatformUtils.hpp>
#include <xercesc/framework/XMLFormatter.hpp>
#include <xercesc/framework/MemBufFormatTarget.hpp>
#include <cstdio>
#include <cstring>
#include <cstdlib>
using namespace xercesc;

static void show(const char* what, const XMLCh* s, XMLSize_t n) {
  MemBufFormatTarget tgt;
  XMLFormatter f("ISO-8859-1", "1.0", &tgt, XMLFormatter::CharEscapes, XMLFormatter::UnRep_CharRef);
  try { f.formatBuf(s, n, XMLFormatter::CharEscapes); printf("%-28s -> \"%s\"\n", what, (const char*)tgt.getRawBuffer()); }
  catch (...) { printf("%-28s -> exception (the correct outcome for ill-formed UTF-16)\n", what); }
}

int main(int argc, char** argv) {
  XMLPlatformUtils::Initialize();
  int bad = 0;
  if (argc > 1 && !strcmp(argv[1], "overread")) {
    // exactly one element on the heap: U+20AC is not representable in ISO-8859-1 -> reference, then toFormat[1] is read
    XMLCh* one = (XMLCh*)malloc(sizeof(XMLCh)); one[0] = 0x20AC;
    show("{20AC}, count 1 (heap)", one, 1);
    free(one);
  } else {
    { const XMLCh ok[] = { 0xD800, 0xDC00, 0 }; show("{D800, DC00} (well-formed)", ok, 2); }
    {
      const XMLCh s[] = { 0xD800, 0x41, 0x42, 0 };
      MemBufFormatTarget tgt;
      XMLFormatter f("ISO-8859-1", "1.0", &tgt, XMLFormatter::CharEscapes, XMLFormatter::UnRep_CharRef);
      f.formatBuf(s, 3, XMLFormatter::CharEscapes);
      printf("%-28s -> \"%s\"\n", "{D800, 'A', 'B'}", (const char*)tgt.getRawBuffer());
      if (!strstr((const char*)tgt.getRawBuffer(), "A")) { bad = 1; printf("   the 'A' has been swallowed into a bogus reference\n"); }
    }
    {
      const XMLCh s[] = { 0x41, 0xD800, 0, 0 };
      MemBufFormatTarget tgt;
      XMLFormatter f("ISO-8859-1", "1.0", &tgt, XMLFormatter::CharEscapes, XMLFormatter::UnRep_CharRef);
      f.formatBuf(s, 2, XMLFormatter::CharEscapes);
      printf("%-28s -> \"%s\"\n", "{'A', D800}, count 2", (const char*)tgt.getRawBuffer());
      if (strstr((const char*)tgt.getRawBuffer(), "&#x2400;")) { bad = 1; printf("   reference built from the element BEHIND the counted text (the terminator)\n"); }
    }
    printf("%s\n", bad ? "DEFECT REPRODUCED: ill-formed surrogate sequences are emitted as bogus references (data loss / over-read)" : "not reproduced");
  }
  XMLPlatformUtils::Terminate();
  return bad;
}
