// F3: attribute value ending in a literal U+FFFF (reported as invalid but still appended when
// exit-on-first-fatal is off) leaves a dangling 0xFFFF escape marker; normalizeAttValue steps over the terminator.
// The attribute value is 1023 characters long so that the terminator is the last element of the XMLBuffer allocation.
#include <xercesc/util/PlatformUtils.hpp>
#include <xercesc/parsers/SAXParser.hpp>
#include <xercesc/sax/HandlerBase.hpp>
#include <xercesc/framework/MemBufInputSource.hpp>
#include <string>
#include <cstdio>
using namespace xercesc;
struct H : HandlerBase { int n = 0; void fatalError(const SAXParseException&) override { n++; } void error(const SAXParseException&) override { n++; } };
int main(int argc, char** argv) {
  XMLPlatformUtils::Initialize();
  int len = argc > 1 ? atoi(argv[1]) : 1023;
  std::string doc = "<?xml version='1.0' encoding='UTF-8'?><a b='";
  doc += std::string(len - 1, 'x');
  doc += "\xEF\xBF\xBF";           // U+FFFF
  doc += "'/>";
  {
    SAXParser p; H h; p.setDocumentHandler(&h); p.setErrorHandler(&h); p.setExitOnFirstFatalError(false); p.setDoNamespaces(true);
    MemBufInputSource src((const XMLByte*)doc.data(), doc.size(), "mem");
    try { p.parse(src); } catch (...) { printf("exception\n"); }
    printf("parsed, errors reported: %d\n", h.n);
  }
  XMLPlatformUtils::Terminate();
}
