// Table-driven single-byte transcoders (XML256TableTranscoder + the real tables): four departures from the strict reading
// of C05 ("encoding yields exactly the legal byte sequence or an unrepresentable-character report", "decoding a legal byte
// sequence yields exactly its code point").  Found by units tbl_*_strict_w (items 1-3, every code page) and tbl_ibm1047_w (item 4):
//  1. canTranscodeTo(unsigned int c) truncates c to 16 bits: canTranscodeTo(0x10041) is true ('A').       [h_tbl256_w.assertion.1, c = 0x8001001A]
//  2. U+0000 can never be encoded: xlatOneTo uses 0 as "not found", so canTranscodeTo(0) is false and transcodeTo
//     throws / substitutes for NUL although byte 00 decodes to U+0000.                                      [h_tbl256_w.assertion.2, c = 0]
//  3. best-fit entries in the to-tables (U+FF01..U+FF5E etc.): transcodeTo(UnRep_Throw) silently encodes e.g. U+FF1E
//     FULLWIDTH GREATER-THAN SIGN as '>' instead of reporting it.                                          [h_tbl256_w.assertion.3/.4, c = 0xFF1E]
//  4. IBM1047 only: bytes 15 and 25 both decode to U+000A (IBM-1047 has NEL U+0085 at 15; the to-table maps U+0085 to 15),
//     so decode is not injective and U+0085 does not survive a round trip.        [tbl_check_bytes.assertion.2 "xlatOneTo(fromTable[b]) == b", b = 0x15]
// build: g++ -I/repo/src -I/repo/_build/src repro.cpp /repo/_build/src/libxerces-c-4.0.so -Wl,-rpath,/repo/_build/src -o repro
// exit code: bit k-1 set = item k reproduced
#include <xercesc/util/PlatformUtils.hpp>
#include <xercesc/util/TransService.hpp>
#include <xercesc/util/XMLUniDefs.hpp>
#include <xercesc/util/XMLString.hpp>
#include <cstdio>
using namespace xercesc;

static XMLTranscoder* make(const char* name)
{
    XMLTransService::Codes rc;
    XMLTranscoder* t = XMLPlatformUtils::fgTransService->makeNewTranscoderFor(name, rc, 1024, XMLPlatformUtils::fgMemoryManager);
    if (!t) { printf("no transcoder for %s\n", name); }
    return t;
}

int main()
{
    XMLPlatformUtils::Initialize();
    int bad = 0;
    XMLTranscoder* w = make("windows-1252");
    XMLTranscoder* e = make("IBM1047");
    if (w) {
        bool c1 = w->canTranscodeTo(0x10041);
        printf("1. windows-1252 canTranscodeTo(0x10041) = %d   (expected 0)\n", c1);
        if (c1) bad |= 1;
        bool c2 = w->canTranscodeTo(0);
        const XMLCh nul[1] = { 0 }; XMLByte out[4]; XMLSize_t eaten = 0; bool threw = false;
        try { w->transcodeTo(nul, 1, out, 4, eaten, XMLTranscoder::UnRep_Throw); } catch (const XMLException&) { threw = true; }
        printf("2. windows-1252 canTranscodeTo(0) = %d, transcodeTo(U+0000, UnRep_Throw) %s   (byte 00 decodes to U+0000)\n", c2, threw ? "THROWS" : "ok");
        if (!c2 || threw) bad |= 2;
        const XMLCh fw[1] = { 0xFF1E }; eaten = 0; threw = false; out[0] = 0;
        XMLSize_t r = 0;
        try { r = w->transcodeTo(fw, 1, out, 4, eaten, XMLTranscoder::UnRep_Throw); } catch (const XMLException&) { threw = true; }
        printf("3. windows-1252 transcodeTo(U+FF1E, UnRep_Throw): %s", threw ? "reported as unrepresentable\n" : "ACCEPTED, byte ");
        if (!threw) { printf("%02X ('%c'), %lu byte(s)   (expected: report)\n", out[0], out[0], (unsigned long)r); bad |= 4; }
    }
    if (e) {
        const XMLByte src[2] = { 0x15, 0x25 }; XMLCh out[2] = { 0, 0 }; unsigned char sz[2]; XMLSize_t eaten = 0;
        e->transcodeFrom(src, 2, out, 2, eaten, sz);
        const XMLCh nel[1] = { 0x0085 }; XMLByte b[2] = { 0, 0 }; XMLSize_t ce = 0;
        e->transcodeTo(nel, 1, b, 2, ce, XMLTranscoder::UnRep_Throw);
        printf("4. IBM1047 decode(15) = U+%04X, decode(25) = U+%04X, encode(U+0085) = %02X   (IBM-1047: 15 <-> U+0085, 25 <-> U+000A)\n", out[0], out[1], b[0]);
        if (out[0] == out[1]) bad |= 8;
    }
    delete w; delete e;
    XMLPlatformUtils::Terminate();
    printf("reproduced mask = %d\n", bad);
    return bad;
}
