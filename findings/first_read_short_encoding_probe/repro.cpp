// C04 (and C05): the encoding of an entity is sensed from what the FIRST readBytes() call happens to deliver.
// XMLReader's constructor calls refreshRawBuffer() once and hands fRawBytesAvail bytes to
// XMLRecognizer::basicEncodingProbe / doInitDecode.  A stream that delivers fewer than 4 bytes in its first read
// (a socket, a pipe, an application-defined BinInputStream: readBytes may return less than asked for) makes a
// UTF-16 / UCS-4 / EBCDIC document be taken for UTF-8: the same bytes parse when they arrive in one piece and
// fail when they arrive one byte at a time.
//
// build: g++ -I/repo/src -I/repo/_build/src repro.cpp /repo/_build/src/libxerces-c-4.0.so -Wl,-rpath,/repo/_build/src -o repro
#include <xercesc/util/PlatformUtils.hpp>
#include <xercesc/util/BinInputStream.hpp>
#include <xercesc/sax/InputSource.hpp>
#include <xercesc/sax/HandlerBase.hpp>
#include <xercesc/parsers/SAXParser.hpp>
#include <xercesc/sax/SAXParseException.hpp>
#include <cstdio>
#include <cstring>
#include <string>
using namespace xercesc;

class ChunkStream : public BinInputStream {
public:
  ChunkStream(const std::string& d, XMLSize_t chunk) : fData(d), fPos(0), fChunk(chunk) {}
  XMLFilePos curPos() const { return fPos; }
  XMLSize_t readBytes(XMLByte* const toFill, const XMLSize_t maxToRead) {
    XMLSize_t n = fData.size() - fPos; if (n > maxToRead) n = maxToRead; if (n > fChunk) n = fChunk;
    memcpy(toFill, fData.data() + fPos, n); fPos += n; return n;
  }
  const XMLCh* getContentType() const { return 0; }
private:
  std::string fData; XMLSize_t fPos, fChunk;
};
class ChunkSource : public InputSource {
public:
  ChunkSource(const std::string& d, XMLSize_t chunk) : InputSource("chunk"), fData(d), fChunk(chunk) {}
  BinInputStream* makeStream() const { return new ChunkStream(fData, fChunk); }
private:
  std::string fData; XMLSize_t fChunk;
};
struct Counter : HandlerBase {
  int elems, chars, fatals; Counter() : elems(0), chars(0), fatals(0) {}
  void startElement(const XMLCh* const, AttributeList&) { elems++; }
  void characters(const XMLCh* const, const XMLSize_t n) { chars += (int)n; }
  void fatalError(const SAXParseException&) { fatals++; }
  void error(const SAXParseException&) {}
  void warning(const SAXParseException&) {}
};
static std::string run(const std::string& doc, XMLSize_t chunk)
{
  SAXParser p; Counter c; p.setDocumentHandler(&c); p.setErrorHandler(&c);
  ChunkSource src(doc, chunk);
  try { p.parse(src); } catch (...) { c.fatals += 100; }
  char b[128]; sprintf(b, "elems=%d chars=%d fatal=%d", c.elems, c.chars, c.fatals); return b;
}
static std::string utf16(const char* s, bool le, bool bom)
{
  std::string r; if (bom) r += le ? "\xFF\xFE" : "\xFE\xFF";
  for (; *s; s++) { if (le) { r += *s; r += '\0'; } else { r += '\0'; r += *s; } }
  return r;
}
int main()
{
  XMLPlatformUtils::Initialize();
  int bad = 0;
  {
    const char* text = "<?xml version=\"1.0\" encoding=\"UTF-16\"?><a><b>hello</b></a>";
    const char* plain = "<a><b>hello</b></a>";
    struct { const char* name; std::string doc; } docs[] = {
      { "UTF-16LE with BOM", utf16(text, true, true) }, { "UTF-16BE with BOM", utf16(text, false, true) },
      { "UTF-16LE, no BOM, XMLDecl", utf16(text, true, false) }, { "UTF-16LE with BOM, no XMLDecl", utf16(plain, true, true) },
      { "UTF-8 with BOM", std::string("\xEF\xBB\xBF") + plain },
    };
    for (auto& d : docs) {
      std::string whole = run(d.doc, 1 << 20);
      for (XMLSize_t chunk : { (XMLSize_t)1, (XMLSize_t)2, (XMLSize_t)3, (XMLSize_t)5 }) {
        std::string r = run(d.doc, chunk);
        bool same = (r == whole);
        printf("%-32s one piece: %-28s  %zu byte(s) per read: %-28s %s\n", d.name, whole.c_str(), (size_t)chunk, r.c_str(), same ? "" : "<-- DIFFERENT");
        if (!same) bad = 1;
      }
    }
  }
  XMLPlatformUtils::Terminate();
  printf(bad ? "DEFECT REPRODUCED\n" : "ok\n");
  return bad;
}
