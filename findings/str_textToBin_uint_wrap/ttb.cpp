// XMLString::textToBin(const XMLCh*, unsigned int&): the value is computed with strtoul (unsigned long, 64 bits on LP64)
// and cast to unsigned int; only ERANGE of strtoul (>= 2^64) is treated as overflow.  A decimal in [2^32, 2^64) is
// accepted (returns true) and delivered modulo 2^32.  (The code carries a "REVISIT: ... may truncate value on IA64" note.)
// Callers: AbstractStringValidator / AbstractNumericFacetValidator (length, minLength, maxLength, totalDigits,
// fractionDigits facet values of a schema), XMLURL (port number), XMLBigInteger::intValue.
#include <xercesc/util/PlatformUtils.hpp>
#include <xercesc/util/XMLString.hpp>
#include <cstdio>
using namespace xercesc;
int main() {
  XMLPlatformUtils::Initialize();
  XMLCh* s = XMLString::transcode("4294967297");
  unsigned int v = 77;
  bool ok = XMLString::textToBin(s, v);
  printf("textToBin(\"4294967297\") returned %d, value %u   (expected: false)\n", (int)ok, v);
  XMLString::release(&s);
  XMLPlatformUtils::Terminate();
}
