// C16, unit ser_rawbytes, obligation
//   "C16: load cursor is at stream position off + n after read (where the store cursor was): the next item is read from
//    where it was written"
//
// XSerializeEngine::read(XMLByte*, readLen): when readLen exceeds what is left in the buffer (dataAvail) and the rest
// (readLen - dataAvail) is an exact multiple of fBufSize, the "read chunks of fBufSize" loop
//        while (readRemain >= fBufSize) { fillBuffer(); memcpy(tempRead, fBufCur, fBufSize); ... }
// copies the last block WITHOUT advancing fBufCur; with readRemain == 0 nothing else moves the cursor, so the block just
// consumed is still "unread" (fBufCur == fBufStart, fBufLoadMax == fBufStart + fBufSize). The mirror-image
// write(const XMLByte*, writeLen) flushes after each whole chunk and continues at the start of a FRESH block. Every item
// read after such a read() comes from the wrong stream position (fBufSize bytes too early).
// Reached through readString / XMLCh strings (write(const XMLCh*, n)) of grammar-pool serialisation whenever a string
// crosses the buffer end and ends exactly at a buffer boundary (default fBufSize = 8192).
//
// build: g++ -I/repo/src -I/repo/_build/src repro.cpp /repo/_build/src/libxerces-c-4.0.so -Wl,-rpath,/repo/_build/src -o repro
#include <xercesc/util/PlatformUtils.hpp>
#include <xercesc/internal/XSerializeEngine.hpp>
#include <xercesc/internal/BinMemOutputStream.hpp>
#include <xercesc/util/BinMemInputStream.hpp>
#include <xercesc/framework/XMLGrammarPoolImpl.hpp>
#include <cstdio>
#include <cstring>
using namespace xercesc;

int main() {
  XMLPlatformUtils::Initialize();
  int bad = 0;
  {
    XMLGrammarPoolImpl pool(XMLPlatformUtils::fgMemoryManager);
    const XMLSize_t BS = 16;                 // engine buffer size (any size shows it; 8192 is the default)
    const XMLSize_t off = 5;                 // earlier data in the current block
    const XMLSize_t n = (BS - off) + BS;     // rest of this block + exactly one whole block
    XMLByte data[64]; for (XMLSize_t i = 0; i < n; i++) data[i] = (XMLByte)(0x40 + i);

    BinMemOutputStream out(1024);
    {
      XSerializeEngine st(&out, &pool, BS);
      for (XMLSize_t i = 0; i < off; i++) st << (XMLByte)(0x10 + i);
      st.write(data, n);
      st << (XMLByte)0x77;                   // the item stored right after the block
      st << (XMLByte)0x78;
    }                                        // destructor flushes
    printf("stream (%lu bytes), first 48:", (unsigned long)out.getSize());
    for (XMLSize_t i = 0; i < 48 && i < out.getSize(); i++) printf(" %02X", out.getRawBuffer()[i]);
    printf("\n");

    BinMemInputStream in(out.getRawBuffer(), out.getSize(), BinMemInputStream::BufOpt_Reference);
    {
      XSerializeEngine ld(&in, &pool, BS);
      XMLByte b, back[64], m1 = 0, m2 = 0;
      for (XMLSize_t i = 0; i < off; i++) ld >> b;
      ld.read(back, n);
      printf("block read back %s\n", memcmp(back, data, n) == 0 ? "intact" : "DAMAGED");
      ld >> m1; ld >> m2;
      printf("items after the block: stored 77 78, loaded %02X %02X\n", m1, m2);
      if (m1 != 0x77 || m2 != 0x78) bad = 1;
    }
  }
  printf("%s\n", bad ? "DEFECT REPRODUCED: after read(bytes, n) ending on a whole-chunk boundary the next items are read from the wrong stream position"
                     : "not reproduced");
  XMLPlatformUtils::Terminate();
  return bad;
}
