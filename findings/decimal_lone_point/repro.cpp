// XMLBigDecimal::parseDecimal (both overloads) accepts a lone decimal point: ".", "+.", "-." (also with surrounding
// white space) are taken for the number zero.  The lexical space of xs:decimal needs at least one digit
// (XML Schema Part 2, 3.2.3.1; schema-for-schemas pattern (\+|-)?([0-9]+(\.[0-9]*)?|\.[0-9]+)), so these strings must
// be rejected; the decimal datatype validator and XSValue::validate report them VALID.
// Build: g++ -I/repo/src -I/repo/_build/src repro.cpp /repo/_build/src/libxerces-c-4.0.so -Wl,-rpath,/repo/_build/src -o repro
#include <xercesc/util/PlatformUtils.hpp>
#include <xercesc/util/XMLBigDecimal.hpp>
#include <xercesc/util/XMLString.hpp>
#include <xercesc/util/XMLException.hpp>
#include <xercesc/framework/psvi/XSValue.hpp>
#include <xercesc/validators/datatype/DatatypeValidatorFactory.hpp>
#include <xercesc/validators/datatype/DatatypeValidator.hpp>
#include <xercesc/validators/schema/SchemaSymbols.hpp>
#include <cstdio>
using namespace xercesc;
int main()
{
    XMLPlatformUtils::Initialize();
    int bad = 0;
    {
        DatatypeValidatorFactory f;
        DatatypeValidator* dv = f.getDatatypeValidator(SchemaSymbols::fgDT_DECIMAL);
        const char* cases[] = { ".", "+.", "-.", " . ", "0.", ".0", "+", "1..2" };   // first four must be invalid; "0." ".0" valid; "+" "1..2" invalid
        for (const char* c : cases) {
            XMLCh* a = XMLString::transcode(c);
            bool ok = true; try { dv->validate(a, 0, XMLPlatformUtils::fgMemoryManager); } catch (const XMLException&) { ok = false; }
            XSValue::Status st; bool x = XSValue::validate(a, XSValue::dt_decimal, st);
            bool bd = true; try { XMLBigDecimal d(a); } catch (const XMLException&) { bd = false; }
            printf("'%s': decimal validator %s, XSValue::validate %d, XMLBigDecimal %s\n", c, ok ? "VALID" : "invalid", (int)x, bd ? "accepts" : "throws");
            bool has_digit = false; for (const char* p = c; *p; p++) if (*p >= '0' && *p <= '9') has_digit = true;
            if (!has_digit && (ok || x || bd)) bad++;
            XMLString::release(&a);
        }
    }
    printf(bad ? "DEFECT REPRODUCED (%d digit-less strings accepted as xs:decimal)\n" : "no defect observed\n", bad);
    XMLPlatformUtils::Terminate();
    return bad ? 1 : 0;
}
