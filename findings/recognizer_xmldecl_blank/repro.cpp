// XMLRecognizer::basicEncodingProbe recognises the no-BOM signatures of UTF-16 / UCS-4 / EBCDIC only when the entity begins with
// '<?xml' followed by a SPACE (it memcmp()s the six-character prefix "<?xml ").  XML 1.0 production [24]/[3] allows TAB, CR or LF
// there, and Appendix F.1 decides on the first four octets.  A well-formed document whose XML declaration reads "<?xml\tversion=..."
// in UTF-16BE/LE (labelled, hence without BOM), UCS-4 or EBCDIC is therefore probed as UTF-8 and rejected.
// Found by unit recognizer_strict_w, obligation h_recognizer.assertion.2 "C05-strict: '<?xml' followed by TAB / CR / LF ... is
// detected"; cbmc counterexample: 00 00 00 3C 00 00 00 3F 00 00 00 78 00 00 00 6D 00 00 00 6C 00 00 00 0D ..., rawByteCount = 26.
// build: g++ -I/repo/src -I/repo/_build/src repro.cpp /repo/_build/src/libxerces-c-4.0.so -Wl,-rpath,/repo/_build/src -o repro
// exit code 1 = reproduced (the SPACE variant parses, the TAB variant of the same document does not)
#include <xercesc/util/PlatformUtils.hpp>
#include <xercesc/parsers/XercesDOMParser.hpp>
#include <xercesc/framework/MemBufInputSource.hpp>
#include <xercesc/framework/XMLRecognizer.hpp>
#include <xercesc/sax/HandlerBase.hpp>
#include <xercesc/dom/DOM.hpp>
#include <cstdio>
#include <string>
using namespace xercesc;

struct Quiet : HandlerBase {
    int errs; Quiet() : errs(0) {}
    void error(const SAXParseException&) { errs++; }
    void fatalError(const SAXParseException&) { errs++; }
    void warning(const SAXParseException&) {}
};

static std::string utf16be(const std::string& a) { std::string r; for (size_t i = 0; i < a.size(); i++) { r += '\0'; r += a[i]; } return r; }

static int parse(const std::string& bytes, const char* what)
{
    XMLRecognizer::Encodings e = XMLRecognizer::basicEncodingProbe((const XMLByte*)bytes.data(), bytes.size());
    XercesDOMParser p; Quiet q; p.setErrorHandler(&q);
    MemBufInputSource src((const XMLByte*)bytes.data(), bytes.size(), "mem");
    bool ok = true;
    try { p.parse(src); } catch (...) { ok = false; }
    ok = ok && q.errs == 0 && p.getDocument() && p.getDocument()->getDocumentElement();
    printf("%-40s probe=%d (UTF_16B=%d, UTF_8=%d)  parse %s\n", what, (int)e, (int)XMLRecognizer::UTF_16B, (int)XMLRecognizer::UTF_8, ok ? "OK" : "FAILED");
    return ok;
}

int main()
{
    XMLPlatformUtils::Initialize();
    int r;
    {
        bool a = parse(utf16be("<?xml version=\"1.0\" encoding=\"UTF-16BE\"?><a/>"), "UTF-16BE, no BOM, '<?xml' SPACE");
        bool b = parse(utf16be("<?xml\tversion=\"1.0\" encoding=\"UTF-16BE\"?><a/>"), "UTF-16BE, no BOM, '<?xml' TAB");
        r = (a && !b) ? 1 : 0;
    }
    XMLPlatformUtils::Terminate();
    printf(r ? "reproduced\n" : "not reproduced\n");
    return r;
}
