// C16, unit ser_cls_XMLDateTime_ms, obligations "C16: store then load restores the field fMilliSecond" / "... fHasTime"
//
// XMLDateTime::serialize (src/xercesc/util/XMLDateTime.cpp) writes fValue[], fTimeZone[], fStart, fEnd and fBuffer but
// neither fMilliSecond (the fraction of a second: fValue[MiliSecond] is "not to be used directly") nor fHasTime.  The load
// branch leaves both at the constructor values (0, false).  XMLDateTime objects travel in a serialised grammar pool as the
// values of the minInclusive / maxInclusive / minExclusive / maxExclusive / enumeration facets of the date/time types
// (AbstractNumericFacetValidator::storeClusive -> serEng<<data; XMLNumber::loadNumber), and XMLDateTime::compareOrder
// compares fMilliSecond whenever either operand has fHasTime.  So a facet bound with a fraction of a second is silently
// truncated to the whole second by serializeGrammars + deserializeGrammars: the restored pool gives a different verdict.
//
//   schema:    <xs:restriction base="xs:dateTime"><xs:maxInclusive value="2000-01-01T12:00:00.5Z"/>
//   instance:  <t>2000-01-01T12:00:00.4Z</t>     valid against the original pool, INVALID against the restored pool
//   instance:  <u>12:00:00.7</u> against minInclusive 12:00:00.9 (xs:time): invalid against the original, VALID against the restored pool
//
// build: g++ -I/repo/src -I/repo/_build/src repro.cpp /repo/_build/src/libxerces-c-4.0.so -Wl,-rpath,/repo/_build/src -o repro
#include <xercesc/util/PlatformUtils.hpp>
#include <xercesc/internal/BinMemOutputStream.hpp>
#include <xercesc/util/BinMemInputStream.hpp>
#include <xercesc/framework/XMLGrammarPoolImpl.hpp>
#include <xercesc/parsers/SAXParser.hpp>
#include <xercesc/sax/HandlerBase.hpp>
#include <xercesc/sax/SAXParseException.hpp>
#include <xercesc/framework/MemBufInputSource.hpp>
#include <xercesc/validators/common/Grammar.hpp>
#include <cstdio>
#include <cstring>
using namespace xercesc;

static const char xsd[] =
  "<xs:schema xmlns:xs='http://www.w3.org/2001/XMLSchema'>"
  " <xs:element name='t'><xs:simpleType><xs:restriction base='xs:dateTime'>"
  "   <xs:maxInclusive value='2000-01-01T12:00:00.5Z'/></xs:restriction></xs:simpleType></xs:element>"
  " <xs:element name='u'><xs:simpleType><xs:restriction base='xs:time'>"
  "   <xs:minInclusive value='12:00:00.9'/></xs:restriction></xs:simpleType></xs:element>"
  "</xs:schema>";

struct Counter : HandlerBase {
  int errors; Counter() : errors(0) {}
  void error(const SAXParseException& e) { errors++; char* m = XMLString::transcode(e.getMessage()); printf("      error: %s\n", m); XMLString::release(&m); }
  void fatalError(const SAXParseException& e) { error(e); }
};

static int validate(XMLGrammarPool* pool, const char* doc, const char* what)
{
  SAXParser parser(0, XMLPlatformUtils::fgMemoryManager, pool);
  Counter h; parser.setErrorHandler(&h); parser.setDocumentHandler(&h);
  parser.setValidationScheme(SAXParser::Val_Always); parser.setDoNamespaces(true); parser.setDoSchema(true);
  parser.useCachedGrammarInParse(true);
  MemBufInputSource src((const XMLByte*)doc, strlen(doc), "doc.xml");
  parser.parse(src);
  printf("   %-10s %-28s -> %s\n", what, doc, h.errors ? "INVALID" : "valid");
  return h.errors;
}

int main() {
  XMLPlatformUtils::Initialize();
  int bad = 0;
  {
    XMLGrammarPoolImpl poolA(XMLPlatformUtils::fgMemoryManager);
    {
      SAXParser loader(0, XMLPlatformUtils::fgMemoryManager, &poolA);
      loader.setDoNamespaces(true); loader.setDoSchema(true);
      MemBufInputSource src((const XMLByte*)xsd, sizeof xsd - 1, "mem.xsd");
      if (!loader.loadGrammar(src, Grammar::SchemaGrammarType, true)) { printf("schema not loaded\n"); return 2; }
    }
    BinMemOutputStream out(4096);
    poolA.serializeGrammars(&out);
    XMLGrammarPoolImpl poolB(XMLPlatformUtils::fgMemoryManager);
    BinMemInputStream in(out.getRawBuffer(), (XMLSize_t)out.getSize(), BinMemInputStream::BufOpt_Reference);
    poolB.deserializeGrammars(&in);

    const char* docs[] = { "<t>2000-01-01T12:00:00.4Z</t>", "<t>2000-01-01T12:00:00.6Z</t>", "<u>12:00:00.7</u>", "<u>12:00:00.95</u>" };
    for (unsigned k = 0; k < sizeof docs / sizeof docs[0]; k++) {
      int a = validate(&poolA, docs[k], "original");
      int b = validate(&poolB, docs[k], "restored");
      if ((a != 0) != (b != 0)) { printf("   ** verdicts differ\n"); bad = 1; }
    }
  }
  XMLPlatformUtils::Terminate();
  printf(bad ? "DEFECT REPRODUCED\n" : "ok\n");
  return bad;
}
