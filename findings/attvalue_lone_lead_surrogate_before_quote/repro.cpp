// A lone LEADING surrogate right before the closing quote of an attribute value is accepted silently by
// WFXMLScanner/IGXMLScanner/DGXMLScanner::scanAttValue (the non-namespace path that normalises while scanning).
#include <xercesc/util/PlatformUtils.hpp>
#include <xercesc/parsers/SAXParser.hpp>
#include <xercesc/sax/HandlerBase.hpp>
#include <xercesc/framework/MemBufInputSource.hpp>
#include <xercesc/util/XMLString.hpp>
#include <cstdio>
#include <cstring>
#include <vector>
using namespace xercesc;
struct H : HandlerBase {
  int fatal = 0;
  void fatalError(const SAXParseException& e) { fatal++; char* m = XMLString::transcode(e.getMessage()); printf("    fatal: %s\n", m); XMLString::release(&m); }
  void error(const SAXParseException&) {}
  void warning(const SAXParseException&) {}
};
static void run(const std::vector<unsigned short>& doc, bool ns, const char* scanner) {
  SAXParser p; p.setDoNamespaces(ns); XMLCh* s = XMLString::transcode(scanner); p.useScanner(s); XMLString::release(&s);
  p.setExitOnFirstFatalError(false);
  H h; p.setDocumentHandler(&h); p.setErrorHandler(&h);
  MemBufInputSource src((const XMLByte*)doc.data(), doc.size() * 2, "mem");
  XMLCh enc[] = {'U','T','F','-','1','6','L','E',0}; src.setEncoding(enc);
  try { p.parse(src); } catch (...) { printf("    exception\n"); h.fatal++; }
  printf("%-14s ns=%d fatal errors=%d %s\n", scanner, ns, h.fatal, h.fatal ? "" : "   <-- ACCEPTED SILENTLY (not well-formed: unpaired surrogate is not a Char)");
}
int main() {
  XMLPlatformUtils::Initialize();
  const char* pre = "<a b=\""; const char* post = "\"/>";
  std::vector<unsigned short> doc;
  for (const char* c = pre; *c; c++) doc.push_back((unsigned char)*c);
  doc.push_back('x'); doc.push_back(0xDA6F);            // lone leading surrogate, then the closing quote
  for (const char* c = post; *c; c++) doc.push_back((unsigned char)*c);
  const char* sc[] = {"WFXMLScanner","IGXMLScanner","DGXMLScanner","SGXMLScanner"};
  for (int s = 0; s < 4; s++) for (int ns = 0; ns < 2; ns++) run(doc, ns, sc[s]);
  return 0;
}
