// XMLString::replaceTokens(errText, maxChars, text1..text4): XMLString.hpp: "The size of this buffer should be
// 'maxChars + 1' to account for the final NULL ... If the result is larger, it will be truncated."
// When the plain-copy loop stops because the output is full (curOutInd == maxChars) exactly in front of a '{' that does
// not start a {0}..{3} token, the "escape the curly brace" branch writes errText[maxChars] = '{' without a bounds test and
// the terminator then goes to errText[maxChars + 1]: one element past the documented buffer; the returned count is
// maxChars + 1.
// Here: text "{0}x{" (5 characters, fits maxChars = 5), text1 = "abcd"  ->  output "abcdx{" + NUL = 7 elements in a 6-element buffer.
#include <xercesc/util/PlatformUtils.hpp>
#include <xercesc/util/XMLString.hpp>
#include <xercesc/util/XMLUniDefs.hpp>
#include <cstdio>
#include <cstdlib>
using namespace xercesc;
int main() {
  XMLPlatformUtils::Initialize();
  const XMLSize_t maxChars = 5;
  XMLCh* buf = (XMLCh*)malloc((maxChars + 1) * sizeof(XMLCh));      // as documented
  const XMLCh msg[] = { chOpenCurly, chDigit_0, chCloseCurly, chLatin_x, chOpenCurly, chNull };
  const XMLCh t1[] = { chLatin_a, chLatin_b, chLatin_c, chLatin_d, chNull };
  XMLString::copyString(buf, msg);
  XMLSize_t n = XMLString::replaceTokens(buf, maxChars, t1, 0, 0, 0);
  printf("returned %u (maxChars = %u)\n", (unsigned)n, (unsigned)maxChars);
  free(buf);
  XMLPlatformUtils::Terminate();
}
