// C06, unit dom_lookupns (DOMNodeImpl::lookupNamespaceURI), failing obligation
//   run.assertion "C06: lookupNamespaceURI returns null (not an empty string) when the prefix is un-declared or unknown
//   (B.4: 'return unknown (null)')"      counterexample: element with attribute xmlns="" , lookupNamespaceURI(null)
//
// DOM Level 3 Core Appendix B.4:  "if (Attr's localname == "xmlns" and prefix == null) { if (Attr's value is not empty) return
// Attr's value; return unknown (null); }".  The code returns `value` as it is, so below an un-declaration xmlns="" the answer
// is a non-null pointer to an EMPTY string instead of null ("no namespace").  Callers that test the result against null
// (the documented "unknown" value) take the empty string for a namespace name.
// Minor: XMLString::equals treats null and "" alike, so xerces' own callers are not misled.
//
// build: g++ -g -I/repo/src -I/repo/_build/src repro.cpp /repo/_build/src/libxerces-c-4.0.so -Wl,-rpath,/repo/_build/src -o repro
// run:   ./repro        exit status 1 = deviation present
#include <xercesc/util/PlatformUtils.hpp>
#include <xercesc/dom/DOM.hpp>
#include <xercesc/util/XMLString.hpp>
#include <cstdio>
using namespace xercesc;
struct X { XMLCh b[64]; X(const char* s) { XMLString::transcode(s, b, 63); } operator const XMLCh*() const { return b; } };
int main()
{
  XMLPlatformUtils::Initialize();
  int bad = 0;
  {
    DOMImplementation* impl = DOMImplementationRegistry::getDOMImplementation(X("LS"));
    DOMDocument* doc = impl->createDocument(X("u"), X("a"), 0);                 // <a xmlns="u">
    doc->getDocumentElement()->setAttributeNS(X("http://www.w3.org/2000/xmlns/"), X("xmlns"), X("u"));
    DOMElement* c = doc->createElementNS(0, X("c"));                            //   <c xmlns="">
    c->setAttributeNS(X("http://www.w3.org/2000/xmlns/"), X("xmlns"), X(""));
    doc->getDocumentElement()->appendChild(c);
    const XMLCh* r = c->lookupNamespaceURI(0);
    printf("<a xmlns=\"u\"><c xmlns=\"\"/></a>: c.lookupNamespaceURI(null) = %s\n", r == 0 ? "null (correct)" : (*r == 0 ? "\"\" (non-null pointer to an empty string)" : "a namespace"));
    bad = r != 0;
    doc->release();
  }
  XMLPlatformUtils::Terminate();
  return bad;
}
