// C16, unit gpool_deser_level_w, obligation "C16: the rejection is an XSerializationException"
//
// XMLGrammarPoolImpl::deserializeGrammars formats the storer level of a mismatching stream into XMLCh StorerLevelChar[5]
// with XMLString::binToText(StorerLevel, StorerLevelChar, 4, 10, memMgr).  A level stamp of five or more decimal digits
// (a stream written on a machine of the other byte order: 7 -> 0x07000000 = 117440512, or any damaged stamp) makes
// binToText throw IllegalArgumentException (Str_TargetBufTooSmall) before the XSerializationException
// (XSer_Storer_Loader_Mismatch) is raised: the stream is rejected, but not with the documented exception.
//
// build: g++ -I/repo/src -I/repo/_build/src repro.cpp /repo/_build/src/libxerces-c-4.0.so -Wl,-rpath,/repo/_build/src -o repro
#include <xercesc/util/PlatformUtils.hpp>
#include <xercesc/internal/BinMemOutputStream.hpp>
#include <xercesc/util/BinMemInputStream.hpp>
#include <xercesc/framework/XMLGrammarPoolImpl.hpp>
#include <xercesc/internal/XSerializationException.hpp>
#include <xercesc/util/IllegalArgumentException.hpp>
#include <xercesc/parsers/SAXParser.hpp>
#include <xercesc/framework/MemBufInputSource.hpp>
#include <xercesc/validators/common/Grammar.hpp>
#include <cstdio>
#include <cstring>
using namespace xercesc;

static int tryLoad(const XMLByte* buf, XMLSize_t len, const char* what)
{
  XMLGrammarPoolImpl pool(XMLPlatformUtils::fgMemoryManager);
  BinMemInputStream in(buf, len, BinMemInputStream::BufOpt_Reference);
  try { pool.deserializeGrammars(&in); printf("%s: accepted\n", what); return 2; }
  catch (const XSerializationException&) { printf("%s: XSerializationException\n", what); return 0; }
  catch (const IllegalArgumentException&) { printf("%s: IllegalArgumentException\n", what); return 1; }
  catch (const XMLException& e) { char* t = XMLString::transcode(e.getType()); printf("%s: %s\n", what, t); XMLString::release(&t); return 1; }
}

int main() {
  XMLPlatformUtils::Initialize();
  int bad = 0;
  {
    XMLGrammarPoolImpl pool(XMLPlatformUtils::fgMemoryManager);
    {
      static const char dtd[] = "<!ELEMENT a EMPTY>";
      SAXParser parser(0, XMLPlatformUtils::fgMemoryManager, &pool);
      MemBufInputSource src((const XMLByte*)dtd, sizeof dtd - 1, "mem.dtd");
      parser.loadGrammar(src, Grammar::DTDGrammarType, true);
    }
    BinMemOutputStream out(1024);
    pool.serializeGrammars(&out);
    XMLSize_t len = (XMLSize_t)out.getSize();
    XMLByte* copy = new XMLByte[len];
    memcpy(copy, out.getRawBuffer(), len);
    unsigned int level; memcpy(&level, copy, sizeof level);
    printf("stream of %lu bytes, level stamp %u\n", (unsigned long)len, level);
    if (tryLoad(copy, len, "unchanged stream") != 2) bad = 1;
    unsigned int other = level + 1; memcpy(copy, &other, sizeof other);
    if (tryLoad(copy, len, "level + 1") != 0) bad = 1;
    unsigned int swapped = __builtin_bswap32(level); memcpy(copy, &swapped, sizeof swapped);
    char what[64]; sprintf(what, "byte-swapped level (%u)", swapped);
    if (tryLoad(copy, len, what) != 0) bad = 1;
    unsigned int five = 10000; memcpy(copy, &five, sizeof five);
    if (tryLoad(copy, len, "level 10000") != 0) bad = 1;
    delete[] copy;
  }
  XMLPlatformUtils::Terminate();
  printf(bad ? "DEFECT REPRODUCED\n" : "ok\n");
  return bad;
}
