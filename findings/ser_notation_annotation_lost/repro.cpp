// C16, unit ser_tmpl_RefHashTableOf_XSAnnotation_inplace, obligations
// "C16: store then load restores the number of entries of the container" / "... restores every entry of the container"
// (entry concerned: an annotation whose key object has no id in the engine's store pool).
//
// SchemaGrammar::fAnnotations maps the ADDRESS of a schema component to its XSAnnotation.  XTemplateSerializer::storeObject(
// RefHashTableOf<XSAnnotation, PtrHasher>*) writes an entry only if serEng.lookupStorePool(key) != 0, i.e. if the key object was
// written THROUGH the object pool before (serEng << ptr / needToStoreObject).  The notation declarations of a grammar are written
// IN PLACE by storeObject(NameIdPool<XMLNotationDecl>*) (`data.serialize(serEng)`: no pool entry) and re-created by the load side
// with `new XMLNotationDecl`, so lookupStorePool(notationDecl) is 0 and the annotation of every xs:notation is silently dropped:
// XSNotationDeclaration::getAnnotation() of the restored pool's XSModel is null where the original pool has the annotation.
// (Annotations of elements, types, attributes ... survive: their key objects go through the pool.)
//
// build: g++ -I/repo/src -I/repo/_build/src repro.cpp /repo/_build/src/libxerces-c-4.0.so -Wl,-rpath,/repo/_build/src -o repro
#include <xercesc/util/PlatformUtils.hpp>
#include <xercesc/internal/BinMemOutputStream.hpp>
#include <xercesc/util/BinMemInputStream.hpp>
#include <xercesc/framework/XMLGrammarPoolImpl.hpp>
#include <xercesc/parsers/SAXParser.hpp>
#include <xercesc/sax/HandlerBase.hpp>
#include <xercesc/framework/MemBufInputSource.hpp>
#include <xercesc/validators/common/Grammar.hpp>
#include <xercesc/framework/psvi/XSModel.hpp>
#include <xercesc/framework/psvi/XSNamedMap.hpp>
#include <xercesc/framework/psvi/XSElementDeclaration.hpp>
#include <xercesc/framework/psvi/XSNotationDeclaration.hpp>
#include <xercesc/framework/psvi/XSAnnotation.hpp>
#include <xercesc/framework/psvi/XSConstants.hpp>
#include <cstdio>
#include <cstring>
#include <string>
using namespace xercesc;
static const char xsd[] =
  "<xs:schema xmlns:xs='http://www.w3.org/2001/XMLSchema' targetNamespace='urn:t' xmlns='urn:t'>"
  " <xs:notation name='gif' public='image/gif'><xs:annotation><xs:documentation>NOTATION-DOC</xs:documentation></xs:annotation></xs:notation>"
  " <xs:element name='zeta' type='xs:string'><xs:annotation><xs:documentation>ELEM-DOC</xs:documentation></xs:annotation></xs:element>"
  " <xs:element name='alpha' type='xs:string'/><xs:element name='mid' type='xs:string'/><xs:element name='beta' type='xs:string'/>"
  " <xs:element name='omega' type='xs:string'/><xs:element name='k' type='xs:string'/><xs:element name='b2' type='xs:string'/>"
  "</xs:schema>";
static std::string tr(const XMLCh* s) { if (!s) return "(null)"; char* c = XMLString::transcode(s); std::string r(c); XMLString::release(&c); return r; }
static std::string dump(XMLGrammarPool* pool, std::string& notationAnn, std::string& elemAnn) {
  bool changed; XSModel* m = pool->getXSModel(changed);
  std::string order;
  XSNamedMap<XSObject>* els = m->getComponents(XSConstants::ELEMENT_DECLARATION);
  for (XMLSize_t i = 0; els && i < els->getLength(); i++) { XSElementDeclaration* e = (XSElementDeclaration*)els->item(i); order += tr(e->getName()); order += ' ';
    if (tr(e->getName()) == "zeta") elemAnn = e->getAnnotation() ? tr(e->getAnnotation()->getAnnotationString()) : "(no annotation)"; }
  XSNamedMap<XSObject>* ns = m->getComponents(XSConstants::NOTATION_DECLARATION);
  notationAnn = "(no notation)";
  for (XMLSize_t i = 0; ns && i < ns->getLength(); i++) { XSNotationDeclaration* n = (XSNotationDeclaration*)ns->item(i);
    notationAnn = n->getAnnotation() ? tr(n->getAnnotation()->getAnnotationString()) : "(no annotation)"; }
  return order;
}
int main() {
  XMLPlatformUtils::Initialize();
  int bad = 0;
  {
    XMLGrammarPoolImpl poolA(XMLPlatformUtils::fgMemoryManager);
    { SAXParser loader(0, XMLPlatformUtils::fgMemoryManager, &poolA); loader.setDoNamespaces(true); loader.setDoSchema(true);
      MemBufInputSource src((const XMLByte*)xsd, strlen(xsd), "mem.xsd");
      loader.loadGrammar(src, Grammar::SchemaGrammarType, true); }
    BinMemOutputStream out(4096); poolA.serializeGrammars(&out);
    XMLGrammarPoolImpl poolB(XMLPlatformUtils::fgMemoryManager);
    BinMemInputStream in(out.getRawBuffer(), (XMLSize_t)out.getSize(), BinMemInputStream::BufOpt_Reference);
    poolB.deserializeGrammars(&in);
    std::string na, nb, ea, eb;
    std::string a = dump(&poolA, na, ea), b = dump(&poolB, nb, eb);
    printf("original pool: annotation of element zeta : %.60s\n", ea.c_str());
    printf("restored pool: annotation of element zeta : %.60s\n", eb.c_str());
    printf("original pool: annotation of notation gif : %.60s\n", na.c_str());
    printf("restored pool: annotation of notation gif : %.60s\n", nb.c_str());
    if (na != nb) bad |= 2; if (ea != eb) bad |= 4;
  }
  XMLPlatformUtils::Terminate();
  printf((bad & 2) ? "DEFECT REPRODUCED: the annotation of the notation declaration is lost by serializeGrammars / deserializeGrammars\n" : "ok\n");
  return bad;
}
