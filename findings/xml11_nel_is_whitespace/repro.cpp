// XML 1.1 [3] S ::= (#x20 | #x9 | #xD | #xA)+ : U+0085 (NEL) and U+2028 (LSEP) are line ends that are translated to #xA
// on INPUT of an external entity (section 2.11), they are not white space.  A NEL/LSEP that reaches the scanner through a
// character reference (inside an internal entity's replacement text) is therefore an ordinary non-name, non-space character:
//     <b&#x85;c='1'/>  ->  replacement text  <b U+0085 c='1'/>   is not well-formed.
// fgCharCharsTable1_1 has gWhitespaceCharMask set for 0x85 and 0x2028, so xerces accepts it (and reports attribute c).
// build: g++ -I/repo/src -I/repo/_build/src repro.cpp /repo/_build/src/libxerces-c-4.0.so -Wl,-rpath,/repo/_build/src -o repro
#include <xercesc/util/PlatformUtils.hpp>
#include <xercesc/util/XMLChar.hpp>
#include <xercesc/parsers/SAXParser.hpp>
#include <xercesc/sax/HandlerBase.hpp>
#include <xercesc/framework/MemBufInputSource.hpp>
#include <cstdio>
#include <cstring>
using namespace xercesc;
struct H : HandlerBase {
  int fatal = 0, elems = 0, attrs = 0;
  void fatalError(const SAXParseException&) override { fatal++; }
  void error(const SAXParseException&) override {}
  void startElement(const XMLCh* const, AttributeList& a) override { elems++; attrs += (int)a.getLength(); }
};
static int run(const char* doc) {
  SAXParser p; H h; p.setDocumentHandler(&h); p.setErrorHandler(&h);
  MemBufInputSource src((const XMLByte*)doc, strlen(doc), "mem");
  try { p.parse(src); } catch (...) { h.fatal++; }
  printf("fatal=%d elements=%d attributes=%d\n", h.fatal, h.elems, h.attrs);
  return h.fatal;
}
int main() {
  XMLPlatformUtils::Initialize();
  printf("XMLChar1_1::isWhitespace(0x85)=%d  isWhitespace(0x2028)=%d  (XML 1.1 [3] S: both must be 0)\n",
         (int)XMLChar1_1::isWhitespace(0x85), (int)XMLChar1_1::isWhitespace(0x2028));
  const XMLCh s1[] = {0x85, 0x2028, 0};
  printf("XMLChar1_1::isAllSpaces({0085,2028})=%d (must be 0)\n", (int)XMLChar1_1::isAllSpaces(s1, 2));
  int bad = 0;
  printf("1.1 NEL : "); if (!run("<?xml version='1.1'?><!DOCTYPE a [<!ENTITY e \"<b&#x85;c='1'/>\">]><a>&e;</a>")) bad++;
  printf("1.1 LSEP: "); if (!run("<?xml version='1.1'?><!DOCTYPE a [<!ENTITY e \"<b&#x2028;c='1'/>\">]><a>&e;</a>")) bad++;
  printf("1.0 NEL (control, correctly rejected): "); run("<?xml version='1.0'?><!DOCTYPE a [<!ENTITY e \"<b&#x85;c='1'/>\">]><a>&e;</a>");
  printf("%s\n", bad ? "DEFECT REPRODUCED: not-well-formed XML 1.1 document accepted without a fatal error" : "not reproduced");
  XMLPlatformUtils::Terminate();
  return bad ? 1 : 0;
}
