// F11: WFXMLScanner::scanStartTagNS, duplicate check for namespace-qualified attributes in hash-table mode (used when a
// start tag has many attributes): the loop runs attrIndex < attCount-1, which is right for the pairwise mode but in the
// hashed mode means the LAST attribute is never looked up. Two attributes p:x and q:x whose prefixes are bound to the
// same namespace name are a well-formedness error (Namespaces in XML, "Attributes Unique"); when the second one is the
// last attribute of a tag with many attributes it is accepted silently.
// build: g++ -I/repo/src -I/repo/_build/src repro.cpp /repo/_build/src/libxerces-c-4.0.so -Wl,-rpath,/repo/_build/src -o repro
#include <xercesc/util/PlatformUtils.hpp>
#include <xercesc/util/XMLUni.hpp>
#include <xercesc/parsers/SAXParser.hpp>
#include <xercesc/sax/HandlerBase.hpp>
#include <xercesc/framework/MemBufInputSource.hpp>
#include <string>
#include <cstdio>
using namespace xercesc;
struct H : HandlerBase { int n = 0; void fatalError(const SAXParseException&) override { n++; } void error(const SAXParseException&) override { n++; } };
static int run(int nattr, bool dupLast, const XMLCh* scanner) {
  std::string doc = "<r xmlns:p='u' xmlns:q='u'><e";
  if (!dupLast) doc += " p:x='1' q:x='2'";
  for (int i = 0; i < nattr; i++) doc += " a" + std::to_string(i) + "='v'";
  if (dupLast) doc += " p:x='1' q:x='2'";
  doc += "/></r>";
  SAXParser p; H h; p.setDocumentHandler(&h); p.setErrorHandler(&h); p.setDoNamespaces(true); p.setExitOnFirstFatalError(false);
  p.useScanner(scanner);
  MemBufInputSource src((const XMLByte*)doc.data(), doc.size(), "mem");
  try { p.parse(src); } catch (...) { return -1; }
  return h.n;
}
int main() {
  XMLPlatformUtils::Initialize();
  int bad = 0;
  for (int n : {5, 150}) {
    int a = run(n, false, XMLUni::fgWFXMLScanner), b = run(n, true, XMLUni::fgWFXMLScanner), c = run(n, true, XMLUni::fgIGXMLScanner);
    printf("%3d other attributes: WF dup first: %d error(s), WF dup last: %d error(s), IG dup last: %d error(s)\n", n, a, b, c);
    if (b == 0) bad = 1;
  }
  puts(bad ? "DEFECT REPRODUCED: colliding expanded attribute names accepted without error" : "ok");
  XMLPlatformUtils::Terminate();
  return bad;
}
