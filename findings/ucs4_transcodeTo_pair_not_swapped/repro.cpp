// NEW finding (no F-number assigned; the name F10 is taken): XMLUCS4Transcoder::transcodeTo does not byte-swap the value built from a surrogate pair when fSwapped is set
// (the BMP branch swaps, the pair branch stores `(curCh << 10) + trailCh + SURROGATE_OFFSET` in host order).  On a
// little-endian host a UCS-4BE ("UCS-4 (BE)", "UTF-32BE") target therefore gets every supplementary character in LE order.
// Found by unit ucs4_to_w, obligation h_ucs4_to_w.assertion.3 "C05: surrogate pair encoded as ONE 32-bit scalar value in
// the byte order of the encoding scheme".  cbmc counterexample: fSwapped = true, src = {D840, DC00} (U+20000), maxBytes = 9.
// Second, weaker item of the same unit (h_ucs4_to_w.assertion.6): a trail surrogate without a lead is emitted as the UCS-4
// value 0000DC00 (ill-formed UTF-32, Unicode D90) instead of being reported; counterexample src = {DC00, DC00}, maxBytes = 8.
// build: g++ -I/repo/src -I/repo/_build/src repro.cpp /repo/_build/src/libxerces-c-4.0.so -Wl,-rpath,/repo/_build/src -o repro
// exit code: bit 0 = pair not swapped reproduced, bit 1 = lone trail emitted reproduced
#include <xercesc/util/PlatformUtils.hpp>
#include <xercesc/util/TransService.hpp>
#include <xercesc/util/XMLUCS4Transcoder.hpp>
#include <xercesc/util/XMLUniDefs.hpp>
#include <cstdio>
#include <cstring>
using namespace xercesc;

int main()
{
    XMLPlatformUtils::Initialize();
    int bad = 0;
    const unsigned short probe = 1;
    const bool hostLE = *(const unsigned char*)&probe == 1;
    {
        // UCS-4 in the byte order OPPOSITE to the host: the constructor argument `swapped` is true
        XMLUCS4Transcoder t(hostLE ? XMLUni::fgUCS4BEncodingString : XMLUni::fgUCS4LEncodingString, 1024, true);
        const XMLCh src[3] = { 0x0041, 0xD840, 0xDC00 };            // 'A', U+20000
        XMLByte out[8]; memset(out, 0xEE, sizeof out);
        XMLSize_t eaten = 0;
        XMLSize_t r = t.transcodeTo(src, 3, out, 8, eaten, XMLTranscoder::UnRep_Throw);
        printf("src = { 0041 D840 DC00 } to %s: %lu bytes:", hostLE ? "UCS-4BE" : "UCS-4LE", (unsigned long)r);
        for (XMLSize_t i = 0; i < r; i++) printf(" %02X", out[i]);
        printf("\n");
        const XMLByte wantBE[8] = { 0x00, 0x00, 0x00, 0x41, 0x00, 0x02, 0x00, 0x00 };
        const XMLByte wantLE[8] = { 0x41, 0x00, 0x00, 0x00, 0x00, 0x00, 0x02, 0x00 };
        const XMLByte* want = hostLE ? wantBE : wantLE;
        if (r != 8 || memcmp(out, want, 8) != 0) {
            printf("  expected:");
            for (int i = 0; i < 8; i++) printf(" %02X", want[i]);
            printf("\n  DEFECT: the BMP character is in the requested byte order, the supplementary one is not\n");
            bad |= 1;
        }
    }
    {
        XMLUCS4Transcoder t(hostLE ? XMLUni::fgUCS4LEncodingString : XMLUni::fgUCS4BEncodingString, 1024, false);
        const XMLCh src[2] = { 0xDC00, 0xDC00 };
        XMLByte out[8]; XMLSize_t eaten = 0;
        try {
            XMLSize_t r = t.transcodeTo(src, 2, out, 8, eaten, XMLTranscoder::UnRep_Throw);
            printf("src = { DC00 DC00 } (unpaired trail surrogates): ACCEPTED, %lu bytes:", (unsigned long)r);
            for (XMLSize_t i = 0; i < r; i++) printf(" %02X", out[i]);
            printf("   (ill-formed UTF-32)\n");
            bad |= 2;
        } catch (const XMLException&) {
            printf("src = { DC00 DC00 }: rejected (exception)\n");
        }
    }
    XMLPlatformUtils::Terminate();
    printf("result: pair-not-swapped %s, lone-trail-emitted %s\n", (bad & 1) ? "REPRODUCED" : "not reproduced", (bad & 2) ? "REPRODUCED" : "not reproduced");
    return bad;
}
