// RangeToken::addRange loses a range that starts inside an existing range and ends beyond it when the token is still
// sorted: in the `fSorted && fRanges[fElemCount-1] >= val1` branch the loop only handles "contained", "same start" and
// "starts before range i"; a new range [val1,val2] with fRanges[i] < val1 <= fRanges[i+1] < val2 for the last range
// falls through all three tests and is dropped.  So the character class [a-kf-u] denotes only a-k: "p" does not
// match, while the same class written [f-ua-k] matches it.  Affects xs:pattern facets and RegularExpression alike.
// Build: g++ -I/repo/src -I/repo/_build/src repro.cpp /repo/_build/src/libxerces-c-4.0.so -Wl,-rpath,/repo/_build/src -o repro
#include <xercesc/util/PlatformUtils.hpp>
#include <xercesc/util/XMLString.hpp>
#include <xercesc/util/regx/RegularExpression.hpp>
#include <xercesc/util/XMLException.hpp>
#include <cstdio>
using namespace xercesc;
static int m(const char* pat, const char* str, const char* opt)
{
    XMLCh* p = XMLString::transcode(pat); XMLCh* s = XMLString::transcode(str); XMLCh* o = XMLString::transcode(opt);
    int r = -1;
    try { RegularExpression re(p, o); r = re.matches(s) ? 1 : 0; } catch (const XMLException&) { r = -1; }
    XMLString::release(&p); XMLString::release(&s); XMLString::release(&o);
    return r;
}
int main()
{
    XMLPlatformUtils::Initialize();
    int bad = 0;
    const char* cases[][3] = { {"[a-kf-u]", "p", "1"}, {"[f-ua-k]", "p", "1"}, {"[a-cb-z]", "x", "1"}, {"[a-kf-u]", "c", "1"}, {"[a-kf-u]", "z", "0"} };
    const char* opts[] = { "X", "" };     // XML Schema dialect, default dialect
    for (const char* o : opts)
        for (auto& c : cases) {
            int r = m(c[0], c[1], o);
            printf("options \"%s\": matches(%s, \"%s\") = %d, expected %s\n", o, c[0], c[1], r, c[2]);
            if (r != c[2][0] - '0') bad++;
        }
    printf(bad ? "DEFECT REPRODUCED (%d wrong answers)\n" : "no defect observed\n", bad);
    XMLPlatformUtils::Terminate();
    return bad ? 1 : 0;
}
