// F8: XMLUCS4Transcoder::transcodeFrom decodes UCS-4 values that are not Unicode scalar values (D800..DFFF and
// values above 10FFFF) instead of rejecting them.
// Found by unit ucs4_from_w, obligation h_ucs4_from_w.assertion.6 "C05: a UCS-4 value above 10FFFF or in D800..DFFF is
// rejected (or left unconsumed behind good data), never decoded".
// cbmc counterexample: fSwapped = true (UCS-4BE on a little-endian host), srcCount = 8,
//   source bytes 00 00 D8 00 00 00 00 00, maxChars = 3  -> not rejected, U+D800 delivered as a character.
// build: g++ -I/repo/src -I/repo/_build/src repro.cpp /repo/_build/src/libxerces-c-4.0.so -Wl,-rpath,/repo/_build/src -o repro
// exit code 1 = defect reproduced, 0 = not reproduced
#include <xercesc/util/PlatformUtils.hpp>
#include <xercesc/util/TransService.hpp>
#include <xercesc/util/XMLUCS4Transcoder.hpp>
#include <xercesc/util/XMLUniDefs.hpp>
#include <cstdio>
using namespace xercesc;

static int one(const char* what, const XMLCh* encName, bool swapped, const XMLByte* src, XMLSize_t n)
{
    XMLUCS4Transcoder t(encName, 1024, swapped);
    XMLCh out[8]; unsigned char sz[8]; XMLSize_t eaten = 0;
    printf("%s: bytes", what);
    for (XMLSize_t i = 0; i < n; i++) printf(" %02X", src[i]);
    try {
        XMLSize_t r = t.transcodeFrom(src, n, out, 3, eaten, sz);
        printf(" -> ACCEPTED, %lu unit(s):", (unsigned long)r);
        for (XMLSize_t i = 0; i < r; i++) printf(" %04X", out[i]);
        printf(", bytesEaten=%lu   DEFECT\n", (unsigned long)eaten);
        return 1;
    } catch (const XMLException&) {
        printf(" -> rejected (exception)\n");
        return 0;
    }
}

int main()
{
    XMLPlatformUtils::Initialize();
    int bad = 0;
    const XMLByte a[8] = { 0x00, 0x00, 0xD8, 0x00, 0x00, 0x00, 0x00, 0x00 };   // UCS-4BE: U+D800 (surrogate code point), U+0000
    bad |= one("surrogate code point, UCS-4BE", XMLUni::fgUCS4BEncodingString, true, a, 8);
    const XMLByte b[4] = { 0x00, 0x00, 0x11, 0x00 };                           // UCS-4LE: 0x00110000 > 0x10FFFF
    bad |= one("value 0x110000, UCS-4LE", XMLUni::fgUCS4LEncodingString, false, b, 4);
    const XMLByte c[4] = { 0xFF, 0xFF, 0xFF, 0xFF };                           // 0xFFFFFFFF
    bad |= one("value 0xFFFFFFFF, UCS-4LE", XMLUni::fgUCS4LEncodingString, false, c, 4);
    XMLPlatformUtils::Terminate();
    printf(bad ? "F8 reproduced\n" : "F8 not reproduced\n");
    return bad;
}
