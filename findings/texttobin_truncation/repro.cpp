// XMLString::textToBin converts with strtoul and stores `(unsigned int) strtoul(..)`; XMLString::parseInt converts with
// strtol and returns `(int) retVal`.  Where long has 64 bits (LP64) the ERANGE test only catches values beyond 64 bits:
// everything between 2^32 (2^31) and 2^64 (2^63) is accepted and silently truncated (the source says "REVISIT:
// conversion of (unsigned long) to (unsigned int) may truncate value on IA64").  textToBin is what the schema reader
// uses for length / minLength / maxLength / totalDigits / fractionDigits / minOccurs / maxOccurs values, so e.g.
// maxLength="4294967297" becomes maxLength 1.
// Build: g++ -I/repo/src -I/repo/_build/src repro.cpp /repo/_build/src/libxerces-c-4.0.so -Wl,-rpath,/repo/_build/src -o repro
#include <xercesc/util/PlatformUtils.hpp>
#include <xercesc/util/XMLString.hpp>
#include <xercesc/util/XMLException.hpp>
#include <cstdio>
#include <cstdlib>
using namespace xercesc;
int main()
{
    XMLPlatformUtils::Initialize();
    int bad = 0;
    const char* cases[] = { "4294967295", "4294967296", "4294967297", "2147483648", "-2147483649", "99999999999999999999" };
    for (const char* c : cases) {
        XMLCh* a = XMLString::transcode(c);
        unsigned int v = 77; bool ok = XMLString::textToBin(a, v);
        int p = -77; bool pok = true; try { p = XMLString::parseInt(a); } catch (const XMLException&) { pok = false; }
        long double exact = strtold(c, 0);
        printf("textToBin(\"%s\") = %s value %u ; parseInt = %s %d\n", c, ok ? "true" : "false", v, pok ? "returns" : "throws", p);
        if (ok && (long double)v != exact) bad++;
        if (pok && (long double)p != exact) bad++;
        XMLString::release(&a);
    }
    printf(bad ? "DEFECT REPRODUCED (%d accepted numerals with a wrong value)\n" : "no defect observed\n", bad);
    XMLPlatformUtils::Terminate();
    return bad ? 1 : 0;
}
