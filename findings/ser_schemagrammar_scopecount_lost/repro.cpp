// C16, unit ser_cls_SchemaGrammar_counts, obligations "C16: store then load restores the field fScopeCount" / "... fAnonTypeCount"
//
// SchemaGrammar::serialize (src/xercesc/validators/schema/SchemaGrammar.cpp) stores neither fScopeCount nor fAnonTypeCount.
// TraverseSchema takes both from the grammar it is going to EXTEND (constructor: fScopeCount(schemaGrammar->getScopeCount()),
// fAnonXSTypeCount(schemaGrammar->getAnonTypeCount()); "Store the scope and anon type counts in case we need to add more to
// this grammar (multi-import case)") and numbers every new complex-type scope `fCurrentScope = fScopeCount++` and every
// anonymous type "__AnonC<n>" / "__AnonS<n>" from them.  A grammar that went through serializeGrammars + deserializeGrammars
// restarts both counters at 0, so a schema document added to the restored grammar (XMLUni::fgXercesHandleMultipleImports)
// re-uses scope numbers and anonymous type names that the grammar already contains.
//
// Part 1 shows the lost state directly (getScopeCount / getAnonTypeCount of the original and the restored grammar).
// Part 2 adds a second schema document for the same namespace to the original and to the restored pool and validates one
// instance against both.
//
// build: g++ -I/repo/src -I/repo/_build/src repro.cpp /repo/_build/src/libxerces-c-4.0.so -Wl,-rpath,/repo/_build/src -o repro
#include <xercesc/util/PlatformUtils.hpp>
#include <xercesc/util/XMLUni.hpp>
#include <xercesc/internal/BinMemOutputStream.hpp>
#include <xercesc/util/BinMemInputStream.hpp>
#include <xercesc/framework/XMLGrammarPoolImpl.hpp>
#include <xercesc/parsers/SAXParser.hpp>
#include <xercesc/sax/HandlerBase.hpp>
#include <xercesc/sax/SAXParseException.hpp>
#include <xercesc/framework/MemBufInputSource.hpp>
#include <xercesc/validators/common/Grammar.hpp>
#include <xercesc/validators/schema/SchemaGrammar.hpp>
#include <cstdio>
#include <cstring>
using namespace xercesc;

#include <cstdlib>
#include <string>
#include <unistd.h>
static void writeFile(const std::string& p, const char* text) { FILE* f = fopen(p.c_str(), "w"); fputs(text, f); fclose(f); }

// m.xsd (urn:m) imports a.xsd (urn:n): grammar urn:n enters the pool with context IMPORT, the only kind multi-import extends
static const char xsdM[] =
  "<xs:schema xmlns:xs='http://www.w3.org/2001/XMLSchema' targetNamespace='urn:m' xmlns:n='urn:n'>"
  " <xs:import namespace='urn:n' schemaLocation='a.xsd'/>"
  " <xs:element name='m'><xs:complexType><xs:sequence><xs:element ref='n:a'/></xs:sequence></xs:complexType></xs:element>"
  "</xs:schema>";
// a.xsd: the first anonymous complex type of urn:n gets scope 0; its local element x is an int
static const char xsdA[] =
  "<xs:schema xmlns:xs='http://www.w3.org/2001/XMLSchema' targetNamespace='urn:n'>"
  " <xs:element name='a'><xs:complexType><xs:sequence><xs:element name='x' type='xs:int'/></xs:sequence></xs:complexType></xs:element>"
  "</xs:schema>";
// b.xsd: a second document for urn:n, added later; its local element x is a string
static const char xsdB[] =
  "<xs:schema xmlns:xs='http://www.w3.org/2001/XMLSchema' targetNamespace='urn:n'>"
  " <xs:element name='b'><xs:complexType><xs:sequence><xs:element name='x' type='xs:string'/></xs:sequence></xs:complexType></xs:element>"
  "</xs:schema>";

struct Counter : HandlerBase {
  int errors; Counter() : errors(0) {}
  void error(const SAXParseException& e) { errors++; char* m = XMLString::transcode(e.getMessage()); printf("      error: %s\n", m); XMLString::release(&m); }
  void fatalError(const SAXParseException& e) { error(e); }
};

static SchemaGrammar* grammarOf(XMLGrammarPool* pool, const char* nsText)
{
  XMLSchemaDescription* d = pool->createSchemaDescription(XMLUni::fgZeroLenString);
  XMLCh* ns = XMLString::transcode(nsText); d->setTargetNamespace(ns); XMLString::release(&ns);
  SchemaGrammar* g = (SchemaGrammar*)pool->retrieveGrammar(d); delete d; return g;
}

static int validate(XMLGrammarPool* pool, const std::string& doc, const char* what)
{
  SAXParser parser(0, XMLPlatformUtils::fgMemoryManager, pool);
  Counter h; parser.setErrorHandler(&h); parser.setDocumentHandler(&h);
  parser.setValidationScheme(SAXParser::Val_Always); parser.setDoNamespaces(true); parser.setDoSchema(true);
  parser.useCachedGrammarInParse(true); parser.setHandleMultipleImports(true);
  MemBufInputSource src((const XMLByte*)doc.c_str(), doc.size(), "doc.xml");
  parser.parse(src);
  printf("   %-9s pool: %s\n", what, h.errors ? "INVALID" : "valid");
  return h.errors;
}

int main() {
  char tmpl[] = "/tmp/scopecountXXXXXX"; std::string dir = mkdtemp(tmpl);
  writeFile(dir + "/m.xsd", xsdM); writeFile(dir + "/a.xsd", xsdA); writeFile(dir + "/b.xsd", xsdB);
  XMLPlatformUtils::Initialize();
  int bad = 0;
  {
    XMLGrammarPoolImpl poolA(XMLPlatformUtils::fgMemoryManager);
    {
      SAXParser loader(0, XMLPlatformUtils::fgMemoryManager, &poolA);
      loader.setDoNamespaces(true); loader.setDoSchema(true);
      if (!loader.loadGrammar((dir + "/m.xsd").c_str(), Grammar::SchemaGrammarType, true)) { printf("schema not loaded\n"); return 2; }
    }
    BinMemOutputStream out(4096);
    poolA.serializeGrammars(&out);
    XMLGrammarPoolImpl poolB(XMLPlatformUtils::fgMemoryManager);
    BinMemInputStream in(out.getRawBuffer(), (XMLSize_t)out.getSize(), BinMemInputStream::BufOpt_Reference);
    poolB.deserializeGrammars(&in);
    SchemaGrammar *ga = grammarOf(&poolA, "urn:n"), *gb = grammarOf(&poolB, "urn:n");
    if (!ga || !gb) { printf("grammar not found in pool\n"); return 2; }
    printf("part 1: state of the grammar for urn:n\n");
    printf("   original: scope count %u, anonymous type count %u\n", ga->getScopeCount(), ga->getAnonTypeCount());
    printf("   restored: scope count %u, anonymous type count %u\n", gb->getScopeCount(), gb->getAnonTypeCount());
    if (ga->getScopeCount() != gb->getScopeCount() || ga->getAnonTypeCount() != gb->getAnonTypeCount()) bad = 1;

    printf("part 2: <n:b><x>hello</x></n:b> with xsi:schemaLocation='urn:n b.xsd' (multi-import adds b.xsd to the pooled grammar)\n");
    std::string doc = "<n:b xmlns:n='urn:n' xmlns:xsi='http://www.w3.org/2001/XMLSchema-instance' xsi:schemaLocation='urn:n " + dir + "/b.xsd'><x>hello</x></n:b>";
    int a = validate(&poolA, doc, "original");
    int b = validate(&poolB, doc, "restored");
    if ((a != 0) != (b != 0)) { printf("   ** verdicts differ\n"); bad = 1; }
  }
  XMLPlatformUtils::Terminate();
  unlink((dir + "/m.xsd").c_str()); unlink((dir + "/a.xsd").c_str()); unlink((dir + "/b.xsd").c_str()); rmdir(dir.c_str());
  printf(bad ? "DEFECT REPRODUCED\n" : "ok\n");
  return bad;
}
