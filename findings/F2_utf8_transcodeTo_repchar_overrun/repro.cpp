// F2: XMLUTF8Transcoder::transcodeTo writes past maxBytes in the UnRep_RepChar branch.
// Found by unit utf8_to_w (obligation XMLUTF8Transcoder_transcodeTo.pointer_dereference.*: "dereference failure:
// pointer outside object bounds in *tmp_post_outPtr" at `*outPtr++ = chSpace;`, and h_utf8_to_w "C01: T_iface bounds").
// cbmc counterexample: src = {0x0200, 0xDBFF, 0xFC01}, maxBytes = 2, UnRep_RepChar   (and {0x0008, 0xDBFF, 0xE200}, maxBytes = 1)
// build: g++ -I/repo/src -I/repo/_build/src repro.cpp /repo/_build/src/libxerces-c-4.0.so -Wl,-rpath,/repo/_build/src -o repro
// exit code 1 = defect reproduced, 0 = not reproduced
#include <xercesc/util/PlatformUtils.hpp>
#include <xercesc/util/TransService.hpp>
#include <xercesc/util/XMLUTF8Transcoder.hpp>
#include <xercesc/util/XMLUniDefs.hpp>
#include <cstdio>
#include <cstring>
using namespace xercesc;

static int one(const XMLCh* src, XMLSize_t n, XMLSize_t maxBytes)
{
    XMLUTF8Transcoder t(XMLUni::fgUTF8EncodingString, 1024);
    XMLByte buf[16];
    memset(buf, 0xEE, sizeof buf);              // guard pattern behind the maxBytes the callee may use
    XMLSize_t eaten = 0;
    XMLSize_t r = t.transcodeTo(src, n, buf, maxBytes, eaten, XMLTranscoder::UnRep_RepChar);
    printf("src = {");
    for (XMLSize_t i = 0; i < n; i++) printf(" %04X", src[i]);
    printf(" } maxBytes=%lu -> returned %lu, charsEaten=%lu, buffer:", (unsigned long)maxBytes, (unsigned long)r, (unsigned long)eaten);
    for (XMLSize_t i = 0; i < maxBytes + 2; i++) printf(" %02X%s", buf[i], i + 1 == maxBytes ? " |" : "");
    printf("\n");
    int bad = 0;
    if (r > maxBytes) { printf("  DEFECT: return value %lu > maxBytes %lu\n", (unsigned long)r, (unsigned long)maxBytes); bad = 1; }
    if (buf[maxBytes] != 0xEE) { printf("  DEFECT: byte at toFill[maxBytes] overwritten with %02X\n", buf[maxBytes]); bad = 1; }
    return bad;
}

int main()
{
    XMLPlatformUtils::Initialize();
    int bad = 0;
    const XMLCh a[3] = { 0x0200, 0xDBFF, 0xFC01 };
    bad |= one(a, 3, 2);
    const XMLCh b[3] = { 0x0008, 0xDBFF, 0xE200 };
    bad |= one(b, 3, 1);
    XMLPlatformUtils::Terminate();
    printf(bad ? "F2 reproduced\n" : "F2 not reproduced\n");
    return bad;
}
