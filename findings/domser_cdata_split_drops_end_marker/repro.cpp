// C12, unit domser_cdata_split (DOMLSSerializerImpl::procCdataSection, split-cdata-sections = true), failing obligation
//   h_cdata_split.assertion "C12: the contents of the emitted CDATA sections, concatenated, have the length of the node
//   value (nothing lost, nothing added)"            counterexample of the unit: node value "]]>a" / "a]]>b"
//
// procCdataSection cuts the value at every "]]>" and writes the pieces as separate CDATA sections, but the marker itself
// (`nextPtr = curPtr + endTagPos + offset;  // skip the ']]>'`) is written NOWHERE: "a]]>b" is serialised as
// <![CDATA[a]]><![CDATA[b]]> which re-parses to the character data "ab".  Only a WARNING (Writer_NestedCDATA) is
// reported, so with the default split-cdata-sections=true the three characters are silently lost.
// C12: "... parsed again, produces a tree equal to the original - up to the division of character data between adjacent
// Text/CDATA nodes where a CDATA section had to be split".  (DOM L3 LS "split-cdata-sections": the section is SPLIT, e.g.
// <![CDATA[a]]]]><![CDATA[>b]]>, nothing is dropped.)
//
// build: g++ -g -I/repo/src -I/repo/_build/src repro.cpp /repo/_build/src/libxerces-c-4.0.so -Wl,-rpath,/repo/_build/src -o repro
// run:   ./repro          exit status 1 = defect present
#include <xercesc/util/PlatformUtils.hpp>
#include <xercesc/dom/DOM.hpp>
#include <xercesc/util/XMLString.hpp>
#include <xercesc/framework/MemBufInputSource.hpp>
#include <xercesc/framework/MemBufFormatTarget.hpp>
#include <xercesc/framework/Wrapper4InputSource.hpp>
#include <cstdio>
#include <cstring>
using namespace xercesc;
struct EH : DOMErrorHandler {
  bool handleError(const DOMError& e) { char* m = XMLString::transcode(e.getMessage()); printf("  DOMError severity=%d: %s\n", (int)e.getSeverity(), m); XMLString::release(&m); return true; }
};
static int one(DOMImplementation* impl, const char* value)
{
  XMLCh t[64], val[64];
  XMLString::transcode("r", t, 63); XMLString::transcode(value, val, 63);
  DOMDocument* doc = impl->createDocument(0, t, 0);
  doc->getDocumentElement()->appendChild(doc->createCDATASection(val));
  DOMLSSerializer* ser = ((DOMImplementationLS*)impl)->createLSSerializer();
  EH eh; ser->getDomConfig()->setParameter(XMLUni::fgDOMErrorHandler, &eh);
  ser->getDomConfig()->setParameter(XMLUni::fgDOMWRTSplitCdataSections, true);
  DOMLSOutput* out = ((DOMImplementationLS*)impl)->createLSOutput();
  MemBufFormatTarget tgt; out->setByteStream(&tgt);
  XMLString::transcode("UTF-8", t, 63); out->setEncoding(t);
  printf("CDATA value \"%s\"\n", value);
  ser->write(doc->getDocumentElement(), out);
  printf("  serialised: %s\n", (const char*)tgt.getRawBuffer());
  // parse it again
  DOMLSParser* parser = ((DOMImplementationLS*)impl)->createLSParser(DOMImplementationLS::MODE_SYNCHRONOUS, 0);
  MemBufInputSource src(tgt.getRawBuffer(), tgt.getLen(), "mem"); Wrapper4InputSource w(&src, false);
  DOMDocument* d2 = parser->parse(&w);
  char* back = XMLString::transcode(d2->getDocumentElement()->getTextContent());
  int bad = strcmp(back, value) != 0;
  printf("  re-parsed text content: \"%s\"   %s\n", back, bad ? "*** DIFFERS: the ']]>' was dropped" : "ok");
  XMLString::release(&back); parser->release(); out->release(); ser->release(); doc->release();
  return bad;
}
int main()
{
  XMLPlatformUtils::Initialize();
  int bad = 0;
  {
    XMLCh ls[8]; XMLString::transcode("LS", ls, 7);
    DOMImplementation* impl = DOMImplementationRegistry::getDOMImplementation(ls);
    bad |= one(impl, "a]]>b");
    bad |= one(impl, "]]>");
    bad |= one(impl, "x]]>]]>y");
    bad |= one(impl, "no marker");
  }
  XMLPlatformUtils::Terminate();
  return bad;
}
