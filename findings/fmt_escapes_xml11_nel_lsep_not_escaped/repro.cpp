// C12 / unit fmt_escapes, obligation
//   "C12: XML 1.1: #x85 and #x2028 are written as character references (2.11: literal ones re-parse as #xA)"
// counterexample of the unit: toCheck = 0x85, escStyle = StdEscapes (any escaping mode), fIsXML11 = true -> inEscapeList == false.
//
// XMLFormatter::inEscapeList (XML 1.1 branch) escapes  isControlChar(c) && !isWhitespace(c);  fgCharCharsTable1_1 flags
// U+0085 and U+2028 as white space, so U+0085 is exempted from the C1 range and U+2028 is never considered. XML 1.1
// section 2.11 makes a parser translate literal #x85 / #x2028 (and #xD #x85) to #xA, so text holding NEL or LSEP does not
// survive serialise + re-parse: it comes back as LF.  The same text in attribute values comes back as a SPACE (3.3.3).
//
// build: g++ -I/repo/src -I/repo/_build/src repro.cpp /repo/_build/src/libxerces-c-4.0.so -Wl,-rpath,/repo/_build/src -o repro
#include <xercesc/util/PlatformUtils.hpp>
#include <xercesc/util/XMLString.hpp>
#include <xercesc/dom/DOM.hpp>
#include <xercesc/framework/MemBufFormatTarget.hpp>
#include <xercesc/framework/MemBufInputSource.hpp>
#include <xercesc/framework/XMLFormatter.hpp>
#include <xercesc/parsers/XercesDOMParser.hpp>
#include <cstdio>
using namespace xercesc;

static void dump(const char* tag, const XMLCh* s) {
  printf("%s:", tag);
  for (; *s; s++) printf(" %04X", (unsigned)*s);
  printf("\n");
}

int main() {
  XMLPlatformUtils::Initialize();
  int bad = 0;
  {
    // 1. the formatter kernel alone: XML 1.1, CharEscapes, text = a NEL b LSEP c  and the C1 neighbour U+0084 for contrast
    MemBufFormatTarget tgt;
    XMLFormatter f("UTF-8", "1.1", &tgt, XMLFormatter::CharEscapes, XMLFormatter::UnRep_CharRef);
    const XMLCh txt[] = { 0x61, 0x84, 0x85, 0x62, 0x2028, 0x63, 0 };
    f.formatBuf(txt, 6, XMLFormatter::CharEscapes);
    printf("formatter output bytes:");
    for (XMLSize_t i = 0; i < tgt.getLen(); i++) printf(" %02X", tgt.getRawBuffer()[i]);
    printf("\n   (U+0084 -> &#x84; as required;  U+0085 -> raw C2 85,  U+2028 -> raw E2 80 A8)\n");
  }
  {
    // 2. DOM round trip
    XMLCh ls[] = { 'L', 'S', 0 }, root[] = { 'r', 0 }, v11[] = { '1', '.', '1', 0 }, an[] = { 'a', 0 };
    DOMImplementation* impl = DOMImplementationRegistry::getDOMImplementation(ls);
    DOMDocument* doc = impl->createDocument(0, root, 0);
    doc->setXmlVersion(v11);
    const XMLCh txt[] = { 0x61, 0x85, 0x62, 0x2028, 0x63, 0 };
    doc->getDocumentElement()->appendChild(doc->createTextNode(txt));
    doc->getDocumentElement()->setAttribute(an, txt);

    DOMLSSerializer* ser = ((DOMImplementationLS*)impl)->createLSSerializer();
    DOMLSOutput* out = ((DOMImplementationLS*)impl)->createLSOutput();
    MemBufFormatTarget tgt;
    out->setByteStream(&tgt);
    ser->write(doc, out);
    printf("serialised: ");
    for (XMLSize_t i = 0; i < tgt.getLen(); i++) { unsigned char c = tgt.getRawBuffer()[i]; if (c >= 0x20 && c < 0x7F) putchar(c); else printf("\\x%02X", c); }
    printf("\n");

    XercesDOMParser p;
    MemBufInputSource src(tgt.getRawBuffer(), tgt.getLen(), "mem");
    p.parse(src);
    DOMDocument* d2 = p.getDocument();
    const XMLCh* t2 = d2->getDocumentElement()->getTextContent();
    const XMLCh* a2 = d2->getDocumentElement()->getAttribute(an);
    dump("original text  ", txt);
    dump("re-parsed text ", t2);
    dump("re-parsed attr ", a2);
    bool eq = doc->isEqualNode(d2);
    printf("isEqualNode(original, reparsed) = %d\n", (int)eq);
    if (!eq || !XMLString::equals(txt, t2) || !XMLString::equals(txt, a2)) bad = 1;
    out->release(); ser->release(); doc->release();
  }
  printf("%s\n", bad ? "DEFECT REPRODUCED: XML 1.1 text with U+0085 / U+2028 does not survive serialise + re-parse"
                     : "not reproduced");
  XMLPlatformUtils::Terminate();
  return bad;
}
