// XML 1.1 2.11: in an external parsed entity the single character #x2028 (LSEP) is a line break and is translated to #xA,
// exactly like #x85 (NEL).  XMLReader::skippedSpace / skipSpaces / getSpaces decide whether a white-space character needs
// end-of-line handling with the bit test
//        if ( ( curCh & (chCR|chLF) & ~(0x9|0x20) ) == 0 )  fCurCol++;  else handleEOL(curCh, ..);
// whose comment assumes white space = {x20, x9, xD, xA}.  For version 1.1 documents fgCharCharsTable1_1 also flags x85 and
// x2028 as white space; 0x85 & 0x06 != 0 reaches handleEOL by luck of its bit pattern, 0x2028 & 0x06 == 0 does not:
// an LSEP skipped as white space is counted as a column, fCurLine is not incremented (all later line numbers of the
// entity are too small) and getSpaces hands U+2028 to the caller instead of #xA.
//
// Found by unit rdr_skippedSpace (also rdr_skipSpaces / rdr_getSpaces): obligation "C03 line"
//   fCurLine == SPEC_EOL_LINE(old(fCurLine), c, ext, fNEL)   counterexample c = 0x2028, WS[c] = 1, fNEL = true, external.
//
// build: g++ -I/repo/src -I/repo/_build/src repro.cpp /repo/_build/src/libxerces-c-4.0.so -Wl,-rpath,/repo/_build/src -o repro
#include <xercesc/util/PlatformUtils.hpp>
#include <xercesc/parsers/SAXParser.hpp>
#include <xercesc/sax/HandlerBase.hpp>
#include <xercesc/framework/MemBufInputSource.hpp>
#include <string>
#include <cstdio>
using namespace xercesc;
struct H : HandlerBase {
  unsigned long line = 0, col = 0;
  void fatalError(const SAXParseException& e) override { if (!line) { line = e.getLineNumber(); col = e.getColumnNumber(); } }
};
static void errpos(const std::string& doc, unsigned long& l, unsigned long& c) {
  SAXParser p; H h; p.setDocumentHandler(&h); p.setErrorHandler(&h);
  MemBufInputSource src((const XMLByte*)doc.data(), doc.size(), "mem");
  try { p.parse(src); } catch (...) {}
  l = h.line; c = h.col;
}
int main() {
  XMLPlatformUtils::Initialize();
  // three line breaks inside a start tag (white space skipped by skipSpaces/skippedSpace), then a well-formedness error
  const char* brk[] = { "\n\n\n", "\xC2\x85\xC2\x85\xC2\x85" /* 3 x NEL */, "\xE2\x80\xA8\xE2\x80\xA8\xE2\x80\xA8" /* 3 x LSEP */ };
  unsigned long l[3], c[3];
  for (int i = 0; i < 3; i++) {
    errpos(std::string("<?xml version='1.1' encoding='UTF-8'?><a") + brk[i] + "></b>", l[i], c[i]);
    printf("%s: error reported at line %lu column %lu\n", i == 0 ? "3 x LF  " : i == 1 ? "3 x NEL " : "3 x LSEP", l[i], c[i]);
  }
  int bad = (l[2] != l[0]) || (c[2] != c[0]);
  puts(bad ? "DEFECT REPRODUCED: U+2028 in an XML 1.1 external entity is not counted as a line end when skipped as white space"
           : "ok (all three agree)");
  XMLPlatformUtils::Terminate();
  return bad;
}
