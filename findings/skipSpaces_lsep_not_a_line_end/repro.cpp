// XML 1.1 2.11: in an external parsed entity the single character #x2028 (LSEP) is a line break and is translated to #xA,
// exactly like #x85 (NEL).  XMLReader::skippedSpace / skipSpaces / getSpaces decide whether a white-space character needs
// end-of-line handling with the bit test
//        if ( ( curCh & (chCR|chLF) & ~(0x9|0x20) ) == 0 )  fCurCol++;  else handleEOL(curCh, ..);
// whose comment assumes white space = {x20, x9, xD, xA}.  For version 1.1 documents fgCharCharsTable1_1 also flags x85 and
// x2028 as white space; 0x85 & 0x06 != 0 reaches handleEOL by luck of its bit pattern, 0x2028 & 0x06 == 0 does not:
// an LSEP skipped as white space is counted as a column, fCurLine is not incremented (all later line numbers of the
// entity are too small) and getSpaces hands U+2028 to the caller instead of #xA.
//
// Found by units rdr_skippedSpace (obligation "C03 line", "C03 column") and rdr_getSpaces (loop invariant: every delivered
// character is what 2.11 delivers for a white-space character):
//   fCurLine == SPEC_EOL_LINE(old(fCurLine), c, ext, fNEL)   counterexample c = 0x2028, WS[c] = 1, fNEL = true, external.
//
// build: g++ -I/repo/src -I/repo/_build/src repro.cpp /repo/_build/src/libxerces-c-4.0.so -Wl,-rpath,/repo/_build/src -o repro
#include <xercesc/util/PlatformUtils.hpp>
#include <xercesc/parsers/SAXParser.hpp>
#include <xercesc/sax/HandlerBase.hpp>
#include <xercesc/framework/MemBufInputSource.hpp>
#include <xercesc/framework/XMLDocumentHandler.hpp>
#include <xercesc/internal/XMLScanner.hpp>
#include <xercesc/internal/XMLScannerResolver.hpp>
#include <xercesc/validators/common/GrammarResolver.hpp>
#include <xercesc/validators/DTD/DTDValidator.hpp>
#include <string>
#include <cstdio>
using namespace xercesc;
struct H : HandlerBase {
  unsigned long line = 0, col = 0;
  void fatalError(const SAXParseException& e) override { if (!line) { line = e.getLineNumber(); col = e.getColumnNumber(); } }
};
// white space outside the root element is collected by getSpaces and handed to XMLDocumentHandler::ignorableWhitespace; SAXParser
// drops it, so the scanner is driven directly here (exactly what SAXParser does internally)
struct Adv : XMLDocumentHandler {
  std::string ws;
  void ignorableWhitespace(const XMLCh* const chars, const XMLSize_t length, const bool) override
  { for (XMLSize_t i = 0; i < length; i++) { char b[8]; snprintf(b, sizeof b, " %04X", (unsigned)chars[i]); ws += b; } }
  void docCharacters(const XMLCh* const, const XMLSize_t, const bool) override {}
  void docComment(const XMLCh* const) override {}
  void docPI(const XMLCh* const, const XMLCh* const) override {}
  void endDocument() override {}
  void endElement(const XMLElementDecl&, const unsigned int, const bool, const XMLCh* const) override {}
  void endEntityReference(const XMLEntityDecl&) override {}
  void resetDocument() override {}
  void startDocument() override {}
  void startElement(const XMLElementDecl&, const unsigned int, const XMLCh* const, const RefVectorOf<XMLAttr>&, const XMLSize_t, const bool, const bool) override {}
  void startEntityReference(const XMLEntityDecl&) override {}
  void XMLDecl(const XMLCh* const, const XMLCh* const, const XMLCh* const, const XMLCh* const) override {}
};
static void errpos(const std::string& doc, unsigned long& l, unsigned long& c) {
  SAXParser p; H h; p.setDocumentHandler(&h); p.setErrorHandler(&h);
  MemBufInputSource src((const XMLByte*)doc.data(), doc.size(), "mem");
  try { p.parse(src); } catch (...) {}
  l = h.line; c = h.col;
}
int main() {
  XMLPlatformUtils::Initialize();
  // three line breaks inside a start tag (white space skipped by skipSpaces/skippedSpace), then a well-formedness error
  const char* brk[] = { "\n\n\n", "\xC2\x85\xC2\x85\xC2\x85" /* 3 x NEL */, "\xE2\x80\xA8\xE2\x80\xA8\xE2\x80\xA8" /* 3 x LSEP */ };
  unsigned long l[3], c[3];
  for (int i = 0; i < 3; i++) {
    errpos(std::string("<?xml version='1.1' encoding='UTF-8'?><a") + brk[i] + "></b>", l[i], c[i]);
    printf("%s: error reported at line %lu column %lu\n", i == 0 ? "3 x LF  " : i == 1 ? "3 x NEL " : "3 x LSEP", l[i], c[i]);
  }
  int bad = (l[2] != l[0]) || (c[2] != c[0]);
  // white space in the prolog is collected by getSpaces and handed to ignorableWhitespace(): 2.11 says the application sees #xA
  std::string seen[2];
  for (int i = 0; i < 2; i++) {
    std::string doc = std::string("<?xml version='1.1' encoding='UTF-8'?>") + (i == 0 ? "\xC2\x85" : "\xE2\x80\xA8") + "<a/>";
    Adv adv;
    MemBufInputSource src((const XMLByte*)doc.data(), doc.size(), "mem");
    {
      GrammarResolver* gr = new GrammarResolver(0);
      XMLScanner* sc = XMLScannerResolver::getDefaultScanner(new DTDValidator(), gr);
      sc->setURIStringPool(gr->getStringPool());
      sc->setDocHandler(&adv);
      try { sc->scanDocument(src); } catch (...) {}
      delete sc; delete gr;
    }
    seen[i] = adv.ws;
    printf("prolog white space %s delivered as:%s  (must be 000A)\n", i == 0 ? "NEL " : "LSEP", adv.ws.c_str());
  }
  bad |= (seen[1] != " 000A");
  puts(bad ? "DEFECT REPRODUCED: U+2028 in an XML 1.1 external entity is not counted as a line end when skipped as white space"
           : "ok (all three agree)");
  XMLPlatformUtils::Terminate();
  return bad;
}
