// Strict variant (kept here as ser_tmpl_RefHash3KeysIdPool_SchemaElementDecl_id.u.c.txt) of unit ser_tmpl_RefHash3KeysIdPool_SchemaElementDecl,
// obligation "C16: store then load restores every entry of the container: same keys, same element, at the same position / id".
//
// XTemplateSerializer::storeObject(RefHash3KeysIdPool<SchemaElementDecl>*) walks the pool with the KEY enumerator (hasMoreKeys /
// nextElementKey: hash-bucket order) since the scope key is stored separately; loadObject put()s the elements in that order and
// put() hands out ids in order of arrival.  The ids (SchemaElementDecl::getId(), RefHash3KeysIdPool::getById, the order of the id
// enumerator SchemaGrammar::getElemEnumerator()) of a restored grammar are therefore a permutation of the original ones, although
// the comment above the pair says "maintain the same order through id".  Visible effect: XSModel lists the global element
// declarations of the restored pool in a different order (and XSObject ids differ).  No reader of the ids outside the pool was found.
//
// build: g++ -I/repo/src -I/repo/_build/src repro.cpp /repo/_build/src/libxerces-c-4.0.so -Wl,-rpath,/repo/_build/src -o repro
#include <xercesc/util/PlatformUtils.hpp>
#include <xercesc/internal/BinMemOutputStream.hpp>
#include <xercesc/util/BinMemInputStream.hpp>
#include <xercesc/framework/XMLGrammarPoolImpl.hpp>
#include <xercesc/parsers/SAXParser.hpp>
#include <xercesc/sax/HandlerBase.hpp>
#include <xercesc/framework/MemBufInputSource.hpp>
#include <xercesc/validators/common/Grammar.hpp>
#include <xercesc/framework/psvi/XSModel.hpp>
#include <xercesc/framework/psvi/XSNamedMap.hpp>
#include <xercesc/framework/psvi/XSElementDeclaration.hpp>
#include <xercesc/framework/psvi/XSNotationDeclaration.hpp>
#include <xercesc/framework/psvi/XSAnnotation.hpp>
#include <xercesc/framework/psvi/XSConstants.hpp>
#include <cstdio>
#include <cstring>
#include <string>
using namespace xercesc;
static const char xsd[] =
  "<xs:schema xmlns:xs='http://www.w3.org/2001/XMLSchema' targetNamespace='urn:t' xmlns='urn:t'>"
  " <xs:notation name='gif' public='image/gif'><xs:annotation><xs:documentation>NOTATION-DOC</xs:documentation></xs:annotation></xs:notation>"
  " <xs:element name='zeta' type='xs:string'><xs:annotation><xs:documentation>ELEM-DOC</xs:documentation></xs:annotation></xs:element>"
  " <xs:element name='alpha' type='xs:string'/><xs:element name='mid' type='xs:string'/><xs:element name='beta' type='xs:string'/>"
  " <xs:element name='omega' type='xs:string'/><xs:element name='k' type='xs:string'/><xs:element name='b2' type='xs:string'/>"
  "</xs:schema>";
static std::string tr(const XMLCh* s) { if (!s) return "(null)"; char* c = XMLString::transcode(s); std::string r(c); XMLString::release(&c); return r; }
static std::string dump(XMLGrammarPool* pool, std::string& notationAnn, std::string& elemAnn) {
  bool changed; XSModel* m = pool->getXSModel(changed);
  std::string order;
  XSNamedMap<XSObject>* els = m->getComponents(XSConstants::ELEMENT_DECLARATION);
  for (XMLSize_t i = 0; els && i < els->getLength(); i++) { XSElementDeclaration* e = (XSElementDeclaration*)els->item(i); order += tr(e->getName()); order += ' ';
    if (tr(e->getName()) == "zeta") elemAnn = e->getAnnotation() ? tr(e->getAnnotation()->getAnnotationString()) : "(no annotation)"; }
  XSNamedMap<XSObject>* ns = m->getComponents(XSConstants::NOTATION_DECLARATION);
  notationAnn = "(no notation)";
  for (XMLSize_t i = 0; ns && i < ns->getLength(); i++) { XSNotationDeclaration* n = (XSNotationDeclaration*)ns->item(i);
    notationAnn = n->getAnnotation() ? tr(n->getAnnotation()->getAnnotationString()) : "(no annotation)"; }
  return order;
}
int main() {
  XMLPlatformUtils::Initialize();
  int bad = 0;
  {
    XMLGrammarPoolImpl poolA(XMLPlatformUtils::fgMemoryManager);
    { SAXParser loader(0, XMLPlatformUtils::fgMemoryManager, &poolA); loader.setDoNamespaces(true); loader.setDoSchema(true);
      MemBufInputSource src((const XMLByte*)xsd, strlen(xsd), "mem.xsd");
      loader.loadGrammar(src, Grammar::SchemaGrammarType, true); }
    BinMemOutputStream out(4096); poolA.serializeGrammars(&out);
    XMLGrammarPoolImpl poolB(XMLPlatformUtils::fgMemoryManager);
    BinMemInputStream in(out.getRawBuffer(), (XMLSize_t)out.getSize(), BinMemInputStream::BufOpt_Reference);
    poolB.deserializeGrammars(&in);
    std::string na, nb, ea, eb;
    std::string a = dump(&poolA, na, ea), b = dump(&poolB, nb, eb);
    printf("original pool: element declarations in XSModel order: %s\n", a.c_str());
    printf("restored pool: element declarations in XSModel order: %s\n", b.c_str());
    if (a != b) bad |= 1;
  }
  XMLPlatformUtils::Terminate();
  printf((bad & 1) ? "ORDER / IDS DIFFER (same set of declarations)\n" : "same order\n");
  return bad;
}
