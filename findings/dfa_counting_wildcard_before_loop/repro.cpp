// C08 (occurrence counting).  DFAContentModel::validateContent looks up the FIRST element-map symbol that the child belongs to
// and that has a transition from the current state, then calls handleRepetitions.  In a counting state (inside foo{m,n}) a
// transition that leaves the state with count < minOccurs makes handleRepetitions return false at once ("not enough loops on
// the current state") -- without trying a later symbol the child also belongs to, in particular the repeating symbol itself.
// (The symmetrical case -- count > maxOccurs on the loop -- does search the later symbols.)
// So when a wildcard (or another leaf of the same name) that FOLLOWS the repetition got a smaller element-map index than the
// repeating leaf (because the same wildcard also occurs earlier in the model: symbols are numbered in leaf order, equal leaves
// merged), a valid sequence is rejected:
//     (bar, ##any, foo{2,2}, ##any)   bar x foo foo y    -- valid (each child has exactly one particle), reported INVALID:
//     "element 'foo' is not allowed for content model": the second foo is first tried as the trailing ##any (count 1 < 2).
// With setValidationSchemaFullChecking(true) the compact repetition is not used and the answer is right.
// Unit: cm_dfa_count_strict fails with this shape (counting state min = max, child belongs to symbol 0 (leaving) and symbol 1
// (repeating)); cm_dfa_count proves the walk under the extra assumption "the repeating symbol precedes".
// build: g++ -I/repo/src -I/repo/_build/src repro.cpp /repo/_build/src/libxerces-c-4.0.so -Wl,-rpath,/repo/_build/src -o repro
#include <xercesc/util/PlatformUtils.hpp>
#include <xercesc/util/XMLString.hpp>
#include <xercesc/parsers/SAXParser.hpp>
#include <xercesc/sax/HandlerBase.hpp>
#include <xercesc/framework/MemBufInputSource.hpp>
#include <xercesc/validators/common/Grammar.hpp>
#include <string>
#include <cstdio>
using namespace xercesc;
struct H : HandlerBase { std::string msg; int n = 0;
  void error(const SAXParseException& e) override { n++; char* m = XMLString::transcode(e.getMessage()); msg = m; XMLString::release(&m); }
  void fatalError(const SAXParseException& e) override { error(e); } };
static int errors(const char* inst, bool full, std::string* msg) {
  std::string xsd = "<xs:schema xmlns:xs='http://www.w3.org/2001/XMLSchema'><xs:element name='r'><xs:complexType><xs:sequence>"
    "<xs:element name='bar' type='xs:string'/><xs:any processContents='skip'/>"
    "<xs:element name='foo' type='xs:string' minOccurs='2' maxOccurs='2'/><xs:any processContents='skip'/>"
    "</xs:sequence></xs:complexType></xs:element></xs:schema>";
  SAXParser p; H h; p.setErrorHandler(&h); p.setValidationScheme(SAXParser::Val_Always); p.setDoNamespaces(true); p.setDoSchema(true);
  p.setValidationSchemaFullChecking(full);
  MemBufInputSource xs((const XMLByte*)xsd.data(), xsd.size(), "mem.xsd");
  if (!p.loadGrammar(xs, Grammar::SchemaGrammarType, true) || h.n) return -1;
  p.useCachedGrammarInParse(true);
  std::string doc = std::string("<r>") + inst + "</r>";
  MemBufInputSource src((const XMLByte*)doc.data(), doc.size(), "mem.xml");
  p.parse(src); *msg = h.msg;
  return h.n;
}
int main() {
  XMLPlatformUtils::Initialize();
  int bad = 0;
  {
    const char* inst = "<bar/><x/><foo/><foo/><y/>";
    for (int full = 0; full <= 1; full++) {
      std::string m; int e = errors(inst, full, &m);
      printf("(bar, ##any, foo{2,2}, ##any)  %s  fullChecking=%d: %s %s\n", inst, full, e ? "INVALID" : "valid", m.c_str());
      if (e != 0) bad = 1;
    }
  }
  puts(bad ? "DEFECT REPRODUCED: a schema-valid child sequence is rejected in a counting state" : "ok");
  XMLPlatformUtils::Terminate();
  return bad;
}
