// C12 / C06, DOMLSSerializerImpl namespace fix-up of the DEFAULT namespace (trees built through the API).
//
// (A) unit domser_nsbinding, failing obligation
//       h_nsbinding.assertion "isNamespaceBindingActive with an un-declaration in scope (xmlns='' recorded by the serializer as a
//       null uri): a binding hidden by the innermost declaration of the prefix is not active"
//       counterexample of the unit: scopes [ {""->u} , {""->null} ], query ("", u): answer true, must be false
//     processNode records the xmlns="" it writes for an element without namespace as  namespaceMap->put("", (XMLCh*)0)
//     (uri = getNamespaceURI() = 0).  isNamespaceBindingActive reads `thisUri = map->get(prefix); if (thisUri) return equals(..)`,
//     so a null value looks like "prefix not declared in this scope" and the search goes on to the OUTER scope:
//       <a xmlns="u"> <c (no namespace)> <e (namespace u)/> </c> </a>   is written   <a xmlns="u"><c xmlns=""><e/></c></a>
//     and e re-parses WITHOUT namespace.
// (B) same fix-up, attribute loop of processNode (DOMLSSerializerImpl.cpp ~line 885): an explicit xmlns="u" attribute is
//     looked up under the key "" (nsPrefix) but stored with  namespaceMap->put((void*)attribute->getLocalName(), ..)  = key
//     "xmlns", so the default namespace it declares is invisible to isDefaultNamespacePrefixDeclared/isNamespaceBindingActive:
//       <p:a xmlns:p="pu" xmlns="u"> <c (no namespace)/> </p:a>   is written   <p:a xmlns:p="pu" xmlns="u"><c/></p:a>
//     (no xmlns="" on c) and c re-parses in namespace u.
// C12: "namespace declarations needed by programmatically built trees are supplied when namespace fix-up is on" /
//      "parsed again, produces a tree equal (isEqualNode) to the original".
//
// build: g++ -g -I/repo/src -I/repo/_build/src repro.cpp /repo/_build/src/libxerces-c-4.0.so -Wl,-rpath,/repo/_build/src -o repro
// run:   ./repro          exit status: bit 0 = (A) present, bit 1 = (B) present
#include <xercesc/util/PlatformUtils.hpp>
#include <xercesc/dom/DOM.hpp>
#include <xercesc/util/XMLString.hpp>
#include <xercesc/framework/MemBufFormatTarget.hpp>
#include <xercesc/framework/MemBufInputSource.hpp>
#include <xercesc/framework/Wrapper4InputSource.hpp>
#include <cstdio>
using namespace xercesc;
struct X { XMLCh b[64]; X(const char* s) { XMLString::transcode(s, b, 63); } operator const XMLCh*() const { return b; } };
static void show(const char* w, const XMLCh* s) { if (!s) { printf("%s=(null) ", w); return; } char* m = XMLString::transcode(s); printf("%s='%s' ", w, m); XMLString::release(&m); }
static void dump(DOMNode* n, int d) { for (; n; n = n->getNextSibling()) if (n->getNodeType() == DOMNode::ELEMENT_NODE) { printf("%*s", d * 2, ""); show("name", n->getNodeName()); show("ns", n->getNamespaceURI()); printf("\n"); dump(n->getFirstChild(), d + 1); } }
static int roundtrip(DOMImplementation* impl, DOMDocument* doc)
{
  printf(" original:\n"); dump(doc->getDocumentElement(), 2);
  DOMLSSerializer* ser = ((DOMImplementationLS*)impl)->createLSSerializer();
  DOMLSOutput* out = ((DOMImplementationLS*)impl)->createLSOutput();
  MemBufFormatTarget tgt; out->setByteStream(&tgt);
  ser->write(doc->getDocumentElement(), out);
  printf(" serialised: %s\n", (const char*)tgt.getRawBuffer());
  DOMLSParser* parser = ((DOMImplementationLS*)impl)->createLSParser(DOMImplementationLS::MODE_SYNCHRONOUS, 0);
  parser->getDomConfig()->setParameter(XMLUni::fgDOMNamespaces, true);
  MemBufInputSource src(tgt.getRawBuffer(), tgt.getLen(), "mem"); Wrapper4InputSource w(&src, false);
  DOMDocument* d2 = parser->parse(&w);
  printf(" re-parsed:\n"); dump(d2->getDocumentElement(), 2);
  // compare element names + namespaces in document order (explicit declarations differ by design of the fix-up)
  DOMNode *p = doc->getDocumentElement(), *q = d2->getDocumentElement(); int bad = 0;
  while (p && q) {
    if (!XMLString::equals(p->getNamespaceURI(), q->getNamespaceURI()) || !XMLString::equals(p->getLocalName(), q->getLocalName())) bad = 1;
    p = p->getFirstChild(); q = q->getFirstChild();
  }
  printf(bad ? " *** an element changed its namespace\n" : " ok\n");
  parser->release(); out->release(); ser->release();
  return bad;
}
int main()
{
  XMLPlatformUtils::Initialize();
  int rc = 0;
  {
    DOMImplementation* impl = DOMImplementationRegistry::getDOMImplementation(X("LS"));
    printf("(A) default namespace re-used under an un-declaration\n");
    DOMDocument* doc = impl->createDocument(X("u"), X("a"), 0);
    DOMElement* c = doc->createElementNS(0, X("c")); doc->getDocumentElement()->appendChild(c);
    DOMElement* e = doc->createElementNS(X("u"), X("e")); c->appendChild(e);
    rc |= roundtrip(impl, doc) ? 1 : 0;
    printf("(B) explicit xmlns attribute not seen as a default-namespace declaration\n");
    DOMDocument* doc2 = impl->createDocument(X("pu"), X("p:a"), 0);
    doc2->getDocumentElement()->setAttributeNS(X("http://www.w3.org/2000/xmlns/"), X("xmlns"), X("u"));
    DOMElement* c2 = doc2->createElementNS(0, X("c")); doc2->getDocumentElement()->appendChild(c2);
    rc |= roundtrip(impl, doc2) ? 2 : 0;
  }
  XMLPlatformUtils::Terminate();
  return rc;
}
