// Base64::base64Inverse has BASELENGTH = 255 entries but is indexed with an XMLByte (0..255): isData(0xFF) and the
// base64Inverse[d] look-ups in Base64::decode read one element past the table.  What lies behind the table decides
// whether the byte 0xFF (and, through decodeToXMLByte's (XMLByte) truncation, every XMLCh 0x..FF such as U+00FF or
// U+01FF) is taken for a base64 digit.  HexBin::decodeToXMLByte indexes its 255-entry hexNumberTable with an unchecked
// XMLCh (0..65535).
// Build: g++ -I/repo/src -I/repo/_build/src repro.cpp /repo/_build/src/libxerces-c-4.0.so -Wl,-rpath,/repo/_build/src -o repro
#include <xercesc/util/PlatformUtils.hpp>
#include <xercesc/util/Base64.hpp>
#include <xercesc/util/HexBin.hpp>
#include <xercesc/util/XMLString.hpp>
#include <cstdio>
using namespace xercesc;
int main()
{
    XMLPlatformUtils::Initialize();
    int bad = 0;
    {
        const XMLByte in1[] = { 0xFF, 'A', 'A', 'A', 0 };
        XMLSize_t len = 0;
        XMLByte* r = Base64::decode(in1, &len, XMLPlatformUtils::fgMemoryManager, Base64::Conf_Schema);
        printf("Base64::decode(\"\\xFF AAA\") -> %s", r ? "ACCEPTED, octets:" : "rejected");
        if (r) { for (XMLSize_t i = 0; i < len; i++) printf(" %02X", r[i]); bad++; }
        printf("\n");
        const XMLCh in2[] = { 0x00FF, 'A', 'A', 'A', 0 };     // y-diaeresis + "AAA"
        r = Base64::decodeToXMLByte(in2, &len, XMLPlatformUtils::fgMemoryManager, Base64::Conf_Schema);
        printf("Base64::decodeToXMLByte(U+00FF \"AAA\") -> %s\n", r ? "ACCEPTED" : "rejected");
        if (r) bad++;
        const XMLCh in3[] = { 0x0141, 'A', 'A', 'A', 0 };     // U+0141 truncates to 0x41 'A'
        r = Base64::decodeToXMLByte(in3, &len, XMLPlatformUtils::fgMemoryManager, Base64::Conf_Schema);
        printf("Base64::decodeToXMLByte(U+0141 \"AAA\") -> %s (U+0141 is not a base64 character)\n", r ? "ACCEPTED" : "rejected");
        if (r) bad++;
        const XMLCh in4[] = { 'A', 'A', 'A', 'A', 0x0100, '!', '!', 0 };     // U+0100 truncates to 0 and cuts the literal
        r = Base64::decodeToXMLByte(in4, &len, XMLPlatformUtils::fgMemoryManager, Base64::Conf_Schema);
        printf("Base64::decodeToXMLByte(\"AAAA\" U+0100 \"!!\") -> %s\n", r ? "ACCEPTED" : "rejected");
        if (r) bad++;
        printf("Base64::getDataLength(U+0141 \"AAA\") = %d (validator verdict: >= 0 means valid)\n", Base64::getDataLength(in3, XMLPlatformUtils::fgMemoryManager, Base64::Conf_Schema));
    }
    {
        const XMLCh h1[] = { 0x4130, 0x4130, 0 };    // far outside the 255-entry hexNumberTable
        XMLByte* r = HexBin::decodeToXMLByte(h1, XMLPlatformUtils::fgMemoryManager);
        printf("HexBin::decodeToXMLByte(U+4130 U+4130) -> %s (reads hexNumberTable[0x4130], table has 255 entries)\n", r ? "ACCEPTED" : "rejected");
        if (r) bad++;
    }
    printf(bad ? "DEFECT OBSERVED (%d)\n" : "no wrong verdict observed on this build (the over-read itself needs a memory checker)\n", bad);
    XMLPlatformUtils::Terminate();
    return bad ? 1 : 0;
}
