// XMLReader::handleEOL does not advance fCurCol for U+0085 (NEL) / U+2028 (LSEP) when they are NOT line breaks
// (XML 1.0 document without the enableNELWS option, or any internal entity): the `case chNEL: case chLineSeparator:` arm
// only acts `if (fNEL && fSource == Source_External)` and has no `else fCurCol++`.  Every character read through
// getNextChar / getNextCharIfNot / getUpToCharOrWS that is U+0085 or U+2028 is therefore missing from the column count,
// and all positions reported for the rest of that line (Locator, SAXParseException::getColumnNumber) are too small.
// In XML 1.0 both are ordinary characters (Char production), not line ends (2.11).
//
// Found by units rdr_handleEOL / rdr_getNextChar / rdr_getNextCharIfNot: obligation "C03 column"
//   fCurCol == SPEC_EOL_COL(old(fCurCol), c, ext, fNEL)      counterexample c = 0x2028 (or 0x85), fNEL = false.
//
// build: g++ -I/repo/src -I/repo/_build/src repro.cpp /repo/_build/src/libxerces-c-4.0.so -Wl,-rpath,/repo/_build/src -o repro
#include <xercesc/util/PlatformUtils.hpp>
#include <xercesc/parsers/SAXParser.hpp>
#include <xercesc/sax/HandlerBase.hpp>
#include <xercesc/framework/MemBufInputSource.hpp>
#include <xercesc/util/XMLString.hpp>
#include <string>
#include <cstdio>
using namespace xercesc;
struct H : HandlerBase {
  unsigned long line = 0, col = 0;
  void fatalError(const SAXParseException& e) override { if (!col) { line = e.getLineNumber(); col = e.getColumnNumber(); } }
};
static unsigned long errcol(const std::string& doc) {
  SAXParser p; H h; p.setDocumentHandler(&h); p.setErrorHandler(&h);
  MemBufInputSource src((const XMLByte*)doc.data(), doc.size(), "mem");
  try { p.parse(src); } catch (...) {}
  return h.col;
}
int main() {
  XMLPlatformUtils::Initialize();
  int bad = 0;
  {
    // three ordinary characters inside a comment, then a well-formedness error on the same line
    const char* fill[] = { "xxx", "\xE2\x80\xA8\xE2\x80\xA8\xE2\x80\xA8" /* 3 x U+2028 */, "\xC2\x85\xC2\x85\xC2\x85" /* 3 x U+0085 */ };
    unsigned long c[3];
    for (int i = 0; i < 3; i++)
      c[i] = errcol(std::string("<?xml version='1.0' encoding='UTF-8'?><a><!--") + fill[i] + "--></b>");
    printf("error column with 3 x 'x': %lu, 3 x U+2028: %lu, 3 x U+0085: %lu  (all three must be equal)\n", c[0], c[1], c[2]);
    bad = (c[0] != c[1]) || (c[0] != c[2]);
  }
  puts(bad ? "DEFECT REPRODUCED: column number depends on which (non-line-break) characters precede the position" : "ok");
  XMLPlatformUtils::Terminate();
  return bad;
}
