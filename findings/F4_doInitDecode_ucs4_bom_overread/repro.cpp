// F4: XMLReader::doInitDecode, UCS-4 byte-order-mark removal:
//        for (XMLSize_t i = 0; i < fRawBytesAvail; i++)
//            fRawByteBuf[i] = fRawByteBuf[i+4];
// reads fRawByteBuf[fRawBytesAvail .. fRawBytesAvail+3], i.e. 4 bytes beyond the valid data, and beyond the ARRAY
// (XMLByte fRawByteBuf[kRawBufSize], kRawBufSize = 49152) whenever the first read filled more than kRawBufSize-4 bytes --
// any UCS-4 document with a BOM that is at least 48 KiB long.  The bytes read belong to the next data member; they land in
// fRawByteBuf[avail-4 .. avail) which is cut off by `fRawBytesAvail -= 4`, so the result of the parse is not affected: the defect
// is the out-of-bounds read itself (undefined behaviour, C01).  The loop bound should be `i + 4 < fRawBytesAvail`
// (or a memmove of fRawBytesAvail - 4 bytes).
//
// Found by unit rdr_doInitDecode: obligation
//   XMLReader_doInitDecode.array_bounds: array 'SELF'.fRawByteBuf upper bound in SELF.fRawByteBuf[i + 4]   (XMLReader.cpp:1539)
//   counterexample: fEncoding = UCS_4B, fRawByteBuf = 00 00 FE FF ..., fRawBytesAvail = kRawBufSize, i = kRawBufSize - 4.
//
// Native reproduction: XMLReader.cpp is compiled into this program with -fsanitize=bounds (its definitions pre-empt the ones in the
// shared library), everything else comes from the stock library:
//   g++ -g -fsanitize=bounds -I/repo/src -I/repo/_build/src -I/repo/_build -DHAVE_CONFIG_H -DXERCES_BUILDING_LIBRARY \
//       repro.cpp /repo/src/xercesc/internal/XMLReader.cpp /repo/_build/src/libxerces-c-4.0.so -Wl,-rpath,/repo/_build/src -o repro && ./repro
// expected output (before a fix):  XMLReader.cpp:1539: runtime error: index 49152 out of bounds for type 'unsigned char [49152]'
#include <xercesc/util/PlatformUtils.hpp>
#include <xercesc/parsers/SAXParser.hpp>
#include <xercesc/sax/HandlerBase.hpp>
#include <xercesc/framework/MemBufInputSource.hpp>
#include <string>
#include <cstdio>
using namespace xercesc;
struct H : HandlerBase {
  int fatal = 0; unsigned long chars = 0;
  void fatalError(const SAXParseException&) override { fatal++; }
  void characters(const XMLCh* const, const XMLSize_t n) override { chars += n; }
};
int main() {
  XMLPlatformUtils::Initialize();
  std::string text = "<?xml version='1.0' encoding='UCS-4'?><a>";
  while (text.size() < 13000) text += "0123456789";          // 13000 characters = 52000 bytes > kRawBufSize
  text += "</a>";
  std::string doc("\x00\x00\xFE\xFF", 4);                     // UCS-4 big-endian byte-order mark
  for (unsigned char c : text) { doc += '\0'; doc += '\0'; doc += '\0'; doc += (char)c; }
  {
    SAXParser p; H h; p.setDocumentHandler(&h); p.setErrorHandler(&h);
    MemBufInputSource src((const XMLByte*)doc.data(), doc.size(), "mem");
    try { p.parse(src); } catch (...) { h.fatal++; }
    printf("document of %lu bytes parsed: fatal=%d characters=%lu\n", (unsigned long)doc.size(), h.fatal, h.chars);
  }
  XMLPlatformUtils::Terminate();
  return 0;
}
