// XMLString::binToText(long / int, XMLCh* toFill, maxChars, radix): XMLString.hpp documents "The size of this buffer should
// at least be 'maxChars + 1'" and "If the result will not fit, it is an error".  For a NEGATIVE value the code writes '-'
// into toFill[0] and forwards &toFill[1] together with the UNCHANGED maxChars to the unsigned long version, which then
// accepts up to maxChars digits and writes its terminator at toFill[1 + maxChars]: one element past the documented buffer
// (and the result has maxChars + 1 characters without the documented error).
// Here: maxChars = 3, buffer of 4 XMLCh on the heap, value -123  ->  writes "-123\0" = 5 elements.
#include <xercesc/util/PlatformUtils.hpp>
#include <xercesc/util/XMLString.hpp>
#include <cstdio>
#include <cstdlib>
using namespace xercesc;
int main() {
  XMLPlatformUtils::Initialize();
  const XMLSize_t maxChars = 3;
  XMLCh* buf = (XMLCh*)malloc((maxChars + 1) * sizeof(XMLCh));      // as documented
  try {
    XMLString::binToText((long)-123, buf, maxChars, 10);
    printf("no exception; result has %u characters (maxChars = %u)\n", (unsigned)XMLString::stringLen(buf), (unsigned)maxChars);
  } catch (...) { printf("exception (expected: the result does not fit)\n"); }
  free(buf);
  XMLPlatformUtils::Terminate();
}
