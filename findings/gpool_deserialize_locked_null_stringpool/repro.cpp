// C16: a grammar pool that was LOCKED when it was serialised cannot be deserialised into a fresh pool: deserializeGrammars reads
// fLocked = true before the grammars; getURIStringPool() then returns fSynchronizedStringPool, which only lockPool() creates and
// which is null in the fresh pool; XTemplateSerializer::loadObject(RefHashTableOf<XercesGroupInfo>** / <XercesAttGroupInfo>** /
// <DatatypeValidator>**) dereference serEng.getStringPool() (XTemplateSerializer.cpp:1343, 1425, 1619) -> null pointer dereference.
//
// build: g++ -I/repo/src -I/repo/_build/src repro.cpp /repo/_build/src/libxerces-c-4.0.so -Wl,-rpath,/repo/_build/src -o repro
#include <xercesc/util/PlatformUtils.hpp>
#include <xercesc/internal/BinMemOutputStream.hpp>
#include <xercesc/util/BinMemInputStream.hpp>
#include <xercesc/framework/XMLGrammarPoolImpl.hpp>
#include <xercesc/parsers/SAXParser.hpp>
#include <xercesc/framework/MemBufInputSource.hpp>
#include <xercesc/validators/common/Grammar.hpp>
#include <xercesc/util/XMLException.hpp>
#include <cstdio>
#include <cstring>
#include <csignal>
#include <cstdlib>
using namespace xercesc;
static const char xsd[] =
  "<xs:schema xmlns:xs='http://www.w3.org/2001/XMLSchema'>"
  " <xs:simpleType name='small'><xs:restriction base='xs:int'><xs:maxInclusive value='9'/></xs:restriction></xs:simpleType>"
  " <xs:element name='a' type='small'/>"
  "</xs:schema>";
static void onsegv(int) { printf("restored pool: SIGSEGV inside deserializeGrammars\nDEFECT REPRODUCED\n"); fflush(stdout); _exit(1); }
int main(int argc, char** argv) {
  bool lock = argc < 2 || strcmp(argv[1], "unlocked") != 0;
  XMLPlatformUtils::Initialize();
  signal(SIGSEGV, onsegv);
  int rc = 0;
  {
  XMLGrammarPoolImpl poolA(XMLPlatformUtils::fgMemoryManager);
  { SAXParser loader(0, XMLPlatformUtils::fgMemoryManager, &poolA); loader.setDoNamespaces(true); loader.setDoSchema(true);
    MemBufInputSource src((const XMLByte*)xsd, strlen(xsd), "mem.xsd");
    loader.loadGrammar(src, Grammar::SchemaGrammarType, true); }
  if (lock) poolA.lockPool();
  BinMemOutputStream out(4096); poolA.serializeGrammars(&out);
  printf("original pool (%s): serialised, %u bytes\n", lock ? "locked" : "unlocked", (unsigned)out.getSize());
  XMLGrammarPoolImpl poolB(XMLPlatformUtils::fgMemoryManager);
  BinMemInputStream in(out.getRawBuffer(), (XMLSize_t)out.getSize(), BinMemInputStream::BufOpt_Reference);
  try { poolB.deserializeGrammars(&in); printf("restored pool: deserialised\nok\n"); }
  catch (const XMLException& e) { char* m = XMLString::transcode(e.getMessage()); printf("restored pool: exception %s\n", m); XMLString::release(&m); rc = 2; }
  signal(SIGSEGV, SIG_DFL);
  }
  XMLPlatformUtils::Terminate();
  return rc;
}
