// probe: attribute-value normalisation of an enumerated (non-CDATA) DTD attribute, namespaces on vs off
#include <xercesc/util/PlatformUtils.hpp>
#include <xercesc/parsers/XercesDOMParser.hpp>
#include <xercesc/framework/MemBufInputSource.hpp>
#include <xercesc/dom/DOM.hpp>
#include <xercesc/util/XMLString.hpp>
#include <cstdio>
#include <cstring>
using namespace xercesc;
static void run(const char* doc, bool ns, const char* scanner) {
  XercesDOMParser p; p.setDoNamespaces(ns); p.useScanner(XMLString::transcode(scanner));
  MemBufInputSource src((const XMLByte*)doc, strlen(doc), "mem");
  p.parse(src);
  DOMElement* e = p.getDocument()->getDocumentElement();
  XMLCh a[2] = {'a',0};
  char* v = XMLString::transcode(e->getAttribute(a));
  printf("%-14s ns=%d errors=%d a=[%s]\n", scanner, ns, (int)p.getErrorCount(), v);
}
int main() {
  XMLPlatformUtils::Initialize();
  const char* doc = "<!DOCTYPE e [<!ELEMENT e EMPTY><!ATTLIST e a (x|y) #IMPLIED>]><e a=' x '/>";
  const char* sc[] = {"IGXMLScanner","DGXMLScanner"};
  for (int s = 0; s < 2; s++) for (int ns = 0; ns < 2; ns++) run(doc, ns, sc[s]);
  return 0;
}
