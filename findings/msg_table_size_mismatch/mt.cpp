// InMemMsgLoader::loadMsg tests `msgToLoad > gXML...ArraySize`, but the g...ArraySize constants of XercesMessages_en_US.hpp
// are larger than the number of rows of the tables (Err 288 vs 287 rows, Validity 84 vs 79, Except 369 vs 366, DOM 41 vs 36:
// they count NoError and the Low/HighBounds markers of the trailing empty categories).  An id between the row count and
// the constant passes the range test and is copied from beyond the table.
// Here: validity domain, id XMLValid::F_HighBounds (83), 4 rows (1024 bytes) past the 79-row table.
#include <xercesc/util/PlatformUtils.hpp>
#include <xercesc/util/XMLMsgLoader.hpp>
#include <xercesc/util/XMLUni.hpp>
#include <xercesc/util/XMLString.hpp>
#include <xercesc/framework/XMLValidityCodes.hpp>
#include <cstdio>
using namespace xercesc;
int main() {
  XMLPlatformUtils::Initialize();
  XMLMsgLoader* l = XMLPlatformUtils::loadMsgSet(XMLUni::fgValidityDomain);
  XMLCh buf[128];
  bool ok = l->loadMsg(XMLValid::F_HighBounds, buf, 127);
  char* t = XMLString::transcode(buf);
  printf("loadMsg(%d) returned %d, text '%s'\n", (int)XMLValid::F_HighBounds, (int)ok, t);   // expected: false
  XMLString::release(&t);
  delete l;
  XMLPlatformUtils::Terminate();
}
