// C01 / C06, units dom_lookupns, dom_lookupprefix, dom_isdefaultns (DOMNodeImpl::lookupNamespaceURI / lookupPrefix / isDefaultNamespace),
// failing obligation (all three units)
//   ND_getDocumentElement.assertion "C01: getDocumentElement()->lookupXxx(): the document has a document element (null pointer
//   dereference otherwise)"            counterexample: start node = a document with no document element
//
// case DOMNode::DOCUMENT_NODE of the three algorithms is
//     return ((DOMDocument*)thisNode)->getDocumentElement()->lookupXxx(arg);
// getDocumentElement() is null for a document without root element (DOMImplementation::createDocument() without arguments, a
// document whose root was removed, a document being built): the virtual call goes through a null pointer -> SIGSEGV.
// DOM Level 3 Core Appendix B gives "unknown" (null / false) when there is nothing to ask.
//
// build: g++ -g -I/repo/src -I/repo/_build/src repro.cpp /repo/_build/src/libxerces-c-4.0.so -Wl,-rpath,/repo/_build/src -o repro
// run:   ./repro 0 | 1 | 2     (lookupNamespaceURI | lookupPrefix | isDefaultNamespace): each dies with SIGSEGV (exit status 139)
#include <xercesc/util/PlatformUtils.hpp>
#include <xercesc/dom/DOM.hpp>
#include <xercesc/util/XMLString.hpp>
#include <cstdio>
#include <cstdlib>
using namespace xercesc;
struct X { XMLCh b[64]; X(const char* s) { XMLString::transcode(s, b, 63); } operator const XMLCh*() const { return b; } };
int main(int argc, char** argv)
{
  XMLPlatformUtils::Initialize();
  DOMImplementation* impl = DOMImplementationRegistry::getDOMImplementation(X("LS"));
  DOMDocument* doc = impl->createDocument();
  printf("documentElement = %p\n", (void*)doc->getDocumentElement()); fflush(stdout);
  int m = argc > 1 ? atoi(argv[1]) : 0;
  if (m == 0) { const XMLCh* r = doc->lookupNamespaceURI(X("p")); printf("lookupNamespaceURI -> %p\n", (void*)r); }
  if (m == 1) { const XMLCh* r = doc->lookupPrefix(X("u")); printf("lookupPrefix -> %p\n", (void*)r); }
  if (m == 2) { bool r = doc->isDefaultNamespace(X("u")); printf("isDefaultNamespace -> %d\n", (int)r); }
  printf("survived\n");
  doc->release();
  XMLPlatformUtils::Terminate();
  return 0;
}
