// SimpleContentModel::validateContent / validateContentSpecial, case ContentSpecNode::ZeroOrOne (model `a?`):
// child 0 is compared with the model only when childCount == 1; with two or more children the function reports
// *indexFailingChild = 1 without looking at child 0.  The verdict (invalid) is right, but for <r><b/><a/></r> against
// <!ELEMENT r (a?)> the validity error names child 1 ('a', which the model allows) instead of child 0 ('b', the first
// child that cannot be part of any match).  Every other simple model (a, a*, a+, a|b, a,b) reports the first offending child
// (unit cm_simple_idx).  Same text in validateContentSpecial (schema path: <xs:element ref="a" minOccurs="0"/>).
// build: g++ -I/repo/src -I/repo/_build/src repro.cpp /repo/_build/src/libxerces-c-4.0.so -Wl,-rpath,/repo/_build/src -o repro
#include <xercesc/util/PlatformUtils.hpp>
#include <xercesc/util/XMLString.hpp>
#include <xercesc/parsers/SAXParser.hpp>
#include <xercesc/sax/HandlerBase.hpp>
#include <xercesc/framework/MemBufInputSource.hpp>
#include <string>
#include <cstdio>
using namespace xercesc;
struct H : HandlerBase { std::string msg; int n = 0;
  void error(const SAXParseException& e) override { n++; char* m = XMLString::transcode(e.getMessage()); msg = m; XMLString::release(&m); }
  void fatalError(const SAXParseException& e) override { error(e); } };
static std::string run(const char* model) {
  std::string doc = std::string("<!DOCTYPE r [<!ELEMENT r ") + model + "><!ELEMENT a EMPTY><!ELEMENT b EMPTY>]><r><b/><a/></r>";
  SAXParser p; H h; p.setErrorHandler(&h); p.setValidationScheme(SAXParser::Val_Always);
  MemBufInputSource src((const XMLByte*)doc.data(), doc.size(), "mem");
  p.parse(src);
  printf("model %-6s children (b,a): %d error(s): %s\n", model, h.n, h.msg.c_str());
  return h.msg;
}
int main() {
  XMLPlatformUtils::Initialize();
  int bad = 0;
  {
    std::string opt = run("(a?)"), star = run("(a*)"), leaf = run("(a)");
    // the message has the form "element 'X' is not allowed for content model '(...)'"
    bool optNamesB = opt.find("'b'") != std::string::npos, starNamesB = star.find("'b'") != std::string::npos;
    if (!optNamesB && starNamesB) bad = 1;
  }
  puts(bad ? "DEFECT REPRODUCED: for (a?) the error names child 'a' (index 1) although child 'b' (index 0) is the first that cannot match" : "ok");
  XMLPlatformUtils::Terminate();
  return bad;
}
