// XMLAbstractDoubleFloat::compareValues(lValue, rValue): case #4 (lValue normal, rValue special) returns
// `(-1) * compareSpecial(rValue, manager)`.  For rValue == NaN compareSpecial returns XMLNumber::INDETERMINATE (= 2), so the
// result is -2: not one of LESS_THAN (-1) / EQUAL (0) / GREATER_THAN (1) / INDETERMINATE (2), and not the mirror image of
// compareValues(NaN, finite) == INDETERMINATE.  XML Schema Part 2, 3.2.4 / 3.2.5 (erratum E2-40, quoted above the code):
// "NaN equals itself but is incomparable with (neither greater than nor less than) any other value in the value space".
// Callers test `result == INDETERMINATE` (AbstractNumericFacetValidator::inspectFacet, 13 places), so the facet-consistency
// checks of a float/double restriction depend on the operand ORDER: minInclusive="NaN" maxInclusive="1" is rejected
// (FACET_maxIncl_minIncl), minInclusive="1" maxInclusive="NaN" is accepted.
// Found by unit num_doublefloat_compare (obligations "the result is one of LESS_THAN, EQUAL, GREATER_THAN, INDETERMINATE",
// "compareValues is the float/double order of XSD 3.2.4/3.2.5", "compare(b, a) is the mirror image of compare(a, b)").
// Build: g++ -I/repo/src -I/repo/_build/src repro.cpp /repo/_build/src/libxerces-c-4.0.so -Wl,-rpath,/repo/_build/src -o repro
#include <xercesc/util/PlatformUtils.hpp>
#include <xercesc/util/XMLDouble.hpp>
#include <xercesc/util/XMLFloat.hpp>
#include <xercesc/util/XMLString.hpp>
#include <xercesc/parsers/XercesDOMParser.hpp>
#include <xercesc/framework/MemBufInputSource.hpp>
#include <xercesc/sax/HandlerBase.hpp>
#include <xercesc/validators/common/Grammar.hpp>
#include <cstdio>
#include <cstring>
#include <string>
using namespace xercesc;

static int cmpD(const char* x, const char* y)
{
    XMLCh* a = XMLString::transcode(x); XMLCh* b = XMLString::transcode(y);
    int r;
    { XMLDouble d1(a), d2(b); r = XMLDouble::compareValues(&d1, &d2); }
    XMLString::release(&a); XMLString::release(&b);
    return r;
}
static int cmpF(const char* x, const char* y)
{
    XMLCh* a = XMLString::transcode(x); XMLCh* b = XMLString::transcode(y);
    int r;
    { XMLFloat d1(a), d2(b); r = XMLFloat::compareValues(&d1, &d2); }
    XMLString::release(&a); XMLString::release(&b);
    return r;
}
struct Counter : HandlerBase {
    int n; std::string first;
    Counter() : n(0) {}
    void note(const SAXParseException& e) { if (!n) { char* m = XMLString::transcode(e.getMessage()); first = m; XMLString::release(&m); } n++; }
    void error(const SAXParseException& e) { note(e); }
    void fatalError(const SAXParseException& e) { note(e); }
    void warning(const SAXParseException&) {}
};
static int loadSchema(const char* minIncl, const char* maxIncl, std::string& msg)
{
    std::string xsd =
        "<xs:schema xmlns:xs='http://www.w3.org/2001/XMLSchema'>"
        "<xs:simpleType name='t'><xs:restriction base='xs:double'>"
        "<xs:minInclusive value='" + std::string(minIncl) + "'/><xs:maxInclusive value='" + std::string(maxIncl) + "'/>"
        "</xs:restriction></xs:simpleType><xs:element name='e' type='t'/></xs:schema>";
    XercesDOMParser p; Counter c;
    p.setErrorHandler(&c);
    p.setDoNamespaces(true); p.setDoSchema(true); p.setValidationSchemaFullChecking(true);
    MemBufInputSource src((const XMLByte*)xsd.c_str(), xsd.size(), "mem.xsd");
    p.loadGrammar(src, Grammar::SchemaGrammarType, false);
    msg = c.first;
    return c.n;
}
int main()
{
    XMLPlatformUtils::Initialize();
    int bad = 0;
    puts("-1 LESS_THAN, 0 EQUAL, 1 GREATER_THAN, 2 INDETERMINATE; every pair with exactly one NaN is INDETERMINATE (XSD 3.2.4/3.2.5, E2-40)");
    const char* pairs[][2] = { {"NaN", "1"}, {"1", "NaN"}, {"NaN", "INF"}, {"INF", "NaN"}, {"NaN", "NaN"}, {"0", "NaN"}, {"-1.5E300", "NaN"} };
    for (auto& pr : pairs) {
        int d = cmpD(pr[0], pr[1]), f = (strlen(pr[0]) > 6 || strlen(pr[1]) > 6) ? d : cmpF(pr[0], pr[1]);
        bool one_nan = (strcmp(pr[0], "NaN") == 0) != (strcmp(pr[1], "NaN") == 0);
        int want = one_nan ? 2 : 0;
        printf("XMLDouble::compareValues(%-8s, %-4s) = %2d   XMLFloat: %2d   expected %d%s\n", pr[0], pr[1], d, f, want, (d != want || f != want) ? "   <-- wrong" : "");
        if (d != want || f != want) bad++;
    }
    std::string m1, m2;
    int e1 = loadSchema("NaN", "1", m1), e2 = loadSchema("1", "NaN", m2);
    printf("restriction of xs:double minInclusive=NaN maxInclusive=1  : %d error(s) %s\n", e1, m1.c_str());
    printf("restriction of xs:double minInclusive=1   maxInclusive=NaN: %d error(s) %s\n", e2, m2.c_str());
    if ((e1 != 0) != (e2 != 0)) { puts("the two incomparable bound pairs are judged differently   <-- wrong"); bad++; }
    if (bad) printf("DEFECT REPRODUCED (%d discrepancies)\n", bad); else puts("not reproduced");
    XMLPlatformUtils::Terminate();
    return bad ? 1 : 0;
}
