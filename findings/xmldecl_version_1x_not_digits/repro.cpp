// XMLScanner::scanXMLDecl accepts any version value that merely STARTS with "1." (XMLString::startsWith(rawValue, fgVersion1)):
// production [26] VersionNum ::= '1.' [0-9]+ requires digits.
#include <xercesc/util/PlatformUtils.hpp>
#include <xercesc/parsers/SAXParser.hpp>
#include <xercesc/sax/HandlerBase.hpp>
#include <xercesc/framework/MemBufInputSource.hpp>
#include <xercesc/util/XMLString.hpp>
#include <cstdio>
#include <cstring>
using namespace xercesc;
struct H : HandlerBase {
  int fatal = 0;
  void fatalError(const SAXParseException& e) { fatal++; char* m = XMLString::transcode(e.getMessage()); printf("    fatal: %s\n", m); XMLString::release(&m); }
};
static void run(const char* doc) {
  SAXParser p; H h; p.setDocumentHandler(&h); p.setErrorHandler(&h);
  MemBufInputSource src((const XMLByte*)doc, strlen(doc), "mem");
  try { p.parse(src); } catch (...) { h.fatal++; printf("    exception\n"); }
  printf("%-44s fatal errors=%d%s\n", doc, h.fatal, h.fatal ? "" : "   <-- accepted");
}
int main() {
  XMLPlatformUtils::Initialize();
  run("<?xml version=\"1.0\"?><a/>");      // well-formed
  run("<?xml version=\"1.7\"?><a/>");      // well-formed (5th edition), processed as 1.0
  run("<?xml version=\"1.a\"?><a/>");      // NOT well-formed: VersionNum ::= '1.' [0-9]+
  run("<?xml version=\"1.\"?><a/>");       // NOT well-formed: at least one digit
  run("<?xml version=\"1.0 \"?><a/>");     // NOT well-formed
  run("<?xml version=\"1.0<&\"?><a/>");    // NOT well-formed
  run("<?xml version=\"2.0\"?><a/>");      // rejected (UnsupportedXMLVersion)
  return 0;
}
