// DTDValidator::validateAttrValue, namespace rule for the Name-typed attribute types (ID, IDREF(S), ENTITY(IES), NOTATION):
// "Namespaces in XML" section 6 (conformance of documents): no attribute with one of these declared types contains a colon.
// The test `if (doNamespace && *valPtr == chColon && firstNameChar) emitError(XMLValid::ColonNotValidWithNS)` sits inside the
// loop over the characters AFTER the first one; the first character of each token is only checked with isFirstNameChar (which
// accepts ':').  So with namespace processing on, x="a:b" is reported and x=":ab" (or ":") is not.
// Unit: dtd_attcheck_colon (fails with type IDREFS, value ": xx").
// build: g++ -I/repo/src -I/repo/_build/src repro.cpp /repo/_build/src/libxerces-c-4.0.so -Wl,-rpath,/repo/_build/src -o repro
#include <xercesc/util/PlatformUtils.hpp>
#include <xercesc/util/XMLString.hpp>
#include <xercesc/parsers/SAXParser.hpp>
#include <xercesc/sax/HandlerBase.hpp>
#include <xercesc/framework/MemBufInputSource.hpp>
#include <string>
#include <cstdio>
using namespace xercesc;
struct H : HandlerBase { std::string msg; int n = 0;
  void error(const SAXParseException& e) override { n++; char* m = XMLString::transcode(e.getMessage()); msg += std::string("[") + m + "]"; XMLString::release(&m); }
  void fatalError(const SAXParseException& e) override { error(e); } };
static int errors(const std::string& doc) {
  SAXParser p; H h; p.setErrorHandler(&h); p.setValidationScheme(SAXParser::Val_Always); p.setDoNamespaces(true);
  MemBufInputSource src((const XMLByte*)doc.data(), doc.size(), "mem");
  p.parse(src);
  printf("%s\n   -> %d error(s) %s\n", doc.c_str(), h.n, h.msg.c_str());
  return h.n;
}
int main() {
  XMLPlatformUtils::Initialize();
  int bad = 0;
  {
    const std::string dtd = "<!DOCTYPE e [<!ELEMENT e EMPTY><!ATTLIST e x ID #IMPLIED>]>";
    int mid = errors(dtd + "<e x='a:b'/>"), lead = errors(dtd + "<e x=':ab'/>");
    if (mid >= 1 && lead == 0) bad = 1;
  }
  puts(bad ? "DEFECT REPRODUCED: a leading colon in an ID value is not reported with namespaces on (an inner colon is)" : "ok");
  XMLPlatformUtils::Terminate();
  return bad;
}
