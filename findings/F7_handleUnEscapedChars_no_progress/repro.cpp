// F7 -- C12/C01, unit fmt_unescaped, obligation
//   XMLFormatter_handleUnEscapedChars.4 "Check decreases clause on loop iteration" (XMLFormatter.cpp: while (count) ...)
// counterexample class: transcodeTo returns outBytes == 0, charsEaten == 0  ->  srcPtr/count unchanged  ->  same call again, forever.
// Every UTF transcoder does that for a chunk made of a lone leading surrogate (XMLUTF8Transcoder::transcodeTo:
// "if (srcPtr + 1 >= srcEnd) break;" -- "give up now and leave it for next time").
// Reachable from the public API: XMLFormatter::formatBuf / operator<< with text that ENDS in a leading surrogate
// (DOM text nodes may hold that: DOMLSSerializer on a document whose last character data unit is U+D800..U+DBFF), in the
// modes that do not route through specialFormat's canTranscodeTo test first (UnRep_Fail / UnRep_Replace), and through
// specialFormat too when the transcoder's canTranscodeTo answers true for surrogates (UTF-8/UTF-16: it does).
//
// build: g++ -I/repo/src -I/repo/_build/src repro.cpp /repo/_build/src/libxerces-c-4.0.so -Wl,-rpath,/repo/_build/src -o repro
// expected on a correct library: an exception (unrepresentable / malformed text) or the call returns;
// observed: never returns -- the process is killed by SIGALRM after 5 s (exit status 142).
#include <xercesc/util/PlatformUtils.hpp>
#include <xercesc/framework/XMLFormatter.hpp>
#include <xercesc/framework/MemBufFormatTarget.hpp>
#include <cstdio>
#include <csignal>
#include <unistd.h>
using namespace xercesc;
static void on_alarm(int) {
  const char m[] = "DEFECT REPRODUCED: formatBuf({0041, D800}, 2) did not return within 5 s (endless loop in handleUnEscapedChars)\n";
  (void)!write(1, m, sizeof m - 1);
  _exit(1);
}
int main(int argc, char** argv) {
  XMLPlatformUtils::Initialize();
  signal(SIGALRM, on_alarm);
  alarm(5);
  const char* enc = argc > 1 ? argv[1] : "UTF-8";
  {
  MemBufFormatTarget tgt;
  XMLFormatter f(enc, "1.0", &tgt, XMLFormatter::NoEscapes, XMLFormatter::UnRep_Fail);
  XMLCh s[3] = { 0x41, 0xD800, 0 };
  try {
    f.formatBuf(s, 2, XMLFormatter::NoEscapes);
    printf("returned, %lu bytes written: not reproduced\n", (unsigned long)tgt.getLen());
  } catch (...) {
    printf("exception thrown: not reproduced\n");
  }
  }
  XMLPlatformUtils::Terminate();
  return 0;
}
