// F9: XML 1.0 section 3.3.3: in a non-CDATA attribute only #x20 characters are trimmed/collapsed; a TAB/LF/CR that comes
// from a character reference must stay (spec example: a="&#xd;&#xd;A&#xa;&#xa;B&#xd;&#xa;").  IGXMLScanner/SGXMLScanner
// normalizeAttValue (namespace-aware path) treated referenced TAB/LF/CR as collapsible white space, unlike
// DGXMLScanner::scanAttValue and the recommendation.
#include <xercesc/util/PlatformUtils.hpp>
#include <xercesc/parsers/SAXParser.hpp>
#include <xercesc/sax/HandlerBase.hpp>
#include <xercesc/sax/AttributeList.hpp>
#include <xercesc/framework/MemBufInputSource.hpp>
#include <xercesc/util/XMLString.hpp>
#include <string>
#include <cstdio>
using namespace xercesc;
struct H : HandlerBase {
  void startElement(const XMLCh* const, AttributeList& a) override {
    const XMLCh* v = a.getValue((XMLSize_t)0); printf("value:"); for (; v && *v; v++) printf(" %04X", (unsigned)*v); printf("\n"); }
};
int main(int argc, char** argv) {
  XMLPlatformUtils::Initialize();
  std::string doc = "<?xml version='1.0'?><!DOCTYPE a [<!ELEMENT a EMPTY><!ATTLIST a b NMTOKENS #IMPLIED>]>"
                    "<a b='&#13;&#13;A&#10;&#10;B&#13;&#10;'/>";
  for (int ns = 0; ns < 2; ns++) {
    SAXParser p; H h; p.setDocumentHandler(&h); p.setErrorHandler(&h); p.setDoNamespaces(ns != 0);
    MemBufInputSource src((const XMLByte*)doc.data(), doc.size(), "mem");
    printf("namespaces=%d ", ns); p.parse(src);
  }
  XMLPlatformUtils::Terminate();
}
