// MixedContentModel::validateContent / validateContentSpecial, fOrdered == true branch: for every element child the code reads
// fChildTypes[inIndex] and fChildren[inIndex] and then advances inIndex, without ever comparing inIndex with fCount.  With more
// element children than leaves in the model the two heap arrays (fCount entries each) are read past their end and the garbage
// QName* is dereferenced (unit cm_mixed_ordered: "pointer outside object bounds in SELF.fChildTypes[inIndex]", line 160).
// LATENT: the `ordered` constructor argument is public API (MixedContentModel.hpp, default false) but both callers inside the
// library (DTDElementDecl::makeContentModel, ComplexTypeInfo::makeContentModel) pass false, so no document reaches this branch.
// build: g++ -g -fsanitize=address -I/repo/src -I/repo/_build/src repro.cpp /repo/_build/src/libxerces-c-4.0.so -Wl,-rpath,/repo/_build/src -o repro
// observed (expected_output.txt): SEGV in MixedContentModel::validateContent, MixedContentModel.cpp:171 (inChild->getURI() on the word read behind fChildren)
#include <xercesc/util/PlatformUtils.hpp>
#include <xercesc/util/QName.hpp>
#include <xercesc/util/XMLString.hpp>
#include <xercesc/validators/common/ContentSpecNode.hpp>
#include <xercesc/validators/common/MixedContentModel.hpp>
#include <cstdio>
using namespace xercesc;
int main() {
  XMLPlatformUtils::Initialize();
  {
    XMLCh* a = XMLString::transcode("a"); XMLCh* empty = XMLString::transcode("");
    QName* leafName = new QName(empty, a, 2);                 // the model: one leaf {uri 2}a
    ContentSpecNode* leaf = new ContentSpecNode(leafName, false);
    MixedContentModel cm(false, leaf, true /* ordered */);
    QName c0(empty, a, 2), c1(empty, a, 2), c2(empty, a, 2);
    QName* children[3] = { &c0, &c1, &c2 };                    // three element children against a one-leaf ordered model
    XMLSize_t failing = 12345;
    bool ok = cm.validateContent(children, 3, 1, &failing);    // reads fChildTypes[1], fChildren[1] ... : heap-buffer-overflow
    printf("validateContent -> %d, failing index %zu (no diagnostic: the over-read went unnoticed)\n", (int)ok, (size_t)failing);
    delete leaf; XMLString::release(&a); XMLString::release(&empty);
  }
  XMLPlatformUtils::Terminate();
  return 0;
}
