// C12, unit domser_unrep_cdata (DOMLSSerializerImpl::procUnrepCharInCdataSection), failing obligation
//   h_unrep_cdata.assertion "C12: every character reference written refers to a legal XML character (a supplementary character
//   is ONE reference to its code point, never references to its surrogates)"
//   counterexample of the unit: text { D83D, DE00 } with canTranscodeTo(D83D) = canTranscodeTo(DE00) = false
//
// procUnrepCharInCdataSection walks the text one UTF-16 code unit at a time and writes `&#x` binToText(*srcPtr, 16) `;` for every
// unit the transcoder cannot represent.  A supplementary character (surrogate pair) that the output encoding lacks -- every
// supplementary character in ISO-8859-1, US-ASCII, Windows-1252, EBCDIC ... -- is therefore written as TWO references to the
// surrogate code points, e.g. U+1F600 as "&#xD83D;&#xDE00;".  That is not well-formed (XML 1.0 4.1 WFC "Legal Character": the
// referenced character must match Char, D800..DFFF do not): the serializer's own output cannot be parsed again, and only a
// WARNING (Writer_NotRepresentChar) was reported.  XMLFormatter::formatBuf/specialFormat (UnRep_CharRef) combines the pair into
// "&#x1F600;"; this CDATA path does not.
// C12: "yields well-formed XML ... Characters the output encoding cannot represent are written as character references".
//
// build: g++ -g -I/repo/src -I/repo/_build/src repro.cpp /repo/_build/src/libxerces-c-4.0.so -Wl,-rpath,/repo/_build/src -o repro
// run:   ./repro          exit status 1 = defect present
#include <xercesc/util/PlatformUtils.hpp>
#include <xercesc/dom/DOM.hpp>
#include <xercesc/util/XMLString.hpp>
#include <xercesc/framework/MemBufFormatTarget.hpp>
#include <xercesc/framework/MemBufInputSource.hpp>
#include <xercesc/framework/Wrapper4InputSource.hpp>
#include <cstdio>
using namespace xercesc;
static int errors;
struct EH : DOMErrorHandler {
  bool handleError(const DOMError& e) { char* m = XMLString::transcode(e.getMessage()); printf("  DOMError severity=%d: %s\n", (int)e.getSeverity(), m); XMLString::release(&m); if (e.getSeverity() != DOMError::DOM_SEVERITY_WARNING) errors++; return true; }
};
int main()
{
  XMLPlatformUtils::Initialize();
  int bad = 0;
  {
    XMLCh t[64];
    XMLString::transcode("LS", t, 63);
    DOMImplementation* impl = DOMImplementationRegistry::getDOMImplementation(t);
    XMLString::transcode("r", t, 63);
    DOMDocument* doc = impl->createDocument(0, t, 0);
    const XMLCh val[] = { 'a', 0xD83D, 0xDE00, 'b', 0 };            // "a" U+1F600 "b"
    doc->getDocumentElement()->appendChild(doc->createCDATASection(val));
    DOMLSSerializer* ser = ((DOMImplementationLS*)impl)->createLSSerializer();
    EH eh; ser->getDomConfig()->setParameter(XMLUni::fgDOMErrorHandler, &eh);
    DOMLSOutput* out = ((DOMImplementationLS*)impl)->createLSOutput();
    MemBufFormatTarget tgt; out->setByteStream(&tgt);
    XMLString::transcode("ISO-8859-1", t, 63); out->setEncoding(t);
    printf("serialising <r><![CDATA[a U+1F600 b]]></r> to ISO-8859-1\n");
    bool ok = ser->write(doc->getDocumentElement(), out);
    printf("  write() returned %d, output: %s\n", (int)ok, (const char*)tgt.getRawBuffer());
    printf("parsing the output again\n");
    DOMLSParser* parser = ((DOMImplementationLS*)impl)->createLSParser(DOMImplementationLS::MODE_SYNCHRONOUS, 0);
    parser->getDomConfig()->setParameter(XMLUni::fgDOMErrorHandler, &eh);
    MemBufInputSource src(tgt.getRawBuffer(), tgt.getLen(), "mem"); Wrapper4InputSource w(&src, false);
    errors = 0;
    try { parser->parse(&w); } catch (...) { errors++; }
    bad = errors != 0;
    printf(bad ? "*** the serializer's output is not well-formed\n" : "ok: output is well-formed\n");
    parser->release(); out->release(); ser->release(); doc->release();
  }
  XMLPlatformUtils::Terminate();
  return bad;
}
