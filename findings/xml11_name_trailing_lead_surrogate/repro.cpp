// XMLChar1_1::isValidName / isValidNCName / isValidQName / isValidNmtoken accept a string that ENDS in an unpaired lead
// surrogate (D800..DB7F): the loops set gotLeadingSurrogate and fall out of the loop with `return true` without checking
// that the pair was completed.  A lone surrogate is in no production ([4] NameStartChar / [4a] NameChar; it is not even a Char).
// Reached from DOMDocumentImpl::isXMLName (XML 1.1 documents), XSValue::validate (dt_Name, dt_NCName, dt_NMTOKEN, dt_QName, ver_11).
// build: g++ -I/repo/src -I/repo/_build/src repro.cpp /repo/_build/src/libxerces-c-4.0.so -Wl,-rpath,/repo/_build/src -o repro
#include <xercesc/util/PlatformUtils.hpp>
#include <xercesc/util/XMLChar.hpp>
#include <xercesc/dom/DOM.hpp>
#include <cstdio>
using namespace xercesc;
int main() {
  XMLPlatformUtils::Initialize();
  const XMLCh a[] = {0x61, 0xD800, 0};             // "a" + lone lead surrogate
  const XMLCh q[] = {0x61, 0xD800, 0x3A, 0x62, 0}; // prefix "a\xD800" : "b"
  const XMLCh ok[] = {0x61, 0xD800, 0xDC00, 0};    // "a" + U+10000 (legal)
  int bad = 0;
  bool r;
  r = XMLChar1_1::isValidName(a, 2);     printf("isValidName({0061,D800},2)      = %d (must be 0)\n", (int)r); bad += r;
  r = XMLChar1_1::isValidName(a);        printf("isValidName({0061,D800,0})      = %d (must be 0)\n", (int)r); bad += r;
  r = XMLChar1_1::isValidNCName(a, 2);   printf("isValidNCName({0061,D800},2)    = %d (must be 0)\n", (int)r); bad += r;
  r = XMLChar1_1::isValidNmtoken(a, 2);  printf("isValidNmtoken({0061,D800},2)   = %d (must be 0)\n", (int)r); bad += r;
  r = XMLChar1_1::isValidQName(q, 4);    printf("isValidQName({0061,D800,':',0062},4) = %d (must be 0)\n", (int)r); bad += r;
  r = XMLChar1_1::isValidName(ok, 3);    printf("isValidName({0061,D800,DC00},3) = %d (legal, must be 1)\n", (int)r);
  // through the DOM: an XML 1.1 document accepts the element name
  const XMLCh ls[] = {'L','S',0}; const XMLCh v11[] = {'1','.','1',0}; const XMLCh root[] = {'r',0};
  DOMImplementation* impl = DOMImplementationRegistry::getDOMImplementation(ls);
  DOMDocument* doc = impl->createDocument(0, root, 0);
  doc->setXmlVersion(v11);
  try { doc->createElement(a); printf("DOMDocument(1.1)::createElement(\"a\\xD800\") accepted (must raise INVALID_CHARACTER_ERR)\n"); bad++; }
  catch (const DOMException& e) { printf("createElement rejected, code %d\n", (int)e.code); }
  doc->release();
  printf("%s\n", bad ? "DEFECT REPRODUCED" : "not reproduced");
  XMLPlatformUtils::Terminate();
  return bad ? 1 : 0;
}
