// F10: a lone lead surrogate directly before '?>' in processing-instruction data is accepted without any error
// (XMLScanner::scanPI leaves the loop on '?>' before it checks that a pending lead surrogate was completed).
// A surrogate code unit that is not part of a pair is not a Char (XML 1.0 production [2]) => must be a fatal error.
#include <xercesc/util/PlatformUtils.hpp>
#include <xercesc/parsers/SAXParser.hpp>
#include <xercesc/sax/HandlerBase.hpp>
#include <xercesc/framework/MemBufInputSource.hpp>
#include <vector>
#include <cstdio>
using namespace xercesc;
struct H : HandlerBase { int n = 0; void fatalError(const SAXParseException&) override { n++; } void error(const SAXParseException&) override { n++; } };
static int run(const char16_t* s, size_t len) {
  std::vector<unsigned char> b = {0xFF, 0xFE};
  for (size_t i = 0; i < len; i++) { b.push_back(s[i] & 0xFF); b.push_back(s[i] >> 8); }
  SAXParser p; H h; p.setDocumentHandler(&h); p.setErrorHandler(&h); p.setExitOnFirstFatalError(false);
  MemBufInputSource src(b.data(), b.size(), "mem");
  try { p.parse(src); } catch (...) { return -1; }
  return h.n;
}
int main() {
  XMLPlatformUtils::Initialize();
  const char16_t pi[]  = u"<?a \xD800?><r/>";      // lone lead surrogate at the end of PI data
  const char16_t pi2[] = u"<?a \xD800x?><r/>";     // lone lead surrogate followed by another character (control: is reported)
  const char16_t cm[]  = u"<!--\xD800--><r/>";     // same in a comment (control: is reported)
  int a = run(pi, sizeof pi / 2 - 1), b = run(pi2, sizeof pi2 / 2 - 1), c = run(cm, sizeof cm / 2 - 1);
  printf("errors: PI-with-trailing-lone-surrogate=%d  PI-with-inner-lone-surrogate=%d  comment-with-lone-surrogate=%d\n", a, b, c);
  XMLPlatformUtils::Terminate();
  return a == 0 ? 1 : 0;   /* 1 = defect present (accepted silently) */
}
