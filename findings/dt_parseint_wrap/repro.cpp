// F5: XMLDateTime::parseInt accumulates in an unsigned int without any overflow check and parseIntYear passes a
// year of any length: years of 10+ digits are accepted with a wrapped value, so the order relation and every
// min/max facet verdict on xs:gYear / xs:date / xs:dateTime / xs:gYearMonth (and duration fields) is wrong.
// Build: g++ -I/repo/src -I/repo/_build/src repro.cpp /repo/_build/src/libxerces-c-4.0.so -Wl,-rpath,/repo/_build/src -o repro
#include <xercesc/util/PlatformUtils.hpp>
#include <xercesc/util/XMLDateTime.hpp>
#include <xercesc/util/XMLString.hpp>
#include <xercesc/util/OutOfMemoryException.hpp>
#include <xercesc/util/XMLException.hpp>
#include <xercesc/framework/psvi/XSValue.hpp>
#include <xercesc/validators/datatype/DatatypeValidatorFactory.hpp>
#include <xercesc/validators/datatype/DatatypeValidator.hpp>
#include <xercesc/validators/schema/SchemaSymbols.hpp>
#include <cstdio>
using namespace xercesc;

static int yearOf(const char* lex, bool dateTime, bool& ok)
{
    XMLCh* x = XMLString::transcode(lex);
    int y = 0; ok = true;
    try {
        XMLDateTime dt(x);
        if (dateTime) dt.parseDateTime(); else dt.parseYear();
        y = dt.getYear();
    } catch (const XMLException&) { ok = false; }
    XMLString::release(&x);
    return y;
}

int main()
{
    XMLPlatformUtils::Initialize();
    int bad = 0;
    {
        const char* cases[][2] = {
            {"4294967297", "gYear"},                         // 2^32 + 1  -> 1
            {"9215380484", "gYear"},                         // cbmc counterexample of unit dt_parseInt -> 625445892
            {"99999999999-01-01T00:00:00", "dateTime"},      // -> 1215752191
            {"4294969296-01-01T00:00:00", "dateTime"},       // 2^32 + 2000 -> 2000
            {"-2147483648", "gYear"},                        // (-1) * INT_MIN : signed overflow (UB)
        };
        for (auto& c : cases) {
            bool ok;
            int y = yearOf(c[0], c[1][0] == 'd', ok);
            printf("%-9s %-32s -> %s year=%d\n", c[1], c[0], ok ? "ACCEPTED" : "rejected", y);
            if (ok) bad++;
        }
    }
    // order relation through the datatype validator: 4294969296 (> 2000) compares EQUAL to 2000, and
    // 4294967297 compares LESS than 2000
    {
        DatatypeValidatorFactory f;
        DatatypeValidator* dv = f.getDatatypeValidator(SchemaSymbols::fgDT_YEAR);
        XMLCh* a = XMLString::transcode("4294969296");
        XMLCh* b = XMLString::transcode("2000");
        XMLCh* c = XMLString::transcode("4294967297");
        int r1 = dv->compare(a, b, XMLPlatformUtils::fgMemoryManager);
        int r2 = dv->compare(c, b, XMLPlatformUtils::fgMemoryManager);
        printf("gYear compare(4294969296, 2000) = %d (expected 1 = greater)\n", r1);
        printf("gYear compare(4294967297, 2000) = %d (expected 1 = greater)\n", r2);
        if (r1 != 1) bad++;
        if (r2 != 1) bad++;
        XMLString::release(&a); XMLString::release(&b); XMLString::release(&c);
    }
    // XSValue API: same verdict and a wrong actual value
    {
        XMLCh* a = XMLString::transcode("4294969296");
        XSValue::Status st = XSValue::st_Init;
        bool v = XSValue::validate(a, XSValue::dt_gYear, st);
        XSValue* val = XSValue::getActualValue(a, XSValue::dt_gYear, st);
        printf("XSValue::validate(gYear 4294969296) = %d, actual year = %d\n", (int)v, val ? val->fData.fValue.f_datetime.f_year : -1);
        if (val && val->fData.fValue.f_datetime.f_year != 0 && (long long)val->fData.fValue.f_datetime.f_year != 4294969296LL) bad++;
        delete val;
        XMLString::release(&a);
    }
    printf(bad ? "DEFECT REPRODUCED (%d observations)\n" : "no defect observed\n", bad);
    XMLPlatformUtils::Terminate();
    return bad ? 1 : 0;
}
