// C08 (occurrence counting, the fCountingStates path).  DFAContentModel::buildDFA keeps ONE Occurence (minOccurs, maxOccurs)
// per element-map symbol: `elemOccurenceMap[fElemMapSize] = new Occurence(...)` is executed only when a leaf adds a NEW symbol to
// fElemMap, and leaves are merged into one symbol when type, namespace and local name agree (DFAContentModel.cpp ~l.815-845;
// a repeating leaf has the type of its element: fLeafListType[curIndex] = curNode->getFirst()->getType()).  So when a content
// model has two particles with the same element name and at least one of them is a "compact" repeating leaf
// (minOccurs/maxOccurs other than 0/1/unbounded, ComplexTypeInfo::expandContentModel -> ContentSpecNode::Loop), the counting
// information of the later particle is lost or the earlier one's is applied to it:
//   (foo, foo{3,3})            must accept exactly 4 foo : accepts every count >= 2         (counter lost: the model is foo, foo+)
//   (foo{2,2}, foo{3,3})       must accept exactly 5 foo : accepts exactly 3, rejects 5
//   (foo{2,3}, bar, foo{3,4})  foo foo bar foo foo is invalid (needs >= 3 after bar) : accepted
// With setValidationSchemaFullChecking(true) the compact form is not used (convertContentSpecTree(.., checkUPA, ..)) and all
// answers are right, which also shows that the schemas themselves are accepted as legal (no UPA complaint).
// Found while writing down RI_dfa for unit cm_dfa_count (the table walk itself -- validateContent / handleRepetitions -- is
// verified against the table it is given; table construction is outside that unit).
// build: g++ -I/repo/src -I/repo/_build/src repro.cpp /repo/_build/src/libxerces-c-4.0.so -Wl,-rpath,/repo/_build/src -o repro
#include <xercesc/util/PlatformUtils.hpp>
#include <xercesc/util/XMLString.hpp>
#include <xercesc/parsers/SAXParser.hpp>
#include <xercesc/sax/HandlerBase.hpp>
#include <xercesc/framework/MemBufInputSource.hpp>
#include <xercesc/validators/common/Grammar.hpp>
#include <string>
#include <cstdio>
using namespace xercesc;
struct H : HandlerBase { int n = 0; void error(const SAXParseException&) override { n++; } void fatalError(const SAXParseException&) override { n++; } };
static bool valid(const std::string& particles, const std::string& inst, bool full) {
  std::string xsd = "<xs:schema xmlns:xs='http://www.w3.org/2001/XMLSchema'><xs:element name='r'><xs:complexType><xs:sequence>" + particles +
                    "</xs:sequence></xs:complexType></xs:element></xs:schema>";
  SAXParser p; H h; p.setErrorHandler(&h); p.setValidationScheme(SAXParser::Val_Always); p.setDoNamespaces(true); p.setDoSchema(true);
  p.setValidationSchemaFullChecking(full);
  MemBufInputSource xs((const XMLByte*)xsd.data(), xsd.size(), "mem.xsd");
  if (!p.loadGrammar(xs, Grammar::SchemaGrammarType, true) || h.n) { puts("schema rejected"); return false; }
  p.useCachedGrammarInParse(true);
  std::string doc = "<r>" + inst + "</r>";
  MemBufInputSource src((const XMLByte*)doc.data(), doc.size(), "mem.xml");
  p.parse(src);
  return h.n == 0;
}
static std::string el(const char* n, int mn, int mx) { char b[160]; snprintf(b, sizeof b, "<xs:element name='%s' type='xs:string' minOccurs='%d' maxOccurs='%d'/>", n, mn, mx); return b; }
static std::string rep(const char* n, int k) { std::string s; for (int i = 0; i < k; i++) s += std::string("<") + n + "/>"; return s; }
int main() {
  XMLPlatformUtils::Initialize();
  int bad = 0;
  {
    struct { const char* name; std::string model; int lo, hi; } M[] = {
      { "(foo, foo{3,3})", el("foo", 1, 1) + el("foo", 3, 3), 4, 4 },
      { "(foo{2,2}, foo{3,3})", el("foo", 2, 2) + el("foo", 3, 3), 5, 5 },
      { "(foo{3,3}, foo)   [control]", el("foo", 3, 3) + el("foo", 1, 1), 4, 4 },
    };
    for (auto& m : M) for (int full = 0; full <= 1; full++) {
      printf("%-30s fullChecking=%d  accepted counts:", m.name, full);
      for (int k = 0; k <= 8; k++) { bool v = valid(m.model, rep("foo", k), full); if (v) printf(" %d", k); if (v != (k >= m.lo && k <= m.hi)) { bad = 1; printf("(!)"); } }
      printf("   (schema-valid: %d..%d)\n", m.lo, m.hi);
    }
    std::string m3 = el("foo", 2, 3) + el("bar", 1, 1) + el("foo", 3, 4);
    for (int full = 0; full <= 1; full++) {
      bool v = valid(m3, rep("foo", 2) + rep("bar", 1) + rep("foo", 2), full);
      printf("(foo{2,3}, bar, foo{3,4})      fullChecking=%d  foo foo bar foo foo: %s%s\n", full, v ? "valid" : "invalid", v ? " (!)" : "");
      if (v) bad = 1;
    }
  }
  puts(bad ? "DEFECT REPRODUCED: occurrence counting wrong when two particles of a content model share an element name" : "ok");
  XMLPlatformUtils::Terminate();
  return bad;
}
