// C16, units ser_cls_SchemaAttDefList_order / ser_cls_DTDAttDefList_order, obligation
// "C16: store then load restores the ORDER of the attribute list (getAttDef(i) is the same declaration as before)"
//
// SchemaAttDefList / DTDAttDefList keep the attribute declarations of an element twice: in a hash table (fList) and in the
// array fArray, which is in DECLARATION order (addAttDef appends) and is what XMLAttDefList::getAttDef(index) returns.  The
// scanners walk the list by index when they add defaulted attributes (IGXMLScanner::buildAttList etc.), so the order of the
// defaulted attributes in the startElement event is the declaration order.  serialize() stores only the hash table and the
// count; the load branch refills fArray from a hash-table ENUMERATION (hash order).  A restored pool therefore reports the
// defaulted attributes of the same document in a different order than the original pool.
//
// build: g++ -I/repo/src -I/repo/_build/src repro.cpp /repo/_build/src/libxerces-c-4.0.so -Wl,-rpath,/repo/_build/src -o repro
#include <xercesc/util/PlatformUtils.hpp>
#include <xercesc/internal/BinMemOutputStream.hpp>
#include <xercesc/util/BinMemInputStream.hpp>
#include <xercesc/framework/XMLGrammarPoolImpl.hpp>
#include <xercesc/parsers/SAXParser.hpp>
#include <xercesc/sax/HandlerBase.hpp>
#include <xercesc/sax/AttributeList.hpp>
#include <xercesc/sax/SAXParseException.hpp>
#include <xercesc/framework/MemBufInputSource.hpp>
#include <xercesc/validators/common/Grammar.hpp>
#include <cstdio>
#include <cstring>
#include <string>
using namespace xercesc;
static const char dtd[] = "<!ELEMENT a EMPTY><!ATTLIST a zeta CDATA '1' alpha CDATA '2' mid CDATA '3' beta CDATA '4' omega CDATA '5' k CDATA '6'>";
static const char xsd[] =
  "<xs:schema xmlns:xs='http://www.w3.org/2001/XMLSchema'>"
  " <xs:element name='a'><xs:complexType>"
  "  <xs:attribute name='zeta' default='1'/><xs:attribute name='alpha' default='2'/><xs:attribute name='mid' default='3'/>"
  "  <xs:attribute name='beta' default='4'/><xs:attribute name='omega' default='5'/><xs:attribute name='k' default='6'/>"
  " </xs:complexType></xs:element></xs:schema>";
struct H : HandlerBase {
  std::string seen; int errors; H():errors(0){}
  void startElement(const XMLCh* const, AttributeList& atts) { for (XMLSize_t i = 0; i < atts.getLength(); i++) { char* n = XMLString::transcode(atts.getName(i)); seen += n; seen += ' '; XMLString::release(&n);} }
  void error(const SAXParseException& e) { errors++; char* m = XMLString::transcode(e.getMessage()); printf("      error: %s\n", m); XMLString::release(&m); }
  void fatalError(const SAXParseException& e) { error(e); }
};
static std::string run(XMLGrammarPool* pool, const char* doc, bool schema) {
  SAXParser parser(0, XMLPlatformUtils::fgMemoryManager, pool);
  H h; parser.setErrorHandler(&h); parser.setDocumentHandler(&h);
  parser.setValidationScheme(SAXParser::Val_Always); parser.setDoNamespaces(schema); parser.setDoSchema(schema);
  parser.useCachedGrammarInParse(true);
  MemBufInputSource src((const XMLByte*)doc, strlen(doc), "doc.xml");
  parser.parse(src);
  return h.seen;
}
int main() {
  XMLPlatformUtils::Initialize();
  int bad = 0;
  for (int schema = 0; schema < 2; schema++) {
    XMLGrammarPoolImpl poolA(XMLPlatformUtils::fgMemoryManager);
    { SAXParser loader(0, XMLPlatformUtils::fgMemoryManager, &poolA); loader.setDoNamespaces(true); loader.setDoSchema(true);
      MemBufInputSource src((const XMLByte*)(schema ? xsd : dtd), strlen(schema ? xsd : dtd), schema ? "mem.xsd" : "mem.dtd");
      loader.loadGrammar(src, schema ? Grammar::SchemaGrammarType : Grammar::DTDGrammarType, true); }
    BinMemOutputStream out(4096); poolA.serializeGrammars(&out);
    XMLGrammarPoolImpl poolB(XMLPlatformUtils::fgMemoryManager);
    BinMemInputStream in(out.getRawBuffer(), (XMLSize_t)out.getSize(), BinMemInputStream::BufOpt_Reference);
    poolB.deserializeGrammars(&in);
    const char* doc = schema ? "<a/>" : "<!DOCTYPE a SYSTEM 'mem.dtd'><a/>";
    std::string a = run(&poolA, doc, schema), b = run(&poolB, doc, schema);
    printf("%-6s original pool, attributes of <a/>: %s\n", schema ? "schema" : "dtd", a.c_str());
    printf("%-6s restored pool, attributes of <a/>: %s\n", schema ? "schema" : "dtd", b.c_str());
    if (a != b) bad = 1;
  }
  XMLPlatformUtils::Terminate();
  printf(bad ? "DEFECT REPRODUCED\n" : "ok\n");
  return bad;
}
