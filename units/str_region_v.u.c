//@ unit str_region_v
//@ props C01
//@ kind L
//@ def quick STRN=6
//@ def thorough STRN=12
//@ enforce XMLString_startsWith
//@ enforce XMLString_validateRegion
//@ replace XMLString_stringLen
//@ replace XMLString_compareNString
//@ entry h_str_region_v
//@ note L: loop-free once the callees are replaced by their proved contracts (str_len, str_cmp, str_region_v, str_region); buffers bounded by -DSTRN, END-aligned at the NUL
//@ note validateRegion computes offset + charCount in XMLSize_t: for charCount >= 2^64 - 2^31 the sum wraps and a region starting beyond the string would be accepted; precondition charCount <= 2^62 (a count of characters in memory) -- recorded as a machine-arithmetic assumption
//@ note startsWithI / regionIMatches forward to the transcoding service (virtual, ICU build): not in the subset
#define VERIF_DEFINE_GHOSTS
#include "verif_prelude.h"
//@ include str_common.inc
XMLSize_t KW;
const XMLCh *P1, *P2;
#define SL_LEN ((src == P2) ? LEN2 : LEN1)
#define CNT_MAX ((XMLSize_t)1 << 62)
#define REGION_VALID (offset1 >= 0 && offset2 >= 0 && (XMLSize_t)offset1 + charCount <= LEN1 && (XMLSize_t)offset2 + charCount <= LEN2)

/*@extract src/xercesc/util/XMLString.hpp XMLString::stringLen
params const XMLCh* const src
declonly
contract
//@ include str_stringLen.contract.inc
@*/

/*@extract src/xercesc/util/XMLString.cpp XMLString::compareNString
params const XMLCh* const str1 , const XMLCh* const str2 , const XMLSize_t maxChars
declonly
contract
//@ include str_compareNString.contract.inc
@*/

/*@extract src/xercesc/util/XMLString.hpp XMLString::startsWith
params const XMLCh* const toTest , const XMLCh* const prefix
call stringLen => XMLString_stringLen
call compareNString => XMLString_compareNString
contract
__CPROVER_requires(G < STRN && KW < STRN && P2 == prefix && toTest != prefix)
__CPROVER_requires(STR_OK(toTest, LEN1) && STR_IS(prefix, LEN2))
__CPROVER_requires(KW <= LEN2 && KW <= LEN1 && EQ_BEFORE(toTest, prefix, KW) && (KW == LEN2 || toTest[KW] != prefix[KW] || toTest[KW] == 0))
__CPROVER_assigns()
__CPROVER_ensures(__CPROVER_return_value == (KW == LEN2))
@*/

/*@extract src/xercesc/util/XMLString.hpp XMLString::validateRegion
call XMLString::stringLen => XMLString_stringLen
contract
//@ include str_validateRegion.contract.inc
@*/

struct { XMLCh a[STRN]; } S1, S2;
void h_str_region_v(void)
{
  XMLSize_t l1, l2, cnt; int o1, o2;
  VERIF_INPUT(S1); VERIF_INPUT(S2); VERIF_INPUT(G); VERIF_INPUT(KW); VERIF_INPUT(l1); VERIF_INPUT(l2); VERIF_INPUT(cnt); VERIF_INPUT(o1); VERIF_INPUT(o2);
  VERIF_ASSUME(l1 < STRN && l2 < STRN);
  const XMLCh *s1 = S1.a + (STRN - (l1 + 1));
  const XMLCh *s2 = S2.a + (STRN - (l2 + 1));
  LEN1 = l1; LEN2 = l2; P1 = s1; P2 = s2;
  verif_thrown = 0;

  bool v = XMLString_validateRegion(s1, o1, s2, o2, cnt);
  VERIF_CANARY("after validateRegion");
  if (v && cnt > 1) VERIF_CANARY("validateRegion: valid non-trivial region reachable");

  bool p = XMLString_startsWith(s1, s2);
  VERIF_CANARY("after startsWith");
  if (p && l2 > 1) VERIF_CANARY("startsWith: true case reachable");
}
