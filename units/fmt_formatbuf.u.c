//@ unit fmt_formatbuf
//@ props C12 C01
//@ kind P
//@ def quick NS=6
//@ def thorough NS=16
//@ enforce XMLFormatter_formatBuf
//@ replace XMLFormatter_specialFormat
//@ replace XMLFormatter_handleUnEscapedChars
//@ replace XMLFormatter_inEscapeList
//@ replace XMLFormatter_getCharRef
//@ replace XMLFormatter_writeCharRef_ch
//@ replace XMLFormatTarget_writeChars
//@ cbmc all --arrays-uf-always
//@ entry h_fmt_formatbuf
//@ note P: unbounded text length through loop contracts (outer loop: one run or one escaped character per round; inner loop: scan of a run); only the object holding the text is bounded by -DNS
//@ note inEscapeList is replaced by a contract over an ARBITRARY (nondet) predicate table ESC[] for the mode in force (what the real table says is proved in unit fmt_escapes); its precondition `escStyle != NoEscapes` is the obligation "NoEscapes: escape list not consulted"
//@ note handleUnEscapedChars (proved in fmt_unescaped up to F7), writeCharRef (fmt_charref), getCharRef, specialFormat and XMLFormatTarget::writeChars are contract-only. The ghost GH_pos counts the source characters dealt with; every callee contract demands that it is handed exactly the character(s) at GH_pos and advances GH_pos, so "each character exactly once, in order, escaped iff ESC" is the conjunction of the callee preconditions + GH_pos == count at exit
//@ note which predefined entity is written for & < > " ' (XML 4.6) is checked through the ghost GH_ent set by getCharRef from the real tables gAmpRef .. gQuoteRef
#define VERIF_DEFINE_GHOSTS
#include "verif_prelude.h"

typedef int EscapeFlags;
typedef int UnRepFlags;
typedef int XMLFormatter_EscapeFlags;
typedef struct XMLFormatter XMLFormatter;
//@ enum src/xercesc/framework/XMLFormatter.hpp EscapeFlags - scope=XMLFormatter
//@ enum src/xercesc/framework/XMLFormatter.hpp UnRepFlags - scope=XMLFormatter
//@ struct src/xercesc/framework/XMLFormatter.hpp XMLFormatter only=auto enums=EscapeFlags,UnRepFlags
struct XMLFormatTarget { char opaque; };
//@ table src/xercesc/framework/XMLFormatter.cpp gAmpRef
//@ table src/xercesc/framework/XMLFormatter.cpp gAposRef
//@ table src/xercesc/framework/XMLFormatter.cpp gGTRef
//@ table src/xercesc/framework/XMLFormatter.cpp gLTRef
//@ table src/xercesc/framework/XMLFormatter.cpp gQuoteRef

/* ---- ghosts ---- */
const XMLCh *GH_base; XMLSize_t GH_total, GH_pos, G;
int GH_mode, GH_unrep;
_Bool ESC[65536];                  /* arbitrary escape predicate of the mode in force */
#define ESCAPED(c) (ESC[(XMLCh)(c)])
int GH_ent; const XMLByte *GH_lastref; XMLSize_t GH_entlen;     /* entity just fetched by getCharRef */
enum { ENT_NONE, ENT_AMP, ENT_APOS, ENT_QUOT, ENT_GT, ENT_LT };
/* XML 4.6 predefined entities: the reference that stands for character c */
#define ENT_FOR(c) ((c) == 0x26 ? ENT_AMP : (c) == 0x27 ? ENT_APOS : (c) == 0x22 ? ENT_QUOT : (c) == 0x3E ? ENT_GT : (c) == 0x3C ? ENT_LT : ENT_NONE)
#define IS_AT_POS(p) (__CPROVER_same_object((p), GH_base) && __CPROVER_POINTER_OFFSET(p) == __CPROVER_POINTER_OFFSET(GH_base) + GH_pos * sizeof(XMLCh))

/*@extract src/xercesc/framework/XMLFormatter.cpp XMLFormatter::specialFormat
declonly
contract
__CPROVER_requires(!verif_thrown && GH_pos == 0 && toFormat == GH_base && count == GH_total && escapeFlags == GH_mode && GH_unrep == UnRep_CharRef)
__CPROVER_assigns(GH_pos, verif_thrown, verif_throw_type, verif_throw_code)
__CPROVER_ensures(!verif_thrown ==> GH_pos == GH_total)
@*/
/*@extract src/xercesc/framework/XMLFormatter.cpp XMLFormatter::handleUnEscapedChars
declonly
contract
__CPROVER_requires(!verif_thrown && oCount >= 1 && GH_pos <= GH_total && oCount <= GH_total - GH_pos && IS_AT_POS(srcPtr))
__CPROVER_requires(actualUnRep == GH_unrep)
/* only characters that need no escaping are written through the transcoder */
__CPROVER_requires((GH_mode != NoEscapes && G < oCount) ==> !ESCAPED(srcPtr[G < oCount ? G : 0]))
__CPROVER_assigns(GH_pos, verif_thrown, verif_throw_type, verif_throw_code)
__CPROVER_ensures(!verif_thrown ==> (GH_pos == __CPROVER_old(GH_pos) + oCount && __CPROVER_return_value == oCount))
__CPROVER_ensures(verif_thrown ==> GH_pos == __CPROVER_old(GH_pos))
@*/
/*@extract src/xercesc/framework/XMLFormatter.cpp XMLFormatter::inEscapeList
declonly
contract
__CPROVER_requires(escStyle != NoEscapes /* NoEscapes: escape list not consulted */ && escStyle == GH_mode)
__CPROVER_assigns()
__CPROVER_ensures(__CPROVER_return_value == ESCAPED(toCheck))
@*/
/*@extract src/xercesc/framework/XMLFormatter.cpp XMLFormatter::getCharRef
declonly
contract
__CPROVER_requires(!verif_thrown && __CPROVER_w_ok(count_p, sizeof(*count_p)) && __CPROVER_w_ok(ref_p, sizeof(*ref_p)))
__CPROVER_requires((count_p == &fAmpLen && ref_p == &fAmpRef && stdRef == gAmpRef) || (count_p == &fAposLen && ref_p == &fAposRef && stdRef == gAposRef) || (count_p == &fQuoteLen && ref_p == &fQuoteRef && stdRef == gQuoteRef) || (count_p == &fGTLen && ref_p == &fGTRef && stdRef == gGTRef) || (count_p == &fLTLen && ref_p == &fLTRef && stdRef == gLTRef))
__CPROVER_assigns(*count_p, *ref_p, GH_ent, GH_lastref, GH_entlen, verif_thrown, verif_throw_type, verif_throw_code)
__CPROVER_ensures(GH_ent == (stdRef == gAmpRef ? ENT_AMP : stdRef == gAposRef ? ENT_APOS : stdRef == gQuoteRef ? ENT_QUOT : stdRef == gGTRef ? ENT_GT : ENT_LT))
__CPROVER_ensures(__CPROVER_return_value == *ref_p && GH_lastref == *ref_p && GH_entlen == *count_p)
@*/
/*@extract src/xercesc/framework/XMLFormatter.cpp XMLFormatter::writeCharRef
params const XMLCh &toWrite
as XMLFormatter_writeCharRef_ch
declonly
contract
/* a character reference for exactly the character at GH_pos, which needs escaping and has no predefined entity */
__CPROVER_requires(!verif_thrown && GH_pos < GH_total && IS_AT_POS(toWrite_p) && GH_mode != NoEscapes && ESCAPED(*toWrite_p) && ENT_FOR(*toWrite_p) == ENT_NONE)
__CPROVER_assigns(GH_pos, verif_thrown, verif_throw_type, verif_throw_code)
__CPROVER_ensures(!verif_thrown ==> GH_pos == __CPROVER_old(GH_pos) + 1)
__CPROVER_ensures(verif_thrown ==> GH_pos == __CPROVER_old(GH_pos))
@*/
/*@extract src/xercesc/framework/MemBufFormatTarget.cpp MemBufFormatTarget::writeChars
as XMLFormatTarget_writeChars
selfparam XMLFormatTarget
declonly
contract
/* the entity just fetched, and it is the predefined entity of the character at GH_pos, which needs escaping */
__CPROVER_requires(!verif_thrown && GH_pos < GH_total && GH_mode != NoEscapes && ESCAPED(GH_base[GH_pos < GH_total ? GH_pos : 0]))
__CPROVER_requires(toWrite == GH_lastref && count == GH_entlen && GH_ent != ENT_NONE && GH_ent == ENT_FOR(GH_base[GH_pos < GH_total ? GH_pos : 0]))
__CPROVER_assigns(GH_pos, GH_ent)
__CPROVER_ensures(GH_pos == __CPROVER_old(GH_pos) + 1 && GH_ent == ENT_NONE)
@*/

/*@extract src/xercesc/framework/XMLFormatter.cpp XMLFormatter::formatBuf
call specialFormat => XMLFormatter_specialFormat
call handleUnEscapedChars => XMLFormatter_handleUnEscapedChars
call inEscapeList => XMLFormatter_inEscapeList
call getCharRef => XMLFormatter_getCharRef
call writeCharRef => XMLFormatter_writeCharRef_ch
method fTarget->writeChars => XMLFormatTarget_writeChars
throws XMLFormatter_specialFormat XMLFormatter_handleUnEscapedChars XMLFormatter_getCharRef XMLFormatter_writeCharRef_ch
sub \bthis\b => (&SELF)
contract
__CPROVER_requires(!verif_thrown && count <= NS && __CPROVER_r_ok(toFormat, count * sizeof(XMLCh)) && G < NS)
__CPROVER_requires(toFormat == GH_base && count == GH_total && GH_pos == 0 && GH_ent == ENT_NONE)
__CPROVER_requires(GH_mode == ((escapeFlags == DefaultEscape) ? fEscapeFlags : escapeFlags) && GH_mode >= NoEscapes && GH_mode <= CharEscapes)
__CPROVER_requires(GH_unrep == ((unrepFlags == DefaultUnRep) ? fUnRepFlags : unrepFlags) && GH_unrep >= UnRep_Fail && GH_unrep <= UnRep_Replace)
__CPROVER_assigns(fAmpLen, fAmpRef, fAposLen, fAposRef, fQuoteLen, fQuoteRef, fGTLen, fGTRef, fLTLen, fLTRef, GH_pos, GH_ent, GH_lastref, GH_entlen, verif_thrown, verif_throw_type, verif_throw_code)
/* C12: every source character dealt with exactly once, in order (callee preconditions), none left over */
__CPROVER_ensures(!verif_thrown ==> GH_pos == GH_total)
loop 1
__CPROVER_assigns(srcPtr, fAmpLen, fAmpRef, fAposLen, fAposRef, fQuoteLen, fQuoteRef, fGTLen, fGTRef, fLTLen, fLTRef, GH_pos, GH_ent, GH_lastref, GH_entlen, verif_thrown, verif_throw_type, verif_throw_code)
__CPROVER_loop_invariant(!verif_thrown && GH_pos <= GH_total && IS_AT_POS(srcPtr) && GH_ent == ENT_NONE)
__CPROVER_loop_invariant(__CPROVER_same_object(endPtr, GH_base) && __CPROVER_POINTER_OFFSET(endPtr) == __CPROVER_POINTER_OFFSET(GH_base) + GH_total * sizeof(XMLCh))
__CPROVER_decreases(GH_total - GH_pos)
loop 2
__CPROVER_assigns(tmpPtr)
__CPROVER_loop_invariant(__CPROVER_same_object(tmpPtr, GH_base) && __CPROVER_POINTER_OFFSET(tmpPtr) >= __CPROVER_POINTER_OFFSET(srcPtr) && __CPROVER_POINTER_OFFSET(tmpPtr) <= __CPROVER_POINTER_OFFSET(endPtr))
__CPROVER_loop_invariant((__CPROVER_POINTER_OFFSET(tmpPtr) - __CPROVER_POINTER_OFFSET(GH_base)) % sizeof(XMLCh) == 0)
__CPROVER_loop_invariant((GH_pos + G) * sizeof(XMLCh) + __CPROVER_POINTER_OFFSET(GH_base) < __CPROVER_POINTER_OFFSET(tmpPtr) ==> !ESCAPED(GH_base[GH_pos + G < GH_total ? GH_pos + G : 0]))
__CPROVER_decreases(__CPROVER_POINTER_OFFSET(endPtr) - __CPROVER_POINTER_OFFSET(tmpPtr))
@*/

struct { XMLCh a[NS]; } SRC;
struct XMLFormatTarget TG;
void h_fmt_formatbuf(void)
{
  XMLSize_t n; int esc, unrep;
  VERIF_INPUT(SELF); VERIF_INPUT(SRC); VERIF_INPUT(n); VERIF_INPUT(esc); VERIF_INPUT(unrep); VERIF_INPUT(G);
  VERIF_ASSUME(n <= NS && G < NS);
  VERIF_ASSUME(esc == DefaultEscape || (esc >= NoEscapes && esc <= CharEscapes));
  VERIF_ASSUME(unrep == DefaultUnRep || (unrep >= UnRep_Fail && unrep <= UnRep_Replace));
  VERIF_ASSUME(fEscapeFlags >= NoEscapes && fEscapeFlags <= CharEscapes && fUnRepFlags >= UnRep_Fail && fUnRepFlags <= UnRep_Replace);
  fTarget = &TG;
  GH_base = SRC.a + (NS - n); GH_total = n; GH_pos = 0; GH_ent = ENT_NONE;
  GH_mode = (esc == DefaultEscape) ? fEscapeFlags : esc;
  GH_unrep = (unrep == DefaultUnRep) ? fUnRepFlags : unrep;
  verif_thrown = 0;
  XMLFormatter_formatBuf(GH_base, n, esc, unrep);
  VERIF_CANARY("after call");
  /* XML 4.6: the spelling of the five predefined entity references held by the real tables */
  __CPROVER_assert(gAmpRef[0] == '&' && gAmpRef[1] == 'a' && gAmpRef[2] == 'm' && gAmpRef[3] == 'p' && gAmpRef[4] == ';' && gAmpRef[5] == 0, "C12: gAmpRef spells &amp;");
  __CPROVER_assert(gAposRef[0] == '&' && gAposRef[1] == 'a' && gAposRef[2] == 'p' && gAposRef[3] == 'o' && gAposRef[4] == 's' && gAposRef[5] == ';' && gAposRef[6] == 0, "C12: gAposRef spells &apos;");
  __CPROVER_assert(gQuoteRef[0] == '&' && gQuoteRef[1] == 'q' && gQuoteRef[2] == 'u' && gQuoteRef[3] == 'o' && gQuoteRef[4] == 't' && gQuoteRef[5] == ';' && gQuoteRef[6] == 0, "C12: gQuoteRef spells &quot;");
  __CPROVER_assert(gGTRef[0] == '&' && gGTRef[1] == 'g' && gGTRef[2] == 't' && gGTRef[3] == ';' && gGTRef[4] == 0, "C12: gGTRef spells &gt;");
  __CPROVER_assert(gLTRef[0] == '&' && gLTRef[1] == 'l' && gLTRef[2] == 't' && gLTRef[3] == ';' && gLTRef[4] == 0, "C12: gLTRef spells &lt;");
}
