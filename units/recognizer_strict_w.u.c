//@ unit recognizer_strict_w
//@ props C05 C01
//@ kind W
//@ def quick NB=26
//@ def thorough NB=40
//@ def all STRICT=1
//@ cbmc all --unwind 26 --unwinding-assertions
//@ entry h_recognizer
//@ note W: complete for every buffer of <= NB octets and every rawByteCount <= NB (NB >= 25 so that the 24-octet UCS-4 prefix plus one more octet fits); the only loops are those of cbmc's memcmp model and of the spec, all with constant bounds <= 24, unwinding assertions on
//@ note spec: spec/encprobe.h = XML 1.0 Appendix F.1 table (decision on the first four octets) + productions [23][24][3] for "the entity begins with '<?xml' S"
//@ note scope of this unit (strict): the no-BOM signatures of UTF-16 / UCS-4 / EBCDIC in the cases recognizer_w leaves open: (B1) the entity begins with a legal XML declaration whose blank after xml is TAB / CR / LF (production [3] S), (B2) the literal reading of F.1: the first four octets alone decide
//@ note the two unusual UCS-4 octet orders (2143, 3412) are outside property C05: no claim
#define VERIF_DEFINE_GHOSTS
#include "verif_prelude.h"
#include "encprobe.h"

typedef int XMLRecognizer_Encodings;
//@ enum src/xercesc/framework/XMLRecognizer.hpp Encodings - scope=XMLRecognizer
//@ table src/xercesc/framework/XMLRecognizer.cpp fgASCIIPre
//@ table src/xercesc/framework/XMLRecognizer.cpp fgASCIIPreLen
//@ table src/xercesc/framework/XMLRecognizer.cpp fgEBCDICPre
//@ table src/xercesc/framework/XMLRecognizer.cpp fgEBCDICPreLen
//@ table src/xercesc/framework/XMLRecognizer.cpp fgUTF16BPre
//@ table src/xercesc/framework/XMLRecognizer.cpp fgUTF16LPre
//@ table src/xercesc/framework/XMLRecognizer.cpp fgUTF16PreLen
//@ table src/xercesc/framework/XMLRecognizer.cpp fgUCS4BPre
//@ table src/xercesc/framework/XMLRecognizer.cpp fgUCS4LPre
//@ table src/xercesc/framework/XMLRecognizer.cpp fgUCS4PreLen

/*@extract src/xercesc/framework/XMLRecognizer.cpp XMLRecognizer::basicEncodingProbe
@*/

//@ include recognizer_harness.inc
