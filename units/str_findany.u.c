//@ unit str_findany
//@ props C01
//@ kind P
//@ def quick STRN=6
//@ def thorough STRN=9
//@ enforce XMLString_findAnyC
//@ enforce XMLString_findAny
//@ entry h_str_findany
//@ note P: nested scanning loops, both through loop contracts; buffers bounded by -DSTRN, END-aligned at the NUL; ghosts G (position in the string) and G2 (position in the list) make "no unit before the result is in the list" a universal statement; membership of the found unit is a finite disjunction over the STRN list elements
#define VERIF_DEFINE_GHOSTS
#include "verif_prelude.h"
//@ include str_common.inc

/*@extract src/xercesc/util/XMLString.cpp XMLString::findAny
as XMLString_findAnyC
pick 1
contract
//@ include str_findAny.contract.inc
@*/
/*@extract src/xercesc/util/XMLString.cpp XMLString::findAny
as XMLString_findAny
pick 2
contract
//@ include str_findAny.contract.inc
@*/

struct { XMLCh a[STRN]; } S1, S2;
void h_str_findany(void)
{
  XMLSize_t l1, l2; _Bool which;
  VERIF_INPUT(S1); VERIF_INPUT(S2); VERIF_INPUT(G); VERIF_INPUT(G2); VERIF_INPUT(l1); VERIF_INPUT(l2); VERIF_INPUT(which);
  VERIF_ASSUME(l1 < STRN && l2 < STRN);
  LEN1 = l1; LEN2 = l2;
  verif_thrown = 0;
  const XMLCh *r;
  if (which) r = XMLString_findAnyC(S1.a + (STRN - (l1 + 1)), S2.a + (STRN - (l2 + 1)));
  else r = XMLString_findAny(S1.a + (STRN - (l1 + 1)), S2.a + (STRN - (l2 + 1)));
  VERIF_CANARY("after findAny");
  if (r != 0 && r != S1.a + (STRN - (l1 + 1)) && l2 > 1) VERIF_CANARY("findAny: found after the first unit reachable");
  if (r == 0 && l1 > 1 && l2 > 1) VERIF_CANARY("findAny: not found reachable");
}
