//@ unit xmlchar_spaces_10
//@ entry h_xmlchar_spaces_10
//@ props C02 C01
//@ kind W
//@ def quick N=4
//@ def thorough N=7
//@ cbmc quick --unwind 6
//@ cbmc thorough --unwind 9
//@ cbmc all --unwinding-assertions --arrays-uf-always
//@ note W: complete for every UTF-16 string of length <= N followed by a NUL (every call site passes a NUL-terminated string or a suffix of one, with count = its length); loops fully unwound, unwinding assertions on
//@ note the 64K class table is ARBITRARY here, constrained only at the characters of the input string by the statement proved for ALL characters in unit chartab_10 (name / NCName / S bits <=> the productions); assume-guarantee, no other assumption
#define VERIF_DEFINE_GHOSTS
#include "verif_prelude.h"
#include "xmlchars.h"
//@ include XMLChar_names_10.inc


void h_xmlchar_spaces_10(void)
{
  NAMES10_INPUT;
  _Bool r_allsp = XMLChar1_0_isAllSpaces(s, n);
  _Bool r_hassp = XMLChar1_0_containsWhiteSpace(s, n);
  VERIF_CANARY("after call");
  __CPROVER_assert(r_allsp == spec_xml_all_S(s, n), "C02: XMLChar1_0::isAllSpaces <=> the string matches [3] S");
  __CPROVER_assert(r_hassp == spec_xml_contains_S(s, n), "C02: XMLChar1_0::containsWhiteSpace <=> some character is in [3] S");
}
