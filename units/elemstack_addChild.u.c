//@ unit elemstack_addChild
//@ props C01
//@ kind P
//@ enforce ElemStack_addChild
//@ cbmc all --unsigned-overflow-check
//@ timeout quick=900 thorough=1800
//@ entry h_elemstack_addChild
//@ note the copy loop has a loop contract (unbounded child count <= 2^40); child capacity 0 or 4..2^40 ((XMLSize_t)(cap * 1.25) evaluated bit-precisely); allocate() hands out the harness-prepared fresh array, never fails
//@ note heap shape built by the harness: stack array of 4 row pointers, fStackTop one of 0, 1, 2, 3; the row worked on (top or parent) has a dynamic children array of arbitrary capacity
#define VERIF_DEFINE_GHOSTS
#include "verif_prelude.h"
#include <stdlib.h>
//@ include ElemStack_ri.inc

/*@extract src/xercesc/internal/ElemStack.cpp ElemStack::addChild
sub fMemoryManager->allocate => verif_alloc
sub fMemoryManager->deallocate => verif_free
contract
CONTRACT_addChild
loop 1
__CPROVER_assigns(index, __CPROVER_object_whole(newRow))
__CPROVER_loop_invariant(index <= curRow->fChildCount)
__CPROVER_loop_invariant((G < index) ==> newRow[G] == curRow->fChildren[G])
__CPROVER_decreases(curRow->fChildCount - index)
@*/

struct { struct StackElem r[4]; } ROWS;
void *CHILD; _Bool TOPARENT;
#define RUN_WITH(top, rowidx) { \
  fStackTop = (top); \
  struct StackElem *t = &ROWS.r[rowidx]; CROW = t; \
  VERIF_ASSUME(t->fChildCapacity <= VERIF_STK_MAX); \
  t->fChildren = t->fChildCapacity ? malloc(t->fChildCapacity * sizeof(void *)) : 0; \
  VERIF_ASSUME(t->fChildCapacity == 0 || t->fChildren != 0); \
  ElemStack_addChild(CHILD, TOPARENT); }

void h_elemstack_addChild(void)
{
  int depth;
  VERIF_INPUT(SELF); VERIF_INPUT(ROWS); VERIF_INPUT(G); VERIF_INPUT(NEXTSIZE); VERIF_INPUT(depth); VERIF_INPUT(TOPARENT);
  fStackCapacity = 4;
  fStack = malloc(4 * sizeof(struct StackElem *));
  VERIF_ASSUME(fStack != 0);
  fStack[0] = &ROWS.r[0]; fStack[1] = &ROWS.r[1]; fStack[2] = &ROWS.r[2]; fStack[3] = &ROWS.r[3];
  ROWS.r[0].fChildren = 0; ROWS.r[1].fChildren = 0; ROWS.r[2].fChildren = 0; ROWS.r[3].fChildren = 0;
  NEXTBUF = malloc(NEXTSIZE); NEXTUSED = 0;
  VERIF_ASSUME(NEXTBUF != 0);
  CHILD = &ROWS;      /* any non-null pointer value */
  verif_thrown = 0;
  if (depth == 0) RUN_WITH(0, 0)
  else if (depth == 1) RUN_WITH(1, 0)
  else if (TOPARENT) RUN_WITH(3, 1)
  else RUN_WITH(3, 2)
  VERIF_CANARY("after call");
}
