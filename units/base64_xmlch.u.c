//@ unit base64_xmlch
//@ props C09 C01
//@ kind W
//@ def quick NB=5
//@ def thorough NB=8
//@ cbmc quick --unwind 8 --unwinding-assertions
//@ cbmc thorough --unwind 11 --unwinding-assertions
//@ entry h_base64_xmlch
//@ note W: complete for every NUL-terminated XMLCh string of length 1..NB (quick 5 = one quartet plus a space, thorough 8), mode Conf_Schema, through Base64::decodeToXMLByte -> decode(4 args) -> decode(5 args) (the path of Base64BinaryDatatypeValidator / getDataLength and of XSValue); loops fully unwound, unwinding assertions on
//@ note the literal is an XMLCh string: a character outside [A-Za-z0-9+/= #x20] -- in particular any character above U+007F -- is not in the base64Binary lexical space (3.2.16.1), whatever its low byte is
//@ note allocation model as in base64_decode (verif_alloc: fresh object of exactly n bytes, never fails; frees and janitors dropped)
#define VERIF_DEFINE_GHOSTS
#include <stdlib.h>
#include "verif_prelude.h"
#include "xsd_lexical.h"
//@ enum src/xercesc/util/Base64.hpp Conformance - scope=Base64
//@ table src/xercesc/util/Base64.cpp BASELENGTH asenum
//@ table src/xercesc/util/Base64.cpp FOURBYTE asenum
//@ table src/xercesc/util/Base64.cpp base64Inverse
//@ table src/xercesc/util/Base64.cpp base64Padding
typedef int Conformance;

static void *verif_alloc(size_t n) { void *p = malloc(n); __CPROVER_assume(p != 0); return p; }

/*@extract src/xercesc/util/XMLString.hpp XMLString::stringLen
params const XMLCh* const src
@*/
/*@extract src/xercesc/util/Base64.cpp Base64::isData
constref-byvalue
@*/
/*@extract src/xercesc/util/Base64.hpp Base64::isPad
constref-byvalue
@*/
/*@extract src/xercesc/util/Base64.hpp Base64::set1stOctet
constref-byvalue
@*/
/*@extract src/xercesc/util/Base64.hpp Base64::set2ndOctet
constref-byvalue
@*/
/*@extract src/xercesc/util/Base64.hpp Base64::set3rdOctet
constref-byvalue
@*/
/*@extract src/xercesc/util/Base64.cpp Base64::decode
as Base64_decode5
params XMLByte*& canRepData
call isData => Base64_isData
call isPad => Base64_isPad
call set1stOctet => Base64_set1stOctet
call set2ndOctet => Base64_set2ndOctet
call set3rdOctet => Base64_set3rdOctet
sub XMLString::stringLen\( \(const char\*\)inputData \) => strlen((const char*)inputData)
sub getExternalMemory\(memMgr, => verif_alloc(
sub returnExternalMemory\(memMgr, decodedData\); =>
sub ArrayJanitor<XMLByte> jan\([^;]*\); =>
sub jan\.release\(\); =>
sub XMLChar1_0::isWhitespace => SPEC_IS_XMLWS
@*/

/*@extract src/xercesc/util/Base64.cpp Base64::decode
as Base64_decode4
pick 1
call decode => Base64_decode5
sub returnExternalMemory\(memMgr, canRepInByte\); => ;
@*/
/*@extract src/xercesc/util/Base64.cpp Base64::decodeToXMLByte
call decode => Base64_decode4
sub getExternalMemory\(memMgr, => verif_alloc(
sub ArrayJanitor<XMLByte> janFill\([^;]*\); =>
@*/

struct { XMLCh a[NB + 1]; } IN;

void h_base64_xmlch(void)
{
  XMLSize_t n, declen = 12345;
  VERIF_INPUT(IN); VERIF_INPUT(n);
  VERIF_ASSUME(n >= 1 && n <= NB);
  XMLCh *s = IN.a + (NB - n);
  VERIF_ASSUME(s[n] == 0);
  for (XMLSize_t i = 0; i < n; i++) VERIF_ASSUME(s[i] != 0);
  verif_thrown = 0;
  XMLByte *r = Base64_decodeToXMLByte(s, &declen, 0, Conf_Schema);
  VERIF_CANARY("after call");
  uint16_t cref[NB + 1]; uint8_t oref[NB + 1]; size_t on, cn;
  int ok = spec_base64_decode(s, n, 1, oref, &on, cref, &cn);
  if (!ok || cn == 0) {
    __CPROVER_assert(r == 0, "C09: Base64::decodeToXMLByte rejects every XMLCh literal outside the base64Binary lexical space (no truncation of characters to their low byte)");
  } else {
    __CPROVER_assert(r != 0, "C09: Base64::decodeToXMLByte accepts the base64Binary lexical space");
    if (r != 0) {
      __CPROVER_assert(declen == on, "C09: Base64::decodeToXMLByte: number of octets");
      for (size_t k = 0; k < on; k++) __CPROVER_assert(r[k] == oref[k], "C09: Base64::decodeToXMLByte: octets per RFC 2045");
    }
  }
}
