//@ unit xmlchar_qnames_10
//@ entry h_xmlchar_qnames_10
//@ props C02 C01
//@ kind W
//@ def quick N=4
//@ def thorough N=7
//@ cbmc quick --unwind 6
//@ cbmc thorough --unwind 9
//@ cbmc all --unwinding-assertions --arrays-uf-always
//@ note W: complete for every UTF-16 string of length <= N followed by a NUL (every call site passes a NUL-terminated string or a suffix of one, with count = its length); loops fully unwound, unwinding assertions on
//@ note the 64K class table is ARBITRARY here, constrained only at the characters of the input string by the statement proved for ALL characters in unit chartab_10 (name / NCName / S bits <=> the productions); assume-guarantee, no other assumption
#define VERIF_DEFINE_GHOSTS
#include "verif_prelude.h"
#include "xmlchars.h"
//@ include XMLChar_names_10.inc

//@ note XML 1.0 Fifth Edition admits #x10000-#xEFFFF in names; the obligations are split into "BMP-only strings" and "strings containing surrogate code units" so that a deviation on the latter is visible on its own

void h_xmlchar_qnames_10(void)
{
  NAMES10_INPUT;
  _Bool r_ncname = XMLChar1_0_isValidNCName(s, n);
  _Bool r_qname = XMLChar1_0_isValidQName(s, n);
  VERIF_CANARY("after call");
  if (!has_sur) {
    __CPROVER_assert(r_ncname == spec_xml_is_name(s, n, 1), "C02: XMLChar1_0::isValidNCName <=> NCName (BMP-only strings)");
    __CPROVER_assert(r_qname == spec_xml_is_qname(s, n), "C02: XMLChar1_0::isValidQName <=> QName (BMP-only strings)");
  } else {
    __CPROVER_assert(r_ncname == spec_xml_is_name(s, n, 1), "C02: XMLChar1_0::isValidNCName <=> NCName (strings with surrogate code units; 5th ed. admits #x10000-#xEFFFF)");
    __CPROVER_assert(r_qname == spec_xml_is_qname(s, n), "C02: XMLChar1_0::isValidQName <=> QName (strings with surrogate code units)");
  }
}
