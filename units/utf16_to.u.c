//@ unit utf16_to
//@ props C05 C01
//@ kind P
//@ def quick NMAX=8
//@ def thorough NMAX=16
//@ enforce XMLUTF16Transcoder_transcodeTo
//@ entry h_utf16_to
//@ note P: iterations unbounded through loop contracts; buffer LENGTHS are bounded by -DNMAX (srcCount <= NMAX, maxBytes <= 2*NMAX+1) because cbmc needs finite objects
//@ note target model LP64 little-endian, sizeof(XMLCh) == sizeof(UTF16Ch) == 2: the non-swapped path is the memcpy branch (cbmc's built-in memcpy model; the destination is a byte-typed object so the model is precise, see utf16_from), the per-character conversion loop (loop 2) is compile-time dead but carries a contract all the same
//@ note fSwapped == false means the target is UTF-16LE on this machine model, fSwapped == true UTF-16BE; the postcondition is stated on the output BYTES (D96/D97 encoding schemes), not as a restatement of swapBytes
#define VERIF_DEFINE_GHOSTS
#include "verif_prelude.h"

typedef int UnRepOpts;
//@ struct src/xercesc/util/XMLUTF16Transcoder.hpp XMLUTF16Transcoder only=auto

/* ghost index: harness-chosen, in no assigns clause */
XMLSize_t G, GB;
#define GBI ((GB < maxBytes) ? GB : 0)
#define GIDX(k) ((G < NMAX) ? 2 * G + (k) : 0)

/*@extract src/xercesc/util/BitOps.hpp BitOps::swapBytes
inclass
static
params const XMLUInt16
as BitOps_swapBytes
@*/

/*@extract src/xercesc/util/XMLUTF16Transcoder.cpp XMLUTF16Transcoder::transcodeTo
sub \bUTF16Ch\(\*srcPtr\+\+\) => ((UTF16Ch)(*srcPtr++))
contract
__CPROVER_requires(G < NMAX && GB <= 2 * NMAX && srcCount <= NMAX && maxBytes <= 2 * NMAX + 1 && !verif_thrown)
__CPROVER_requires(__CPROVER_r_ok(srcData, srcCount * sizeof(XMLCh)))
__CPROVER_requires(__CPROVER_w_ok(toFill, maxBytes))
__CPROVER_requires(__CPROVER_w_ok(charsEaten_p, sizeof(XMLSize_t)))
__CPROVER_assigns(__CPROVER_object_upto(toFill, maxBytes), *charsEaten_p)
/* T_iface */
__CPROVER_ensures(!verif_thrown)
__CPROVER_ensures(__CPROVER_return_value <= maxBytes)
__CPROVER_ensures(__CPROVER_return_value == 2 * *charsEaten_p && *charsEaten_p <= srcCount)
/* progress: every unit that is available and fits is encoded (a dangling odd output byte is left) */
__CPROVER_ensures(*charsEaten_p == ((srcCount < maxBytes / 2) ? srcCount : maxBytes / 2))
/* C05: output bytes 2G, 2G+1 spell source unit G in the byte order of the encoding scheme; every 16-bit value */
__CPROVER_ensures((G < *charsEaten_p && fSwapped) ==> (toFill[GIDX(0)] == (XMLByte)(srcData[G] >> 8) && toFill[GIDX(1)] == (XMLByte)(srcData[G] & 0xFF)))
__CPROVER_ensures((G < *charsEaten_p && !fSwapped) ==> (toFill[GIDX(1)] == (XMLByte)(srcData[G] >> 8) && toFill[GIDX(0)] == (XMLByte)(srcData[G] & 0xFF)))
/* frame inside the buffer: bytes at and beyond the return value are untouched (byte ghost index GB) */
__CPROVER_ensures((GB >= __CPROVER_return_value && GB < maxBytes) ==> toFill[GBI] == __CPROVER_old(toFill[GBI]))
loop 1
__CPROVER_assigns(index, outPtr, srcPtr, __CPROVER_object_upto(toFill, maxBytes))
__CPROVER_loop_invariant(index <= countToDo)
__CPROVER_loop_invariant(__CPROVER_same_object(outPtr, toFill) && __CPROVER_POINTER_OFFSET(outPtr) == __CPROVER_POINTER_OFFSET(toFill) + 2 * index)
__CPROVER_loop_invariant(__CPROVER_same_object(srcPtr, srcData) && __CPROVER_POINTER_OFFSET(srcPtr) == __CPROVER_POINTER_OFFSET(srcData) + 2 * index)
__CPROVER_loop_invariant((G < index) ==> (toFill[GIDX(0)] == (XMLByte)(srcData[G] >> 8) && toFill[GIDX(1)] == (XMLByte)(srcData[G] & 0xFF)))
__CPROVER_loop_invariant((GB >= 2 * index && GB < maxBytes) ==> toFill[GBI] == __CPROVER_loop_entry(toFill[GBI]))
__CPROVER_decreases(countToDo - index)
loop 2
__CPROVER_assigns(index, outPtr, srcPtr, __CPROVER_object_upto(toFill, maxBytes))
__CPROVER_loop_invariant(index <= countToDo)
__CPROVER_loop_invariant(__CPROVER_same_object(outPtr, toFill) && __CPROVER_POINTER_OFFSET(outPtr) == __CPROVER_POINTER_OFFSET(toFill) + 2 * index)
__CPROVER_loop_invariant(__CPROVER_same_object(srcPtr, srcData) && __CPROVER_POINTER_OFFSET(srcPtr) == __CPROVER_POINTER_OFFSET(srcData) + 2 * index)
__CPROVER_loop_invariant((G < index) ==> (toFill[GIDX(1)] == (XMLByte)(srcData[G] >> 8) && toFill[GIDX(0)] == (XMLByte)(srcData[G] & 0xFF)))
__CPROVER_loop_invariant((GB >= 2 * index && GB < maxBytes) ==> toFill[GBI] == __CPROVER_loop_entry(toFill[GBI]))
__CPROVER_decreases(countToDo - index)
@*/

struct { XMLByte a[2 * NMAX]; } SRC;    /* byte-typed objects: see the memcpy note in utf16_from */
struct { XMLByte a[2 * NMAX + 1]; } OUT;

void h_utf16_to(void)
{
  XMLSize_t n, m, eaten = 0;
  int opt;
  VERIF_INPUT(n); VERIF_INPUT(m); VERIF_INPUT(opt); VERIF_INPUT(G); VERIF_INPUT(GB); VERIF_INPUT(SRC); VERIF_INPUT(OUT); VERIF_INPUT(SELF);
  VERIF_ASSUME(n <= NMAX && m <= 2 * NMAX + 1);
  verif_thrown = 0;
  /* end-aligned: any access beyond srcCount / maxBytes leaves the object */
  XMLUTF16Transcoder_transcodeTo((const XMLCh *)(SRC.a + 2 * (NMAX - n)), n, OUT.a + (2 * NMAX + 1 - m), m, &eaten, opt);
  VERIF_CANARY("after call");
}
