//@ unit ser_tmpl_RefHash2KeysTableOf_ElemVector
//@ props C16 C01
//@ kind W
//@ def quick NC=3
//@ def thorough NC=4
//@ def all TAPE_MAX=20
//@ cbmc quick --unwind 9 --unwinding-assertions
//@ cbmc thorough --unwind 11 --unwinding-assertions
//@ entry h_ser_tmpl_RefHash2KeysTableOf_ElemVector
//@ note W: complete for tables of <= NC substitution groups with <= 2 members each (all loops unwound); the real bodies of XTemplateSerializer::storeObject(RefHash2KeysTableOf<ElemVector>*, serEng) and loadObject(RefHash2KeysTableOf<ElemVector>**, int, bool, serEng) (SchemaGrammar::fValidSubstitutionGroups) run over the tape engine: store mode on a symbolic table (null / written before / new), then load mode into the owner's empty table or into none
//@ note container model (contracts/ser_container.inc, trusted stubs): a table is <= NC entries (key1 string id = base name of the substitution head, key2 = its URI AS FILED, element = a member vector) + hash modulus; the enumerator yields the entries in index order -- they are symbolic, so this is an arbitrary order; get(k1, k2) / put(k1, k2, e) as in the real table; the member vector travels through the nested storeObject / loadObject pair (unit ser_tmpl_ValueVectorOf_SchemaElementDecl_p; here: one record, the vector's id); the loaded vector has <= 2 members (symbolic), each with a substitution head whose getBaseName() / getURI() are symbolic fields, separate from the keys as filed
//@ note strings are ids, plus one bit "temporary copy": readString hands out a TEMPORARY copy of the stored key (same content, memory owned by nobody); XMLString::equals compares content; deallocate releases a temporary copy; the table does not own its keys, so the key that is filed must be a string that an element owns (C01: otherwise the copy is leaked when the grammar is deleted)
//@ note ASSUMED class invariant of the stored table (TraverseSchema.cpp:9013-9029: a vector is filed under the head's own getBaseName() / getURI() and the element that names this head as its substitutionGroup is added right away; the copies made at 7061 / 7124 are copies of such vectors; vectors never shrink): every member vector holds at least one element whose getSubstitutionGroupElem() has base name == key1 (content) and URI == key2; no two entries under equal keys
//@ note tape engine (contracts/ser_tape.inc): operator<< / operator>> / writeSize / readSize / writeString / readString are trusted stubs that record / check (type tag, value); the tag of a streamed operand comes from its REAL type via _Generic; needToStoreObject / needToLoadObject / registerObject: header record null / reference / new object (contracts/ser_container.inc)
#define VERIF_DEFINE_GHOSTS
#include "verif_prelude.h"
//@ include ser_tape.inc
//@ include ser_container.inc
typedef struct sc_cont RefHash2KeysTableOf_ElemVector;
typedef struct ElemVector ElemVector;
typedef struct SchemaElementDecl SchemaElementDecl;
/* temporary copies of strings */
#define SC_TEMPBIT ((uintptr_t)0x8000)
#define SC_TEMP(p) ((XMLCh*)(((uintptr_t)(p)) | SC_TEMPBIT))
#define SC_CONTENT(p) (((uintptr_t)(p)) & ~SC_TEMPBIT)
int SC_TEMPS, SC_FREED;
#undef ENG_readString
#define ENG_readString(e, s) { TAPE_POP(TG_STRING, #s) (s) = SC_TEMP(TAPE_R.p); SC_TEMPS++; }
#define XMLString_equals(a, b) (SC_CONTENT(a) == SC_CONTENT(b))
static void MM_deallocate(MemoryManager *mm, const void *p) {
  __CPROVER_assert((((uintptr_t)p) & SC_TEMPBIT) != 0, "C01: what is released is the temporary copy of the key read from the stream"); SC_FREED++; }
/* the nested pair for the member vector */
#define SC_storeInner(data, eng) TAPE_PUT_ID(TG_TMPLOBJ, data, "storeObject(data)")
#define SC_loadInner(pp, initSize, callDtor, eng) { TAPE_POP(TG_TMPLOBJ, "loadObject(&data)") *(pp) = TAPE_R.p; }
/* member vectors: vector i (element i) has IVS.a[i] members, member j is element NC+1+IVM.a[i].m[j]; its head is EL_sub(member) */
struct { unsigned char a[NC + 1]; } IVS; struct { struct { unsigned char m[2]; } a[NC + 1]; } IVM;
static XMLSize_t IV_size(const void *v) { return IVS.a[SC_eidx(v) < NC + 1 ? SC_eidx(v) : 0]; }
static void* IV_elementAt(const void *v, XMLSize_t j) {
  XMLSize_t i = SC_eidx(v) < NC + 1 ? SC_eidx(v) : 0;
  __CPROVER_assert(j < IVS.a[i], "C16: elementAt stays below size()");
  return SC_EPTR(NC + 1 + IVM.a[i].m[j < 2 ? j : 0]); }

/*@extract src/xercesc/internal/XTemplateSerializer.cpp XTemplateSerializer::storeObject
params RefHash2KeysTableOf<ElemVector>
as TS_store
sub RefHash2KeysTableOfEnumerator<ElemVector>\s+e\( => SC_ENUM(e, 
streamops serEng
call storeObject => SC_storeInner
method serEng.needToStoreObject => ENG_needToStoreObject
method serEng.writeSize => ENG_writeSize
method serEng.writeString => ENG_writeString
method serEng.getMemoryManager => ENG_getMemoryManager
method objToStore->getHashModulus => SC_getHashModulus
method objToStore->getMemoryManager => SC_getMemoryManager
method objToStore->get => SC_get
method e.hasMoreElements => SC_hasMore
method e.nextElement => SC_nextElement
method e.nextElementKey => SC_nextKey
method e.Reset => SC_Reset
@*/
/*@extract src/xercesc/internal/XTemplateSerializer.cpp XTemplateSerializer::loadObject
params RefHash2KeysTableOf<ElemVector>
as TS_load
sub new\s*\(serEng\.getMemoryManager\(\)\)\s*RefHash2KeysTableOf<ElemVector>\s*\( => SC_newHash(
sub SchemaElementDecl\*&\s+elem\b => SchemaElementDecl* elem
streamops serEng
call loadObject => SC_loadInner
method serEng.needToLoadObject => ENG_needToLoadObject
method serEng.registerObject => ENG_registerObject
method serEng.readSize => ENG_readSize
method serEng.readString => ENG_readString
method serEng.getMemoryManager => ENG_getMemoryManager
method ENG_getMemoryManager(&(serEng))->deallocate => MM_deallocate
method (*objToLoad)->put => SC_put
method data->size => IV_size
method data->elementAt => IV_elementAt
method elem->getSubstitutionGroupElem => EL_sub
method subElem->getBaseName => EL_name
method subElem->getURI => EL_uri
method elem->getBaseName => EL_name
method elem->getURI => EL_uri
@*/

#define SC_HARNESS h_ser_tmpl_RefHash2KeysTableOf_ElemVector
#define SC_NKEYS 2
#define SC_ORDERED 0
#define SC_HEAD_OF(i, j) SC_ELEM.a[NC + 1 + SC_ELEM.a[NC + 1 + IVM.a[i].m[j]].subIdx]
#define SC_HEADMATCH(i, j) (SC_HEAD_OF(i, j).name == (const XMLCh*)SC_S.a[i].key1 && SC_HEAD_OF(i, j).uri == SC_S.a[i].key2)
#define SC_INVARIANT(i) (IVS.a[i] >= 1 && (SC_HEADMATCH(i, 0) || (IVS.a[i] == 2 && SC_HEADMATCH(i, 1))))
#define SC_SETUP_EXTRA VERIF_INPUT(IVS); VERIF_INPUT(IVM); SC_TEMPS = 0; SC_FREED = 0; \
  for (XMLSize_t i = 0; i < NC + 1; i++) VERIF_ASSUME(IVS.a[i] <= 2 && IVM.a[i].m[0] < NC + 1 && IVM.a[i].m[1] < NC + 1);
#define SC_CHECK_EXTRA __CPROVER_assert(SC_FREED == SC_TEMPS, "C01: every temporary key string read from the stream is released (the table files the head's own name instead)");
#define SC_STORE(obj) TS_store(obj, &ENGINE)
#define SC_LOAD(pp, initSize, adopt, initSize2) TS_load(pp, initSize, adopt, &ENGINE)
#define SC_CREATION_OK(initSize, adopt, initSize2) (SC_L.modulus == SC_S.modulus && SC_L.adopt == adopt)
//@ include ser_container_harness.inc
