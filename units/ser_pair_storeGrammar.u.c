//@ unit ser_pair_storeGrammar
//@ props C16
//@ kind L
//@ entry h_ser_pair_storeGrammar
//@ note L: loop-free; the real bodies of Grammar::storeGrammar and Grammar::loadGrammar (the static pair the class-level serialize() methods use for their Grammar* members) on the tape engine: storeGrammar(p) in store mode, then loadGrammar() in load mode; p is null or an object of ANY concrete kind (DTDGrammar, SchemaGrammar; symbolic)
//@ note tape engine (contracts/ser_tape.inc): operator<< / operator>> / writeSize / readSize / writeString / readString and the sub-object serialisers (XTemplateSerializer::storeObject/loadObject, DatatypeValidator::storeDV/loadDV, Base::serialize ...) are trusted stubs that record / check (type tag, value); the tag of a streamed operand comes from its REAL type (member types from the real class declaration, casts from the code) via _Generic; strings, containers and pointers to serialisable objects are opaque ids (the pointer value stands for the object; loading yields the id that was stored); the byte-level engine is the subject of units ser_primitives, ser_fillflush, ser_rawbytes
//@ note what `serEng << p` writes is the DYNAMIC class of p (XSerializeEngine::write(XSerializable*) stores the class name of its prototype) and `serEng >> x` with x of static type X* accepts only that class: the unit's ENG_PUT gives an object whose getGrammarType() is E the class tag of the class that returns E (DTDGrammarType <-> DTDGrammar, SchemaGrammarType <-> SchemaGrammar: the specification, from the classes' own getGrammarType()), ENG_GET takes the tag from the static type of the local variable in the matching case of loadGrammar
#define VERIF_DEFINE_GHOSTS
#include "verif_prelude.h"
//@ include ser_tape.inc
#undef Grammar_storeGrammar   /* the tape stubs of the pair (if any): here the real bodies are extracted */
#undef Grammar_loadGrammar
typedef void Grammar;         /* so that every concrete X* converts to the return type, as in C++ */
typedef int GrammarType; typedef struct DTDGrammar DTDGrammar; typedef struct SchemaGrammar SchemaGrammar;
//@ enum src/xercesc/validators/common/Grammar.hpp GrammarType - scope=Grammar
struct obj { int type; } THE_OBJ;
static int OBJ_getType(const void *p) { return ((const struct obj*)p)->type; }
static int OBJ_class_tag(const void *p) { switch (OBJ_getType(p)) { case DTDGrammarType: return TG_OBJ_DTDGrammar; case SchemaGrammarType: return TG_OBJ_SchemaGrammar; default: return TG_OBJ_ANY; } }
#undef ENG_PUT
#define ENG_PUT(eng, x) { TAPE_R = _Generic((x), int: TAPE_mk_long, default: TAPE_mk_ptr)(x); \
  TAPE_R.tag = _Generic((x), int: TG_INT, default: OBJ_class_tag((const void*)(uintptr_t)(x))); TAPE_APPEND(#x) }

/*@extract src/xercesc/validators/common/Grammar.cpp Grammar::storeGrammar
streamops serEng
method grammar->getGrammarType => OBJ_getType
@*/
/*@extract src/xercesc/validators/common/Grammar.cpp Grammar::loadGrammar
sub* (case\s+\w+\s*:) => \1 ;
streamops serEng
@*/

void h_ser_pair_storeGrammar(void)
{
  _Bool have;
  VERIF_INPUT(have); VERIF_INPUT(THE_OBJ); TAPE_INIT();
  VERIF_ASSUME(THE_OBJ.type == DTDGrammarType || THE_OBJ.type == SchemaGrammarType);
  void *p = have ? (void*)&THE_OBJ : (void*)0;
  verif_thrown = 0;
  TAPE_BEGIN_STORE();
  Grammar_storeGrammar(&ENGINE, p);
  TAPE_BEGIN_LOAD();
  void *back = Grammar_loadGrammar(&ENGINE);
  VERIF_CANARY("after store and load");
  __CPROVER_assert(!verif_thrown, "C16: storeGrammar / loadGrammar do not throw by themselves");
  TAPE_END_CHECK();
  __CPROVER_assert(back == p, "C16: loadGrammar yields the object storeGrammar was given (null or the stored object -- for every concrete kind)");
  if (!have) VERIF_CANARY("null"); if (have && THE_OBJ.type == SchemaGrammarType) VERIF_CANARY("object");
}
