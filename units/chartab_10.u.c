//@ unit chartab_10
//@ props C02
//@ kind L
//@ entry h_chartab_10
//@ timeout quick=600 thorough=1800
//@ note L: one symbolic XMLCh c, the real 64K table fgCharCharsTable1_0 copied textually on every run; complete for all 65536 code units
//@ note XMLChar1_0::enableNELWS() (the documented NON-conformant switch XMLPlatformUtils::recognizeNEL) overwrites entries 0x85 and 0x2028 at run time; the statement is about the table as initialised (switch off, the default)
//@ note the classes Char, S, NameStartChar, NameChar, NCName are productions; control / plain content / special start tag are fast-path classes whose definition is taken from the documented intent (XMLChar.cpp table generator comments), not from a production
#define VERIF_DEFINE_GHOSTS
#include "verif_prelude.h"
#include "xmlchars.h"

//@ table src/xercesc/util/XMLChar.hpp gNCNameCharMask
//@ table src/xercesc/util/XMLChar.hpp gFirstNameCharMask
//@ table src/xercesc/util/XMLChar.hpp gNameCharMask
//@ table src/xercesc/util/XMLChar.hpp gPlainContentCharMask
//@ table src/xercesc/util/XMLChar.hpp gSpecialStartTagCharMask
//@ table src/xercesc/util/XMLChar.hpp gControlCharMask
//@ table src/xercesc/util/XMLChar.hpp gXMLCharMask
//@ table src/xercesc/util/XMLChar.hpp gWhitespaceCharMask
//@ table src/xercesc/util/XMLChar.cpp fgCharCharsTable1_0

void h_chartab_10(void)
{
  XMLCh c;
  VERIF_INPUT(c);
  XMLByte t = fgCharCharsTable1_0[c];
  VERIF_CANARY("after call");
  __CPROVER_assert(((t & gXMLCharMask) != 0) == spec_xml10_Char(c), "C02: table 1.0 gXMLCharMask <=> XML 1.0 [2] Char");
  __CPROVER_assert(((t & gWhitespaceCharMask) != 0) == spec_xml_S(c), "C02: table 1.0 gWhitespaceCharMask <=> XML 1.0 [3] S");
  __CPROVER_assert(((t & gFirstNameCharMask) != 0) == spec_xml_NameStartChar(c), "C02: table 1.0 gFirstNameCharMask <=> XML 1.0 (5th ed.) [4] NameStartChar");
  __CPROVER_assert(((t & gNameCharMask) != 0) == spec_xml_NameChar(c), "C02: table 1.0 gNameCharMask <=> XML 1.0 (5th ed.) [4a] NameChar");
  __CPROVER_assert(((t & gNCNameCharMask) != 0) == spec_xml_NCNameChar(c), "C02: table 1.0 gNCNameCharMask <=> NameChar minus ':' (Namespaces [4])");
  __CPROVER_assert((t & gControlCharMask) == 0, "C02: table 1.0 gControlCharMask is empty (XML 1.0 has no RestrictedChar)");
  __CPROVER_assert(((t & gPlainContentCharMask) != 0) == (spec_xml10_Char(c) && c != 0xD && c != 0xA && c != '<' && c != '&' && c != ']'),
                   "C02: table 1.0 gPlainContentCharMask <=> Char minus {CR, LF, '<', '&', ']'}");
  __CPROVER_assert(((t & gSpecialStartTagCharMask) != 0) == (spec_xml_S(c) || c == 0 || c == '/' || c == '>' || c == '<' || c == '\'' || c == '"'),
                   "C02: table 1.0 gSpecialStartTagCharMask <=> S or one of NUL / > < ' \"");
}
