//@ unit c11_bmpattern
//@ props C11 C01
//@ kind B
//@ def quick NP=3 NT=5 TABLEN=16
//@ def thorough NP=3 NT=5 TABLEN=16
//@ cbmc quick --unwind 7 --unwindset BMPattern_initialize.0:17 --unwinding-assertions
//@ cbmc thorough --unwind 7 --unwindset BMPattern_initialize.0:17 --unwinding-assertions
//@ entry h_c11_bmpattern
//@ note B: bounded stand-in (never a proof of C11): every pattern of length 0..NP (3) and text of length 0..NT (quick 5, thorough 7) over the alphabet {a, A, b, U+0161, U+0160}: two letters with both cases, one of them beyond 255 so that the shift table (indexed modulo its length) sees colliding characters; ignoreCase on and off; every 0 <= start <= limit <= text length; shift table length TABLEN (quick 16 through the BMPattern(pattern, tableSize, ..) constructor's parameter, thorough the default 256)
//@ note checked: initialize() + matches() return the first index i >= start with text[i..i+len) equal to the pattern (character-wise equal, or equal after upper-casing when ignoreCase) and i+len <= limit, or -1 if there is none; all accesses inside the exact-size allocations
//@ note XMLString::upperCase / lowerCase (platform transcoding service) are replaced by a model: simple case pairs a/A and U+0161/U+0160, identity elsewhere; XMLString::replicate by an element-wise copy into a fresh block; janitors dropped
#define VERIF_DEFINE_GHOSTS
#include "verif_prelude.h"
//@ struct src/xercesc/util/regx/BMPattern.hpp BMPattern only=fIgnoreCase,fShiftTableLen,fShiftTable,fPattern,fUppercasePattern

/* allocation model: one static object per allocation, end-aligned (see contracts/RangeToken_c11.inc for the reasons) */
#define SLOT_BYTES (TABLEN * 8 > 64 ? TABLEN * 8 : 64)
struct slot { unsigned char b[SLOT_BYTES]; } __attribute__((aligned(8)));
struct slot SL0, SL1, SL2, SL3, SL4, SL5;
static unsigned slot_next;
static void *verif_alloc(size_t n)
{
  __CPROVER_assert(n <= SLOT_BYTES && n % 2 == 0 && slot_next < 6, "harness capacity: allocation fits the arena model");
  __CPROVER_assume(n <= SLOT_BYTES && n % 2 == 0 && slot_next < 6);
  struct slot *s = slot_next == 0 ? &SL0 : slot_next == 1 ? &SL1 : slot_next == 2 ? &SL2 : slot_next == 3 ? &SL3 : slot_next == 4 ? &SL4 : &SL5;
  slot_next++;
  return &s->b[SLOT_BYTES - n];
}
static XMLSize_t spec_len(const XMLCh *s) { XMLSize_t n = 0; while (s[n]) n++; return n; }
static XMLCh *verif_replicate(const XMLCh *s)
{
  XMLSize_t n = spec_len(s);
  XMLCh *r = (XMLCh *)verif_alloc((n + 1) * sizeof(XMLCh));
  for (XMLSize_t i = 0; i <= n; i++) r[i] = s[i];
  return r;
}
static XMLCh spec_upper(XMLCh c) { return c == 'a' ? 'A' : c == 0x161 ? 0x160 : c; }
static XMLCh spec_lower(XMLCh c) { return c == 'A' ? 'a' : c == 0x160 ? 0x161 : c; }
static void verif_upperCase(XMLCh *s) { for (; *s; s++) *s = spec_upper(*s); }
static void verif_lowerCase(XMLCh *s) { for (; *s; s++) *s = spec_lower(*s); }

/*@extract src/xercesc/util/XMLString.hpp XMLString::stringLen
params const XMLCh* const src
@*/
/*@extract src/xercesc/util/regx/BMPattern.cpp BMPattern::initialize
sub fMemoryManager->allocate\( => verif_alloc(
sub XMLString::replicate\(fPattern, fMemoryManager\) => verif_replicate(fPattern)
sub XMLString::upperCase => verif_upperCase
sub XMLString::lowerCase => verif_lowerCase
sub ArrayJanitor<XMLCh> janLowercase\([^;]*\); =>
@*/
/*@extract src/xercesc/util/regx/BMPattern.cpp BMPattern::matches
ret -1
sub XMLString::replicate\(content, fMemoryManager\) => verif_replicate(content)
sub XMLString::upperCase => verif_upperCase
sub ArrayJanitor<XMLCh> janUCContent\([^;]*\); =>
@*/

struct { XMLCh a[NP + 1]; } PAT;
struct { XMLCh a[NT + 1]; } TXT;
#define ALPHA(c) ((c) == 'a' || (c) == 'A' || (c) == 'b' || (c) == 0x161 || (c) == 0x160)

void h_c11_bmpattern(void)
{
  XMLSize_t np, nt, start, limit; _Bool ic;
  VERIF_INPUT(PAT); VERIF_INPUT(TXT); VERIF_INPUT(np); VERIF_INPUT(nt); VERIF_INPUT(start); VERIF_INPUT(limit); VERIF_INPUT(ic);
  VERIF_INPUT(SL0); VERIF_INPUT(SL1); VERIF_INPUT(SL2); VERIF_INPUT(SL3); VERIF_INPUT(SL4); VERIF_INPUT(SL5);
  VERIF_ASSUME(np <= NP && nt <= NT && start <= limit && limit <= nt);
  XMLCh *p = PAT.a + (NP - np), *t = TXT.a + (NT - nt);
  VERIF_ASSUME(p[np] == 0 && t[nt] == 0);
  for (XMLSize_t i = 0; i < NP; i++) VERIF_ASSUME(i >= np || ALPHA(p[i]));
  for (XMLSize_t i = 0; i < NT; i++) VERIF_ASSUME(i >= nt || ALPHA(t[i]));
  /* the object as the constructor builds it */
  fIgnoreCase = ic; fShiftTableLen = TABLEN; fShiftTable = 0; fUppercasePattern = 0;
  fPattern = verif_replicate(p);
  verif_thrown = 0;
  BMPattern_initialize();
  int r = BMPattern_matches(t, start, limit);
  VERIF_CANARY("after call");
  /* reference: first occurrence */
  int ref = -1;
  for (XMLSize_t i = start; i + np <= limit && ref < 0; i++) {
    int eq = 1;
    for (XMLSize_t k = 0; k < np; k++) {
      XMLCh x = t[i + k], y = p[k];
      if (!(x == y || (ic && spec_upper(x) == spec_upper(y)))) eq = 0;
    }
    if (eq) ref = (int)i;
  }
  __CPROVER_assert(!verif_thrown, "C11(bounded): BMPattern does not throw");
  __CPROVER_assert(r == ref, "C11(bounded): BMPattern::matches returns the first occurrence in [start, limit) or -1 (also with ignoreCase and with characters >= 256)");
}
