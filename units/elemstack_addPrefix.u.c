//@ unit elemstack_addPrefix
//@ props C06 C01
//@ kind P
//@ enforce ElemStack_addPrefix
//@ replace memcpy
//@ replace XMLStringPool_addOrFind
//@ cbmc all --unsigned-overflow-check
//@ entry h_elemstack_addPrefix
//@ note loop-free; every map capacity 0 or 4..2^40; the real body of expandMap is inlined (replacing it by its contract havocs the fMap pointer, and cbmc 6.11 then case-splits every later dereference over all objects: out of memory); memcpy is replaced by its C11 contract; XMLStringPool::addOrFind is contract-only (returns a non-zero id; ids injective on strings is an assumption about StringPool.cpp)
//@ note the heap shape is built by the harness: a stack array of 4 row pointers, fStackTop one of 0, 1, 3 (the body only touches fStack[fStackTop - 1]), rows are distinct objects, each with its own dynamic map array of arbitrary capacity; "every other entry of every row unchanged" is the assigns clause (only the top row's map members and map array are assignable)
#define VERIF_DEFINE_GHOSTS
#include "verif_prelude.h"
#include <stdlib.h>
//@ include ElemStack_ri.inc

/*@extract src/xercesc/internal/ElemStack.cpp ElemStack::expandMap
sub fMemoryManager->allocate => verif_alloc
sub fMemoryManager->deallocate => verif_free
@*/

/*@extract src/xercesc/internal/ElemStack.cpp ElemStack::addPrefix
sub fPrefixPool\.addOrFind => XMLStringPool_addOrFind
call expandMap => ElemStack_expandMap
contract
CONTRACT_addPrefix
@*/

struct { struct StackElem r[4]; } ROWS;
unsigned int URI; XMLCh PFX[2];
/* one concrete stack depth per call site: the body only touches fStack[fStackTop - 1] */
#define RUN_WITH_TOP(top) { \
  fStackTop = (top); \
  TOPROW = &ROWS.r[0]; \
  if ((top) != 0) { \
    struct StackElem *t = &ROWS.r[(top) - 1]; TOPROW = t; \
    VERIF_ASSUME(t->fMapCapacity <= VERIF_STK_MAX); \
    t->fMap = t->fMapCapacity ? malloc(t->fMapCapacity * sizeof(struct PrefMapElem)) : 0; \
    VERIF_ASSUME(t->fMapCapacity == 0 || t->fMap != 0); \
  } \
  ElemStack_addPrefix(PFX, URI); }

void h_elemstack_addPrefix(void)
{
  int depth;
  VERIF_INPUT(SELF); VERIF_INPUT(ROWS); VERIF_INPUT(G); VERIF_INPUT(NEXTSIZE); VERIF_INPUT(URI); VERIF_INPUT(depth);
  fStackCapacity = 4;
  fStack = malloc(4 * sizeof(struct StackElem *));
  VERIF_ASSUME(fStack != 0);
  fStack[0] = &ROWS.r[0]; fStack[1] = &ROWS.r[1]; fStack[2] = &ROWS.r[2]; fStack[3] = &ROWS.r[3];
  ROWS.r[0].fMap = 0; ROWS.r[1].fMap = 0; ROWS.r[2].fMap = 0; ROWS.r[3].fMap = 0;   /* rows other than the top one: arbitrary members, no map array */
  NEXTBUF = malloc(NEXTSIZE); NEXTUSED = 0;
  VERIF_ASSUME(NEXTBUF != 0);
  GW = G;
  PFX[0] = 'p'; PFX[1] = 0;
  verif_thrown = 0;
  if (depth == 0) RUN_WITH_TOP(0)
  else if (depth == 1) RUN_WITH_TOP(1)
  else RUN_WITH_TOP(3)
  VERIF_CANARY("after call");
}
