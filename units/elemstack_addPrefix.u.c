//@ unit elemstack_addPrefix
//@ props C06 C01
//@ kind P
//@ enforce ElemStack_addPrefix
//@ replace ElemStack_expandMap
//@ replace XMLStringPool_addOrFind
//@ cbmc all --unsigned-overflow-check
//@ entry h_elemstack_addPrefix
//@ note loop-free; every map capacity 0 or 4..2^40; expandMap is replaced by the contract proved in unit elemstack_expandMap; XMLStringPool::addOrFind is contract-only (returns a non-zero id; ids injective on strings is an assumption about StringPool.cpp)
//@ note the heap shape is built by the harness: a stack array of 4 row pointers, fStackTop in 0..4, rows are distinct objects, each with its own dynamic map array of arbitrary capacity; "every other entry of every row unchanged" is the assigns clause (only the top row's map members and map array are assignable)
#define VERIF_DEFINE_GHOSTS
#include "verif_prelude.h"
#include <stdlib.h>
//@ include ElemStack_ri.inc

/*@extract src/xercesc/internal/ElemStack.cpp ElemStack::expandMap
declonly
contract
CONTRACT_expandMap
@*/

/*@extract src/xercesc/internal/ElemStack.cpp ElemStack::addPrefix
sub fPrefixPool\.addOrFind => XMLStringPool_addOrFind
call expandMap => ElemStack_expandMap
contract
CONTRACT_addPrefix
@*/

struct { struct StackElem r[4]; } ROWS;
void h_elemstack_addPrefix(void)
{
  unsigned int uri; XMLCh pfx[2];
  VERIF_INPUT(SELF); VERIF_INPUT(ROWS); VERIF_INPUT(G); VERIF_INPUT(NEXTSIZE); VERIF_INPUT(uri);
  fStackCapacity = 4;
  fStack = malloc(4 * sizeof(struct StackElem *));
  VERIF_ASSUME(fStack != 0 && fStackTop <= 4);
  fStack[0] = &ROWS.r[0]; fStack[1] = &ROWS.r[1]; fStack[2] = &ROWS.r[2]; fStack[3] = &ROWS.r[3];
  /* the top row (if any) gets a real map array; the other rows are never touched (frame) */
  if (fStackTop != 0) {
    struct StackElem *top = fStack[fStackTop - 1];
    VERIF_ASSUME(top->fMapCapacity <= VERIF_STK_MAX);
    top->fMap = top->fMapCapacity ? malloc(top->fMapCapacity * sizeof(struct PrefMapElem)) : 0;
    VERIF_ASSUME(top->fMapCapacity == 0 || top->fMap != 0);
  }
  NEXTBUF = malloc(NEXTSIZE); NEXTUSED = 0;
  VERIF_ASSUME(NEXTBUF != 0);
  GW = G;
  pfx[0] = 'p'; pfx[1] = 0;
  verif_thrown = 0;
  ElemStack_addPrefix(pfx, uri);
  VERIF_CANARY("after call");
}
