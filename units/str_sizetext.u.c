//@ unit str_sizetext
//@ props C01
//@ kind P
//@ def quick BTN=8
//@ def thorough BTN=24
//@ enforce XMLString_sizeToText
//@ entry h_str_sizetext
//@ note ND (digit count) is a harness-chosen witness pinned by the precondition (two shifts, or two comparisons with the power-of-ten table): every value has exactly one such ND, so nothing is lost
//@ note P: iterations unbounded through loop contracts; every XMLSize_t value (sizeToText: same text as binToText(unsigned long)), every radix, every maxChars <= BTN (thorough: 24 covers every octal (22), decimal (20) and hex (16) result; longer binary results take the does-not-fit path); the target buffer has exactly the documented maxChars+1 elements, END-aligned
//@ note radix 2/8/16: the complete output (digit count, every digit, terminator) is specified through shifts; radix 10: exact digit count (witness ND against a power-of-ten table: one division by ten removes one digit), digit characters and terminator here; the decimal digit VALUES are compared with the value in str_bintext_w (toFormat / 10^k as a loop invariant does not go through SAT)
#define VERIF_DEFINE_GHOSTS
#include "verif_prelude.h"
XMLSize_t G;
//@ include str_bintext_defs.inc

/*@extract src/xercesc/util/XMLString.cpp XMLString::sizeToText
as XMLString_sizeToText
params const XMLSize_t toFormat , XMLCh* const toFill
contract
//@ include str_binToTextUL.contract.inc
//@ include str_binToTextUL.loops.inc
@*/

struct { XMLCh a[BTN + 1]; } OUT;
void h_str_sizetext(void)
{
  XMLSize_t v; XMLSize_t maxChars; unsigned int radix;
  VERIF_INPUT(OUT); VERIF_INPUT(G); VERIF_INPUT(v); VERIF_INPUT(maxChars); VERIF_INPUT(radix); VERIF_INPUT(ND);
  VERIF_ASSUME(maxChars <= BTN);
  verif_thrown = 0;
  XMLString_sizeToText(v, OUT.a + (BTN + 1 - (maxChars + 1)), maxChars, radix, (MemoryManager *)0);
  VERIF_CANARY("after binToText");
  if (!verif_thrown && radix == 16 && v > 0xFFFF) VERIF_CANARY("binToText: hex with several digits reachable");
  if (!verif_thrown && radix == 10 && v > 99) VERIF_CANARY("binToText: decimal with several digits reachable");
  if (verif_thrown && radix == 8 && maxChars > 0) VERIF_CANARY("binToText: result does not fit reachable");
}
