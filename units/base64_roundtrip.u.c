//@ unit base64_roundtrip
//@ props C09 C01
//@ kind B
//@ def quick NX=3
//@ def thorough NX=7
//@ cbmc quick --unwind 8 --unwinding-assertions
//@ cbmc thorough --unwind 16 --unwinding-assertions
//@ entry h_base64_roundtrip
//@ note B: bounded stand-in -- every octet string x of length 1..NX (quick 3 = each padding shape and one full group, thorough 7 = two groups plus each padding shape): decode(encode(x)) == x with the default conformance mode (Conf_RFC2045; encode() ends every line with #xA, which only that mode skips), encode(x) is a base64Binary literal per the specification decoder (spec_base64_decode) denoting x, terminated, inside its allocation. A stand-in because line wrapping (quadsPerLine = 15 groups) is out of reach of these lengths.
//@ note allocation model as in base64_decode (verif_alloc: fresh object of exactly n bytes, never fails; frees and janitors dropped)
#define VERIF_DEFINE_GHOSTS
#include <stdlib.h>
#include "verif_prelude.h"
#include "xsd_lexical.h"
//@ enum src/xercesc/util/Base64.hpp Conformance - scope=Base64
//@ table src/xercesc/util/Base64.cpp BASELENGTH asenum
//@ table src/xercesc/util/Base64.cpp FOURBYTE asenum
//@ table src/xercesc/util/Base64.cpp quadsPerLine asenum
//@ table src/xercesc/util/Base64.cpp base64Inverse
//@ table src/xercesc/util/Base64.cpp base64Alphabet
//@ table src/xercesc/util/Base64.cpp base64Padding
typedef int Conformance;

static void *verif_alloc(size_t n) { void *p = malloc(n); __CPROVER_assume(p != 0); return p; }

/*@extract src/xercesc/util/Base64.hpp Base64::split1stOctet
constref-byvalue
@*/
/*@extract src/xercesc/util/Base64.hpp Base64::split2ndOctet
constref-byvalue
@*/
/*@extract src/xercesc/util/Base64.hpp Base64::split3rdOctet
constref-byvalue
@*/
/*@extract src/xercesc/util/Base64.cpp Base64::encode
call split1stOctet => Base64_split1stOctet
call split2ndOctet => Base64_split2ndOctet
call split3rdOctet => Base64_split3rdOctet
sub std::numeric_limits<size_t>::max\(\) => SIZE_MAX
sub getExternalMemory\(memMgr, => verif_alloc(
@*/
/*@extract src/xercesc/util/Base64.cpp Base64::isData
constref-byvalue
@*/
/*@extract src/xercesc/util/Base64.hpp Base64::isPad
constref-byvalue
@*/
/*@extract src/xercesc/util/Base64.hpp Base64::set1stOctet
constref-byvalue
@*/
/*@extract src/xercesc/util/Base64.hpp Base64::set2ndOctet
constref-byvalue
@*/
/*@extract src/xercesc/util/Base64.hpp Base64::set3rdOctet
constref-byvalue
@*/
/*@extract src/xercesc/util/Base64.cpp Base64::decode
params XMLByte*& canRepData
call isData => Base64_isData
call isPad => Base64_isPad
call set1stOctet => Base64_set1stOctet
call set2ndOctet => Base64_set2ndOctet
call set3rdOctet => Base64_set3rdOctet
sub XMLString::stringLen\( \(const char\*\)inputData \) => strlen((const char*)inputData)
sub getExternalMemory\(memMgr, => verif_alloc(
sub returnExternalMemory\(memMgr, decodedData\); =>
sub ArrayJanitor<XMLByte> jan\([^;]*\); =>
sub jan\.release\(\); =>
sub XMLChar1_0::isWhitespace => SPEC_IS_XMLWS
@*/


#define NE (4 * ((NX + 2) / 3) + 2)     /* longest encoding: groups + one line feed + terminator */

void h_base64_roundtrip(void)
{
  struct { XMLByte a[NX]; } X;
  XMLSize_t n, elen = 0, dlen = 12345;
  XMLByte *can = 0;
  VERIF_INPUT(X); VERIF_INPUT(n);
  VERIF_ASSUME(n >= 1 && n <= NX);
  XMLByte *x = X.a + (NX - n);
  verif_thrown = 0;
  XMLByte *e = Base64_encode(x, n, &elen, 0);
  __CPROVER_assert(e != 0 && !verif_thrown, "C09: Base64::encode succeeds on a non-empty octet string");
  if (e == 0) return;
  __CPROVER_assert(elen == 4 * ((n + 2) / 3) + 1 && e[elen] == 0 && e[elen - 1] == 0x0A, "C09: Base64::encode: 4 characters per 3 octets, one line feed, terminated");
  /* the encoding denotes x according to the specification decoder */
  uint16_t w[NE], cref[NE]; uint8_t oref[NE]; size_t on, cn;
  for (XMLSize_t i = 0; i < elen && i < NE; i++) w[i] = e[i];
  int ok = spec_base64_decode(w, elen, 0, oref, &on, cref, &cn);
  __CPROVER_assert(ok && on == n, "C09: Base64::encode yields a base64Binary literal (canonical pad bits zero) of the right length");
  for (size_t k = 0; k < n && k < on; k++) __CPROVER_assert(oref[k] == x[k], "C09: Base64::encode: the literal denotes the input octets (RFC 2045)");
  XMLByte *d = Base64_decode(e, &dlen, &can, 0, Conf_RFC2045);
  VERIF_CANARY("after call");
  __CPROVER_assert(d != 0 && dlen == n, "C09: decode(encode(x)) succeeds with the length of x");
  if (d != 0) for (size_t k = 0; k < n; k++) __CPROVER_assert(d[k] == x[k], "C09: decode(encode(x)) == x");
}
