//@ unit rmgr_lastext_w
//@ props C03 C01
//@ kind W
//@ def all NSTK=3
//@ cbmc all --unwind 6 --unwinding-assertions
//@ entry h_lastext
//@ note ReaderMgr::getLastExtEntity (the reader whose line/column a Locator reports): complete for reader stacks of <= NSTK entries
//@ note stubs: RefStackOf<ReaderData> is a small array of (reader id, entity pointer); XMLEntityDecl::isExternal is a field of the harness entity
#define VERIF_DEFINE_GHOSTS
#include "verif_prelude.h"
struct XMLReader { int id; }; typedef struct XMLReader XMLReader;
struct XMLEntityDecl { _Bool external; }; typedef struct XMLEntityDecl XMLEntityDecl;
struct ReaderData { XMLReader *reader; XMLEntityDecl *entity; };
XMLReader RDR[NSTK + 1]; XMLEntityDecl ENT[NSTK + 1]; struct ReaderData STK[NSTK], CUR;
XMLSize_t STK_COUNT; _Bool HAVE_CUR;
XMLReader *fCurReader; struct ReaderData *fCurReaderData;
static XMLSize_t RS_size(void) { return STK_COUNT; }
static struct ReaderData* RS_elementAt(XMLSize_t i) { __CPROVER_assert(i < STK_COUNT, "C01: reader stack index in range"); return &STK[i < NSTK ? i : 0]; }
static const XMLEntityDecl* RD_getEntity(const struct ReaderData *d) { return d->entity; }
static const XMLReader* RD_getReader(const struct ReaderData *d) { return d->reader; }
static bool ED_isExternal(const XMLEntityDecl *e) { return e->external; }

/*@extract src/xercesc/internal/ReaderMgr.cpp ReaderMgr::getLastExtEntity
sub fReaderStack->size\(\) => RS_size()
sub fReaderStack->elementAt\(index\) => RS_elementAt(index)
sub* (\w+|RS_elementAt\(index\))->getEntity\(\) => RD_getEntity(\1)
sub* (\w+|RS_elementAt\(index\))->getReader\s*\(\) => RD_getReader(\1)
sub* (\w+)->isExternal\(\) => ED_isExternal(\1)
@*/

/* spec: the position reported for an event inside internal entities is that of the innermost reader that reads an external
   entity (or the document entity, which has no entity declaration), i.e. the nearest stack entry from the top whose entity is
   null or external; if there is none the current reader is kept */
void h_lastext(void)
{
  VERIF_INPUT(STK_COUNT); VERIF_INPUT(HAVE_CUR);
  VERIF_ASSUME(STK_COUNT <= NSTK);
  for (int k = 0; k <= NSTK; k++) { RDR[k].id = k; VERIF_INPUT(ENT[k]); }
  for (int k = 0; k < NSTK; k++) { _Bool has; VERIF_INPUT(has); STK[k].reader = &RDR[k]; STK[k].entity = has ? &ENT[k] : (XMLEntityDecl*)0; }
  _Bool curHas; VERIF_INPUT(curHas);
  CUR.reader = &RDR[NSTK]; CUR.entity = curHas ? &ENT[NSTK] : (XMLEntityDecl*)0;
  fCurReader = &RDR[NSTK]; fCurReaderData = HAVE_CUR ? &CUR : (struct ReaderData*)0;
  verif_thrown = 0;
  const XMLEntityDecl *its = &ENT[0];
  const XMLReader *r = ReaderMgr_getLastExtEntity(&its);
  VERIF_CANARY("after call");
  /* reference */
  const XMLReader *expR = &RDR[NSTK]; const XMLEntityDecl *expE = HAVE_CUR ? CUR.entity : (XMLEntityDecl*)0;
  if (expE && !expE->external) {
    for (int k = NSTK - 1; k >= 0; k--) if ((XMLSize_t)k < STK_COUNT) {
      expE = STK[k].entity;
      if (!expE || expE->external) { expR = STK[k].reader; break; }
    }
  }
  __CPROVER_assert(r == expR, "C03: the reader used for line/column is the innermost one reading an external (or the document) entity");
  __CPROVER_assert(its == expE, "C03: the entity reported with it is that reader's entity");
}
