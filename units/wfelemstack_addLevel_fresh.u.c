//@ unit wfelemstack_addLevel_fresh
//@ props C01 C02
//@ kind W
//@ def all WF_CAP=4 NMAX=4
//@ cbmc all --unwind 42 --unwinding-assertions
//@ entry h_wfelemstack_addLevel_fresh
//@ note W: WFElemStack::addLevel() and addLevel(name, length, readerNum) + the real expandStack and XMLString::moveChars: per-level state of the NEW top element when the row is created now or RECYCLED from an earlier, popped element of the same depth holding ARBITRARY old values; every stack depth 0..WF_CAP (WF_CAP = 4: the push at depth 4 grows the array), element names of length 1..NMAX = 4 with any content, old name buffer of any capacity 0..NMAX; memcpy / memmove / memset are byte loops written in the unit (cbmc's built-ins lose content for symbolic sizes), fully unwound
//@ note obligation (XML 1.0 3 WFC Element Type Match: "The Name in an element's end-tag must match the element type in the start-tag" -- the end-tag scanner compares against the name stored here; Namespaces in XML 6.1: a namespace declaration scopes over the element it is on and its descendants, so a child starts with exactly its parent's bindings in scope and a root with none): the new top row holds a NUL-terminated copy of the given name, the reader (entity) number of the start tag, namespace unknown, and fTopPrefix = the parent's fTopPrefix (-1 at the root) whatever the recycled row held
//@ note the name buffer grows only (fElemMaxLength = characters it can hold besides the NUL): reused when long enough, else released once and replaced by one of exactly length + 1 characters; the no-argument form keeps the row's buffer (setElement fills it later)
//@ note precondition length >= 1 (XML 1.0 [5] Name is not empty): addLevel(name, 0, rd) on a row without a name buffer (new, or recycled after the no-argument form) would memmove the terminator to a null pointer (0 > fElemMaxLength == 0 is false, nothing is allocated); latent only: WFElemStack has no user in /repo (WFXMLScanner uses ElemStack)
//@ note allocation model: fMemoryManager->allocate hands out the harness-prepared array for the stack and an END-aligned slice of a (NMAX+1)-character pool for the name (an overrun leaves the object); deallocate records its argument; stack capacity is the constant WF_CAP (growth arithmetic over symbolic capacities: see elemstack_expandStack for the identical ElemStack code)
#define VERIF_DEFINE_GHOSTS
#include "verif_prelude.h"
//@ struct src/xercesc/internal/ElemStack.hpp StackElem scope=WFElemStack self=none
//@ struct src/xercesc/internal/ElemStack.hpp WFElemStack structs=StackElem only=fStack,fStackCapacity,fStackTop,fUnknownNamespaceId,fMemoryManager
typedef struct StackElem StackElem;

/* C11 7.24.2.1 / 7.24.2.2 / 7.24.6.1 as byte loops (every use here has non-overlapping operands) */
void *memcpy(void *d, const void *s, size_t n) { unsigned char *dd = d; const unsigned char *ss = s; for (size_t i = 0; i < n; i++) dd[i] = ss[i]; return d; }
void *memmove(void *d, const void *s, size_t n) { unsigned char *dd = d; const unsigned char *ss = s; for (size_t i = 0; i < n; i++) dd[i] = ss[i]; return d; }
void *memset(void *d, int c, size_t n) { unsigned char *dd = d; for (size_t i = 0; i < n; i++) dd[i] = (unsigned char)c; return d; }

struct { struct StackElem *a[WF_CAP]; } STK0;                     /* the stack array before the call */
struct { struct StackElem *a[WF_CAP + WF_CAP / 4]; } STK1;        /* what expandStack may allocate: (XMLSize_t)(WF_CAP * 1.25) entries */
struct { XMLCh a[NMAX + 1]; } NAMEPOOL, OLDNAME, SRC;
struct StackElem ROW_PARENT, ROW_OLD, ROW_NEW;
int N_ALLOC_STACK, N_ALLOC_NAME, N_NEWROW, N_FREE, ALLOC_BAD; void *FREED[2]; XMLSize_t NAME_ALLOC_CHARS;
static void *verif_alloc(size_t n)
{
  if (n == sizeof(STK1.a) && !N_ALLOC_STACK && fStackTop == fStackCapacity) { N_ALLOC_STACK++; return STK1.a; }    /* only expandStack asks for this size (the name pool is smaller) */
  _Static_assert(sizeof(STK1.a) > sizeof(NAMEPOOL.a), "sizes tell the two requests apart");
  if (n < sizeof(XMLCh) || n > sizeof(NAMEPOOL.a) || (n % sizeof(XMLCh)) != 0 || N_ALLOC_NAME) { ALLOC_BAD = 1; __CPROVER_assume(0); }
  N_ALLOC_NAME++; NAME_ALLOC_CHARS = n / sizeof(XMLCh);
  return NAMEPOOL.a + ((NMAX + 1) - n / sizeof(XMLCh));
}
static void verif_free(void *p) { if (N_FREE < 2) FREED[N_FREE] = p; N_FREE++; }
static struct StackElem *verif_new_row(void) { N_NEWROW++; return &ROW_NEW; }

/*@extract src/xercesc/util/XMLString.hpp XMLString::moveChars
@*/
/*@extract src/xercesc/internal/ElemStack.cpp WFElemStack::expandStack
sub fMemoryManager->allocate => verif_alloc
sub fMemoryManager->deallocate => verif_free
@*/
/*@extract src/xercesc/internal/ElemStack.cpp WFElemStack::addLevel
pick 1
call expandStack => WFElemStack_expandStack
sub new \(fMemoryManager\) StackElem => verif_new_row()
@*/
/*@extract src/xercesc/internal/ElemStack.cpp WFElemStack::addLevel
pick 2
as WFElemStack_addLevel_name
call expandStack => WFElemStack_expandStack
sub new \(fMemoryManager\) StackElem => verif_new_row()
sub* fMemoryManager->allocate => verif_alloc
sub* fMemoryManager->deallocate => verif_free
@*/

void h_wfelemstack_addLevel_fresh(void)
{
  int op; _Bool recycled, has_buf; unsigned len, rd, oldcap; XMLSize_t G;
  VERIF_INPUT(SELF); VERIF_INPUT(ROW_PARENT); VERIF_INPUT(ROW_OLD); VERIF_INPUT(ROW_NEW); VERIF_INPUT(NAMEPOOL); VERIF_INPUT(OLDNAME); VERIF_INPUT(SRC); VERIF_INPUT(STK1);
  VERIF_INPUT(op); VERIF_INPUT(recycled); VERIF_INPUT(has_buf); VERIF_INPUT(len); VERIF_INPUT(rd); VERIF_INPUT(oldcap); VERIF_INPUT(G);
  VERIF_ASSUME(len >= 1 && len <= NMAX && oldcap <= NMAX && G <= len);      /* an element name is an XML Name: not empty */
  fStackCapacity = WF_CAP; fStack = STK0.a;
  VERIF_ASSUME(fStackTop <= WF_CAP);
  const XMLSize_t top0 = fStackTop; const unsigned unk = fUnknownNamespaceId;
  /* rows below the top: all the parent row (only the one directly below matters); the slot to be used: recycled row or null; above: null */
  for (XMLSize_t k = 0; k < WF_CAP; k++) STK0.a[k] = (k < top0) ? &ROW_PARENT : (k == top0 && recycled) ? &ROW_OLD : (struct StackElem *)0;
  const int reuse = (top0 < WF_CAP && recycled);
  /* the recycled row's name buffer: none (capacity 0) or an end-aligned buffer of oldcap + 1 characters */
  ROW_OLD.fThisElement = has_buf ? OLDNAME.a + (NMAX - oldcap) : (XMLCh *)0; ROW_OLD.fElemMaxLength = has_buf ? oldcap : 0;
  const struct StackElem OLD0 = ROW_OLD, PAR0 = ROW_PARENT;
  XMLCh *src = SRC.a + (NMAX - len);
  VERIF_ASSUME(src[len] == 0);
  N_ALLOC_STACK = N_ALLOC_NAME = N_NEWROW = N_FREE = ALLOC_BAD = 0; verif_thrown = 0;
  XMLSize_t r;
  if (op == 1) r = WFElemStack_addLevel(); else r = WFElemStack_addLevel_name(src, len, rd);
  VERIF_CANARY("after call");
  if (reuse && has_buf && oldcap < len && op != 1) VERIF_CANARY("recycled row, name buffer too short reachable");
  if (reuse && has_buf && oldcap >= len && op != 1) VERIF_CANARY("recycled row, name buffer reused reachable");
  if (top0 == WF_CAP) VERIF_CANARY("grown stack reachable");
  if (!reuse && op != 1) VERIF_CANARY("new row reachable");
  __CPROVER_assert(!verif_thrown && !ALLOC_BAD && r == top0 && fStackTop == top0 + 1, "C01: exactly one level is pushed, its index is returned");
  __CPROVER_assert(top0 == WF_CAP ? (fStack == STK1.a && fStackCapacity == WF_CAP + WF_CAP / 4 && N_ALLOC_STACK == 1) : (fStack == STK0.a && fStackCapacity == WF_CAP && N_ALLOC_STACK == 0), "C01: the stack array grows exactly when it is full");
  const struct StackElem *t = fStack[top0];
  __CPROVER_assert(t == (reuse ? &ROW_OLD : &ROW_NEW) && N_NEWROW == (reuse ? 0 : 1), "C01: the new top row is the recycled row of that depth, or a new one");
  __CPROVER_assert(top0 == 0 || fStack[top0 - 1] == &ROW_PARENT, "C01: the rows below keep their place");
  __CPROVER_assert(t->fCurrentURI == unk, "C02: the namespace of the new element is unknown until its name is resolved");
  __CPROVER_assert(t->fTopPrefix == (top0 ? PAR0.fTopPrefix : -1), "C02: the new element starts with exactly its parent's namespace bindings in scope (none at the root), whatever the recycled row held");
  __CPROVER_assert(ROW_PARENT.fTopPrefix == PAR0.fTopPrefix && ROW_PARENT.fCurrentURI == PAR0.fCurrentURI && ROW_PARENT.fReaderNum == PAR0.fReaderNum && ROW_PARENT.fThisElement == PAR0.fThisElement && ROW_PARENT.fElemMaxLength == PAR0.fElemMaxLength, "C01: the parent row is not modified");
  if (op == 1) {
    __CPROVER_assert(t->fReaderNum == 0xFFFFFFFF, "C02: addLevel(): reader number 0xFFFFFFFF");
    __CPROVER_assert(reuse ? (t->fThisElement == OLD0.fThisElement && t->fElemMaxLength == OLD0.fElemMaxLength) : (t->fThisElement == 0 && t->fElemMaxLength == 0), "C01: addLevel(): a recycled row keeps its name buffer and capacity, a new row has none");
    __CPROVER_assert(N_ALLOC_NAME == 0 && N_FREE == (top0 == WF_CAP ? 1 : 0), "C01: addLevel(): no name buffer is allocated or released");
  } else {
    const unsigned cap0 = reuse ? OLD0.fElemMaxLength : 0;
    __CPROVER_assert(t->fReaderNum == rd, "C02: the reader (entity) number of the start tag is recorded (WFC Element Type Match / entity nesting is judged against it)");
    __CPROVER_assert(t->fThisElement != 0 && t->fThisElement[G] == src[G] && t->fThisElement[len] == 0, "C02: the row holds a NUL-terminated copy of the element name (WFC Element Type Match compares the end-tag name with it)");
    __CPROVER_assert(t->fElemMaxLength == (len > cap0 ? len : cap0), "C01: the recorded capacity of the name buffer is the larger of the old one and the new length");
    if (len > cap0) {
      __CPROVER_assert(N_ALLOC_NAME == 1 && NAME_ALLOC_CHARS == (XMLSize_t)len + 1 && t->fThisElement == NAMEPOOL.a + (NMAX - len), "C01: a too short name buffer is replaced by one of length + 1 characters");
      __CPROVER_assert(N_FREE == 1 + (top0 == WF_CAP ? 1 : 0) && (FREED[top0 == WF_CAP ? 1 : 0] == (reuse ? (void *)OLD0.fThisElement : (void *)0)), "C01: ... and the old one (null on a new row) is released exactly once");
    } else {
      __CPROVER_assert(N_ALLOC_NAME == 0 && t->fThisElement == OLD0.fThisElement && N_FREE == (top0 == WF_CAP ? 1 : 0), "C01: a long enough name buffer is reused, nothing is allocated or released");
    }
  }
  if (top0 == WF_CAP) __CPROVER_assert(FREED[0] == (void *)STK0.a, "C01: the old stack array is released when the stack grows");
}
