//@ unit latin1_w
//@ props C05 C01 C04
//@ kind W
//@ def quick NB=4 MC=4
//@ def thorough NB=6 MC=6
//@ def all SB_LIMIT=256 SB_FROM=XML88591Transcoder_transcodeFrom SB_TO=XML88591Transcoder_transcodeTo SB_CAN=XML88591Transcoder_canTranscodeTo
//@ cbmc all --unwind 8 --unwinding-assertions
//@ entry h_sbcs_w
//@ note W: complete for every byte / unit string of length <= NB, every maxChars / maxBytes <= MC, both UnRepOpts, every 32-bit argument of canTranscodeTo (loops fully unwound, unwinding assertions on); unbounded lengths: units latin1_from, latin1_to (P)
//@ note spec: ISO/IEC 8859-1 is the identity onto U+0000..U+00FF (Unicode ch. 2.5 / the Latin-1 block definition); harness shared with ascii_w (contracts/sbcs_w_harness.inc)
//@ note XMLString::binToText (exception message text only), getMemoryManager() and getEncodingName() are dropped
#define VERIF_DEFINE_GHOSTS
#include "verif_prelude.h"

typedef int UnRepOpts;
//@ enum src/xercesc/util/TransService.hpp UnRepOpts - scope=XMLTranscoder

/*@extract src/xercesc/util/XML88591Transcoder.cpp XML88591Transcoder::transcodeFrom
@*/

/*@extract src/xercesc/util/XML88591Transcoder.cpp XML88591Transcoder::transcodeTo
sub XMLString::binToText\s*\([^;]*\)\s*; =>
@*/

/*@extract src/xercesc/util/XML88591Transcoder.cpp XML88591Transcoder::canTranscodeTo
@*/

//@ include sbcs_w_harness.inc
