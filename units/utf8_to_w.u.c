//@ unit utf8_to_w
//@ props C05 C01
//@ kind W
//@ def quick NS=3 MB=8
//@ def thorough NS=4 MB=10
//@ cbmc all --unwind 6 --unwinding-assertions
//@ entry h_utf8_to_w
//@ note W: complete for every string of <= NS UTF-16 code units, every maxBytes <= MB and both UnRepOpts (loops fully unwound, unwinding assertions on); the step to longer blocks rests on the loop body reading only srcPtr[0..1] and the two cursors (argued in DESIGN, not machine-checked)
//@ note the functional claim (exact bytes, exact charsEaten) is made for well-formed UTF-16 (D91) up to the first ill-formed unit; for ill-formed input only memory safety and T_iface are claimed
//@ note XMLString::binToText (fills the exception message text only), getMemoryManager() and getEncodingName() are dropped
#define VERIF_DEFINE_GHOSTS
#include "verif_prelude.h"
#include "unicode.h"

typedef int UnRepOpts;
//@ enum src/xercesc/util/TransService.hpp UnRepOpts - scope=XMLTranscoder
//@ table src/xercesc/util/XMLUTF8Transcoder.cpp gFirstByteMark

/*@extract src/xercesc/util/XMLUTF8Transcoder.cpp XMLUTF8Transcoder::transcodeTo
sub XMLString::binToText\s*\([^;]*\)\s*; =>
@*/

struct { XMLCh a[NS]; } SRC;
struct { XMLByte a[MB]; } OUT;

void h_utf8_to_w(void)
{
  XMLSize_t n, m, eaten = 0;
  int opt;
  VERIF_INPUT(n); VERIF_INPUT(m); VERIF_INPUT(opt); VERIF_INPUT(SRC);   /* all unit strings */
  VERIF_ASSUME(n <= NS && m <= MB && (opt == UnRep_Throw || opt == UnRep_RepChar));
  XMLCh *src = SRC.a + (NS - n);          /* end-aligned: reading past srcEnd leaves the object */
  XMLByte *out = OUT.a + (MB - m);        /* end-aligned: writing past maxBytes leaves the object */
  verif_thrown = 0;

  XMLSize_t r = XMLUTF8Transcoder_transcodeTo(src, n, out, m, &eaten, opt);
  VERIF_CANARY("after call");

  /* reference encoding: D91 pairing, then Table 3-6 */
  XMLSize_t i = 0, o = 0;
  int stop = 0;          /* 1: must stop here (deferred lead / does not fit); 2: ill-formed UTF-16 at i */
  if (n == 0 || m == 0) stop = 1;
  while (i < n && !stop) {
    uint32_t cp = src[i];
    XMLSize_t used = 1;
    if (spec_is_trail(cp)) { stop = 2; break; }
    if (spec_is_lead(cp)) {
      if (i + 1 >= n) { stop = 1; break; }              /* lead at the very end of the block: deferred */
      if (!spec_is_trail(src[i + 1])) { stop = 2; break; }
      cp = spec_pair_to_cp(cp, src[i + 1]);
      used = 2;
    }
    uint8_t e[4];
    int L = spec_utf8_encode(cp, e);
    if (o + (XMLSize_t)L > m) { stop = 1; break; }      /* does not fit: left for the next call */
    if (!verif_thrown) {
      __CPROVER_assert(r >= o + (XMLSize_t)L, "C05: every scalar of the well-formed prefix that fits is encoded");
      if (r >= o + (XMLSize_t)L) {
        __CPROVER_assert(out[o] == e[0], "C05: UTF-8 byte 1 per Table 3-6");
        if (L >= 2) __CPROVER_assert(out[o + 1] == e[1], "C05: UTF-8 byte 2 per Table 3-6");
        if (L >= 3) __CPROVER_assert(out[o + 2] == e[2], "C05: UTF-8 byte 3 per Table 3-6");
        if (L >= 4) __CPROVER_assert(out[o + 3] == e[3], "C05: UTF-8 byte 4 per Table 3-6");
      }
    }
    o += (XMLSize_t)L;
    i += used;
  }
  if (stop != 2) {
    __CPROVER_assert(!verif_thrown, "C05: well-formed UTF-16 is always representable in UTF-8 (no exception)");
    __CPROVER_assert(r == o, "C05: exactly the spec bytes are produced, nothing more");
    __CPROVER_assert(eaten == i, "C05: charsEaten counts whole scalars only; a lead surrogate at the block end or a scalar that does not fit is deferred");
  }
  __CPROVER_assert(verif_thrown || (r <= m && eaten <= n), "C01: T_iface bounds (never more than maxBytes, never more than srcCount)");
  if (verif_thrown)
    __CPROVER_assert(opt == UnRep_Throw && verif_throw_type == VT_TranscodingException && verif_throw_code == XMLExcepts_Trans_Unrepresentable,
                     "C05: the only exception is the unrepresentable-character report, and only under UnRep_Throw");
}
