//@ unit rmgr_ownership_w
//@ props C01 C02
//@ kind W
//@ def all NSTK=2 NNAME=2
//@ cbmc all --unwind 5 --unwinding-assertions
//@ entry h_rmgr
//@ note W: complete for reader stacks of <= NSTK entries and entity names of <= NNAME characters
//@ note ownership model (trusted stubs): `delete p` records which harness object was freed; RefStackOf<ReaderData> is a small array; XMLEntityDecl::getName returns the name array of the harness object; XMLString::equals is a local loop; `new ReaderData(...)` fills a harness record
#define VERIF_DEFINE_GHOSTS
#include "verif_prelude.h"
struct XMLReader { char o; }; typedef struct XMLReader XMLReader;
struct XMLEntityDecl { XMLCh name[NNAME + 1]; XMLSize_t id; /* pool id: general and parameter entities live in separate pools, so ids of different entities may coincide */ }; typedef struct XMLEntityDecl XMLEntityDecl;
struct ReaderData { XMLReader *fReader; XMLEntityDecl *fEntity; bool fEntityAdopted; };
typedef struct ReaderData ReaderMgr_ReaderData;
XMLReader READER; XMLEntityDecl ENTITY, STK_ENT[NSTK]; struct ReaderData STK[NSTK], CUR, NEWDATA;
XMLSize_t STK_COUNT; _Bool HAVE_STACK, STACK_CREATED; int PUSHED, NEW_MADE;
int READER_FREED, ENTITY_FREED, OTHER_FREED;
static void OWN_delete(const void *p) { if (!p) return; if (p == (const void*)&READER) READER_FREED++; else if (p == (const void*)&ENTITY) ENTITY_FREED++; else OTHER_FREED++; }
static const XMLCh* ED_getName(const XMLEntityDecl *e) { return e->name; }
static XMLSize_t ED_getId(const XMLEntityDecl *e) { return e->id; }
static bool ST_equals(const XMLCh *a, const XMLCh *b) { for (int k = 0; k < NNAME + 1; k++) { if (a[k] != b[k]) return false; if (!a[k]) return true; } return true; }
static XMLSize_t RS_size(void) { return STK_COUNT; }
static const XMLEntityDecl* RS_entityAt(XMLSize_t i) { return STK[i].fEntity; }
static void* RS_new(void) { STACK_CREATED = 1; return (void*)&STK; }
static void RS_push(struct ReaderData *d) { PUSHED++; }
static struct ReaderData* RDATA_new(XMLReader *r, XMLEntityDecl *e, bool adopt) { NEW_MADE++; NEWDATA.fReader = r; NEWDATA.fEntity = e; NEWDATA.fEntityAdopted = adopt; return &NEWDATA; }
void *fReaderStack; struct ReaderData *fCurReaderData; XMLReader *fCurReader;

/*@extract src/xercesc/internal/ReaderMgr.cpp ReaderMgr::pushReaderAdoptEntity
ret false
sub fReaderStack->size\(\) => RS_size()
sub fReaderStack->elementAt\(index\)->getEntity\(\) => RS_entityAt(index)
sub* (\w+)->getName\(\) => ED_getName(\1)
sub* (\w+)->getId\(\) => ED_getId(\1)
sub* XMLString::equals\( => ST_equals(
sub delete reader; => OWN_delete(reader);
sub* delete entity; => OWN_delete(entity);
sub new \(fMemoryManager\) RefStackOf<ReaderData>\(16, true, fMemoryManager\) => RS_new()
sub fReaderStack->push\(fCurReaderData\) => RS_push(fCurReaderData)
sub new \(fMemoryManager\) ReaderData\(reader, entity, adoptEntity\) => RDATA_new(reader, entity, adoptEntity)
@*/

#define fReader (DTOR_SELF.fReader)
#define fEntity (DTOR_SELF.fEntity)
#define fEntityAdopted (DTOR_SELF.fEntityAdopted)
struct ReaderData DTOR_SELF;
/*@extract src/xercesc/internal/ReaderMgr.cpp ReaderMgr::ReaderData::~ReaderData
as RDATA_dtor
sub delete fReader; => OWN_delete(fReader);
sub* delete fEntity; => OWN_delete(fEntity);
@*/
#undef fReader
#undef fEntity
#undef fEntityAdopted

void h_rmgr(void)
{
  _Bool adopt, have_entity, do_dtor, have_cur;
  VERIF_INPUT(ENTITY); VERIF_INPUT(STK_COUNT); VERIF_INPUT(HAVE_STACK); VERIF_INPUT(adopt); VERIF_INPUT(have_entity); VERIF_INPUT(do_dtor); VERIF_INPUT(have_cur);
  VERIF_ASSUME(STK_COUNT <= NSTK); ENTITY.name[NNAME] = 0;
  int recursive = 0;
  for (int k = 0; k < NSTK; k++) {
    _Bool has; VERIF_INPUT(has); VERIF_INPUT(STK_ENT[k]); STK_ENT[k].name[NNAME] = 0;
    STK[k].fEntity = has ? &STK_ENT[k] : (XMLEntityDecl*)0;
    if ((XMLSize_t)k < STK_COUNT && has && ST_equals(ENTITY.name, STK_ENT[k].name)) recursive = 1;
  }
  READER_FREED = 0; ENTITY_FREED = 0; OTHER_FREED = 0; PUSHED = 0; NEW_MADE = 0; STACK_CREATED = 0; verif_thrown = 0;
  if (do_dtor) {
    /* ReaderData::~ReaderData: the reader is always owned, the entity only when it was adopted */
    DTOR_SELF.fReader = &READER; DTOR_SELF.fEntity = have_entity ? &ENTITY : (XMLEntityDecl*)0; DTOR_SELF.fEntityAdopted = adopt;
    RDATA_dtor();
    VERIF_CANARY("after dtor");
    __CPROVER_assert(READER_FREED == 1 && OTHER_FREED == 0, "C01: ~ReaderData frees its reader exactly once");
    __CPROVER_assert(ENTITY_FREED == ((adopt && have_entity) ? 1 : 0), "C01: ~ReaderData frees the entity declaration iff it was adopted (a grammar-owned declaration is never freed)");
    return;
  }
  fReaderStack = HAVE_STACK ? (void*)&STK : (void*)0; if (!HAVE_STACK) STK_COUNT = 0;
  fCurReaderData = have_cur ? &CUR : (struct ReaderData*)0;
  bool ok = ReaderMgr_pushReaderAdoptEntity(&READER, have_entity ? &ENTITY : (XMLEntityDecl*)0, adopt);
  VERIF_CANARY("after push");
  int rec = recursive && have_entity && HAVE_STACK;
  __CPROVER_assert(ok == !rec, "C02: an entity that is already on the reader stack (recursion) is refused, any other is pushed");
  __CPROVER_assert(OTHER_FREED == 0 && READER_FREED <= 1 && ENTITY_FREED <= 1, "C01: nothing else is freed, nothing twice");
  __CPROVER_assert(!ENTITY_FREED || (adopt && have_entity), "C01: an entity declaration the reader manager does not own is never freed");
  if (!ok) __CPROVER_assert(READER_FREED == 1 && ENTITY_FREED == ((adopt && have_entity) ? 1 : 0) && NEW_MADE == 0 && PUSHED == 0, "C01: on refusal the reader and an adopted entity are released exactly once, nothing is pushed");
  else __CPROVER_assert(READER_FREED == 0 && ENTITY_FREED == 0 && NEW_MADE == 1 && fCurReader == &READER && fCurReaderData == &NEWDATA
                        && NEWDATA.fReader == &READER && NEWDATA.fEntityAdopted == adopt && PUSHED == (have_cur ? 1 : 0), "C01: on success ownership moves to the new ReaderData, nothing is freed");
}
