//@ unit str_bintext_long
//@ props C01
//@ kind L
//@ def quick BTN=8
//@ def thorough BTN=24
//@ enforce XMLString_binToTextL
//@ enforce XMLString_binToTextI
//@ replace XMLString_binToTextUL
//@ entry h_str_bintext_long
//@ note L: the signed overloads write an optional '-' and forward the magnitude to the unsigned long version (replaced by the contract proved in str_bintext)
//@ note sub rule: `(v * -1)` is rewritten to `(-v)` in binToText(long): same value and same overflow condition for every long, but cbmc's bit-level 64-bit multiplier makes `(v+1) * -1 + 1 == 0 - v` intractable for SAT (probed: > 120 s; the identity itself was checked once with cbmc --z3 in 3 s)
//@ note contract = XMLString.hpp: toFill holds maxChars + 1 elements; "If the result will not fit, it is an error"; the result of a negative value is '-' followed by the ND digits of the magnitude
#define VERIF_DEFINE_GHOSTS
#include "verif_prelude.h"
XMLSize_t G;
//@ include str_bintext_defs.inc
#define BT_MAG(v) (((v) < 0) ? (uint64_t)0 - (uint64_t)(v) : (uint64_t)(v))
#define BT_SIGN(v) ((XMLSize_t)((v) < 0))

/*@extract src/xercesc/util/XMLString.cpp XMLString::binToText
as XMLString_binToTextUL
params const unsigned long toFormat , XMLCh* const toFill
declonly
contract
//@ include str_binToTextUL.contract.inc
@*/

/*@extract src/xercesc/util/XMLString.cpp XMLString::binToText
as XMLString_binToTextL
params const long toFormat , XMLCh* const toFill
sub \(v \* -1\) => (-v)
call binToText => XMLString_binToTextUL
throws XMLString_binToTextUL
contract
__CPROVER_requires(G < BTN && maxChars <= BTN && !verif_thrown)
__CPROVER_requires(BT_CASE_OK ==> ND_OK(BT_MAG(toFormat), radix))
/* as documented: maxChars + 1 elements */
__CPROVER_requires(__CPROVER_w_ok(toFill, (maxChars + 1) * sizeof(XMLCh)))
__CPROVER_assigns(__CPROVER_object_upto(toFill, (maxChars + 1) * sizeof(XMLCh)), verif_thrown, verif_throw_type, verif_throw_code)
__CPROVER_ensures((maxChars != 0 && toFormat == 0) ==> (!verif_thrown && toFill[0] == chDigit_0 && toFill[1] == 0))
/* unknown radix: RuntimeException; when the sign alone already fills maxChars the zero-room error (IllegalArgumentException) may come first */
__CPROVER_ensures((maxChars != 0 && toFormat != 0 && !RADIX_OK(radix)) ==> (verif_thrown && (verif_throw_type == VT_RuntimeException || (verif_throw_type == VT_IllegalArgumentException && BT_SIGN(toFormat) >= maxChars))))
/* sign + digits must fit into maxChars characters, else the documented error */
__CPROVER_ensures((BT_CASE_OK && BT_SIGN(toFormat) + ND > maxChars) ==> (verif_thrown && verif_throw_type == VT_IllegalArgumentException))
__CPROVER_ensures((BT_CASE_OK && BT_SIGN(toFormat) + ND <= maxChars) ==> (!verif_thrown && toFill[BT_SIGN(toFormat) + ND] == 0 && (toFormat >= 0 || toFill[0] == chDash)))
__CPROVER_ensures((BT_CASE_OK && radix != 10 && BT_SIGN(toFormat) + ND <= maxChars && G < ND) ==> toFill[BT_SIGN(toFormat) + G] == DIGCH(DIGIT_SHIFT(BT_MAG(toFormat), radix, GREV)))
@*/

/*@extract src/xercesc/util/XMLString.cpp XMLString::binToText
as XMLString_binToTextI
params const int toFormat , XMLCh* const toFill
call binToText => XMLString_binToTextL
throws XMLString_binToTextL
contract
__CPROVER_requires(G < BTN && maxChars <= BTN && !verif_thrown)
__CPROVER_requires(BT_CASE_OK ==> ND_OK(BT_MAG((long)toFormat), radix))
__CPROVER_requires(__CPROVER_w_ok(toFill, (maxChars + 1) * sizeof(XMLCh)))
__CPROVER_assigns(__CPROVER_object_upto(toFill, (maxChars + 1) * sizeof(XMLCh)), verif_thrown, verif_throw_type, verif_throw_code)
__CPROVER_ensures((BT_CASE_OK && BT_SIGN(toFormat) + ND > maxChars) ==> (verif_thrown && verif_throw_type == VT_IllegalArgumentException))
__CPROVER_ensures((BT_CASE_OK && BT_SIGN(toFormat) + ND <= maxChars) ==> (!verif_thrown && toFill[BT_SIGN(toFormat) + ND] == 0 && (toFormat >= 0 || toFill[0] == chDash)))
@*/

struct { XMLCh a[BTN + 1]; } OUT;
void h_str_bintext_long(void)
{
  long v; int vi; XMLSize_t maxChars; unsigned int radix;
  VERIF_INPUT(OUT); VERIF_INPUT(G); VERIF_INPUT(v); VERIF_INPUT(vi); VERIF_INPUT(maxChars); VERIF_INPUT(radix); VERIF_INPUT(ND);
  VERIF_ASSUME(maxChars <= BTN);
  verif_thrown = 0;
  XMLString_binToTextL(v, OUT.a + (BTN + 1 - (maxChars + 1)), maxChars, radix, (MemoryManager *)0);
  VERIF_CANARY("after binToText(long)");
  if (!verif_thrown && v < -99 && radix == 10) VERIF_CANARY("binToText(long): negative decimal with several digits reachable");

  verif_thrown = 0;
  VERIF_INPUT(ND);
  XMLString_binToTextI(vi, OUT.a + (BTN + 1 - (maxChars + 1)), maxChars, radix, (MemoryManager *)0);
  VERIF_CANARY("after binToText(int)");
}
