//@ unit ser_primitives
//@ props C16 C01
//@ kind L
//@ entry h_ser_primitives
//@ note L: loop-free; every buffer size 8 <= fBufSize <= 24 (one static object of exactly fBufSize bytes each: all residues mod 8 twice; a heap block of symbolic size makes cbmc's array post-processing diverge), symbolic cursor offset 0..fBufSize, symbolic value (every bit pattern of the type, floats compared bitwise), each of the 14 primitive pairs selected by a symbolic tag; for larger buffers the code is assumed parametric in fBufSize (it enters only through fBufEnd / fBufLoadMax = fBufStart + fBufSize in the room test)
//@ note fBufSize >= 8 is required for safety (an 8-byte primitive must fit into an empty buffer); the constructors accept any bufSize (default 8192) -- recorded as a precondition of the engine, see final report
//@ note alignment is computed by the code from the ADDRESS of fBufCur; cbmc's address of (object, offset) is congruent to offset mod 8, i.e. the unit assumes fBufStart is 8-byte aligned in the storing and in the loading engine (true for MemoryManagerImpl / operator new)
//@ note flushBuffer / fillBuffer are stubs that do what unit ser_fillflush proves of the real bodies (cursor back to fBufStart, fBufLoadMax = fBufStart + fBufSize, counter FLUSHED / FILLED); the same heap block stands for "the block the cursor is in" on both sides, so a value written after a flush is read after the matching fill
//@ note store-then-load symmetry = same number of flushes as fills, same final cursor offset, same value
#define VERIF_DEFINE_GHOSTS
#include "verif_prelude.h"
//@ include XSerializeEngine_common.inc

int FLUSHED, FILLED;
void XSerializeEngine_flushBuffer(void) { FLUSHED++; fBufCur = fBufStart; }
void XSerializeEngine_fillBuffer(void) { FILLED++; fBufCur = fBufStart; fBufLoadMax = fBufStart + fBufSize; }

/*@extract src/xercesc/internal/XSerializeEngine.cpp XSerializeEngine::operator<<
params XMLCh xch
as XSerializeEngine_put_XMLCh
retself
call calBytesNeeded => XSerializeEngine_calBytesNeeded
call alignBufCur => XSerializeEngine_alignBufCur
call checkAndFlushBuffer => XSerializeEngine_checkAndFlushBuffer
throws XSerializeEngine_checkAndFlushBuffer
@*/
/*@extract src/xercesc/internal/XSerializeEngine.cpp XSerializeEngine::operator>>
params XMLCh& xch
as XSerializeEngine_get_XMLCh
retself
call calBytesNeeded => XSerializeEngine_calBytesNeeded
call alignBufCur => XSerializeEngine_alignBufCur
call checkAndFillBuffer => XSerializeEngine_checkAndFillBuffer
throws XSerializeEngine_checkAndFillBuffer
@*/
/*@extract src/xercesc/internal/XSerializeEngine.cpp XSerializeEngine::operator<<
params XMLByte by
as XSerializeEngine_put_XMLByte
retself
call checkAndFlushBuffer => XSerializeEngine_checkAndFlushBuffer
throws XSerializeEngine_checkAndFlushBuffer
@*/
/*@extract src/xercesc/internal/XSerializeEngine.cpp XSerializeEngine::operator>>
params XMLByte& by
as XSerializeEngine_get_XMLByte
retself
call checkAndFillBuffer => XSerializeEngine_checkAndFillBuffer
throws XSerializeEngine_checkAndFillBuffer
@*/
/*@extract src/xercesc/internal/XSerializeEngine.cpp XSerializeEngine::operator<<
params bool b
as XSerializeEngine_put_bool
retself
call checkAndFlushBuffer => XSerializeEngine_checkAndFlushBuffer
throws XSerializeEngine_checkAndFlushBuffer
@*/
/*@extract src/xercesc/internal/XSerializeEngine.cpp XSerializeEngine::operator>>
params bool& b
as XSerializeEngine_get_bool
retself
call checkAndFillBuffer => XSerializeEngine_checkAndFillBuffer
throws XSerializeEngine_checkAndFillBuffer
@*/
/*@extract src/xercesc/internal/XSerializeEngine.cpp XSerializeEngine::operator<<
params short sh
as XSerializeEngine_put_short
retself
call calBytesNeeded => XSerializeEngine_calBytesNeeded
call alignBufCur => XSerializeEngine_alignBufCur
call checkAndFlushBuffer => XSerializeEngine_checkAndFlushBuffer
throws XSerializeEngine_checkAndFlushBuffer
@*/
/*@extract src/xercesc/internal/XSerializeEngine.cpp XSerializeEngine::operator>>
params short& sh
as XSerializeEngine_get_short
retself
call calBytesNeeded => XSerializeEngine_calBytesNeeded
call alignBufCur => XSerializeEngine_alignBufCur
call checkAndFillBuffer => XSerializeEngine_checkAndFillBuffer
throws XSerializeEngine_checkAndFillBuffer
@*/
/*@extract src/xercesc/internal/XSerializeEngine.cpp XSerializeEngine::operator<<
params int i
as XSerializeEngine_put_int
retself
call calBytesNeeded => XSerializeEngine_calBytesNeeded
call alignBufCur => XSerializeEngine_alignBufCur
call checkAndFlushBuffer => XSerializeEngine_checkAndFlushBuffer
throws XSerializeEngine_checkAndFlushBuffer
@*/
/*@extract src/xercesc/internal/XSerializeEngine.cpp XSerializeEngine::operator>>
params int& i
as XSerializeEngine_get_int
retself
call calBytesNeeded => XSerializeEngine_calBytesNeeded
call alignBufCur => XSerializeEngine_alignBufCur
call checkAndFillBuffer => XSerializeEngine_checkAndFillBuffer
throws XSerializeEngine_checkAndFillBuffer
@*/
/*@extract src/xercesc/internal/XSerializeEngine.cpp XSerializeEngine::operator<<
params unsigned int ui
as XSerializeEngine_put_uint
retself
call calBytesNeeded => XSerializeEngine_calBytesNeeded
call alignBufCur => XSerializeEngine_alignBufCur
call checkAndFlushBuffer => XSerializeEngine_checkAndFlushBuffer
throws XSerializeEngine_checkAndFlushBuffer
@*/
/*@extract src/xercesc/internal/XSerializeEngine.cpp XSerializeEngine::operator>>
params unsigned int& ui
as XSerializeEngine_get_uint
retself
call calBytesNeeded => XSerializeEngine_calBytesNeeded
call alignBufCur => XSerializeEngine_alignBufCur
call checkAndFillBuffer => XSerializeEngine_checkAndFillBuffer
throws XSerializeEngine_checkAndFillBuffer
@*/
/*@extract src/xercesc/internal/XSerializeEngine.cpp XSerializeEngine::operator<<
params long l
as XSerializeEngine_put_long
retself
call calBytesNeeded => XSerializeEngine_calBytesNeeded
call alignBufCur => XSerializeEngine_alignBufCur
call checkAndFlushBuffer => XSerializeEngine_checkAndFlushBuffer
throws XSerializeEngine_checkAndFlushBuffer
@*/
/*@extract src/xercesc/internal/XSerializeEngine.cpp XSerializeEngine::operator>>
params long& l
as XSerializeEngine_get_long
retself
call calBytesNeeded => XSerializeEngine_calBytesNeeded
call alignBufCur => XSerializeEngine_alignBufCur
call checkAndFillBuffer => XSerializeEngine_checkAndFillBuffer
throws XSerializeEngine_checkAndFillBuffer
@*/
/*@extract src/xercesc/internal/XSerializeEngine.cpp XSerializeEngine::operator<<
params unsigned long ul
as XSerializeEngine_put_ulong
retself
call calBytesNeeded => XSerializeEngine_calBytesNeeded
call alignBufCur => XSerializeEngine_alignBufCur
call checkAndFlushBuffer => XSerializeEngine_checkAndFlushBuffer
throws XSerializeEngine_checkAndFlushBuffer
@*/
/*@extract src/xercesc/internal/XSerializeEngine.cpp XSerializeEngine::operator>>
params unsigned long& ul
as XSerializeEngine_get_ulong
retself
call calBytesNeeded => XSerializeEngine_calBytesNeeded
call alignBufCur => XSerializeEngine_alignBufCur
call checkAndFillBuffer => XSerializeEngine_checkAndFillBuffer
throws XSerializeEngine_checkAndFillBuffer
@*/
/*@extract src/xercesc/internal/XSerializeEngine.cpp XSerializeEngine::operator<<
params float f
as XSerializeEngine_put_float
retself
call calBytesNeeded => XSerializeEngine_calBytesNeeded
call alignBufCur => XSerializeEngine_alignBufCur
call checkAndFlushBuffer => XSerializeEngine_checkAndFlushBuffer
throws XSerializeEngine_checkAndFlushBuffer
@*/
/*@extract src/xercesc/internal/XSerializeEngine.cpp XSerializeEngine::operator>>
params float& f
as XSerializeEngine_get_float
retself
call calBytesNeeded => XSerializeEngine_calBytesNeeded
call alignBufCur => XSerializeEngine_alignBufCur
call checkAndFillBuffer => XSerializeEngine_checkAndFillBuffer
throws XSerializeEngine_checkAndFillBuffer
@*/
/*@extract src/xercesc/internal/XSerializeEngine.cpp XSerializeEngine::operator<<
params double d
as XSerializeEngine_put_double
retself
call calBytesNeeded => XSerializeEngine_calBytesNeeded
call alignBufCur => XSerializeEngine_alignBufCur
call checkAndFlushBuffer => XSerializeEngine_checkAndFlushBuffer
throws XSerializeEngine_checkAndFlushBuffer
@*/
/*@extract src/xercesc/internal/XSerializeEngine.cpp XSerializeEngine::operator>>
params double& d
as XSerializeEngine_get_double
retself
call calBytesNeeded => XSerializeEngine_calBytesNeeded
call alignBufCur => XSerializeEngine_alignBufCur
call checkAndFillBuffer => XSerializeEngine_checkAndFillBuffer
throws XSerializeEngine_checkAndFillBuffer
@*/
/*@extract src/xercesc/internal/XSerializeEngine.cpp XSerializeEngine::operator<<
params char ch
as XSerializeEngine_put_char
retself
sub return XSerializeEngine::operator<<\(\(XMLByte\)ch\); => XSerializeEngine_put_XMLByte((XMLByte)ch); return *this;
throws XSerializeEngine_put_XMLByte
@*/
/*@extract src/xercesc/internal/XSerializeEngine.cpp XSerializeEngine::operator>>
params char& ch
as XSerializeEngine_get_char
retself
sub return XSerializeEngine::operator>>\(\(XMLByte&\)ch\); => XSerializeEngine_get_XMLByte(*(XMLByte*)&ch); return *this;
throws XSerializeEngine_get_XMLByte
@*/
/*@extract src/xercesc/internal/XSerializeEngine.cpp XSerializeEngine::writeSize
call checkAndFlushBuffer => XSerializeEngine_checkAndFlushBuffer
throws XSerializeEngine_checkAndFlushBuffer
@*/
/*@extract src/xercesc/internal/XSerializeEngine.cpp XSerializeEngine::readSize
call checkAndFillBuffer => XSerializeEngine_checkAndFillBuffer
throws XSerializeEngine_checkAndFillBuffer
@*/
/*@extract src/xercesc/internal/XSerializeEngine.cpp XSerializeEngine::writeInt64
call checkAndFlushBuffer => XSerializeEngine_checkAndFlushBuffer
throws XSerializeEngine_checkAndFlushBuffer
@*/
/*@extract src/xercesc/internal/XSerializeEngine.cpp XSerializeEngine::readInt64
call checkAndFillBuffer => XSerializeEngine_checkAndFillBuffer
throws XSerializeEngine_checkAndFillBuffer
@*/
/*@extract src/xercesc/internal/XSerializeEngine.cpp XSerializeEngine::writeUInt64
call checkAndFlushBuffer => XSerializeEngine_checkAndFlushBuffer
throws XSerializeEngine_checkAndFlushBuffer
@*/
/*@extract src/xercesc/internal/XSerializeEngine.cpp XSerializeEngine::readUInt64
call checkAndFillBuffer => XSerializeEngine_checkAndFillBuffer
throws XSerializeEngine_checkAndFillBuffer
@*/

/* one buffer OBJECT per size, so that cbmc's object bounds are exactly [fBufStart, fBufStart + fBufSize) */
#define BUFS(X) X(8) X(9) X(10) X(11) X(12) X(13) X(14) X(15) X(16) X(17) X(18) X(19) X(20) X(21) X(22) X(23) X(24)
#define DECL(n) static XMLByte BUF##n[n] __attribute__((aligned(8)));
#define SEL(n) case n: buf = BUF##n; break;
BUFS(DECL)
#define BSMAX 24
union val { XMLCh xch; XMLByte by; bool b; char ch; short sh; int i; unsigned int ui; long l; unsigned long ul; float f; double d;
            XMLSize_t sz; XMLInt64 i64; XMLUInt64 u64; unsigned char raw[8]; };

void h_ser_primitives(void)
{
  XMLSize_t bs, off; int ty; unsigned long cnt0; union val v, w; _Bool bb;
  VERIF_INPUT(bs); VERIF_INPUT(off); VERIF_INPUT(ty); VERIF_INPUT(cnt0); VERIF_INPUT(v); VERIF_INPUT(w); VERIF_INPUT(bb);
  VERIF_ASSUME(bs >= 8 && bs <= BSMAX && off <= bs && ty >= 0 && ty <= 13);
  XMLByte *buf = 0;
  switch (bs) { BUFS(SEL) default: break; }
  if (ty == 2) v.b = bb;                 /* a bool object holds 0 or 1 */

  /* ---- store ---- */
  fStoreLoad = mode_Store; fBufSize = bs; fBufStart = buf; fBufEnd = buf + bs; fBufCur = buf + off; fBufLoadMax = 0; fBufCount = cnt0;
  FLUSHED = 0; FILLED = 0; verif_thrown = 0;
  switch (ty) {
    case 0: XSerializeEngine_put_XMLCh(v.xch); break;
    case 1: XSerializeEngine_put_XMLByte(v.by); break;
    case 2: XSerializeEngine_put_bool(v.b); break;
    case 3: XSerializeEngine_put_char(v.ch); break;
    case 4: XSerializeEngine_put_short(v.sh); break;
    case 5: XSerializeEngine_put_int(v.i); break;
    case 6: XSerializeEngine_put_uint(v.ui); break;
    case 7: XSerializeEngine_put_long(v.l); break;
    case 8: XSerializeEngine_put_ulong(v.ul); break;
    case 9: XSerializeEngine_put_float(v.f); break;
    case 10: XSerializeEngine_put_double(v.d); break;
    case 11: XSerializeEngine_writeSize(v.sz); break;
    case 12: XSerializeEngine_writeInt64(v.i64); break;
    default: XSerializeEngine_writeUInt64(v.u64); break;
  }
  __CPROVER_assert(!verif_thrown, "C16: storing a primitive never throws by itself");
  __CPROVER_assert(RI_SER_STORE, "C01: RI_ser (store) re-established");
  XMLSize_t off1 = SER_OFS(fBufCur); int flushed = FLUSHED;
  __CPROVER_assert(flushed <= 1, "C16: at most one flush per primitive");

  /* ---- load, from the same cursor offset ---- */
  fStoreLoad = mode_Load; fBufEnd = 0; fBufCur = buf + off; fBufLoadMax = buf + bs;
  switch (ty) {
    case 0: XSerializeEngine_get_XMLCh(&w.xch); break;
    case 1: XSerializeEngine_get_XMLByte(&w.by); break;
    case 2: XSerializeEngine_get_bool(&w.b); break;
    case 3: XSerializeEngine_get_char(&w.ch); break;
    case 4: XSerializeEngine_get_short(&w.sh); break;
    case 5: XSerializeEngine_get_int(&w.i); break;
    case 6: XSerializeEngine_get_uint(&w.ui); break;
    case 7: XSerializeEngine_get_long(&w.l); break;
    case 8: XSerializeEngine_get_ulong(&w.ul); break;
    case 9: XSerializeEngine_get_float(&w.f); break;
    case 10: XSerializeEngine_get_double(&w.d); break;
    case 11: XSerializeEngine_readSize(&w.sz); break;
    case 12: XSerializeEngine_readInt64(&w.i64); break;
    default: XSerializeEngine_readUInt64(&w.u64); break;
  }
  VERIF_CANARY("after call");
  __CPROVER_assert(!verif_thrown, "C16: loading a primitive never throws by itself");
  __CPROVER_assert(RI_SER_LOAD, "C01: RI_ser (load) re-established");
  __CPROVER_assert(FILLED == flushed, "C16: the load side refills exactly where the store side flushed");
  __CPROVER_assert(SER_OFS(fBufCur) == off1, "C16: same final cursor offset (alignAdjust / calBytesNeeded / alignBufCur symmetric)");
  XMLSize_t sz = (ty == 0 || ty == 4) ? 2 : (ty >= 1 && ty <= 3) ? 1 : (ty == 5 || ty == 6 || ty == 9) ? 4 : 8;
  __CPROVER_assert(w.raw[0] == v.raw[0] && (sz < 2 || w.raw[1] == v.raw[1]) && (sz < 4 || (w.raw[2] == v.raw[2] && w.raw[3] == v.raw[3])) &&
                   (sz < 8 || (w.raw[4] == v.raw[4] && w.raw[5] == v.raw[5] && w.raw[6] == v.raw[6] && w.raw[7] == v.raw[7])),
                   "C16: store-then-load yields the same value (all bytes of the object representation)");
}
