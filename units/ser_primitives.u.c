//@ unit ser_primitives
//@ props C16 C01
//@ kind L
//@ entry h_ser_primitives
//@ note L: loop-free; buffer sizes fBufSize in {8..17, 24} (one static object of exactly fBufSize bytes each: every residue mod 8, the minimum, and sizes above two 8-byte slots; a heap block of symbolic size makes cbmc's array post-processing diverge), symbolic cursor offset 0..fBufSize, symbolic value (every bit pattern of the type, floats compared bitwise), each of the 14 primitive pairs selected by a symbolic tag; for larger buffers the code is assumed parametric in fBufSize (it enters only through fBufEnd / fBufLoadMax = fBufStart + fBufSize in the room test)
//@ note fBufSize >= 8 is required for safety (an 8-byte primitive must fit into an empty buffer); the constructors accept any bufSize (default 8192) -- recorded as a precondition of the engine, see final report
//@ note alignment is computed by the code from the ADDRESS of fBufCur; cbmc's address of (object, offset) is congruent to offset mod 8, i.e. the unit assumes fBufStart is 8-byte aligned in the storing and in the loading engine (true for MemoryManagerImpl / operator new)
//@ note flushBuffer / fillBuffer are stubs that do what unit ser_fillflush proves of the real bodies (cursor back to fBufStart, fBufLoadMax = fBufStart + fBufSize, counter FLUSHED / FILLED); the same heap block stands for "the block the cursor is in" on both sides, so a value written after a flush is read after the matching fill
//@ note store-then-load symmetry = same number of flushes as fills, same final cursor offset, same value
#define VERIF_DEFINE_GHOSTS
#include "verif_prelude.h"
//@ include XSerializeEngine_common.inc

int FLUSHED, FILLED;
void XSerializeEngine_flushBuffer(void) { FLUSHED++; fBufCur = fBufStart; }
void XSerializeEngine_fillBuffer(void) { FILLED++; fBufCur = fBufStart; fBufLoadMax = fBufStart + fBufSize; }

/*@extract src/xercesc/internal/XSerializeEngine.cpp XSerializeEngine::operator<<
params XMLCh xch
as XSerializeEngine_put_XMLCh
retself
call calBytesNeeded => XSerializeEngine_calBytesNeeded
call alignBufCur => XSerializeEngine_alignBufCur
call checkAndFlushBuffer => XSerializeEngine_checkAndFlushBuffer
throws XSerializeEngine_checkAndFlushBuffer
@*/
/*@extract src/xercesc/internal/XSerializeEngine.cpp XSerializeEngine::operator>>
params XMLCh& xch
as XSerializeEngine_get_XMLCh
retself
call calBytesNeeded => XSerializeEngine_calBytesNeeded
call alignBufCur => XSerializeEngine_alignBufCur
call checkAndFillBuffer => XSerializeEngine_checkAndFillBuffer
throws XSerializeEngine_checkAndFillBuffer
@*/
/*@extract src/xercesc/internal/XSerializeEngine.cpp XSerializeEngine::operator<<
params XMLByte by
as XSerializeEngine_put_XMLByte
retself
call checkAndFlushBuffer => XSerializeEngine_checkAndFlushBuffer
throws XSerializeEngine_checkAndFlushBuffer
@*/
/*@extract src/xercesc/internal/XSerializeEngine.cpp XSerializeEngine::operator>>
params XMLByte& by
as XSerializeEngine_get_XMLByte
retself
call checkAndFillBuffer => XSerializeEngine_checkAndFillBuffer
throws XSerializeEngine_checkAndFillBuffer
@*/
/*@extract src/xercesc/internal/XSerializeEngine.cpp XSerializeEngine::operator<<
params bool b
as XSerializeEngine_put_bool
retself
call checkAndFlushBuffer => XSerializeEngine_checkAndFlushBuffer
throws XSerializeEngine_checkAndFlushBuffer
@*/
/*@extract src/xercesc/internal/XSerializeEngine.cpp XSerializeEngine::operator>>
params bool& b
as XSerializeEngine_get_bool
retself
call checkAndFillBuffer => XSerializeEngine_checkAndFillBuffer
throws XSerializeEngine_checkAndFillBuffer
@*/
/*@extract src/xercesc/internal/XSerializeEngine.cpp XSerializeEngine::operator<<
params short sh
as XSerializeEngine_put_short
retself
call calBytesNeeded => XSerializeEngine_calBytesNeeded
call alignBufCur => XSerializeEngine_alignBufCur
call checkAndFlushBuffer => XSerializeEngine_checkAndFlushBuffer
throws XSerializeEngine_checkAndFlushBuffer
@*/
/*@extract src/xercesc/internal/XSerializeEngine.cpp XSerializeEngine::operator>>
params short& sh
as XSerializeEngine_get_short
retself
call calBytesNeeded => XSerializeEngine_calBytesNeeded
call alignBufCur => XSerializeEngine_alignBufCur
call checkAndFillBuffer => XSerializeEngine_checkAndFillBuffer
throws XSerializeEngine_checkAndFillBuffer
@*/
/*@extract src/xercesc/internal/XSerializeEngine.cpp XSerializeEngine::operator<<
params int i
as XSerializeEngine_put_int
retself
call calBytesNeeded => XSerializeEngine_calBytesNeeded
call alignBufCur => XSerializeEngine_alignBufCur
call checkAndFlushBuffer => XSerializeEngine_checkAndFlushBuffer
throws XSerializeEngine_checkAndFlushBuffer
@*/
/*@extract src/xercesc/internal/XSerializeEngine.cpp XSerializeEngine::operator>>
params int& i
as XSerializeEngine_get_int
retself
call calBytesNeeded => XSerializeEngine_calBytesNeeded
call alignBufCur => XSerializeEngine_alignBufCur
call checkAndFillBuffer => XSerializeEngine_checkAndFillBuffer
throws XSerializeEngine_checkAndFillBuffer
@*/
/*@extract src/xercesc/internal/XSerializeEngine.cpp XSerializeEngine::operator<<
params unsigned int ui
as XSerializeEngine_put_uint
retself
call calBytesNeeded => XSerializeEngine_calBytesNeeded
call alignBufCur => XSerializeEngine_alignBufCur
call checkAndFlushBuffer => XSerializeEngine_checkAndFlushBuffer
throws XSerializeEngine_checkAndFlushBuffer
@*/
/*@extract src/xercesc/internal/XSerializeEngine.cpp XSerializeEngine::operator>>
params unsigned int& ui
as XSerializeEngine_get_uint
retself
call calBytesNeeded => XSerializeEngine_calBytesNeeded
call alignBufCur => XSerializeEngine_alignBufCur
call checkAndFillBuffer => XSerializeEngine_checkAndFillBuffer
throws XSerializeEngine_checkAndFillBuffer
@*/
/*@extract src/xercesc/internal/XSerializeEngine.cpp XSerializeEngine::operator<<
params long l
as XSerializeEngine_put_long
retself
call calBytesNeeded => XSerializeEngine_calBytesNeeded
call alignBufCur => XSerializeEngine_alignBufCur
call checkAndFlushBuffer => XSerializeEngine_checkAndFlushBuffer
throws XSerializeEngine_checkAndFlushBuffer
@*/
/*@extract src/xercesc/internal/XSerializeEngine.cpp XSerializeEngine::operator>>
params long& l
as XSerializeEngine_get_long
retself
call calBytesNeeded => XSerializeEngine_calBytesNeeded
call alignBufCur => XSerializeEngine_alignBufCur
call checkAndFillBuffer => XSerializeEngine_checkAndFillBuffer
throws XSerializeEngine_checkAndFillBuffer
@*/
/*@extract src/xercesc/internal/XSerializeEngine.cpp XSerializeEngine::operator<<
params unsigned long ul
as XSerializeEngine_put_ulong
retself
call calBytesNeeded => XSerializeEngine_calBytesNeeded
call alignBufCur => XSerializeEngine_alignBufCur
call checkAndFlushBuffer => XSerializeEngine_checkAndFlushBuffer
throws XSerializeEngine_checkAndFlushBuffer
@*/
/*@extract src/xercesc/internal/XSerializeEngine.cpp XSerializeEngine::operator>>
params unsigned long& ul
as XSerializeEngine_get_ulong
retself
call calBytesNeeded => XSerializeEngine_calBytesNeeded
call alignBufCur => XSerializeEngine_alignBufCur
call checkAndFillBuffer => XSerializeEngine_checkAndFillBuffer
throws XSerializeEngine_checkAndFillBuffer
@*/
/*@extract src/xercesc/internal/XSerializeEngine.cpp XSerializeEngine::operator<<
params float f
as XSerializeEngine_put_float
retself
call calBytesNeeded => XSerializeEngine_calBytesNeeded
call alignBufCur => XSerializeEngine_alignBufCur
call checkAndFlushBuffer => XSerializeEngine_checkAndFlushBuffer
throws XSerializeEngine_checkAndFlushBuffer
@*/
/*@extract src/xercesc/internal/XSerializeEngine.cpp XSerializeEngine::operator>>
params float& f
as XSerializeEngine_get_float
retself
call calBytesNeeded => XSerializeEngine_calBytesNeeded
call alignBufCur => XSerializeEngine_alignBufCur
call checkAndFillBuffer => XSerializeEngine_checkAndFillBuffer
throws XSerializeEngine_checkAndFillBuffer
@*/
/*@extract src/xercesc/internal/XSerializeEngine.cpp XSerializeEngine::operator<<
params double d
as XSerializeEngine_put_double
retself
call calBytesNeeded => XSerializeEngine_calBytesNeeded
call alignBufCur => XSerializeEngine_alignBufCur
call checkAndFlushBuffer => XSerializeEngine_checkAndFlushBuffer
throws XSerializeEngine_checkAndFlushBuffer
@*/
/*@extract src/xercesc/internal/XSerializeEngine.cpp XSerializeEngine::operator>>
params double& d
as XSerializeEngine_get_double
retself
call calBytesNeeded => XSerializeEngine_calBytesNeeded
call alignBufCur => XSerializeEngine_alignBufCur
call checkAndFillBuffer => XSerializeEngine_checkAndFillBuffer
throws XSerializeEngine_checkAndFillBuffer
@*/
/*@extract src/xercesc/internal/XSerializeEngine.cpp XSerializeEngine::operator<<
params char ch
as XSerializeEngine_put_char
retself
sub return XSerializeEngine::operator<<\(\(XMLByte\)ch\); => XSerializeEngine_put_XMLByte((XMLByte)ch); return *this;
throws XSerializeEngine_put_XMLByte
@*/
/*@extract src/xercesc/internal/XSerializeEngine.cpp XSerializeEngine::operator>>
params char& ch
as XSerializeEngine_get_char
retself
sub return XSerializeEngine::operator>>\(\(XMLByte&\)ch\); => XSerializeEngine_get_XMLByte(*(XMLByte*)&ch); return *this;
throws XSerializeEngine_get_XMLByte
@*/
/*@extract src/xercesc/internal/XSerializeEngine.cpp XSerializeEngine::writeSize
call checkAndFlushBuffer => XSerializeEngine_checkAndFlushBuffer
throws XSerializeEngine_checkAndFlushBuffer
@*/
/*@extract src/xercesc/internal/XSerializeEngine.cpp XSerializeEngine::readSize
call checkAndFillBuffer => XSerializeEngine_checkAndFillBuffer
throws XSerializeEngine_checkAndFillBuffer
@*/
/*@extract src/xercesc/internal/XSerializeEngine.cpp XSerializeEngine::writeInt64
call checkAndFlushBuffer => XSerializeEngine_checkAndFlushBuffer
throws XSerializeEngine_checkAndFlushBuffer
@*/
/*@extract src/xercesc/internal/XSerializeEngine.cpp XSerializeEngine::readInt64
call checkAndFillBuffer => XSerializeEngine_checkAndFillBuffer
throws XSerializeEngine_checkAndFillBuffer
@*/
/*@extract src/xercesc/internal/XSerializeEngine.cpp XSerializeEngine::writeUInt64
call checkAndFlushBuffer => XSerializeEngine_checkAndFlushBuffer
throws XSerializeEngine_checkAndFlushBuffer
@*/
/*@extract src/xercesc/internal/XSerializeEngine.cpp XSerializeEngine::readUInt64
call checkAndFillBuffer => XSerializeEngine_checkAndFillBuffer
throws XSerializeEngine_checkAndFillBuffer
@*/

/* one buffer OBJECT per size, so that cbmc's object bounds are exactly [fBufStart, fBufStart + fBufSize) */
#define BUFS(X) X(8) X(9) X(10) X(11) X(12) X(13) X(14) X(15) X(16) X(17) X(24)
#define DECL(n) static XMLByte BUF##n[n] __attribute__((aligned(8)));
#define SEL(n) case n: buf = BUF##n; break;
BUFS(DECL)
#define BSMAX 24
/* value under test as raw bytes (a nondet union is not bit-consistent between its members in cbmc 6.11) */
struct { unsigned char a[8]; } V, W;

void h_ser_primitives(void)
{
  XMLSize_t bs, off; int ty; unsigned long cnt0;
  VERIF_INPUT(bs); VERIF_INPUT(off); VERIF_INPUT(ty); VERIF_INPUT(cnt0); VERIF_INPUT(V); VERIF_INPUT(W);
  VERIF_ASSUME(bs >= 8 && (bs <= 17 || bs == BSMAX) && off <= bs && ty >= 0 && ty <= 13);
  VERIF_ASSUME(ty != 2 || V.a[0] <= 1);      /* a bool object holds 0 or 1 */
  XMLByte *buf = 0;
  switch (bs) { BUFS(SEL) default: break; }

  /* ---- store ---- */
  fStoreLoad = mode_Store; fBufSize = bs; fBufStart = buf; fBufEnd = buf + bs; fBufCur = buf + off; fBufLoadMax = 0; fBufCount = cnt0;
  FLUSHED = 0; FILLED = 0; verif_thrown = 0;
  switch (ty) {
    case 0: { XMLCh x; memcpy(&x, V.a, sizeof x); XSerializeEngine_put_XMLCh(x); } break;
    case 1: { XMLByte x; memcpy(&x, V.a, sizeof x); XSerializeEngine_put_XMLByte(x); } break;
    case 2: { bool x; memcpy(&x, V.a, sizeof x); XSerializeEngine_put_bool(x); } break;
    case 3: { char x; memcpy(&x, V.a, sizeof x); XSerializeEngine_put_char(x); } break;
    case 4: { short x; memcpy(&x, V.a, sizeof x); XSerializeEngine_put_short(x); } break;
    case 5: { int x; memcpy(&x, V.a, sizeof x); XSerializeEngine_put_int(x); } break;
    case 6: { unsigned int x; memcpy(&x, V.a, sizeof x); XSerializeEngine_put_uint(x); } break;
    case 7: { long x; memcpy(&x, V.a, sizeof x); XSerializeEngine_put_long(x); } break;
    case 8: { unsigned long x; memcpy(&x, V.a, sizeof x); XSerializeEngine_put_ulong(x); } break;
    case 9: { float x; memcpy(&x, V.a, sizeof x); XSerializeEngine_put_float(x); } break;
    case 10: { double x; memcpy(&x, V.a, sizeof x); XSerializeEngine_put_double(x); } break;
    case 11: { XMLSize_t x; memcpy(&x, V.a, sizeof x); XSerializeEngine_writeSize(x); } break;
    case 12: { XMLInt64 x; memcpy(&x, V.a, sizeof x); XSerializeEngine_writeInt64(x); } break;
    case 13: { XMLUInt64 x; memcpy(&x, V.a, sizeof x); XSerializeEngine_writeUInt64(x); } break;
    default: break;
  }
  __CPROVER_assert(!verif_thrown, "C16: storing a primitive never throws by itself");
  __CPROVER_assert(RI_SER_STORE, "C01: RI_ser (store) re-established");
  XMLSize_t off1 = SER_OFS(fBufCur); int flushed = FLUSHED;
  __CPROVER_assert(flushed <= 1, "C16: at most one flush per primitive");

  /* ---- load, from the same cursor offset ---- */
  fStoreLoad = mode_Load; fBufEnd = 0; fBufCur = buf + off; fBufLoadMax = buf + bs;
  switch (ty) {
    case 0: { XMLCh y; XSerializeEngine_get_XMLCh(&y); memcpy(W.a, &y, sizeof y); } break;
    case 1: { XMLByte y; XSerializeEngine_get_XMLByte(&y); memcpy(W.a, &y, sizeof y); } break;
    case 2: { bool y; XSerializeEngine_get_bool(&y); memcpy(W.a, &y, sizeof y); } break;
    case 3: { char y; XSerializeEngine_get_char(&y); memcpy(W.a, &y, sizeof y); } break;
    case 4: { short y; XSerializeEngine_get_short(&y); memcpy(W.a, &y, sizeof y); } break;
    case 5: { int y; XSerializeEngine_get_int(&y); memcpy(W.a, &y, sizeof y); } break;
    case 6: { unsigned int y; XSerializeEngine_get_uint(&y); memcpy(W.a, &y, sizeof y); } break;
    case 7: { long y; XSerializeEngine_get_long(&y); memcpy(W.a, &y, sizeof y); } break;
    case 8: { unsigned long y; XSerializeEngine_get_ulong(&y); memcpy(W.a, &y, sizeof y); } break;
    case 9: { float y; XSerializeEngine_get_float(&y); memcpy(W.a, &y, sizeof y); } break;
    case 10: { double y; XSerializeEngine_get_double(&y); memcpy(W.a, &y, sizeof y); } break;
    case 11: { XMLSize_t y; XSerializeEngine_readSize(&y); memcpy(W.a, &y, sizeof y); } break;
    case 12: { XMLInt64 y; XSerializeEngine_readInt64(&y); memcpy(W.a, &y, sizeof y); } break;
    case 13: { XMLUInt64 y; XSerializeEngine_readUInt64(&y); memcpy(W.a, &y, sizeof y); } break;
    default: break;
  }
  VERIF_CANARY("after call");
  __CPROVER_assert(!verif_thrown, "C16: loading a primitive never throws by itself");
  __CPROVER_assert(RI_SER_LOAD, "C01: RI_ser (load) re-established");
  __CPROVER_assert(FILLED == flushed, "C16: the load side refills exactly where the store side flushed");
  __CPROVER_assert(SER_OFS(fBufCur) == off1, "C16: same final cursor offset (alignAdjust / calBytesNeeded / alignBufCur symmetric)");
  XMLSize_t sz = (ty == 0) ? 2 : (ty == 1) ? 1 : (ty == 2) ? 1 : (ty == 3) ? 1 : (ty == 4) ? 2 : (ty == 5) ? 4 : (ty == 6) ? 4 : (ty == 7) ? 8 : (ty == 8) ? 8 : (ty == 9) ? 4 : (ty == 10) ? 8 : (ty == 11) ? 8 : (ty == 12) ? 8 : 8;
  __CPROVER_assert(W.a[0] == V.a[0] && (sz < 2 || W.a[1] == V.a[1]) && (sz < 4 || (W.a[2] == V.a[2] && W.a[3] == V.a[3])) &&
                   (sz < 8 || (W.a[4] == V.a[4] && W.a[5] == V.a[5] && W.a[6] == V.a[6] && W.a[7] == V.a[7])),
                   "C16: store-then-load yields the same value (all bytes of the object representation)");
}
