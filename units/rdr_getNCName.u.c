//@ unit rdr_getNCName
//@ props C01 C04 C03
//@ kind P
//@ def all kCharBufSize=8
//@ rebind src/xercesc/internal/XMLReader.hpp kCharBufSize
//@ enforce XMLReader_getNCName
//@ replace XMLReader_refreshCharBuffer
//@ replace XMLBuffer_append_n
//@ replace XMLReader_isNCNameChar
//@ replace XMLReader_isFirstNCNameChar
//@ cbmc all --arrays-uf-always
//@ entry h_getNCName
//@ note isNCNameChar / isFirstNCNameChar are replaced by contracts over arbitrary (nondet) predicate tables; the tables behind them are proved against the XML productions in the chartab_* units
//@ note column/length delta equality is checked modulo 2^8 only (SAT cost of 64-bit linear arithmetic)
//@ note abstract XMLBuffer: length assumed <= 2^40 characters (machine arithmetic; OutOfMemory not modelled)
//@ note refreshCharBuffer is replaced by the contract proved in unit rdr_refreshCharBuffer (the members it does not mention there -- raw buffer, offsets -- are outside this unit's struct)
#define VERIF_DEFINE_GHOSTS
#include "verif_prelude.h"
//@ struct src/xercesc/internal/XMLReader.hpp XMLReader only=auto
//@ include XMLReader_ri.inc
//@ include XMLBuffer_abs.inc

/* the two character-class predicates as arbitrary (nondet) total functions XMLCh -> bool */
_Bool NCNAMECH[65536]; _Bool FIRSTNCNAMECH[65536];
#define PRED_ncnamechar(c) (NCNAMECH[(XMLCh)(c)])
#define PRED_firstncnamechar(c) (FIRSTNCNAMECH[(XMLCh)(c)])
/*@extract src/xercesc/internal/XMLReader.hpp XMLReader::isNCNameChar
declonly
contract
__CPROVER_requires(1)
__CPROVER_assigns()
__CPROVER_ensures(__CPROVER_return_value == PRED_ncnamechar(toCheck))
@*/
/*@extract src/xercesc/internal/XMLReader.hpp XMLReader::isFirstNCNameChar
declonly
contract
__CPROVER_requires(1)
__CPROVER_assigns()
__CPROVER_ensures(__CPROVER_return_value == PRED_firstncnamechar(toCheck))
@*/

/* XML 1.0 5th ed. [4a]: #x10000-#xEFFFF  =  lead D800..DB7F + trail DC00..DFFF */
#define IS_LEAD_NAME(c)  ((c) >= 0xD800 && (c) <= 0xDB7F)
#define IS_TRAIL(c)      ((c) >= 0xDC00 && (c) <= 0xDFFF)
#define IS_SURR(c)       ((c) >= 0xD800 && (c) <= 0xDFFF)

/* ghosts: buffer length / column / character at GA on function entry (harness-owned, in no assigns clause) */
XMLSize_t BUFLEN0; XMLFileLoc COL0; XMLCh BUFCH0;

/*@extract src/xercesc/internal/XMLReader.cpp XMLReader::getNCName
ret false
call refreshCharBuffer => XMLReader_refreshCharBuffer
call isNCNameChar => XMLReader_isNCNameChar
call isFirstNCNameChar => XMLReader_isFirstNCNameChar
method toFill.append => XMLBuffer_append_n
throws XMLReader_refreshCharBuffer
contract
//@ include XMLReader_getNCName.contract.inc
/* proof-local: name the entry values for the loop invariants (w.l.o.g.: BUFLEN0 / COL0 / BUFCH0 are harness-owned ghosts that nothing assigns,
   so any caller state has a matching choice; the shared contract above does not mention them) */
__CPROVER_requires(BUFLEN0 == BUFLEN && COL0 == fCurCol && BUFCH0 == BUFCH)
loop 1
__CPROVER_assigns(fCharIndex, fCharsAvail, fNoMore, fCurCol, charIndex_start, count, __CPROVER_object_upto(fCharBuf, sizeof(fCharBuf)), BUFLEN, BUFCH, verif_thrown, verif_throw_type, verif_throw_code)
__CPROVER_loop_invariant(RI_RDR && charIndex_start <= fCharIndex && !verif_thrown)
__CPROVER_loop_invariant(BUFLEN >= BUFLEN0 && BUFLEN <= VERIF_BUFLEN_MAX && (BUFLEN > BUFLEN0 || fCharIndex > charIndex_start))
__CPROVER_loop_invariant((XMLByte)(fCurCol - COL0) == (XMLByte)(BUFLEN - BUFLEN0))
__CPROVER_loop_invariant((GA < BUFLEN0) ==> BUFCH == BUFCH0)
loop 2
__CPROVER_assigns(fCharIndex, fCharsAvail, fNoMore, fCurCol, charIndex_start, __CPROVER_object_upto(fCharBuf, sizeof(fCharBuf)), BUFLEN, BUFCH, verif_thrown, verif_throw_type, verif_throw_code)
__CPROVER_loop_invariant(RI_RDR && charIndex_start <= fCharIndex && !verif_thrown)
__CPROVER_loop_invariant(BUFLEN >= BUFLEN0 && BUFLEN <= VERIF_BUFLEN_MAX && (BUFLEN > BUFLEN0 || fCharIndex > charIndex_start))
__CPROVER_loop_invariant((XMLByte)(fCurCol - COL0) == (XMLByte)(BUFLEN - BUFLEN0))
__CPROVER_loop_invariant((GA < BUFLEN0) ==> BUFCH == BUFCH0)
@*/

struct XMLBuffer TOFILL;
void h_getNCName(void)
{
  VERIF_INPUT(SELF);
  verif_thrown = 0;
  XMLReader_getNCName(&TOFILL);
  VERIF_CANARY("after call");
}
