//@ unit scan_charref_w
//@ props C02 C03 C01
//@ kind W
//@ def quick NIN=11
//@ def thorough NIN=13
//@ cbmc all --unwind 16 --unwinding-assertions
//@ cbmc all --arrays-uf-always
//@ entry h_scanCharRef
//@ note W: complete for every character sequence of length <= NIN after '&#' (quick: 9 hex digits = every value below 2^36, so a 32-bit accumulator that wraps is seen; thorough: 11 hex / 12 decimal digits)
//@ note reader abstraction (trusted stub): ReaderMgr::peekNextChar/getNextChar/skippedChar deliver a symbolic character sequence INPUT[0..LEN) followed by end-of-input (0); emitError records the codes
//@ note isXMLChar / isControlChar are nondet predicate tables here; that XMLCHAR||CONTROL equals production [2] Char of the reader's XML version is proved over the real tables in the chartab_* units
#define VERIF_DEFINE_GHOSTS
#include "verif_prelude.h"
#include "unicode.h"

struct { XMLCh a[NIN]; } INPUT; XMLSize_t LEN, POS;
int ERR_COUNT, ERR_FATAL_COUNT, ERR_LAST;
struct { _Bool a[65536]; } XMLCHAR_T, CONTROL_T;   /* nondet via VERIF_INPUT (globals are zero-initialised under cbmc) */
#define XMLCHAR (XMLCHAR_T.a)
#define CONTROL (CONTROL_T.a)

static XMLCh RM_peekNextChar(void) { return POS < LEN ? INPUT.a[POS] : 0; }
static XMLCh RM_getNextChar(void) { return POS < LEN ? INPUT.a[POS++] : 0; }
static bool RM_skippedChar(XMLCh c) { if (POS < LEN && INPUT.a[POS] == c) { POS++; return true; } return false; }
static bool RD_isXMLChar(XMLCh c) { return XMLCHAR[c]; }
static bool RD_isControlChar(XMLCh c) { return CONTROL[c]; }
static void SC_emitError(int code) { ERR_COUNT++; ERR_LAST = code; if (code >= XMLErrs_F_LowBounds && code <= XMLErrs_F_HighBounds) ERR_FATAL_COUNT++; }

/*@extract src/xercesc/internal/XMLScanner.cpp XMLScanner::scanCharRef
ret false
sub fReaderMgr\.skippedChar\( => RM_skippedChar(
sub fReaderMgr\.peekNextChar\( => RM_peekNextChar(
sub fReaderMgr\.getNextChar\( => RM_getNextChar(
sub fReaderMgr\.getCurrentReader\(\)->isXMLChar\( => RD_isXMLChar(
sub fReaderMgr\.getCurrentReader\(\)->isControlChar\( => RD_isControlChar(
sub emitError\(XMLErrs::BadDigitForRadix, tmpStr\) => SC_emitError(XMLErrs::BadDigitForRadix)
sub (?<!SC_)emitError\( => SC_emitError(
@*/

/* spec (XML 1.0/1.1 production [66]): after '&#':  'x' [0-9a-fA-F]+ ';'  |  [0-9]+ ';' , value must be a legal Char */
static int spec_charref(const XMLCh *s, XMLSize_t n, uint32_t *val, XMLSize_t *used)
{
  XMLSize_t i = 0; unsigned radix = 10; uint32_t v = 0; int digits = 0;
  if (i < n && s[i] == 'x') { radix = 16; i++; }
  for (; i < n; i++) {
    XMLCh c = s[i]; unsigned d;
    if (c >= '0' && c <= '9') d = c - '0';
    else if (radix == 16 && c >= 'a' && c <= 'f') d = 10 + c - 'a';
    else if (radix == 16 && c >= 'A' && c <= 'F') d = 10 + c - 'A';
    else break;
    if (v <= 0x10FFFF) v = v * radix + d;   /* saturate: anything above 0x10FFFF is illegal anyway */
    digits++;
  }
  if (digits == 0 || i >= n || s[i] != ';') return 0;
  *val = v; *used = i + 1;
  return 1;
}

void h_scanCharRef(void)
{
  VERIF_INPUT(INPUT); VERIF_INPUT(LEN); VERIF_INPUT(XMLCHAR_T); VERIF_INPUT(CONTROL_T);
  VERIF_ASSUME(LEN <= NIN);
  for (XMLSize_t k = 0; k < NIN; k++) VERIF_ASSUME(k >= LEN || INPUT.a[k] != 0);   /* 0 is the reader's end-of-input value */
  VERIF_ASSUME(!XMLCHAR[0] && !CONTROL[0]);   /* #x0 is in neither class (proved of the real tables in chartab_*): '&#;' and '&#0;' rely on it */
  POS = 0; ERR_COUNT = 0; ERR_FATAL_COUNT = 0; verif_thrown = 0;
  XMLCh first = 0x1234, second = 0x1234;
  bool ok = XMLScanner_scanCharRef(&first, &second);
  VERIF_CANARY("after call");

  uint32_t v = 0; XMLSize_t used = 0;
  int wf = spec_charref(INPUT.a, LEN, &v, &used);
  /* BMP legality is table-driven (XMLCHAR||CONTROL == production [2] Char of the reader's version, no surrogates,
     proved in chartab_*); #xFFFE/#xFFFF and everything above #x10FFFF are rejected whatever the tables say */
  int legal = wf && ((v >= 0x10000 && v <= 0x10FFFF) || (v <= 0xFFFD && (XMLCHAR[v] || CONTROL[v])));
  if (legal) {
    __CPROVER_assert(ok && !verif_thrown && ERR_COUNT == 0, "C02: a well-formed reference to a legal character is accepted without error");
    __CPROVER_assert(POS == used, "C03: exactly the reference is consumed");
    uint16_t u[2]; int k = spec_utf16_units(v, u);
    __CPROVER_assert(first == u[0] && second == (k == 2 ? u[1] : 0), "C03: the reference delivers exactly its code point (BMP unit or surrogate pair)");
  } else {
    __CPROVER_assert(verif_thrown || ERR_FATAL_COUNT >= 1, "C02: a malformed or illegal character reference raises a fatal error (or the EOF exception), never silently accepted");
    if (verif_thrown) __CPROVER_assert(verif_throw_type == VT_UnexpectedEOFException, "C01: documented exception type");
  }
  __CPROVER_assert(POS <= LEN, "C01: reader position in range");
}
