//@ unit chartab_11
//@ props C02
//@ kind L
//@ entry h_chartab_11
//@ timeout quick=600 thorough=1800
//@ note L: one symbolic XMLCh c, the real 64K table fgCharCharsTable1_1 copied textually on every run; complete for all 65536 code units
//@ note in the 1.1 table gXMLCharMask means "Char that may appear literally" = [2] Char minus [2a] RestrictedChar; gControlCharMask is the C0/C1 control range of XML 1.1 section 1.3 ([#x1-#x1F] | [#x7F-#x9F]), a superset of RestrictedChar; what the scanners need (scanCharRef: legal reference <=> isXMLChar || isControlChar) is stated as the obligation "gXMLCharMask | gControlCharMask <=> [2] Char"
//@ note the classes Char, RestrictedChar, S, NameStartChar, NameChar, NCName are productions; control / plain content / special start tag are fast-path classes whose definition is taken from the documented intent (XMLChar.cpp table generator comments) and XML 1.1 section 2.11 (NEL and LSEP are line ends and need end-of-line handling, so they are not "plain" and are "special")
#define VERIF_DEFINE_GHOSTS
#include "verif_prelude.h"
#include "xmlchars.h"

//@ table src/xercesc/util/XMLChar.hpp gNCNameCharMask
//@ table src/xercesc/util/XMLChar.hpp gFirstNameCharMask
//@ table src/xercesc/util/XMLChar.hpp gNameCharMask
//@ table src/xercesc/util/XMLChar.hpp gPlainContentCharMask
//@ table src/xercesc/util/XMLChar.hpp gSpecialStartTagCharMask
//@ table src/xercesc/util/XMLChar.hpp gControlCharMask
//@ table src/xercesc/util/XMLChar.hpp gXMLCharMask
//@ table src/xercesc/util/XMLChar.hpp gWhitespaceCharMask
//@ table src/xercesc/util/XMLChar.cpp fgCharCharsTable1_1

void h_chartab_11(void)
{
  XMLCh c;
  VERIF_INPUT(c);
  XMLByte t = fgCharCharsTable1_1[c];
  VERIF_CANARY("after call");
  __CPROVER_assert(((t & gXMLCharMask) != 0) == (spec_xml11_Char(c) && !spec_xml11_RestrictedChar(c)), "C02: table 1.1 gXMLCharMask <=> XML 1.1 [2] Char minus [2a] RestrictedChar");
  __CPROVER_assert(((t & (gXMLCharMask | gControlCharMask)) != 0) == spec_xml11_Char(c), "C02: table 1.1 gXMLCharMask | gControlCharMask <=> XML 1.1 [2] Char (legal character reference)");
  __CPROVER_assert(!spec_xml11_RestrictedChar(c) || (t & gControlCharMask) != 0, "C02: table 1.1 every [2a] RestrictedChar has gControlCharMask");
  __CPROVER_assert(((t & gControlCharMask) != 0) == spec_xml11_C0C1Control(c), "C02: table 1.1 gControlCharMask <=> C0/C1 controls [#x1-#x1F] | [#x7F-#x9F] (XML 1.1 section 1.3)");
  __CPROVER_assert(((t & gWhitespaceCharMask) != 0) == spec_xml_S(c), "C02: table 1.1 gWhitespaceCharMask <=> XML 1.1 [3] S");
  __CPROVER_assert(((t & gFirstNameCharMask) != 0) == spec_xml_NameStartChar(c), "C02: table 1.1 gFirstNameCharMask <=> XML 1.1 [4] NameStartChar");
  __CPROVER_assert(((t & gNameCharMask) != 0) == spec_xml_NameChar(c), "C02: table 1.1 gNameCharMask <=> XML 1.1 [4a] NameChar");
  __CPROVER_assert(((t & gNCNameCharMask) != 0) == spec_xml_NCNameChar(c), "C02: table 1.1 gNCNameCharMask <=> NameChar minus ':' (Namespaces 1.1 [4])");
  __CPROVER_assert(((t & gPlainContentCharMask) != 0) == (spec_xml11_Char(c) && !spec_xml11_RestrictedChar(c) && !spec_xml11_LineEnd(c) && c != '<' && c != '&' && c != ']'),
                   "C02: table 1.1 gPlainContentCharMask <=> (Char minus RestrictedChar) minus {line ends CR LF NEL LSEP, '<', '&', ']'}");
  __CPROVER_assert(((t & gSpecialStartTagCharMask) != 0) == (spec_xml_S(c) || spec_xml11_LineEnd(c) || c == 0 || c == '/' || c == '>' || c == '<' || c == '\'' || c == '"'),
                   "C02: table 1.1 gSpecialStartTagCharMask <=> S, line ends, or one of NUL / > < ' \"");
}
