//@ unit str_fixuri_w
//@ props C01
//@ kind W
//@ def quick STRN=6
//@ def thorough STRN=9
//@ cbmc all --unwind 11 --unwinding-assertions
//@ entry h_str_fixuri
//@ note W: complete for every path of length < STRN (all 16-bit units; null allowed), source END-aligned at its NUL; loops fully unwound, unwinding assertions on
//@ note target buffer as allocated by the three callers (DOMDocumentImpl::setDocumentURI, DOMNotationImpl / DOMEntityImpl::setBaseURI): stringLen(str) + 9 elements, END-aligned (the header only says "pre-allocated"); the longest result is "file:///" + path + NUL = length + 9
//@ note indexOf, isAlpha, copyString are the real bodies
#define VERIF_DEFINE_GHOSTS
#include "verif_prelude.h"

/*@extract src/xercesc/util/XMLString.cpp XMLString::indexOf
as XMLString_indexOf
params const XMLCh* const toSearch, const XMLCh ch
static
@*/
/*@extract src/xercesc/util/XMLString.cpp XMLString::isAlpha
static
@*/
/*@extract src/xercesc/util/XMLString.cpp XMLString::copyString
params XMLCh* const target, const XMLCh* const src
static
@*/
/*@extract src/xercesc/util/XMLString.cpp XMLString::fixURI
call copyString => XMLString_copyString
@*/

struct { XMLCh a[STRN]; } S1;
struct { XMLCh a[STRN + 8]; } T1;
static const XMLCh PFX[8] = { 'f', 'i', 'l', 'e', ':', '/', '/', '/' };
void h_str_fixuri(void)
{
  XMLSize_t n; _Bool isnull;
  VERIF_INPUT(S1); VERIF_INPUT(T1); VERIF_INPUT(n); VERIF_INPUT(isnull);
  VERIF_ASSUME(n >= 1 && n <= STRN);
  const XMLCh *s = S1.a + (STRN - n);
  VERIF_ASSUME(s[n - 1] == 0);
  for (XMLSize_t k = 0; k + 1 < n; k++) VERIF_ASSUME(s[k] != 0);
  XMLSize_t len = n - 1;
  XMLCh *t = T1.a + (STRN + 8 - (len + 9));     /* exactly len + 9 elements */
  XMLCh t0 = t[0];
  verif_thrown = 0;

  XMLString_fixURI(isnull ? (const XMLCh *)0 : s, t);
  VERIF_CANARY("after fixURI");

  if (isnull || len == 0) {
    __CPROVER_assert(t[0] == t0, "C01: fixURI leaves the target alone for a null or empty path");
  } else {
    /* spec (XMLString.hpp): '/...' without ':' -> file:// + path;  'x:...' -> file:/// + path with \ (and the yen / won signs) turned into '/';  else copy */
    int colon = -1;
    for (XMLSize_t k = 0; k < len && colon < 0; k++) if (s[k] == chColon) colon = (int)k;
    int unixabs = colon == -1 && s[0] == chForwardSlash;
    int drive = colon == 1 && ((s[0] >= 'a' && s[0] <= 'z') || (s[0] >= 'A' && s[0] <= 'Z'));
    XMLSize_t plen = unixabs ? 7 : drive ? 8 : 0;
    for (XMLSize_t k = 0; k < 8; k++) if (k < plen) __CPROVER_assert(t[k] == PFX[k], "C01: fixURI prefix file:// or file:///");
    for (XMLSize_t k = 0; k < STRN; k++)
      if (k < len) {
        XMLCh c = s[k];
        if (drive && (c == chBackSlash || c == chYenSign || c == chWonSign)) c = chForwardSlash;
        __CPROVER_assert(t[plen + k] == c, "C01: fixURI copies the path (separators normalised for a drive path)");
      }
    __CPROVER_assert(t[plen + len] == 0, "C01: fixURI terminates the result inside the length + 9 buffer");
    if (drive && len > 3) VERIF_CANARY("fixURI: drive path reachable");
    if (unixabs && len > 2) VERIF_CANARY("fixURI: absolute unix path reachable");
  }
}
