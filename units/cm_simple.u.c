//@ unit cm_simple
//@ props C07 C08 C01
//@ kind W
//@ def quick NCH=4 NALPHA=3
//@ def thorough NCH=6 NALPHA=3
//@ cbmc quick --unwind 6 --unwinding-assertions
//@ cbmc thorough --unwind 8 --unwinding-assertions
//@ entry h_cm_simple
//@ note W: complete for every child sequence of length <= NCH over an alphabet of NALPHA names (ids), every fOp value, fDTD true/false, validateContent and validateContentSpecial
//@ note names are ids (contracts/cm_common.inc): raw name, local part and namespace id are independent inputs; SubstitutionGroupComparator::isEquivalentTo is an arbitrary harness-chosen relation on expanded names
//@ note NOT in scope: construction of the model (DTDElementDecl::createChildModel / ComplexTypeInfo::makeContentModel, ContentSpecNode trees), DTDValidator::checkContent dispatch, SchemaValidator, TraverseSchema; exactness of the failing-child index is unit cm_simple_idx
#define VERIF_DEFINE_GHOSTS
#include "verif_prelude.h"
//@ include cm_common.inc
//@ include cm_simple_body.inc

void h_cm_simple(void)
{
  cm_simple_run();
  VERIF_CANARY("after call");
  if (R_opknown) {
    __CPROVER_assert(!verif_thrown, "C01: no exception for a known operation");
    __CPROVER_assert((R_res != 0) == (R_ok != 0), "C07/C08: validateContent[Special] returns true iff the child sequence is in the language of the simple model (a, a?, a*, a+, a|b, a,b)");
    if (!R_res) __CPROVER_assert(R_idx <= R_n, "C01: on failure *indexFailingChild <= childCount (the caller indexes fChildren[failure] only when failure < fChildCount)");
    if (!R_res) __CPROVER_assert(R_idx != (XMLSize_t)0x5A5A, "C01: on failure *indexFailingChild is written");
  } else {
    __CPROVER_assert(verif_thrown && verif_throw_type == VT_RuntimeException && verif_throw_code == XMLExcepts_CM_UnknownCMSpecType, "C01: an unknown operation raises RuntimeException(CM_UnknownCMSpecType)");
  }
}
