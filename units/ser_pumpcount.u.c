//@ unit ser_pumpcount
//@ props C16 C01
//@ kind W
//@ cbmc all --unwind 22 --unwinding-assertions
//@ entry h_ser_pumpcount
//@ note W: complete over every fObjectCount (32 bit) for pumpCount and every XMLSize_t value (64 bit) x every maxChars >= 20 for the sizeToText contract; the digit loops (<= 20 decimal digits of a 64-bit value) and the reversal loop are fully unwound with unwinding assertions
//@ note pumpCount, the TEST_THROW_ARG1/2 macros, addLoadPool, lookupLoadPool and read(XProtoType*, ..) format numbers into `XMLCh value[64]` with maxChars = 65. XMLString.hpp documents "the size of this buffer should at least be maxChars + 1" (= 66 > 64): the DOCUMENTED requirement is violated at every one of these call sites. The real bodies of sizeToText / binToText write min(digits, maxChars) + 1 elements, and a 64-bit value has at most 20 decimal digits, so no byte outside value1/value2 is touched: that (the actual behaviour) is what this unit proves; the mismatch is latent (it would become an overrun only for a radix-2 call or a wider XMLSize_t) and is reported as an observation, not as a violation
//@ note part B proves the contract under which the other ser_* units replace XMLString::sizeToText (contracts/XSerializeEngine_common.inc): radix 10, maxChars >= 20 => never throws, writes at most 21 elements, NUL-terminated
#define VERIF_DEFINE_GHOSTS
#include "verif_prelude.h"
#define VERIF_REAL_SIZETOTEXT
//@ include XSerializeEngine_common.inc
//@ table src/xercesc/internal/XSerializeEngine.cpp fgMaxObjectCount

/*@extract src/xercesc/util/XMLString.cpp XMLString::sizeToText
params const XMLSize_t toFormat , XMLCh* const
@*/
/*@extract src/xercesc/util/XMLString.cpp XMLString::binToText
params unsigned long toFormat , XMLCh* const
as XMLString_binToText_ulong
@*/
/*@extract src/xercesc/util/XMLString.cpp XMLString::binToText
params const unsigned int toFormat , XMLCh* const
as XMLString_binToText_uint
call binToText => XMLString_binToText_ulong
throws XMLString_binToText_ulong
@*/
/*@extract src/xercesc/internal/XSerializeEngine.cpp XSerializeEngine::pumpCount
call XMLString_binToText => XMLString_binToText_uint
throws XMLString_sizeToText XMLString_binToText_uint
@*/

struct { XMLCh a[21]; } T21;
void h_ser_pumpcount(void)
{
  _Bool partB; XMLSize_t v, mc; XSerializedObjectId_t cnt;
  VERIF_INPUT(partB); VERIF_INPUT(v); VERIF_INPUT(mc); VERIF_INPUT(cnt); VERIF_INPUT(T21);
  verif_thrown = 0;
  if (!partB) {
    /* A: pumpCount over every counter value; cbmc checks every write to the local value1[64] / value2[64] */
    fObjectCount = cnt;
    XSerializeEngine_pumpCount();
    if (cnt >= fgMaxObjectCount) {
      __CPROVER_assert(verif_thrown && verif_throw_type == VT_XSerializationException && verif_throw_code == XMLExcepts_XSer_ObjCount_UppBnd_Exceed,
                       "C16: object count at the upper bound is rejected with XSerializationException");
      __CPROVER_assert(fObjectCount == cnt, "C16: rejected pump leaves the counter alone");
    } else {
      __CPROVER_assert(!verif_thrown && fObjectCount == cnt + 1, "C16: pumpCount increments the counter");
    }
  } else {
    /* B: the sizeToText contract of XSerializeEngine_common.inc against the real body; 21-element object */
    VERIF_ASSUME(mc >= 20);
    XMLString_sizeToText(v, T21.a, mc, 10, (MemoryManager *)0);
    __CPROVER_assert(!verif_thrown, "C01: sizeToText(radix 10, maxChars >= 20) never throws for a 64-bit value");
    __CPROVER_assert(T21.a[0] != 0 && (T21.a[1] == 0 || T21.a[2] == 0 || T21.a[3] == 0 || T21.a[4] == 0 || T21.a[5] == 0 || T21.a[6] == 0 ||
                     T21.a[7] == 0 || T21.a[8] == 0 || T21.a[9] == 0 || T21.a[10] == 0 || T21.a[11] == 0 || T21.a[12] == 0 || T21.a[13] == 0 ||
                     T21.a[14] == 0 || T21.a[15] == 0 || T21.a[16] == 0 || T21.a[17] == 0 || T21.a[18] == 0 || T21.a[19] == 0 || T21.a[20] == 0),
                     "C01: result is a non-empty NUL-terminated string of at most 20 digits");
  }
  VERIF_CANARY("after call");
}
