//@ unit rdr_peekString
//@ props C01 C04
//@ kind P
//@ def quick kCharBufSize=4 STRMAX=6
//@ def thorough kCharBufSize=8 STRMAX=10
//@ rebind src/xercesc/internal/XMLReader.hpp kCharBufSize
//@ enforce XMLReader_peekString
//@ replace XMLReader_refreshCharBuffer
//@ replace XMLString_stringLen
//@ replace VERIF_memcmp
//@ entry h_peekString
//@ note P: refills unbounded through the loop contract; the string argument lives in a harness object of STRMAX+1 elements (cbmc needs finite objects), its length is arbitrary up to STRMAX > kCharBufSize
//@ note assumed: XMLString::stringLen returns the length of its argument (unit str_len); memcmp reads only the first n bytes of both operands and returns 0 only if they agree (ISO C)
//@ note refreshCharBuffer is replaced by the contract proved in unit rdr_refreshCharBuffer (contracts/XMLReader_ri2.inc); its universal ghost G is THE index at which "the unread sequence is unchanged" is stated
//@ note charsLeftInBuffer is extracted and verified in place
#define VERIF_DEFINE_GHOSTS
#include "verif_prelude.h"
//@ struct src/xercesc/internal/XMLReader.hpp XMLReader only=auto
//@ include XMLReader_ri2.inc
//@ include XMLReader_str.inc
/* entry ghosts (harness-owned, never assigned): number of spare characters, the G-th of them */
XMLSize_t SPARE0; XMLCh UG0;
#define CUR_G (fCharBuf[(fCharIndex + G < kCharBufSize) ? fCharIndex + G : 0])    /* G-th character of the unread sequence */

/*@extract src/xercesc/internal/XMLReader.cpp XMLReader::peekString
ret false
sub \bmemcmp\( => VERIF_memcmp(
call refreshCharBuffer => XMLReader_refreshCharBuffer
call charsLeftInBuffer => XMLReader_charsLeftInBuffer
throws XMLReader_refreshCharBuffer
contract
__CPROVER_requires(RI_RDR && !verif_thrown && G < kCharBufSize && toPeek == STRP)
__CPROVER_requires(SPARE0 == fCharsAvail - fCharIndex && UG0 == CUR_G)
__CPROVER_assigns(fCharIndex, fCharsAvail, fNoMore, __CPROVER_object_upto(fCharBuf, sizeof(fCharBuf)), verif_thrown, verif_throw_type, verif_throw_code)
/* C01 */
__CPROVER_ensures(RI_RDR && (verif_thrown ==> !__CPROVER_return_value))
/* C04: success or failure, nothing is consumed: the unread sequence is unchanged (it may have grown at the far end) wherever the refills fell;
   line and column are not even in the frame */
__CPROVER_ensures(!verif_thrown ==> (fCharsAvail - fCharIndex >= SPARE0 && (G < SPARE0 ==> CUR_G == UG0)))
/* success: the next strlen unread characters are the string */
__CPROVER_ensures(__CPROVER_return_value ==> fCharsAvail - fCharIndex >= SRCLEN)
__CPROVER_ensures((__CPROVER_return_value && G < SRCLEN) ==> (CUR_G == STRP[G] && (G < SPARE0 ==> UG0 == STRP[G])))
loop 1
__CPROVER_assigns(charsLeft, fCharIndex, fCharsAvail, fNoMore, __CPROVER_object_upto(fCharBuf, sizeof(fCharBuf)), verif_thrown, verif_throw_type, verif_throw_code)
__CPROVER_loop_invariant(RI_RDR && !verif_thrown && charsLeft == fCharsAvail - fCharIndex && charsLeft >= SPARE0)
__CPROVER_loop_invariant((G < SPARE0) ==> CUR_G == UG0)
/* every round must enlarge the window, which is bounded by the buffer */
__CPROVER_decreases(kCharBufSize - charsLeft)
@*/

void h_peekString(void)
{
  VERIF_INPUT(SELF);
  STR_SETUP();
  verif_thrown = 0;
  XMLReader_peekString(STRP);
  VERIF_CANARY("after call");
}
