//@ unit cm_node_binary
//@ props C07 C08 C01
//@ kind L
//@ entry h_cm_node_binary
//@ note L: loop-free, complete: CMBinaryOp (constructor, calcFirstPos, calcLastPos, orphanChild) + the real CMNode base (constructor, getFirstPos / getLastPos lazy caching, isNullable, getType) for EVERY node type value (the low nibble selects Choice / Sequence, the high bits carry model-group flags), every pair of children (any nullable flags, any first / last position sets over maxStates = 1..32 positions, sets cached or not)
//@ note obligation (XML 1.0 3.2.1 [49] choice: any one of the content particles, [50] seq: each of the content particles in order; position automaton): the empty sequence matches (a|b) iff it matches a or b, and (a,b) iff it matches both; a match of (a|b) starts / ends where a match of a or of b starts / ends; a match of (a,b) starts where a starts, or where b starts when a can be empty; it ends where b ends, or where a ends when b can be empty
//@ note model (contracts/cm_node.inc): CMStateSet = 32-bit word so that the code's own `=` / `|=` are set copy / union (real class: cm_stateset_ops); virtual dispatch = switch on the receiver's identity; `this` = THISNODE (base part) + SELF (derived part); maxStates <= 32
//@ note NOT in scope: buildSyntaxTree (how the nodes are combined, followpos), destructor
#define VERIF_DEFINE_GHOSTS
#include "verif_prelude.h"
//@ include cm_node.inc
//@ struct src/xercesc/validators/common/CMBinaryOp.hpp CMBinaryOp structs=CMNode

/*@extract src/xercesc/validators/common/CMBinaryOp.cpp CMBinaryOp::CMBinaryOp
sub (?<![\w.>:])CMNode\( => CMNode_CMNode(&THISNODE,
sub (?<![\w.>])fIsNullable\b => THISNODE.fIsNullable
method fLeftChild->isNullable => CMNode_isNullable
method fRightChild->isNullable => CMNode_isNullable
@*/
/*@extract src/xercesc/validators/common/CMBinaryOp.cpp CMBinaryOp::calcFirstPos
sub* (?<![\w.>])getType\(\) => CMNode_getType(&THISNODE)
method fLeftChild->getFirstPos => *CMNode_getFirstPos
method fRightChild->getFirstPos => *CMNode_getFirstPos
method fLeftChild->isNullable => CMNode_isNullable
method fRightChild->isNullable => CMNode_isNullable
@*/
/*@extract src/xercesc/validators/common/CMBinaryOp.cpp CMBinaryOp::calcLastPos
sub* (?<![\w.>])getType\(\) => CMNode_getType(&THISNODE)
method fLeftChild->getLastPos => *CMNode_getLastPos
method fRightChild->getLastPos => *CMNode_getLastPos
method fLeftChild->isNullable => CMNode_isNullable
method fRightChild->isNullable => CMNode_isNullable
@*/
/*@extract src/xercesc/validators/common/CMBinaryOp.cpp CMBinaryOp::orphanChild
sub \bdelete\b => VERIF_DELETE
@*/

static void v_calcFirstPos(struct CMNode *self, CMStateSet *toSet) { if (self == &THISNODE) CMBinaryOp_calcFirstPos(toSet); else child_stub_calc(self, toSet, 0); }
static void v_calcLastPos(struct CMNode *self, CMStateSet *toSet)  { if (self == &THISNODE) CMBinaryOp_calcLastPos(toSet);  else child_stub_calc(self, toSet, 1); }

void h_cm_node_binary(void)
{
  int type; unsigned maxStates;
  VERIF_INPUT(type); VERIF_INPUT(maxStates); VERIF_INPUT(SELF);
  cm_node_setup_children(maxStates);
  CMBinaryOp_CMBinaryOp(type, &CHILD1, &CHILD2, maxStates, (MemoryManager *)0);
  VERIF_CANARY("after constructor");
  int choice = (type & 0x0f) == ContentSpecNode_Choice, seq = (type & 0x0f) == ContentSpecNode_Sequence;
  if (!choice && !seq) {
    __CPROVER_assert(verif_thrown && verif_throw_type == VT_RuntimeException && verif_throw_code == XMLExcepts_CM_BinOpHadUnaryType, "C01: a binary node that is neither a choice nor a sequence raises RuntimeException(CM_BinOpHadUnaryType)");
    return;
  }
  __CPROVER_assert(!verif_thrown, "C01: constructing a choice / sequence node does not throw");
  __CPROVER_assert(CMNode_getType(&THISNODE) == type && fLeftChild == &CHILD1 && fRightChild == &CHILD2 && THISNODE.fMaxStates == maxStates && THISNODE.fFirstPos == 0 && THISNODE.fLastPos == 0, "C07/C08: the node records its type, children (in order) and state count; no position set yet");
  int na = CH1.nullable != 0, nb = CH2.nullable != 0;
  int nullable_spec = choice ? (na || nb) : (na && nb);
  __CPROVER_assert((CMNode_isNullable(&THISNODE) != 0) == nullable_spec, "C07/C08: nullable(a|b) = nullable(a) or nullable(b); nullable(a,b) = nullable(a) and nullable(b)");
  CMStateSet *f = CMNode_getFirstPos(&THISNODE);
  CMStateSet *l = CMNode_getLastPos(&THISNODE);
  VERIF_CANARY("after getFirstPos/getLastPos");
  if (choice) VERIF_CANARY("choice reachable");
  if (seq && na && !nb) VERIF_CANARY("sequence with nullable left child reachable");
  __CPROVER_assert(!verif_thrown && !SS_BADCOUNT, "C01: position sets are created with the node's state count, nothing throws");
  __CPROVER_assert(f == THISNODE.fFirstPos && l == THISNODE.fLastPos && f != l && f != CHILD1.fFirstPos && f != CHILD2.fFirstPos && l != CHILD1.fLastPos && l != CHILD2.fLastPos, "C01: the node owns its two position sets (no aliasing with the children's sets, which die with the children)");
  CMStateSet first_spec = choice ? (CH1.first | CH2.first) : (na ? (CH1.first | CH2.first) : CH1.first);
  CMStateSet last_spec  = choice ? (CH1.last | CH2.last)   : (nb ? (CH2.last | CH1.last)   : CH2.last);
  __CPROVER_assert(*f == first_spec, "C07/C08: firstpos(a|b) = firstpos(a) U firstpos(b); firstpos(a,b) = firstpos(a) U (nullable(a) ? firstpos(b) : {})");
  __CPROVER_assert(*l == last_spec, "C07/C08: lastpos(a|b) = lastpos(a) U lastpos(b); lastpos(a,b) = lastpos(b) U (nullable(b) ? lastpos(a) : {})");
  __CPROVER_assert(CHILD1.fFirstPos != 0 && *CHILD1.fFirstPos == CH1.first && CHILD2.fLastPos != 0 && *CHILD2.fLastPos == CH2.last
                   && (CHILD1.fLastPos == 0 || *CHILD1.fLastPos == CH1.last) && (CHILD2.fFirstPos == 0 || *CHILD2.fFirstPos == CH2.first)
                   && (CHILD1.fIsNullable != 0) == na && (CHILD2.fIsNullable != 0) == nb, "C07/C08: the children's own sets and flags are unchanged");
  /* buildSyntaxTree: fault in both sets, THEN orphanChild(); later readers get the cached sets */
  CMBinaryOp_orphanChild();
  __CPROVER_assert(fLeftChild == 0 && fRightChild == 0 && N_DELETED == 2, "C01: orphanChild releases each child exactly once and forgets both");
  int ncalc = N_CHILD_CALC; unsigned nsets = SS_USED;
  __CPROVER_assert(CMNode_getFirstPos(&THISNODE) == f && CMNode_getLastPos(&THISNODE) == l && *f == first_spec && *l == last_spec && N_CHILD_CALC == ncalc && SS_USED == nsets && !verif_thrown,
                   "C07/C08: after orphanChild the cached position sets are returned unchanged, the (deleted) children are not consulted again");
  __CPROVER_assert((CMNode_isNullable(&THISNODE) != 0) == nullable_spec, "C07/C08: nullable is unchanged by orphanChild");
}
