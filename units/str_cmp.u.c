//@ unit str_cmp
//@ props C01
//@ kind P
//@ def quick STRN=6
//@ def thorough STRN=12
//@ enforce XMLString_compareString
//@ enforce XMLString_compareNString
//@ replace XMLString_stringLen
//@ entry h_str_cmp
//@ note P: iterations unbounded through loop contracts; string buffers bounded by -DSTRN, END-aligned at the own NUL (compareString, equals, ...ASCII) or at the last unit the comparison may look at (compareNString, equalsN)
//@ note functional spec by witness: the harness picks KW and assumes (finite conjunction over the STRN elements) that the strings agree and have not ended before KW and differ or end at KW; every pair of strings has such a KW, so the postcondition "result = difference of the units at KW" is the complete spec (sign = first differing unit)
//@ note compareIString / compareNIString only forward to the transcoding service (virtual, ICU build): not in the subset; compareIStringASCII is covered in str_icmp_w, equals/equalsN in str_equals
#define VERIF_DEFINE_GHOSTS
#include "verif_prelude.h"
//@ include str_common.inc
XMLSize_t KW, NW;
const XMLCh *P1, *P2;           /* ghost copies of the arguments (equals/equalsN advance their parameters) */
#define SL_LEN ((src == P2) ? LEN2 : LEN1)

/*@extract src/xercesc/util/XMLString.hpp XMLString::stringLen
params const XMLCh* const src
declonly
contract
//@ include str_stringLen.contract.inc
@*/

/*@extract src/xercesc/util/XMLString.cpp XMLString::compareString
params const XMLCh* const str1 , const XMLCh* const str2
call XMLString::stringLen => XMLString_stringLen
sub (?<![\w\(])int\(([^()]*)\) => ((int)(\1))
contract
__CPROVER_requires(G < STRN && KW < STRN && LEN1 < STRN && LEN2 < STRN && P1 == str1 && P2 == str2)
__CPROVER_requires(str1 == 0 || STR_IS(str1, LEN1))
__CPROVER_requires(str2 == 0 || (STR_IS(str2, LEN2) && str2 != str1))
__CPROVER_requires((str1 != 0 && str2 != 0) ==> (KW <= LEN1 && KW <= LEN2 && EQ_BEFORE(str1, str2, KW) && (str1[KW] != str2[KW] || str1[KW] == 0)))
__CPROVER_assigns()
__CPROVER_ensures((str1 != 0 && str2 != 0) ==> __CPROVER_return_value == (int)str1[KW] - (int)str2[KW])
__CPROVER_ensures((str1 == 0 && str2 != 0) ==> __CPROVER_return_value == 0 - (int)LEN2)
__CPROVER_ensures((str1 != 0 && str2 == 0) ==> __CPROVER_return_value == (int)LEN1)
__CPROVER_ensures((str1 == 0 && str2 == 0) ==> __CPROVER_return_value == 0)
loop 1
__CPROVER_assigns(psz1, psz2)
__CPROVER_loop_invariant(PTR_IN(psz1, str1, KW) && PTR_IN(psz2, str2, KW) && PIDX(psz1, str1) == PIDX(psz2, str2))
__CPROVER_decreases(KW - PIDX(psz1, str1))
@*/

/*@extract src/xercesc/util/XMLString.cpp XMLString::compareNString
params const XMLCh* const str1 , const XMLCh* const str2 , const XMLSize_t maxChars
sub (?<![\w\(])int\(([^()]*)\) => ((int)(\1))
contract
//@ include str_compareNString.contract.inc
loop 1
__CPROVER_assigns(psz1, psz2, curCount)
__CPROVER_loop_invariant(PTR_IN(psz1, str1, KW) && PTR_IN(psz2, str2, KW) && PIDX(psz1, str1) == curCount && PIDX(psz2, str2) == curCount)
__CPROVER_decreases(KW - curCount)
@*/




struct { XMLCh a[STRN]; } S1, S2;
void h_str_cmp(void)
{
  XMLSize_t l1, l2, maxChars; _Bool null1, null2;
  VERIF_INPUT(S1); VERIF_INPUT(S2); VERIF_INPUT(G); VERIF_INPUT(KW); VERIF_INPUT(l1); VERIF_INPUT(l2); VERIF_INPUT(maxChars);
  VERIF_INPUT(null1); VERIF_INPUT(null2);
  VERIF_ASSUME(l1 < STRN && l2 < STRN);
  const XMLCh *s1 = null1 ? (const XMLCh *)0 : S1.a + (STRN - (l1 + 1));
  const XMLCh *s2 = null2 ? (const XMLCh *)0 : S2.a + (STRN - (l2 + 1));
  LEN1 = l1; LEN2 = l2; P1 = s1; P2 = s2;
  verif_thrown = 0;

  int r1 = XMLString_compareString(s1, s2);
  VERIF_CANARY("after compareString");
  if (null1 && !null2) VERIF_CANARY("compareString: null first argument reachable");
  if (!null1 && !null2 && r1 == 0) VERIF_CANARY("compareString: equal strings reachable");

  /* compareNString / equalsN: buffers end where the comparison may stop (KW units, or KW+1 when KW < maxChars) */
  VERIF_ASSUME(KW <= maxChars);
  XMLSize_t need = (KW == maxChars) ? KW : KW + 1;
  const XMLCh *t1 = S1.a + (STRN - need), *t2 = S2.a + (STRN - need);
  int r3 = XMLString_compareNString(t1, t2, maxChars);
  VERIF_CANARY("after compareNString");
  if (KW == maxChars && KW > 0) VERIF_CANARY("compareNString: count exhausted reachable");
}
