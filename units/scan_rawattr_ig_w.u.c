//@ unit scan_rawattr_ig_w
//@ props C02 C03 C01
//@ kind W
//@ def quick NIN=5 NERR=5
//@ def thorough NIN=7 NERR=7
//@ cbmc quick --unwind 7 --unwinding-assertions
//@ cbmc thorough --unwind 9 --unwinding-assertions
//@ timeout quick=600 thorough=1800
//@ entry h_rawAttrScan
//@ note W: complete for every TOKEN sequence of length <= NIN after the element name (tokens: name, malformed name, '=', quoted value, unterminated quote, white space, '/', '>', '<', other character, end of input), every initial size of the pair vector, colon list capacity 1 or 2 (so that the growth path is taken)
//@ note token-level stubs (contracts/scan_rawattr_harness.inc): getQName and basicAttrValueScan consume one token (their own syntax is proved in rdr_getQName / scan_attvalue_basic_*); scanEq and resizeRawAttrColonList are the real functions; KVStringPair / RefVectorOf are recording sinks; emitError message arguments are not modelled
//@ note colon positions and the previous contents of the pair vector / colon list are distinct concrete markers, not symbolic values: rawAttrScan only stores and copies them, it never inspects them
#define VERIF_DEFINE_GHOSTS
#include "verif_prelude.h"
//@ include scan_rawattr_harness.inc

/*@extract src/xercesc/internal/XMLScanner.cpp XMLScanner::scanEq
ret false
sub* fReaderMgr\.skipPastSpaces\( => RM_skipPastSpaces(
sub* fReaderMgr\.skippedChar\( => RM_skippedChar(
@*/
#define SC_scanEq() XMLScanner_scanEq(false)

/*@extract src/xercesc/internal/IGXMLScanner.cpp IGXMLScanner::resizeRawAttrColonList
sub* fMemoryManager->allocate\s*\( => MM_allocate(
sub* fMemoryManager->deallocate\s*\( => MM_deallocate(
@*/

/*@extract src/xercesc/internal/IGXMLScanner.cpp IGXMLScanner::rawAttrScan
ret 0
call scanEq => SC_scanEq
call basicAttrValueScan => SC_basicAttrValueScan
call resizeRawAttrColonList => IGXMLScanner_resizeRawAttrColonList
throws SC_basicAttrValueScan
method toFill.size => RV_size
method toFill.addElement => RV_addElement
method toFill.elementAt => RV_elementAt
method curPair->set => KV_set
method fAttNameBuf.isEmpty => XB_isEmpty
method fAttNameBuf.getRawBuffer => XB_getRawBuffer
method fAttNameBuf.getLen => XB_getLen
method fAttValueBuf.getRawBuffer => XB_getRawBuffer
method fAttValueBuf.getLen => XB_getLen
sub* new \(fMemoryManager\) KVStringPair\s*\( => KV_new(
sub* fReaderMgr\.peekNextChar\( => RM_peekNextChar(
sub* fReaderMgr\.getNextChar\( => RM_getNextChar(
sub* fReaderMgr\.skippedChar\( => RM_skippedChar(
sub* fReaderMgr\.skipPastSpaces\( => RM_skipPastSpaces(
sub* fReaderMgr\.skipPastChar\( => RM_skipPastChar(
sub* fReaderMgr\.skipUntilInOrWS\( => RM_skipUntilInOrWS(
sub* fReaderMgr\.skipQuotedString\( => RMT_skipQuotedString(
sub* fReaderMgr\.getQName\( => RM_getQName(
sub* fReaderMgr\.getCurrentReader\(\)->isSpecialStartTagChar\( => RD_isSpecialStartTagChar(
sub* fReaderMgr\.getCurrentReader\(\)->isWhitespace\( => RD_isWhitespace(
sub* (?<![\w>])emitError\( => SC_emitErrorV(
@*/
#define SC_RAWATTR_CALL IGXMLScanner_rawAttrScan
//@ include scan_rawattr_harness2.inc
