//@ unit str_lower
//@ props C01
//@ kind P
//@ def quick STRN=6
//@ def thorough STRN=12
//@ enforce XMLString_lowerCaseASCII
//@ entry h_str_lower
//@ note P: see str_case (upperCaseASCII); same contract with the inverse mapping
#define VERIF_DEFINE_GHOSTS
#include "verif_prelude.h"
//@ include str_common.inc
#define LOW_ASCII(c) ((XMLCh)(((c) >= 0x41 && (c) <= 0x5A) ? (c) + 0x20 : (c)))

/*@extract src/xercesc/util/XMLString.cpp XMLString::lowerCaseASCII
contract
__CPROVER_requires(G < STRN && LEN1 < STRN)
__CPROVER_requires(toLowerCase == 0 || (STR_IS(toLowerCase, LEN1) && __CPROVER_w_ok(toLowerCase, (LEN1 + 1) * sizeof(XMLCh))))
__CPROVER_assigns(toLowerCase != 0: __CPROVER_object_upto(toLowerCase, (LEN1 + 1) * sizeof(XMLCh)))
__CPROVER_ensures(toLowerCase != 0 ==> toLowerCase[LEN1] == 0)
__CPROVER_ensures((toLowerCase != 0 && G < LEN1) ==> toLowerCase[CL(G, LEN1)] == LOW_ASCII(__CPROVER_old(toLowerCase[CL(G, LEN1)])))
loop 1
__CPROVER_assigns(psz1, __CPROVER_object_upto(toLowerCase, (LEN1 + 1) * sizeof(XMLCh)))
__CPROVER_loop_invariant(PTR_IN(psz1, toLowerCase, LEN1) && toLowerCase[LEN1] == 0 && NONUL_BEFORE(toLowerCase, LEN1))
__CPROVER_loop_invariant((G < PIDX(psz1, toLowerCase)) ==> toLowerCase[CL(G, LEN1)] == LOW_ASCII(__CPROVER_loop_entry(toLowerCase[CL(G, LEN1)])))
__CPROVER_loop_invariant((G >= PIDX(psz1, toLowerCase) && G <= LEN1) ==> toLowerCase[CL(G, LEN1)] == __CPROVER_loop_entry(toLowerCase[CL(G, LEN1)]))
__CPROVER_decreases(LEN1 - PIDX(psz1, toLowerCase))
@*/

struct { XMLCh a[STRN]; } S2;
void h_str_lower(void)
{
  XMLSize_t l1; _Bool isnull;
  VERIF_INPUT(S2); VERIF_INPUT(G); VERIF_INPUT(l1); VERIF_INPUT(isnull);
  VERIF_ASSUME(l1 < STRN);
  LEN1 = l1;
  verif_thrown = 0;
  XMLString_lowerCaseASCII(isnull ? (XMLCh *)0 : S2.a + (STRN - (l1 + 1)));
  VERIF_CANARY("after lowerCaseASCII");
  if (!isnull && l1 > 2) VERIF_CANARY("lowerCaseASCII: longer string reachable");
}
