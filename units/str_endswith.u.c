//@ unit str_endswith
//@ props C01
//@ kind L
//@ def quick STRN=6
//@ def thorough STRN=12
//@ enforce XMLString_endsWith
//@ replace XMLString_stringLen
//@ replace XMLString_regionMatches
//@ entry h_str_endswith
//@ note L: loop-free once the callees are replaced by their proved contracts (str_len, str_cmp, str_region_v, str_region); buffers bounded by -DSTRN, END-aligned at the NUL
#define VERIF_DEFINE_GHOSTS
#include "verif_prelude.h"
//@ include str_common.inc
XMLSize_t KW;
const XMLCh *P1, *P2;
#define SL_LEN ((src == P2) ? LEN2 : LEN1)
#define CNT_MAX ((XMLSize_t)1 << 62)
#define REGION_VALID (offset1 >= 0 && offset2 >= 0 && (XMLSize_t)offset1 + charCount <= LEN1 && (XMLSize_t)offset2 + charCount <= LEN2)

/*@extract src/xercesc/util/XMLString.hpp XMLString::stringLen
params const XMLCh* const src
declonly
contract
//@ include str_stringLen.contract.inc
@*/

/*@extract src/xercesc/util/XMLString.cpp XMLString::regionMatches
declonly
contract
//@ include str_regionMatches.contract.inc
@*/

/*@extract src/xercesc/util/XMLString.hpp XMLString::endsWith
call XMLString::stringLen => XMLString_stringLen
call regionMatches => XMLString_regionMatches
contract
__CPROVER_requires(G < STRN && KW < STRN && P1 == toTest && P2 == suffix && toTest != suffix)
__CPROVER_requires(STR_IS(toTest, LEN1) && STR_IS(suffix, LEN2))
__CPROVER_requires((LEN2 <= LEN1) ==> (KW <= LEN2 && EQ_BEFORE(toTest + (LEN1 - LEN2), suffix, KW) && (KW == LEN2 || toTest[LEN1 - LEN2 + KW] != suffix[KW])))
__CPROVER_assigns()
__CPROVER_ensures(__CPROVER_return_value == (LEN2 <= LEN1 && KW == LEN2))
@*/

struct { XMLCh a[STRN]; } S1, S2;
void h_str_endswith(void)
{
  XMLSize_t l1, l2, cnt; int o1, o2;
  VERIF_INPUT(S1); VERIF_INPUT(S2); VERIF_INPUT(G); VERIF_INPUT(KW); VERIF_INPUT(l1); VERIF_INPUT(l2); VERIF_INPUT(cnt); VERIF_INPUT(o1); VERIF_INPUT(o2);
  VERIF_ASSUME(l1 < STRN && l2 < STRN);
  const XMLCh *s1 = S1.a + (STRN - (l1 + 1));
  const XMLCh *s2 = S2.a + (STRN - (l2 + 1));
  LEN1 = l1; LEN2 = l2; P1 = s1; P2 = s2;
  verif_thrown = 0;

  bool e = XMLString_endsWith(s1, s2);
  VERIF_CANARY("after endsWith");
  if (e && l2 > 1 && l1 > l2) VERIF_CANARY("endsWith: true case reachable");
  if (l2 > l1) VERIF_CANARY("endsWith: suffix longer than the string reachable");
}
