//@ unit c11_tokenoverlap
//@ props C11
//@ kind L
//@ entry h_overlap
//@ note L: loop-free; RegularExpression::doTokenOverlap (decides whether the closure `x*` in front of the next operation may be compiled as a NON-backtracking loop) over an alphabet of 8 characters: every character class and negated class (bit sets), every character / string head, both operand kinds
//@ note obligation (soundness of the optimisation; C11 "matches() iff language membership"): the function may answer "no overlap" only if no character can both continue the closure and start what follows -- otherwise the greedy loop swallows a character the rest of the expression needs and a string of the language is rejected
//@ note trusted stubs: a RangeToken is its token type plus the set of its STORED ranges (for T_NRANGE the stored ranges are the excluded characters, RangeToken::match negates: unit c11_range_match); mergeRanges / intersectRanges / empty act on the stored sets as the real ones do (units c11_range_merge / c11_range_intersect); Op and Token accessors return harness fields
//@ note C11 as a whole stays "bounded only": this unit decides one function of the compiler, not the matcher
#define VERIF_DEFINE_GHOSTS
#include "verif_prelude.h"
enum { Op_O_CHAR = 1, Op_O_RANGE = 3, Op_O_STRING = 6, Op_O_DOT = 0 };
enum { Token_T_CHAR = 0, Token_T_RANGE = 4, Token_T_NRANGE = 5, Token_T_STRING = 10, Token_T_DOT = 11 };
typedef struct Token { int type; unsigned char set; XMLInt32 ch; XMLCh str[2]; } Token; typedef Token RangeToken;
typedef struct Op { int type; Token *tok; XMLInt32 data; XMLCh lit[2]; } Op;
MemoryManager *fMemoryManager;
static int OP_getOpType(const Op *o) { return o->type; }
static Token* OP_getToken(const Op *o) { return o->tok; }
static XMLInt32 OP_getData(const Op *o) { return o->data; }
static const XMLCh* OP_getLiteral(const Op *o) { return o->lit; }
static int TK_getTokenType(const Token *t) { return t->type; }
static XMLInt32 TK_getChar(const Token *t) { return t->ch; }
static const XMLCh* TK_getString(const Token *t) { return t->str; }
static bool TK_match(Token *t, XMLInt32 ch) { int in = ch >= 0 && ch < 8 && ((t->set >> ch) & 1); return t->type == Token_T_NRANGE ? !in : in; }
static void TK_mergeRanges(Token *t, const Token *o) { t->set |= o->set; }
static void TK_intersectRanges(Token *t, const Token *o) { t->set &= o->set; }
static bool TK_empty(const Token *t) { return t->set == 0; }
#define RANGETOKEN_LOCAL(name, type_, mm) RangeToken name; name.type = (type_); name.set = 0; name.ch = 0

/*@extract src/xercesc/util/regx/RegularExpression.cpp RegularExpression::doTokenOverlap
as RX_doTokenOverlap
sub* RangeToken\s+(\w+)\(([^,;]+),\s*fMemoryManager\); => RANGETOKEN_LOCAL(\1, \2, fMemoryManager);
sub* (\w+)->getOpType\(\) => OP_getOpType(\1)
sub* (\w+)->getToken\(\) => OP_getToken(\1)
sub* (\w+)->getData\(\) => OP_getData(\1)
sub* (\w+)->getLiteral\(\) => OP_getLiteral(\1)
sub* (\w+)->getTokenType\(\) => TK_getTokenType(\1)
sub* (\w+)->getChar\(\) => TK_getChar(\1)
sub* (\w+)->getString\(\) => TK_getString(\1)
sub* \(\(RangeToken\*\)(\w+)\)->match\( => TK_match(\1, 
sub* (\w+)->match\( => TK_match(\1, 
sub* (\w+)\.mergeRanges\( => TK_mergeRanges(&\1, 
sub* (\w+)\.intersectRanges\( => TK_intersectRanges(&\1, 
sub* (\w+)\.empty\(\) => TK_empty(&\1)
sub* \bOp::O_ => Op_O_
sub* \bToken::T_ => Token_T_
@*/

/* first characters (over the 8-letter alphabet; bit 8 = "some character outside it") */
static unsigned tok_first(const Token *t)
{
  if (t->type == Token_T_CHAR) return (t->ch >= 0 && t->ch < 8) ? 1u << t->ch : 0x100u;
  if (t->type == Token_T_STRING) return (t->str[0] < 8) ? 1u << t->str[0] : 0x100u;
  if (t->type == Token_T_RANGE) return t->set;
  if (t->type == Token_T_NRANGE) return (unsigned)(unsigned char)~t->set | 0x100u;
  return 0x1FFu;      /* anything else: any character */
}
void h_overlap(void)
{
  Op op; Token optok, tok;
  VERIF_INPUT(op); VERIF_INPUT(optok); VERIF_INPUT(tok);
  op.tok = &optok;
  VERIF_ASSUME(op.type == Op_O_CHAR || op.type == Op_O_RANGE || op.type == Op_O_STRING || op.type == Op_O_DOT);
  VERIF_ASSUME(optok.type == Token_T_RANGE || optok.type == Token_T_NRANGE);
  VERIF_ASSUME(tok.type == Token_T_CHAR || tok.type == Token_T_RANGE || tok.type == Token_T_NRANGE || tok.type == Token_T_STRING || tok.type == Token_T_DOT);
  VERIF_ASSUME(op.data >= 1 && op.data < 8 && op.lit[0] >= 1 && op.lit[0] < 8 && op.lit[1] == 0);
  VERIF_ASSUME(tok.ch >= 1 && tok.ch < 8 && tok.str[0] >= 1 && tok.str[0] < 8 && tok.str[1] == 0);
  verif_thrown = 0; fMemoryManager = 0;
  bool r = RX_doTokenOverlap(&op, &tok);
  VERIF_CANARY("after doTokenOverlap");
  unsigned opfirst = op.type == Op_O_CHAR ? 1u << op.data : op.type == Op_O_STRING ? 1u << op.lit[0]
                   : op.type == Op_O_RANGE ? (optok.type == Token_T_NRANGE ? ((unsigned)(unsigned char)~optok.set | 0x100u) : optok.set) : 0x1FFu;
  __CPROVER_assert(!verif_thrown, "C11: doTokenOverlap does not throw");
  if (opfirst & tok_first(&tok)) {
    VERIF_CANARY("overlap reachable");
    __CPROVER_assert(r, "C11: a closure whose character class overlaps the first characters of what follows is not compiled as non-backtracking");
  }
  if (op.type == Op_O_RANGE && optok.type == Token_T_RANGE && tok.type == Token_T_RANGE && !(optok.set & tok.set)) { __CPROVER_assert(!r, "C11: disjoint classes are recognised (the optimisation applies)"); }
}
