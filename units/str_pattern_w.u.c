//@ unit str_pattern_w
//@ props C01
//@ kind W
//@ def quick STRN=6 PATN=4
//@ def thorough STRN=8 PATN=5
//@ cbmc all --unwind 42 --unwinding-assertions
//@ entry h_str_pattern
//@ note W: complete for every text of length < STRN and every pattern of length < PATN (all 16-bit units, null text allowed), buffers END-aligned at the NUL; loops fully unwound (the restart-on-mismatch scan makes at most len*patLen+len steps), unwinding assertions on
//@ note spec: index of the first occurrence of the pattern in the text, -1 when there is none, when the text is null/empty or the pattern is empty (XMLString.hpp)
#define VERIF_DEFINE_GHOSTS
#include "verif_prelude.h"

/*@extract src/xercesc/util/XMLString.hpp XMLString::stringLen
params const XMLCh* const src
static
@*/

/*@extract src/xercesc/util/XMLString.cpp XMLString::patternMatch
call XMLString::stringLen => XMLString_stringLen
@*/

struct { XMLCh a[STRN]; } S1;
struct { XMLCh a[PATN]; } S2;
void h_str_pattern(void)
{
  XMLSize_t n, m; _Bool isnull;
  VERIF_INPUT(S1); VERIF_INPUT(S2); VERIF_INPUT(n); VERIF_INPUT(m); VERIF_INPUT(isnull);
  VERIF_ASSUME(n >= 1 && n <= STRN && m >= 1 && m <= PATN);
  const XMLCh *s = S1.a + (STRN - n), *p = S2.a + (PATN - m);
  VERIF_ASSUME(s[n - 1] == 0 && p[m - 1] == 0);
  for (XMLSize_t k = 0; k + 1 < n; k++) VERIF_ASSUME(s[k] != 0);
  for (XMLSize_t k = 0; k + 1 < m; k++) VERIF_ASSUME(p[k] != 0);
  verif_thrown = 0;

  int r = XMLString_patternMatch(isnull ? (const XMLCh *)0 : s, p);
  VERIF_CANARY("after patternMatch");

  XMLSize_t len = n - 1, plen = m - 1; int exp = -1;
  if (!isnull && plen > 0)
    for (XMLSize_t i = 0; i + plen <= len && exp < 0; i++) {
      int eq = 1;
      for (XMLSize_t k = 0; k < plen; k++) if (s[i + k] != p[k]) eq = 0;
      if (eq) exp = (int)i;
    }
  __CPROVER_assert(r == exp, "C01: patternMatch returns the index of the first occurrence, or -1");
  if (r > 0 && plen > 1) VERIF_CANARY("patternMatch: match after a restart reachable");
}
