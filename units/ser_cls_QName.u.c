//@ unit ser_cls_QName
//@ props C16
//@ kind L
//@ entry h_ser_cls_QName
//@ note L: loop-free; the real body of QName::serialize runs twice on one object: store mode onto the tape, then -- after the whole object has been given arbitrary values again -- load mode from the tape; every member value is symbolic (full range of its real type)
//@ note tape engine (contracts/ser_tape.inc): operator<< / operator>> / writeSize / readSize / writeString / readString and the sub-object serialisers (XTemplateSerializer::storeObject/loadObject, DatatypeValidator::storeDV/loadDV, Base::serialize ...) are trusted stubs that record / check (type tag, value); the tag of a streamed operand comes from its REAL type (member types from the real class declaration, casts from the code) via _Generic; strings, containers and pointers to serialisable objects are opaque ids (the pointer value stands for the object; loading yields the id that was stored); the byte-level engine is the subject of units ser_primitives, ser_fillflush, ser_rawbytes
//@ note compared after load (store then load restores the value): fPrefix, fPrefixBufSz, fLocalPart, fLocalPartBufSz, fURIId; NOT compared: fRawName, fRawNameBufSz (cache rebuilt from prefix and local part on demand: not stored, must be null / 0 after load -- checked), fMemoryManager (not persistent state: the loading object keeps its own)
//@ note class invariant assumed for the stored object: a null prefix / local-part buffer has capacity 0 (QName constructors and setNPrefix / setNLocalPart keep it); the engine writes the capacity only together with a non-null string
//@ note string lengths are not modelled (strings are ids): the dataLen result of readString is an arbitrary harness input
#define VERIF_DEFINE_GHOSTS
#include "verif_prelude.h"
//@ include ser_tape.inc
//@ struct src/xercesc/util/QName.hpp QName only=auto

/*@extract src/xercesc/util/QName.cpp QName::serialize
streamops serEng
method serEng.isStoring => ENG_isStoring
method serEng.isLoading => ENG_isLoading
method serEng.writeSize => ENG_writeSize
method serEng.readSize => ENG_readSize
method serEng.writeString => ENG_writeString
method serEng.readString => ENG_readString
@*/

#define FIELDS(X) X(fPrefix) X(fPrefixBufSz) X(fLocalPart) X(fLocalPartBufSz) X(fURIId)

void h_ser_cls_QName(void)
{
  VERIF_INPUT(SELF); TAPE_INIT();
  VERIF_ASSUME((fPrefix != 0 || fPrefixBufSz == 0) && (fLocalPart != 0 || fLocalPartBufSz == 0));   /* class invariant of QName: no buffer, no capacity */
  FIELDS(SER_FIELD_SAVE)
  verif_thrown = 0;
  TAPE_BEGIN_STORE();
  QName_serialize(&ENGINE);
  VERIF_INPUT(SELF);                      /* the object that is loaded into: arbitrary contents */
  TAPE_BEGIN_LOAD();
  QName_serialize(&ENGINE);
  VERIF_CANARY("after store and load");
  __CPROVER_assert(!verif_thrown, "C16: serialize does not throw by itself");
  TAPE_END_CHECK();
  FIELDS(SER_FIELD_CHECK)
  __CPROVER_assert(fRawName == 0 && fRawNameBufSz == 0, "C16: the cached raw name, which is not serialised, is invalidated by load");
}
