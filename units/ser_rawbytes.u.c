//@ unit ser_rawbytes
//@ props C16 C01
//@ kind B
//@ def quick BS=3 NMAX=8
//@ def thorough BS=4 NMAX=20
//@ cbmc all --unwinding-assertions --object-bits 10
//@ cbmc quick --unwind 10
//@ cbmc thorough --unwind 23
//@ replace XMLString_sizeToText
//@ entry h_ser_rawbytes
//@ note B (bounded stand-in, not a proof for all sizes): buffer size fBufSize = BS (quick 3, thorough 4; one static object of exactly BS bytes), every initial fill level 0..BS, every length n <= NMAX bytes (quick 8, thorough 20; half as many XMLCh for the wide variants), every content: with these bounds each branch of the chunking code is taken (fits / fill up + flush / k >= 1 whole chunks / remainder / no remainder); loops fully unwound with unwinding assertions. Unbounded n would need loop contracts over the tape; out of budget
//@ note the streams are a harness stub (trusted model): one concrete ghost tape TAPE[0..TN); BinOutputStream::writeBytes appends, BinInputStream::readBytes delivers the next bytes (fewer than asked at the end of the tape)
//@ note scenario = what a store engine and a load engine of the same build do: [earlier data of `off` bytes] write(bytes, n) ... destructor flush  ||  constructor fillBuffer, [earlier data consumed] read(bytes, n). flush, write and read (byte and XMLCh variants) and the ensure* helpers are the real bodies; flushBuffer / fillBuffer are stubs (see below)
//@ note XMLString::sizeToText (throwing paths of the TEST_THROW macros) replaced by the contract proved in ser_pumpcount
#define VERIF_DEFINE_GHOSTS
#include "verif_prelude.h"
//@ include XSerializeEngine_common.inc
struct BinInputStream { char opaque; };
struct BinOutputStream { char opaque; };

/* ---- ghost tape ---- */
#define TN (2 * BS + NMAX + BS)
struct { XMLByte a[TN]; } TAPE;
XMLSize_t TAPE_w, TAPE_r;
static void BinOutputStream_writeBytes(struct BinOutputStream *s, const XMLByte *toGo, XMLSize_t n)
{
  (void)s;
  __CPROVER_assert(TAPE_w + n <= TN, "harness: tape large enough");
  for (XMLSize_t i = 0; i < n && TAPE_w + i < TN; i++) TAPE.a[TAPE_w + i] = toGo[i];
  TAPE_w += n;
}
static XMLSize_t BinInputStream_readBytes(struct BinInputStream *s, XMLByte *toFill, XMLSize_t n)
{
  (void)s;
  XMLSize_t avail = TAPE_w - TAPE_r, k = (avail < n) ? avail : n;
  for (XMLSize_t i = 0; i < k; i++) toFill[i] = TAPE.a[TAPE_r + i];
  TAPE_r += k;
  return k;
}

/* flushBuffer / fillBuffer: stubs that do, on the concrete tape, exactly what unit ser_fillflush proves of the real bodies
 * (whole buffer to the stream, buffer cleared, cursor to fBufStart, fBufCount + 1  /  exact-size read or XSerializationException,
 * cursor to fBufStart, fBufLoadMax = fBufStart + fBufSize, fBufCount + 1). The real bodies with their seven TEST_THROW
 * expansions per call make the unwound chunk loops exceed cbmc's object limit. */
void XSerializeEngine_flushBuffer(void)
{
  BinOutputStream_writeBytes((struct BinOutputStream *)fOutputStream, fBufStart, fBufSize);
  memset(fBufStart, 0, fBufSize);
  fBufCur = fBufStart; fBufCount++;
}
void XSerializeEngine_fillBuffer(void)
{
  memset(fBufStart, 0, fBufSize);
  XMLSize_t r = BinInputStream_readBytes((struct BinInputStream *)fInputStream, fBufStart, fBufSize);
  if (r != fBufSize) { verif_thrown = 1; verif_throw_type = VT_XSerializationException; return; }
  fBufLoadMax = fBufStart + fBufSize; fBufCur = fBufStart; fBufCount++;
}
/*@extract src/xercesc/internal/XSerializeEngine.cpp XSerializeEngine::flush
call isStoring => XSerializeEngine_isStoring
call flushBuffer => XSerializeEngine_flushBuffer
throws XSerializeEngine_flushBuffer
@*/
/*@extract src/xercesc/internal/XSerializeEngine.cpp XSerializeEngine::write
params const XMLByte* const toWrite
as XSerializeEngine_write_bytes
call ensureStoring => XSerializeEngine_ensureStoring
call ensurePointer => XSerializeEngine_ensurePointer
call ensureStoreBuffer => XSerializeEngine_ensureStoreBuffer
call flushBuffer => XSerializeEngine_flushBuffer
throws XSerializeEngine_ensureStoring XSerializeEngine_ensurePointer XSerializeEngine_ensureStoreBuffer XSerializeEngine_flushBuffer
@*/
/*@extract src/xercesc/internal/XSerializeEngine.cpp XSerializeEngine::write
params const XMLCh* const toWrite
as XSerializeEngine_write_chars
call write => XSerializeEngine_write_bytes
throws XSerializeEngine_write_bytes
@*/
/*@extract src/xercesc/internal/XSerializeEngine.cpp XSerializeEngine::read
params XMLByte* const toRead
as XSerializeEngine_read_bytes
call ensureLoading => XSerializeEngine_ensureLoading
call ensurePointer => XSerializeEngine_ensurePointer
call ensureLoadBuffer => XSerializeEngine_ensureLoadBuffer
call fillBuffer => XSerializeEngine_fillBuffer
throws XSerializeEngine_ensureLoading XSerializeEngine_ensurePointer XSerializeEngine_ensureLoadBuffer XSerializeEngine_fillBuffer
@*/
/*@extract src/xercesc/internal/XSerializeEngine.cpp XSerializeEngine::read
params XMLCh* const toRead
as XSerializeEngine_read_chars
call read => XSerializeEngine_read_bytes
throws XSerializeEngine_read_bytes
@*/

static XMLByte BUF[BS] __attribute__((aligned(8)));
struct { XMLByte a[NMAX]; } SRC, DST;
struct { XMLByte a[8]; } PRE;
struct BinInputStream INS; struct BinOutputStream OUTS;

void h_ser_rawbytes(void)
{
  XMLSize_t bs, off, n; _Bool wide;
  VERIF_INPUT(bs); VERIF_INPUT(off); VERIF_INPUT(n); VERIF_INPUT(wide); VERIF_INPUT(SRC); VERIF_INPUT(DST); VERIF_INPUT(PRE);
  VERIF_ASSUME(bs == BS && off <= bs && n <= NMAX && (!wide || n % 2 == 0));
  XMLByte *buf = BUF;
  const XMLByte *src = SRC.a + (NMAX - n);     /* end-aligned: reading past n bytes leaves the object */
  XMLByte *dst = DST.a + (NMAX - n);
  fInputStream = &INS; fOutputStream = &OUTS; fBufSize = bs; fBufStart = buf; fBufCount = 0;
  TAPE_w = 0; TAPE_r = 0; verif_thrown = 0;

  /* ---- store engine: `off` bytes of earlier data in the buffer, then the block ---- */
  fStoreLoad = mode_Store; fBufEnd = buf + bs; fBufLoadMax = 0; fBufCur = buf + off;
  for (XMLSize_t i = 0; i < off; i++) buf[i] = PRE.a[i];
  if (wide) XSerializeEngine_write_chars((const XMLCh *)src, n / 2);
  else XSerializeEngine_write_bytes(src, n);
  __CPROVER_assert(!verif_thrown, "C16: write(bytes, n) does not throw");
  __CPROVER_assert(RI_SER_STORE, "C01: RI_ser (store) after write");
  __CPROVER_assert(TAPE_w + SER_OFS(fBufCur) == off + n, "C16: store cursor is at stream position off + n after write");
  XSerializeEngine_flush();                      /* what the destructor does */
  __CPROVER_assert(!verif_thrown && TAPE_w % bs == 0 && TAPE_w >= off + n, "C16: the stream consists of whole blocks covering the data");
  for (XMLSize_t i = 0; i < off; i++)
    __CPROVER_assert(TAPE.a[i] == PRE.a[i], "C16: earlier data reaches the stream unchanged");
  for (XMLSize_t i = 0; i < n; i++)
    __CPROVER_assert(TAPE.a[off + i] == src[i], "C16: the concatenation of what reaches the output stream equals the input, in order");

  /* ---- load engine on the same tape ---- */
  fStoreLoad = mode_Load; fBufEnd = 0; fBufCur = buf; fBufLoadMax = buf;
  XSerializeEngine_fillBuffer();                 /* what the loading constructor does */
  __CPROVER_assert(!verif_thrown, "C16: first block is read");
  fBufCur += off;                                /* earlier data consumed */
  if (wide) XSerializeEngine_read_chars((XMLCh *)dst, n / 2);
  else XSerializeEngine_read_bytes(dst, n);
  VERIF_CANARY("after call");
  __CPROVER_assert(!verif_thrown, "C16: read(bytes, n) of what was written does not throw");
  __CPROVER_assert(RI_SER_LOAD, "C01: RI_ser (load) after read");
  for (XMLSize_t i = 0; i < n; i++)
    __CPROVER_assert(dst[i] == src[i], "C16: reading the same tape back returns the bytes written");
  __CPROVER_assert(TAPE_r - (SER_OFS(fBufLoadMax) - SER_OFS(fBufCur)) == off + n,
                   "C16: load cursor is at stream position off + n after read (where the store cursor was): the next item is read from where it was written");
}
