//@ unit errs_partition
//@ props C02
//@ kind L
//@ entry h_errs_partition
//@ note L: one symbolic code over the whole int range; bounds and enumerator values are read from framework/XMLErrorCodes.hpp on every run
//@ note which code a scanner emits on which violated production is outside this unit (scanner bodies are not in the extractable subset)
#define VERIF_DEFINE_GHOSTS
#include "verif_prelude.h"
//@ enum src/xercesc/framework/XMLErrorCodes.hpp Codes - scope=XMLErrs
//@ enum src/xercesc/framework/XMLErrorReporter.hpp ErrTypes XMLErrorReporter_ scope=XMLErrorReporter
//@ enum src/xercesc/dom/DOMError.hpp ErrorSeverity DOMError_ scope=DOMError
typedef int XMLErrs_Codes;
typedef int XMLErrorReporter_ErrTypes;
typedef int DOMError_ErrorSeverity;

/*@extract src/xercesc/framework/XMLErrorCodes.hpp XMLErrs::isFatal
inclass
@*/
/*@extract src/xercesc/framework/XMLErrorCodes.hpp XMLErrs::isWarning
inclass
@*/
/*@extract src/xercesc/framework/XMLErrorCodes.hpp XMLErrs::isError
inclass
@*/
/*@extract src/xercesc/framework/XMLErrorCodes.hpp XMLErrs::errorType
inclass
@*/
/*@extract src/xercesc/framework/XMLErrorCodes.hpp XMLErrs::DOMErrorType
inclass
@*/

void h_errs_partition(void)
{
  int code;
  VERIF_INPUT(code);
  _Bool f = XMLErrs_isFatal(code), e = XMLErrs_isError(code), w = XMLErrs_isWarning(code);
  int t = XMLErrs_errorType(code), d = XMLErrs_DOMErrorType(code);
  VERIF_CANARY("after call");
  _Bool in_range = code >= W_LowBounds && code <= F_HighBounds;
  __CPROVER_assert(W_LowBounds <= W_HighBounds && W_HighBounds + 1 == E_LowBounds && E_LowBounds <= E_HighBounds &&
                   E_HighBounds + 1 == F_LowBounds && F_LowBounds <= F_HighBounds, "C02: warning / error / fatal ranges are non-empty and tile [W_LowBounds..F_HighBounds] without gap");
  __CPROVER_assert(in_range == ((int)f + (int)e + (int)w == 1), "C02: every code in [W_LowBounds..F_HighBounds] has exactly one severity");
  __CPROVER_assert(in_range || !(f || e || w), "C02: a code outside the range (NoError, beyond F_HighBounds) has no severity");
  __CPROVER_assert(f == (code >= F_LowBounds && code <= F_HighBounds), "C02: isFatal <=> F_LowBounds..F_HighBounds");
  __CPROVER_assert(t == (w ? XMLErrorReporter_ErrType_Warning : e ? XMLErrorReporter_ErrType_Error : f ? XMLErrorReporter_ErrType_Fatal : XMLErrorReporter_ErrTypes_Unknown),
                   "C02: errorType agrees with isWarning / isError / isFatal");
  __CPROVER_assert(!in_range || d == (w ? DOMError_DOM_SEVERITY_WARNING : e ? DOMError_DOM_SEVERITY_ERROR : DOMError_DOM_SEVERITY_FATAL_ERROR),
                   "C02: DOMErrorType agrees with isWarning / isError / isFatal on classified codes");
  /* the codes whose names carry the range markers sit at the ends of their ranges */
  __CPROVER_assert(XMLErrs_isWarning(W_LowBounds) && XMLErrs_isWarning(W_HighBounds) && XMLErrs_isError(E_LowBounds) && XMLErrs_isError(E_HighBounds) &&
                   XMLErrs_isFatal(F_LowBounds) && XMLErrs_isFatal(F_HighBounds) && NoError < W_LowBounds, "C02: range markers classified by their own predicate");
  /* the codes reported for violated character-level productions (illegal Char, bad character reference, broken surrogate pair,
     missing name / white space / '=') are well-formedness errors: they must be fatal (XML 1.0 section 1.2 "fatal error") */
  __CPROVER_assert(XMLErrs_isFatal(InvalidCharacter) &&
                   XMLErrs_isFatal(InvalidCharacterRef) &&
                   XMLErrs_isFatal(Expected2ndSurrogateChar) &&
                   XMLErrs_isFatal(Unexpected2ndSurrogateChar) &&
                   XMLErrs_isFatal(UnterminatedCharRef) &&
                   XMLErrs_isFatal(ExpectedNumericalCharRef) &&
                   XMLErrs_isFatal(BadDigitForRadix) &&
                   XMLErrs_isFatal(HexRadixMustBeLowerCase) &&
                   XMLErrs_isFatal(InvalidCharacterInAttrValue) &&
                   XMLErrs_isFatal(ExpectedElementName) &&
                   XMLErrs_isFatal(ExpectedWhitespace) &&
                   XMLErrs_isFatal(ExpectedAttrName) &&
                   XMLErrs_isFatal(ExpectedEqSign) &&
                   XMLErrs_isFatal(UnknownPrefix),
                   "C02: character-level well-formedness codes are in the fatal range");
}
