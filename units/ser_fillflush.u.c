//@ unit ser_fillflush
//@ props C16 C01
//@ kind L
//@ def quick BS=8
//@ def thorough BS=32
//@ enforce XSerializeEngine_fillBuffer
//@ enforce XSerializeEngine_flushBuffer
//@ replace BinInputStream_readBytes
//@ replace BinOutputStream_writeBytes
//@ replace XMLString_sizeToText
//@ entry h_ser_fillflush
//@ note L: loop-free (memset is cbmc's built-in); the buffer object has BS bytes (-D constant, fBufSize == BS): the bodies are assumed parametric in fBufSize
//@ note BinInputStream::readBytes / BinOutputStream::writeBytes (pure virtual) are contract-only = S_iface; signatures from BinMemInputStream::readBytes / BinMemOutputStream::writeBytes. readBytes may return ANY count (short read, exact, or -- a misbehaving stream -- more than asked; it can store at most maxToRead bytes); neither stream call throws in this model
//@ note ghost tape: TAPE_n = stream position, TAPE_ch = the byte at ONE harness-chosen absolute position GA (universal statement without quantifier); G = harness-chosen buffer index
//@ note the TEST_THROW macros' text buffers (value1[64] written by sizeToText with maxChars 65) are the subject of unit ser_pumpcount; here XMLString::sizeToText is replaced by the contract proved there
#define VERIF_DEFINE_GHOSTS
#include "verif_prelude.h"
//@ include XSerializeEngine_common.inc
struct BinInputStream { char opaque; };
struct BinOutputStream { char opaque; };

XMLSize_t TAPE_n, GA, G, LAST_READ;
XMLByte TAPE_ch;
#define GA_IN(base, n) (GA >= (base) && GA - (base) < (n))

/*@extract src/xercesc/util/BinMemInputStream.cpp BinMemInputStream::readBytes
as BinInputStream_readBytes
selfparam BinInputStream
declonly
contract
__CPROVER_requires(!verif_thrown && maxToRead >= 1 && __CPROVER_w_ok(toFill, maxToRead))
__CPROVER_assigns(__CPROVER_object_upto(toFill, maxToRead), TAPE_n, LAST_READ)
__CPROVER_ensures(LAST_READ == __CPROVER_return_value)
__CPROVER_ensures(__CPROVER_return_value <= maxToRead ==> TAPE_n == __CPROVER_old(TAPE_n) + __CPROVER_return_value)
__CPROVER_ensures((__CPROVER_return_value <= maxToRead && GA_IN(__CPROVER_old(TAPE_n), __CPROVER_return_value)) ==> toFill[GA_IN(__CPROVER_old(TAPE_n), maxToRead) ? GA - __CPROVER_old(TAPE_n) : 0] == TAPE_ch)
@*/
/*@extract src/xercesc/internal/BinMemOutputStream.cpp BinMemOutputStream::writeBytes
as BinOutputStream_writeBytes
selfparam BinOutputStream
declonly
contract
__CPROVER_requires(!verif_thrown && maxToWrite >= 1 && __CPROVER_r_ok(toGo, maxToWrite))
__CPROVER_assigns(TAPE_n, TAPE_ch)
__CPROVER_ensures(TAPE_n == __CPROVER_old(TAPE_n) + maxToWrite)
__CPROVER_ensures(GA_IN(__CPROVER_old(TAPE_n), maxToWrite) ==> TAPE_ch == toGo[GA_IN(__CPROVER_old(TAPE_n), maxToWrite) ? GA - __CPROVER_old(TAPE_n) : 0])
__CPROVER_ensures(!GA_IN(__CPROVER_old(TAPE_n), maxToWrite) ==> TAPE_ch == __CPROVER_old(TAPE_ch))
@*/

/*@extract src/xercesc/internal/XSerializeEngine.cpp XSerializeEngine::fillBuffer
call ensureLoading => XSerializeEngine_ensureLoading
call ensureLoadBuffer => XSerializeEngine_ensureLoadBuffer
call resetBuffer => XSerializeEngine_resetBuffer
method fInputStream->readBytes => BinInputStream_readBytes
throws XSerializeEngine_ensureLoading XSerializeEngine_ensureLoadBuffer
contract
__CPROVER_requires(RI_SER_LOAD && !verif_thrown && fInputStream != 0 && TAPE_n <= ((XMLSize_t)1 << 60))
__CPROVER_assigns(fBufCur, fBufLoadMax, fBufCount, __CPROVER_object_upto(fBufStart, BS), TAPE_n, LAST_READ, verif_thrown, verif_throw_type, verif_throw_code)
/* C16: a short or a long read is rejected, an exact one accepted */
__CPROVER_ensures((verif_thrown != 0) == (LAST_READ != fBufSize))
__CPROVER_ensures(verif_thrown ==> verif_throw_type == VT_XSerializationException)
__CPROVER_ensures((verif_thrown && LAST_READ < fBufSize) ==> verif_throw_code == XMLExcepts_XSer_InStream_Read_LT_Req)
__CPROVER_ensures((verif_thrown && LAST_READ > fBufSize) ==> verif_throw_code == XMLExcepts_XSer_InStream_Read_OverFlow)
/* cursor reset: a full block, read from its start */
__CPROVER_ensures(!verif_thrown ==> (SER_OFS(fBufCur) == 0 && SER_OFS(fBufLoadMax) == fBufSize && fBufCount == __CPROVER_old(fBufCount) + 1))
__CPROVER_ensures(!verif_thrown ==> TAPE_n == __CPROVER_old(TAPE_n) + fBufSize)
/* the buffer holds the next fBufSize bytes of the tape */
__CPROVER_ensures((!verif_thrown && GA_IN(__CPROVER_old(TAPE_n), fBufSize)) ==> fBufStart[GA_IN(__CPROVER_old(TAPE_n), BS) ? GA - __CPROVER_old(TAPE_n) : 0] == TAPE_ch)
__CPROVER_ensures(RI_SER_LOAD)
@*/

/*@extract src/xercesc/internal/XSerializeEngine.cpp XSerializeEngine::flushBuffer
call ensureStoring => XSerializeEngine_ensureStoring
call ensureStoreBuffer => XSerializeEngine_ensureStoreBuffer
call resetBuffer => XSerializeEngine_resetBuffer
method fOutputStream->writeBytes => BinOutputStream_writeBytes
throws XSerializeEngine_ensureStoring XSerializeEngine_ensureStoreBuffer
contract
__CPROVER_requires(RI_SER_STORE && !verif_thrown && fOutputStream != 0 && G < BS && TAPE_n <= ((XMLSize_t)1 << 60))
__CPROVER_assigns(fBufCur, fBufCount, __CPROVER_object_upto(fBufStart, BS), TAPE_n, TAPE_ch, verif_thrown, verif_throw_type, verif_throw_code)
__CPROVER_ensures(!verif_thrown)
/* the whole buffer (always fBufSize bytes, whatever the fill level) goes to the stream, in order */
__CPROVER_ensures(TAPE_n == __CPROVER_old(TAPE_n) + fBufSize)
__CPROVER_ensures(GA_IN(__CPROVER_old(TAPE_n), fBufSize) ==> TAPE_ch == __CPROVER_old(fBufStart[GA_IN(TAPE_n, BS) ? GA - TAPE_n : 0]))
__CPROVER_ensures(!GA_IN(__CPROVER_old(TAPE_n), fBufSize) ==> TAPE_ch == __CPROVER_old(TAPE_ch))
/* cursor reset, buffer cleared (so that alignment padding is written as zeros: equal pools give equal streams) */
__CPROVER_ensures(SER_OFS(fBufCur) == 0 && fBufCount == __CPROVER_old(fBufCount) + 1)
__CPROVER_ensures(fBufStart[G] == 0)
__CPROVER_ensures(RI_SER_STORE)
@*/

static XMLByte BUF[BS] __attribute__((aligned(8)));
struct BinInputStream INS; struct BinOutputStream OUTS;
void h_ser_fillflush(void)
{
  XMLSize_t off, mx; _Bool load; struct { XMLByte a[BS]; } init;
  VERIF_INPUT(SELF); VERIF_INPUT(off); VERIF_INPUT(mx); VERIF_INPUT(load); VERIF_INPUT(init);
  VERIF_INPUT(TAPE_n); VERIF_INPUT(GA); VERIF_INPUT(G); VERIF_INPUT(TAPE_ch);
  VERIF_ASSUME(off <= mx && mx <= BS && G < BS && TAPE_n <= ((XMLSize_t)1 << 60));
  memcpy(BUF, init.a, BS);
  fBufSize = BS; fBufStart = BUF; verif_thrown = 0;
  fInputStream = &INS; fOutputStream = &OUTS;
  if (load) {
    fStoreLoad = mode_Load; fBufEnd = 0; fBufLoadMax = BUF + mx; fBufCur = BUF + off;
    XSerializeEngine_fillBuffer();
  } else {
    fStoreLoad = mode_Store; fBufEnd = BUF + BS; fBufLoadMax = 0; fBufCur = BUF + off;
    XSerializeEngine_flushBuffer();
  }
  VERIF_CANARY("after call");
}
