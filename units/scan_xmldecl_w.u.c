//@ unit scan_xmldecl_w
//@ props C02 C03 C01
//@ kind W
//@ def quick NIN=6 NERR=6
//@ def thorough NIN=8 NERR=8
//@ cbmc quick --unwind 8 --unwinding-assertions --unwindset XMLString_equals.0:12,T_len.0:12,XMLString_isValidEncName.0:8,XMLString_startsWith.0:4
//@ cbmc thorough --unwind 10 --unwinding-assertions --unwindset XMLString_equals.0:12,T_len.0:12,XMLString_isValidEncName.0:8,XMLString_startsWith.0:4
//@ timeout quick=600 thorough=1800
//@ entry h_scanXMLDecl
//@ note W: complete for every TOKEN sequence of length <= NIN after '<?xml' (tokens: white space, '=', '?', '>', the words version / encoding / standalone / other, nine quoted values), XML and text declaration, document version 1.0 / 1.1, handlers installed or not, reader accepting or refusing the encoding
//@ note token-level stubs (contracts/scan_xmldecl_harness.inc): scanUpToWSOr and getQuotedString deliver one token's text; scanEq is the real function; XMLString::equals/startsWith are plain models and isValidEncName is production [81]; XMLBufBid buffers, reader setters, emitError and the XMLDecl/TextDecl handlers are recording sinks
#define VERIF_DEFINE_GHOSTS
#include "verif_prelude.h"
//@ include scan_xmldecl_harness.inc

/*@extract src/xercesc/internal/XMLScanner.cpp XMLScanner::scanEq
ret false
sub* fReaderMgr\.skipPastSpaces\( => RM_skipPastSpaces(
sub* fReaderMgr\.skippedChar\( => RM_skippedChar(
@*/

/*@extract src/xercesc/internal/XMLScanner.cpp XMLScanner::scanXMLDecl
pre
#define nameBuf (*nameBuf_p)
end
call scanEq => XMLScanner_scanEq
call scanUpToWSOr => SC_scanUpToWSOr
call getQuotedString => SC_getQuotedString
sub XMLBufBid (\w+)\(&fBufMgr\); => XMLBufBid \1 = XBB_INIT;
sub XMLBuffer&\s*nameBuf\s*=\s* => XMLBuffer* nameBuf_p = &
sub \bStrings\s+curString => enum Strings curString
method bbVersion.getBuffer => BB_getBuffer
method bbEncoding.getBuffer => BB_getBuffer
method bbStand.getBuffer => BB_getBuffer
method bbDummy.getBuffer => BB_getBuffer
method bbName.getBuffer => BB_getBuffer
method bbVersion.getRawBuffer => BB_getRawBuffer
method bbEncoding.getRawBuffer => BB_getRawBuffer
method bbStand.getRawBuffer => BB_getRawBuffer
method nameBuf.getRawBuffer => XB_getRawBuffer
method buffers[curString]->getRawBuffer => XB_getRawBuffer
method buffers[curString]->getLen => XB_getLen
method fDocHandler->XMLDecl => DH_XMLDecl
method fDocTypeHandler->TextDecl => DTH_TextDecl
sub* fReaderMgr\.skipPastSpaces\( => RM_skipPastSpaces(
sub* fReaderMgr\.lookingAtChar\( => RM_lookingAtChar(
sub* fReaderMgr\.skipPastChar\( => RM_skipPastChar(
sub* fReaderMgr\.skippedChar\( => RM_skippedChar(
sub* fReaderMgr\.setXMLVersion\( => RM_setXMLVersion(
sub* fReaderMgr\.getCurrentEncodingStr\( => RM_getCurrentEncodingStr(
sub* fReaderMgr\.getCurrentReader\(\)->setEncoding\( => RD_setEncoding(
sub* (?<![\w>])emitError\s*\( => SC_emitErrorV(
@*/
#undef nameBuf
//@ include scan_xmldecl_harness2.inc
