//@ unit cm_mixed_ordered
//@ props C08 C01
//@ kind W
//@ def quick NCH=4 NMOD=3 NALPHA=3
//@ def thorough NCH=5 NMOD=4 NALPHA=3
//@ cbmc quick --unwind 5 --unwinding-assertions
//@ cbmc thorough --unwind 6 --unwinding-assertions
//@ entry h_cm_mixed_ordered
//@ note W: the fOrdered == true branch of MixedContentModel::validateContent[Special] (constructor parameter `ordered`; no caller inside the library passes true), same domain as cm_mixed
//@ note checked: the leaf arrays are indexed inside [0, fCount) (C01), an accepted sequence has at most fCount element children and the i-th element child matches the i-th leaf, a rejected one has a mismatch or too many element children; whether FEWER element children than leaves may be accepted is not judged (the code accepts them)
//@ note NOT in scope: MixedContentModel constructor / buildChildList, ContentSpecNode trees, SchemaValidator, TraverseSchema
#define VERIF_DEFINE_GHOSTS
#include "verif_prelude.h"
#define NSG NMOD
//@ include cm_common.inc
//@ include cm_mixed_body.inc

void h_cm_mixed_ordered(void)
{
  cm_mixed_run(1);
  VERIF_CANARY("after call");
  /* reference ("the order and number of child elements appearing in an instance must agree with the order and number of child
     elements specified in the model"): the i-th element child matches the i-th leaf */
  XMLSize_t e = 0, bad = R_n;
  for (XMLSize_t k = 0; k < NCH; k++) if (k < R_n && bad == R_n && CHILD(R_n, k).uri != XMLElementDecl_fgPCDataElemId) {
    if (e >= fCount || !cm_mixed_match(&CHILD(R_n, k), e)) bad = k;
    e++;
  }
  __CPROVER_assert(!verif_thrown, "C01: no exception");
  __CPROVER_assert((R_res != 0) == (bad == R_n), "C08: ordered mixed content is accepted iff the i-th element child matches the i-th leaf and there are no more element children than leaves");
  if (!R_res) __CPROVER_assert(R_idx == bad, "C08: on failure *indexFailingChild is the first child that breaks the order");
}
