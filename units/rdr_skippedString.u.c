//@ unit rdr_skippedString
//@ props C01 C04 C03
//@ kind P
//@ def quick kCharBufSize=4 STRMAX=6
//@ def thorough kCharBufSize=8 STRMAX=10
//@ rebind src/xercesc/internal/XMLReader.hpp kCharBufSize
//@ enforce XMLReader_skippedString
//@ replace XMLReader_refreshCharBuffer
//@ replace XMLString_stringLen
//@ replace VERIF_memcmp
//@ entry h_skippedString
//@ note P: refills unbounded through the loop contract; the string argument lives in a harness object of STRMAX+1 elements (cbmc needs finite objects), its length is arbitrary up to STRMAX > kCharBufSize
//@ note assumed: XMLString::stringLen returns the length of its argument (unit str_len); memcmp reads only the first n bytes of both operands and returns 0 only if they agree (ISO C)
//@ note refreshCharBuffer is replaced by the contract proved in unit rdr_refreshCharBuffer (contracts/XMLReader_ri2.inc); its universal ghost G is THE index at which "the unread sequence is unchanged / shifted by strlen" is stated
//@ note charsLeftInBuffer is extracted and verified in place
#define VERIF_DEFINE_GHOSTS
#include "verif_prelude.h"
//@ struct src/xercesc/internal/XMLReader.hpp XMLReader only=auto
//@ include XMLReader_ri2.inc
//@ include XMLReader_str.inc
/* entry ghosts (harness-owned, never assigned): number of spare characters, the G-th of them */
XMLSize_t SPARE0; XMLCh UG0;
#define CUR_G (fCharBuf[(fCharIndex + G < kCharBufSize) ? fCharIndex + G : 0])    /* G-th character of the unread sequence */

/* ghost shim (added by the lead): records whether the LAST refill made no progress (returned false or did not enlarge the
   unread window) -- "gives up only when the data really ends" is stated over it */
_Bool RF_LAST_STUCK; XMLSize_t RF_CALLS;
static bool XMLReader_refreshCharBuffer_stk(void)
{
  XMLSize_t before = fCharsAvail - fCharIndex;
  bool r = XMLReader_refreshCharBuffer();
  RF_LAST_STUCK = (!r || (fCharsAvail - fCharIndex) <= before);
  if (RF_CALLS < 3) RF_CALLS = RF_CALLS + 1;
  return r;
}

/*@extract src/xercesc/internal/XMLReader.cpp XMLReader::skippedString
ret false
sub \bmemcmp\( => VERIF_memcmp(
call refreshCharBuffer => XMLReader_refreshCharBuffer_stk
call charsLeftInBuffer => XMLReader_charsLeftInBuffer
throws XMLReader_refreshCharBuffer_stk
contract
__CPROVER_requires(RI_RDR && !verif_thrown && G < kCharBufSize && toSkip == STRP)
__CPROVER_requires(SPARE0 == fCharsAvail - fCharIndex && UG0 == CUR_G && RF_CALLS == 0)
__CPROVER_assigns(fCurCol, fCharIndex, fCharsAvail, fNoMore, __CPROVER_object_upto(fCharBuf, sizeof(fCharBuf)), verif_thrown, verif_throw_type, verif_throw_code, RF_LAST_STUCK, RF_CALLS)
/* C04: it gives up for lack of characters only when the last refill made no progress (end of data), never merely because one
   refill (a short stream read) did not deliver the whole token */
__CPROVER_ensures((!verif_thrown && !__CPROVER_return_value && fCharsAvail - fCharIndex < SRCLEN) ==> (RF_CALLS >= 1 && RF_LAST_STUCK))
/* C01 */
__CPROVER_ensures(RI_RDR && (verif_thrown ==> !__CPROVER_return_value))
/* C04 failure: the unread sequence is unchanged (it may have grown at the far end): nothing consumed wherever the refills fell */
__CPROVER_ensures((!verif_thrown && !__CPROVER_return_value) ==> (fCurCol == __CPROVER_old(fCurCol) && fCharsAvail - fCharIndex >= SPARE0 && (G < SPARE0 ==> CUR_G == UG0)))
/* C04 success: exactly strlen characters were consumed -- the unread sequence is the old one shifted by strlen ... */
__CPROVER_ensures(__CPROVER_return_value ==> (fCharIndex >= SRCLEN && fCharsAvail - fCharIndex + SRCLEN >= SPARE0))
__CPROVER_ensures((__CPROVER_return_value && G >= SRCLEN && G < SPARE0) ==> fCharBuf[(fCharIndex + G - SRCLEN < kCharBufSize) ? fCharIndex + G - SRCLEN : 0] == UG0)
/* ... they were the characters of the string ... */
__CPROVER_ensures((__CPROVER_return_value && G < SRCLEN) ==> (fCharBuf[(fCharIndex - SRCLEN + G < kCharBufSize) ? fCharIndex - SRCLEN + G : 0] == STRP[G] && (G < SPARE0 ==> UG0 == STRP[G])))
/* ... C03: and the column advanced by exactly strlen */
__CPROVER_ensures(__CPROVER_return_value ==> fCurCol == __CPROVER_old(fCurCol) + SRCLEN)
loop 1
__CPROVER_assigns(charsLeft, fCharIndex, fCharsAvail, fNoMore, __CPROVER_object_upto(fCharBuf, sizeof(fCharBuf)), verif_thrown, verif_throw_type, verif_throw_code, RF_LAST_STUCK, RF_CALLS)
__CPROVER_loop_invariant(RI_RDR && !verif_thrown && charsLeft == fCharsAvail - fCharIndex && charsLeft >= SPARE0)
__CPROVER_loop_invariant((G < SPARE0) ==> CUR_G == UG0)
/* every round must enlarge the window, which is bounded by the buffer */
__CPROVER_decreases(kCharBufSize - charsLeft)
@*/

void h_skippedString(void)
{
  VERIF_INPUT(SELF);
  STR_SETUP();
  verif_thrown = 0;
  XMLReader_skippedString(STRP);
  VERIF_CANARY("after call");
}
