//@ unit ser_tmpl_RefHashTableOf_DTDAttDef
//@ props C16
//@ kind W
//@ def quick NC=3
//@ def thorough NC=4
//@ def all TAPE_MAX=16
//@ cbmc quick --unwind 9 --unwinding-assertions
//@ cbmc thorough --unwind 11 --unwinding-assertions
//@ entry h_ser_tmpl_RefHashTableOf_DTDAttDef
//@ note W: complete for tables of <= NC entries (all loops unwound); the real bodies of XTemplateSerializer::storeObject(RefHashTableOf<DTDAttDef>*, serEng) and loadObject(RefHashTableOf<DTDAttDef>**, int, bool, serEng) (DTDElementDecl::fAttDefs, DTDAttDefList::fList) run over the tape engine: store mode on a symbolic table (null / written before / new), then load mode into the owner's empty table or into none
//@ note container model (contracts/ser_container.inc, trusted stubs): a table is <= NC entries (key AS FILED, element) + hash modulus; the enumerator yields the entries in index order -- they are symbolic, so this is an arbitrary order; get(key) finds the entry filed under an equal key; put(key, e) replaces an entry filed under an equal key, else appends; strings are ids (equal ids <=> equal content); an element is an object id (`serEng << data` / `serEng >> data` move the id); its attributes the load side reads are symbolic fields of the element, separate from the key as filed
//@ note ASSUMED class invariant of the stored table (the one put site, DTDElementDecl::addAttDef: `fAttDefs->put((void*)(toAdd->getFullName()), toAdd)`): key == data->getFullName(); no two entries under equal keys; elements non-null and distinct objects
//@ note the table is UNORDERED: the postcondition asks for every stored entry to be in the loaded table under the same key with the same element, for the same number of entries, for the stored hash modulus and the caller's adopt flag when the table is created by the load side
//@ note tape engine (contracts/ser_tape.inc): operator<< / operator>> / writeSize / readSize / writeString / readString and the sub-object serialisers (DatatypeValidator::storeDV/loadDV, IdentityConstraint::storeIC/loadIC, Grammar::storeGrammar/loadGrammar, XMLNumber::loadNumber) are trusted stubs that record / check (type tag, value); the tag of a streamed operand comes from its REAL type via _Generic; strings and pointers to serialisable objects are opaque ids (the pointer value stands for the object; loading yields the id that was stored); needToStoreObject / needToLoadObject / registerObject: header record null / reference / new object (contracts/ser_container.inc); the byte-level engine is the subject of units ser_primitives, ser_fillflush, ser_rawbytes
#define VERIF_DEFINE_GHOSTS
#include "verif_prelude.h"
//@ include ser_tape.inc
//@ include ser_container.inc
typedef struct sc_cont RefHashTableOf_DTDAttDef;
typedef struct DTDAttDef DTDAttDef;
/*@extract src/xercesc/internal/XTemplateSerializer.cpp XTemplateSerializer::storeObject
params RefHashTableOf<DTDAttDef>
as TS_store
sub RefHashTableOfEnumerator<DTDAttDef>\s+e\( => SC_ENUM(e, 
streamops serEng
method serEng.needToStoreObject => ENG_needToStoreObject
method serEng.writeSize => ENG_writeSize
method serEng.writeString => ENG_writeString
method serEng.getMemoryManager => ENG_getMemoryManager
method serEng.getStringPool => ENG_getStringPool
method ENG_getStringPool(&(serEng))->getId => SP_getId
method serEng.lookupStorePool => ENG_lookupStorePool
method objToStore->getHashModulus => SC_getHashModulus
method objToStore->getMemoryManager => SC_getMemoryManager
method objToStore->get => SC_get
method e.hasMoreElements => SC_hasMore
method e.nextElement => SC_nextElement
method e.nextElementKey => SC_nextKey
method e.Reset => SC_Reset
@*/
/*@extract src/xercesc/internal/XTemplateSerializer.cpp XTemplateSerializer::loadObject
params RefHashTableOf<DTDAttDef>
as TS_load
sub new\s*\(serEng\.getMemoryManager\(\)\)\s*RefHashTableOf<DTDAttDef>\s*\( => SC_newHash(
streamops serEng
method serEng.needToLoadObject => ENG_needToLoadObject
method serEng.registerObject => ENG_registerObject
method serEng.readSize => ENG_readSize
method serEng.readString => ENG_readString
method serEng.getMemoryManager => ENG_getMemoryManager
method serEng.getStringPool => ENG_getStringPool
method ENG_getStringPool(&(serEng))->getValueForId => SP_getValueForId
method ENG_getStringPool(&(serEng))->getId => SP_getId
method serEng.lookupLoadPool => ENG_lookupLoadPool
method (*objToLoad)->put => SC_put
method data->getFullName => EL_name
method data->getValue => EL_name2
@*/
#define SC_HARNESS h_ser_tmpl_RefHashTableOf_DTDAttDef
#define SC_NKEYS 1
#define SC_ORDERED 0
#define SC_INVARIANT(i) (SC_S.a[i].key1 == (const void*)SC_ELEM.a[i].name)
#define SC_STORE(obj) TS_store(obj, &ENGINE)
#define SC_LOAD(pp, initSize, adopt, initSize2) TS_load(pp, initSize, adopt, &ENGINE)
#define SC_CREATION_OK(initSize, adopt, initSize2) (SC_L.modulus == SC_S.modulus && SC_L.adopt == adopt)
//@ include ser_container_harness.inc
