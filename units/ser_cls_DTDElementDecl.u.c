//@ unit ser_cls_DTDElementDecl
//@ props C16
//@ kind L
//@ entry h_ser_cls_DTDElementDecl
//@ note L: loop-free; the real body of DTDElementDecl::serialize runs twice on one object: store mode onto the tape, then -- after the whole object has been given arbitrary values again -- load mode from the tape; every member value is symbolic (full range of its real type)
//@ note tape engine (contracts/ser_tape.inc): operator<< / operator>> / writeSize / readSize / writeString / readString and the sub-object serialisers (XTemplateSerializer::storeObject/loadObject, DatatypeValidator::storeDV/loadDV, Base::serialize ...) are trusted stubs that record / check (type tag, value); the tag of a streamed operand comes from its REAL type (member types from the real class declaration, casts from the code) via _Generic; strings, containers and pointers to serialisable objects are opaque ids (the pointer value stands for the object; loading yields the id that was stored); the byte-level engine is the subject of units ser_primitives, ser_fillflush, ser_rawbytes
//@ note compared after load (store then load restores the value): fModelType, fAttDefs, fAttList, fContentSpec; NOT compared: fContentModel, fFormattedModel (caches derived from fContentSpec: not stored, must be null after load -- checked)
#define VERIF_DEFINE_GHOSTS
#include "verif_prelude.h"
//@ include ser_tape.inc
typedef int ModelTypes;
#define XMLElementDecl_serialize(e) ENG_BASE(XMLElementDecl)
//@ struct src/xercesc/validators/DTD/DTDElementDecl.hpp DTDElementDecl only=auto enums=ModelTypes structs=DTDAttDefList,ContentSpecNode

/*@extract src/xercesc/validators/DTD/DTDElementDecl.cpp DTDElementDecl::serialize
streamops serEng
method serEng.isStoring => ENG_isStoring
method serEng.isLoading => ENG_isLoading
method serEng.writeSize => ENG_writeSize
method serEng.readSize => ENG_readSize
method serEng.writeString => ENG_writeString
method serEng.readString => ENG_readString
@*/

#define FIELDS(X) X(fModelType) X(fAttDefs) X(fAttList) X(fContentSpec)

void h_ser_cls_DTDElementDecl(void)
{
  VERIF_INPUT(SELF); TAPE_INIT();
  FIELDS(SER_FIELD_SAVE)
  verif_thrown = 0;
  TAPE_BEGIN_STORE();
  DTDElementDecl_serialize(&ENGINE);
  VERIF_INPUT(SELF);                      /* the object that is loaded into: arbitrary contents */
  TAPE_BEGIN_LOAD();
  DTDElementDecl_serialize(&ENGINE);
  VERIF_CANARY("after store and load");
  __CPROVER_assert(!verif_thrown, "C16: serialize does not throw by itself");
  TAPE_END_CHECK();
  FIELDS(SER_FIELD_CHECK)
  __CPROVER_assert(fContentModel == 0 && fFormattedModel == 0, "C16: the caches that are not serialised (content model, formatted model) are reset by load");
}
