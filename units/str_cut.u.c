//@ unit str_cut
//@ props C01
//@ kind P
//@ def quick STRN=6
//@ def thorough STRN=12
//@ enforce XMLString_cut
//@ entry h_str_cut
//@ note P: iterations unbounded through the loop contract; the string buffer is bounded by -DSTRN and handed END-aligned
//@ note precondition count <= length: XMLString.hpp gives no behaviour for a larger count (the XML_DEBUG branch is empty); callers pass an index found in the string
//@ note "no NUL between the read cursor and the terminator" is carried through the loop as a finite conjunction over the STRN elements (NONUL_RANGE)
#define VERIF_DEFINE_GHOSTS
#include "verif_prelude.h"
//@ include str_common.inc

/*@extract src/xercesc/util/XMLString.cpp XMLString::cut
contract
__CPROVER_requires(G < STRN && LEN1 < STRN && count <= LEN1)
__CPROVER_requires(STR_IS(toCutFrom, LEN1) && __CPROVER_w_ok(toCutFrom, (LEN1 + 1) * sizeof(XMLCh)))
__CPROVER_assigns(__CPROVER_object_upto(toCutFrom, (LEN1 + 1) * sizeof(XMLCh)))
__CPROVER_ensures(toCutFrom[LEN1 - count] == 0)
__CPROVER_ensures((G < LEN1 - count) ==> toCutFrom[CL(G, LEN1)] == __CPROVER_old(toCutFrom[CL(G + count, LEN1)]))
loop 1
__CPROVER_assigns(srcPtr, targetPtr, __CPROVER_object_upto(toCutFrom, (LEN1 + 1) * sizeof(XMLCh)))
__CPROVER_loop_invariant(PTR_IN(srcPtr, toCutFrom, LEN1) && PTR_IN(targetPtr, toCutFrom, LEN1) && PIDX(srcPtr, toCutFrom) == PIDX(targetPtr, toCutFrom) + count)
__CPROVER_loop_invariant(toCutFrom[LEN1] == 0 && NONUL_RANGE(toCutFrom, PIDX(srcPtr, toCutFrom), LEN1))
__CPROVER_loop_invariant((G < PIDX(targetPtr, toCutFrom)) ==> toCutFrom[CL(G, LEN1)] == __CPROVER_loop_entry(toCutFrom[CL(G + count, LEN1)]))
__CPROVER_loop_invariant((G >= PIDX(targetPtr, toCutFrom) && G + count <= LEN1) ==> toCutFrom[CL(G + count, LEN1)] == __CPROVER_loop_entry(toCutFrom[CL(G + count, LEN1)]))
__CPROVER_decreases(LEN1 - PIDX(srcPtr, toCutFrom))
@*/

struct { XMLCh a[STRN]; } S1;
void h_str_cut(void)
{
  XMLSize_t l1, count;
  VERIF_INPUT(S1); VERIF_INPUT(G); VERIF_INPUT(l1); VERIF_INPUT(count);
  VERIF_ASSUME(l1 < STRN);
  LEN1 = l1;
  verif_thrown = 0;
  XMLString_cut(S1.a + (STRN - (l1 + 1)), count);
  VERIF_CANARY("after cut");
}
