//@ unit fmt_escapes
//@ props C12 C01
//@ kind W
//@ cbmc all --unwind 9 --unwinding-assertions --no-sat-preprocessor
//@ entry h_fmt_escapes
//@ note W: complete over all 2^16 XMLCh values x the four escape modes x fIsXML11 in {false,true}; the list scan loop (at most kEscapeCount = 7 entries per row) is fully unwound with unwinding assertions
//@ note the spec sets (spec/escape.h) are written from XML 1.0 2.3/2.4/2.11/3.3.3/4.6 and XML 1.1 2.2/2.11, not from XMLFormatter.hpp (whose comment tables are stale)
//@ note NoEscapes: formatBuf never consults inEscapeList when actualEsc == NoEscapes (proved in unit fmt_formatbuf: the precondition `escStyle != NoEscapes` of the inEscapeList contract is checked at formatBuf's call site); at function level inEscapeList(NoEscapes, c) under XML 1.1 answers true for the control characters, which is harmless for that reason and stated below as "subset of the XML 1.1 controls"
#define VERIF_DEFINE_GHOSTS
#include "verif_prelude.h"
#include "escape.h"

typedef int XMLFormatter_EscapeFlags;
//@ enum src/xercesc/framework/XMLFormatter.hpp EscapeFlags XMLFormatter_ scope=XMLFormatter
//@ struct src/xercesc/framework/XMLFormatter.hpp XMLFormatter only=auto
//@ table src/xercesc/util/XMLChar.hpp gControlCharMask
//@ table src/xercesc/util/XMLChar.hpp gWhitespaceCharMask
//@ table src/xercesc/util/XMLChar.cpp fgCharCharsTable1_1 as XMLChar1_1_fgCharCharsTable1_1
#define fgCharCharsTable1_1 XMLChar1_1_fgCharCharsTable1_1
//@ table src/xercesc/framework/XMLFormatter.cpp kEscapeCount asenum
//@ table src/xercesc/framework/XMLFormatter.cpp gEscapeChars

/*@extract src/xercesc/util/XMLChar.hpp XMLChar1_1::isControlChar
static
@*/
/*@extract src/xercesc/util/XMLChar.hpp XMLChar1_1::isWhitespace
static
@*/
/*@extract src/xercesc/framework/XMLFormatter.cpp XMLFormatter::inEscapeList
ret false
@*/

void h_fmt_escapes(void)
{
  XMLCh c; int mode; _Bool v11;
  VERIF_INPUT(c); VERIF_INPUT(mode); VERIF_INPUT(v11);
  VERIF_ASSUME(mode == XMLFormatter_NoEscapes || mode == XMLFormatter_StdEscapes || mode == XMLFormatter_AttrEscapes ||
               mode == XMLFormatter_CharEscapes);
  VERIF_ASSUME(c != 0);   /* #x0 is no XML character in either version and cannot be written as a reference either */
  fIsXML11 = v11;
  verif_thrown = 0;

  _Bool r = XMLFormatter_inEscapeList(mode, c);
  VERIF_CANARY("after call");

  /* the per-mode set required by the recommendation (both versions) */
  int req = (mode == XMLFormatter_StdEscapes) ? spec_escape_std(c)
          : (mode == XMLFormatter_AttrEscapes) ? spec_escape_attr(c)
          : (mode == XMLFormatter_CharEscapes) ? spec_escape_char(c)
          : spec_escape_none(c);

  __CPROVER_assert(!verif_thrown, "C01: inEscapeList never throws");

  if (!v11) {
    /* XML 1.0: exactly the mode's set, nothing else (the code has no extras here) */
    __CPROVER_assert(r == (req != 0), "C12: XML 1.0: escaped set of the mode is exactly spec_escape(mode)");
  } else if (mode == XMLFormatter_NoEscapes) {
    /* not consulted by formatBuf in this mode (see note): only "nothing outside the XML 1.1 controls" */
    __CPROVER_assert(!r || spec_xml11_restricted(c) || spec_xml11_eol_extra(c),
                     "C12: XML 1.1 NoEscapes: answers true at most for C0/C1 controls and NEL/LSEP (never consulted by formatBuf)");
  } else {
    /* XML 1.1, escaping modes */
    __CPROVER_assert(!req || r, "C12: XML 1.1: every character of spec_escape(mode) is escaped");
    __CPROVER_assert(!spec_xml11_restricted(c) || r,
                     "C12: XML 1.1: every RestrictedChar [2a] is written as a character reference");
    __CPROVER_assert(!spec_xml11_eol_extra(c) || r,
                     "C12: XML 1.1: #x85 and #x2028 are written as character references (2.11: literal ones re-parse as #xA)");
    __CPROVER_assert(!r || req || spec_xml11_restricted(c) || spec_xml11_eol_extra(c),
                     "C12: XML 1.1: nothing outside spec_escape(mode) + RestrictedChar + {#x85,#x2028} is escaped");
  }
}
