//@ unit elemstack_lookup
//@ props C06 C01
//@ kind B
//@ def quick NROWS=2 NMAP=2
//@ def thorough NROWS=3 NMAP=2
//@ cbmc all --unwind 6 --unwinding-assertions
//@ entry h_elemstack_lookup
//@ note B (bounded stand-in, not counted as proved): the heap shape is built by the harness: <= NROWS stack rows with <= NMAP bindings each plus an optional global row with <= NMAP bindings, arbitrary prefix / URI ids in every slot; the two nested search loops are fully unwound. An unbounded version needs a quantified invariant over all rows (no __CPROVER_forall in this framework)
//@ note XMLStringPool::getId is a stub: the pool id of the prefix is an arbitrary harness input PID with the one relation the pool guarantees (ids are injective on strings): PID == fGlobalPoolId <=> the prefix is the empty string ("" was entered into the pool by reset()); PID == 0 means "not in the pool"
//@ note prefixToMap is non-null (every call site passes a string). Observation: the body accepts NULL in its first test (!prefixToMap || !*prefixToMap) but dereferences it unconditionally in its last test (!*prefixToMap) when nothing binds the empty prefix
#define VERIF_DEFINE_GHOSTS
#include "verif_prelude.h"
//@ struct src/xercesc/internal/ElemStack.hpp PrefMapElem self=none
//@ struct src/xercesc/internal/ElemStack.hpp StackElem scope=ElemStack self=none structs=PrefMapElem only=fMap,fMapCapacity,fMapCount
//@ struct src/xercesc/internal/ElemStack.hpp ElemStack structs=StackElem only=fEmptyNamespaceId,fGlobalPoolId,fGlobalNamespaces,fStack,fStackCapacity,fStackTop,fUnknownNamespaceId,fXMLNamespaceId,fXMLPoolId,fXMLNSNamespaceId,fXMLNSPoolId
typedef struct StackElem StackElem;

unsigned int PID;   /* pool id of the prefix being looked up (harness input) */
static unsigned int XMLStringPool_getId(const XMLCh *s) { (void)s; return PID; }

/*@extract src/xercesc/internal/ElemStack.cpp ElemStack::mapPrefixToURI
sub fPrefixPool\.getId => XMLStringPool_getId
@*/

struct { struct PrefMapElem m[NROWS + 1][NMAP]; } MAPS;
struct { struct StackElem r[NROWS + 1]; } ROWS;
struct { struct StackElem *p[NROWS]; } STACK;

void h_elemstack_lookup(void)
{
  _Bool have_global, empty_prefix;
  VERIF_INPUT(SELF); VERIF_INPUT(MAPS); VERIF_INPUT(ROWS); VERIF_INPUT(PID); VERIF_INPUT(have_global); VERIF_INPUT(empty_prefix);
  /* RI_stk and the shape */
  VERIF_ASSUME(fStackTop <= NROWS);
  fStackCapacity = NROWS;
  fStack = STACK.p;
  for (int i = 0; i < NROWS; i++) STACK.p[i] = &ROWS.r[i];
  for (int i = 0; i <= NROWS; i++) {
    XMLSize_t cnt = ROWS.r[i].fMapCount;
    VERIF_ASSUME(cnt <= NMAP);
    /* the map of a row is exactly fMapCount..NMAP entries long: end-aligned, capacity == what is left */
    ROWS.r[i].fMapCapacity = cnt;
    ROWS.r[i].fMap = cnt ? &MAPS.m[i][NMAP - cnt] : 0;
  }
  fGlobalNamespaces = have_global ? &ROWS.r[NROWS] : 0;
  /* the special pool ids are distinct non-zero ids (reset() enters "", "xml", "xmlns" into the pool) */
  VERIF_ASSUME(fGlobalPoolId != 0 && fXMLPoolId != 0 && fXMLNSPoolId != 0 && fGlobalPoolId != fXMLPoolId && fGlobalPoolId != fXMLNSPoolId && fXMLPoolId != fXMLNSPoolId);
  /* pool ids are injective on strings: the empty string <=> fGlobalPoolId */
  VERIF_ASSUME((PID == fGlobalPoolId) == empty_prefix);
  XMLCh pfx[2]; pfx[0] = empty_prefix ? 0 : 'p'; pfx[1] = 0;
  const XMLCh *prefix = empty_prefix ? &pfx[1] : &pfx[0];      /* the empty string is 1 character long: reading past it leaves the object */
  bool unknown = true; VERIF_INPUT(unknown);
  verif_thrown = 0;

  unsigned int got = ElemStack_mapPrefixToURI(prefix, &unknown);
  VERIF_CANARY("after call");

  /* reference: innermost row that binds PID wins (rows are searched from the top of the stack down; the LAST row found when walking
     bottom-up), within a row the first binding; then the global row; written as an independent bottom-up scan */
  _Bool found = 0; unsigned int want = 0;
  if (have_global)
    for (XMLSize_t k = ROWS.r[NROWS].fMapCount; k > 0; k--)
      if (ROWS.r[NROWS].fMap[k - 1].fPrefId == PID) { found = 1; want = ROWS.r[NROWS].fMap[k - 1].fURIId; }
  for (XMLSize_t r = 0; r < fStackTop; r++)
    for (XMLSize_t k = ROWS.r[r].fMapCount; k > 0; k--)
      if (ROWS.r[r].fMap[k - 1].fPrefId == PID) { found = 1; want = ROWS.r[r].fMap[k - 1].fURIId; }

  __CPROVER_assert(!verif_thrown, "C01: mapPrefixToURI never throws");
  if (PID == 0) {
    __CPROVER_assert(unknown && got == fUnknownNamespaceId, "C06: a prefix that is not in the pool is unknown");
  } else if (PID == fXMLPoolId) {
    __CPROVER_assert(!unknown && got == fXMLNamespaceId, "C06: 'xml' maps to the XML namespace id regardless of the maps");
  } else if (PID == fXMLNSPoolId) {
    __CPROVER_assert(!unknown && got == fXMLNSNamespaceId, "C06: 'xmlns' maps to the xmlns namespace id regardless of the maps");
  } else if (found) {
    __CPROVER_assert(!unknown && got == want, "C06: the binding of the innermost row that binds the prefix wins (then the global row)");
  } else if (empty_prefix) {
    __CPROVER_assert(!unknown && got == fEmptyNamespaceId, "C06: unbound empty prefix -> empty namespace id, not unknown");
  } else {
    __CPROVER_assert(unknown && got == fUnknownNamespaceId, "C06: unbound non-empty prefix -> unknown");
  }
}
