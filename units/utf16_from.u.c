//@ unit utf16_from
//@ props C05 C01 C04
//@ kind P
//@ def quick NMAX=8
//@ def thorough NMAX=16
//@ enforce XMLUTF16Transcoder_transcodeFrom
//@ entry h_utf16_from
//@ note P: iterations unbounded through loop contracts; buffer LENGTHS are bounded by -DNMAX (maxChars <= NMAX, srcCount <= 2*NMAX+1) because cbmc needs finite objects
//@ note target model LP64 little-endian, sizeof(XMLCh) == sizeof(UTF16Ch) == 2: the non-swapped path is the memcpy branch (cbmc's built-in memcpy/memset models), the per-character conversion loop (loop 2) is compile-time dead but carries a contract all the same
//@ note fSwapped == false means the source is UTF-16LE on this target, fSwapped == true UTF-16BE; the postcondition is stated on the source BYTES, so it is the decoding of D96/D97 (UTF-16BE/LE encoding schemes), not a restatement of swapBytes
//@ note cbmc 6.11's built-in memcpy model loses the copy when the destination OBJECT has a non-char element type and the size is symbolic (probed: spurious failure, 12-line example); the harness therefore hands toFill as a pointer into a byte-typed object of 2*NMAX bytes (same object representation, all accesses still bounds-checked)
#define VERIF_DEFINE_GHOSTS
#include "verif_prelude.h"

//@ struct src/xercesc/util/XMLUTF16Transcoder.hpp XMLUTF16Transcoder only=auto

/* ghost index: harness-chosen, in no assigns clause */
XMLSize_t G;

/* UTF-16 code unit from two bytes, D96 (BE) / D97 (LE) */
#define U16BE(b0, b1) ((XMLCh)(((unsigned)(b0) << 8) | (unsigned)(b1)))
#define U16LE(b0, b1) ((XMLCh)(((unsigned)(b1) << 8) | (unsigned)(b0)))
#define GIDX(k) ((G < NMAX) ? 2 * G + (k) : 0)

/*@extract src/xercesc/util/BitOps.hpp BitOps::swapBytes
inclass
static
params const XMLUInt16
as BitOps_swapBytes
@*/

/*@extract src/xercesc/util/XMLUTF16Transcoder.cpp XMLUTF16Transcoder::transcodeFrom
contract
__CPROVER_requires(G < NMAX && maxChars <= NMAX && srcCount <= 2 * NMAX + 1 && !verif_thrown)
__CPROVER_requires(__CPROVER_r_ok(srcData, srcCount))
__CPROVER_requires(__CPROVER_w_ok(toFill, maxChars * sizeof(XMLCh)))
__CPROVER_requires(__CPROVER_w_ok(charSizes, maxChars))
__CPROVER_requires(__CPROVER_w_ok(bytesEaten_p, sizeof(XMLSize_t)))
__CPROVER_assigns(__CPROVER_object_upto(toFill, maxChars * sizeof(XMLCh)), __CPROVER_object_upto(charSizes, maxChars), *bytesEaten_p)
/* T_iface */
__CPROVER_ensures(!verif_thrown)
__CPROVER_ensures(__CPROVER_return_value <= maxChars)
__CPROVER_ensures(*bytesEaten_p == 2 * __CPROVER_return_value && *bytesEaten_p <= srcCount)
/* progress: everything that is available and fits is decoded (a dangling odd byte is left) */
__CPROVER_ensures(__CPROVER_return_value == ((srcCount / 2 < maxChars) ? srcCount / 2 : maxChars))
/* C05: unit G is exactly the code unit spelled by source bytes 2G, 2G+1 in the byte order of the encoding scheme */
__CPROVER_ensures((G < __CPROVER_return_value && fSwapped) ==> toFill[G] == U16BE(srcData[GIDX(0)], srcData[GIDX(1)]))
__CPROVER_ensures((G < __CPROVER_return_value && !fSwapped) ==> toFill[G] == U16LE(srcData[GIDX(0)], srcData[GIDX(1)]))
__CPROVER_ensures(G < __CPROVER_return_value ==> charSizes[G] == 2)
/* frame inside the buffers: slots at and beyond the return value are untouched */
__CPROVER_ensures((G >= __CPROVER_return_value && G < maxChars) ==> toFill[G] == __CPROVER_old(toFill[(G < maxChars) ? G : 0]))
__CPROVER_ensures((G >= __CPROVER_return_value && G < maxChars) ==> charSizes[G] == __CPROVER_old(charSizes[(G < maxChars) ? G : 0]))
loop 1
__CPROVER_assigns(index, outPtr, asUTF16, __CPROVER_object_upto(toFill, maxChars * sizeof(XMLCh)))
__CPROVER_loop_invariant(index <= countToDo)
__CPROVER_loop_invariant(__CPROVER_same_object(outPtr, toFill) && __CPROVER_POINTER_OFFSET(outPtr) == __CPROVER_POINTER_OFFSET(toFill) + 2 * index)
__CPROVER_loop_invariant(__CPROVER_same_object(asUTF16, srcData) && __CPROVER_POINTER_OFFSET(asUTF16) == __CPROVER_POINTER_OFFSET(srcData) + 2 * index)
__CPROVER_loop_invariant((G < index) ==> toFill[G] == U16BE(srcData[GIDX(0)], srcData[GIDX(1)]))
__CPROVER_loop_invariant((G >= index && G < maxChars) ==> toFill[G] == __CPROVER_loop_entry(toFill[(G < maxChars) ? G : 0]))
__CPROVER_decreases(countToDo - index)
loop 2
__CPROVER_assigns(index, outPtr, asUTF16, __CPROVER_object_upto(toFill, maxChars * sizeof(XMLCh)))
__CPROVER_loop_invariant(index <= countToDo)
__CPROVER_loop_invariant(__CPROVER_same_object(outPtr, toFill) && __CPROVER_POINTER_OFFSET(outPtr) == __CPROVER_POINTER_OFFSET(toFill) + 2 * index)
__CPROVER_loop_invariant(__CPROVER_same_object(asUTF16, srcData) && __CPROVER_POINTER_OFFSET(asUTF16) == __CPROVER_POINTER_OFFSET(srcData) + 2 * index)
__CPROVER_loop_invariant((G < index) ==> toFill[G] == U16LE(srcData[GIDX(0)], srcData[GIDX(1)]))
__CPROVER_loop_invariant((G >= index && G < maxChars) ==> toFill[G] == __CPROVER_loop_entry(toFill[(G < maxChars) ? G : 0]))
__CPROVER_decreases(countToDo - index)
@*/

struct { XMLByte a[2 * NMAX + 1]; } SRC;
struct { XMLByte a[2 * NMAX]; } OUT;   /* byte-typed object, see note */
struct { unsigned char a[NMAX]; } SZ;

void h_utf16_from(void)
{
  XMLSize_t n, m, be = 0;
  VERIF_INPUT(n); VERIF_INPUT(m); VERIF_INPUT(G); VERIF_INPUT(SRC); VERIF_INPUT(OUT); VERIF_INPUT(SZ); VERIF_INPUT(SELF);
  VERIF_ASSUME(n <= 2 * NMAX + 1 && m <= NMAX);
  verif_thrown = 0;
  /* end-aligned: any access beyond srcCount / maxChars leaves the object */
  XMLUTF16Transcoder_transcodeFrom(SRC.a + (2 * NMAX + 1 - n), n, (XMLCh *)(OUT.a + 2 * (NMAX - m)), m, &be, SZ.a + (NMAX - m));
  VERIF_CANARY("after call");
}
