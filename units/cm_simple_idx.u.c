//@ unit cm_simple_idx
//@ props C07 C08
//@ kind W
//@ def quick NCH=4 NALPHA=3
//@ def thorough NCH=6 NALPHA=3
//@ cbmc quick --unwind 6 --unwinding-assertions
//@ cbmc thorough --unwind 8 --unwinding-assertions
//@ entry h_cm_simple_idx
//@ note W: same domain as cm_simple; checks that on failure *indexFailingChild is the index of the FIRST child that cannot be part of any match (= length of the longest viable prefix; == childCount when children are missing), which is the child the scanners name in ElementNotValidForContent (IGXMLScanner::scanEndTag: fChildren[failure]->getRawName())
//@ note NOT in scope: see cm_simple
#define VERIF_DEFINE_GHOSTS
#include "verif_prelude.h"
//@ include cm_common.inc
//@ include cm_simple_body.inc

void h_cm_simple_idx(void)
{
  cm_simple_run();
  VERIF_CANARY("after call");
  int op = fOp & 0x0f;
#define IDXMSG(m) "C07/C08: model " m ": on failure *indexFailingChild is the index of the first child that cannot be part of any match (childCount if only more children are missing)"
  if (R_opknown && !R_res) {
    if (op == ContentSpecNode_Leaf)       __CPROVER_assert(R_idx == R_vp, IDXMSG("a"));
    if (op == ContentSpecNode_ZeroOrOne)  __CPROVER_assert(R_idx == R_vp, IDXMSG("a?"));
    if (op == ContentSpecNode_ZeroOrMore) __CPROVER_assert(R_idx == R_vp, IDXMSG("a*"));
    if (op == ContentSpecNode_OneOrMore)  __CPROVER_assert(R_idx == R_vp, IDXMSG("a+"));
    if (op == ContentSpecNode_Choice)     __CPROVER_assert(R_idx == R_vp, IDXMSG("(a|b)"));
    if (op == ContentSpecNode_Sequence)   __CPROVER_assert(R_idx == R_vp, IDXMSG("(a,b)"));
  }
}
