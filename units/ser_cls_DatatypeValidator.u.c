//@ unit ser_cls_DatatypeValidator
//@ props C16
//@ kind L
//@ entry h_ser_cls_DatatypeValidator
//@ note L: loop-free; the real body of DatatypeValidator::serialize runs twice on one object: store mode onto the tape, then -- after the whole object has been given arbitrary values again -- load mode from the tape; every member value is symbolic (full range of its real type)
//@ note tape engine (contracts/ser_tape.inc): operator<< / operator>> / writeSize / readSize / writeString / readString and the sub-object serialisers (XTemplateSerializer::storeObject/loadObject, DatatypeValidator::storeDV/loadDV, Base::serialize ...) are trusted stubs that record / check (type tag, value); the tag of a streamed operand comes from its REAL type (member types from the real class declaration, casts from the code) via _Generic; strings, containers and pointers to serialisable objects are opaque ids (the pointer value stands for the object; loading yields the id that was stored); the byte-level engine is the subject of units ser_primitives, ser_fillflush, ser_rawbytes
//@ note compared after load (store then load restores the value): fAnonymous, fFinite, fBounded, fNumeric, fWhiteSpace, fFinalSet, fFacetsDefined, fFixed, fType, fOrdered, fBaseValidator, fFacets, fPattern, fTypeLocalName, fTypeUri; NOT compared: fTypeName (buffer behind fTypeUri / fTypeLocalName, rebuilt by setTypeName), fRegex (rebuilt from the loaded fPattern -- checked), fMemoryManager (not persistent state: the loading object keeps its own)
//@ note the type name is stored in one of three shapes selected by comparing fTypeUri BY ADDRESS with XMLUni::fgZeroLenString / SchemaSymbols::fgURI_SCHEMAFORSCHEMA (flag TYPENAME_ZERO / _S4S / _NORMAL from the real source); all three shapes are covered (case canaries); setTypeName (both overloads), new RegularExpression and ArrayJanitor are trusted stubs on string ids
//@ note after load a validator WITHOUT pattern facet owns an (empty) RegularExpression object where the original had fRegex == 0: not a behavioural difference (fRegex is only consulted under FACET_PATTERN), accepted by the unit
#define VERIF_DEFINE_GHOSTS
#include "verif_prelude.h"
//@ include ser_tape.inc
typedef int ValidatorType;
typedef int XSSimpleTypeDefinition_ORDERING;
/* the two distinguished namespace strings the store branch compares fTypeUri with BY ADDRESS, and the regex option string */
static const XMLCh XMLUni_fgZeroLenString[1], SchemaSymbols_fgURI_SCHEMAFORSCHEMA[1], SchemaSymbols_fgRegEx_XOption[1];
//@ table src/xercesc/validators/datatype/DatatypeValidator.cpp TYPENAME_ZERO asenum
//@ table src/xercesc/validators/datatype/DatatypeValidator.cpp TYPENAME_S4S asenum
//@ table src/xercesc/validators/datatype/DatatypeValidator.cpp TYPENAME_NORMAL asenum
/* trusted stubs on string ids (a copy of a string has the id of the original):
 *   setTypeName(typeName): null -> (uri, local) = (fgZeroLenString, fgZeroLenString); else, the name having no comma (an NCName), (fgURI_SCHEMAFORSCHEMA, typeName)
 *   setTypeName(name, uri): both null -> (fgZeroLenString, fgZeroLenString); else (uri, name)      [DatatypeValidator.cpp, the two overloads]
 *   new RegularExpression(pattern, options, manager): records the pattern; ArrayJanitor: owns the temporary string (nothing to model on ids) */
void *SETTYPENAME_MARK;   /* fTypeName after setTypeName: some buffer */
static void DV_setTypeName_fn1(const XMLCh *typeName);
static void DV_setTypeName_fn2(const XMLCh *name, const XMLCh *uri);
#define DV_setTypeName_1(a) DV_setTypeName_fn1(a)
#define DV_setTypeName_2(a, b) DV_setTypeName_fn2(a, b)
#define DV_setTypeName(...) ENG_CAT(DV_setTypeName_, ENG_NARGS(__VA_ARGS__))(__VA_ARGS__)
static char RE_OBJ; int RE_NEW_CALLS; const XMLCh *RE_PATTERN; XMLSize_t RE_AT_CUR;
static void* RE_new(const XMLCh *pattern, const XMLCh *options, void *manager) { RE_NEW_CALLS++; RE_PATTERN = pattern; RE_AT_CUR = TAPE_CUR; return &RE_OBJ; }
#define JANITOR_XMLCh(name, p, mm) const XMLCh *name = (p); (void)name
//@ struct src/xercesc/validators/datatype/DatatypeValidator.hpp DatatypeValidator only=auto enums=ValidatorType,XSSimpleTypeDefinition_ORDERING structs=DatatypeValidator

/*@extract src/xercesc/validators/datatype/DatatypeValidator.cpp DatatypeValidator::serialize
streamops serEng
method serEng.isStoring => ENG_isStoring
method serEng.isLoading => ENG_isLoading
method serEng.writeSize => ENG_writeSize
method serEng.readSize => ENG_readSize
method serEng.writeString => ENG_writeString
method serEng.readString => ENG_readString
call storeDV => DatatypeValidator_storeDV
call loadDV => DatatypeValidator_loadDV
call setTypeName => DV_setTypeName
sub* ArrayJanitor<XMLCh>\s+(\w+)\( => JANITOR_XMLCh(\1, 
sub* new \(fMemoryManager\) RegularExpression\( => RE_new(
@*/

#define FIELDS(X) X(fAnonymous) X(fFinite) X(fBounded) X(fNumeric) X(fWhiteSpace) X(fFinalSet) X(fFacetsDefined) X(fFixed) X(fType) X(fOrdered) X(fBaseValidator) X(fFacets) X(fPattern) X(fTypeLocalName) X(fTypeUri)

void h_ser_cls_DatatypeValidator(void)
{
  VERIF_INPUT(SELF); TAPE_INIT();
  int which; VERIF_INPUT(which); VERIF_ASSUME(which >= 0 && which <= 2);
  /* the three shapes of a type name: none / in the schema-for-schemas namespace / any other namespace (class invariant of setTypeName:
   * fTypeUri is fgZeroLenString only together with fTypeLocalName) */
  if (which == 0) { fTypeUri = XMLUni_fgZeroLenString; fTypeLocalName = XMLUni_fgZeroLenString; }
  else if (which == 1) fTypeUri = SchemaSymbols_fgURI_SCHEMAFORSCHEMA;
  else VERIF_ASSUME(fTypeUri != XMLUni_fgZeroLenString && fTypeUri != SchemaSymbols_fgURI_SCHEMAFORSCHEMA && fTypeUri != 0);
  if (which != 0) VERIF_ASSUME(fTypeLocalName != 0);   /* both overloads of setTypeName leave fTypeLocalName pointing into the name buffer or at fgZeroLenString */
  FIELDS(SER_FIELD_SAVE)
  verif_thrown = 0;
  TAPE_BEGIN_STORE();
  DatatypeValidator_serialize(&ENGINE);
  VERIF_INPUT(SELF);                      /* the object that is loaded into: arbitrary contents */
  RE_NEW_CALLS = 0;
  TAPE_BEGIN_LOAD();
  DatatypeValidator_serialize(&ENGINE);
  VERIF_CANARY("after store and load");
  __CPROVER_assert(!verif_thrown, "C16: serialize does not throw by itself");
  TAPE_END_CHECK();
  FIELDS(SER_FIELD_CHECK)
  __CPROVER_assert(RE_NEW_CALLS == 1 && fRegex == (void*)&RE_OBJ && RE_PATTERN == sv_fPattern && RE_AT_CUR == TAPE_LEN,
                   "C16: the regular expression, which is not serialised, is rebuilt once from the LOADED pattern");
  if (which == 0) VERIF_CANARY("no type name"); if (which == 1) VERIF_CANARY("schema-for-schemas type name"); if (which == 2) VERIF_CANARY("other type name");
}
static void DV_setTypeName_fn1(const XMLCh *typeName)
{ fTypeName = 0; if (typeName) { fTypeName = SETTYPENAME_MARK; fTypeUri = SchemaSymbols_fgURI_SCHEMAFORSCHEMA; fTypeLocalName = typeName; } else { fTypeUri = fTypeLocalName = XMLUni_fgZeroLenString; } }
static void DV_setTypeName_fn2(const XMLCh *name, const XMLCh *uri)
{ fTypeName = 0; if (name || uri) { fTypeName = SETTYPENAME_MARK; fTypeUri = uri; fTypeLocalName = name; } else { fTypeUri = fTypeLocalName = XMLUni_fgZeroLenString; }
}
