//@ unit vec_insert
//@ props C01
//@ kind P
//@ def quick VN=4 NEWN=8
//@ def thorough VN=8 NEWN=16
//@ enforce ValueVectorOf_addElement
//@ enforce ValueVectorOf_insertElementAt
//@ replace ValueVectorOf_ensureExtraCapacity
//@ entry h_vec_insert
//@ note P: the shift loop of insertElementAt runs through a loop contract; ensureExtraCapacity is replaced by the contract proved in vec_valuevector (two ghost indices G, G1 = G - 1: the caller shifts elements by one position); TElem = int
//@ note allocator stubs and layout: see contracts/vec_common.inc
#define VERIF_DEFINE_GHOSTS
#include "verif_prelude.h"
//@ include vec_common.inc
//@ struct src/xercesc/util/ValueVectorOf.hpp ValueVectorOf only=auto ov:fElemList=TElem*~fElemList

/*@extract src/xercesc/util/ValueVectorOf.c ValueVectorOf<TElem>::ensureExtraCapacity
as ValueVectorOf_ensureExtraCapacity
template-ok
declonly
contract
//@ include vec_ensureExtraCapacity.contract.inc
@*/

#define VEC_PRE (RI_VEC && fMaxCount <= VN && fMaxCount >= 1 && G < NEWN && G1 < NEWN && (G == 0 || G1 == G - 1) && !verif_thrown && __CPROVER_same_object(fElemList, OLDL.a))
/*@extract src/xercesc/util/ValueVectorOf.c ValueVectorOf<TElem>::addElement
as ValueVectorOf_addElement
template-ok
call ensureExtraCapacity => ValueVectorOf_ensureExtraCapacity
contract
__CPROVER_requires(VEC_PRE && __CPROVER_r_ok(toAdd_p, sizeof(TElem)) && !__CPROVER_same_object(toAdd_p, NEWL.a) && !__CPROVER_same_object(toAdd_p, OLDL.a))
__CPROVER_assigns(fElemList, fMaxCount, fCurCount, FREED, ALLOCS, __CPROVER_object_upto(NEWL.a, sizeof(NEWL.a)), __CPROVER_object_upto(OLDL.a, sizeof(OLDL.a)))
__CPROVER_ensures(RI_VEC && fCurCount == __CPROVER_old(fCurCount) + 1)
__CPROVER_ensures(fElemList[CLV(fCurCount - 1)] == *toAdd_p)
__CPROVER_ensures((G < fCurCount - 1) ==> fElemList[CLV(G)] == __CPROVER_old(fElemList[CLV(G)]))
@*/

/*@extract src/xercesc/util/ValueVectorOf.c ValueVectorOf<TElem>::insertElementAt
as ValueVectorOf_insertElementAt
template-ok
call ensureExtraCapacity => ValueVectorOf_ensureExtraCapacity
call addElement => ValueVectorOf_addElement
contract
__CPROVER_requires(VEC_PRE && __CPROVER_r_ok(toInsert_p, sizeof(TElem)) && !__CPROVER_same_object(toInsert_p, NEWL.a) && !__CPROVER_same_object(toInsert_p, OLDL.a))
__CPROVER_assigns(fElemList, fMaxCount, fCurCount, FREED, ALLOCS, __CPROVER_object_upto(NEWL.a, sizeof(NEWL.a)), __CPROVER_object_upto(OLDL.a, sizeof(OLDL.a)), verif_thrown, verif_throw_type, verif_throw_code)
__CPROVER_ensures(RI_VEC)
__CPROVER_ensures(insertAt > __CPROVER_old(fCurCount) ==> (verif_thrown && verif_throw_type == VT_ArrayIndexOutOfBoundsException && fCurCount == __CPROVER_old(fCurCount)))
__CPROVER_ensures(insertAt <= __CPROVER_old(fCurCount) ==> (!verif_thrown && fCurCount == __CPROVER_old(fCurCount) + 1 && fElemList[CLV(insertAt)] == *toInsert_p))
/* elements below the insertion point stay, the ones at and above it move up by one */
__CPROVER_ensures((!verif_thrown && G < insertAt) ==> fElemList[CLV(G)] == __CPROVER_old(fElemList[CLV(G)]))
__CPROVER_ensures((!verif_thrown && G > insertAt && G < fCurCount) ==> fElemList[CLV(G)] == __CPROVER_old(fElemList[CLV(G1)]))
loop 1
__CPROVER_assigns(index, __CPROVER_object_upto(fElemList, fMaxCount * sizeof(TElem)))
__CPROVER_loop_invariant(insertAt <= index && index <= fCurCount)
__CPROVER_loop_invariant((G < insertAt) ==> fElemList[CLV(G)] == __CPROVER_loop_entry(fElemList[CLV(G)]))
__CPROVER_loop_invariant((G > index && G <= fCurCount) ==> fElemList[CLV(G)] == __CPROVER_loop_entry(fElemList[CLV(G1)]))
__CPROVER_loop_invariant((G >= 1 && G1 < index) ==> fElemList[CLV(G1)] == __CPROVER_loop_entry(fElemList[CLV(G1)]))
__CPROVER_decreases(index)
@*/

TElem VAL;
void h_vec_insert(void)
{
  XMLSize_t cap, cnt, at;
  VERIF_INPUT(OLDL); VERIF_INPUT(NEWL); VERIF_INPUT(G); VERIF_INPUT(G1); VERIF_INPUT(cap); VERIF_INPUT(cnt); VERIF_INPUT(at); VERIF_INPUT(VAL);
  VERIF_ASSUME(cap >= 1 && cap <= VN && cnt <= cap);
  fMaxCount = cap; fCurCount = cnt; fElemList = OLDL.a + (VN - cap);
  verif_thrown = 0; ALLOCS = 0;

  _Bool which; VERIF_INPUT(which);
  if (which) {
    ValueVectorOf_addElement(&VAL);
    VERIF_CANARY("after addElement");
    if (ALLOCS == 1 && cnt > 1) VERIF_CANARY("addElement: growing case reachable");
  } else {
    ValueVectorOf_insertElementAt(&VAL, at);
    VERIF_CANARY("after insertElementAt");
    if (!verif_thrown && ALLOCS == 1 && at + 1 < cnt) VERIF_CANARY("insertElementAt: growing and shifting case reachable");
    if (!verif_thrown && ALLOCS == 0 && at + 1 < cnt) VERIF_CANARY("insertElementAt: shifting in place reachable");
  }
}
