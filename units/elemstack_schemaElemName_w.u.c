//@ unit elemstack_schemaElemName_w
//@ props C01
//@ kind W
//@ def quick NL=4
//@ def thorough NL=7
//@ cbmc all --unwind 10 --unwinding-assertions
//@ entry h_schemaElemName
//@ note W: ElemStack::setCurrentSchemaElemName with the real XMLString::stringLen and copyString, for every element name of 1..NL characters and every capacity 0..2*NL of the name buffer the stack row already owns (the row is reused by every element at that depth); loops unwound completely
//@ note trusted stubs: fMemoryManager->allocate(n) hands out a block of exactly n bytes (end-aligned in a static object: one element too many leaves the object), deallocate is a no-op; class invariant assumed for the row: fSchemaElemName is null with capacity 0 or a block of fSchemaElemNameMaxLen characters
//@ note assumed of the callers (SGXMLScanner / IGXMLScanner pass the raw QName of an element): the name is not empty (for an empty name and capacity 0 the function allocates 0 characters and writes the terminator: latent, no caller)
#define VERIF_DEFINE_GHOSTS
#include "verif_prelude.h"
#define CAP (2 * NL + 2)
typedef struct StackElem { XMLCh *fSchemaElemName; XMLSize_t fSchemaElemNameMaxLen; } StackElem;
StackElem ROW; StackElem *fStack[1]; XMLSize_t fStackTop;
struct { XMLCh a[CAP]; } OLDBLK, NEWBLK;
struct { XMLCh a[NL + 1]; } NAME;
int ALLOCS, FREED_OLD; XMLSize_t ALLOC_CHARS;
static void* MM_allocate(XMLSize_t bytes)
{
  ALLOCS++; ALLOC_CHARS = bytes / sizeof(XMLCh);
  __CPROVER_assert(bytes % sizeof(XMLCh) == 0 && bytes / sizeof(XMLCh) <= CAP, "harness capacity: allocation fits the block model");
  __CPROVER_assume(bytes / sizeof(XMLCh) <= CAP);
  return &NEWBLK.a[CAP - bytes / sizeof(XMLCh)];
}
extern XMLCh *OLDPTR;
static void MM_deallocate(void *p) { if (p != 0 && p == (void*)OLDPTR) FREED_OLD++; }

/*@extract src/xercesc/util/XMLString.hpp XMLString::stringLen
params const XMLCh* const src
static
@*/
/*@extract src/xercesc/util/XMLString.cpp XMLString::copyString
params XMLCh* const target, const XMLCh* const src
@*/
/*@extract src/xercesc/internal/ElemStack.hpp ElemStack::setCurrentSchemaElemName
as ES_setCurrentSchemaElemName
sub* fMemoryManager->allocate\( => MM_allocate(
sub* fMemoryManager->deallocate\( => MM_deallocate(
@*/

XMLCh *OLDPTR;
void h_schemaElemName(void)
{
  XMLSize_t len, cap;
  VERIF_INPUT(NAME); VERIF_INPUT(OLDBLK); VERIF_INPUT(NEWBLK); VERIF_INPUT(len); VERIF_INPUT(cap);
  VERIF_ASSUME(len >= 1 && len <= NL && cap <= 2 * NL);
  const XMLCh *name = NAME.a + (NL - len);      /* end-aligned: the terminator is the last element */
  VERIF_ASSUME(NAME.a[NL] == 0);
  for (int k = 0; k < NL; k++) if ((XMLSize_t)k < len) VERIF_ASSUME(name[k] != 0);
  OLDPTR = cap == 0 ? (XMLCh*)0 : &OLDBLK.a[CAP - cap];
  ROW.fSchemaElemName = OLDPTR; ROW.fSchemaElemNameMaxLen = cap;
  fStack[0] = &ROW; fStackTop = 1; ALLOCS = 0; FREED_OLD = 0; verif_thrown = 0;
  ES_setCurrentSchemaElemName(name);
  VERIF_CANARY("after setCurrentSchemaElemName");
  __CPROVER_assert(!verif_thrown && ROW.fSchemaElemName != 0, "C01: the row holds a name buffer");
  __CPROVER_assert(ROW.fSchemaElemNameMaxLen > len, "C01: the capacity recorded for the row has room for the name and its terminator");
  __CPROVER_assert(ALLOCS == 0 ? (ROW.fSchemaElemName == OLDPTR && ROW.fSchemaElemNameMaxLen == cap) : (ALLOCS == 1 && ROW.fSchemaElemNameMaxLen == ALLOC_CHARS && (cap == 0 || FREED_OLD == 1)),
                   "C01: the buffer is kept, or replaced by one of the recorded capacity with the old one released once");
  XMLSize_t g; VERIF_INPUT(g); VERIF_ASSUME(g <= len);
  __CPROVER_assert(ROW.fSchemaElemName[g] == name[g], "C07/C08: the row caches the element's name (terminator included)");
  if (cap == len) { VERIF_CANARY("capacity == length reachable"); }
}
