//@ unit scan_eq_w
//@ props C02 C03 C01
//@ kind W
//@ def quick NIN=5
//@ def thorough NIN=10
//@ cbmc all --unwind 13 --unwinding-assertions
//@ entry h_scanEq
//@ note W: complete for every character sequence of length <= NIN, both modes (inDecl: inside the XML/text declaration)
//@ note reader abstraction (skipPastSpaces in both overloads, skippedChar) is a trusted stub over one entity (contracts/scanner_stubs2.inc); white space = production [3] S
#define VERIF_DEFINE_GHOSTS
#include "verif_prelude.h"
//@ include scanner_stubs2.inc

/*@extract src/xercesc/internal/XMLScanner.cpp XMLScanner::scanEq
ret false
sub* fReaderMgr\.skipPastSpaces\( => RM_skipPastSpaces(
sub* fReaderMgr\.skippedChar\( => RM_skippedChar(
@*/

/* spec: XML 1.0 production [25]  Eq ::= S? '=' S? */
void h_scanEq(void)
{
  _Bool inDecl;
  VERIF_INPUT(INPUT); VERIF_INPUT(LEN); VERIF_INPUT(inDecl);
  VERIF_ASSUME(LEN <= NIN);
  for (XMLSize_t k = 0; k < NIN; k++) VERIF_ASSUME(k >= LEN || INPUT.a[k] != 0);   /* 0 is the reader's end-of-input value */
  POS = 0; ERR_COUNT = 0; verif_thrown = 0;
  bool ok = XMLScanner_scanEq(inDecl);
  VERIF_CANARY("after call");

  /* reference recogniser */
  XMLSize_t i = 0, s0; int wf = 0;
  while (i < LEN && RD_isWhitespace(INPUT.a[i])) i++;
  s0 = i;
  if (i < LEN && INPUT.a[i] == '=') { wf = 1; i++; while (i < LEN && RD_isWhitespace(INPUT.a[i])) i++; }
  __CPROVER_assert(!verif_thrown && ERR_COUNT == 0, "C01: scanEq neither throws nor reports (its callers report ExpectedEqSign)");
  __CPROVER_assert(ok == (wf != 0), "C02: scanEq succeeds iff the input starts with S? '='");
  if (wf) __CPROVER_assert(POS == i, "C03: exactly S? '=' S? is consumed (the longest match)");
  else    __CPROVER_assert(POS <= s0, "C03: on failure nothing but leading white space is consumed");
}
