//@ unit elemstack_addGlobalPrefix
//@ props C06 C01
//@ kind P
//@ enforce ElemStack_addGlobalPrefix
//@ replace memcpy
//@ replace XMLStringPool_addOrFind
//@ cbmc all --unsigned-overflow-check
//@ timeout quick=900 thorough=1800
//@ entry h_elemstack_addGlobalPrefix
//@ note loop-free; the global row is created on first use (`new StackElem` = harness-prepared fresh row); map capacity 0 or 4..2^40; real body of expandMap inlined, memcpy replaced by its C11 contract, XMLStringPool::addOrFind contract-only
#define VERIF_DEFINE_GHOSTS
#include "verif_prelude.h"
#include <stdlib.h>
//@ include ElemStack_ri.inc

/*@extract src/xercesc/internal/ElemStack.cpp ElemStack::expandMap
sub fMemoryManager->allocate => verif_alloc
sub fMemoryManager->deallocate => verif_free
@*/
/*@extract src/xercesc/internal/ElemStack.cpp ElemStack::addGlobalPrefix
sub fPrefixPool\.addOrFind => XMLStringPool_addOrFind
sub new \(fMemoryManager\) StackElem => verif_new_row()
call expandMap => ElemStack_expandMap
contract
CONTRACT_addGlobalPrefix
@*/

struct StackElem ROW_G, ROW_NEW;
unsigned int URI; XMLCh PFX[2];
void h_elemstack_addGlobalPrefix(void)
{
  _Bool exists;
  VERIF_INPUT(SELF); VERIF_INPUT(ROW_G); VERIF_INPUT(ROW_NEW); VERIF_INPUT(G); VERIF_INPUT(NEXTSIZE); VERIF_INPUT(URI); VERIF_INPUT(exists);
  NEXTBUF = malloc(NEXTSIZE); NEXTUSED = 0;
  VERIF_ASSUME(NEXTBUF != 0);
  NEXTROW = &ROW_NEW; NEXTROW_USED = 0;
  ROW_NEW.fMap = 0; ROW_NEW.fMapCount = 0; ROW_NEW.fMapCapacity = 0;
  if (exists) {
    VERIF_ASSUME(ROW_G.fMapCapacity <= VERIF_STK_MAX);
    ROW_G.fMap = ROW_G.fMapCapacity ? malloc(ROW_G.fMapCapacity * sizeof(struct PrefMapElem)) : 0;
    VERIF_ASSUME(ROW_G.fMapCapacity == 0 || ROW_G.fMap != 0);
    fGlobalNamespaces = &ROW_G; GROW = &ROW_G;
  } else {
    fGlobalNamespaces = 0; GROW = &ROW_NEW;
  }
  GW = G;
  PFX[0] = 'p'; PFX[1] = 0;
  verif_thrown = 0;
  ElemStack_addGlobalPrefix(PFX, URI);
  VERIF_CANARY("after call");
}
