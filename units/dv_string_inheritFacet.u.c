//@ unit dv_string_inheritFacet
//@ props C09 C01
//@ kind L
//@ entry h_dv_string_inheritFacet
//@ note L: loop-free, complete: AbstractStringValidator::inheritFacet (+ the real setLength / setMinLength / setMaxLength / setEnumeration, the getters on the base object, the DatatypeValidator accessors, the real no-op inheritAdditionalFacet and the destructor's ownership logic) for EVERY pair (derived validator, base validator or none): every fFacetsDefined / fFixed bit vector, every length / minLength / maxLength value
//@ note obligation (XML Schema Part 2 4.1.2.1 derivation by restriction, 4.3.1-4.3.3, 4.3.5): the {facets} of the derived type are the base type's overlaid by the ones the restriction specifies: length, minLength, maxLength and enumeration of the base apply to the derived type unless it specifies the same facet itself; nothing else changes; {fixed} carries over. pattern is deliberately not copied (4.3.4: patterns of different derivation steps are ANDed; the validator walks the base chain for them)
//@ note ownership (C01, from the destructor): an inherited enumeration belongs to the base validator: flagged inherited, never deleted by the derived validator
//@ note object model as in dv_numeric_inheritFacet: object = {DatatypeValidator base subobject first, AbstractStringValidator members}; RefArrayVectorOf pointers are opaque ids; representation invariant (constructor, assignFacet): the enumeration pointer is non-null iff FACET_ENUMERATION is set
//@ note the one-line getter getEnumeration() of the base object is modelled by the member access (its return type RefArrayVectorOf<XMLCh>* is a template-id, outside the extraction subset)
//@ note NOT in scope: assignFacet / inspectFacet (length <= base length etc.), overrides of inheritAdditionalFacet in derived classes
#define VERIF_DEFINE_GHOSTS
#include "verif_prelude.h"
//@ enum src/xercesc/validators/datatype/DatatypeValidator.hpp anon:FACET_LENGTH DatatypeValidator_ scope=DatatypeValidator
//@ struct src/xercesc/validators/datatype/DatatypeValidator.hpp DatatypeValidator self=none only=fFacetsDefined,fFixed,fBaseValidator structs=DatatypeValidator
typedef struct DatatypeValidator DatatypeValidator;
//@ struct src/xercesc/validators/datatype/AbstractStringValidator.hpp AbstractStringValidator self=none name=ASV_members
struct StrV { struct DatatypeValidator dv; struct ASV_members sv; };      /* base subobject first */
typedef struct StrV AbstractStringValidator;
typedef void RefArrayVectorOf_XMLCh;
struct StrV THISV, BASEV;

void *DELETED[4]; unsigned NDEL;
#define VERIF_DELETE DELETED[NDEL < 4 ? NDEL++ : 3] = (void *)

/*@extract src/xercesc/validators/datatype/DatatypeValidator.hpp DatatypeValidator::getFacetsDefined
selfparam DatatypeValidator
sub (?<![\w.>])(fFacetsDefined|fFixed|fBaseValidator)\b => self->\1
@*/
/*@extract src/xercesc/validators/datatype/DatatypeValidator.hpp DatatypeValidator::setFacetsDefined
selfparam DatatypeValidator
sub (?<![\w.>])(fFacetsDefined|fFixed|fBaseValidator)\b => self->\1
@*/
/*@extract src/xercesc/validators/datatype/DatatypeValidator.hpp DatatypeValidator::getFixed
selfparam DatatypeValidator
sub (?<![\w.>])(fFacetsDefined|fFixed|fBaseValidator)\b => self->\1
@*/
/*@extract src/xercesc/validators/datatype/DatatypeValidator.hpp DatatypeValidator::setFixed
selfparam DatatypeValidator
sub (?<![\w.>])(fFacetsDefined|fFixed|fBaseValidator)\b => self->\1
@*/
/*@extract src/xercesc/validators/datatype/DatatypeValidator.hpp DatatypeValidator::getBaseValidator
selfparam DatatypeValidator
sub (?<![\w.>])(fFacetsDefined|fFixed|fBaseValidator)\b => self->\1
@*/
/*@extract src/xercesc/validators/datatype/AbstractStringValidator.hpp AbstractStringValidator::getLength
selfparam StrV
sub (?<![\w.>])(fLength|fMaxLength|fMinLength|fEnumeration)\b => self->sv.\1
@*/
/*@extract src/xercesc/validators/datatype/AbstractStringValidator.hpp AbstractStringValidator::getMaxLength
selfparam StrV
sub (?<![\w.>])(fLength|fMaxLength|fMinLength|fEnumeration)\b => self->sv.\1
@*/
/*@extract src/xercesc/validators/datatype/AbstractStringValidator.hpp AbstractStringValidator::getMinLength
selfparam StrV
sub (?<![\w.>])(fLength|fMaxLength|fMinLength|fEnumeration)\b => self->sv.\1
@*/
/*@extract src/xercesc/validators/datatype/AbstractStringValidator.hpp AbstractStringValidator::setLength
sub* (?<![\w.>])(fLength|fMaxLength|fMinLength|fEnumeration(?:Inherited)?)\b => THISV.sv.\1
@*/
/*@extract src/xercesc/validators/datatype/AbstractStringValidator.hpp AbstractStringValidator::setMaxLength
sub* (?<![\w.>])(fLength|fMaxLength|fMinLength|fEnumeration(?:Inherited)?)\b => THISV.sv.\1
@*/
/*@extract src/xercesc/validators/datatype/AbstractStringValidator.hpp AbstractStringValidator::setMinLength
sub* (?<![\w.>])(fLength|fMaxLength|fMinLength|fEnumeration(?:Inherited)?)\b => THISV.sv.\1
@*/
/*@extract src/xercesc/validators/datatype/AbstractStringValidator.hpp AbstractStringValidator::setEnumeration
sub* (?<![\w.>])(fLength|fMaxLength|fMinLength|fEnumeration(?:Inherited)?)\b => THISV.sv.\1
sub* (?<![\w.>])setFacetsDefined\( => DatatypeValidator_setFacetsDefined(&THISV.dv,
sub* \bdelete\b => VERIF_DELETE
@*/
/*@extract src/xercesc/validators/datatype/AbstractStringValidator.cpp AbstractStringValidator::inheritAdditionalFacet
@*/
/*@extract src/xercesc/validators/datatype/AbstractStringValidator.cpp AbstractStringValidator::inheritFacet
sub* (?<![\w.>])getBaseValidator\(\) => DatatypeValidator_getBaseValidator(&THISV.dv)
sub* (?<![\w.>])getFacetsDefined\(\) => DatatypeValidator_getFacetsDefined(&THISV.dv)
sub* (?<![\w.>])getFixed\(\) => DatatypeValidator_getFixed(&THISV.dv)
sub* (?<![\w.>])setFacetsDefined\( => DatatypeValidator_setFacetsDefined(&THISV.dv,
sub* (?<![\w.>])setFixed\( => DatatypeValidator_setFixed(&THISV.dv,
sub* \bpBaseValidator->getFacetsDefined\(\) => DatatypeValidator_getFacetsDefined(&pBaseValidator->dv)
sub* \bpBaseValidator->getFixed\(\) => DatatypeValidator_getFixed(&pBaseValidator->dv)
method pBaseValidator->getLength => AbstractStringValidator_getLength
method pBaseValidator->getMinLength => AbstractStringValidator_getMinLength
method pBaseValidator->getMaxLength => AbstractStringValidator_getMaxLength
sub* \bpBaseValidator->getEnumeration\(\) => pBaseValidator->sv.fEnumeration
call setLength => AbstractStringValidator_setLength
call setMinLength => AbstractStringValidator_setMinLength
call setMaxLength => AbstractStringValidator_setMaxLength
call setEnumeration => AbstractStringValidator_setEnumeration
call inheritAdditionalFacet => AbstractStringValidator_inheritAdditionalFacet
@*/
/*@extract src/xercesc/validators/datatype/AbstractStringValidator.cpp AbstractStringValidator::~AbstractStringValidator
as AbstractStringValidator_dtor
sub* (?<![\w.>])(fLength|fMaxLength|fMinLength|fEnumeration(?:Inherited)?)\b => THISV.sv.\1
sub* \bdelete\b => VERIF_DELETE
@*/

enum { F_LEN = DatatypeValidator_FACET_LENGTH, F_MINL = DatatypeValidator_FACET_MINLENGTH, F_MAXL = DatatypeValidator_FACET_MAXLENGTH, F_ENUM = DatatypeValidator_FACET_ENUMERATION, F_PAT = DatatypeValidator_FACET_PATTERN };
char T_ENUM, B_ENUM;
#define RI_STRV(v) ((((v).dv.fFacetsDefined & F_ENUM) != 0) == ((v).sv.fEnumeration != 0))

void h_dv_string_inheritFacet(void)
{
  _Bool has_base;
  VERIF_INPUT(THISV); VERIF_INPUT(BASEV); VERIF_INPUT(has_base);
  THISV.sv.fEnumeration = (THISV.dv.fFacetsDefined & F_ENUM) ? (void *)&T_ENUM : (void *)0; THISV.sv.fEnumerationInherited = 0;     /* as the constructor + assignFacet leave it */
  BASEV.sv.fEnumeration = (BASEV.dv.fFacetsDefined & F_ENUM) ? (void *)&B_ENUM : (void *)0;                                        /* own or inherited further up: flag arbitrary */
  THISV.dv.fBaseValidator = has_base ? &BASEV.dv : (struct DatatypeValidator *)0;
  const struct StrV T0 = THISV, B0 = BASEV;
  const int tf = T0.dv.fFacetsDefined, bf = has_base ? B0.dv.fFacetsDefined : 0;
  verif_thrown = 0; NDEL = 0;

  AbstractStringValidator_inheritFacet();
  VERIF_CANARY("after call");

  const int inh_len = (bf & F_LEN) && !(tf & F_LEN), inh_minl = (bf & F_MINL) && !(tf & F_MINL), inh_maxl = (bf & F_MAXL) && !(tf & F_MAXL), inh_enum = (bf & F_ENUM) && !(tf & F_ENUM);
  if (inh_len && inh_enum && !inh_maxl && (tf & F_MAXL)) VERIF_CANARY("mixed case reachable");
  __CPROVER_assert(!verif_thrown, "C01: inheritFacet raises no exception");
  __CPROVER_assert(THISV.sv.fLength == (inh_len ? B0.sv.fLength : T0.sv.fLength), "C09: length of the base applies iff the derived type specifies no length; otherwise the own value stays");
  __CPROVER_assert(THISV.sv.fMinLength == (inh_minl ? B0.sv.fMinLength : T0.sv.fMinLength), "C09: minLength of the base applies iff the derived type specifies no minLength; otherwise the own value stays");
  __CPROVER_assert(THISV.sv.fMaxLength == (inh_maxl ? B0.sv.fMaxLength : T0.sv.fMaxLength), "C09: maxLength of the base applies iff the derived type specifies no maxLength; otherwise the own value stays");
  __CPROVER_assert(THISV.sv.fEnumeration == (inh_enum ? B0.sv.fEnumeration : T0.sv.fEnumeration) && (THISV.sv.fEnumerationInherited != 0) == inh_enum, "C09: the enumeration of the base is inherited (and flagged inherited) iff the derived type has none of its own");
  __CPROVER_assert(THISV.dv.fFacetsDefined == (tf | (inh_len ? F_LEN : 0) | (inh_minl ? F_MINL : 0) | (inh_maxl ? F_MAXL : 0) | (inh_enum ? F_ENUM : 0)), "C09: fFacetsDefined gains exactly the bits of the inherited facets (pattern is not inherited)");
  __CPROVER_assert(THISV.dv.fFixed == (T0.dv.fFixed | (has_base ? B0.dv.fFixed : 0)), "C09: the fixed flags of the base are or-ed into the derived type's");
  __CPROVER_assert(RI_STRV(THISV) && THISV.dv.fBaseValidator == T0.dv.fBaseValidator && NDEL == 0, "C01: enumeration present iff its bit is set; base link unchanged; nothing is deleted by inheriting");
  __CPROVER_assert(BASEV.dv.fFacetsDefined == B0.dv.fFacetsDefined && BASEV.dv.fFixed == B0.dv.fFixed && BASEV.dv.fBaseValidator == B0.dv.fBaseValidator && BASEV.sv.fLength == B0.sv.fLength && BASEV.sv.fMinLength == B0.sv.fMinLength
                && BASEV.sv.fMaxLength == B0.sv.fMaxLength && BASEV.sv.fEnumeration == B0.sv.fEnumeration && BASEV.sv.fEnumerationInherited == B0.sv.fEnumerationInherited, "C09: the base validator is not modified");

  AbstractStringValidator_dtor();
  VERIF_CANARY("after destructor");
  __CPROVER_assert((tf & F_ENUM) ? (NDEL == 1 && DELETED[0] == (void *)&T_ENUM) : NDEL == 0, "C01: the derived validator's destructor releases its own enumeration once and never the base's (an inherited enumeration is not deleted twice)");
}
