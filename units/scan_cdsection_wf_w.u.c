//@ unit scan_cdsection_wf_w
//@ props C02 C03 C01
//@ kind W
//@ def quick NIN=5
//@ def thorough NIN=7
//@ cbmc all --unwind 10 --unwinding-assertions --arrays-uf-always
//@ timeout quick=600 thorough=1800
//@ entry h_scanCDSection
//@ note W: complete for every character sequence of length <= NIN following '<![CDATA'
//@ note WFXMLScanner version (the IG/DG/SG versions interleave validator calls and are outside the extractable subset); reader abstraction, emitError, buffer and document-handler sinks are trusted stubs (contracts/scanner_stubs.inc); XMLBufBid RAII and binToText message formatting dropped by sub rules
#define VERIF_DEFINE_GHOSTS
#include "verif_prelude.h"
//@ include scanner_stubs.inc

/*@extract src/xercesc/internal/WFXMLScanner.cpp WFXMLScanner::scanCDSection
sub XMLBufBid bbCData\(&fBufMgr\); => XB_reset();
sub fReaderMgr\.getNextChar\( => RM_getNextChar(
sub fReaderMgr\.skippedChar\( => RM_skippedChar(
sub fReaderMgr\.skippedString\( => RM_skippedString(
sub fReaderMgr\.skipPastSpaces\( => RM_skipPastSpaces(
sub fReaderMgr\.getCurrentReader\(\)->isXMLChar\( => RD_isXMLChar(
sub XMLCh tmpBuf\[9\];\s*XMLString::binToText\s*\([^;]*\); =>
sub emitError\(XMLErrs::InvalidCharacter, tmpBuf\) => SC_emitError(XMLErrs::InvalidCharacter)
sub (?<!SC_)emitError\( => SC_emitError(
sub bbCData\.append\( => XB_append(
sub if \(fDocHandler\)\s*\{\s*fDocHandler->docCharacters\s*\(\s*bbCData\.getRawBuffer\(\)\s*, bbCData\.getLen\(\)\s*, true\s*\);\s*\} => DH_chars(XB_getRawBuffer(), OUTLEN, true);
@*/

/* spec: XML 1.0 [18] CDSect ::= CDStart CData CDEnd ; [20] CData ::= (Char* - (Char* ']]>' Char*)) ; after '<![CDATA' comes '[' */
void h_scanCDSection(void)
{
  VERIF_INPUT(INPUT); VERIF_INPUT(LEN); VERIF_INPUT(XMLCHAR_T);
  VERIF_ASSUME(LEN <= NIN);
  for (XMLSize_t k = 0; k < NIN; k++) VERIF_ASSUME(k >= LEN || INPUT.a[k] != 0);
  VERIF_ASSUME(XMLCHAR[']'] && XMLCHAR['>'] && XMLCHAR['[']);   /* facts about the real tables (chartab_*) */
  POS = 0; ERR_COUNT = 0; ERR_FATAL_COUNT = 0; DOC_EVENTS = 0; OUT_OVERFLOW = 0; OUTLEN = 0; verif_thrown = 0;
  assume_surrogates_not_char();
  WFXMLScanner_scanCDSection();
  VERIF_CANARY("after call");

  XMLSize_t i = 0, dlen = 0, end = 0; int wf = 1, closed = 0;
  XMLCh data[NIN + 1];
  if (!(i < LEN && INPUT.a[i] == '[')) wf = 0; else i++;
  if (wf) {
    while (i < LEN) {
      XMLCh c = INPUT.a[i];
      if (c == ']' && i + 2 < LEN && INPUT.a[i + 1] == ']' && INPUT.a[i + 2] == '>') { closed = 1; end = i + 3; break; }
      if (c >= 0xD800 && c <= 0xDBFF) {
        if (i + 1 < LEN && INPUT.a[i + 1] >= 0xDC00 && INPUT.a[i + 1] <= 0xDFFF) { data[dlen++] = c; data[dlen++] = INPUT.a[i + 1]; i += 2; continue; }
        wf = 0;
      } else if ((c >= 0xDC00 && c <= 0xDFFF) || !XMLCHAR[c]) wf = 0;
      data[dlen++] = c; i++;
    }
    if (!closed) wf = 0;
  }
  if (wf) {
    __CPROVER_assert(!verif_thrown && ERR_COUNT == 0, "C02: a well-formed CDATA section is accepted without error");
    __CPROVER_assert(POS == end, "C03: exactly the CDATA section is consumed");
    __CPROVER_assert(DOC_EVENTS == 1 && DOC_CDATA && DOC_LEN == dlen, "C03: one docCharacters(cdata=true) event with the section length");
    for (XMLSize_t k = 0; k < NIN; k++) if (k < dlen) __CPROVER_assert(DOC_TEXT.a[k] == data[k], "C03: CDATA text delivered exactly");
  } else {
    __CPROVER_assert(verif_thrown || ERR_FATAL_COUNT >= 1, "C02: an ill-formed CDATA section (missing '[', illegal character, broken surrogate pair, unterminated) raises a fatal error");
  }
  __CPROVER_assert(!OUT_OVERFLOW && POS <= LEN, "C01: buffers and reader position in range");
}
