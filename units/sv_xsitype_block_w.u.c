//@ unit sv_xsitype_block_w
//@ props C08
//@ kind W
//@ def quick NTY=4
//@ def thorough NTY=6
//@ cbmc all --unwind 9 --unwinding-assertions
//@ entry h_xsitype
//@ note fragment of SchemaValidator::validateElement (xsi:type names a complex type and the element's declared type is complex: derivation and block check), verified as a function of its own: complete for derivation chains of <= NTY complex types, every derivation method bit and every block set of the element declaration and of each type
//@ note trusted stubs: ComplexTypeInfo is a record (base, derivedBy, blockSet) with an acyclic base chain; emitError records the codes; the surrounding lookup of the type named by xsi:type and the simple-type branches are outside the fragment
#define VERIF_DEFINE_GHOSTS
#include "verif_prelude.h"
struct ComplexTypeInfo { int base; int derivedBy; int blockSet; }; typedef struct ComplexTypeInfo ComplexTypeInfo;
struct { ComplexTypeInfo t[NTY]; } TYPES;      /* TYPES.t[k].base < k or -1: acyclic */
int ELEM_BLOCK; _Bool fErrorOccurred;
int N_NONDERIVED, N_ELEMBLOCK, N_TYPEBLOCK, N_OTHER;
static void SV_record(int code) { if (code == XMLValid_NonDerivedXsiType) N_NONDERIVED++; else if (code == XMLValid_ElemNoSubforBlock) N_ELEMBLOCK++; else if (code == XMLValid_TypeNoSubforBlock) N_TYPEBLOCK++; else N_OTHER++; }
#define SV_emitError(code, ...) SV_record(code)
#define has_err(code) ((code) == XMLValid_NonDerivedXsiType ? N_NONDERIVED > 0 : (code) == XMLValid_ElemNoSubforBlock ? N_ELEMBLOCK > 0 : N_TYPEBLOCK > 0)
static ComplexTypeInfo* CT_base(ComplexTypeInfo *t) { return t->base < 0 ? (ComplexTypeInfo*)0 : &TYPES.t[t->base < NTY ? t->base : 0]; }

/*@extract src/xercesc/validators/schema/SchemaValidator.cpp SchemaValidator::validateElement
as SV_xsitype_derivation
fragment if \(elemTypeInfo\)\s*\{\s*ComplexTypeInfo\* tempType = typeInfo; ||| @balanced
sig void SV_xsitype_derivation(ComplexTypeInfo *elemTypeInfo, ComplexTypeInfo *typeInfo)
sub* (\w+)->getBaseComplexTypeInfo\(\) => CT_base(\1)
sub* (\w+)->getDerivedBy\(\) => \1->derivedBy
sub* \(\(SchemaElementDecl\*\)\s*elemDef\)->getBlockSet\(\) => ELEM_BLOCK
sub* (\w+)->getBlockSet\(\) => \1->blockSet
sub* emitError\( => SV_emitError(
sub* fXsiType->getRawName\(\) => 0
sub* elemDef->getFullName\(\) => 0
sub* (\w+)->getTypeName\(\) => 0
@*/

/* spec (XML Schema Structures 3.3.4 Element Locally Valid (Element) 4.3 + 3.4.6 Type Derivation OK (Complex)): the type named by
 * xsi:type must be the declared type D or be derived from it through steps none of whose derivation methods is in the union of the
 * element declaration's {disallowed substitutions} and D's {prohibited substitutions} */
void h_xsitype(void)
{
  int d, x; unsigned char err0;
  VERIF_INPUT(TYPES); VERIF_INPUT(ELEM_BLOCK); VERIF_INPUT(d); VERIF_INPUT(x); VERIF_INPUT(err0);
  VERIF_ASSUME(d >= 0 && d < NTY && x >= 0 && x < NTY);
  VERIF_ASSUME((ELEM_BLOCK & ~31) == 0);
  for (int k = 0; k < NTY; k++) {
    VERIF_ASSUME(TYPES.t[k].base >= -1 && TYPES.t[k].base < k);
    VERIF_ASSUME(TYPES.t[k].derivedBy == 1 || TYPES.t[k].derivedBy == 2 || TYPES.t[k].derivedBy == 4 || TYPES.t[k].derivedBy == 8 || TYPES.t[k].derivedBy == 16);
    VERIF_ASSUME((TYPES.t[k].blockSet & ~31) == 0);
  }
  fErrorOccurred = (err0 & 1) != 0; N_NONDERIVED = 0; N_ELEMBLOCK = 0; N_TYPEBLOCK = 0; N_OTHER = 0; verif_thrown = 0;
  SV_xsitype_derivation(&TYPES.t[d], &TYPES.t[x]);
  VERIF_CANARY("after fragment");
  /* walk the chain from the xsi:type type towards the root */
  int methods = 0, derived = 0, cur = x;
  for (int s = 0; s <= NTY; s++) if (cur >= 0 && !derived) { if (cur == d) derived = 1; else { methods |= TYPES.t[cur].derivedBy; cur = TYPES.t[cur].base; } }
  if (!derived) {
    VERIF_CANARY("not derived reachable");
    __CPROVER_assert(has_err(XMLValid_NonDerivedXsiType) && fErrorOccurred, "C08: an xsi:type that is not derived from the declared type is an error");
  } else {
    __CPROVER_assert(!has_err(XMLValid_NonDerivedXsiType), "C08: an xsi:type derived from (or equal to) the declared type is not reported as non-derived");
    __CPROVER_assert(has_err(XMLValid_ElemNoSubforBlock) == ((ELEM_BLOCK & methods) != 0), "C08: the substitution is blocked by the element declaration iff a derivation step uses a method in its block set");
    __CPROVER_assert(has_err(XMLValid_TypeNoSubforBlock) == ((TYPES.t[d].blockSet & methods) != 0), "C08: the substitution is blocked by the DECLARED type iff a derivation step uses a method in that type's block set");
    __CPROVER_assert(fErrorOccurred == (((err0 & 1) != 0) || ((ELEM_BLOCK | TYPES.t[d].blockSet) & methods) != 0), "C08: the error flag is raised exactly when the substitution is blocked");
    __CPROVER_assert(N_OTHER == 0, "C08: no other error from the derivation check");
    if (x != d && (((ELEM_BLOCK | TYPES.t[d].blockSet) & methods) != 0)) { VERIF_CANARY("blocked reachable"); }
  }
}
