//@ unit cm_stateset_or
//@ props C01
//@ kind W
//@ def all NCH=2
//@ def quick CMSTATE_BITFIELD_CHUNK=128 CMSTATE_BITFIELD_INT32_SIZE=(128/32)
//@ def thorough CMSTATE_BITFIELD_CHUNK=256 CMSTATE_BITFIELD_INT32_SIZE=(256/32)
//@ cbmc quick --unwind 6 --unwinding-assertions
//@ cbmc thorough --unwind 10 --unwinding-assertions
//@ entry h_cm_stateset_or
//@ note W: operator|= and operator== on two sets of the same bit count (precondition of both operators: callers build all sets of one content model with the same leaf count), cached representation (1..128 bits) and dynamic representation with up to NCH = 2 chunks, each chunk of either set absent or present with any content; loops fully unwound, unwinding assertions on
//@ note chunk size rebound to 128 (quick) / 256 (thorough) bits by -D (see cm_stateset); non-SSE2 paths only (XERCES_HAVE_SSE2_INTRINSIC undefined)
//@ note `this` is a pointer parameter here (two objects of the class): members are reached through self-> by a sub rule; the reference-to-pointer locals `XMLInt32 *& other/mine = ...` become plain pointer copies (they are only read on the verified path); stubs as in cm_stateset
#define VERIF_DEFINE_GHOSTS
#include "verif_prelude.h"
//@ define src/xercesc/validators/common/CMStateSet.hpp CMSTATE_CACHED_INT32_SIZE
//@ define src/xercesc/validators/common/CMStateSet.hpp CMSTATE_BITFIELD_CHUNK
//@ define src/xercesc/validators/common/CMStateSet.hpp CMSTATE_BITFIELD_INT32_SIZE
//@ struct src/xercesc/validators/common/CMStateSet.hpp CMDynamicBuffer self=none plain
typedef struct CMDynamicBuffer CMDynamicBuffer;
//@ struct src/xercesc/validators/common/CMStateSet.hpp CMStateSet self=none structs=CMDynamicBuffer
typedef struct CMStateSet CMStateSet;

struct { XMLInt32 w[CMSTATE_BITFIELD_INT32_SIZE]; } POOL[NCH + 1]; XMLSize_t POOL_USED;
static void *VERIF_allocate(XMLSize_t n)
{
  VERIF_ASSUME(n == sizeof(POOL[0].w) && POOL_USED <= NCH);
  return POOL[POOL_USED++].w;
}

/*@extract src/xercesc/validators/common/CMStateSet.hpp CMStateSet::allocateChunk
inclass
static
selfparam CMStateSet
sub (?<![\w.>])(fBits|fBitCount|fDynamicBuffer)\b => self->\1
sub self->fDynamicBuffer->fMemoryManager->allocate => VERIF_allocate
@*/
/*@extract src/xercesc/validators/common/CMStateSet.hpp CMStateSet::operator|=
as CMStateSet_orAssign
inclass
selfparam CMStateSet
sub (?<![\w.>])(fBits|fBitCount|fDynamicBuffer)\b => self->\1
sub XMLInt32 \*& other = => XMLInt32 * other =
sub XMLInt32\*& mine = => XMLInt32* mine =
sub allocateChunk\(index\) => CMStateSet_allocateChunk(self, index)
@*/
/*@extract src/xercesc/validators/common/CMStateSet.hpp CMStateSet::operator==
as CMStateSet_equals
inclass
selfparam CMStateSet
sub (?<![\w.>])(fBits|fBitCount|fDynamicBuffer)\b => self->\1
sub XMLInt32 \*& other = ([^,]*),\s*\*& mine = => XMLInt32 * other = \1, * mine =
@*/

struct CMStateSet A, B; struct CMDynamicBuffer DA, DB; XMLInt32 *ARRA[NCH], *ARRB[NCH];
struct { struct { XMLInt32 w[CMSTATE_BITFIELD_INT32_SIZE]; } c[NCH]; } CHA, CHB;
static int SPEC_BIT(const struct CMStateSet *s, XMLSize_t g)
{
  if (s->fDynamicBuffer == 0) return (int)(((XMLUInt32)s->fBits[g / 32] >> (g % 32)) & 1u);
  XMLInt32 *c = s->fDynamicBuffer->fBitArray[g / CMSTATE_BITFIELD_CHUNK];
  if (c == 0) return 0;
  return (int)(((XMLUInt32)c[(g % CMSTATE_BITFIELD_CHUNK) / 32] >> (g % 32)) & 1u);
}

void h_cm_stateset_or(void)
{
  _Bool dyn, pa[NCH], pb[NCH]; XMLSize_t bits, g;
  VERIF_INPUT(A); VERIF_INPUT(B); VERIF_INPUT(CHA); VERIF_INPUT(CHB); VERIF_INPUT(dyn); VERIF_INPUT(bits); VERIF_INPUT(g);
  if (!dyn) {
    VERIF_ASSUME(bits >= 1 && bits <= CMSTATE_CACHED_INT32_SIZE * 32);
    A.fDynamicBuffer = 0; B.fDynamicBuffer = 0;
  } else {
    VERIF_ASSUME(bits > CMSTATE_CACHED_INT32_SIZE * 32 && bits <= NCH * CMSTATE_BITFIELD_CHUNK);
    DA.fArraySize = DB.fArraySize = bits / CMSTATE_BITFIELD_CHUNK + ((bits % CMSTATE_BITFIELD_CHUNK) ? 1 : 0);
    DA.fBitArray = ARRA; DB.fBitArray = ARRB;
    for (XMLSize_t k = 0; k < NCH; k++) {
      VERIF_INPUT(pa[k]); VERIF_INPUT(pb[k]);
      ARRA[k] = (pa[k] && k < DA.fArraySize) ? CHA.c[k].w : (XMLInt32 *)0;
      ARRB[k] = (pb[k] && k < DB.fArraySize) ? CHB.c[k].w : (XMLInt32 *)0;
    }
    A.fDynamicBuffer = &DA; B.fDynamicBuffer = &DB;
  }
  A.fBitCount = bits; B.fBitCount = bits;
  VERIF_ASSUME(g < bits);
  POOL_USED = 0; verif_thrown = 0;

  int a0 = SPEC_BIT(&A, g), b0 = SPEC_BIT(&B, g);
  bool eq = CMStateSet_equals(&A, &B);
  VERIF_CANARY("after operator==");
  if (eq) __CPROVER_assert(a0 == b0, "C01: equal sets agree on every bit");
  if (eq && dyn) VERIF_CANARY("operator==: equal dynamic sets reachable");

  CMStateSet_orAssign(&A, &B);
  VERIF_CANARY("after operator|=");
  __CPROVER_assert(SPEC_BIT(&A, g) == (a0 | b0), "C01: operator|= is the bitwise union");
  __CPROVER_assert(SPEC_BIT(&B, g) == b0, "C01: operator|= leaves its argument alone");
  if (dyn && POOL_USED >= 1) VERIF_CANARY("operator|=: chunk allocated on demand reachable");
}
