//@ unit c11_backref_w
//@ props C11
//@ kind W
//@ cbmc all --unwind 8 --unwinding-assertions
//@ entry h_backref
//@ note W: RegxParser::processBackReference (how many digits after the backslash belong to the back reference) for every sequence of up to 4 digits followed by any token, every number of capturing groups opened so far (0..120); the digit loop is unwound completely
//@ note spec (XPath/XQuery F&O 7.6.1 / XSD-regex extension of the library: "\N ... the longest sequence of digits that forms a number not greater than the number of capturing groups opened so far; the first digit always belongs to it"): the reference number is that prefix, scanning resumes right after it
//@ note trusted stubs: processNext() reads the next token of a harness token array (state, character); the token factory and the reference list record
#define VERIF_DEFINE_GHOSTS
#include "verif_prelude.h"
enum { REGX_T_CHAR = 0, REGX_T_OTHER = 7 };
typedef struct Token { int ref; } Token;
struct { unsigned char isdigit[6]; XMLCh ch[6]; } TOKS;     /* tokens after the first digit */
int TPOS; int fState; XMLInt32 fCharData; int fNoGroups; XMLSize_t fOffset; _Bool fHasBackReferences; void *fReferences; void *fMemoryManager;
Token THE_TOK; int REF_ADDED, REF_NO; XMLSize_t REF_POS;
static void RP_processNext(void) { int k = TPOS < 6 ? TPOS : 5; fState = TOKS.isdigit[k] ? REGX_T_CHAR : REGX_T_OTHER; fCharData = TOKS.ch[k]; TPOS++; fOffset++; }
static Token* TF_createBackReference(int n) { THE_TOK.ref = n; return &THE_TOK; }
static char A_VECTOR;
#define NEW_REFVECTOR() ((void*)&A_VECTOR)
#define REFS_add(n, pos) { REF_ADDED++; REF_NO = (n); REF_POS = (pos); }

/*@extract src/xercesc/util/regx/RegxParser.cpp RegxParser::processBackReference
as RP_processBackReference
sub* (?<![\w>])processNext\(\) => RP_processNext()
sub* fTokenFactory->createBackReference\( => TF_createBackReference(
sub* new \(fMemoryManager\) RefVectorOf<ReferencePosition>\(8, true, fMemoryManager\) => NEW_REFVECTOR()
sub* fReferences->addElement\(new \(fMemoryManager\) ReferencePosition\((\w+), (\w+)\)\) => REFS_add(\1, \2)
@*/

void h_backref(void)
{
  unsigned char d0; int groups;
  VERIF_INPUT(TOKS); VERIF_INPUT(d0); VERIF_INPUT(groups);
  VERIF_ASSUME(d0 <= 9 && groups >= 0 && groups <= 120);
  for (int k = 0; k < 6; k++) { VERIF_ASSUME(!TOKS.isdigit[k] || (TOKS.ch[k] >= 0x30 && TOKS.ch[k] <= 0x39)); }
  VERIF_ASSUME(!TOKS.isdigit[4]);                     /* at most 4 further digits */
  fNoGroups = groups + 1;                              /* group 0 is the whole match */
  fState = REGX_T_CHAR; fCharData = 0x30 + d0; fOffset = 2; TPOS = 0; fReferences = 0; fHasBackReferences = 0; REF_ADDED = 0; verif_thrown = 0;
  Token *t = RP_processBackReference();
  VERIF_CANARY("after processBackReference");
  /* reference: longest prefix of digits whose value does not exceed the number of groups opened so far */
  int ref = d0, used = 0, stop = 0;
  for (int k = 0; k < 5; k++) if (!stop) {
    if (!TOKS.isdigit[k]) stop = 1;
    else { int nx = ref * 10 + (TOKS.ch[k] - 0x30); if (nx > groups) stop = 1; else { ref = nx; used = k + 1; } }
  }
  __CPROVER_assert(!verif_thrown && t == &THE_TOK && THE_TOK.ref == ref, "C11: a back reference is the longest digit sequence not greater than the number of groups opened so far");
  __CPROVER_assert(TPOS == used + 1, "C11: scanning resumes with the token right after the reference (a digit that does not belong to it is a literal)");
  __CPROVER_assert(REF_ADDED == 1 && REF_NO == ref && REF_POS == 0 && fHasBackReferences, "C11: the reference is recorded with its number and position for the forward-reference check");
  if (used >= 1) { VERIF_CANARY("multi-digit reference reachable"); }
}
