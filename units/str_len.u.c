//@ unit str_len
//@ props C01
//@ kind P
//@ def quick STRN=6
//@ def thorough STRN=12
//@ enforce XMLString_stringLen
//@ entry h_str_len
//@ note P: iterations unbounded through the loop contract; the buffer holding the string is bounded by -DSTRN (cbmc needs finite objects); the NUL may sit anywhere in it
//@ note SL_LEN is a harness-owned ghost naming SOME index that holds a NUL; the postcondition pins the result to the FIRST NUL through the universal ghost G
#define VERIF_DEFINE_GHOSTS
#include "verif_prelude.h"
//@ include str_common.inc
XMLSize_t SL_LEN;

/*@extract src/xercesc/util/XMLString.hpp XMLString::stringLen
params const XMLCh* const src
contract
//@ include str_stringLen.contract.inc
loop 1
__CPROVER_assigns(pszTmp)
__CPROVER_loop_invariant(PTR_IN(pszTmp, src, SL_LEN))
__CPROVER_loop_invariant((G < PIDX(pszTmp, src)) ==> src[CL(G, SL_LEN)] != 0)
__CPROVER_decreases(SL_LEN - PIDX(pszTmp, src))
@*/

struct { XMLCh a[STRN]; } S;
void h_str_len(void)
{
  XMLSize_t n; _Bool isnull;
  VERIF_INPUT(S); VERIF_INPUT(n); VERIF_INPUT(isnull); VERIF_INPUT(G); VERIF_INPUT(SL_LEN);
  VERIF_ASSUME(n >= 1 && n <= STRN);
  const XMLCh *src = S.a + (STRN - n);      /* end-aligned: a scan past the last element leaves the object */
  VERIF_ASSUME(SL_LEN < n);
  verif_thrown = 0;
  XMLSize_t r = XMLString_stringLen(isnull ? (const XMLCh *)0 : src);
  VERIF_CANARY("after call");
}
