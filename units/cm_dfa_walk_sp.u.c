//@ unit cm_dfa_walk_sp
//@ props C08 C01
//@ kind W
//@ def all CM_SPECIAL=1
//@ def quick NCH=4 NST=3 NSYM=3 NALPHA=3
//@ def thorough NCH=5 NST=4 NSYM=3 NALPHA=3
//@ cbmc quick --unwind 5 --unwinding-assertions
//@ cbmc thorough --unwind 6 --unwinding-assertions
//@ entry h_cm_dfa_walk_sp
//@ note W: DFAContentModel::validateContentSpecial (schema, substitution groups; validateContent: unit cm_dfa_walk) as a table walk: complete for every child sequence of length <= NCH (names = ids over NALPHA, plus the #PCDATA pseudo child) and EVERY transition table with NST states and NSYM input symbols (smaller automata are embedded: unreachable states, symbols without transitions) satisfying RI_dfa (contracts/cm_dfa_body.inc), DTD and schema symbol matching (Leaf / Any / Any_NS / Any_Other incl. lax/skip variants)
//@ note counting states are EXCLUDED here by fCountingStates == 0 (handleRepetitions is extracted and called, its counting branch is unit cm_dfa_count)
//@ note determinism assumption (the DFA reading of the table; DTD: fElemMap holds distinct names, schema: Unique Particle Attribution): in every state at most one input symbol matching a given child has a valid transition
//@ note the empty sequence is judged by fEmptyOk (documented meaning: the model accepts empty content); fEmptyOk == fFinalStateFlags[0] is buildDFA's business
//@ note NOT in scope: buildDFA / followpos construction, ContentSpecNode trees, checkUniqueParticleAttribution, DTDValidator::checkContent dispatch, SchemaValidator, TraverseSchema
#define VERIF_DEFINE_GHOSTS
#include "verif_prelude.h"
#define NSG NSYM
//@ include cm_common.inc
//@ include cm_dfa_body.inc

void h_cm_dfa_walk_sp(void)
{
  cm_dfa_setup(0);
  /* determinism of the table for the given children */
  for (unsigned s = 0; s < NST; s++) for (XMLSize_t k = 0; k < NCH; k++) if (s < fTransTableSize && k < R_n) {
    int cnt = 0;
    for (unsigned e = 0; e < NSYM; e++) if (e < fElemMapSize && cm_dfa_match(&CHILD(R_n, k), e) && TRANS(s, e) != XMLContentModel_gInvalidTrans) cnt++;
    VERIF_ASSUME(cnt <= 1);
  }
  cm_dfa_call();
  VERIF_CANARY("after call");
  /* reference: run of the DFA from state 0; text in a schema mixed model is not an input symbol */
  unsigned st = 0; XMLSize_t bad = R_n;
  for (XMLSize_t k = 0; k < NCH; k++) if (k < R_n && bad == R_n && !(fIsMixed && CHILD(R_n, k).uri == XMLElementDecl_fgPCDataElemId)) {
    unsigned nx = XMLContentModel_gInvalidTrans;
    for (unsigned e = 0; e < NSYM; e++) if (e < fElemMapSize && cm_dfa_match(&CHILD(R_n, k), e) && TRANS(st, e) != XMLContentModel_gInvalidTrans) nx = TRANS(st, e);
    if (nx == XMLContentModel_gInvalidTrans) bad = k; else st = nx;
  }
  int accept = (R_n == 0) ? (fEmptyOk != 0) : (bad == R_n && FINAL(st));
  __CPROVER_assert(!verif_thrown, "C01: no exception");
  __CPROVER_assert((R_res != 0) == (accept != 0), "C07/C08: the child sequence is accepted iff the run of the DFA on it exists and ends in a final state (empty sequence: iff fEmptyOk)");
  if (!R_res) __CPROVER_assert(R_idx == bad, "C07/C08: on failure *indexFailingChild is the first child without a transition (childCount if the run ends in a non-final state)");
}
