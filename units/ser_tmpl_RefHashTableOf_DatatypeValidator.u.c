//@ unit ser_tmpl_RefHashTableOf_DatatypeValidator
//@ props C16
//@ kind W
//@ def quick NC=3 SC_LMAX=1
//@ def thorough NC=3 SC_LMAX=2
//@ def all TAPE_MAX=16
//@ cbmc quick --unwind 9 --unwinding-assertions
//@ cbmc thorough --unwind 11 --unwinding-assertions
//@ entry h_ser_tmpl_RefHashTableOf_DatatypeValidator
//@ note W: complete for registries of <= NC user-defined validators whose type URI and local name have <= SC_LMAX characters each (quick 1, thorough 2: keys like ",", "a,", ",b", "a,b"; NC stays 3 in the thorough tier: NC=4 with 2-character names did not finish in 20 minutes) (all loops unwound); the real bodies of XTemplateSerializer::storeObject(RefHashTableOf<DatatypeValidator>*, serEng) and loadObject(RefHashTableOf<DatatypeValidator>**, int, bool, serEng) (DatatypeValidatorFactory::fUserDefinedRegistry) run over the tape engine: store mode on a symbolic table (null / written before / new), then load mode into the owner's empty table or into none
//@ note container model (contracts/ser_container.inc, trusted stubs): a table is <= NC entries (key AS FILED, validator) + hash modulus; the enumerator yields the entries in index order -- they are symbolic, so this is an arbitrary order; get / put as in the real table; a validator is an id written by DatatypeValidator::storeDV and read by DatatypeValidator::loadDV (unit ser_pair_storeDV)
//@ note the load side REBUILDS the key "typeUri,typeLocalName" character by character and looks it up in the grammar pool's string pool: in this unit strings have CONTENT (table SC_TXT: <= 2 * SC_LMAX + 1 characters + NUL per string id, zero after the terminator; the rebuilt key sits in an uninitialised buffer and is compared as a NUL-terminated string); stringLen / moveChars / allocate are character-level stubs (allocate hands out a static block of exactly the size asked for, so that a write past the requested size is a bounds violation); the string pool maps a CONTENT to the id of the pool string with that content (ids 1..SC_NSTR-1, pairwise different contents), 0 if there is none; getValueForId(0) throws
//@ note ASSUMED class invariant of the stored table (DatatypeValidatorFactory::createDatatypeValidator, both overloads: `fUserDefinedRegistry->put((void *)typeName, dv); dv->setTypeName(typeName);` with typeName the pooled string "targetNS,name" of TraverseSchema; setTypeName splits at the first comma): every key is a string of the string pool whose content is getTypeUri() + ',' + getTypeLocalName(); no two entries under equal keys
//@ note tape engine (contracts/ser_tape.inc): operator<< / operator>> / writeSize / readSize are trusted stubs that record / check (type tag, value); needToStoreObject / needToLoadObject / registerObject: header record null / reference / new object (contracts/ser_container.inc)
#define VERIF_DEFINE_GHOSTS
#include "verif_prelude.h"
//@ include ser_tape.inc
//@ include ser_container.inc
typedef struct sc_cont RefHashTableOf_DatatypeValidator;
typedef struct DatatypeValidator DatatypeValidator;
/* content of string id k */
#define SC_W (2 * SC_LMAX + 2)
struct { struct { XMLCh c[SC_W]; } a[SC_NSTR]; } SC_TXT;
#define SC_ROW(s) SC_TXT.a[SC_STR_IDX(s) < SC_NSTR ? SC_STR_IDX(s) : 0]
static XMLSize_t SC_rowLen(XMLSize_t k) { XMLSize_t n = 0; for (XMLSize_t i = 0; i < SC_W; i++) if (n == i && SC_TXT.a[k].c[i] != 0) n = i + 1; return n; }
static XMLSize_t XMLString_stringLen(const XMLCh *s) { return SC_rowLen(SC_STR_IDX(s) < SC_NSTR ? SC_STR_IDX(s) : 0); }
/* allocate: one static block per possible size (2..6 XMLCh), so that a write past the requested size is a bounds violation */
struct { XMLCh c[2]; } KB2; struct { XMLCh c[3]; } KB3; struct { XMLCh c[4]; } KB4; struct { XMLCh c[5]; } KB5; struct { XMLCh c[6]; } KB6;
int SC_ALLOCS, SC_FREES; XMLCh *SC_KEY; XMLSize_t SC_KEYCAP;
static void* MM_allocate(MemoryManager *mm, XMLSize_t bytes) {
  SC_ALLOCS++; SC_KEYCAP = bytes / sizeof(XMLCh);
  switch (bytes) { case 2 * sizeof(XMLCh): SC_KEY = KB2.c; break; case 3 * sizeof(XMLCh): SC_KEY = KB3.c; break; case 4 * sizeof(XMLCh): SC_KEY = KB4.c; break;
                   case 5 * sizeof(XMLCh): SC_KEY = KB5.c; break; case 6 * sizeof(XMLCh): SC_KEY = KB6.c; break;
                   default: __CPROVER_assert(0, "harness: key buffer of 2..6 characters (URI and local name of <= 2 characters)"); SC_KEY = KB6.c; SC_KEYCAP = 6; }
  return SC_KEY; }
/* moveChars(dst, src, n): dst points into the key buffer, src is a string id */
static void XMLString_moveChars(XMLCh *dst, const XMLCh *src, XMLSize_t n) {
  XMLSize_t k = SC_STR_IDX(src) < SC_NSTR ? SC_STR_IDX(src) : 0;
  for (XMLSize_t i = 0; i < SC_W; i++) if (i < n) dst[i] = SC_TXT.a[k].c[i]; }
#define JANITOR_XMLCh(name, p, mm) const XMLCh *name = (p); (void)name; SC_FREES++
/* string pool by content */
#undef SP_getId
static unsigned int SPC_getId(XMLStringPool *sp, const XMLCh *s) {
  __CPROVER_assert(s == SC_KEY, "harness: the string looked up is the rebuilt key");
  unsigned int r = 0;
  for (XMLSize_t k = 1; k < SC_NSTR; k++) {
    bool eq = 1, done = 0;       /* compared as NUL-terminated strings */
    for (XMLSize_t i = 0; i < SC_W; i++) if (!done && i < SC_KEYCAP) { XMLCh ch = SC_KEY[i]; if (ch != SC_TXT.a[k].c[i]) eq = 0; if (ch == 0) done = 1; }
    if (!done) eq = 0;
    if (eq && r == 0) r = (unsigned int)k; }
  return r; }
static XMLCh* DV_uri(const void *e) { return (XMLCh*)SC_E(e)->name2; }
static XMLCh* DV_local(const void *e) { return (XMLCh*)SC_E(e)->name; }

/*@extract src/xercesc/internal/XTemplateSerializer.cpp XTemplateSerializer::storeObject
params RefHashTableOf<DatatypeValidator>
as TS_store
sub RefHashTableOfEnumerator<DatatypeValidator>\s+e\( => SC_ENUM(e, 
streamops serEng
method serEng.needToStoreObject => ENG_needToStoreObject
method serEng.writeSize => ENG_writeSize
method serEng.getMemoryManager => ENG_getMemoryManager
method objToStore->getHashModulus => SC_getHashModulus
method objToStore->getMemoryManager => SC_getMemoryManager
method objToStore->get => SC_get
method e.hasMoreElements => SC_hasMore
method e.nextElement => SC_nextElement
method e.nextElementKey => SC_nextKey
method e.Reset => SC_Reset
@*/
/*@extract src/xercesc/internal/XTemplateSerializer.cpp XTemplateSerializer::loadObject
params RefHashTableOf<DatatypeValidator>
as TS_load
sub new\s*\(serEng\.getMemoryManager\(\)\)\s*RefHashTableOf<DatatypeValidator>\s*\( => SC_newHash(
sub* ArrayJanitor<XMLCh>\s+(\w+)\( => JANITOR_XMLCh(\1, 
streamops serEng
method serEng.needToLoadObject => ENG_needToLoadObject
method serEng.registerObject => ENG_registerObject
method serEng.readSize => ENG_readSize
method serEng.getMemoryManager => ENG_getMemoryManager
method ENG_getMemoryManager(&(serEng))->allocate => MM_allocate
method serEng.getStringPool => ENG_getStringPool
method ENG_getStringPool(&(serEng))->getId => SPC_getId
method ENG_getStringPool(&(serEng))->getValueForId => SP_getValueForId
method (*objToLoad)->put => SC_put
method data->getTypeUri => DV_uri
method data->getTypeLocalName => DV_local
method data->getTypeName => DV_local
@*/

#define SC_HARNESS h_ser_tmpl_RefHashTableOf_DatatypeValidator
#define SC_NKEYS 1
#define SC_ORDERED 0
/* content of the key as filed == uri + ',' + local */
#define SC_U(i) SC_TXT.a[SC_N2I.a[i]]
#define SC_LOC(i) SC_TXT.a[SC_NI.a[i]]
#define SC_K(i) SC_TXT.a[SC_KI.a[i]]
#define SC_EXPCH(i, p, lu, ll) ((p) < (lu) ? SC_U(i).c[(p) < SC_W ? (p) : 0] : (p) == (lu) ? chComma : (p) < (lu) + 1 + (ll) ? SC_LOC(i).c[(p) - (lu) - 1 < SC_W ? (p) - (lu) - 1 : 0] : 0)
static bool SC_keyIsComposed(XMLSize_t i) {
  XMLSize_t lu = SC_rowLen(SC_N2I.a[i]), ll = SC_rowLen(SC_NI.a[i]); bool ok = lu <= SC_LMAX && ll <= SC_LMAX;
  for (XMLSize_t p = 0; p < SC_W; p++) if (SC_K(i).c[p] != SC_EXPCH(i, p, lu, ll)) ok = 0;
  return ok; }
#define SC_INVARIANT(i) (SC_KI.a[i] >= 1 && SC_keyIsComposed(i))
#define SC_SETUP_EXTRA VERIF_INPUT(SC_TXT); VERIF_INPUT(KB2); VERIF_INPUT(KB3); VERIF_INPUT(KB4); VERIF_INPUT(KB5); VERIF_INPUT(KB6); SC_ALLOCS = 0; SC_FREES = 0; \
  for (XMLSize_t a = 0; a < SC_NSTR; a++) { VERIF_ASSUME(SC_TXT.a[a].c[SC_W - 1] == 0); for (XMLSize_t p = 0; p + 1 < SC_W; p++) VERIF_ASSUME(SC_TXT.a[a].c[p] != 0 || SC_TXT.a[a].c[p + 1] == 0); } \
  for (XMLSize_t a = 1; a < SC_NSTR; a++) for (XMLSize_t b = 1; b < SC_NSTR; b++) if (b < a) { bool same = 1; \
    for (XMLSize_t p = 0; p < SC_W; p++) if (SC_TXT.a[a].c[p] != SC_TXT.a[b].c[p]) same = 0; VERIF_ASSUME(!same); }
#define SC_CHECK_EXTRA __CPROVER_assert(SC_ALLOCS == SC_FREES && (which != 2 || SC_ALLOCS == (int)SC_S.n), "C01: every key buffer is released (ArrayJanitor), one per validator");
#define SC_STORE(obj) TS_store(obj, &ENGINE)
#define SC_LOAD(pp, initSize, adopt, initSize2) TS_load(pp, initSize, adopt, &ENGINE)
#define SC_CREATION_OK(initSize, adopt, initSize2) (SC_L.modulus == SC_S.modulus && SC_L.adopt == adopt)
//@ include ser_container_harness.inc
