//@ unit c11_range_complement
//@ props C11
//@ kind B
//@ def quick NR=3 VMAX=63
//@ def thorough NR=3 VMAX=63
//@ cbmc quick --unwind 6 --unwinding-assertions
//@ cbmc thorough --unwind 6 --unwinding-assertions
//@ entry h_c11_range_complement
//@ note B: bounded stand-in (never a proof of C11): tok holds 1..NR (quick 3, thorough 4) well-formed ranges, already sorted and compacted (complementRanges sorts and compacts first; that step is unit c11_range_compact and is a no-op here), whose bounds lie in the narrowed universe 0..VMAX or are exactly UTF16_MAX (0x10FFFF, so that the "last element reaches the end of the code space" branch is exercised); ghost code point c in 0..VMAX+1 or UTF16_MAX; the result token is a fresh T_RANGE token as TokenFactory::createRange() / the constructor leave it
//@ note the calls rangeTok->addRange(a, b) are replaced by the specification of addRange (the set grows by exactly a..b; modelled as appending the pair); the real addRange is checked against that specification in unit c11_range_addrange (three inlined copies of it are beyond cbmc here: out of memory)
//@ note checked: c in complementRanges(tok) <=> not c in tok over 0..0x10FFFF, result marked compacted and really sorted / disjoint / non-adjacent, tok keeps its set
#define VERIF_DEFINE_GHOSTS
#include "verif_prelude.h"
//@ include RangeToken_c11.inc

struct RTok A, R;
/* TokenFactory::createRange(): a new T_RANGE token as the RangeToken constructor initialises it */
static RangeToken *verif_new_range(void)
{
  R.fTokenType = T_RANGE;
  R.rt.fSorted = 0; R.rt.fCompacted = 0; R.rt.fNonMapIndex = 0; R.rt.fElemCount = 0; R.rt.fMaxCount = INITIALSIZE; R.rt.fMap = 0; R.rt.fRanges = 0; R.rt.fCaseIToken = 0;
  return &R.rt;
}

/* addRange replaced by its specification: the denoted set grows by exactly start..end (here: the pair is appended to a
   list of INITIALSIZE elements).  The real addRange against this specification is unit c11_range_addrange. */
static XMLInt32 RLIST[INITIALSIZE];
static void spec_addRange(RangeToken *t, XMLInt32 start, XMLInt32 end)
{
  __CPROVER_assert(t->fElemCount + 2 <= INITIALSIZE, "harness capacity: result list");
  if (t->fRanges == 0) { t->fRanges = RLIST; t->fElemCount = 0; t->fSorted = 1; }
  t->fRanges[t->fElemCount++] = start <= end ? start : end;
  t->fRanges[t->fElemCount++] = start <= end ? end : start;
}

/*@extract src/xercesc/util/regx/RangeToken.cpp RangeToken::complementRanges
sub tok->getTokenType\(\) => TOKTYPE(tok)
sub tokFactory->createRange\(\) => verif_new_range()
method tok->sortRanges => RangeToken_sortRanges
method tok->compactRanges => RangeToken_compactRanges
method rangeTok->addRange => spec_addRange
throws RangeToken_compactRanges
@*/

#define INU(x) (((x) >= 0 && (x) <= VMAX) || (x) == UTF16_MAX)

void h_c11_range_complement(void)
{
  unsigned n; XMLInt32 c; _Bool neg;
  ARENA_INPUT() VERIF_INPUT(n); VERIF_INPUT(c); VERIF_INPUT(neg);
  VERIF_ASSUME(n >= 1 && n <= NR && ((c >= 0 && c <= VMAX + 1) || c == UTF16_MAX));
  mk_token(&A, neg ? T_NRANGE : T_RANGE, n, 2 * NR, 1, 1);
  for (unsigned k = 0; k < n; k++) VERIF_ASSUME(INU(A.rt.fRanges[2 * k]) && INU(A.rt.fRanges[2 * k + 1]) && A.rt.fRanges[2 * k] <= A.rt.fRanges[2 * k + 1]);
  COMPACT(A.rt.fRanges, n)
  int member = spec_member(A.rt.fRanges, 2 * n, c);
  verif_thrown = 0;
  RangeToken *r = RangeToken_complementRanges(&A.rt, 0, 0);
  VERIF_CANARY("after call");
  __CPROVER_assert(!verif_thrown && r != 0, "C11(bounded): complementRanges succeeds on a RANGE / NRANGE token");
  int rm = (r->fRanges == 0) ? 0 : spec_member(r->fRanges, r->fElemCount, c);
  __CPROVER_assert(rm == !member, "C11(bounded): c in complementRanges(tok) <=> not c in tok, over 0..0x10FFFF");
  __CPROVER_assert(spec_member(A.rt.fRanges, A.rt.fElemCount, c) == member, "C11(bounded): complementRanges leaves the set of tok alone");
  __CPROVER_assert(r->fElemCount % 2 == 0 && r->fElemCount <= r->fMaxCount, "C11(bounded): result element count even and within the allocation");
  if (r->fRanges != 0) {
    for (unsigned k = 0; 2 * k + 1 < r->fElemCount; k++) __CPROVER_assert(r->fRanges[2 * k] >= 0 && r->fRanges[2 * k] <= r->fRanges[2 * k + 1] && r->fRanges[2 * k + 1] <= UTF16_MAX, "C11(bounded): every result range is well-formed inside 0..0x10FFFF");
    for (unsigned k = 0; 2 * k + 3 < r->fElemCount; k++) __CPROVER_assert(r->fRanges[2 * k + 1] + 1 < r->fRanges[2 * k + 2], "C11(bounded): the result is marked compacted and is sorted, disjoint, non-adjacent");
  }
}
