//@ unit domser_cdata_nosplit
//@ props C12 C01
//@ kind W
//@ def quick NV=6 NRECON=8
//@ def thorough NV=8 NRECON=10
//@ cbmc all --unwind 11 --unwindset XMLString_patternMatch.0:26 --unwinding-assertions
//@ entry h_cdata_nosplit
//@ note fragment of DOMLSSerializerImpl::processNode (case CDATA_SECTION_NODE, split-cdata-sections = false: the `else` branch from ensureValidString to the write), verified as a function of its own; W: complete for every node value of length <= NV over the alphabet { ']', '>', 'a', '<' }; XMLString::patternMatch and stringLen are the real text, fully unwound
//@ note stubs (contracts/domser_stubs.inc): XMLFormatter sink = streaming reader of the output; reportError records (severity, code, node) and throws on a fatal error like the real one (harness input FATAL_THROWS also lets it return); ensureValidString (unit domser_validstring) only records its call
//@ note spec: a CDATA section cannot contain ']]>' (XML 1.0 [20]); without splitting the serializer must report Writer_NestedCDATA as a FATAL error iff the value contains ']]>' at ANY position, and then emit nothing; otherwise exactly one section holding the value
#define VERIF_DEFINE_GHOSTS
#include "verif_prelude.h"
//@ enum src/xercesc/dom/DOMError.hpp ErrorSeverity DOMError_ scope=DOMError
//@ enum src/xercesc/util/XMLDOMMsg.hpp Codes XMLDOMMsg_ scope=XMLDOMMsg
//@ enum src/xercesc/framework/XMLFormatter.hpp EscapeFlags XMLFormatter_ scope=XMLFormatter
//@ enum src/xercesc/framework/XMLFormatter.hpp UnRepFlags XMLFormatter_ scope=XMLFormatter
typedef struct DOMNode { int tag; } DOMNode;
//@ table src/xercesc/dom/impl/DOMLSSerializerImpl.cpp gStartCDATA
//@ table src/xercesc/dom/impl/DOMLSSerializerImpl.cpp gEndCDATA
//@ include domser_stubs.inc

/*@extract src/xercesc/util/XMLString.hpp XMLString::stringLen
params const XMLCh* const src
static
@*/
/*@extract src/xercesc/util/XMLString.cpp XMLString::patternMatch
call XMLString::stringLen => XMLString_stringLen
@*/

int ENSURE_CALLS, ENSURE_BAD_ARGS, ENSURE_AFTER_OUTPUT; const XMLCh *EXPECT_VALUE;
static void SER_ensureValidString(const void *node, const XMLCh *s)
{ ENSURE_CALLS++; if (node != ERR_EXPECT_NODE || s != EXPECT_VALUE) ENSURE_BAD_ARGS = 1; if (OUTLEN) ENSURE_AFTER_OUTPUT = 1; }

/*@extract src/xercesc/dom/impl/DOMLSSerializerImpl.cpp DOMLSSerializerImpl::processNode
params const DOMNode* const nodeToWrite, int level
as SER_cdata_nosplit
fragment ensureValidString\(nodeToWrite, nodeValue\);\s*if \(XMLString::patternMatch\(nodeValue, gEndCDATA\) ||| << gStartCDATA << nodeValue << gEndCDATA;\s*\)
sig void SER_cdata_nosplit(const DOMNode* const nodeToWrite, const XMLCh* nodeValue)
sub ensureValidString\( => SER_ensureValidString(
sub reportError\( => SER_reportError(
sub \*fFormatter << XMLFormatter::NoEscapes << gStartCDATA << nodeValue << gEndCDATA; => SINK_mode(XMLFormatter::NoEscapes); SINK_str(gStartCDATA); SINK_str(nodeValue); SINK_str(gEndCDATA);
throws SER_reportError
@*/

struct { XMLCh a[NV + 1]; } VAL;
DOMNode NODE_TAG;

void h_cdata_nosplit(void)
{
  XMLSize_t n;
  VERIF_INPUT(VAL); VERIF_INPUT(n); VERIF_INPUT(FATAL_THROWS);
  VERIF_ASSUME(n <= NV);
  XMLCh *s = VAL.a + (NV - n);
  VERIF_ASSUME(s[n] == 0);
  for (XMLSize_t k = 0; k < NV; k++) VERIF_ASSUME(k >= n || s[k] == ']' || s[k] == '>' || s[k] == 'a' || s[k] == '<');
  SER_reset(); ERR_EXPECT_CODE = XMLDOMMsg_Writer_NestedCDATA; ERR_EXPECT_NODE = &NODE_TAG; EXPECT_VALUE = s;
  ENSURE_CALLS = 0; ENSURE_BAD_ARGS = 0; ENSURE_AFTER_OUTPUT = 0;

  SER_cdata_nosplit(&NODE_TAG, s);
  VERIF_CANARY("after call");

  int nested = 0, nested0 = (n >= 3 && s[0] == ']' && s[1] == ']' && s[2] == '>');
  for (XMLSize_t k = 0; k + 3 <= NV; k++) if (k + 3 <= n && s[k] == ']' && s[k + 1] == ']' && s[k + 2] == '>') nested = 1;
  if (nested0) VERIF_CANARY("a value that STARTS with the CDATA end marker is reachable");
  if (nested && !nested0) VERIF_CANARY("a value containing the CDATA end marker further on is reachable");

  SINK_check_tables();
  __CPROVER_assert((ERR_FATALS >= 1) == (nested != 0), "C12: without split-cdata-sections a FATAL error is reported iff the value contains ']]>' anywhere (position 0 included)");
  __CPROVER_assert(ERR_COUNT == ERR_FATALS && !ERR_OTHER_CODE && !ERR_WRONG_NODE, "C12: the only report is Writer_NestedCDATA, fatal, on the node being written");
  __CPROVER_assert(ENSURE_CALLS == 1 && !ENSURE_BAD_ARGS && !ENSURE_AFTER_OUTPUT, "C12: the value is checked for illegal characters before anything is written");
  __CPROVER_assert(verif_thrown == (nested && FATAL_THROWS), "C12: serialisation is abandoned exactly when the fatal error is raised");
  if (verif_thrown) __CPROVER_assert(OUTLEN == 0, "C12: content that cannot be expressed as a CDATA section is reported instead of being emitted");
  if (!nested) {
    __CPROVER_assert(!SINK_ESCAPED && SINK_UNREP_FAIL_SET, "C12: the section is written with NoEscapes and UnRep_Fail (an unrepresentable character cannot be escaped inside CDATA)");
    __CPROVER_assert(RD_WF && RD_STATE == RD_TOP && RD_SECTIONS == 1 && RD_REFS == 0 && !RECON_OVER, "C12: the output is exactly one complete CDATA section");
    __CPROVER_assert(RL == n, "C12: the section content has the length of the node value");
    for (XMLSize_t k = 0; k < NV; k++) if (k < n && k < RL) __CPROVER_assert(RECON.a[k] == s[k], "C12: the section content is the node value");
  }
}
