//@ unit ucs4_to_w
//@ props C05 C01
//@ kind W
//@ def quick NS=3 NV=2
//@ def thorough NS=4 NV=3
//@ cbmc all --unwind 6 --unwinding-assertions
//@ entry h_ucs4_to_w
//@ note W: complete for every string of <= NS UTF-16 code units, every maxBytes <= 4*NV+3 and both byte orders (loop fully unwound, unwinding assertions on); the loop body reads srcPtr[0..1] and the two cursors only
//@ note target model little-endian: fSwapped == false encodes UCS-4LE, fSwapped == true UCS-4BE; the spec side compares the output BYTES (D99/D100 UTF-32BE/LE encoding schemes)
//@ note getMemoryManager() is dropped by R8
#define VERIF_DEFINE_GHOSTS
#include "verif_prelude.h"
#include "unicode.h"

typedef int UnRepOpts;
//@ struct src/xercesc/util/XMLUCS4Transcoder.hpp XMLUCS4Transcoder only=auto

/*@extract src/xercesc/util/BitOps.hpp BitOps::swapBytes
inclass
static
params const XMLUInt32
as BitOps_swapBytes
@*/

/*@extract src/xercesc/util/XMLUCS4Transcoder.cpp XMLUCS4Transcoder::transcodeTo
@*/

struct { XMLCh a[NS]; } SRC;
struct { XMLByte a[4 * NV + 3]; } OUT;

void h_ucs4_to_w(void)
{
  XMLSize_t n, m, eaten = 0;
  int opt;
  VERIF_INPUT(n); VERIF_INPUT(m); VERIF_INPUT(opt); VERIF_INPUT(SRC); VERIF_INPUT(SELF);   /* all unit strings, both byte orders */
  VERIF_ASSUME(n <= NS && m <= 4 * NV + 3);
  XMLCh *src = SRC.a + (NS - n);                 /* end-aligned */
  XMLByte *out = OUT.a + (4 * NV + 3 - m);       /* end-aligned: writing past maxBytes leaves the object */
  verif_thrown = 0;

  XMLSize_t r = XMLUCS4Transcoder_transcodeTo(src, n, out, m, &eaten, opt);
  VERIF_CANARY("after call");

  /* reference encoding: D91 pairing, D90 (one 32-bit value per scalar), D99/D100 byte order */
  XMLSize_t i = 0, o = 0, slots = m / 4;
  int stop = 0;        /* 1: lead at the block end, deferred; 2: lead followed by a non-trail; 3: trail without a lead */
  while (i < n && o < slots && !stop) {
    uint32_t v = src[i];
    XMLSize_t used = 1;
    if (spec_is_trail(v)) { stop = 3; break; }
    if (spec_is_lead(v)) {
      if (i + 1 >= n) { stop = 1; break; }
      if (!spec_is_trail(src[i + 1])) { stop = 2; break; }
      v = spec_pair_to_cp(v, src[i + 1]);
      used = 2;
    }
    if (!verif_thrown) {
      __CPROVER_assert(r >= 4 * (o + 1), "C05: every scalar value that is available and fits is encoded");
      if (r >= 4 * (o + 1)) {
        const XMLByte *b = out + 4 * o;
        uint32_t le = ((uint32_t)b[3] << 24) | ((uint32_t)b[2] << 16) | ((uint32_t)b[1] << 8) | b[0];
        uint32_t be = ((uint32_t)b[0] << 24) | ((uint32_t)b[1] << 16) | ((uint32_t)b[2] << 8) | b[3];
        if (used == 1)
          __CPROVER_assert((fSwapped ? be : le) == v, "C05: BMP scalar encoded as its 32-bit value in the byte order of the encoding scheme");
        else
          __CPROVER_assert((fSwapped ? be : le) == v, "C05: surrogate pair encoded as ONE 32-bit scalar value in the byte order of the encoding scheme");
      }
    }
    o += 1;
    i += used;
  }
  if (stop == 2) {
    __CPROVER_assert(verif_thrown || (i > 0 && r == 4 * o && eaten == i), "C05: a lead surrogate followed by a non-trail unit is rejected (or left unconsumed behind good data)");
    if (verif_thrown)
      __CPROVER_assert(verif_throw_type == VT_TranscodingException && verif_throw_code == XMLExcepts_Trans_BadTrailingSurrogate, "C05: reported as Trans_BadTrailingSurrogate");
  } else if (stop == 3) {
    __CPROVER_assert(verif_thrown || (i > 0 && r == 4 * o && eaten == i), "C05: an unpaired trail surrogate is rejected (or left unconsumed behind good data), not emitted as a UCS-4 value (D90: UTF-32 excludes D800..DFFF)");
  } else {
    __CPROVER_assert(!verif_thrown, "C05: well-formed UTF-16 never throws");
    __CPROVER_assert(r == 4 * o, "C05: exactly one 32-bit value per scalar is produced");
    __CPROVER_assert(eaten == i, "C05: charsEaten counts whole scalars only; a lead surrogate at the block end is deferred");
  }
  __CPROVER_assert(verif_thrown || (r <= m && eaten <= n), "C01: T_iface bounds");
}
