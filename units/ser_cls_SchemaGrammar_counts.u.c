//@ unit ser_cls_SchemaGrammar_counts
//@ props C16
//@ kind L
//@ def all SER_STRICT_COUNTS=1
//@ entry h_ser_cls_SchemaGrammar
//@ note L: loop-free; the real body of SchemaGrammar::serialize runs twice on one object: store mode onto the tape, then -- after the whole object has been given arbitrary values again -- load mode from the tape; every member value is symbolic (full range of its real type)
//@ note tape engine (contracts/ser_tape.inc): operator<< / operator>> / writeSize / readSize / writeString / readString and the sub-object serialisers (XTemplateSerializer::storeObject/loadObject, DatatypeValidator::storeDV/loadDV, Base::serialize ...) are trusted stubs that record / check (type tag, value); the tag of a streamed operand comes from its REAL type (member types from the real class declaration, casts from the code) via _Generic; strings, containers and pointers to serialisable objects are opaque ids (the pointer value stands for the object; loading yields the id that was stored); the byte-level engine is the subject of units ser_primitives, ser_fillflush, ser_rawbytes
//@ note compares also fScopeCount and fAnonTypeCount, the counters from which TraverseSchema numbers the scopes / anonymous types it ADDS to an existing grammar (SchemaGrammar::getScopeCount / setScopeCount, "in case we need to add more to this grammar (multi-import case)"): they are part of the state of a grammar that can still be extended, so a restored grammar must carry them
//@ note compared after load (store then load restores the value): fTargetNamespace, fElemDeclPool, fGroupElemDeclPool, fNotationDeclPool, fAttributeDeclRegistry, fComplexTypeRegistry, fGroupInfoRegistry, fAttGroupInfoRegistry, fValidSubstitutionGroups, fAnnotations, fValidated, fScopeCount, fAnonTypeCount; NOT compared: fElemNonDeclPool (elements faulted in during validation: deliberately not stored), fGramDesc and fDatatypeRegistry (objects made by the constructor, serialised IN PLACE in both modes: position on the tape checked, fGramDesc pointer must stay), fMemoryManager (not persistent state: the loading object keeps its own)
//@ note the datatype-validator factory (embedded member) and the grammar description (constructor-made object) are serialised in place by their own serialize(): one tape record each, whose position and identity are checked in load mode
#define VERIF_DEFINE_GHOSTS
#include "verif_prelude.h"
//@ include ser_tape.inc
//@ include ser_cls_SchemaGrammar_body.inc
