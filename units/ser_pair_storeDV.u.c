//@ unit ser_pair_storeDV
//@ props C16
//@ kind L
//@ entry h_ser_pair_storeDV
//@ note L: loop-free; the real bodies of DatatypeValidator::storeDV and DatatypeValidator::loadDV (the static pair every class-level serialize() uses for its DatatypeValidator* members) on the tape engine: storeDV(dv) in store mode, then loadDV() in load mode; dv is null, a built-in validator (found in the built-in registry under its local name) or a user-defined validator of ANY ValidatorType String .. AnySimpleType (symbolic)
//@ note tape engine (contracts/ser_tape.inc): operator<< / operator>> / writeSize / readSize / writeString / readString and the sub-object serialisers (XTemplateSerializer::storeObject/loadObject, DatatypeValidator::storeDV/loadDV, Base::serialize ...) are trusted stubs that record / check (type tag, value); the tag of a streamed operand comes from its REAL type (member types from the real class declaration, casts from the code) via _Generic; strings, containers and pointers to serialisable objects are opaque ids (the pointer value stands for the object; loading yields the id that was stored); the byte-level engine is the subject of units ser_primitives, ser_fillflush, ser_rawbytes
//@ note what `serEng << dv` writes is the DYNAMIC class of dv (XSerializeEngine::write(XSerializable*) stores the class name of dv->getProtoType()), and `serEng >> xdv` with xdv of static type XDatatypeValidator* accepts only that class (XSer_ProtoType_Name_Dif otherwise): the unit's ENG_PUT gives a validator whose getType() is DatatypeValidator::X the class tag of XDatatypeValidator -- the naming convention of the ValidatorType enumerators is the specification (each concrete class passes its own enumerator to the DatatypeValidator constructor) -- and ENG_GET takes the tag from the static type of the local variable in the matching case of loadDV
//@ note stubs: DatatypeValidatorFactory::getBuiltInRegistry()->get(name) finds the harness's built-in validator under its name id; ArrayJanitor; a validator of type UnKnown does not exist (no class passes that enumerator)
#define VERIF_DEFINE_GHOSTS
#include "verif_prelude.h"
//@ include ser_tape.inc
#undef DatatypeValidator_storeDV   /* the tape stubs of the pair: here the real bodies are extracted */
#undef DatatypeValidator_loadDV
typedef void DatatypeValidator;         /* so that every XDatatypeValidator* converts to the return type, as in C++ */
typedef int ValidatorType;
//@ enum src/xercesc/validators/datatype/DatatypeValidator.hpp ValidatorType - scope=DatatypeValidator
//@ table src/xercesc/validators/datatype/DatatypeValidator.cpp DV_BUILTIN asenum
//@ table src/xercesc/validators/datatype/DatatypeValidator.cpp DV_NORMAL asenum
//@ table src/xercesc/validators/datatype/DatatypeValidator.cpp DV_ZERO asenum
#define DVTYPES(X) X(String) X(AnyURI) X(QName) X(Name) X(NCName) X(Boolean) X(Float) X(Double) X(Decimal) X(HexBinary) X(Base64Binary) X(Duration) \
  X(DateTime) X(Date) X(Time) X(MonthDay) X(YearMonth) X(Year) X(Month) X(Day) X(ID) X(IDREF) X(ENTITY) X(NOTATION) X(List) X(Union) X(AnySimpleType)
#define DV_TYPEDEF_(T) typedef struct T##DatatypeValidator T##DatatypeValidator;
DVTYPES(DV_TYPEDEF_)
struct dvobj { int type; const XMLCh *localName; } THE_DV, BUILTIN_DV;
const XMLCh *BUILTIN_NAME;
static int DV_getType(const void *dv) { return ((const struct dvobj*)dv)->type; }
static const XMLCh* DV_getTypeLocalName(const void *dv) { return ((const struct dvobj*)dv)->localName; }
#define DatatypeValidatorFactory_getBuiltInRegistry() ((void*)0)
static void* REG_get(void *reg, const XMLCh *name) { return (name == BUILTIN_NAME && name != 0) ? (void*)&BUILTIN_DV : (void*)0; }
static bool REG_containsKey(void *reg, const XMLCh *name) { return name == BUILTIN_NAME && name != 0; }   /* not used by the code as it stands: lets a name-only test be judged */
#define JANITOR_XMLCh(name, p, mm) const XMLCh *name = (p); (void)name
/* class tag of the dynamic type */
#define DV_CASE_(T) case T: return TG_OBJ_##T##DatatypeValidator;
static int DV_class_tag(const void *dv) { switch (DV_getType(dv)) { DVTYPES(DV_CASE_) default: return TG_OBJ_ANY; } }
#undef ENG_PUT
#define ENG_PUT(eng, x) { TAPE_R = _Generic((x), int: TAPE_mk_long, default: TAPE_mk_ptr)(x); \
  TAPE_R.tag = _Generic((x), int: TG_INT, default: DV_class_tag((const void*)(uintptr_t)(x))); TAPE_APPEND(#x) }

/*@extract src/xercesc/validators/datatype/DatatypeValidator.cpp DatatypeValidator::storeDV
streamops serEng
method serEng.writeString => ENG_writeString
method dv->getTypeLocalName => DV_getTypeLocalName
method dv->getType => DV_getType
method DatatypeValidatorFactory_getBuiltInRegistry()->get => REG_get
method DatatypeValidatorFactory_getBuiltInRegistry()->containsKey => REG_containsKey
@*/
/*@extract src/xercesc/validators/datatype/DatatypeValidator.cpp DatatypeValidator::loadDV
sub* ArrayJanitor<XMLCh>\s+(\w+)\( => JANITOR_XMLCh(\1, 
sub* (case\s+\w+\s*:) => \1 ;
streamops serEng
method serEng.readString => ENG_readString
method serEng.getMemoryManager => ENG_getMemoryManager
method DatatypeValidatorFactory_getBuiltInRegistry()->get => REG_get
@*/

void h_ser_pair_storeDV(void)
{
  int which;
  VERIF_INPUT(which); VERIF_INPUT(THE_DV); VERIF_INPUT(BUILTIN_DV); VERIF_INPUT(BUILTIN_NAME); TAPE_INIT();
  VERIF_ASSUME(which >= 0 && which <= 2);
  VERIF_ASSUME(THE_DV.type >= String && THE_DV.type <= AnySimpleType && BUILTIN_DV.type >= String && BUILTIN_DV.type <= AnySimpleType);
  VERIF_ASSUME(BUILTIN_NAME != 0 && BUILTIN_DV.localName == BUILTIN_NAME);   /* the built-in registry is keyed by the local name of its validators */
  void *dv = which == 0 ? (void*)0 : which == 1 ? (void*)&BUILTIN_DV : (void*)&THE_DV;
  verif_thrown = 0;
  TAPE_BEGIN_STORE();
  DatatypeValidator_storeDV(&ENGINE, dv);
  TAPE_BEGIN_LOAD();
  void *back = DatatypeValidator_loadDV(&ENGINE);
  VERIF_CANARY("after store and load");
  __CPROVER_assert(!verif_thrown, "C16: storeDV / loadDV do not throw by themselves");
  TAPE_END_CHECK();
  __CPROVER_assert(back == dv, "C16: loadDV yields the validator storeDV was given (null, the built-in of that name, or the stored object -- for every validator type)");
  if (which == 0) VERIF_CANARY("null"); if (which == 1) VERIF_CANARY("built-in"); if (which == 2 && THE_DV.type == AnySimpleType) VERIF_CANARY("user-defined");
}
