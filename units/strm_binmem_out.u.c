//@ unit strm_binmem_out
//@ props C01
//@ kind L
//@ def quick BN=6
//@ def thorough BN=16
//@ entry h_binmem_out
//@ note L: loop-free (memset / memcpy are cbmc's built-in models, heap objects are byte arrays); sizes bounded by -DBN: fCapacity <= BN, maxToWrite <= BN; the source is END-aligned; every initial (fIndex <= fCapacity, buffer of fCapacity + 4 bytes as allocated by the constructor and ensureCapacity) state
//@ note stubs (trusted): fMemoryManager->allocate(n) = malloc(n) that does not fail (OutOfMemoryException not modelled), deallocate = free
//@ note growth arithmetic: (fIndex + extraNeeded) * 2 is computed in XMLSize_t; with maxToWrite bytes readable at toGo the sum cannot wrap (objects are far smaller than 2^63), recorded as a machine-arithmetic assumption through maxToWrite <= BN
//@ note RI_out: fIndex <= fCapacity and fDataBuf writable for fCapacity + 4 bytes (getRawBuffer / reset write 4 terminator bytes at fIndex); content through ghost index G: bytes written before stay, the new bytes follow
#define VERIF_DEFINE_GHOSTS
#include "verif_prelude.h"
#include <stdlib.h>
XMLSize_t G;
//@ struct src/xercesc/internal/BinMemOutputStream.hpp BinMemOutputStream only=auto
static void *VERIF_allocate(XMLSize_t n) { void *p = malloc(n); VERIF_ASSUME(p != 0); return p; }
static void VERIF_deallocate(void *p) { free(p); }

/*@extract src/xercesc/internal/BinMemOutputStream.cpp BinMemOutputStream::ensureCapacity
sub fMemoryManager->allocate => VERIF_allocate
sub fMemoryManager->deallocate => VERIF_deallocate
@*/
/*@extract src/xercesc/internal/BinMemOutputStream.cpp BinMemOutputStream::writeBytes
call ensureCapacity => BinMemOutputStream_ensureCapacity
@*/
/*@extract src/xercesc/internal/BinMemOutputStream.cpp BinMemOutputStream::getRawBuffer
@*/
/*@extract src/xercesc/internal/BinMemOutputStream.cpp BinMemOutputStream::reset
@*/
/*@extract src/xercesc/internal/BinMemOutputStream.cpp BinMemOutputStream::curPos
@*/

struct { XMLByte a[BN]; } SRC;
void h_binmem_out(void)
{
  XMLSize_t cap, idx, n; _Bool do_reset;
  VERIF_INPUT(SRC); VERIF_INPUT(G); VERIF_INPUT(cap); VERIF_INPUT(idx); VERIF_INPUT(n); VERIF_INPUT(do_reset);
  VERIF_ASSUME(cap <= BN && idx <= cap && n <= BN && G < 2 * BN);
  fCapacity = cap; fIndex = idx;
  fDataBuf = (XMLByte *)malloc(cap + 4);          /* heap bytes are nondet under cbmc */
  VERIF_ASSUME(fDataBuf != 0);
  const XMLByte *src = SRC.a + (BN - n);
  XMLByte oldg = (G < idx) ? fDataBuf[G] : 0;
  verif_thrown = 0;

  BinMemOutputStream_writeBytes(src, n);
  VERIF_CANARY("after writeBytes");

  __CPROVER_assert(fIndex == idx + n, "C01: writeBytes advances the position by the number of bytes written");
  __CPROVER_assert(fIndex <= fCapacity, "C01: RI_out position <= capacity after writeBytes");
  __CPROVER_assert(__CPROVER_w_ok(fDataBuf, fCapacity + 4), "C01: RI_out buffer holds capacity + 4 bytes after writeBytes");
  __CPROVER_assert(fCapacity >= cap, "C01: the capacity never shrinks");
  if (G < idx) __CPROVER_assert(fDataBuf[G] == oldg, "C01: bytes written earlier are preserved (also across a reallocation)");
  if (G < n) __CPROVER_assert(fDataBuf[idx + G] == src[G], "C01: the new bytes follow the old content in order");
  if (fCapacity != cap) VERIF_CANARY("writeBytes: growing case reachable");
  if (fCapacity == cap && n > 1) VERIF_CANARY("writeBytes: fitting case reachable");

  /* the terminator writers stay inside the buffer under RI_out */
  if (do_reset) { BinMemOutputStream_reset(); __CPROVER_assert(fIndex == 0 && fDataBuf[0] == 0, "C01: reset empties the stream"); }
  const XMLByte *raw = BinMemOutputStream_getRawBuffer();
  VERIF_CANARY("after getRawBuffer");
  __CPROVER_assert(raw == fDataBuf && raw[fIndex] == 0 && raw[fIndex + 3] == 0, "C01: getRawBuffer terminates the data with 4 zero bytes inside the buffer");
  __CPROVER_assert(BinMemOutputStream_curPos() == fIndex, "C01: curPos is the position");
}
