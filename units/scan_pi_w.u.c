//@ unit scan_pi_w
//@ props C02 C03 C01
//@ kind W
//@ def quick NIN=5
//@ def thorough NIN=7
//@ cbmc all --unwind 10 --unwinding-assertions --arrays-uf-always
//@ timeout quick=600 thorough=1800
//@ entry h_scanPI
//@ note W: complete for every character sequence of length <= NIN following '<?'
//@ note reader abstraction (incl. a BMP-only getName stub over nondet NameStartChar/NameChar tables), emitError, buffers and document-handler sinks are trusted stubs (contracts/scanner_stubs.inc); XMLBufBid RAII, fElemStack.setCommentOrPISeen and binToText message formatting dropped by sub rules; XMLString::indexOf replaced by a local loop
#define VERIF_DEFINE_GHOSTS
#include "verif_prelude.h"
//@ include scanner_stubs.inc
_Bool fDoNamespaces;
static int ST_indexOf(const XMLCh *s, XMLCh c) { for (int k = 0; s[k]; k++) if (s[k] == c) return k; return -1; }

/*@extract src/xercesc/internal/XMLScanner.cpp XMLScanner::scanPI
sub XMLBufBid bbName\(&fBufMgr\); =>
sub XMLBufBid bbTarget\(&fBufMgr\); => XB_reset();
sub fReaderMgr\.getName\(bbName\.getBuffer\(\)\) => RM_getName()
sub bbName\.getRawBuffer\(\) => NAMEBUF.a
sub bbName\.getLen\(\) => NAMELEN
sub bbTarget\.getRawBuffer\(\) => XB_getRawBuffer()
sub bbTarget\.append\( => XB_append(
sub fReaderMgr\.lookingAtSpace\( => RM_lookingAtSpace(
sub fReaderMgr\.skipPastSpaces\( => RM_skipPastSpaces(
sub fReaderMgr\.skippedSpace\( => RM_skippedSpace(
sub fReaderMgr\.skippedChar\( => RM_skippedChar(
sub fReaderMgr\.getNextChar\( => RM_getNextChar(
sub fReaderMgr\.skipPastChar\( => RM_skipPastChar(
sub fReaderMgr\.getCurrentReader\(\)->isXMLChar\( => RD_isXMLChar(
sub XMLString::indexOf\( => ST_indexOf(
sub XMLCh tmpBuf\[9\];\s*XMLString::binToText\s*\([^;]*\); =>
sub emitError\(XMLErrs::InvalidCharacter, tmpBuf\) => SC_emitError(XMLErrs::InvalidCharacter)
sub (?<!SC_)emitError\( => SC_emitError(
sub if \(fDocHandler\)\s*\{\s*fDocHandler->docPI\s*\(\s*namePtr\s*, targetPtr\s*\);\s*\} => DH_pi(namePtr, targetPtr);
sub if \(! fElemStack\.isEmpty\(\)\)\s*fElemStack\.setCommentOrPISeen\(\); =>
@*/

/* spec: XML 1.0 [16] PI ::= '<?' PITarget (S (Char* - (Char* '?>' Char*)))? '?>' ; [17] PITarget ::= Name - (('X'|'x')('M'|'m')('L'|'l'));
   Namespaces in XML: no colon in a PI target */
void h_scanPI(void)
{
  VERIF_INPUT(INPUT); VERIF_INPUT(LEN); VERIF_INPUT(XMLCHAR_T); VERIF_INPUT(NAMECH_T); VERIF_INPUT(FIRSTNAMECH_T); VERIF_INPUT(fDoNamespaces);
  VERIF_ASSUME(LEN <= NIN);
  for (XMLSize_t k = 0; k < NIN; k++) VERIF_ASSUME(k >= LEN || INPUT.a[k] != 0);
  /* facts about the real tables (chartab_*): '?' '>' and S are Chars, S and '?' are not name characters */
  VERIF_ASSUME(XMLCHAR['?'] && XMLCHAR['>'] && XMLCHAR[0x20] && XMLCHAR[0x9] && XMLCHAR[0xA] && XMLCHAR[0xD]);
  VERIF_ASSUME(!NAMECH['?'] && !NAMECH[0x20] && !NAMECH[0x9] && !NAMECH[0xA] && !NAMECH[0xD] && !FIRSTNAMECH['?'] && !FIRSTNAMECH[0x20] && !FIRSTNAMECH[0x9] && !FIRSTNAMECH[0xA] && !FIRSTNAMECH[0xD]);
  POS = 0; ERR_COUNT = 0; ERR_FATAL_COUNT = 0; DOC_EVENTS = 0; DOC2_EVENTS = 0; OUT_OVERFLOW = 0; OUTLEN = 0; verif_thrown = 0;
  assume_surrogates_not_char();
  XMLScanner_scanPI();
  VERIF_CANARY("after call");

  /* reference recogniser */
  XMLSize_t i = 0, nlen = 0, dlen = 0; int wf = 1;
  XMLCh data[NIN + 1];
  if (!(i < LEN && FIRSTNAMECH[INPUT.a[i]])) wf = 0;
  else { i++; nlen = 1; while (i < LEN && NAMECH[INPUT.a[i]]) { i++; nlen++; } }
  if (wf) {
    if (nlen == 3 && (INPUT.a[0] == 'x' || INPUT.a[0] == 'X') && (INPUT.a[1] == 'm' || INPUT.a[1] == 'M') && (INPUT.a[2] == 'l' || INPUT.a[2] == 'L')) wf = 0;
    if (fDoNamespaces) for (XMLSize_t k = 0; k < NIN; k++) if (k < nlen && INPUT.a[k] == ':') wf = 0;
  }
  XMLSize_t end = 0;
  if (wf) {
    if (i < LEN && RD_isWhitespace(INPUT.a[i])) {
      while (i < LEN && RD_isWhitespace(INPUT.a[i])) i++;
      int closed = 0;
      while (i < LEN) {
        XMLCh c = INPUT.a[i];
        if (c == '?' && i + 1 < LEN && INPUT.a[i + 1] == '>') { closed = 1; end = i + 2; break; }
        if (c >= 0xD800 && c <= 0xDBFF) {
          if (i + 1 < LEN && INPUT.a[i + 1] >= 0xDC00 && INPUT.a[i + 1] <= 0xDFFF) { data[dlen++] = c; data[dlen++] = INPUT.a[i + 1]; i += 2; continue; }
          wf = 0;
        } else if ((c >= 0xDC00 && c <= 0xDFFF) || !XMLCHAR[c]) wf = 0;
        data[dlen++] = c; i++;
      }
      if (!closed) wf = 0;
    } else if (i + 1 < LEN && INPUT.a[i] == '?' && INPUT.a[i + 1] == '>') end = i + 2;
    else wf = 0;
  }
  if (wf) {
    __CPROVER_assert(!verif_thrown && ERR_COUNT == 0, "C02: a well-formed processing instruction is accepted without error");
    __CPROVER_assert(POS == end, "C03: exactly the PI is consumed");
    __CPROVER_assert(DOC2_EVENTS == 1 && DOC2_NAMELEN == nlen && DOC_LEN == dlen, "C03: one docPI event with target and data lengths");
    for (XMLSize_t k = 0; k < NIN; k++) { if (k < nlen) __CPROVER_assert(DOC2_NAME.a[k] == INPUT.a[k], "C03: PI target delivered exactly");
                                          if (k < dlen) __CPROVER_assert(DOC_TEXT.a[k] == data[k], "C03: PI data delivered exactly"); }
  } else {
    __CPROVER_assert(verif_thrown || ERR_FATAL_COUNT >= 1, "C02: an ill-formed PI (no/illegal target, 'xml' target, colon with namespaces, illegal character, broken surrogate pair, unterminated) raises a fatal error");
  }
  __CPROVER_assert(!OUT_OVERFLOW && POS <= LEN, "C01: buffers and reader position in range");
}
