//@ unit utf8_roundtrip_w
//@ props C05
//@ kind W
//@ cbmc all --unwind 4 --unwinding-assertions
//@ entry h_utf8_roundtrip
//@ note W: one symbolic scalar value cp, complete over 0..0x10FFFF minus D800..DFFF; the encoder loop runs once, the decoder loop once (unwinding assertions on); both real functions are in the same unit, the decoder is fed the bytes the encoder produced
//@ note XMLString::binToText (exception message text only), getMemoryManager() and getEncodingName() are dropped
#define VERIF_DEFINE_GHOSTS
#include "verif_prelude.h"
#include "unicode.h"

typedef int UnRepOpts;
//@ enum src/xercesc/util/TransService.hpp UnRepOpts - scope=XMLTranscoder
//@ table src/xercesc/util/XMLUTF8Transcoder.cpp gUTFBytes
//@ table src/xercesc/util/XMLUTF8Transcoder.cpp gUTFByteIndicator
//@ table src/xercesc/util/XMLUTF8Transcoder.cpp gUTFByteIndicatorTest
//@ table src/xercesc/util/XMLUTF8Transcoder.cpp gUTFOffsets
//@ table src/xercesc/util/XMLUTF8Transcoder.cpp gFirstByteMark

/*@extract src/xercesc/util/XMLUTF8Transcoder.hpp XMLUTF8Transcoder::checkTrailingBytes
static
@*/

/*@extract src/xercesc/util/XMLUTF8Transcoder.cpp XMLUTF8Transcoder::transcodeFrom
call checkTrailingBytes => XMLUTF8Transcoder_checkTrailingBytes
throws XMLUTF8Transcoder_checkTrailingBytes
@*/

/*@extract src/xercesc/util/XMLUTF8Transcoder.cpp XMLUTF8Transcoder::transcodeTo
sub XMLString::binToText\s*\([^;]*\)\s*; =>
@*/

struct { XMLCh a[2]; } U16;
struct { XMLByte a[4]; } U8;
struct { XMLCh a[2]; } BACK;
struct { unsigned char a[2]; } SZ;

void h_utf8_roundtrip(void)
{
  uint32_t cp;
  VERIF_INPUT(cp);
  VERIF_ASSUME(spec_is_scalar(cp));                    /* every Unicode scalar value (D76) */
  uint16_t u[2] = { 0, 0 };
  XMLSize_t n = (XMLSize_t)spec_utf16_units(cp, u);    /* D91 */
  XMLCh *src = U16.a + (2 - n);                        /* end-aligned */
  src[0] = u[0];
  if (n == 2) src[1] = u[1];
  XMLSize_t eaten = 0, be = 0;
  verif_thrown = 0;

  XMLSize_t nb = XMLUTF8Transcoder_transcodeTo(src, n, U8.a, 4, &eaten, UnRep_Throw);
  __CPROVER_assert(!verif_thrown && eaten == n, "C05: every scalar value is encodable and wholly consumed");
  __CPROVER_assert(nb >= 1 && nb <= 4, "C05: a scalar value takes 1..4 UTF-8 bytes");

  uint8_t e[4];
  int L = spec_utf8_encode(cp, e);
  __CPROVER_assert(nb == (XMLSize_t)L && U8.a[0] == e[0] && (L < 2 || U8.a[1] == e[1]) && (L < 3 || U8.a[2] == e[2]) && (L < 4 || U8.a[3] == e[3]),
                   "C05: encoder output = Table 3-6 encoding of cp");

  XMLByte *bytes = U8.a;
  XMLSize_t nu = 0;
  if (nb <= 4) {
    /* hand the decoder exactly nb bytes, end-aligned */
    static struct { XMLByte a[4]; } IN;
    bytes = IN.a + (4 - nb);
    if (nb >= 1) bytes[0] = U8.a[0];
    if (nb >= 2) bytes[1] = U8.a[1];
    if (nb >= 3) bytes[2] = U8.a[2];
    if (nb >= 4) bytes[3] = U8.a[3];
    nu = XMLUTF8Transcoder_transcodeFrom(bytes, nb, BACK.a, 2, &be, SZ.a);
  }
  VERIF_CANARY("after calls");

  __CPROVER_assert(!verif_thrown, "C05: the encoder's output is accepted by the decoder");
  __CPROVER_assert(be == nb, "C05: the decoder consumes exactly the encoder's bytes");
  __CPROVER_assert(nu == n && BACK.a[0] == u[0] && (n < 2 || BACK.a[1] == u[1]), "C05: decode(encode(cp)) == cp for every scalar value");
  uint32_t back = (nu == 2) ? spec_pair_to_cp(BACK.a[0], BACK.a[1]) : BACK.a[0];
  __CPROVER_assert(back == cp, "C05: round trip restores the scalar value");
  __CPROVER_assert(SZ.a[0] == nb && (nu < 2 || SZ.a[1] == 0), "C04: charSizes of the decoded scalar");
}
