//@ unit ser_cls_XMLStringPool
//@ props C16
//@ kind W
//@ def all NP=3
//@ cbmc all --unwind 6 --unwinding-assertions
//@ entry h_ser_cls_XMLStringPool
//@ note W: complete for pools of <= NP strings (ids 1..NP; both loops of XMLStringPool::serialize unwound); the real body runs in store mode on a pool with fCurId - 1 strings and then in load mode on an empty pool (fCurId == 1, as the constructor leaves it: the code asserts it)
//@ note tape engine (contracts/ser_tape.inc): operator<< / operator>> / writeSize / readSize / writeString / readString and the sub-object serialisers (XTemplateSerializer::storeObject/loadObject, DatatypeValidator::storeDV/loadDV, Base::serialize ...) are trusted stubs that record / check (type tag, value); the tag of a streamed operand comes from its REAL type (member types from the real class declaration, casts from the code) via _Generic; strings, containers and pointers to serialisable objects are opaque ids (the pointer value stands for the object; loading yields the id that was stored); the byte-level engine is the subject of units ser_primitives, ser_fillflush, ser_rawbytes
//@ note model (trusted stubs): getValueForId(i) is the id of the i-th string; addNewEntry(s) gives s the next id (fCurId++) and records it -- the property is that every string gets the SAME id back (ids are what the grammars store: fURIId, fNameId ...); deallocate records the temporary copies released
#define VERIF_DEFINE_GHOSTS
#include "verif_prelude.h"
#include <assert.h>
//@ include ser_tape.inc
//@ struct src/xercesc/util/StringPool.hpp XMLStringPool only=auto

static XMLCh STR[NP + 2];                         /* STR + i = id of the string with pool id i */
struct { const XMLCh *a[NP + 2]; } ADDED; int FREES; struct { const void *a[NP + 2]; } FREED;
static const XMLCh* SP_getValueForId(unsigned int id) { return STR + (id < NP + 2 ? id : 0); }
static unsigned int SP_addNewEntry(const XMLCh *s) { unsigned int id = fCurId; if (id < NP + 2) ADDED.a[id] = s; fCurId++; return id; }
static void MM_deallocate(MemoryManager *mm, void *p) { if (FREES < NP + 2) FREED.a[FREES] = p; FREES++; }

/*@extract src/xercesc/util/StringPool.cpp XMLStringPool::serialize
streamops serEng
method serEng.isStoring => ENG_isStoring
method serEng.isLoading => ENG_isLoading
method serEng.writeString => ENG_writeString
method serEng.readString => ENG_readString
method fMemoryManager->deallocate => MM_deallocate
call getValueForId => SP_getValueForId
call addNewEntry => SP_addNewEntry
@*/

void h_ser_cls_XMLStringPool(void)
{
  VERIF_INPUT(SELF); TAPE_INIT();
  VERIF_ASSUME(fCurId >= 1 && fCurId <= NP + 1);     /* ids start at 1; fCurId is the next id to hand out */
  unsigned int stored = fCurId;
  verif_thrown = 0;
  TAPE_BEGIN_STORE();
  XMLStringPool_serialize(&ENGINE);
  fCurId = 1; FREES = 0;                             /* the pool that is loaded into: empty */
  TAPE_BEGIN_LOAD();
  XMLStringPool_serialize(&ENGINE);
  VERIF_CANARY("after store and load");
  __CPROVER_assert(!verif_thrown, "C16: serialize does not throw by itself");
  TAPE_END_CHECK();
  __CPROVER_assert(fCurId == stored, "C16: store then load restores the field fCurId (the next id to hand out)");
  for (unsigned int i = 1; i < NP + 1; i++) if (i < stored)
    __CPROVER_assert(ADDED.a[i] == STR + i, "C16: every pooled string gets its id back (the string with id i is added as the i-th entry)");
  __CPROVER_assert(FREES == (int)stored - 1, "C01: every temporary string read from the stream is released, once");
  for (unsigned int i = 1; i < NP + 1; i++) if (i < stored)
    __CPROVER_assert(FREED.a[i - 1] == (const void*)(STR + i), "C01: what is released is the temporary copy, after it has been added");
  if (stored == NP + 1) VERIF_CANARY("full pool");
}
