//@ unit trans_makeNew_case_w
//@ props C05
//@ kind W
//@ def quick NL=5
//@ def thorough NL=8
//@ cbmc all --unwind 11 --unwinding-assertions
//@ entry h_makeNew_case
//@ note W: XMLTransService::makeNewTranscoderFor(const XMLCh* name, ...) with the real XMLString::copyNString / stringLen / upperCaseASCII (moveChars = memmove is an element-wise copy stub), for every registered (upper-case ASCII letters, digits, '-') name of 1..NL characters and EVERY upper/lower-case spelling of it, plus every other name; loops unwound completely; the local buffer size (2048) is rebound to NL + 2
//@ note spec (XML 1.0 4.3.3: "XML processors SHOULD match character encoding names in a case-insensitive way"; C05: the intrinsic, strict decoders are used for the encodings they exist for): a name that differs from a registered name only in the case of ASCII letters gets the registered (intrinsic) transcoder, not the fall-back of the platform service
//@ note trusted stubs: gMappings->get(key) finds the one registered name by exact comparison (the table is keyed by upper-case names: unit trans_alias_table); ENameMap::makeNew and makeNewXMLTranscoder (platform service) are recording stubs; strict IANA mode off
#define VERIF_DEFINE_GHOSTS
#include "verif_prelude.h"
typedef struct ENameMap { char o; } ENameMap; typedef struct XMLTranscoder { char o; } XMLTranscoder;
typedef int XMLTransService_Codes;
enum { XMLTransService_Ok = 0, XMLTransService_UnsupportedEncoding = 1, XMLTransService_InternalFailure = 2 };
_Bool gStrictIANAEncoding;
struct { XMLCh a[NL + 1]; } REGNAME, ASKED;
ENameMap THE_MAP; XMLTranscoder INTRINSIC, PLATFORM;
int GOT_INTRINSIC, GOT_PLATFORM;
static int eq_reg(const XMLCh *k) { for (int i = 0; i <= NL; i++) { if (k[i] != REGNAME.a[i]) return 0; if (!k[i]) return 1; } return 0; }
static ENameMap* MAP_get(const XMLCh *key) { return eq_reg(key) ? &THE_MAP : (ENameMap*)0; }
static XMLTranscoder* NM_makeNew(ENameMap *m, XMLSize_t blk, MemoryManager *mm) { GOT_INTRINSIC++; return &INTRINSIC; }
static XMLTranscoder* TS_makeNewXMLTranscoder(const XMLCh *name, int *res, XMLSize_t blk, MemoryManager *mm) { GOT_PLATFORM++; *res = XMLTransService_Ok; return &PLATFORM; }
#define TS_platform(name, res, blk, mm) TS_makeNewXMLTranscoder((name), &(res), (blk), (mm))
static bool EV_isValidEncoding(const XMLCh *n) { return true; }

/*@extract src/xercesc/util/XMLString.hpp XMLString::stringLen
params const XMLCh* const src
static
@*/
/* XMLString::moveChars (= memmove, proved in str_move): element-wise copy here, because cbmc 6.11's memmove model loses a copy of
 * symbolic size into a non-char object (AUTHORING.md) */
static void XMLString_moveChars(XMLCh *t, const XMLCh *s, XMLSize_t n) { for (XMLSize_t i = 0; i < n; i++) t[i] = s[i]; }
/*@extract src/xercesc/util/XMLString.cpp XMLString::copyNString
params XMLCh* const target
call stringLen => XMLString_stringLen
sub* XMLString::moveChars\( => XMLString_moveChars(
@*/
/*@extract src/xercesc/util/XMLString.cpp XMLString::upperCaseASCII
@*/
/*@extract src/xercesc/util/TransService.cpp XMLTransService::makeNewTranscoderFor
params const XMLCh* const encodingName
as TS_makeNewTranscoderFor
sub* const XMLSize_t bufSize = 2048; => enum { bufSize = NL + 1 };
sub* EncodingValidator::instance\(\)->isValidEncoding\( => EV_isValidEncoding(
sub* XMLTransService::(Ok|UnsupportedEncoding|InternalFailure)\b => XMLTransService_\1
sub* gMappings->get\( => MAP_get(
sub* (\w+)->makeNew\( => NM_makeNew(\1, 
sub* (?<![\w:])makeNewXMLTranscoder\( => TS_platform(
@*/

static XMLCh up(XMLCh c) { return (c >= 0x61 && c <= 0x7A) ? (XMLCh)(c - 0x20) : c; }
void h_makeNew_case(void)
{
  VERIF_INPUT(REGNAME); VERIF_INPUT(ASKED);
  XMLSize_t n, m;
  VERIF_INPUT(n); VERIF_INPUT(m); VERIF_ASSUME(n >= 1 && n <= NL && m <= NL);
  /* the registered name: upper-case letters, digits, '-', '_' */
  for (int i = 0; i <= NL; i++) {
    if ((XMLSize_t)i < n) { VERIF_ASSUME((REGNAME.a[i] >= 0x41 && REGNAME.a[i] <= 0x5A) || (REGNAME.a[i] >= 0x30 && REGNAME.a[i] <= 0x39) || REGNAME.a[i] == 0x2D || REGNAME.a[i] == 0x5F); }
    else { VERIF_ASSUME(REGNAME.a[i] == 0); }
    if ((XMLSize_t)i < m) { VERIF_ASSUME(ASKED.a[i] != 0); } else { VERIF_ASSUME(ASKED.a[i] == 0); }
  }
  int same = (n == m);
  for (int i = 0; i < NL; i++) if ((XMLSize_t)i < n && same && up(ASKED.a[i]) != REGNAME.a[i]) same = 0;
  gStrictIANAEncoding = 0; GOT_INTRINSIC = 0; GOT_PLATFORM = 0; verif_thrown = 0;
  int res = -1;
  XMLTranscoder *t = TS_makeNewTranscoderFor(ASKED.a, &res, 16384, (MemoryManager*)0);
  VERIF_CANARY("after makeNewTranscoderFor");
  if (same) {
    VERIF_CANARY("case variant reachable");
    __CPROVER_assert(t == &INTRINSIC && GOT_INTRINSIC == 1 && GOT_PLATFORM == 0 && res == XMLTransService_Ok, "C05: every upper/lower-case spelling of a registered encoding name gets the intrinsic transcoder");
  } else {
    __CPROVER_assert(t == &PLATFORM && GOT_INTRINSIC == 0 && GOT_PLATFORM == 1, "C05: any other name is handed to the platform service");
  }
}
