//@ unit vec_valuevector
//@ props C01
//@ kind P
//@ def quick VN=4 NEWN=8
//@ def thorough VN=8 NEWN=16
//@ enforce ValueVectorOf_ensureExtraCapacity
//@ enforce ValueVectorOf_removeElementAt
//@ enforce ValueVectorOf_setElementAt
//@ enforce ValueVectorOf_elementAt
//@ enforce ValueVectorOf_elementAtC
//@ enforce ValueVectorOf_removeAllElements
//@ entry h_vec
//@ note P: the copy / shift loops run through loop contracts; capacities bounded by -DVN (current list) and -DNEWN (reallocated list): cbmc needs finite objects; TElem = int (template prefix stripped by R15, TElem typedef'd)
//@ note ensureExtraCapacity: preconditions capacity >= 1 (the constructors of all users pass >= 1; with capacity 0 and count 0 the request length is honoured all the same) and length <= VN; the growth factor (XMLSize_t)((double)fCurCount * 1.25) is evaluated in IEEE double by cbmc
//@ note allocator stubs and layout: see contracts/vec_common.inc
#define VERIF_DEFINE_GHOSTS
#include "verif_prelude.h"
//@ include vec_common.inc
//@ struct src/xercesc/util/ValueVectorOf.hpp ValueVectorOf only=auto ov:fElemList=TElem*~fElemList

/*@extract src/xercesc/util/ValueVectorOf.c ValueVectorOf<TElem>::ensureExtraCapacity
as ValueVectorOf_ensureExtraCapacity
template-ok
sub fMemoryManager->allocate => VERIF_allocate
sub fMemoryManager->deallocate => VERIF_deallocate
contract
//@ include vec_ensureExtraCapacity.contract.inc
loop 1
__CPROVER_assigns(index, __CPROVER_object_upto(NEWL.a, sizeof(NEWL.a)))
__CPROVER_loop_invariant(index <= fCurCount)
__CPROVER_loop_invariant((G < index) ==> newList[G] == fElemList[CLV(G)])
__CPROVER_loop_invariant((G1 < index) ==> newList[G1] == fElemList[CLV(G1)])
__CPROVER_decreases(fCurCount - index)
@*/

/*@extract src/xercesc/util/ValueVectorOf.c ValueVectorOf<TElem>::removeElementAt
as ValueVectorOf_removeElementAt
template-ok
contract
__CPROVER_requires(RI_VEC && G < NEWN && !verif_thrown)
__CPROVER_assigns(fCurCount, __CPROVER_object_upto(fElemList, fMaxCount * sizeof(TElem)), verif_thrown, verif_throw_type, verif_throw_code)
__CPROVER_ensures(RI_VEC)
__CPROVER_ensures(removeAt >= __CPROVER_old(fCurCount) ==> (verif_thrown && verif_throw_type == VT_ArrayIndexOutOfBoundsException && fCurCount == __CPROVER_old(fCurCount)))
__CPROVER_ensures(removeAt < __CPROVER_old(fCurCount) ==> (!verif_thrown && fCurCount == __CPROVER_old(fCurCount) - 1))
/* elements below the removed one stay, the ones above move down by one */
__CPROVER_ensures((!verif_thrown && G < removeAt) ==> fElemList[CLV(G)] == __CPROVER_old(fElemList[CLV(G)]))
__CPROVER_ensures((!verif_thrown && G >= removeAt && G < fCurCount) ==> fElemList[CLV(G)] == __CPROVER_old(fElemList[CLV(G + 1)]))
loop 1
__CPROVER_assigns(index, __CPROVER_object_upto(fElemList, fMaxCount * sizeof(TElem)))
__CPROVER_loop_invariant(removeAt <= index && index <= fCurCount - 1)
__CPROVER_loop_invariant((G < removeAt) ==> fElemList[CLV(G)] == __CPROVER_loop_entry(fElemList[CLV(G)]))
__CPROVER_loop_invariant((G >= removeAt && G < index) ==> fElemList[CLV(G)] == __CPROVER_loop_entry(fElemList[CLV(G + 1)]))
__CPROVER_loop_invariant((G + 1 > index && G + 1 < fCurCount) ==> fElemList[CLV(G + 1)] == __CPROVER_loop_entry(fElemList[CLV(G + 1)]))
__CPROVER_decreases(fCurCount - 1 - index)
@*/

/*@extract src/xercesc/util/ValueVectorOf.c ValueVectorOf<TElem>::setElementAt
as ValueVectorOf_setElementAt
template-ok
contract
__CPROVER_requires(RI_VEC && G < NEWN && !verif_thrown && __CPROVER_r_ok(toSet_p, sizeof(TElem)))
__CPROVER_assigns(__CPROVER_object_upto(fElemList, fMaxCount * sizeof(TElem)), verif_thrown, verif_throw_type, verif_throw_code)
__CPROVER_ensures(RI_VEC)
__CPROVER_ensures(setAt >= fCurCount ==> (verif_thrown && verif_throw_type == VT_ArrayIndexOutOfBoundsException))
__CPROVER_ensures(setAt < fCurCount ==> (!verif_thrown && fElemList[CLV(setAt)] == *toSet_p))
__CPROVER_ensures((G < fCurCount && G != setAt) ==> fElemList[CLV(G)] == __CPROVER_old(fElemList[CLV(G)]))
@*/

/*@extract src/xercesc/util/ValueVectorOf.c ValueVectorOf<TElem>::elementAt
as ValueVectorOf_elementAtC
pick 1
template-ok
retref
contract
__CPROVER_requires(RI_VEC && !verif_thrown)
__CPROVER_assigns(verif_thrown, verif_throw_type, verif_throw_code)
__CPROVER_ensures(getAt >= fCurCount ==> (verif_thrown && verif_throw_type == VT_ArrayIndexOutOfBoundsException))
__CPROVER_ensures(getAt < fCurCount ==> (!verif_thrown && __CPROVER_return_value == &fElemList[CLV(getAt)]))
@*/

/*@extract src/xercesc/util/ValueVectorOf.c ValueVectorOf<TElem>::elementAt
as ValueVectorOf_elementAt
pick 2
template-ok
retref
contract
__CPROVER_requires(RI_VEC && !verif_thrown)
__CPROVER_assigns(verif_thrown, verif_throw_type, verif_throw_code)
__CPROVER_ensures(getAt >= fCurCount ==> (verif_thrown && verif_throw_type == VT_ArrayIndexOutOfBoundsException))
__CPROVER_ensures(getAt < fCurCount ==> (!verif_thrown && __CPROVER_return_value == &fElemList[CLV(getAt)]))
@*/

/*@extract src/xercesc/util/ValueVectorOf.c ValueVectorOf<TElem>::removeAllElements
as ValueVectorOf_removeAllElements
template-ok
contract
__CPROVER_requires(RI_VEC)
__CPROVER_assigns(fCurCount)
__CPROVER_ensures(RI_VEC && fCurCount == 0)
@*/

void h_vec(void)
{
  XMLSize_t cap, cnt, len, at; TElem v;
  VERIF_INPUT(OLDL); VERIF_INPUT(NEWL); VERIF_INPUT(G); VERIF_INPUT(G1); VERIF_INPUT(cap); VERIF_INPUT(cnt); VERIF_INPUT(len); VERIF_INPUT(at); VERIF_INPUT(v);
  VERIF_ASSUME(cap >= 1 && cap <= VN && cnt <= cap);
  fMaxCount = cap; fCurCount = cnt; fElemList = OLDL.a + (VN - cap);
  verif_thrown = 0; ALLOCS = 0;

  ValueVectorOf_removeElementAt(at);
  VERIF_CANARY("after removeElementAt");
  if (!verif_thrown && at + 2 < cnt) VERIF_CANARY("removeElementAt: shifting several elements reachable");

  verif_thrown = 0;
  ValueVectorOf_setElementAt(&v, at);
  VERIF_CANARY("after setElementAt");

  verif_thrown = 0;
  TElem *p = ValueVectorOf_elementAt(at);
  const TElem *q = ValueVectorOf_elementAtC(at);
  VERIF_CANARY("after elementAt");
  if (!verif_thrown) VERIF_CANARY("elementAt: valid index reachable");

  verif_thrown = 0;
  ValueVectorOf_ensureExtraCapacity(len);
  VERIF_CANARY("after ensureExtraCapacity");
  if (ALLOCS == 1 && fCurCount > 2) VERIF_CANARY("ensureExtraCapacity: reallocation with content reachable");
  if (ALLOCS == 0) VERIF_CANARY("ensureExtraCapacity: enough room reachable");

  ValueVectorOf_removeAllElements();
  VERIF_CANARY("after removeAllElements");
}
