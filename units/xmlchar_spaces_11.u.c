//@ unit xmlchar_spaces_11
//@ entry h_xmlchar_spaces_11
//@ props C02 C01
//@ kind W
//@ def quick N=4
//@ def thorough N=7
//@ cbmc quick --unwind 6
//@ cbmc thorough --unwind 9
//@ cbmc all --unwinding-assertions --arrays-uf-always
//@ note W: complete for every UTF-16 string of length <= N followed by a NUL (every call site passes a NUL-terminated string with count = its length; XMLChar1_1::isValidQName needs the NUL because it looks for the colon with XMLString::indexOf); loops fully unwound, unwinding assertions on
//@ note the 64K class table is ARBITRARY here, constrained only at the characters of the input string by the statements of unit chartab_11 (name / NCName / S bits <=> the productions); the S statement FAILS there for U+0085 and U+2028 (finding xml11_nel_is_whitespace), so isAllSpaces / containsWhiteSpace are proved here modulo that finding
//@ note oracle: a surrogate pair D800..DB7F + DC00..DFFF encodes #x10000-#xEFFFF, which [4]/[4a] admit; any other use of a surrogate code unit (lone, reversed, lead DB80..DBFF) is in no production
#define VERIF_DEFINE_GHOSTS
#include "verif_prelude.h"
#include "xmlchars.h"
//@ include XMLChar_names_11.inc


void h_xmlchar_spaces_11(void)
{
  NAMES11_INPUT;
  _Bool r_allsp = XMLChar1_1_isAllSpaces(s, n);
  _Bool r_hassp = XMLChar1_1_containsWhiteSpace(s, n);
  VERIF_CANARY("after call");
  __CPROVER_assert(r_allsp == spec_xml_all_S(s, n), "C02: XMLChar1_1::isAllSpaces <=> the string matches [3] S");
  __CPROVER_assert(r_hassp == spec_xml_contains_S(s, n), "C02: XMLChar1_1::containsWhiteSpace <=> some character is in [3] S");
}
