//@ unit str_trim_w
//@ props C01
//@ kind W
//@ def quick STRN=6
//@ def thorough STRN=9
//@ cbmc all --unwind 11 --unwinding-assertions
//@ entry h_str_trim
//@ note W: complete for every string of length < STRN (all 16-bit units) in a buffer END-aligned at its NUL; loops fully unwound, unwinding assertions on
//@ note XMLChar1_0::isWhitespace is replaced by production [3] S (trusted stub; the real table bit is proved against it in the chartab_* units); stringLen is the real inline body
#define VERIF_DEFINE_GHOSTS
#include "verif_prelude.h"
/* trusted stub: XMLChar1_0::isWhitespace = production [3] S (the table bit is proved against it in chartab_10) */
#define WS10(c) ((c) == 0x20 || (c) == 0x9 || (c) == 0xA || (c) == 0xD)

/*@extract src/xercesc/util/XMLString.hpp XMLString::stringLen
params const XMLCh* const src
static
@*/

/*@extract src/xercesc/util/XMLString.cpp XMLString::trim
params XMLCh* const toTrim
call stringLen => XMLString_stringLen
sub XMLChar1_0::isWhitespace\( => WS10(
@*/

struct { XMLCh a[STRN]; } S1;
void h_str_trim(void)
{
  XMLSize_t n;
  VERIF_INPUT(S1); VERIF_INPUT(n);
  VERIF_ASSUME(n >= 1 && n <= STRN);
  XMLCh *s = S1.a + (STRN - n);
  VERIF_ASSUME(s[n - 1] == 0);
  for (XMLSize_t k = 0; k + 1 < n; k++) VERIF_ASSUME(s[k] != 0);
  XMLCh org[STRN];
  for (XMLSize_t k = 0; k < n; k++) org[k] = s[k];
  verif_thrown = 0;

  XMLString_trim(s);
  VERIF_CANARY("after trim");
  if (n > 3 && WS10(org[0]) && WS10(org[n - 2]) && !WS10(org[1])) VERIF_CANARY("trim: whitespace on both sides reachable");

  /* spec: [lo, hi) = the string without its leading and trailing whitespace runs */
  XMLSize_t len = n - 1, lo = 0, hi = len;
  while (lo < len && WS10(org[lo])) lo++;
  while (hi > lo && WS10(org[hi - 1])) hi--;
  __CPROVER_assert(s[hi - lo] == 0, "C01: trim leaves a terminator after the trimmed text");
  for (XMLSize_t k = 0; k < STRN; k++)
    if (k < hi - lo) __CPROVER_assert(s[k] == org[lo + k], "C01: trim keeps exactly the text between the leading and trailing whitespace runs");
}
