//@ unit rdr_skippedStringLong
//@ props C01 C04 C03
//@ kind P
//@ def quick kCharBufSize=4 STRMAX=9
//@ def thorough kCharBufSize=8 STRMAX=17
//@ rebind src/xercesc/internal/XMLReader.hpp kCharBufSize
//@ enforce XMLReader_skippedStringLong
//@ replace XMLReader_refreshCharBuffer
//@ replace XMLString_stringLen
//@ replace VERIF_memcmp
//@ entry h_skippedStringLong
//@ note P: refills and chunks unbounded through the loop contracts; the string argument lives in a harness object of STRMAX+1 elements (cbmc needs finite objects), its length is arbitrary up to STRMAX > 2 * kCharBufSize
//@ note assumed: XMLString::stringLen returns the length of its argument (unit str_len); memcmp reads only the first n bytes of both operands and returns 0 only if they agree (ISO C)
//@ note refreshCharBuffer is replaced by the contract proved in unit rdr_refreshCharBuffer (contracts/XMLReader_ri2.inc)
//@ note column delta equality is checked modulo 2^8 only (SAT cost of 64-bit linear arithmetic across the loop)
//@ note by design (see the comment in the source) a failed skippedStringLong may have consumed a matching prefix: no "unchanged on failure" claim is made; what is proved is safety, the reader invariant, that the string pointer never leaves the string, termination, and the exact consumption count on success
#define VERIF_DEFINE_GHOSTS
#include "verif_prelude.h"
//@ struct src/xercesc/internal/XMLReader.hpp XMLReader only=auto
//@ include XMLReader_ri2.inc
//@ include XMLReader_str.inc
XMLFileLoc COL0;   /* entry ghost (harness-owned, never assigned): the column on entry */

/*@extract src/xercesc/internal/XMLReader.cpp XMLReader::skippedStringLong
ret false
sub \bmemcmp\( => VERIF_memcmp(
call refreshCharBuffer => XMLReader_refreshCharBuffer
call charsLeftInBuffer => XMLReader_charsLeftInBuffer
throws XMLReader_refreshCharBuffer
contract
__CPROVER_requires(RI_RDR && !verif_thrown && G < kCharBufSize && toSkip == STRP && COL0 == fCurCol)
__CPROVER_assigns(fCurCol, fCharIndex, fCharsAvail, fNoMore, __CPROVER_object_upto(fCharBuf, sizeof(fCharBuf)), verif_thrown, verif_throw_type, verif_throw_code)
/* C01 */
__CPROVER_ensures(RI_RDR && (verif_thrown ==> !__CPROVER_return_value))
/* C03/C04 success: exactly strlen characters were consumed, in however many chunks the refills cut them (column modulo 2^8, see note) */
__CPROVER_ensures(__CPROVER_return_value ==> (XMLByte)(fCurCol - COL0) == (XMLByte)SRCLEN)
/* an empty string is skipped without touching anything */
__CPROVER_ensures(SRCLEN == 0 ==> (__CPROVER_return_value && fCharIndex == __CPROVER_old(fCharIndex) && fCharsAvail == __CPROVER_old(fCharsAvail) && fCurCol == COL0))
loop 1
__CPROVER_assigns(toSkip, srcLen, charsLeft, fCurCol, fCharIndex, fCharsAvail, fNoMore, __CPROVER_object_upto(fCharBuf, sizeof(fCharBuf)), verif_thrown, verif_throw_type, verif_throw_code)
__CPROVER_loop_invariant(RI_RDR && !verif_thrown && charsLeft == fCharsAvail - fCharIndex)
/* the string pointer walks inside the string: exactly srcLen characters are left before the terminator */
__CPROVER_loop_invariant(STR_AT(toSkip, srcLen))
__CPROVER_loop_invariant((XMLByte)(fCurCol - COL0) == (XMLByte)(SRCLEN - srcLen))
__CPROVER_loop_invariant(srcLen == SRCLEN ==> (fCharIndex == __CPROVER_loop_entry(fCharIndex) && fCharsAvail == __CPROVER_loop_entry(fCharsAvail) && fCurCol == COL0))
/* every chunk is non-empty */
__CPROVER_decreases(srcLen)
loop 2
__CPROVER_assigns(charsLeft, fCharIndex, fCharsAvail, fNoMore, __CPROVER_object_upto(fCharBuf, sizeof(fCharBuf)), verif_thrown, verif_throw_type, verif_throw_code)
__CPROVER_loop_invariant(RI_RDR && !verif_thrown && charsLeft == fCharsAvail - fCharIndex)
/* every round must enlarge the window, which is bounded by the buffer */
__CPROVER_decreases(kCharBufSize - charsLeft)
@*/

void h_skippedStringLong(void)
{
  VERIF_INPUT(SELF);
  STR_SETUP();
  verif_thrown = 0;
  XMLReader_skippedStringLong(STRP);
  VERIF_CANARY("after call");
}
