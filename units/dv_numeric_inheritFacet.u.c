//@ unit dv_numeric_inheritFacet
//@ props C09 C01
//@ kind L
//@ entry h_dv_numeric_inheritFacet
//@ note L: loop-free, complete: AbstractNumericFacetValidator::inheritFacet (+ the real DatatypeValidator accessors getFacetsDefined / setFacetsDefined / getFixed / setFixed / getBaseValidator, the real bound getters on the base object, the real no-op inheritAdditionalFacet, and the destructor's ownership logic) for EVERY pair (derived validator, base validator or none): every fFacetsDefined / fFixed bit vector, every combination of own bounds
//@ note obligation (XML Schema Part 2 4.1.2.1 derivation by restriction + 4.3.7-4.3.10: the {facets} of the derived type are the base type's facets overlaid by the ones the restriction specifies; maxInclusive and maxExclusive exclude each other (4.3.7 / 4.3.8 "it is an error for both ... to be specified"), likewise minInclusive / minExclusive): an upper bound of the base (inclusive or exclusive) constrains the derived type unless the derived type specifies an upper bound of EITHER kind; same for lower bounds; the enumeration of the base applies unless the derived type has its own; nothing else changes; {fixed} of the base facets carries over
//@ note ownership (C01, from the destructor): an inherited bound / enumeration belongs to the base validator: it is flagged inherited and the derived validator's destructor deletes exactly its own values, never one of the base's
//@ note object model: an object = {DatatypeValidator base subobject first, AbstractNumericFacetValidator members}; XMLNumber / RefVectorOf pointers are opaque ids (distinct harness addresses); representation invariant of both objects (constructor zero-initialises, assignFacet sets value and bit together): a bound pointer is non-null iff its FACET_ bit is set; not both bounds of one side; own values of the two objects are distinct objects
//@ note NOT in scope: assignFacet / inspectFacet (value-space checks that the derived bounds restrict the base's), DecimalDatatypeValidator::inheritAdditionalFacet (totalDigits / fractionDigits), DateTimeValidator / AbstractStringValidator
#define VERIF_DEFINE_GHOSTS
#include "verif_prelude.h"
//@ enum src/xercesc/validators/datatype/DatatypeValidator.hpp anon:FACET_LENGTH DatatypeValidator_ scope=DatatypeValidator
//@ struct src/xercesc/validators/datatype/DatatypeValidator.hpp DatatypeValidator self=none only=fFacetsDefined,fFixed,fBaseValidator structs=DatatypeValidator
typedef struct DatatypeValidator DatatypeValidator;
//@ struct src/xercesc/validators/datatype/AbstractNumericFacetValidator.hpp AbstractNumericFacetValidator self=none name=ANFV_members
typedef void XMLNumber;
struct NumV { struct DatatypeValidator dv; struct ANFV_members nv; };     /* base subobject first: a DatatypeValidator* to it converts to the object */
typedef struct NumV AbstractNumericFacetValidator;
struct NumV THISV, BASEV;

void *DELETED[8]; unsigned NDEL;
#define VERIF_DELETE DELETED[NDEL < 8 ? NDEL++ : 7] = (void *)

/*@extract src/xercesc/validators/datatype/DatatypeValidator.hpp DatatypeValidator::getFacetsDefined
selfparam DatatypeValidator
sub (?<![\w.>])(fFacetsDefined|fFixed|fBaseValidator)\b => self->\1
@*/
/*@extract src/xercesc/validators/datatype/DatatypeValidator.hpp DatatypeValidator::setFacetsDefined
selfparam DatatypeValidator
sub (?<![\w.>])(fFacetsDefined|fFixed|fBaseValidator)\b => self->\1
@*/
/*@extract src/xercesc/validators/datatype/DatatypeValidator.hpp DatatypeValidator::getFixed
selfparam DatatypeValidator
sub (?<![\w.>])(fFacetsDefined|fFixed|fBaseValidator)\b => self->\1
@*/
/*@extract src/xercesc/validators/datatype/DatatypeValidator.hpp DatatypeValidator::setFixed
selfparam DatatypeValidator
sub (?<![\w.>])(fFacetsDefined|fFixed|fBaseValidator)\b => self->\1
@*/
/*@extract src/xercesc/validators/datatype/DatatypeValidator.hpp DatatypeValidator::getBaseValidator
selfparam DatatypeValidator
sub (?<![\w.>])(fFacetsDefined|fFixed|fBaseValidator)\b => self->\1
@*/
/*@extract src/xercesc/validators/datatype/AbstractNumericFacetValidator.hpp AbstractNumericFacetValidator::getMaxInclusive
selfparam NumV
sub (?<![\w.>])(fMaxInclusive|fMaxExclusive|fMinInclusive|fMinExclusive)\b => self->nv.\1
@*/
/*@extract src/xercesc/validators/datatype/AbstractNumericFacetValidator.hpp AbstractNumericFacetValidator::getMaxExclusive
selfparam NumV
sub (?<![\w.>])(fMaxInclusive|fMaxExclusive|fMinInclusive|fMinExclusive)\b => self->nv.\1
@*/
/*@extract src/xercesc/validators/datatype/AbstractNumericFacetValidator.hpp AbstractNumericFacetValidator::getMinInclusive
selfparam NumV
sub (?<![\w.>])(fMaxInclusive|fMaxExclusive|fMinInclusive|fMinExclusive)\b => self->nv.\1
@*/
/*@extract src/xercesc/validators/datatype/AbstractNumericFacetValidator.hpp AbstractNumericFacetValidator::getMinExclusive
selfparam NumV
sub (?<![\w.>])(fMaxInclusive|fMaxExclusive|fMinInclusive|fMinExclusive)\b => self->nv.\1
@*/
/*@extract src/xercesc/validators/datatype/AbstractNumericFacetValidator.cpp AbstractNumericFacetValidator::inheritAdditionalFacet
@*/
/*@extract src/xercesc/validators/datatype/AbstractNumericFacetValidator.cpp AbstractNumericFacetValidator::inheritFacet
sub* (?<![\w.>])(f(?:Max|Min)(?:In|Ex)clusive(?:Inherited)?|fEnumeration(?:Inherited)?|fStrEnumeration)\b => THISV.nv.\1
sub* \bnumBase->(?=f[A-Z]) => numBase->nv.
sub* (?<![\w.>])getBaseValidator\(\) => DatatypeValidator_getBaseValidator(&THISV.dv)
sub* (?<![\w.>])getFacetsDefined\(\) => DatatypeValidator_getFacetsDefined(&THISV.dv)
sub* (?<![\w.>])getFixed\(\) => DatatypeValidator_getFixed(&THISV.dv)
sub* (?<![\w.>])setFacetsDefined\( => DatatypeValidator_setFacetsDefined(&THISV.dv,
sub* (?<![\w.>])setFixed\( => DatatypeValidator_setFixed(&THISV.dv,
sub* \bnumBase->getFacetsDefined\(\) => DatatypeValidator_getFacetsDefined(&numBase->dv)
sub* \bnumBase->getFixed\(\) => DatatypeValidator_getFixed(&numBase->dv)
method numBase->getMaxInclusive => AbstractNumericFacetValidator_getMaxInclusive
method numBase->getMaxExclusive => AbstractNumericFacetValidator_getMaxExclusive
method numBase->getMinInclusive => AbstractNumericFacetValidator_getMinInclusive
method numBase->getMinExclusive => AbstractNumericFacetValidator_getMinExclusive
call inheritAdditionalFacet => AbstractNumericFacetValidator_inheritAdditionalFacet
@*/
/*@extract src/xercesc/validators/datatype/AbstractNumericFacetValidator.cpp AbstractNumericFacetValidator::~AbstractNumericFacetValidator
as AbstractNumericFacetValidator_dtor
sub* (?<![\w.>])(f(?:Max|Min)(?:In|Ex)clusive(?:Inherited)?|fEnumeration(?:Inherited)?|fStrEnumeration)\b => THISV.nv.\1
sub* \bdelete\b => VERIF_DELETE
@*/

enum { F_ENUM = DatatypeValidator_FACET_ENUMERATION, F_MAXI = DatatypeValidator_FACET_MAXINCLUSIVE, F_MAXE = DatatypeValidator_FACET_MAXEXCLUSIVE,
       F_MINI = DatatypeValidator_FACET_MININCLUSIVE, F_MINE = DatatypeValidator_FACET_MINEXCLUSIVE, F_OURS = F_ENUM | F_MAXI | F_MAXE | F_MINI | F_MINE };
/* opaque value objects: own values of the derived validator T_*, of the base validator B_* (all distinct addresses) */
char T_MAXI, T_MAXE, T_MINI, T_MINE, T_ENUM, T_STR, B_MAXI, B_MAXE, B_MINI, B_MINE, B_ENUM, B_STR;
/* representation invariant of one object: value present iff bit set; the two bounds of one side exclude each other (4.3.7/4.3.8, 4.3.9/4.3.10: inspectFacet) */
#define RI_NUMV(v) ((((v).dv.fFacetsDefined & F_MAXI) != 0) == ((v).nv.fMaxInclusive != 0) && (((v).dv.fFacetsDefined & F_MAXE) != 0) == ((v).nv.fMaxExclusive != 0) && \
                    (((v).dv.fFacetsDefined & F_MINI) != 0) == ((v).nv.fMinInclusive != 0) && (((v).dv.fFacetsDefined & F_MINE) != 0) == ((v).nv.fMinExclusive != 0) && \
                    (((v).dv.fFacetsDefined & F_ENUM) != 0) == ((v).nv.fEnumeration != 0) && \
                    !(((v).dv.fFacetsDefined & F_MAXI) && ((v).dv.fFacetsDefined & F_MAXE)) && !(((v).dv.fFacetsDefined & F_MINI) && ((v).dv.fFacetsDefined & F_MINE)))
static int was_deleted(const void *p) { int r = 0; r |= (NDEL > 0 && DELETED[0] == p); r |= (NDEL > 1 && DELETED[1] == p); r |= (NDEL > 2 && DELETED[2] == p); r |= (NDEL > 3 && DELETED[3] == p); r |= (NDEL > 4 && DELETED[4] == p); r |= (NDEL > 5 && DELETED[5] == p); r |= (NDEL > 6 && DELETED[6] == p); return r; }

void h_dv_numeric_inheritFacet(void)
{
  _Bool has_base;
  VERIF_INPUT(THISV); VERIF_INPUT(BASEV); VERIF_INPUT(has_base);
  /* derived validator as the constructor + assignFacet leave it: own values where the bit is set, nothing inherited yet */
  THISV.nv.fMaxInclusive = (THISV.dv.fFacetsDefined & F_MAXI) ? (void *)&T_MAXI : (void *)0; THISV.nv.fMaxExclusive = (THISV.dv.fFacetsDefined & F_MAXE) ? (void *)&T_MAXE : (void *)0;
  THISV.nv.fMinInclusive = (THISV.dv.fFacetsDefined & F_MINI) ? (void *)&T_MINI : (void *)0; THISV.nv.fMinExclusive = (THISV.dv.fFacetsDefined & F_MINE) ? (void *)&T_MINE : (void *)0;
  THISV.nv.fEnumeration  = (THISV.dv.fFacetsDefined & F_ENUM) ? (void *)&T_ENUM : (void *)0; THISV.nv.fStrEnumeration = (THISV.dv.fFacetsDefined & F_ENUM) ? (void *)&T_STR : (void *)0;
  THISV.nv.fMaxInclusiveInherited = THISV.nv.fMaxExclusiveInherited = THISV.nv.fMinInclusiveInherited = THISV.nv.fMinExclusiveInherited = THISV.nv.fEnumerationInherited = 0;
  /* base validator: any validator of the same family, its values own or inherited further up (flags arbitrary) */
  BASEV.nv.fMaxInclusive = (BASEV.dv.fFacetsDefined & F_MAXI) ? (void *)&B_MAXI : (void *)0; BASEV.nv.fMaxExclusive = (BASEV.dv.fFacetsDefined & F_MAXE) ? (void *)&B_MAXE : (void *)0;
  BASEV.nv.fMinInclusive = (BASEV.dv.fFacetsDefined & F_MINI) ? (void *)&B_MINI : (void *)0; BASEV.nv.fMinExclusive = (BASEV.dv.fFacetsDefined & F_MINE) ? (void *)&B_MINE : (void *)0;
  BASEV.nv.fEnumeration  = (BASEV.dv.fFacetsDefined & F_ENUM) ? (void *)&B_ENUM : (void *)0; BASEV.nv.fStrEnumeration = (BASEV.dv.fFacetsDefined & F_ENUM) ? (void *)&B_STR : (void *)0;
  VERIF_ASSUME(RI_NUMV(THISV) && RI_NUMV(BASEV));
  THISV.dv.fBaseValidator = has_base ? &BASEV.dv : (struct DatatypeValidator *)0;
  struct NumV T0 = THISV, B0 = BASEV;
  const int tf = T0.dv.fFacetsDefined, bf = has_base ? B0.dv.fFacetsDefined : 0;
  verif_thrown = 0; NDEL = 0;

  AbstractNumericFacetValidator_inheritFacet();
  VERIF_CANARY("after call");

  /* ---- the facet set of the derived type (XSD Part 2 4.1.2.1, 4.3.7-4.3.10) ---- */
  const int own_upper = (tf & (F_MAXI | F_MAXE)) != 0, own_lower = (tf & (F_MINI | F_MINE)) != 0;
  const int inh_maxi = (bf & F_MAXI) && !own_upper, inh_maxe = (bf & F_MAXE) && !own_upper;
  const int inh_mini = (bf & F_MINI) && !own_lower, inh_mine = (bf & F_MINE) && !own_lower;
  const int inh_enum = (bf & F_ENUM) && !(tf & F_ENUM);
  if (inh_maxi && inh_mine && inh_enum) VERIF_CANARY("inheriting case reachable");
  if (has_base && (bf & F_MAXI) && (tf & F_MAXE)) VERIF_CANARY("own maxExclusive against base maxInclusive reachable");
  __CPROVER_assert(!verif_thrown, "C01: inheritFacet raises no exception");
  __CPROVER_assert(THISV.nv.fMaxInclusive == (inh_maxi ? B0.nv.fMaxInclusive : T0.nv.fMaxInclusive) && (THISV.nv.fMaxInclusiveInherited != 0) == inh_maxi,
                   "C09: maxInclusive of the base is inherited (and flagged inherited) iff the derived type specifies neither maxInclusive nor maxExclusive; otherwise the own value / absence stays");
  __CPROVER_assert(THISV.nv.fMaxExclusive == (inh_maxe ? B0.nv.fMaxExclusive : T0.nv.fMaxExclusive) && (THISV.nv.fMaxExclusiveInherited != 0) == inh_maxe,
                   "C09: maxExclusive of the base is inherited (and flagged inherited) iff the derived type specifies neither maxInclusive nor maxExclusive; otherwise the own value / absence stays");
  __CPROVER_assert(THISV.nv.fMinInclusive == (inh_mini ? B0.nv.fMinInclusive : T0.nv.fMinInclusive) && (THISV.nv.fMinInclusiveInherited != 0) == inh_mini,
                   "C09: minInclusive of the base is inherited (and flagged inherited) iff the derived type specifies neither minInclusive nor minExclusive; otherwise the own value / absence stays");
  __CPROVER_assert(THISV.nv.fMinExclusive == (inh_mine ? B0.nv.fMinExclusive : T0.nv.fMinExclusive) && (THISV.nv.fMinExclusiveInherited != 0) == inh_mine,
                   "C09: minExclusive of the base is inherited (and flagged inherited) iff the derived type specifies neither minInclusive nor minExclusive; otherwise the own value / absence stays");
  __CPROVER_assert(THISV.nv.fEnumeration == (inh_enum ? B0.nv.fEnumeration : T0.nv.fEnumeration) && (THISV.nv.fEnumerationInherited != 0) == inh_enum && THISV.nv.fStrEnumeration == T0.nv.fStrEnumeration,
                   "C09: the enumeration of the base is inherited (and flagged inherited) iff the derived type has none of its own");
  __CPROVER_assert(THISV.dv.fFacetsDefined == (tf | (inh_maxi ? F_MAXI : 0) | (inh_maxe ? F_MAXE : 0) | (inh_mini ? F_MINI : 0) | (inh_mine ? F_MINE : 0) | (inh_enum ? F_ENUM : 0)),
                   "C09: fFacetsDefined gains exactly the bits of the inherited facets");
  __CPROVER_assert(THISV.dv.fFixed == (T0.dv.fFixed | (has_base ? B0.dv.fFixed : 0)), "C09: the fixed flags of the base are or-ed into the derived type's");
  __CPROVER_assert(RI_NUMV(THISV), "C09: afterwards a value is present iff its facet bit is set, and the derived type still has at most one upper and one lower bound");
  __CPROVER_assert(THISV.dv.fBaseValidator == T0.dv.fBaseValidator, "C01: the base link is unchanged");
  /* frame: the base validator is not modified */
  __CPROVER_assert(BASEV.dv.fFacetsDefined == B0.dv.fFacetsDefined && BASEV.dv.fFixed == B0.dv.fFixed && BASEV.dv.fBaseValidator == B0.dv.fBaseValidator
                && BASEV.nv.fMaxInclusive == B0.nv.fMaxInclusive && BASEV.nv.fMaxExclusive == B0.nv.fMaxExclusive && BASEV.nv.fMinInclusive == B0.nv.fMinInclusive && BASEV.nv.fMinExclusive == B0.nv.fMinExclusive
                && BASEV.nv.fEnumeration == B0.nv.fEnumeration && BASEV.nv.fStrEnumeration == B0.nv.fStrEnumeration
                && BASEV.nv.fMaxInclusiveInherited == B0.nv.fMaxInclusiveInherited && BASEV.nv.fMaxExclusiveInherited == B0.nv.fMaxExclusiveInherited && BASEV.nv.fMinInclusiveInherited == B0.nv.fMinInclusiveInherited
                && BASEV.nv.fMinExclusiveInherited == B0.nv.fMinExclusiveInherited && BASEV.nv.fEnumerationInherited == B0.nv.fEnumerationInherited, "C09: the base validator is not modified");

  /* ---- ownership: the destructor of the derived validator releases its own values only, each once ---- */
  AbstractNumericFacetValidator_dtor();
  VERIF_CANARY("after destructor");
  __CPROVER_assert(!was_deleted(&B_MAXI) && !was_deleted(&B_MAXE) && !was_deleted(&B_MINI) && !was_deleted(&B_MINE) && !was_deleted(&B_ENUM) && !was_deleted(&B_STR),
                   "C01: the derived validator never deletes a value that belongs to its base (an inherited value is not deleted twice)");
  __CPROVER_assert(was_deleted(&T_MAXI) == ((tf & F_MAXI) != 0) && was_deleted(&T_MAXE) == ((tf & F_MAXE) != 0) && was_deleted(&T_MINI) == ((tf & F_MINI) != 0) && was_deleted(&T_MINE) == ((tf & F_MINE) != 0)
                && was_deleted(&T_ENUM) == ((tf & F_ENUM) != 0) && was_deleted(&T_STR) == ((tf & F_ENUM) != 0), "C01: every own value is released");
  __CPROVER_assert(NDEL == (unsigned)(((tf & F_MAXI) != 0) + ((tf & F_MAXE) != 0) + ((tf & F_MINI) != 0) + ((tf & F_MINE) != 0) + 2 * ((tf & F_ENUM) != 0)), "C01: ... exactly once");
}
