//@ unit cm_all
//@ props C08 C01
//@ kind W
//@ def quick NCH=4 NMOD=3 NALPHA=3
//@ def thorough NCH=5 NMOD=4 NALPHA=3
//@ cbmc quick --unwind 5 --unwinding-assertions
//@ cbmc thorough --unwind 6 --unwinding-assertions
//@ entry h_cm_all
//@ note W: AllContentModel::validateContent and validateContentSpecial: complete for every child sequence of length <= NCH (names = ids over NALPHA) against every xs:all group of <= NMOD distinct element particles, each required or optional, group itself optional or not (fHasOptionalContent), mixed or not
//@ note RI_all (from the constructor / buildChildList and XML Schema 1.0: members of an all group are distinct element declarations with maxOccurs 1): the names in fChildren are pairwise different, fNumRequired == number of entries with fChildOptional == false
//@ note call-site fact: no child is the #PCDATA pseudo name (every ElemStack::addChild call passes an element declaration's name); with such children the code would reject text-only content of an optional mixed group (childCount != 0 but no element seen) -- unreachable, recorded here only
//@ note manager->allocate hands out an end-aligned block of exactly the requested size (exact bounds for elementSeen); ArrayJanitor dropped; SubstitutionGroupComparator::isEquivalentTo = equal names or an arbitrary harness relation, under which a child may be equivalent to at most one member (else the attribution is ambiguous)
//@ note NOT in scope: AllContentModel constructor / buildChildList, ContentSpecNode trees, checkUniqueParticleAttribution, SchemaValidator, TraverseSchema
#define VERIF_DEFINE_GHOSTS
#include "verif_prelude.h"
#define NSG NMOD
//@ include cm_common.inc
//@ table src/xercesc/framework/XMLElementDecl.cpp fgPCDataElemId as XMLElementDecl_fgPCDataElemId
//@ struct src/xercesc/validators/common/AllContentModel.hpp AllContentModel only=auto structs=QName
typedef void GrammarResolver; typedef void XMLStringPool;
struct { QName a[NMOD]; } MOD; struct { QName *a[NMOD]; } MODP; struct { bool a[NMOD]; } MODOPT;
struct { bool a[NMOD]; } SEENBUF; int AM_BAD;
/* MemoryManager::allocate never returns null (it throws): an END-aligned block of exactly n bytes */
static void* AM_alloc(XMLSize_t n) { if (n > sizeof(SEENBUF.a)) { AM_BAD = 1; n = sizeof(SEENBUF.a); } return (char*)SEENBUF.a + (sizeof(SEENBUF.a) - n); }

/*@extract src/xercesc/validators/common/AllContentModel.cpp AllContentModel::validateContent
ret false
sub manager->allocate\( => AM_alloc(
sub const ArrayJanitor<bool> jan\(elementSeen, manager\); =>
sub ->getLocalPart\(\) => ->local
sub ->getURI\(\) => ->uri
sub XMLString::equals\( => ID_equals(
@*/

/*@extract src/xercesc/validators/common/AllContentModel.cpp AllContentModel::validateContentSpecial
ret false
sub manager->allocate\( => AM_alloc(
sub const ArrayJanitor<bool> jan\(elementSeen, manager\); =>
sub SubstitutionGroupComparator comparator\(pGrammarResolver, pStringPool\); =>
sub comparator\.isEquivalentTo\( => SG_isEquivalentTo(
sub ->getURI\(\) => ->uri
@*/

#define MODEL(j) (MOD.a[(NMOD - fCount) + (j)])
#define MODELOPT(j) (MODOPT.a[(NMOD - fCount) + (j)])
static int cm_all_match(const QName *c, XMLSize_t j, int special)
{ return special ? SG_isEquivalentTo(c, &MODEL(j)) : (c->uri == MODEL(j).uri && c->local == MODEL(j).local); }

void h_cm_all(void)
{
  XMLSize_t n, idx = 0x5A5A; _Bool special; bool res;
  VERIF_INPUT(CH); VERIF_INPUT(n); VERIF_INPUT(special); VERIF_INPUT(MOD); VERIF_INPUT(MODOPT); VERIF_INPUT(SGREL);
  VERIF_INPUT(fCount); VERIF_INPUT(fIsMixed); VERIF_INPUT(fHasOptionalContent);
  VERIF_ASSUME(n <= NCH && fCount <= NMOD);
  cm_setup_children(n, 0, 0);
  unsigned req = 0;
  for (int j = 0; j < NMOD; j++) {
    MODP.a[j] = &MOD.a[j]; MOD.a[j].pos = j;
    VERIF_ASSUME(MOD.a[j].uri < NALPHA && MOD.a[j].local >= 0 && MOD.a[j].local < NALPHA);
    for (int i = 0; i < NMOD; i++) if (i < j) VERIF_ASSUME(!(MOD.a[i].uri == MOD.a[j].uri && MOD.a[i].local == MOD.a[j].local));
    if ((XMLSize_t)j >= NMOD - fCount && !MODOPT.a[j]) req++;
  }
  fChildren = MODP.a + (NMOD - fCount); fChildOptional = MODOPT.a + (NMOD - fCount); fNumRequired = req;
  /* a child belongs to at most one member of the group (trivial for names; a restriction on the substitution-group relation) */
  if (special) for (XMLSize_t k = 0; k < NCH; k++) if (k < n) {
    int cnt = 0; for (XMLSize_t j = 0; j < NMOD; j++) if (j < fCount && cm_all_match(&CHILD(n, k), j, 1)) cnt++;
    VERIF_ASSUME(cnt <= 1);
  }
  verif_thrown = 0; AM_BAD = 0; VERIF_INPUT(SEENBUF);
  if (special) res = AllContentModel_validateContentSpecial(CHP.a + (NCH - n), n, 0, (GrammarResolver*)0, (XMLStringPool*)0, &idx, (MemoryManager*)0);
  else         res = AllContentModel_validateContent(CHP.a + (NCH - n), n, 0, &idx, (MemoryManager*)0);
  VERIF_CANARY("after call");
  /* reference (XML Schema Structures 3.8.4, all group, members with maxOccurs 1): the children are a permutation of a subset of
     the members that contains every required member; an all group with minOccurs = 0 may also be empty */
  int seen[NMOD]; for (int j = 0; j < NMOD; j++) seen[j] = 0;
  XMLSize_t bad = n;
  for (XMLSize_t k = 0; k < NCH; k++) if (k < n && bad == n) {
    int hit = 0;
    for (XMLSize_t j = 0; j < NMOD; j++) if (j < fCount && cm_all_match(&CHILD(n, k), j, special)) { hit = 1; if (seen[j]) bad = k; seen[j] = 1; }
    if (!hit) bad = k;
  }
  int missing = 0;
  for (XMLSize_t j = 0; j < NMOD; j++) if (j < fCount && !MODELOPT(j) && !seen[j]) missing = 1;
  int accept = (bad == n) && (!missing || (n == 0 && fHasOptionalContent));
  __CPROVER_assert(!verif_thrown && !AM_BAD, "C01: no exception, the scratch array is requested with fCount entries");
  __CPROVER_assert((res != 0) == (accept != 0), "C08: an all group accepts exactly the sequences in which every child is a member, no member occurs twice and every required member occurs (or nothing occurs and the group is optional)");
  if (!res) __CPROVER_assert(idx == bad, "C08: on failure *indexFailingChild is the first child that is no member or a repeated member (childCount if a required member is missing)");
}
