//@ unit elemstack_addLevel
//@ props C06 C01
//@ kind P
//@ enforce ElemStack_addLevel
//@ enforce ElemStack_addLevel_decl
//@ replace memcpy
//@ cbmc all --unsigned-overflow-check
//@ entry h_elemstack_addLevel
//@ note loop-free; stack capacity 4..2^40 ((XMLSize_t)(cap * 1.25) evaluated bit-precisely; it does not grow below 4: RI_stk, the constructor starts at 32); memcpy / memset are replaced by their C11 contracts stated at the ghost-selected slot; `new (fMemoryManager) StackElem` and allocate() hand out harness-prepared fresh objects, never fail
//@ note addLevel: the real body of expandStack is inlined in addLevel (replacing it by its contract would havoc the fStack pointer, which cbmc 6.11 cannot digest); expandStack's own contract is enforced separately in this unit
//@ note popTop exposes the previous bindings again: it only decrements fStackTop (frame), so the rows below are what addLevel left
#define VERIF_DEFINE_GHOSTS
#include "verif_prelude.h"
#include <stdlib.h>
//@ include ElemStack_ri.inc

/*@extract src/xercesc/internal/ElemStack.cpp ElemStack::expandStack
sub fMemoryManager->allocate => verif_alloc
sub fMemoryManager->deallocate => verif_free
contract
CONTRACT_expandStack
@*/
/* second copy of the same body without a contract: inlined into addLevel */
/*@extract src/xercesc/internal/ElemStack.cpp ElemStack::expandStack
as ElemStack_expandStack_body
sub fMemoryManager->allocate => verif_alloc
sub fMemoryManager->deallocate => verif_free
@*/
/*@extract src/xercesc/internal/ElemStack.cpp ElemStack::addLevel
pick 1
call expandStack => ElemStack_expandStack_body
sub new \(fMemoryManager\) StackElem => verif_new_row()
contract
ADDLEVEL_REQUIRES
__CPROVER_assigns(ADDLEVEL_FRAME)
ADDLEVEL_ENSURES
__CPROVER_ensures(NEWTOP->fThisElement == 0)
@*/
/*@extract src/xercesc/internal/ElemStack.cpp ElemStack::addLevel
pick 2
as ElemStack_addLevel_decl
call expandStack => ElemStack_expandStack_body
sub new \(fMemoryManager\) StackElem => verif_new_row()
contract
ADDLEVEL_REQUIRES
__CPROVER_assigns(ADDLEVEL_FRAME)
ADDLEVEL_ENSURES
__CPROVER_ensures(NEWTOP->fThisElement == toSet && NEWTOP->fReaderNum == readerNum)
@*/
/*@extract src/xercesc/internal/ElemStack.cpp ElemStack::popTop
contract
__CPROVER_requires(STACK_OK && !verif_thrown)
__CPROVER_assigns(fStackTop, verif_thrown, verif_throw_type, verif_throw_code)
__CPROVER_ensures(__CPROVER_old(fStackTop) == 0 ==> (verif_thrown && verif_throw_type == VT_EmptyStackException && fStackTop == 0))
__CPROVER_ensures(__CPROVER_old(fStackTop) != 0 ==> (!verif_thrown && fStackTop == __CPROVER_old(fStackTop) - 1 && __CPROVER_return_value == fStack[fStackTop]))
@*/

struct StackElem ROW_OLD, ROW_NEW;
void h_elemstack_addLevel(void)
{
  int op; _Bool recycled; XMLSize_t rd;
  VERIF_INPUT(SELF); VERIF_INPUT(ROW_OLD); VERIF_INPUT(ROW_NEW); VERIF_INPUT(GW); VERIF_INPUT(GZ); VERIF_INPUT(NEXTSIZE); VERIF_INPUT(op); VERIF_INPUT(recycled); VERIF_INPUT(rd);
  VERIF_ASSUME(fStackCapacity >= 4 && fStackCapacity <= VERIF_STK_MAX && fStackTop <= fStackCapacity);
  fStack = malloc(fStackCapacity * sizeof(struct StackElem *));
  NEXTBUF = malloc(NEXTSIZE); NEXTUSED = 0;
  VERIF_ASSUME(fStack != 0 && NEXTBUF != 0);
  NEXTROW = &ROW_NEW; NEXTROW_USED = 0;
  ROW_OLD.fMap = 0; ROW_OLD.fChildren = 0;
  /* slot fStackTop holds a row left by an earlier, popped level -- or null */
  if (fStackTop < fStackCapacity) fStack[fStackTop] = recycled ? &ROW_OLD : 0;
  NEWTOP = (fStackTop < fStackCapacity && recycled) ? &ROW_OLD : &ROW_NEW;
  verif_thrown = 0;
  GZ = fStackTop;
  if (op == 1) ElemStack_addLevel();
  else ElemStack_addLevel_decl((void *)&ROW_OLD, rd);
  VERIF_CANARY("after call");
}
