//@ unit str_copy
//@ props C01
//@ kind P
//@ def quick STRN=6
//@ def thorough STRN=12
//@ enforce XMLString_copyString
//@ enforce XMLString_catString
//@ enforce XMLString_subString6
//@ replace XMLString_stringLen
//@ entry h_str_copy
//@ note P: iterations unbounded through loop contracts; string buffers bounded by -DSTRN; target buffers are handed END-aligned with exactly the documented room (copyString/catString: length of the result + 1; subString: endIndex-startIndex+1), so one element too many leaves the object
//@ note stringLen is replaced by the contract proved in unit str_len; the harness is loop-free, each enforced function is called once
//@ note preconditions taken from XMLString.hpp: source and target do not overlap
#define VERIF_DEFINE_GHOSTS
#include "verif_prelude.h"
//@ include str_common.inc
const XMLCh *SL_BASE;            /* ghost: start of the string stringLen is asked about */
#define SL_LEN LEN1

/*@extract src/xercesc/util/XMLString.hpp XMLString::stringLen
params const XMLCh* const src
declonly
contract
//@ include str_stringLen.contract.inc
@*/

/*@extract src/xercesc/util/XMLString.cpp XMLString::copyString
params XMLCh* const target, const XMLCh* const src
contract
__CPROVER_requires(G < STRN && LEN1 < STRN)
__CPROVER_requires(src == 0 || (STR_IS(src, LEN1) && !__CPROVER_same_object(src, target)))
__CPROVER_requires(__CPROVER_w_ok(target, ((src != 0) ? LEN1 + 1 : 1) * sizeof(XMLCh)))
__CPROVER_assigns(__CPROVER_object_upto(target, (IFZ(src != 0, LEN1) + 1) * sizeof(XMLCh)))
__CPROVER_ensures(src == 0 ==> target[0] == 0)
__CPROVER_ensures(src != 0 ==> target[LEN1] == 0)
__CPROVER_ensures((src != 0 && G < LEN1) ==> target[CL(G, LEN1)] == src[CL(G, LEN1)])
loop 1
__CPROVER_assigns(pszIn, pszOut, __CPROVER_object_upto(target, (LEN1 + 1) * sizeof(XMLCh)))
__CPROVER_loop_invariant(PTR_IN(pszIn, src, LEN1) && PTR_IN(pszOut, target, LEN1) && PIDX(pszIn, src) == PIDX(pszOut, target))
__CPROVER_loop_invariant((G < PIDX(pszIn, src)) ==> target[CL(G, LEN1)] == src[CL(G, LEN1)])
__CPROVER_decreases(LEN1 - PIDX(pszIn, src))
@*/

/*@extract src/xercesc/util/XMLString.cpp XMLString::catString
params XMLCh* const target, const XMLCh* const src
call stringLen => XMLString_stringLen
contract
__CPROVER_requires(G < STRN && LEN1 < STRN && LEN2 < STRN)
__CPROVER_requires(STR_IS(target, LEN1) && STR_IS(src, LEN2) && !__CPROVER_same_object(src, target))
__CPROVER_requires(__CPROVER_w_ok(target, (LEN1 + LEN2 + 1) * sizeof(XMLCh)))
__CPROVER_assigns(__CPROVER_object_upto(target, (LEN1 + LEN2 + 1) * sizeof(XMLCh)))
__CPROVER_ensures(target[LEN1 + LEN2] == 0)
__CPROVER_ensures((G < LEN1) ==> target[CL(G, LEN1)] == __CPROVER_old(target[CL(G, LEN1)]))
__CPROVER_ensures((G < LEN2) ==> target[LEN1 + CL(G, LEN2)] == src[CL(G, LEN2)])
loop 1
__CPROVER_assigns(pszTmp, index, __CPROVER_object_upto(target, (LEN1 + LEN2 + 1) * sizeof(XMLCh)))
__CPROVER_loop_invariant(PTR_IN(pszTmp, src, LEN2) && index == LEN1 + PIDX(pszTmp, src))
__CPROVER_loop_invariant((G < LEN1) ==> target[CL(G, LEN1)] == __CPROVER_loop_entry(target[CL(G, LEN1)]))
__CPROVER_loop_invariant((G < PIDX(pszTmp, src)) ==> target[LEN1 + CL(G, LEN2)] == src[CL(G, LEN2)])
__CPROVER_decreases(LEN2 - PIDX(pszTmp, src))
@*/


#define SUB_VALID (startIndex <= endIndex && endIndex <= srcStrLength)
/*@extract src/xercesc/util/XMLString.cpp XMLString::subString
as XMLString_subString6
params XMLCh* const targetStr, const XMLCh* const srcStr , const XMLSize_t startIndex, const XMLSize_t endIndex , const XMLSize_t srcStrLength
contract
//@ include str_subString6.contract.inc
loop 1
__CPROVER_assigns(i, __CPROVER_object_upto(targetStr, (endIndex - startIndex + 1) * sizeof(XMLCh)))
__CPROVER_loop_invariant(startIndex <= i && i <= endIndex)
__CPROVER_loop_invariant((G < i - startIndex) ==> targetStr[CL(G, srcStrLength)] == srcStr[CL(startIndex + G, srcStrLength)])
__CPROVER_decreases(endIndex - i)
@*/


struct { XMLCh a[STRN]; } S1, S2, T1;
struct { XMLCh a[2 * STRN - 1]; } T2;
void h_str_copy(void)
{
  XMLSize_t l1, l2, si, ei; _Bool isnull, tnull;
  VERIF_INPUT(S1); VERIF_INPUT(S2); VERIF_INPUT(T1); VERIF_INPUT(T2); VERIF_INPUT(G);
  VERIF_INPUT(l1); VERIF_INPUT(l2); VERIF_INPUT(si); VERIF_INPUT(ei); VERIF_INPUT(isnull); VERIF_INPUT(tnull);
  VERIF_ASSUME(l1 < STRN && l2 < STRN);
  /* every buffer END-aligned */
  XMLCh *s1 = S1.a + (STRN - (l1 + 1));
  XMLCh *s2 = S2.a + (STRN - (l2 + 1));
  verif_thrown = 0;

  LEN1 = l1;
  XMLString_copyString(T1.a + (STRN - (isnull ? 1 : l1 + 1)), isnull ? (const XMLCh *)0 : s1);
  VERIF_CANARY("after copyString");
  if (isnull) VERIF_CANARY("copyString: null source case reachable");

  /* catString: T2 holds a string of length l1 in a buffer with room for l1 + l2 + 1 */
  LEN1 = l1; LEN2 = l2;
  XMLString_catString(T2.a + (2 * STRN - 1 - (l1 + l2 + 1)), s2);
  VERIF_CANARY("after catString");

  XMLSize_t room = (si <= ei && ei <= l2) ? ei - si + 1 : 0;
  verif_thrown = 0;
  XMLString_subString6(tnull ? (XMLCh *)0 : T1.a + (STRN - room), s2, si, ei, l2, (MemoryManager *)0);
  VERIF_CANARY("after subString6");
  if (!tnull && room == 0) VERIF_CANARY("subString6: bad indices case reachable");
  if (tnull) VERIF_CANARY("subString6: null target case reachable");

}
