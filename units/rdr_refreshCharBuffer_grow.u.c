//@ unit rdr_refreshCharBuffer_grow
//@ props C04 C01
//@ kind P
//@ def quick kCharBufSize=6 kRawBufSize=4
//@ def thorough kCharBufSize=12 kRawBufSize=4
//@ rebind src/xercesc/internal/XMLReader.hpp kCharBufSize
//@ rebind src/xercesc/internal/XMLReader.hpp kRawBufSize
//@ enforce XMLReader_refreshCharBuffer
//@ replace XMLReader_xcodeMoreChars
//@ replace XMLTransService_makeNewTranscoderFor
//@ entry h_refreshCharBuffer_grow
//@ note companion of rdr_refreshCharBuffer: proves the two extra refill postconditions of contracts/XMLReader_ri2.inc (window never shrinks on success, without the ghost guard; end-of-data leaves fNoMore set) that the string look-ahead units assume
//@ note makeNewTranscoderFor is contract-only (may return NULL or any object; writes *failReason); xcodeMoreChars is replaced by the contract proved in unit rdr_xcodeMoreChars (same text: contracts/XMLReader_xcodeMoreChars.contract.inc)
#define VERIF_DEFINE_GHOSTS
#include "verif_prelude.h"
//@ enum src/xercesc/framework/XMLRecognizer.hpp Encodings XMLRecognizer_
//@ enum src/xercesc/internal/XMLReader.hpp Types - scope=XMLReader
//@ enum src/xercesc/internal/XMLReader.hpp Sources - scope=XMLReader
//@ enum src/xercesc/internal/XMLReader.hpp RefFrom - scope=XMLReader
//@ enum src/xercesc/internal/XMLReader.hpp XMLVersion - scope=XMLReader
//@ struct src/xercesc/internal/XMLReader.hpp XMLReader only=auto enums=XMLRecognizer_Encodings,RefFrom,Sources,Types,XMLVersion

XMLSize_t GR, STREAM_R, XC_SEQ, XC_SRCOFS, XC_SRCCOUNT, XC_EATEN, XC_RET;   /* ghosts of the xcodeMoreChars contract */
typedef int XMLTransService_Codes;
//@ opaque XMLTranscoder

/*@extract src/xercesc/util/TransService.cpp XMLTransService::makeNewTranscoderFor
params const XMLCh* const
declonly
contract
__CPROVER_requires(__CPROVER_w_ok(resValue_p, sizeof(*resValue_p)))
__CPROVER_assigns(*resValue_p)
__CPROVER_ensures(1)
@*/

/*@extract src/xercesc/internal/XMLReader.cpp XMLReader::xcodeMoreChars
declonly
contract
//@ include XMLReader_xcodeMoreChars.contract.inc
@*/

/*@extract src/xercesc/internal/XMLReader.cpp XMLReader::refreshCharBuffer
ret false
call xcodeMoreChars => XMLReader_xcodeMoreChars
throws XMLReader_xcodeMoreChars
sub XMLPlatformUtils::fgTransService->makeNewTranscoderFor => XMLTransService_makeNewTranscoderFor
contract
__CPROVER_requires(fCharIndex <= fCharsAvail && fCharsAvail <= kCharBufSize && !verif_thrown)
__CPROVER_requires(fNoMore ==> fCharIndex == fCharsAvail)
__CPROVER_requires(fRawBufIndex <= fRawBytesAvail && fRawBytesAvail <= kRawBufSize && GR < kRawBufSize)
__CPROVER_assigns(SELF, STREAM_R, XC_SEQ, XC_SRCOFS, XC_SRCCOUNT, XC_EATEN, XC_RET, verif_thrown, verif_throw_type, verif_throw_code)
__CPROVER_ensures(fNoMore ==> fCharIndex == fCharsAvail)
__CPROVER_ensures(fCharIndex <= fCharsAvail && fCharsAvail <= kCharBufSize)
__CPROVER_ensures(fRawBufIndex <= fRawBytesAvail && fRawBytesAvail <= kRawBufSize)
/* (+1) a successful refill never shrinks the window of unread characters */
__CPROVER_ensures((!verif_thrown && __CPROVER_return_value) ==> fCharsAvail - fCharIndex >= __CPROVER_old(fCharsAvail) - __CPROVER_old(fCharIndex))
/* (+2) a refill that reports end-of-data leaves fNoMore set */
__CPROVER_ensures((!verif_thrown && !__CPROVER_return_value) ==> fNoMore)
loop 1
__CPROVER_assigns(startInd, fSrcOfsBase)
__CPROVER_loop_invariant(startInd <= fCharIndex)
__CPROVER_decreases(fCharIndex - startInd)
loop 2
__CPROVER_assigns(index, startInd, __CPROVER_object_upto(fCharBuf, sizeof(fCharBuf)), __CPROVER_object_upto(fCharSizeBuf, sizeof(fCharSizeBuf)))
__CPROVER_loop_invariant(fCharIndex <= index && index <= fCharsAvail && startInd == index - fCharIndex)
__CPROVER_decreases(fCharsAvail - index)
loop 3
__CPROVER_assigns(index, last, __CPROVER_object_upto(fCharOfsBuf, sizeof(fCharOfsBuf)))
__CPROVER_loop_invariant(1 <= index && (index <= fCharsAvail || fCharsAvail == 0))
__CPROVER_decreases(kCharBufSize + 1 - index)
@*/

void h_refreshCharBuffer_grow(void)
{
  VERIF_INPUT(SELF);
  verif_thrown = 0;
  XMLReader_refreshCharBuffer();
  VERIF_CANARY("after call");
}
