//@ unit bigdec_parse
//@ props C09 C01
//@ kind W
//@ def quick NB=6
//@ def thorough NB=9
//@ cbmc all --unwind 12 --unwinding-assertions
//@ entry h_bigdec_parse
//@ note W: complete for every NUL-terminated XMLCh string of length <= NB (quick 6, thorough 9); loops fully unwound, unwinding assertions on. retBuffer has length+1 elements (the caller setDecimalValue() gives it length+3); buffers end-aligned.
//@ note XMLChar1_0::isWhitespace is replaced by the XML 1.0 production S; the table behind the real predicate is proved in the chartab units
//@ note lexical space: XML Schema Part 2 3.2.3.1 decimal = (+|-)?([0-9]+(\.[0-9]*)?|\.[0-9]+) after trimming of S -- at least one digit. Value space / facets (4.3.11 totalDigits, 4.3.12 fractionDigits, erratum E2-44): with leading integer zeros and trailing fraction zeros removed, fractionDigits = number of fraction digits, totalDigits = integer digits + fraction digits; every lexical zero has sign 0 and no digits.
#define VERIF_DEFINE_GHOSTS
#include "verif_prelude.h"
#include "xsd_lexical.h"

/*@extract src/xercesc/util/XMLString.hpp XMLString::stringLen
params const XMLCh* const src
@*/
/*@extract src/xercesc/util/XMLBigDecimal.cpp XMLBigDecimal::parseDecimal
pick 1
sub XMLChar1_0::isWhitespace => SPEC_IS_XMLWS
@*/
/*@extract src/xercesc/util/XMLBigDecimal.cpp XMLBigDecimal::parseDecimal
as XMLBigDecimal_parseDecimal_check
pick 2
sub XMLChar1_0::isWhitespace => SPEC_IS_XMLWS
@*/

struct { XMLCh a[NB + 1]; } IN, OUT;

void h_bigdec_parse(void)
{
  XMLSize_t n;
  int sign = 7, total = -7, fract = -7;
  VERIF_INPUT(IN); VERIF_INPUT(OUT); VERIF_INPUT(n);
  VERIF_ASSUME(n <= NB);
  XMLCh *s = IN.a + (NB - n);
  XMLCh *out = OUT.a + (NB - n);
  VERIF_ASSUME(s[n] == 0);
  for (XMLSize_t i = 0; i < n; i++) VERIF_ASSUME(s[i] != 0);
  verif_thrown = 0;
  XMLBigDecimal_parseDecimal(s, out, &sign, &total, &fract, 0);
  int thrown1 = verif_thrown;
  verif_thrown = 0;
  XMLBigDecimal_parseDecimal_check(s, 0);          /* the validating-only overload used by DecimalDatatypeValidator */
  int thrown2 = verif_thrown;
  VERIF_CANARY("after call");
  int neg; uint16_t ip[NB + 1], fp[NB + 1]; size_t ni, nf;
  int ok = spec_parse_decimal(s, n, 1, &neg, ip, &ni, fp, &nf);
  if (!ok) {
    __CPROVER_assert(thrown1, "C09: parseDecimal rejects everything outside the decimal lexical space");
    __CPROVER_assert(thrown2, "C09: parseDecimal (checking overload) rejects everything outside the decimal lexical space");
  } else {
    __CPROVER_assert(!thrown1 && !thrown2, "C09: parseDecimal accepts the decimal lexical space (both overloads)");
    __CPROVER_assert(sign == ((ni == 0 && nf == 0) ? 0 : (neg ? -1 : 1)), "C09: parseDecimal: sign of the value; every lexical zero has sign 0");
    __CPROVER_assert(fract == (int)nf, "C09: parseDecimal: scale = number of fraction digits without trailing zeros");
    __CPROVER_assert(total == (int)(ni + nf), "C09: parseDecimal: totalDigits = integer digits without leading zeros + fraction digits");
    for (size_t k = 0; k < ni; k++) __CPROVER_assert(out[k] == ip[k], "C09: parseDecimal: value digits, integer part");
    for (size_t k = 0; k < nf; k++) __CPROVER_assert(out[ni + k] == fp[k], "C09: parseDecimal: value digits, fraction part");
    __CPROVER_assert(out[ni + nf] == 0, "C09: parseDecimal: value is terminated (empty for zero)");
  }
}
