//@ unit str_lastindex2
//@ props C01
//@ kind L
//@ def quick STRN=6
//@ def thorough STRN=12
//@ enforce XMLString_lastIndexOf2
//@ replace XMLString_stringLen
//@ replace XMLString_lastIndexOf3
//@ entry h_str_lastindex2
//@ note L: loop-free caller; stringLen and lastIndexOf(ch, s, len) are replaced by the contracts proved in str_len / str_index
//@ note precondition non-null: lastIndexOf(0, ch) would call lastIndexOf(ch, 0, 0), whose loop dereferences the pointer (no caller passes null)
#define VERIF_DEFINE_GHOSTS
#include "verif_prelude.h"
//@ include str_common.inc
#define SL_LEN LEN1

/*@extract src/xercesc/util/XMLString.hpp XMLString::stringLen
params const XMLCh* const src
declonly
contract
//@ include str_stringLen.contract.inc
@*/

/*@extract src/xercesc/util/XMLString.cpp XMLString::lastIndexOf
as XMLString_lastIndexOf3
params const XMLCh ch, const XMLCh* const toSearch, const XMLSize_t toSearchLen
declonly
contract
//@ include str_lastIndexOf3.contract.inc
@*/

/*@extract src/xercesc/util/XMLString.hpp XMLString::lastIndexOf
as XMLString_lastIndexOf2
params const XMLCh* const toSearch, const XMLCh ch
sub XMLString::lastIndexOf\( => XMLString_lastIndexOf3(
call stringLen => XMLString_stringLen
contract
__CPROVER_requires(G < STRN && LEN1 < STRN)
__CPROVER_requires(STR_IS(toSearch, LEN1))
__CPROVER_assigns()
__CPROVER_ensures(__CPROVER_return_value >= -1 && __CPROVER_return_value <= (int)LEN1)
__CPROVER_ensures(__CPROVER_return_value >= 0 ==> toSearch[CL((XMLSize_t)__CPROVER_return_value, LEN1)] == ch)
__CPROVER_ensures((G <= LEN1 && (XMLSSize_t)G > (XMLSSize_t)__CPROVER_return_value) ==> toSearch[CL(G, LEN1)] != ch)
@*/

struct { XMLCh a[STRN]; } S1;
void h_str_lastindex2(void)
{
  XMLSize_t l1; XMLCh ch;
  VERIF_INPUT(S1); VERIF_INPUT(G); VERIF_INPUT(l1); VERIF_INPUT(ch);
  VERIF_ASSUME(l1 < STRN);
  LEN1 = l1;
  verif_thrown = 0;
  int r = XMLString_lastIndexOf2(S1.a + (STRN - (l1 + 1)), ch);
  VERIF_CANARY("after lastIndexOf2");
  if (r > 0 && r + 1 < (int)l1) VERIF_CANARY("lastIndexOf2: found in the middle reachable");
}
