//@ unit nsmap_ig_dtddefault_w
//@ props C06 C07
//@ kind W
//@ def quick NATT=3
//@ def thorough NATT=5
//@ cbmc all --unwind 7 --unwinding-assertions
//@ entry h_dtddefault
//@ note fragment of IGXMLScanner::scanStartTagNS (namespace declarations that come from the DTD: attribute definitions named xmlns / xmlns:* with a default value are entered into the element's prefix map before the element's name is resolved), verified as a function of its own: complete for <= NATT attribute definitions over all name kinds (xmlns, xmlns:p, xmlnsx, p:a, a) and every default type
//@ note spec (XML 1.0 3.3.2: both a plain default and a #FIXED default supply the attribute when it is absent; Namespaces in XML 3: such an attribute is a declaration like any other): exactly the xmlns / xmlns:* definitions of default type Default or Fixed update the map, with their own name and default value, in declaration order; #IMPLIED / #REQUIRED ones supply nothing
//@ note trusted stubs: names are kinds (contracts/nsmap_prepass_harness.inc conventions); the attribute definition list is an array; updateNSMap(name, value) is a recording sink (unit nsmap_ig_l proves it)
#define VERIF_DEFINE_GHOSTS
#include "verif_prelude.h"
//@ enum src/xercesc/framework/XMLAttDef.hpp DefAttTypes XMLAttDef_ scope=XMLAttDef
enum { KK_XMLNS = 1, KK_XMLNSC = 2, KK_XMLNSX = 3, KK_PA = 4, KK_A = 5, KK_XMLNSX_C = 6 };
typedef struct XMLAttDef { int defType; int name; int value; } XMLAttDef;
typedef struct XMLAttDefList { XMLAttDef a[NATT]; XMLSize_t n; } XMLAttDefList;
typedef struct XMLElementDecl { XMLAttDefList list; } XMLElementDecl;
typedef int XMLAttDef_DefAttTypes;
XMLElementDecl DECL;
struct { int key[NATT], value[NATT]; } CALLS; int NCALLS;
static bool ED_hasAttDefs(XMLElementDecl *e) { return e->list.n != 0; }
static XMLAttDefList* ED_getAttDefList(XMLElementDecl *e) { return &e->list; }
static XMLSize_t DL_getAttDefCount(XMLAttDefList *l) { return l->n; }
static const XMLAttDef* DL_getAttDef(XMLAttDefList *l, XMLSize_t i) { __CPROVER_assert(i < l->n && i < NATT, "C01: attribute definition index in range"); return &l->a[i < NATT ? i : 0]; }
static int ST_cmpN_xmlnsColon(int k, XMLSize_t n) { if (n == 6) return k == KK_XMLNSC ? 0 : 1; if (n == 5) return (k == KK_XMLNS || k == KK_XMLNSC || k == KK_XMLNSX || k == KK_XMLNSX_C) ? 0 : 1; return n == 0 ? 0 : 1; }
static void SC_updateNSMap(int key, int value) { if (NCALLS < NATT) { CALLS.key[NCALLS] = key; CALLS.value[NCALLS] = value; } NCALLS++; }

/*@extract src/xercesc/internal/IGXMLScanner.cpp IGXMLScanner::scanStartTagNS
as SC_dtd_default_ns
fragment if \(elemDecl->hasAttDefs\(\)\) ||| @balanced
sig void SC_dtd_default_ns(XMLElementDecl *elemDecl)
sub* elemDecl->hasAttDefs\(\) => ED_hasAttDefs(elemDecl)
sub* XMLAttDefList&\s*attDefList\s*=\s*elemDecl->getAttDefList\(\); => XMLAttDefList *attDefList_p = ED_getAttDefList(elemDecl);
sub* attDefList\.getAttDefCount\(\) => DL_getAttDefCount(attDefList_p)
sub* const XMLAttDef&\s*curDef\s*=\s*attDefList\.getAttDef\((\w+)\); => const XMLAttDef *curDef_p = DL_getAttDef(attDefList_p, \1);
sub* const XMLAttDef::DefAttTypes\s+defType => const int defType
sub* curDef\.getDefaultType\(\) => curDef_p->defType
sub* curDef\.getFullName\(\) => curDef_p->name
sub* curDef\.getValue\(\) => curDef_p->value
sub* const XMLCh\*\s+rawPtr\s*= => int rawPtr =
sub* XMLString::compareNString\((\w+), XMLUni::fgXMLNSColonString, (\w+)\) => ST_cmpN_xmlnsColon(\1, \2)
sub* XMLString::equals\((\w+), XMLUni::fgXMLNSString\) => ((\1) == KK_XMLNS)
sub* updateNSMap\( => SC_updateNSMap(
sub* XMLAttDef::(\w+) => XMLAttDef_\1
@*/

void h_dtddefault(void)
{
  VERIF_INPUT(DECL); VERIF_INPUT(CALLS);
  VERIF_ASSUME(DECL.list.n <= NATT);
  for (int i = 0; i < NATT; i++) {
    VERIF_ASSUME(DECL.list.a[i].name >= KK_XMLNS && DECL.list.a[i].name <= KK_XMLNSX_C);
    VERIF_ASSUME(DECL.list.a[i].defType >= XMLAttDef_Default && DECL.list.a[i].defType <= XMLAttDef_Implied);   /* what a DTD can declare */
    VERIF_ASSUME(DECL.list.a[i].value >= 1 && DECL.list.a[i].value <= 1000);
  }
  NCALLS = 0; verif_thrown = 0;
  SC_dtd_default_ns(&DECL);
  VERIF_CANARY("after fragment");
  int nd = 0;
  for (int i = 0; i < NATT; i++) if ((XMLSize_t)i < DECL.list.n) {
    const XMLAttDef *d = &DECL.list.a[i];
    int isdecl = (d->name == KK_XMLNS || d->name == KK_XMLNSC);
    int supplies = (d->defType == XMLAttDef_Default || d->defType == XMLAttDef_Fixed);   /* a default value exists (3.3.2) */
    if (isdecl && supplies) {
      if (nd < NATT) { __CPROVER_assert(NCALLS > nd && CALLS.key[nd] == d->name && CALLS.value[nd] == d->value, "C06: a namespace declaration supplied by a DTD default (plain or #FIXED) is entered into the prefix map with its own name and value, in declaration order"); }
      nd++;
    }
  }
  __CPROVER_assert(NCALLS == nd, "C06: nothing else is taken for a namespace declaration (no default value, or a name that is not xmlns / xmlns:*)");
}
