//@ unit rdr_getNextChar
//@ props C03 C04 C01
//@ kind L
//@ def all kCharBufSize=4
//@ rebind src/xercesc/internal/XMLReader.hpp kCharBufSize
//@ enforce XMLReader_getNextChar
//@ replace XMLReader_refreshCharBuffer
//@ entry h_getNextChar
//@ note spec/eol.h is written from XML 1.0 5th ed. 2.11 and XML 1.1 2nd ed. 2.11; its parameter r11 ("the 1.1 rule set applies") is instantiated with fNEL, which xerces also sets for 1.0 documents under the non-standard enableNELWS option
//@ note refreshCharBuffer is replaced by the contract proved in unit rdr_refreshCharBuffer; the calls go through the ghost shim of contracts/XMLReader_refill_obs.inc, which records what each refill returned and delivered
//@ note handleEOL is NOT replaced by a contract: its real body is extracted and verified in place
//@ note line/column: the recommendations define none; SPEC_EOL_LINE / SPEC_EOL_COL (DESIGN C03: every character that does not end a line advances the column by one) are the oracle
#define VERIF_DEFINE_GHOSTS
#include "verif_prelude.h"
#include "eol.h"
//@ enum src/xercesc/internal/XMLReader.hpp Sources - scope=XMLReader
//@ enum src/xercesc/internal/XMLReader.hpp XMLVersion - scope=XMLReader
//@ struct src/xercesc/internal/XMLReader.hpp XMLReader only=auto enums=Sources,XMLVersion
//@ include XMLReader_ri.inc
//@ include XMLReader_refill_obs.inc
#define EXT (fSource == Source_External)

/* the sub rule turns `a || f()` into the equivalent `a ? 1 : f()`: goto-instrument 6.11 aborts ("no definite size for lvalue target
   tmp_if_expr") on the bool temporary of a side-effecting || inside a function that is inlined into the enforced one */
/*@extract src/xercesc/internal/XMLReader.cpp XMLReader::handleEOL
sub \(fCharIndex < fCharsAvail\) \|\| refreshCharBuffer\(\) => (fCharIndex < fCharsAvail) ? 1 : refreshCharBuffer()
call refreshCharBuffer => XMLReader_refreshCharBuffer_obs
throws XMLReader_refreshCharBuffer_obs
@*/

/*@extract src/xercesc/internal/XMLReader.hpp XMLReader::getNextChar
ret false
call refreshCharBuffer => XMLReader_refreshCharBuffer_obs
call handleEOL => XMLReader_handleEOL
throws XMLReader_refreshCharBuffer_obs XMLReader_handleEOL
contract
//@ include XMLReader_take1.contract.inc
//@ include XMLReader_nextchar.contract.inc
/* getNextChar: a character is taken iff there is one */
__CPROVER_ensures(!verif_thrown ==> __CPROVER_return_value == GOT0)
__CPROVER_ensures((!verif_thrown && !__CPROVER_return_value) ==> fCharIndex == fCharsAvail)
@*/

XMLCh CH;
void h_getNextChar(void)
{
  VERIF_INPUT(SELF);
  VERIF_INPUT(CH);
  verif_thrown = 0; RF_N = 0;
  XMLReader_getNextChar(&CH);
  VERIF_CANARY("after call");
}
