//@ unit xmlchar_qnames_11
//@ entry h_xmlchar_qnames_11
//@ props C02 C01
//@ kind W
//@ def quick N=4
//@ def thorough N=7
//@ cbmc quick --unwind 6
//@ cbmc thorough --unwind 9
//@ cbmc all --unwinding-assertions --arrays-uf-always
//@ note W: complete for every UTF-16 string of length <= N followed by a NUL (every call site passes a NUL-terminated string with count = its length; XMLChar1_1::isValidQName needs the NUL because it looks for the colon with XMLString::indexOf); loops fully unwound, unwinding assertions on
//@ note the 64K class table is ARBITRARY here, constrained only at the characters of the input string by the statements of unit chartab_11 (name / NCName / S bits <=> the productions); the S statement FAILS there for U+0085 and U+2028 (finding xml11_nel_is_whitespace), so isAllSpaces / containsWhiteSpace are proved here modulo that finding
//@ note obligations are split into "strings not ending in a lead surrogate" and "strings ending in an unpaired lead surrogate" so that a defect on the latter does not mask the former
//@ note oracle: a surrogate pair D800..DB7F + DC00..DFFF encodes #x10000-#xEFFFF, which [4]/[4a] admit; any other use of a surrogate code unit (lone, reversed, lead DB80..DBFF) is in no production
#define VERIF_DEFINE_GHOSTS
#include "verif_prelude.h"
#include "xmlchars.h"
//@ include XMLChar_names_11.inc


void h_xmlchar_qnames_11(void)
{
  NAMES11_INPUT;
  _Bool r_ncname = XMLChar1_1_isValidNCName(s, n);
  _Bool r_qname = XMLChar1_1_isValidQName(s, n);
  VERIF_CANARY("after call");
  _Bool ends_lead = n > 0 && s[n - 1] >= 0xD800 && s[n - 1] <= 0xDBFF;
  if (!ends_lead) __CPROVER_assert(r_ncname == spec_xml_is_name(s, n, 1), "C02: XMLChar1_1::isValidNCName <=> NCName (strings not ending in a lead surrogate)");
  if (ends_lead) __CPROVER_assert(r_ncname == spec_xml_is_name(s, n, 1), "C02: XMLChar1_1::isValidNCName <=> NCName (strings ending in an unpaired lead surrogate)");
  _Bool part_ends_lead = ends_lead;   /* prefix or local part ends in a lead surrogate */
  for (XMLSize_t i = 0; i + 1 < n; i++)
    if (s[i] >= 0xD800 && s[i] <= 0xDBFF && s[i + 1] == ':') part_ends_lead = 1;
  if (!part_ends_lead) __CPROVER_assert(r_qname == spec_xml_is_qname(s, n), "C02: XMLChar1_1::isValidQName <=> QName (neither part ends in a lead surrogate)");
  if (part_ends_lead) __CPROVER_assert(r_qname == spec_xml_is_qname(s, n), "C02: XMLChar1_1::isValidQName <=> QName (prefix or local part ending in an unpaired lead surrogate)");
}
