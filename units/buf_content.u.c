//@ unit buf_content
//@ props C01
//@ kind W
//@ def quick MAXCAP=4
//@ def thorough MAXCAP=8
//@ cbmc quick --unwind 10
//@ cbmc thorough --unwind 18
//@ cbmc all --unwinding-assertions
//@ entry h_buf_content
//@ note W: the REAL bodies of ensureCapacity / append x3 / set x2 / getRawBuffer calling each other (nothing replaced by a contract), complete for every buffer state with capacity <= MAXCAP, every argument of length <= MAXCAP, with and without a full-handler (fFullSize <= 2*MAXCAP); loops (memcpy byte loop, length loop) fully unwound, unwinding assertions on
//@ note this unit proves the CONTENT clauses that contracts/XMLBuffer_abs.inc assumes (appended characters land at [old fIndex, new fIndex), earlier content is preserved, also across a re-allocation); the same functions are proved for all sizes up to 2^40 (bounds, arithmetic, RI, frame) in the P units buf_ensureCapacity / buf_append_ch / buf_append_n / buf_append_z / buf_set
//@ note heap model: MemoryManager::allocate(n) = n bytes END-aligned in a constant-size pool object (an overrun leaves the object; never fails; one allocation per call), deallocate(p) must get the live buffer pointer and frees its pool; memcpy = byte loop with the C11 preconditions; XMLBufferFullHandler::bufferFull = stub that lowers fIndex to an arbitrary value and returns an arbitrary result
#define VERIF_DEFINE_GHOSTS
#include "verif_prelude.h"
#include <stdlib.h>
#define VERIF_OWN_HEAP_MODEL
/* heap model of this unit: two constant-size pools (cbmc keeps content of constant-size objects exactly); a buffer of n bytes is
 * handed out END-aligned, so an access past its n bytes leaves the object; allocate never fails; at most one allocation per call;
 * deallocate(p) accepts only the pointer that allocate / the harness handed out and frees its pool (later use = use after free) */
#define POOLBYTES ((4 * (MAXCAP) + 4) * sizeof(XMLCh))
unsigned char *POOL0, *POOL1; void *INITBUF; _Bool POOL1_USED, POOL0_FREED;
static void *verif_alloc(size_t n)
{
  __CPROVER_assert(!POOL1_USED, "model: at most one allocation per call");
  __CPROVER_assert(n <= POOLBYTES, "model: allocation fits the pool of the bounded unit");
  POOL1_USED = 1;
  return POOL1 + (POOLBYTES - n);
}
static void verif_free(void *p)
{
  __CPROVER_assert(p == INITBUF && !POOL0_FREED, "C01: deallocate() gets exactly the live buffer pointer, once");
  POOL0_FREED = 1;
  free(POOL0);
}
#define BUF_SIZE_BOUND (fCapacity <= (MAXCAP) && (fFullHandler != 0 ==> fFullSize <= 2 * (MAXCAP)))
//@ include XMLBuffer_real.inc

void *memcpy(void *dst, const void *src, size_t n)
{
  __CPROVER_precondition(__CPROVER_w_ok(dst, n), "memcpy destination region writeable");
  __CPROVER_precondition(__CPROVER_r_ok(src, n), "memcpy source region readable");
  __CPROVER_precondition(n == 0 || !__CPROVER_same_object(dst, src), "memcpy regions in different objects");
  for (size_t i = 0; i < n; i++) ((unsigned char *)dst)[i] = ((const unsigned char *)src)[i];
  return dst;
}

bool XMLBufferFullHandler_bufferFull(void)
{
  XMLSize_t k; _Bool r;
  VERIF_INPUT(k); VERIF_INPUT(r);
  VERIF_ASSUME(k <= fIndex);
  fIndex = k;
  return r;
}

/*@extract src/xercesc/framework/XMLBuffer.cpp XMLBuffer::ensureCapacity
sub fMemoryManager->allocate => verif_alloc
sub fMemoryManager->deallocate => verif_free
sub fFullHandler->bufferFull\(\*this\) => XMLBufferFullHandler_bufferFull()
@*/
/*@extract src/xercesc/framework/XMLBuffer.hpp XMLBuffer::append
inclass
params const XMLCh toAppend
as XMLBuffer_append_ch
call ensureCapacity => XMLBuffer_ensureCapacity
throws XMLBuffer_ensureCapacity
@*/
/*@extract src/xercesc/framework/XMLBuffer.hpp XMLBuffer::append
inclass
params const XMLCh* const chars
pick 2
as XMLBuffer_append_z
call ensureCapacity => XMLBuffer_ensureCapacity
throws XMLBuffer_ensureCapacity
@*/
/*@extract src/xercesc/framework/XMLBuffer.hpp XMLBuffer::append
inclass
params const XMLCh* const chars, const XMLSize_t count
as XMLBuffer_append_n
call ensureCapacity => XMLBuffer_ensureCapacity
call append => XMLBuffer_append_z
throws XMLBuffer_ensureCapacity XMLBuffer_append_z
@*/
/*@extract src/xercesc/framework/XMLBuffer.hpp XMLBuffer::set
inclass
params const XMLCh* const chars, const XMLSize_t count
as XMLBuffer_set_n
call append => XMLBuffer_append_n
throws XMLBuffer_append_n
@*/
/*@extract src/xercesc/framework/XMLBuffer.hpp XMLBuffer::set
inclass
params const XMLCh* const chars
pick 2
as XMLBuffer_set_z
call append => XMLBuffer_append_z
throws XMLBuffer_append_z
@*/
/*@extract src/xercesc/framework/XMLBuffer.hpp XMLBuffer::getRawBuffer
inclass
pick 1
@*/

struct { XMLCh a[MAXCAP + 1]; } SRC;
#define RI_W (fIndex <= fCapacity && fBuffer != 0 && __CPROVER_w_ok(fBuffer, (fCapacity + 1) * sizeof(XMLCh)) && \
              (fFullHandler != 0 ==> (fFullSize >= 1 && fCapacity <= fFullSize)))

void h_buf_content(void)
{
  XMLSize_t alloc_extra, count, extra; XMLCh ch; int op;
  VERIF_INPUT(SELF); VERIF_INPUT(GA); VERIF_INPUT(alloc_extra); VERIF_INPUT(count); VERIF_INPUT(extra); VERIF_INPUT(ch); VERIF_INPUT(op); VERIF_INPUT(SRC);
  VERIF_ASSUME(BUF_SIZE_BOUND && alloc_extra <= 1 && fIndex <= fCapacity && (fFullHandler != 0 ==> (fFullSize >= 1 && fCapacity <= fFullSize)));
  VERIF_ASSUME(count <= MAXCAP && extra <= MAXCAP && GA <= 4 * MAXCAP);
  /* setFullHandler may lower fCapacity below the allocated size: the object has (fCapacity + 1 + alloc_extra) characters */
  POOL0 = malloc(POOLBYTES); POOL1 = malloc(POOLBYTES);
  VERIF_ASSUME(POOL0 != 0 && POOL1 != 0);
  INITBUF = POOL0 + (POOLBYTES - (fCapacity + 1 + alloc_extra) * sizeof(XMLCh));
  fBuffer = INITBUF;
  const XMLSize_t old_index = fIndex, old_cap = fCapacity;
  const XMLCh old_ch = (GA < fIndex) ? fBuffer[GA] : 0;
  void *const handler = fFullHandler; const XMLSize_t full = fFullSize;
  /* counted argument: exactly count characters (end-aligned); NUL-terminated argument: zlen = index of the first NUL */
  const XMLCh *src_n = SRC.a + (MAXCAP + 1 - count);
  XMLSize_t zlen = 0;
  VERIF_ASSUME(SRC.a[MAXCAP] == 0);
  const XMLCh *src_z = SRC.a + (MAXCAP - count);       /* s[count] is the terminator slot; an earlier NUL may end it before */
  while (src_z[zlen] != 0) zlen++;
  verif_thrown = 0;
  XMLSize_t added = 0; const XMLCh *src = 0; _Bool from_zero = 0;
  const XMLCh *raw = 0;
  switch (op) {
  case 0: XMLBuffer_ensureCapacity(extra); break;
  case 1: XMLBuffer_append_ch(ch); added = 1; src = &ch; break;
  case 2: VERIF_ASSUME(count >= 1); XMLBuffer_append_n(src_n, count); added = count; src = src_n; break;
  case 3: XMLBuffer_append_n(src_z, 0); added = zlen; src = src_z; break;      /* count == 0: NUL-terminated */
  case 4: XMLBuffer_append_z(src_z); added = zlen; src = src_z; break;
  case 5: XMLBuffer_append_z(0); break;
  case 6: VERIF_ASSUME(count >= 1); XMLBuffer_set_n(src_n, count); added = count; src = src_n; from_zero = 1; break;
  case 7: XMLBuffer_set_z(src_z); added = zlen; src = src_z; from_zero = 1; break;
  case 8: XMLBuffer_set_z(0); from_zero = 1; break;
  default: raw = XMLBuffer_getRawBuffer(); break;
  }
  VERIF_CANARY("after call");

  __CPROVER_assert(RI_W, "C01: RI_buf re-established (normal and exceptional exit)");
  __CPROVER_assert(fFullHandler == handler && fFullSize == full && fCapacity >= old_cap, "C01: handler settings untouched, capacity never shrinks");
  __CPROVER_assert(!verif_thrown || (handler != 0 && verif_throw_type == VT_RuntimeException && verif_throw_code == XMLExcepts_Array_BadNewSize),
                   "C01: only a buffer with a full-handler throws, and only RuntimeException(Array_BadNewSize)");
  const XMLSize_t base = from_zero ? 0 : old_index;
  if (handler == 0) {
    __CPROVER_assert(fIndex == base + added, "C01: fIndex advanced by exactly the number of characters appended (no handler)");
    if (GA < base) __CPROVER_assert(fBuffer[GA] == old_ch, "C01: earlier content preserved, also across re-allocation (no handler)");
    if (GA >= base && GA < fIndex) __CPROVER_assert(fBuffer[GA] == src[GA - base], "C01: appended characters stored in order at [old fIndex, new fIndex) (no handler)");
    if (op == 0) __CPROVER_assert(fIndex + extra <= fCapacity, "C01: ensureCapacity(k) makes room for k more characters");
  } else if (!verif_thrown) {
    /* the handler may have flushed: the appended characters are the last ones in the buffer */
    __CPROVER_assert(fIndex >= added && fIndex <= base + added, "C01: fIndex after a possible flush by the full-handler");
    if (GA >= fIndex - added && GA < fIndex) __CPROVER_assert(fBuffer[GA] == src[GA - (fIndex - added)], "C01: appended characters are the last characters of the buffer (full-handler case)");
    if (op == 0) __CPROVER_assert(fIndex + extra <= fCapacity, "C01: ensureCapacity(k) makes room for k more characters (full-handler case)");
  }
  if (op > 8) __CPROVER_assert(raw == fBuffer && fBuffer[fIndex] == 0, "C01: getRawBuffer returns the NUL-terminated buffer");
}
