//@ unit c11_range_addrange
//@ props C11
//@ kind B
//@ def quick NR=2 VMAX=15
//@ def thorough NR=2 VMAX=15
//@ cbmc quick --unwind 5 --unwinding-assertions
//@ cbmc thorough --unwind 5 --unwinding-assertions
//@ entry h_c11_range_addrange
//@ note B: bounded stand-in (never a proof of C11): a token with 0..NR (quick 2, thorough 3) well-formed ranges over the narrowed universe 0..VMAX (quick 15), in any order with fSorted telling the truth (fSorted ==> nondecreasing starts: that is what addRange itself maintains -- extending a range in place can put (14,31) before (14,14) -- and what compactRanges / doCreateMap need), capacity fMaxCount = 2*NR (full when NR ranges are present, so expand() is exercised) or INITIALSIZE for the empty token; addRange(start, end) with start, end in any order; ghost code point c
//@ note checked: c in this' <=> c in this or min(start,end) <= c <= max(start,end); element count even and within the (exact-size) allocation; fSorted still tells the truth
#define VERIF_DEFINE_GHOSTS
#include "verif_prelude.h"
//@ include RangeToken_c11.inc

struct RTok A;

void h_c11_range_addrange(void)
{
  unsigned n; XMLInt32 c, s, e; _Bool sorted;
  ARENA_INPUT() VERIF_INPUT(n); VERIF_INPUT(c); VERIF_INPUT(s); VERIF_INPUT(e); VERIF_INPUT(sorted);
  VERIF_ASSUME(n <= NR && c >= 0 && c <= VMAX && s >= 0 && s <= VMAX && e >= 0 && e <= VMAX);
  mk_token(&A, T_RANGE, n, 2 * NR, sorted, 0);
  if (n == 0) A.rt.fMaxCount = INITIALSIZE;          /* a token without ranges is as the constructor leaves it */
  WELLFORMED(A.rt.fRanges, n)
  if (sorted) SORTED_BY_START(A.rt.fRanges, n)
  int before = (n == 0) ? 0 : spec_member(A.rt.fRanges, 2 * n, c);
  verif_thrown = 0;
  RangeToken_addRange(&A.rt, s, e);
  VERIF_CANARY("after call");
  __CPROVER_assert(!verif_thrown, "C11(bounded): addRange does not throw");
  __CPROVER_assert(A.rt.fRanges != 0 && A.rt.fElemCount % 2 == 0 && A.rt.fElemCount >= 2 && A.rt.fElemCount <= A.rt.fMaxCount, "C11(bounded): addRange: element count even, non-zero, within the allocation");
  int lo = s <= e ? s : e, hi = s <= e ? e : s;
  __CPROVER_assert(spec_member(A.rt.fRanges, A.rt.fElemCount, c) == (before || (lo <= c && c <= hi)), "C11(bounded): addRange adds exactly the code points start..end (c in this' <=> c in this or start <= c <= end)");
  if (A.rt.fSorted)
    for (unsigned k = 0; 2 * k + 3 < A.rt.fElemCount; k++)
      __CPROVER_assert(A.rt.fRanges[2 * k] <= A.rt.fRanges[2 * k + 2], "C11(bounded): addRange: fSorted tells the truth (nondecreasing starts)");
}
