//@ unit ser_tmpl_RefHashTableOf_XSAnnotation_inplace
//@ props C16
//@ kind W
//@ def quick NC=3
//@ def thorough NC=4
//@ def all TAPE_MAX=16 SC_STRICT_INPLACE=1
//@ cbmc quick --unwind 9 --unwinding-assertions
//@ cbmc thorough --unwind 11 --unwinding-assertions
//@ entry h_ser_tmpl_RefHashTableOf_XSAnnotation_inplace
//@ note W: complete for tables of <= NC annotations (all loops unwound); the real bodies of XTemplateSerializer::storeObject(RefHashTableOf<XSAnnotation, PtrHasher>*, serEng) and loadObject(RefHashTableOf<XSAnnotation, PtrHasher>**, int, bool, serEng) (SchemaGrammar::fAnnotations) run over the tape engine: store mode on a symbolic table (null / written before / new), then load mode into the owner's empty table or into none, with getIgnoreSerializedAnnotations() symbolic
//@ note container model (contracts/ser_container.inc, trusted stubs): a table is <= NC entries (key = the ADDRESS of the annotated schema component, element = the annotation) + hash modulus; the enumerator yields the entries in index order -- they are symbolic, so this is an arbitrary order; get / put compare keys as pointers (PtrHasher); the two local ValueVectorOf objects of the store side are small arrays
//@ note engine object pools (trusted): lookupStorePool(key) is the pool id of the key object, 0 if the object has not been written so far (symbolic table POOLID: ids of different objects differ); lookupLoadPool(id) is the object loaded at that pool position, i.e. the re-created key object (pool positions of store and load side tally: units ser_primitives, ser_pumpcount)
//@ note SPECIFICATION used: an annotation whose key object is part of the stored object graph when the table is written comes back under the re-created key object; an annotation whose key object was never written cannot be re-attached and is dropped by the store side (by design; NOTE: XMLNotationDecl objects are written in place by the NameIdPool pair, never through the pool, so annotations of notations are always dropped -- reported, not an obligation of this pair); with getIgnoreSerializedAnnotations() the stream is consumed, every annotation read is deleted and the table stays empty
//@ note STRICT variant (the specification of the base unit minus its exemption): EVERY annotated component of a stored grammar is itself stored -- most through the pool (`serEng << ptr` / needToStoreObject: pool id != 0), the declarations of a NameIdPool IN PLACE (`data.serialize(serEng)`, units ser_tmpl_NameIdPool_*: no pool id; in a schema grammar these are the XMLNotationDecl objects of fNotationDeclPool, annotated at TraverseSchema.cpp:2985-2993) -- and its annotation is part of the schema-component model (XSNotationDeclaration::getAnnotation()).  Obligation: the loaded table holds as many annotations as the stored one, and every stored annotation is in it.  Fails for an entry whose key object has no pool id: the store side skips it.  Native reproduction: findings/ser_notation_annotation_lost
//@ note ASSUMED: no two entries under the same key object; annotations non-null and distinct
//@ note tape engine (contracts/ser_tape.inc): operator<< / operator>> / writeSize / readSize are trusted stubs that record / check (type tag, value); the tag of a streamed operand comes from its REAL type via _Generic; needToStoreObject / needToLoadObject / registerObject: header record null / reference / new object (contracts/ser_container.inc)
#define VERIF_DEFINE_GHOSTS
#include "verif_prelude.h"
//@ include ser_tape.inc
//@ include ser_container.inc
#define SC_HARNESS h_ser_tmpl_RefHashTableOf_XSAnnotation_inplace
//@ include ser_tmpl_XSAnnotation_body.inc
