//@ unit str_move
//@ props C01
//@ kind L
//@ def quick STRN=6
//@ def thorough STRN=12
//@ enforce XMLString_moveChars
//@ enforce XMLString_copyNString
//@ replace XMLString_stringLen
//@ entry h_str_move
//@ note L: both functions are loop-free (memmove is cbmc's built-in model; stringLen replaced by the contract proved in str_len); buffer lengths bounded by -DSTRN
//@ note cbmc 6.11's memcpy/memmove model loses the copy when the destination OBJECT has a non-char element type and the size is symbolic (see utf16_from): the harness hands both strings as pointers into byte-typed objects (same representation, all accesses bounds-checked)
//@ note copyNString precondition is WEAKER than the header's "target holds maxChars+1": min(length, maxChars)+1 elements suffice, so maxChars is unbounded here
#define VERIF_DEFINE_GHOSTS
#include "verif_prelude.h"
//@ include str_common.inc
#define SL_LEN LEN1
XMLCh OLDG;
#define MINLM ((LEN1 < maxChars) ? LEN1 : maxChars)

/*@extract src/xercesc/util/XMLString.hpp XMLString::stringLen
params const XMLCh* const src
declonly
contract
//@ include str_stringLen.contract.inc
@*/

/*@extract src/xercesc/util/XMLString.hpp XMLString::moveChars
contract
__CPROVER_requires(G < STRN && count <= STRN)
__CPROVER_requires(__CPROVER_r_ok(srcStr, count * sizeof(XMLCh)) && __CPROVER_w_ok(targetStr, count * sizeof(XMLCh)))
/* OLDG: ghost copy of srcStr[G] at entry (an __CPROVER_old(srcStr[G]) would be evaluated even when count == 0) */
__CPROVER_requires((G < count) ==> OLDG == srcStr[G])
__CPROVER_assigns(__CPROVER_object_upto(targetStr, count * sizeof(XMLCh)))
/* overlap allowed (memmove): every element of the target range holds what the source range held before the call */
__CPROVER_ensures((G < count) ==> targetStr[G] == OLDG)
@*/

/*@extract src/xercesc/util/XMLString.cpp XMLString::copyNString
params XMLCh* const target , const XMLCh* const src , const XMLSize_t maxChars
call stringLen => XMLString_stringLen
contract
__CPROVER_requires(G < STRN && LEN1 < STRN)
__CPROVER_requires(STR_IS(src, LEN1) && !__CPROVER_same_object(src, target))
__CPROVER_requires(__CPROVER_w_ok(target, (MINLM + 1) * sizeof(XMLCh)))
__CPROVER_assigns(LEN1 < maxChars: __CPROVER_object_upto(target, (LEN1 + 1) * sizeof(XMLCh)); LEN1 >= maxChars: __CPROVER_object_upto(target, (maxChars + 1) * sizeof(XMLCh)))
__CPROVER_ensures(__CPROVER_return_value == (LEN1 <= maxChars))
__CPROVER_ensures(target[MINLM] == 0)
__CPROVER_ensures((G < MINLM) ==> target[CL(G, LEN1)] == src[CL(G, LEN1)])
@*/

struct { XMLByte a[2 * STRN]; } BS, BT;
void h_str_move(void)
{
  XMLSize_t l1, maxChars, cnt, so, to; _Bool same;
  VERIF_INPUT(BS); VERIF_INPUT(BT); VERIF_INPUT(G); VERIF_INPUT(l1); VERIF_INPUT(maxChars); VERIF_INPUT(cnt); VERIF_INPUT(so); VERIF_INPUT(to); VERIF_INPUT(same); VERIF_INPUT(OLDG);
  VERIF_ASSUME(l1 < STRN);
  verif_thrown = 0;

  /* moveChars: ranges of cnt elements at element offsets so / to, in the same object (overlapping) or in two objects;
     one of the two ranges is END-aligned */
  VERIF_ASSUME(cnt <= STRN && so <= STRN - cnt && to <= STRN - cnt && (so == STRN - cnt || to == STRN - cnt));
  XMLString_moveChars((XMLCh *)((same ? BS.a : BT.a) + 2 * to), (const XMLCh *)(BS.a + 2 * so), cnt);
  VERIF_CANARY("after moveChars");
  if (same && so < to && to < so + cnt) VERIF_CANARY("moveChars: overlapping case reachable");

  LEN1 = l1;
  XMLSize_t room = ((l1 < maxChars) ? l1 : maxChars) + 1;
  bool all = XMLString_copyNString((XMLCh *)(BT.a + 2 * (STRN - room)), (const XMLCh *)(BS.a + 2 * (STRN - (l1 + 1))), maxChars);
  VERIF_CANARY("after copyNString");
  if (!all) VERIF_CANARY("copyNString: truncating case reachable");
}
