//@ unit cm_node_leaf
//@ props C07 C08 C01
//@ kind L
//@ entry h_cm_node_leaf
//@ note L: loop-free, complete: CMLeaf (both constructors, calcFirstPos, calcLastPos, getPosition, getElement, isRepeatableLeaf, orphanChild) and CMRepeatingLeaf (both constructors, which delegate to CMLeaf's; getMinOccurs / getMaxOccurs / isRepeatableLeaf) + the real CMNode base (constructor, getFirstPos / getLastPos lazy caching, isNullable, getType), for EVERY position value (also the epsilon marker and positions beyond the state count), element null / non-null, adopt flag, minOccurs / maxOccurs, maxStates = 1..32
//@ note obligation (XML 1.0 3.2.1 [48] cp ::= Name ...: a Name particle matches exactly one child; position automaton): a leaf that stands for a child element is NOT nullable and its first and last position sets are the singleton {its own position}; the epsilon leaf (CMNode::epsilonNode, the class's marker for "matches the empty sequence") is nullable and has empty position sets. A repeating leaf (counted particle a{m,n}, m >= 1: ComplexTypeInfo::expandContentModel wraps m == 0 in ZeroOrMore) is a leaf for this purpose.
//@ note a position >= maxStates that is not the epsilon marker cannot be recorded in a position set: the real CMStateSet::setBit raises ArrayIndexOutOfBoundsException (C01: documented exception, no out-of-bounds write); buildSyntaxTree never does this (curIndex < fLeafCount)
//@ note model (contracts/cm_node.inc): CMStateSet = 32-bit word; setBit / zeroBits are model functions with the semantics proved of the real class in cm_stateset_ops; the QName created for a null element is a harness object (QName constructor not in scope)
//@ note NOT covered: CMLeaf::setPosition (no caller in /repo; it would leave fIsNullable stale if the position crosses the epsilon marker: latent), destructor
#define VERIF_DEFINE_GHOSTS
#include "verif_prelude.h"
//@ include cm_node.inc
//@ struct src/xercesc/validators/common/CMLeaf.hpp CMLeaf
//@ struct src/xercesc/validators/common/CMRepeatingLeaf.hpp CMRepeatingLeaf self=RSELF

int FRESH_QNAME; int N_QNAME_NEW;
#define QN_new(...) (N_QNAME_NEW++, (QName *)&FRESH_QNAME)

/*@extract src/xercesc/validators/common/CMLeaf.hpp CMLeaf::CMLeaf
pick 1
sub (?<![\w.>:])CMNode\( => CMNode_CMNode(&THISNODE,
sub (?<![\w.>])fIsNullable\b => THISNODE.fIsNullable
sub (?<![\w.>])fMemoryManager\b => THISNODE.fMemoryManager
sub new \(THISNODE\.fMemoryManager\) QName\b => QN_new
@*/
/*@extract src/xercesc/validators/common/CMLeaf.hpp CMLeaf::CMLeaf
pick 2
as CMLeaf_CMLeaf_adopt
sub (?<![\w.>:])CMNode\( => CMNode_CMNode(&THISNODE,
sub (?<![\w.>])fIsNullable\b => THISNODE.fIsNullable
sub (?<![\w.>])fMemoryManager\b => THISNODE.fMemoryManager
sub new \(THISNODE\.fMemoryManager\) QName\b => QN_new
@*/
/*@extract src/xercesc/validators/common/CMLeaf.hpp CMLeaf::getElement
pick 1
@*/
/*@extract src/xercesc/validators/common/CMLeaf.hpp CMLeaf::getPosition
@*/
/*@extract src/xercesc/validators/common/CMLeaf.hpp CMLeaf::isRepeatableLeaf
ret false
@*/
/*@extract src/xercesc/validators/common/CMLeaf.hpp CMLeaf::orphanChild
@*/
/*@extract src/xercesc/validators/common/CMLeaf.hpp CMLeaf::calcFirstPos
sub* (?<![\w.>])isNullable\(\) => CMNode_isNullable(&THISNODE)
method toSet.zeroBits => SS_zeroBits
method toSet.setBit => SS_setBit
throws SS_setBit
@*/
/*@extract src/xercesc/validators/common/CMLeaf.hpp CMLeaf::calcLastPos
sub* (?<![\w.>])isNullable\(\) => CMNode_isNullable(&THISNODE)
method toSet.zeroBits => SS_zeroBits
method toSet.setBit => SS_setBit
throws SS_setBit
@*/
/*@extract src/xercesc/validators/common/CMRepeatingLeaf.hpp CMRepeatingLeaf::CMRepeatingLeaf
pick 1
call CMLeaf => CMLeaf_CMLeaf
throws CMLeaf_CMLeaf
@*/
/*@extract src/xercesc/validators/common/CMRepeatingLeaf.hpp CMRepeatingLeaf::CMRepeatingLeaf
pick 2
as CMRepeatingLeaf_CMRepeatingLeaf_adopt
call CMLeaf => CMLeaf_CMLeaf_adopt
throws CMLeaf_CMLeaf_adopt
@*/
/*@extract src/xercesc/validators/common/CMRepeatingLeaf.hpp CMRepeatingLeaf::getMinOccurs
@*/
/*@extract src/xercesc/validators/common/CMRepeatingLeaf.hpp CMRepeatingLeaf::getMaxOccurs
@*/
/*@extract src/xercesc/validators/common/CMRepeatingLeaf.hpp CMRepeatingLeaf::isRepeatableLeaf
ret false
@*/

static void v_calcFirstPos(struct CMNode *self, CMStateSet *toSet) { if (self == &THISNODE) CMLeaf_calcFirstPos(toSet); else child_stub_calc(self, toSet, 0); }
static void v_calcLastPos(struct CMNode *self, CMStateSet *toSet)  { if (self == &THISNODE) CMLeaf_calcLastPos(toSet);  else child_stub_calc(self, toSet, 1); }

int AN_ELEMENT;
void h_cm_node_leaf(void)
{
  unsigned maxStates, position; int which, minO, maxO; _Bool has_elem, adopt;
  VERIF_INPUT(maxStates); VERIF_INPUT(position); VERIF_INPUT(which); VERIF_INPUT(minO); VERIF_INPUT(maxO); VERIF_INPUT(has_elem); VERIF_INPUT(adopt);
  VERIF_INPUT(SELF); VERIF_INPUT(RSELF);
  VERIF_ASSUME(which >= 0 && which <= 3);
  cm_node_setup_children(maxStates);
  N_QNAME_NEW = 0;
  QName *elem = has_elem ? (QName *)&AN_ELEMENT : (QName *)0;
  if (which == 0)      CMLeaf_CMLeaf(elem, position, maxStates, (MemoryManager *)0);
  else if (which == 1) CMLeaf_CMLeaf_adopt(elem, position, adopt, maxStates, (MemoryManager *)0);
  else if (which == 2) CMRepeatingLeaf_CMRepeatingLeaf(elem, minO, maxO, position, maxStates, (MemoryManager *)0);
  else                 CMRepeatingLeaf_CMRepeatingLeaf_adopt(elem, minO, maxO, position, adopt, maxStates, (MemoryManager *)0);
  VERIF_CANARY("after constructor");
  int with_adopt = (which == 1 || which == 3), repeating = (which >= 2);
  __CPROVER_assert(!verif_thrown, "C01: constructing a leaf does not throw");
  __CPROVER_assert(CMNode_getType(&THISNODE) == ContentSpecNode_Leaf && THISNODE.fMaxStates == maxStates && THISNODE.fFirstPos == 0 && THISNODE.fLastPos == 0 && CMLeaf_getPosition() == position, "C07/C08: the node is a Leaf and records its position and state count; no position set yet");
  __CPROVER_assert(has_elem ? (CMLeaf_getElement() == elem && N_QNAME_NEW == 0 && (fAdopt != 0) == (with_adopt && adopt))
                            : (CMLeaf_getElement() == (QName *)&FRESH_QNAME && N_QNAME_NEW == 1 && fAdopt), "C01: the leaf names the given element (ownership as told), or owns a fresh empty name when given none");
  if (repeating) __CPROVER_assert(CMRepeatingLeaf_getMinOccurs() == minO && CMRepeatingLeaf_getMaxOccurs() == maxO && CMRepeatingLeaf_isRepeatableLeaf(), "C08: a repeating leaf records its occurrence range");
  else __CPROVER_assert(!CMLeaf_isRepeatableLeaf(), "C08: a plain leaf is not a repeating leaf");
  int eps = (position == epsilonNode);
  __CPROVER_assert((CMNode_isNullable(&THISNODE) != 0) == eps, "C07/C08: nullable(leaf) = false for an element position, true for the epsilon leaf");
  CMStateSet *f = CMNode_getFirstPos(&THISNODE);
  int thrown_f = verif_thrown, tt = verif_throw_type; verif_thrown = 0;
  CMStateSet *l = CMNode_getLastPos(&THISNODE);
  VERIF_CANARY("after getFirstPos/getLastPos");
  __CPROVER_assert(!SS_BADCOUNT && f == THISNODE.fFirstPos && l == THISNODE.fLastPos && f != l && f != 0 && l != 0, "C01: the node owns two position sets created with its state count");
  if (eps) {
    VERIF_CANARY("epsilon leaf reachable");
    __CPROVER_assert(!thrown_f && !verif_thrown && *f == 0 && *l == 0, "C07/C08: firstpos(epsilon) = lastpos(epsilon) = {}");
  } else if (position < maxStates) {
    VERIF_CANARY("element leaf reachable");
    __CPROVER_assert(!thrown_f && !verif_thrown && *f == (1u << position) && *l == (1u << position), "C07/C08: firstpos(leaf i) = lastpos(leaf i) = {i}");
  } else {
    VERIF_CANARY("position beyond the state count reachable");
    __CPROVER_assert(thrown_f && tt == VT_ArrayIndexOutOfBoundsException && verif_thrown && verif_throw_type == VT_ArrayIndexOutOfBoundsException && *f == 0 && *l == 0,
                     "C01: a position beyond the state count raises ArrayIndexOutOfBoundsException, no bit outside the set is written");
    return;
  }
  CMLeaf_orphanChild();
  unsigned nsets = SS_USED;
  __CPROVER_assert(CMNode_getFirstPos(&THISNODE) == f && CMNode_getLastPos(&THISNODE) == l && *f == (eps ? 0u : (1u << position)) && *l == *f && SS_USED == nsets && !verif_thrown && CMLeaf_getElement() == (has_elem ? elem : (QName *)&FRESH_QNAME) && N_DELETED == 0,
                   "C07/C08: orphanChild is a no-op on a leaf; the cached position sets are returned unchanged");
}
