//@ unit cm_mixed
//@ props C07 C08 C01
//@ kind W
//@ def quick NCH=4 NMOD=3 NALPHA=3
//@ def thorough NCH=5 NMOD=4 NALPHA=3
//@ cbmc quick --unwind 5 --unwinding-assertions
//@ cbmc thorough --unwind 6 --unwinding-assertions
//@ entry h_cm_mixed
//@ note W: complete for every child sequence of length <= NCH (names = ids over an alphabet of NALPHA, plus the #PCDATA pseudo child) against every unordered mixed model of <= NMOD leaves (Leaf / Any / Any_NS / Any_Other; DTD and schema comparison), validateContent and validateContentSpecial
//@ note fOrdered == false here (the only value the library's own callers pass: DTDElementDecl::makeContentModel, ComplexTypeInfo::makeContentModel); the ordered branch is unit cm_mixed_ordered
//@ note names are ids (contracts/cm_common.inc); SubstitutionGroupComparator::isEquivalentTo = equal names or an arbitrary harness relation
//@ note NOT in scope: MixedContentModel constructor / buildChildList, ContentSpecNode trees, DTDValidator::checkContent dispatch, SchemaValidator, TraverseSchema
#define VERIF_DEFINE_GHOSTS
#include "verif_prelude.h"
#define NSG NMOD
//@ include cm_common.inc
//@ include cm_mixed_body.inc

void h_cm_mixed(void)
{
  cm_mixed_run(0);
  VERIF_CANARY("after call");
  /* reference: Mixed ::= (#PCDATA | n1 | n2 ...)*: every element child is one of the listed leaves; text (#PCDATA pseudo child) is always allowed */
  XMLSize_t bad = R_n;
  for (XMLSize_t k = NCH; k-- > 0; ) if (k < R_n && CHILD(R_n, k).uri != XMLElementDecl_fgPCDataElemId) {
    int found = 0;
    for (XMLSize_t j = 0; j < NMOD; j++) if (j < fCount && cm_mixed_match(&CHILD(R_n, k), j)) found = 1;
    if (!found) bad = k;
  }
  __CPROVER_assert(!verif_thrown, "C01: no exception");
  __CPROVER_assert((R_res != 0) == (bad == R_n), "C07/C08: mixed content is accepted iff every element child matches one of the model's leaves (names, wildcards)");
  if (!R_res) __CPROVER_assert(R_idx == bad, "C07/C08: on failure *indexFailingChild is the first child that matches no leaf");
}
