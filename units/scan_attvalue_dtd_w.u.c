//@ unit scan_attvalue_dtd_w
//@ props C03 C02 C01
//@ kind W
//@ def quick NIN=5 NV=6
//@ def thorough NIN=9 NV=10
//@ cbmc all --unwind 13 --unwinding-assertions --arrays-uf-always
//@ timeout quick=600 thorough=1800
//@ entry h_scanAttValue
//@ note W: DTDScanner::scanAttValue (default attribute values of an ATTLIST declaration: the value a defaulted attribute is reported with); complete for every character sequence of length <= NIN without '&' (entity and character references are out of this unit's scope: scanEntityRef is not extractable; its stub is an unreachable assert); the characters are what the reader delivers, so a literal #xD (which reaches the scanner through the replacement text of an internal entity) is among them
//@ note single entity: the reader abstraction (contracts/scanner_reader2.inc) has a constant reader number and never throws EndOfEntityException; the try/catch of the function is translated (R14), not removed; emitError records
#define VERIF_DEFINE_GHOSTS
#include "verif_prelude.h"
//@ include attnorm_common.inc
//@ include scanner_reader2.inc
//@ include scanner_errs2.inc
//@ enum src/xercesc/internal/XMLScanner.hpp EntityExpRes - scope=XMLScanner
void *fMemoryManager;
static void XMLString_binToText(unsigned int v, XMLCh *buf, unsigned int maxc, unsigned int radix, void *mm) { buf[0] = 0; }
static int SC_scanEntityRef_p(XMLCh *a, XMLCh *b, bool *esc) { __CPROVER_assert(0, "scanEntityRef is unreachable without '&' in the input"); return EntityExp_Failed; }
#define SC_scanEntityRef(a, b, e) SC_scanEntityRef_p(&(a), &(b), &(e))

/*@extract src/xercesc/validators/DTD/DTDScanner.cpp DTDScanner::scanAttValue
ret false
method toFill.reset => XB_reset
method toFill.append => XB_append
sub* fReaderMgr->skipIfQuote\( => RM_skipIfQuote(
sub* fReaderMgr->getCurrentReaderNum\( => RM_getCurrentReaderNum(
sub* fReaderMgr->getNextChar\( => RM_getNextChar(
sub* fReaderMgr->getCurrentReader\(\)->isXMLChar\( => RD_isXMLChar(
sub* fReaderMgr->getCurrentReader\(\)->isWhitespace\( => RD_isWhitespace(
sub* fReaderMgr->lookingAtSpace\( => RM_lookingAtSpace(
sub* \bStates\s+curState => enum States curState
sub* const XMLAttDef::AttTypes\s+type => const int type
sub* fScanner->emitError\s*\( => SC_emitErrorV(
sub* (?<![\w>])scanEntityRef\( => SC_scanEntityRef(
@*/
#define SC_ATTVALUE_CALL(def, name, out) DTDScanner_scanAttValue(name, out, (def) ? ((XMLAttDef*)(def))->type : XMLAttDef_CData)
#define HAS_TYPE 1
//@ include scan_attvalue_harness.inc
