//@ unit dt_normalize_instant
//@ props C09
//@ kind W
//@ def quick YB=65536
//@ def thorough YB=16777216
//@ cbmc all --unwind 3 --unwinding-assertions
//@ entry h_dt_normalize_instant
//@ note W: complete over the validated domain of the date/time parsers (what validateDateTime() lets through: month 1..12, 1 <= day <= days of the month, hour 0..24 with 24 only as 24:00, minute 0..59, time zone 00:00..14:00, sign + or -) for every year with |year| <= YB (quick 2^16, thorough 2^24: stated bound, SAT cost of the 32-bit remainder circuits of the leap-year rule). On this domain the carry loop runs at most one full iteration: it is unwound 3 times with the unwinding assertion on, which also proves that bound.
//@ note proved: normalize() preserves the instant -- the result is the local date/time shifted by exactly the time-zone offset -- UTC = local - offset for '+hh:mm', local + offset for '-hh:mm' (XML Schema Part 2, 3.2.7.3) -- stated with the calendar successor/predecessor of a day (spec_next_day / spec_prev_day, written from the calendar rules; |offset| <= 14:00 so at most one day boundary is crossed); seconds untouched. Year numbering is the plain integer arithmetic of Appendix E: the carry runs through year 0, which XSD 1.0 does not have (0001-01-01T00:00:00+01:00 and -0001-12-31T23:00:00Z denote the same instant under XSD 1.0 but normalise to years 0 and -1); XSD 1.1 has a year 0, so this is recorded here as an observation only, not as a finding.
//@ note div() is modelled per ISO C99 7.20.6.2 (spec/gregorian.h)
#define VERIF_DEFINE_GHOSTS
#define SPEC_NEED_DIV_MODEL
#include "verif_prelude.h"
#include "gregorian.h"
//@ enum src/xercesc/util/XMLDateTime.hpp valueIndex - scope=XMLDateTime
//@ enum src/xercesc/util/XMLDateTime.hpp utcType - scope=XMLDateTime
//@ enum src/xercesc/util/XMLDateTime.hpp timezoneIndex - scope=XMLDateTime
//@ struct src/xercesc/util/XMLDateTime.hpp XMLDateTime only=auto

/*@extract src/xercesc/util/XMLDateTime.cpp fQuotient
as fQuotient2
pick 1
static
@*/
/*@extract src/xercesc/util/XMLDateTime.cpp fQuotient
as fQuotient3
pick 2
static
call fQuotient => fQuotient2
@*/
/*@extract src/xercesc/util/XMLDateTime.cpp mod
static
@*/
/*@extract src/xercesc/util/XMLDateTime.cpp modulo
static
call fQuotient => fQuotient2
@*/
/*@extract src/xercesc/util/XMLDateTime.cpp isLeapYear
static
@*/
/*@extract src/xercesc/util/XMLDateTime.cpp maxDayInMonthFor
static
sub ^\{ => { __CPROVER_assert(month >= 0 && month <= 12, "C09: normalize passes only months 0..12 to maxDayInMonthFor");
@*/


/*@extract src/xercesc/util/XMLDateTime.cpp XMLDateTime::normalize
sub fQuotient\(temp, 1, 13\) => fQuotient3(temp, 1, 13)
call fQuotient => fQuotient2
@*/

void h_dt_normalize_instant(void)
{
  VERIF_INPUT(SELF);
  int y = fValue[CentYear], m = fValue[Month], d = fValue[Day], h = fValue[Hour], mi = fValue[Minute], s = fValue[Second];
  int zh = fTimeZone[hh], zm = fTimeZone[mm], sign = fValue[utc];
  /* what validateDateTime() accepts */
  VERIF_ASSUME(y >= -YB && y <= YB);
  VERIF_ASSUME(m >= 1 && m <= 12 && d >= 1 && d <= SPEC_MAXDAY_M(y, m));
  VERIF_ASSUME(h >= 0 && h <= 24 && mi >= 0 && mi <= 59 && s >= 0 && s <= 60 && (h != 24 || (mi == 0 && s == 0)));
  VERIF_ASSUME(zh >= 0 && zh <= 14 && zm >= 0 && zm <= 59 && (zh != 14 || zm == 0));
  VERIF_ASSUME(sign == UTC_POS || sign == UTC_NEG);
  verif_thrown = 0;
  XMLDateTime_normalize();
  VERIF_CANARY("after call");
  /* reference: minutes since local midnight shifted by the offset (UTC = local - offset for '+', local + offset for '-');
     |offset| <= 840 and 0 <= time of day <= 1440, so the UTC instant lies on the previous, the same or the next day */
  int offset = zh * 60 + zm;
  int t = h * 60 + mi + ((sign == UTC_POS) ? -offset : offset);
  spec_date e = { y, m, d };
  if (t < 0) { e = spec_prev_day(y, m, d); t += 1440; }
  else if (t >= 1440) { e = spec_next_day(y, m, d); t -= 1440; }
  __CPROVER_assert(t >= 0 && t < 1440, "C09: (harness) the shifted time lies within one day of the local date");
  __CPROVER_assert(fValue[CentYear] == e.y && fValue[Month] == e.m && fValue[Day] == e.d,
                   "C09: normalize preserves the instant: calendar day = local day, its predecessor or successor as the offset requires");
  __CPROVER_assert(fValue[Hour] * 60 + fValue[Minute] == t && fValue[Hour] >= 0 && fValue[Hour] <= 23 && fValue[Minute] >= 0 && fValue[Minute] <= 59,
                   "C09: normalize preserves the instant: time of day = local time -/+ offset modulo 24 h");
  __CPROVER_assert(fValue[Second] == s && fValue[utc] == UTC_STD && fTimeZone[hh] == zh && fTimeZone[mm] == zm, "C09: normalize: seconds and zone fields untouched, marked UTC");
}
