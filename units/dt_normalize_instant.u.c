//@ unit dt_normalize_instant
//@ props C09
//@ kind W
//@ def quick YB=1048576
//@ def thorough YB=100000000
//@ cbmc all --unwind 3 --unwinding-assertions
//@ entry h_dt_normalize_instant
//@ note W: complete over the validated domain of the date/time parsers (what validateDateTime() lets through: month 1..12, 1 <= day <= days of the month, hour 0..24 with 24 only as 24:00, minute 0..59, time zone 00:00..14:00, sign + or -) for every year with |year| <= YB (quick 2^20, thorough 10^8; stated bound, SAT cost of 64-bit division in the day-number specification). On this domain the carry loop runs at most one full iteration: it is unwound 3 times with the unwinding assertion on, which also proves that bound.
//@ note proved: normalize() preserves the instant -- minutes since the epoch computed from the proleptic Gregorian calendar (spec_days_from_civil, written from the calendar rules) change by exactly the time-zone offset: UTC = local - offset for '+hh:mm', local + offset for '-hh:mm' (XML Schema Part 2, 3.2.7.3); seconds untouched. Year numbering is the plain integer arithmetic of Appendix E (no special case for the missing year 0 of XSD 1.0; see report).
//@ note div() is modelled per ISO C99 7.20.6.2 (spec/gregorian.h)
#define VERIF_DEFINE_GHOSTS
#define SPEC_NEED_DIV_MODEL
#include "verif_prelude.h"
#include "gregorian.h"
//@ enum src/xercesc/util/XMLDateTime.hpp valueIndex - scope=XMLDateTime
//@ enum src/xercesc/util/XMLDateTime.hpp utcType - scope=XMLDateTime
//@ enum src/xercesc/util/XMLDateTime.hpp timezoneIndex - scope=XMLDateTime
//@ struct src/xercesc/util/XMLDateTime.hpp XMLDateTime only=auto

/*@extract src/xercesc/util/XMLDateTime.cpp fQuotient
as fQuotient2
pick 1
static
@*/
/*@extract src/xercesc/util/XMLDateTime.cpp fQuotient
as fQuotient3
pick 2
static
call fQuotient => fQuotient2
@*/
/*@extract src/xercesc/util/XMLDateTime.cpp mod
static
@*/
/*@extract src/xercesc/util/XMLDateTime.cpp modulo
static
call fQuotient => fQuotient2
@*/
/*@extract src/xercesc/util/XMLDateTime.cpp isLeapYear
static
@*/
/*@extract src/xercesc/util/XMLDateTime.cpp maxDayInMonthFor
static
sub ^\{ => { __CPROVER_assert(month >= 0 && month <= 12, "C09: normalize passes only months 0..12 to maxDayInMonthFor");
@*/


/*@extract src/xercesc/util/XMLDateTime.cpp XMLDateTime::normalize
sub fQuotient\(temp, 1, 13\) => fQuotient3(temp, 1, 13)
call fQuotient => fQuotient2
@*/

static spec_int spec_minutes(int y, int m, int d, int h, int mi)
{
  return (spec_days_from_civil(y, m, d) * 24 + h) * 60 + mi;
}

void h_dt_normalize_instant(void)
{
  VERIF_INPUT(SELF);
  int y = fValue[CentYear], m = fValue[Month], d = fValue[Day], h = fValue[Hour], mi = fValue[Minute], s = fValue[Second];
  int zh = fTimeZone[hh], zm = fTimeZone[mm], sign = fValue[utc];
  /* what validateDateTime() accepts */
  VERIF_ASSUME(y >= -YB && y <= YB);
  VERIF_ASSUME(m >= 1 && m <= 12 && d >= 1 && d <= SPEC_MAXDAY_M(y, m));
  VERIF_ASSUME(h >= 0 && h <= 24 && mi >= 0 && mi <= 59 && s >= 0 && s <= 60 && (h != 24 || (mi == 0 && s == 0)));
  VERIF_ASSUME(zh >= 0 && zh <= 14 && zm >= 0 && zm <= 59 && (zh != 14 || zm == 0));
  VERIF_ASSUME(sign == UTC_POS || sign == UTC_NEG);
  verif_thrown = 0;
  XMLDateTime_normalize();
  VERIF_CANARY("after call");
  spec_int before = spec_minutes(y, m, d, h, mi);
  spec_int offset = (spec_int)zh * 60 + zm;
  spec_int expect = (sign == UTC_POS) ? before - offset : before + offset;
  __CPROVER_assert(fValue[Month] >= 1 && fValue[Month] <= 12 && fValue[Day] >= 1 && fValue[Day] <= SPEC_MAXDAY_M(fValue[CentYear], fValue[Month])
                   && fValue[Hour] >= 0 && fValue[Hour] <= 23 && fValue[Minute] >= 0 && fValue[Minute] <= 59, "C09: normalize: fields in range");
  __CPROVER_assert(spec_minutes(fValue[CentYear], fValue[Month], fValue[Day], fValue[Hour], fValue[Minute]) == expect,
                   "C09: normalize preserves the instant (UTC = local -/+ time-zone offset)");
  __CPROVER_assert(fValue[Second] == s && fValue[utc] == UTC_STD && fTimeZone[hh] == zh && fTimeZone[mm] == zm, "C09: normalize: seconds and zone fields untouched, marked UTC");
}
