//@ unit bigdec_compare
//@ props C09
//@ kind W
//@ def quick NB=6
//@ def thorough NB=9
//@ cbmc all --unwind 12 --unwinding-assertions
//@ entry h_bigdec_compare
//@ note W: complete for every pair / triple of decimal values in the normal form parseDecimal produces (sign, digit string = integer digits without leading zeros followed by fraction digits without trailing zeros, totalDigits, scale) with up to NB digits (quick 6, thorough 9); unit bigdec_parse proves that parseDecimal maps every lexical form to exactly this normal form (every lexical zero -- "0", "0.0", ".0", "-0.0", "+00.000" -- to sign 0 with no digits), so the two units together give: equal values compare equal whatever their lexical form. toCompare (= compareValues) is the real code; loops fully unwound, unwinding assertions on
//@ note obligation (C09 "equal values compare equal whatever their lexical form; antisymmetric"): toCompare is the numeric order of the two decimal values. Reference order from positional notation: compare signs; then the integer parts padded on the left with zeros digit by digit; then the fraction parts padded on the right with zeros digit by digit. Also antisymmetry, transitivity on triples, substitutivity of equals.
#define VERIF_DEFINE_GHOSTS
#include "verif_prelude.h"
#include "xsd_lexical.h"
//@ struct src/xercesc/util/XMLBigDecimal.hpp XMLBigDecimal self=none only=fSign,fTotalDigits,fScale,fIntVal
typedef struct XMLBigDecimal XMLBigDecimal;

/*@extract src/xercesc/util/XMLString.hpp XMLString::stringLen
params const XMLCh* const src
@*/
/*@extract src/xercesc/util/XMLString.cpp XMLString::compareString
params const XMLCh* const str1
sub int\(\*psz1\) - int\(\*psz2\) => (int)(*psz1) - (int)(*psz2)
@*/
/*@extract src/xercesc/util/XMLBigDecimal.cpp XMLBigDecimal::toCompare
selfparam XMLBigDecimal
sub this-> => self->
sub getSign\(\) => fSign
sub getTotalDigit\(\) => fTotalDigits
sub getScale\(\) => fScale
sub getValue\(\) => fIntVal
@*/

struct { XMLCh a[NB + 1]; } V1, V2, V3;

/* order of two digit strings as numbers: integer parts left-padded, fraction parts right-padded with zeros */
static int spec_mag_order(const uint16_t *ip1, size_t ni1, const uint16_t *fp1, size_t nf1,
                          const uint16_t *ip2, size_t ni2, const uint16_t *fp2, size_t nf2)
{
  for (size_t k = 0; k < NB; k++) {            /* position k counts from the left of an NB-digit field */
    uint16_t d1 = (k < NB - ni1) ? 0x30 : ip1[k - (NB - ni1)];
    uint16_t d2 = (k < NB - ni2) ? 0x30 : ip2[k - (NB - ni2)];
    if (d1 != d2) return d1 < d2 ? -1 : 1;
  }
  for (size_t k = 0; k < NB; k++) {
    uint16_t d1 = (k < nf1) ? fp1[k] : 0x30;
    uint16_t d2 = (k < nf2) ? fp2[k] : 0x30;
    if (d1 != d2) return d1 < d2 ? -1 : 1;
  }
  return 0;
}
static int spec_order(int sg1, const uint16_t *v1, size_t ni1, size_t nf1, int sg2, const uint16_t *v2, size_t ni2, size_t nf2)
{
  int mag = spec_mag_order(v1, ni1, v1 + ni1, nf1, v2, ni2, v2 + ni2, nf2);
  return (sg1 != sg2) ? (sg1 < sg2 ? -1 : 1) : (sg1 == 0 ? 0 : (sg1 > 0 ? mag : -mag));
}

/* the normal form parseDecimal produces (proved in bigdec_parse): digits only, integer part without leading zero,
   fraction without trailing zero, sign 0 iff no digit at all */
#define NORMAL(v, ni, nf, sg) ((ni) + (nf) <= NB && (v)[(ni) + (nf)] == 0 && ((sg) == -1 || (sg) == 0 || (sg) == 1) && \
   (((ni) + (nf) == 0) == ((sg) == 0)) && ((ni) == 0 || (v)[0] != 0x30) && ((nf) == 0 || (v)[(ni) + (nf) - 1] != 0x30))

void h_bigdec_compare(void)
{
  XMLSize_t ni1, nf1, ni2, nf2, ni3, nf3;
  struct XMLBigDecimal D1, D2, D3;
  VERIF_INPUT(V1); VERIF_INPUT(V2); VERIF_INPUT(V3); VERIF_INPUT(D1); VERIF_INPUT(D2); VERIF_INPUT(D3);
  VERIF_INPUT(ni1); VERIF_INPUT(nf1); VERIF_INPUT(ni2); VERIF_INPUT(nf2); VERIF_INPUT(ni3); VERIF_INPUT(nf3);
  VERIF_ASSUME(ni1 <= NB && nf1 <= NB && ni2 <= NB && nf2 <= NB && ni3 <= NB && nf3 <= NB && ni1 + nf1 <= NB && ni2 + nf2 <= NB && ni3 + nf3 <= NB);
  XMLCh *v1 = V1.a + (NB - (ni1 + nf1)), *v2 = V2.a + (NB - (ni2 + nf2)), *v3 = V3.a + (NB - (ni3 + nf3));
  VERIF_ASSUME(NORMAL(v1, ni1, nf1, D1.fSign) && NORMAL(v2, ni2, nf2, D2.fSign) && NORMAL(v3, ni3, nf3, D3.fSign));
  for (XMLSize_t i = 0; i < NB; i++)
    VERIF_ASSUME((i >= ni1 + nf1 || SPEC_IS_DIGIT(v1[i])) && (i >= ni2 + nf2 || SPEC_IS_DIGIT(v2[i])) && (i >= ni3 + nf3 || SPEC_IS_DIGIT(v3[i])));
  D1.fIntVal = v1; D1.fTotalDigits = (unsigned)(ni1 + nf1); D1.fScale = (unsigned)nf1;
  D2.fIntVal = v2; D2.fTotalDigits = (unsigned)(ni2 + nf2); D2.fScale = (unsigned)nf2;
  D3.fIntVal = v3; D3.fTotalDigits = (unsigned)(ni3 + nf3); D3.fScale = (unsigned)nf3;
  verif_thrown = 0;
  int c12 = XMLBigDecimal_toCompare(&D1, &D2);
  int c21 = XMLBigDecimal_toCompare(&D2, &D1);
  int c23 = XMLBigDecimal_toCompare(&D2, &D3);
  int c13 = XMLBigDecimal_toCompare(&D1, &D3);
  VERIF_CANARY("after call");
  __CPROVER_assert(c12 == spec_order(D1.fSign, v1, ni1, nf1, D2.fSign, v2, ni2, nf2), "C09: XMLBigDecimal::toCompare = numeric order of the decimal values");
  __CPROVER_assert(c21 == -c12, "C09: XMLBigDecimal::toCompare is antisymmetric");
  __CPROVER_assert(!(c12 < 0 && c23 < 0) || c13 < 0, "C09: XMLBigDecimal::toCompare is transitive");
  __CPROVER_assert(c12 != 0 || c13 == c23, "C09: XMLBigDecimal::toCompare: equal values are interchangeable");
  __CPROVER_assert(!(D1.fSign == 0 && D2.fSign == 0) || c12 == 0, "C09: every zero compares equal to every other");
}
