//@ unit bigdec_compare
//@ props C09
//@ kind W
//@ def quick NB=5
//@ def thorough NB=7
//@ cbmc all --unwind 10 --unwinding-assertions
//@ entry h_bigdec_compare
//@ note W: complete for every pair of NUL-terminated XMLCh strings of length <= NB (quick 5, thorough 7) in the decimal lexical space; both are parsed by the real parseDecimal and compared by the real toCompare (= compareValues); loops fully unwound, unwinding assertions on
//@ note obligation (C09 "equal values compare equal whatever their lexical form; antisymmetric"): toCompare is the numeric order of the two decimal values. Reference order from positional notation: compare signs; then the integer parts padded on the left with zeros digit by digit; then the fraction parts padded on the right with zeros digit by digit. In particular every lexical zero ("0", "0.0", ".0", "-0.0", "+00.000") compares equal to every other.
//@ note strings outside the lexical space are excluded by assumption here (bigdec_parse decides acceptance); XMLChar1_0::isWhitespace is replaced by the XML 1.0 production S
#define VERIF_DEFINE_GHOSTS
#include "verif_prelude.h"
#include "xsd_lexical.h"
//@ struct src/xercesc/util/XMLBigDecimal.hpp XMLBigDecimal self=none only=fSign,fTotalDigits,fScale,fIntVal
typedef struct XMLBigDecimal XMLBigDecimal;

/*@extract src/xercesc/util/XMLString.hpp XMLString::stringLen
params const XMLCh* const src
@*/
/*@extract src/xercesc/util/XMLString.cpp XMLString::compareString
params const XMLCh* const str1
sub int\(\*psz1\) - int\(\*psz2\) => (int)(*psz1) - (int)(*psz2)
@*/
/*@extract src/xercesc/util/XMLBigDecimal.cpp XMLBigDecimal::parseDecimal
pick 1
sub XMLChar1_0::isWhitespace => SPEC_IS_XMLWS
@*/
/*@extract src/xercesc/util/XMLBigDecimal.cpp XMLBigDecimal::toCompare
selfparam XMLBigDecimal
sub this-> => self->
sub getSign\(\) => fSign
sub getTotalDigit\(\) => fTotalDigits
sub getScale\(\) => fScale
sub getValue\(\) => fIntVal
@*/

struct { XMLCh a[NB + 1]; } IN1, IN2, OUT1, OUT2;

/* order of two digit strings as numbers: integer parts left-padded, fraction parts right-padded with zeros */
static int spec_mag_order(const uint16_t *ip1, size_t ni1, const uint16_t *fp1, size_t nf1,
                          const uint16_t *ip2, size_t ni2, const uint16_t *fp2, size_t nf2)
{
  for (size_t k = 0; k < NB; k++) {            /* position k counts from the left of an NB-digit field */
    uint16_t d1 = (k < NB - ni1) ? 0x30 : ip1[k - (NB - ni1)];
    uint16_t d2 = (k < NB - ni2) ? 0x30 : ip2[k - (NB - ni2)];
    if (d1 != d2) return d1 < d2 ? -1 : 1;
  }
  for (size_t k = 0; k < NB; k++) {
    uint16_t d1 = (k < nf1) ? fp1[k] : 0x30;
    uint16_t d2 = (k < nf2) ? fp2[k] : 0x30;
    if (d1 != d2) return d1 < d2 ? -1 : 1;
  }
  return 0;
}

void h_bigdec_compare(void)
{
  XMLSize_t n1, n2;
  struct XMLBigDecimal D1, D2;
  int t1, s1, t2, s2;
  VERIF_INPUT(IN1); VERIF_INPUT(IN2); VERIF_INPUT(OUT1); VERIF_INPUT(OUT2); VERIF_INPUT(n1); VERIF_INPUT(n2);
  VERIF_ASSUME(n1 <= NB && n2 <= NB);
  XMLCh *x1 = IN1.a + (NB - n1), *x2 = IN2.a + (NB - n2);
  VERIF_ASSUME(x1[n1] == 0 && x2[n2] == 0);
  for (XMLSize_t i = 0; i < NB; i++) VERIF_ASSUME((i >= n1 || x1[i] != 0) && (i >= n2 || x2[i] != 0));
  int neg1, neg2; uint16_t ip1[NB + 1], fp1[NB + 1], ip2[NB + 1], fp2[NB + 1]; size_t ni1, nf1, ni2, nf2;
  VERIF_ASSUME(spec_parse_decimal(x1, n1, 1, &neg1, ip1, &ni1, fp1, &nf1));
  VERIF_ASSUME(spec_parse_decimal(x2, n2, 1, &neg2, ip2, &ni2, fp2, &nf2));
  verif_thrown = 0;
  D1.fIntVal = OUT1.a + (NB - n1); D2.fIntVal = OUT2.a + (NB - n2);
  XMLBigDecimal_parseDecimal(x1, D1.fIntVal, &D1.fSign, &t1, &s1, 0);
  XMLBigDecimal_parseDecimal(x2, D2.fIntVal, &D2.fSign, &t2, &s2, 0);
  D1.fTotalDigits = (unsigned)t1; D1.fScale = (unsigned)s1; D2.fTotalDigits = (unsigned)t2; D2.fScale = (unsigned)s2;
  VERIF_ASSUME(!verif_thrown);
  int c12 = XMLBigDecimal_toCompare(&D1, &D2);
  int c21 = XMLBigDecimal_toCompare(&D2, &D1);
  VERIF_CANARY("after call");
  int sg1 = (ni1 == 0 && nf1 == 0) ? 0 : (neg1 ? -1 : 1), sg2 = (ni2 == 0 && nf2 == 0) ? 0 : (neg2 ? -1 : 1);
  int mag = spec_mag_order(ip1, ni1, fp1, nf1, ip2, ni2, fp2, nf2);
  int ref = (sg1 != sg2) ? (sg1 < sg2 ? -1 : 1) : (sg1 == 0 ? 0 : (sg1 > 0 ? mag : -mag));
  __CPROVER_assert(c12 == ref, "C09: XMLBigDecimal::toCompare = numeric order of the decimal values, whatever their lexical form");
  __CPROVER_assert(c21 == -c12, "C09: XMLBigDecimal::toCompare is antisymmetric");
  __CPROVER_assert(!(sg1 == 0 && sg2 == 0) || c12 == 0, "C09: every lexical zero compares equal to every other");
}
