//@ unit bigint_compare
//@ props C09
//@ kind W
//@ def quick NB=6
//@ def thorough NB=8
//@ cbmc all --unwind 11 --unwinding-assertions
//@ entry h_bigint_compare
//@ note W: complete for every pair / triple of normalised (sign, magnitude) values with magnitudes of up to NB decimal digits (what parseBigInteger produces: digits only, no leading zero, empty iff sign 0); loops fully unwound, unwinding assertions on
//@ note compareValues must be the numeric order of sign * magnitude (reference: zero-padded digit-by-digit comparison, i.e. positional notation, no reference to lengths); antisymmetry and transitivity are checked directly as well
#define VERIF_DEFINE_GHOSTS
#include "verif_prelude.h"
#include "xsd_lexical.h"

/*@extract src/xercesc/util/XMLString.hpp XMLString::stringLen
params const XMLCh* const src
@*/
/*@extract src/xercesc/util/XMLString.cpp XMLString::compareString
params const XMLCh* const str1
sub int\(\*psz1\) - int\(\*psz2\) => (int)(*psz1) - (int)(*psz2)
@*/
/*@extract src/xercesc/util/XMLBigInteger.cpp XMLBigInteger::compareValues
as XMLBigInteger_compareValues_str
params const XMLCh* const lString
ret 0
@*/

struct { XMLCh a[NB + 1]; } L, R, T;

void h_bigint_compare(void)
{
  XMLSize_t nl, nr, nt; int ls, rs, ts;
  VERIF_INPUT(L); VERIF_INPUT(R); VERIF_INPUT(T); VERIF_INPUT(nl); VERIF_INPUT(nr); VERIF_INPUT(nt); VERIF_INPUT(ls); VERIF_INPUT(rs); VERIF_INPUT(ts);
  VERIF_ASSUME(nl <= NB && nr <= NB && nt <= NB && ls >= -1 && ls <= 1 && rs >= -1 && rs <= 1 && ts >= -1 && ts <= 1);
  XMLCh *l = L.a + (NB - nl), *r = R.a + (NB - nr), *t = T.a + (NB - nt);
  VERIF_ASSUME(l[nl] == 0 && r[nr] == 0 && t[nt] == 0 && (nl == 0) == (ls == 0) && (nr == 0) == (rs == 0) && (nt == 0) == (ts == 0));
  for (XMLSize_t i = 0; i < nl; i++) { VERIF_ASSUME(SPEC_IS_DIGIT(l[i]) && (i > 0 || l[i] != 0x30)); }
  for (XMLSize_t i = 0; i < nr; i++) { VERIF_ASSUME(SPEC_IS_DIGIT(r[i]) && (i > 0 || r[i] != 0x30)); }
  for (XMLSize_t i = 0; i < nt; i++) { VERIF_ASSUME(SPEC_IS_DIGIT(t[i]) && (i > 0 || t[i] != 0x30)); }
  /* reference order of the magnitudes by positional notation: pad both numerals with leading zeros to NB digits; the
     first differing digit decides (a digit at position k weighs 10^(NB-1-k), more than all lower positions together) */
  int mag = 0;
  for (XMLSize_t k = 0; k < NB && mag == 0; k++) {
    XMLCh dl = (k < NB - nl) ? 0x30 : L.a[k], dr = (k < NB - nr) ? 0x30 : R.a[k];
    if (dl != dr) mag = (dl < dr) ? -1 : 1;
  }
  /* order of sign * magnitude */
  int ref = (ls != rs) ? (ls < rs ? -1 : 1) : (ls == 0 ? 0 : (ls > 0 ? mag : -mag));
  verif_thrown = 0;
  int lr = XMLBigInteger_compareValues_str(l, &ls, r, &rs, 0);
  int rl = XMLBigInteger_compareValues_str(r, &rs, l, &ls, 0);
  int rt = XMLBigInteger_compareValues_str(r, &rs, t, &ts, 0);
  int lt = XMLBigInteger_compareValues_str(l, &ls, t, &ts, 0);
  VERIF_CANARY("after call");
  __CPROVER_assert(!verif_thrown && lr == ref, "C09: XMLBigInteger::compareValues = numeric order of sign*magnitude");
  __CPROVER_assert(rl == -lr, "C09: XMLBigInteger::compareValues is antisymmetric");
  __CPROVER_assert(!(lr < 0 && rt < 0) || lt < 0, "C09: XMLBigInteger::compareValues is transitive");
  __CPROVER_assert(lr != 0 || lt == rt, "C09: XMLBigInteger::compareValues: equal values are interchangeable");
}
