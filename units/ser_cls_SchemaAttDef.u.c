//@ unit ser_cls_SchemaAttDef
//@ props C16
//@ kind L
//@ entry h_ser_cls_SchemaAttDef
//@ note L: loop-free; the real body of SchemaAttDef::serialize runs twice on one object: store mode onto the tape, then -- after the whole object has been given arbitrary values again -- load mode from the tape; every member value is symbolic (full range of its real type)
//@ note tape engine (contracts/ser_tape.inc): operator<< / operator>> / writeSize / readSize / writeString / readString and the sub-object serialisers (XTemplateSerializer::storeObject/loadObject, DatatypeValidator::storeDV/loadDV, Base::serialize ...) are trusted stubs that record / check (type tag, value); the tag of a streamed operand comes from its REAL type (member types from the real class declaration, casts from the code) via _Generic; strings, containers and pointers to serialisable objects are opaque ids (the pointer value stands for the object; loading yields the id that was stored); the byte-level engine is the subject of units ser_primitives, ser_fillflush, ser_rawbytes
//@ note compared after load (store then load restores the value): fElemId, fPSVIScope, fAttName, fDatatypeValidator, fNamespaceList, fBaseAttDecl; NOT compared: nothing; the members of the base class XMLAttDef are the subject of unit ser_cls_XMLAttDef
#define VERIF_DEFINE_GHOSTS
#include "verif_prelude.h"
//@ include ser_tape.inc
typedef int PSVIDefs_PSVIScope;
#define XMLAttDef_serialize(e) ENG_BASE(XMLAttDef)
//@ struct src/xercesc/validators/schema/SchemaAttDef.hpp SchemaAttDef only=auto enums=PSVIDefs_PSVIScope structs=QName,SchemaAttDef,DatatypeValidator

/*@extract src/xercesc/validators/schema/SchemaAttDef.cpp SchemaAttDef::serialize
streamops serEng
method serEng.isStoring => ENG_isStoring
method serEng.isLoading => ENG_isLoading
method serEng.writeSize => ENG_writeSize
method serEng.readSize => ENG_readSize
method serEng.writeString => ENG_writeString
method serEng.readString => ENG_readString
@*/

#define FIELDS(X) X(fElemId) X(fPSVIScope) X(fAttName) X(fDatatypeValidator) X(fNamespaceList) X(fBaseAttDecl)

void h_ser_cls_SchemaAttDef(void)
{
  VERIF_INPUT(SELF); TAPE_INIT();
  FIELDS(SER_FIELD_SAVE)
  verif_thrown = 0;
  TAPE_BEGIN_STORE();
  SchemaAttDef_serialize(&ENGINE);
  VERIF_INPUT(SELF);                      /* the object that is loaded into: arbitrary contents */
  TAPE_BEGIN_LOAD();
  SchemaAttDef_serialize(&ENGINE);
  VERIF_CANARY("after store and load");
  __CPROVER_assert(!verif_thrown, "C16: serialize does not throw by itself");
  TAPE_END_CHECK();
  FIELDS(SER_FIELD_CHECK)
}
