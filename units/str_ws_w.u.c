//@ unit str_ws_w
//@ props C01
//@ kind W
//@ def quick STRN=6
//@ def thorough STRN=8
//@ cbmc all --unwind 11 --unwinding-assertions
//@ entry h_str_ws
//@ note W: complete for every string of length < STRN (all 16-bit units; null allowed), END-aligned at its NUL; loops fully unwound, unwinding assertions on
//@ note spec = XML Schema part 2, 4.3.6 whiteSpace: replace (TAB, LF, CR -> space), collapse (replace, then strip leading/trailing spaces and reduce runs of spaces to one); removeWS deletes all four; removeChar deletes every occurrence of one character
//@ note the string lives in a byte-typed object (cbmc's memmove model behind moveChars loses the copy for non-char element types and symbolic sizes, see utf16_from); XMLBuffer for removeChar is a concrete array model (trusted stub: reset / append(ch))
#define VERIF_DEFINE_GHOSTS
#include "verif_prelude.h"
struct XMLBuffer { char opaque; };
typedef struct XMLBuffer XMLBuffer;
struct { XMLCh a[STRN]; } XB; XMLSize_t XBLEN; int XB_OVERFLOW;
static void XB_reset(XMLBuffer *b) { XBLEN = 0; }
static void XB_append(XMLBuffer *b, XMLCh c) { if (XBLEN < STRN) XB.a[XBLEN++] = c; else XB_OVERFLOW = 1; }

/*@extract src/xercesc/util/XMLString.hpp XMLString::stringLen
params const XMLCh* const src
static
@*/
/*@extract src/xercesc/util/XMLString.hpp XMLString::moveChars
static
@*/
/*@extract src/xercesc/util/XMLString.cpp XMLString::isWSReplaced
@*/
/*@extract src/xercesc/util/XMLString.cpp XMLString::replaceWS
@*/
/*@extract src/xercesc/util/XMLString.cpp XMLString::isWSCollapsed
call isWSReplaced => XMLString_isWSReplaced
call XMLString::stringLen => XMLString_stringLen
@*/
/*@extract src/xercesc/util/XMLString.cpp XMLString::collapseWS
call isWSReplaced => XMLString_isWSReplaced
call replaceWS => XMLString_replaceWS
call isWSCollapsed => XMLString_isWSCollapsed
call stringLen => XMLString_stringLen
call XMLString::moveChars => XMLString_moveChars
@*/
/*@extract src/xercesc/util/XMLString.cpp XMLString::removeWS
@*/
/*@extract src/xercesc/util/XMLString.cpp XMLString::removeChar
method dstBuffer.reset => XB_reset
method dstBuffer.append => XB_append
@*/

#define IS_WS3(c) ((c) == 0x9 || (c) == 0xA || (c) == 0xD)
struct { XMLByte a[2 * STRN]; } B1, B2, B3;
XMLBuffer DST;
void h_str_ws(void)
{
  XMLSize_t n; _Bool isnull; XMLCh rem;
  VERIF_INPUT(B1); VERIF_INPUT(n); VERIF_INPUT(isnull); VERIF_INPUT(rem);
  VERIF_ASSUME(n >= 1 && n <= STRN);
  XMLCh *s1 = (XMLCh *)(B1.a + 2 * (STRN - n)), *s2 = (XMLCh *)(B2.a + 2 * (STRN - n)), *s3 = (XMLCh *)(B3.a + 2 * (STRN - n));
  VERIF_ASSUME(s1[n - 1] == 0);
  for (XMLSize_t k = 0; k + 1 < n; k++) VERIF_ASSUME(s1[k] != 0);
  XMLCh org[STRN];
  for (XMLSize_t k = 0; k < n; k++) { org[k] = s1[k]; s2[k] = s1[k]; s3[k] = s1[k]; }
  XMLSize_t len = n - 1;
  verif_thrown = 0;

  /* predicates */
  int has3 = 0, dbl = 0;
  for (XMLSize_t k = 0; k < len; k++) { if (IS_WS3(org[k])) has3 = 1; if (k + 1 < len && org[k] == 0x20 && org[k + 1] == 0x20) dbl = 1; }
  bool r1 = XMLString_isWSReplaced(isnull ? (const XMLCh *)0 : s1);
  bool r2 = XMLString_isWSCollapsed(isnull ? (const XMLCh *)0 : s1);
  VERIF_CANARY("after predicates");
  __CPROVER_assert(r1 == (isnull || !has3), "C01: isWSReplaced <=> no TAB/LF/CR");
  __CPROVER_assert(r2 == (isnull || len == 0 || (!has3 && !dbl && org[0] != 0x20 && org[len - 1] != 0x20)), "C01: isWSCollapsed <=> replaced, no leading/trailing space, no run of spaces");

  /* replaceWS */
  XMLString_replaceWS(isnull ? (XMLCh *)0 : s1, (MemoryManager *)0);
  VERIF_CANARY("after replaceWS");
  for (XMLSize_t k = 0; k < STRN; k++)
    if (k < n && !isnull) __CPROVER_assert(s1[k] == (IS_WS3(org[k]) ? 0x20 : org[k]), "C01: replaceWS maps TAB/LF/CR to space and nothing else");

  /* collapseWS */
  XMLString_collapseWS(isnull ? (XMLCh *)0 : s2, (MemoryManager *)0);
  VERIF_CANARY("after collapseWS");
  XMLCh exp[STRN]; XMLSize_t e = 0; int pending = 0;
  for (XMLSize_t k = 0; k < len; k++) {
    XMLCh c = IS_WS3(org[k]) ? 0x20 : org[k];
    if (c == 0x20) { pending = 1; continue; }
    if (pending && e > 0) exp[e++] = 0x20;
    pending = 0; exp[e++] = c;
  }
  if (!isnull) {
    __CPROVER_assert(s2[e] == 0, "C01: collapseWS result length (terminated inside the original buffer)");
    for (XMLSize_t k = 0; k < STRN; k++) if (k < e) __CPROVER_assert(s2[k] == exp[k], "C01: collapseWS text per XML Schema whiteSpace=collapse");
    if (e + 2 < len && e > 1) VERIF_CANARY("collapseWS: shrinking case reachable");
  }

  /* removeWS */
  XMLString_removeWS(isnull ? (XMLCh *)0 : s3, (MemoryManager *)0);
  VERIF_CANARY("after removeWS");
  XMLSize_t w = 0;
  for (XMLSize_t k = 0; k < len; k++) if (!(IS_WS3(org[k]) || org[k] == 0x20)) exp[w++] = org[k];
  if (!isnull) {
    __CPROVER_assert(s3[w] == 0, "C01: removeWS result length");
    for (XMLSize_t k = 0; k < STRN; k++) if (k < w) __CPROVER_assert(s3[k] == exp[k], "C01: removeWS keeps exactly the non-whitespace characters in order");
  }

  /* removeChar */
  XBLEN = 7; XB_OVERFLOW = 0;
  XMLString_removeChar(isnull ? (const XMLCh *)0 : org, &rem, &DST);
  VERIF_CANARY("after removeChar");
  w = 0;
  for (XMLSize_t k = 0; k < len; k++) if (org[k] != rem) exp[w++] = org[k];
  if (!isnull) {
    __CPROVER_assert(!XB_OVERFLOW && XBLEN == w, "C01: removeChar output length");
    for (XMLSize_t k = 0; k < STRN; k++) if (k < w && k < XBLEN) __CPROVER_assert(XB.a[k] == exp[k], "C01: removeChar keeps exactly the other characters in order");
  } else __CPROVER_assert(XBLEN == 7, "C01: removeChar leaves the buffer alone for a null string");
}
