//@ unit ser_cls_FloatDatatypeValidator
//@ props C16
//@ kind L
//@ entry h_ser_numeric
//@ note L: loop-free; the real bodies of FloatDatatypeValidator::serialize, AbstractNumericValidator::serialize, AbstractNumericFacetValidator::serialize, storeClusive and loadClusive run twice on one object: store mode onto the tape, then -- after the whole object has been given arbitrary values again -- load mode from the tape; every member value is symbolic
//@ note tape engine (contracts/ser_tape.inc): operator<< / operator>> / writeSize / readSize / writeString / readString and the sub-object serialisers (XTemplateSerializer::storeObject/loadObject, DatatypeValidator::storeDV/loadDV, Base::serialize ...) are trusted stubs that record / check (type tag, value); the tag of a streamed operand comes from its REAL type (member types from the real class declaration, casts from the code) via _Generic; strings, containers and pointers to serialisable objects are opaque ids (the pointer value stands for the object; loading yields the id that was stored); the byte-level engine is the subject of units ser_primitives, ser_fillflush, ser_rawbytes
//@ note cross-class protocol checked: FloatDatatypeValidator writes XMLNumber::Float first (store mode only); the load branch of AbstractNumericFacetValidator::serialize reads the number type first and hands it to XMLNumber::loadNumber for every bound the validator owns (stub: pops the record written by `serEng<<data` and checks the type); inherited bounds are not stored and are taken from the base validator on load (stub getBaseValidator + getters, class invariant "an inherited bound is the base validator's bound" assumed)
//@ note compared after load: the five *Inherited flags, fMaxInclusive, fMaxExclusive, fMinInclusive, fMinExclusive, fEnumeration, fStrEnumeration; NOT compared: nothing of these classes; base class DatatypeValidator: unit ser_cls_DatatypeValidator
#define VERIF_DEFINE_GHOSTS
#include "verif_prelude.h"
//@ include ser_tape.inc
#define EXPECTED_NUMTYPE XMLNumber_Float
//@ include ser_numeric_base.inc
#define TOP_INPUT

/*@extract src/xercesc/validators/datatype/FloatDatatypeValidator.cpp FloatDatatypeValidator::serialize
streamops serEng
method serEng.isStoring => ENG_isStoring
method serEng.isLoading => ENG_isLoading
@*/

#define TOP_SERIALIZE FloatDatatypeValidator_serialize
#define FIELDS_TOP(X) 
//@ include ser_numeric_harness.inc
