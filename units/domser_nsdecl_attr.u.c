//@ unit domser_nsdecl_attr
//@ props C12 C06
//@ kind W
//@ def all NDEPTH=1 NBIND=3
//@ cbmc all --unwind 5 --unwinding-assertions
//@ entry h_nsdecl_attr
//@ note fragment of DOMLSSerializerImpl::processNode (ELEMENT_NODE, attribute loop): how an xmlns / xmlns:p attribute of the element being written is entered into the namespace map of the current level (from `nsPrefix = attribute->getLocalName()` to `namespaceMap->put(..)`), verified as a function of its own; W: complete over 5 string ids for every attribute of the xmlns namespace and every prior content (<= 2 bindings) of the map; loop-free apart from the map stubs
//@ note stubs: the RefHashTableOf<XMLCh> of the current level is scope 0 of contracts/domser_ns.inc (containsKey/put/get over (prefix id, uri id) pairs, strings are ids); the attribute is a record of ids (node name, local name, value); `continue` (attribute already declared by the fix-up: not written twice) becomes a flag + return
//@ note spec (Namespaces in XML 1.0 section 3: `xmlns="u"` declares the DEFAULT namespace = the empty prefix, `xmlns:p="u"` declares prefix p): afterwards the map of the level binds the declared prefix -- isNamespaceBindingActive / isDefaultNamespacePrefixDeclared (unit domser_nsbinding) look the default namespace up under the empty prefix
#define VERIF_DEFINE_GHOSTS
#include "verif_prelude.h"
//@ include domser_ns.inc
#define ID_XMLNS 2
#define XMLUni_fgXMLNSString STR_PTR(ID_XMLNS)
typedef struct DOMAttr { unsigned char name, local, value; } DOMAttr;
static const XMLCh* AT_getLocalName(const DOMAttr *a) { return STR_PTR(a->local); }
static const XMLCh* AT_getNodeName(const DOMAttr *a) { return STR_PTR(a->name); }
static const XMLCh* AT_getNodeValue(const DOMAttr *a) { return STR_PTR(a->value); }
static unsigned char PTR_ID(const void *p) { for (unsigned char k = 1; k < NSTR; k++) if (p == (const void*)&STRTAB[k]) return k; return 0; }
static bool MAP_containsKey(const void *key) { for (int k = 0; k < NBIND; k++) if (k < SCOPES.a[0].n && (const void*)STR_PTR(SCOPES.a[0].pfx[k]) == key) return true; return false; }
int MAP_FULL;
static void MAP_put(const void *key, const XMLCh *val)
{
  for (int k = 0; k < NBIND; k++) if (k < SCOPES.a[0].n && (const void*)STR_PTR(SCOPES.a[0].pfx[k]) == key) { SCOPES.a[0].uri[k] = PTR_ID(val); return; }
  if (SCOPES.a[0].n < NBIND) { SCOPES.a[0].pfx[SCOPES.a[0].n] = PTR_ID(key); SCOPES.a[0].uri[SCOPES.a[0].n] = PTR_ID(val); SCOPES.a[0].n++; } else MAP_FULL = 1;
}
int SKIPPED;

/*@extract src/xercesc/dom/impl/DOMLSSerializerImpl.cpp DOMLSSerializerImpl::processNode
params const DOMNode* const nodeToWrite, int level
as SER_nsdecl_attr
fragment const XMLCh\* nsPrefix = attribute->getLocalName\(\); ||| namespaceMap->put\(\(void\*\)attribute->getLocalName\(\),\(XMLCh\*\)attribute->getNodeValue\(\)\);
sig void SER_nsdecl_attr(const DOMAttr* attribute)
sub attribute->(get\w+)\(\) => AT_\1(attribute)
sub XMLString::equals\( => ST_equals(
sub namespaceMap->containsKey\( => MAP_containsKey(
sub namespaceMap->put\( => MAP_put(
sub continue; => { SKIPPED = 1; return; }
@*/

void h_nsdecl_attr(void)
{
  DOMAttr at;
  VERIF_INPUT(SCOPES); VERIF_INPUT(at);
  NS_DEPTH = 1; NS_assume_wellformed();
  VERIF_ASSUME(SCOPES.a[0].n <= 2);
  for (int k = 0; k < NBIND; k++) VERIF_ASSUME(SCOPES.a[0].uri[k] != 0 || SCOPES.a[0].pfx[k] == ID_EMPTY);   /* a null uri is recorded only for the empty prefix */
  VERIF_ASSUME(at.value >= ID_EMPTY && at.value < NSTR && at.local >= ID_XMLNS && at.local < NSTR && at.name >= ID_XMLNS && at.name < NSTR);
  /* an attribute of the xmlns namespace: `xmlns` (node name = local name = xmlns) or `xmlns:p` (local name p, node name something else) */
  int is_default = (at.name == ID_XMLNS);
  VERIF_ASSUME(is_default ? at.local == ID_XMLNS : at.local != ID_XMLNS);
  unsigned char declared = is_default ? ID_EMPTY : at.local;
  bool before = MAP_containsKey(STR_PTR(declared));
  SKIPPED = 0; MAP_FULL = 0; verif_thrown = 0;

  SER_nsdecl_attr(&at);
  VERIF_CANARY("after fragment");
  if (is_default && !before) VERIF_CANARY("a default-namespace declaration not yet in the map is reachable");

  __CPROVER_assert(!MAP_FULL, "harness map large enough");
  __CPROVER_assert(SKIPPED == before, "C12: the attribute is skipped (not written a second time) iff the fix-up has already declared that prefix at this level");
  if (!is_default) __CPROVER_assert(MAP_containsKey(STR_PTR(declared)) && (before || NS_get(0, STR_PTR(declared)) == STR_PTR(at.value)), "C12/C06: xmlns:p=\"u\" makes the map of the level bind p (to u unless already bound)");
  else __CPROVER_assert(MAP_containsKey(STR_PTR(ID_EMPTY)) && (before || NS_get(0, STR_PTR(ID_EMPTY)) == STR_PTR(at.value)), "C12/C06: xmlns=\"u\" makes the map of the level bind the EMPTY prefix (the default namespace), under which the fix-up looks it up");
}
