//@ unit rdr_setEncoding
//@ props C05
//@ kind L
//@ entry h_setEncoding
//@ note L: loop-free; XMLReader::setEncoding (the encoding declaration meets the auto-sensed encoding) over every auto-sensed encoding, every declared name class (the 7 byte-order-neutral UTF-16 names, the 5 byte-order-neutral UCS-4 names, any other name with any answer of XMLRecognizer::encodingForName), forced encoding on/off, transcoder present/absent, transcoder creation succeeding or failing
//@ note spec (XML 1.0 4.3.3, appendix F; C05 "a declaration that contradicts the detected encoding family is reported"): a byte-order-neutral UTF-16 (UCS-4) name is consistent exactly with an entity sensed as UTF-16 (UCS-4) of either byte order; it then keeps the sensed byte order; a contradiction is answered with `false` (the scanner reports it) and changes nothing
//@ note trusted stubs: strings are ids (the declared name is already upper-cased: upperCaseASCII / replicate are identities on ids, XMLString::equals compares ids); the transcoding service and the memory manager are recording stubs
#define VERIF_DEFINE_GHOSTS
#include "verif_prelude.h"
//@ enum src/xercesc/framework/XMLRecognizer.hpp Encodings XMLRecognizer_ scope=XMLRecognizer
enum { ID_UTF16_1 = 10, ID_UTF16_7 = 16, ID_UCS4_1 = 20, ID_UCS4_5 = 24, ID_UTF16L = 30, ID_UTF16B = 31, ID_UCS4L = 32, ID_UCS4B = 33, ID_OTHER = 40 };
#define XMLUni_fgUTF16EncodingString 10
#define XMLUni_fgUTF16EncodingString2 11
#define XMLUni_fgUTF16EncodingString3 12
#define XMLUni_fgUTF16EncodingString4 13
#define XMLUni_fgUTF16EncodingString5 14
#define XMLUni_fgUTF16EncodingString6 15
#define XMLUni_fgUTF16EncodingString7 16
#define XMLUni_fgUCS4EncodingString 20
#define XMLUni_fgUCS4EncodingString2 21
#define XMLUni_fgUCS4EncodingString3 22
#define XMLUni_fgUCS4EncodingString4 23
#define XMLUni_fgUCS4EncodingString5 24
#define XMLUni_fgUTF16LEncodingString 30
#define XMLUni_fgUTF16BEncodingString 31
#define XMLUni_fgUCS4LEncodingString 32
#define XMLUni_fgUCS4BEncodingString 33
typedef int XMLTransService_Codes;
typedef int XMLRecognizer_Encodings;
_Bool fForcedEncoding; int fEncoding; int fEncodingStr; void *fTranscoder; MemoryManager *fMemoryManager;
enum { kCharBufSize = 16384 };
int E4N_ANSWER; _Bool MAKE_FAILS; char A_TRANSCODER; int MADE_BY_NAME, MADE_BY_ENUM, MADE_ENUM_ARG, MADE_NAME_ARG;
static int ST_replicate(int s) { return s; }
#define ST_upperCaseASCII(s) ((void)0)
static bool ST_equals(int a, int b) { return a == b; }
static int REC_encodingForName(int name) { return E4N_ANSWER; }
static void* TS_makeByName(int name, int *fail, int blk) { MADE_BY_NAME++; MADE_NAME_ARG = name; *fail = 0; return MAKE_FAILS ? (void*)0 : (void*)&A_TRANSCODER; }
static void* TS_makeByEnum(int enc, int *fail, int blk) { MADE_BY_ENUM++; MADE_ENUM_ARG = enc; *fail = 0; return MAKE_FAILS ? (void*)0 : (void*)&A_TRANSCODER; }
#define TS_makeName(name, fail, blk, mm) TS_makeByName((name), &(fail), (blk))
#define TS_makeEnum(enc, fail, blk, mm) TS_makeByEnum((enc), &(fail), (blk))
#define MM_deallocate(p) ((void)0)
#define TC_delete(p) ((void)0)

/*@extract src/xercesc/internal/XMLReader.cpp XMLReader::setEncoding
as XMLReader_setEncoding
sig bool XMLReader_setEncoding(int newEncoding)
fragment ^\{ ||| \}\s*$
sub* XMLCh\*\s+inputEncoding\s*= => int inputEncoding =
sub* XMLString::replicate\(([^,()]+), fMemoryManager\) => ST_replicate(\1)
sub* XMLString::upperCaseASCII\( => ST_upperCaseASCII(
sub* XMLString::equals\( => ST_equals(
sub* XMLUni::fg => XMLUni_fg
sub* XMLRecognizer::Encodings\s+newBaseEncoding => int newBaseEncoding
sub* XMLRecognizer::encodingForName\( => REC_encodingForName(
sub* XMLRecognizer:: => XMLRecognizer_
sub* XMLTransService::Codes => XMLTransService_Codes
sub* fMemoryManager->deallocate\( => MM_deallocate(
sub* delete fTranscoder; => TC_delete(fTranscoder);
sub* XMLPlatformUtils::fgTransService->makeNewTranscoderFor\s*\(\s*fEncodingStr => TS_makeName(fEncodingStr
sub* XMLPlatformUtils::fgTransService->makeNewTranscoderFor\s*\(\s*newBaseEncoding => TS_makeEnum(newBaseEncoding
@*/

void h_setEncoding(void)
{
  int name; unsigned char forced, havet, fails;
  VERIF_INPUT(name); VERIF_INPUT(fEncoding); VERIF_INPUT(E4N_ANSWER); VERIF_INPUT(forced); VERIF_INPUT(havet); VERIF_INPUT(fails); VERIF_INPUT(fEncodingStr);
  VERIF_ASSUME((name >= ID_UTF16_1 && name <= ID_UTF16_7) || (name >= ID_UCS4_1 && name <= ID_UCS4_5) || (name >= ID_UTF16L && name <= ID_UCS4B) || name == ID_OTHER);
  VERIF_ASSUME(fEncoding >= XMLRecognizer_EBCDIC && fEncoding < XMLRecognizer_Encodings_Count);
  VERIF_ASSUME(E4N_ANSWER >= XMLRecognizer_EBCDIC && E4N_ANSWER <= XMLRecognizer_OtherEncoding);
  fForcedEncoding = (forced & 1) != 0; fTranscoder = (havet & 1) ? (void*)&A_TRANSCODER : (void*)0; MAKE_FAILS = (fails & 1) != 0;
  int enc0 = fEncoding, str0 = fEncodingStr; void *t0 = fTranscoder;
  MADE_BY_NAME = 0; MADE_BY_ENUM = 0; verif_thrown = 0; fMemoryManager = 0;
  bool r = XMLReader_setEncoding(name);
  VERIF_CANARY("after setEncoding");
  int neutral16 = name >= ID_UTF16_1 && name <= ID_UTF16_7, neutral4 = name >= ID_UCS4_1 && name <= ID_UCS4_5;
  int sensed16 = enc0 == XMLRecognizer_UTF_16L || enc0 == XMLRecognizer_UTF_16B, sensed4 = enc0 == XMLRecognizer_UCS_4L || enc0 == XMLRecognizer_UCS_4B;
  if (fForcedEncoding) {
    __CPROVER_assert(r && !verif_thrown && fEncoding == enc0 && fEncodingStr == str0 && fTranscoder == t0, "C05: a forced encoding overrides the declaration");
  } else if ((neutral16 && !sensed16) || (neutral4 && !sensed4)) {
    VERIF_CANARY("contradiction reachable");
    __CPROVER_assert(!r && !verif_thrown, "C05: a UTF-16 / UCS-4 declaration on an entity sensed as something else is a contradiction (answered with false, reported by the scanner)");
    __CPROVER_assert(fEncoding == enc0 && fTranscoder == t0 && fEncodingStr == str0, "C05: a contradicting declaration changes nothing");
  } else if (neutral16 || neutral4) {
    VERIF_CANARY("consistent family reachable");
    if (!verif_thrown) {
      __CPROVER_assert(r && fEncoding == enc0, "C05: a byte-order-neutral UTF-16 / UCS-4 declaration is consistent with either byte order and keeps the sensed one");
      __CPROVER_assert(fEncodingStr == (enc0 == XMLRecognizer_UTF_16L ? ID_UTF16L : enc0 == XMLRecognizer_UTF_16B ? ID_UTF16B : enc0 == XMLRecognizer_UCS_4L ? ID_UCS4L : ID_UCS4B), "C05: the reported encoding name says the byte order in use");
    }
    __CPROVER_assert(verif_thrown == (t0 == 0 && MAKE_FAILS), "C05: an exception only when no transcoder can be created");
    if (t0 == 0 && !MAKE_FAILS) { __CPROVER_assert(MADE_BY_ENUM == 1 && MADE_ENUM_ARG == enc0 && fTranscoder != 0, "C05: the transcoder is created for the sensed byte order"); }
  } else {
    if (!verif_thrown) { __CPROVER_assert(r && fEncoding == E4N_ANSWER && fEncodingStr == name, "C05: any other declared encoding is taken over as declared"); }
  }
}
