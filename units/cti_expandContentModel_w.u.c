//@ unit cti_expandContentModel_w
//@ props C08 C01
//@ kind W
//@ def quick MAXOCC=3
//@ def thorough MAXOCC=6
//@ cbmc quick --unwind 15 --unwinding-assertions
//@ cbmc thorough --unwind 21 --unwinding-assertions
//@ entry h_expand
//@ note W: ComplexTypeInfo::expandContentModel (particle with an occurrence range -> content-spec tree) for every minOccurs in 0..MAXOCC, maxOccurs in 0..MAXOCC or unbounded (-1), both values of bAllowCompactSyntax and every kind of repeated particle; loops (one new node per repetition) unwound completely
//@ note trusted stubs: `new (fMemoryManager) ContentSpecNode(type, first, second, adoptFirst, adoptSecond, mgr)` takes the next record of a static node pool and stores exactly these arguments (the constructor proper is not extracted); setMinOccurs / setMaxOccurs store; `delete` in the out-of-memory handlers is never reached (the pool does not fail)
//@ note the harness measures the result tree: how many repetitions of the original particle it admits at least / at most (Leaf = 1..1, a? = 0..hi, a* = 0..inf, a+ = lo..inf, (a,b) = sums, Loop = min*lo..max*hi); for these node kinds the admitted counts form an interval, so equality of both ends with (minOccurs, maxOccurs) is equality of the languages; ownership: every node of the tree is adopted by exactly one parent (ContentSpecNode's destructor deletes adopted children: two adopting parents = double delete, none = leak)
#define VERIF_DEFINE_GHOSTS
#include "verif_prelude.h"
//@ enum src/xercesc/validators/common/ContentSpecNode.hpp NodeTypes ContentSpecNode_ scope=ContentSpecNode
#define NPOOL (2 * MAXOCC + 6)
#define INF 1000
typedef struct ContentSpecNode ContentSpecNode;
struct ContentSpecNode { int type; ContentSpecNode *first, *second; _Bool adoptFirst, adoptSecond; int minOccurs, maxOccurs; };
struct { ContentSpecNode n[NPOOL]; } POOL; int NN;
ContentSpecNode PARTICLE;
MemoryManager *fMemoryManager;
static ContentSpecNode* CSN_new(int type, ContentSpecNode *first, ContentSpecNode *second, bool adoptFirst, bool adoptSecond, MemoryManager *mgr)
{
  __CPROVER_assert(NN < NPOOL, "C01: expandContentModel creates at most 2 * (occurrence bound) + 6 nodes");
  ContentSpecNode *r = &POOL.n[NN < NPOOL ? NN : 0]; NN++;
  r->type = type; r->first = first; r->second = second; r->adoptFirst = adoptFirst; r->adoptSecond = adoptSecond; r->minOccurs = 1; r->maxOccurs = 1;
  return r;
}
static void CSN_setMin(ContentSpecNode *n, int v) { n->minOccurs = v; }
static void CSN_setMax(ContentSpecNode *n, int v) { n->maxOccurs = v; }
static void CSN_delete(ContentSpecNode *n) { __CPROVER_assert(0, "C01: out-of-memory handler reached without an allocation failure"); }

/*@extract src/xercesc/validators/schema/ComplexTypeInfo.cpp ComplexTypeInfo::expandContentModel
as CTI_expandContentModel
sub* new \(fMemoryManager\) ContentSpecNode\s*\( => CSN_new(
sub* (\w+)->setMinOccurs\( => CSN_setMin(\1, 
sub* (\w+)->setMaxOccurs\( => CSN_setMax(\1, 
sub* (\w+)->getType\(\) => \1->type
sub* delete (\w+); => CSN_delete(\1);
@*/

/* repetitions of PARTICLE admitted by the tree rooted at n: lo / hi (INF = unbounded); depth-bounded recursion written as a loop
 * over the pool in creation order (children are created before their parents) */
int LO[NPOOL + 1], HI[NPOOL + 1];
static int idx(const ContentSpecNode *n) { return n == &PARTICLE ? NPOOL : (int)(n - &POOL.n[0]); }
static int cap(int v) { return v >= INF ? INF : v; }

void h_expand(void)
{
  int minOccurs, maxOccurs; unsigned char compact;
  VERIF_INPUT(minOccurs); VERIF_INPUT(maxOccurs); VERIF_INPUT(compact); VERIF_INPUT(PARTICLE); VERIF_INPUT(POOL);
  VERIF_ASSUME(minOccurs >= 0 && minOccurs <= MAXOCC);
  VERIF_ASSUME(maxOccurs == -1 || (maxOccurs >= minOccurs && maxOccurs >= 1 && maxOccurs <= MAXOCC));   /* maxOccurs = 0 never reaches expandContentModel (the particle is dropped) */
  VERIF_ASSUME(PARTICLE.type == ContentSpecNode_Leaf || PARTICLE.type == ContentSpecNode_Sequence || PARTICLE.type == ContentSpecNode_Choice || PARTICLE.type == ContentSpecNode_Any || PARTICLE.type == ContentSpecNode_Any_Other_Lax || PARTICLE.type == ContentSpecNode_Any_NS_Skip || PARTICLE.type == ContentSpecNode_All);
  NN = 0; verif_thrown = 0; fMemoryManager = 0;
  ContentSpecNode *root = CTI_expandContentModel(&PARTICLE, minOccurs, maxOccurs, (compact & 1) != 0);
  VERIF_CANARY("after expandContentModel");
  __CPROVER_assert(!verif_thrown && root != 0, "C08: a particle expands to a tree");
  __CPROVER_assert(NN <= NPOOL, "C01: node pool bound");
  LO[NPOOL] = 1; HI[NPOOL] = 1;
  int owners[NPOOL + 1]; for (int k = 0; k <= NPOOL; k++) owners[k] = 0;
  for (int k = 0; k < NPOOL; k++) if (k < NN) {
    ContentSpecNode *n = &POOL.n[k];
    __CPROVER_assert(n->first != 0 && (n->first == &PARTICLE || idx(n->first) < k), "C08: first child is the particle or an earlier node");
    int a = idx(n->first), lo = LO[a], hi = HI[a], lo2 = 0, hi2 = 0;
    if (n->adoptFirst) owners[a]++;
    if (n->second) {
      __CPROVER_assert(n->second == &PARTICLE || idx(n->second) < k, "C08: second child is the particle or an earlier node");
      int b = idx(n->second); lo2 = LO[b]; hi2 = HI[b];
      if (n->adoptSecond) owners[b]++;
    }
    if (n->type == ContentSpecNode_ZeroOrOne) { LO[k] = 0; HI[k] = hi; }
    else if (n->type == ContentSpecNode_ZeroOrMore) { LO[k] = 0; HI[k] = hi == 0 ? 0 : INF; }
    else if (n->type == ContentSpecNode_OneOrMore) { LO[k] = lo; HI[k] = hi == 0 ? 0 : INF; }
    else if (n->type == ContentSpecNode_Sequence) { __CPROVER_assert(n->second != 0, "C08: a sequence node has two children"); LO[k] = cap(lo + lo2); HI[k] = cap(hi + hi2); }
    else if (n->type == ContentSpecNode_Loop) {
      /* Loop(min, max) under a star or plus node (the compact form read by DFAContentModel as a counted repetition of the leaf): the wrapper only says
       * whether zero repetitions are allowed; the counts are the loop's */
      LO[k] = cap(n->minOccurs * lo); HI[k] = n->maxOccurs == -1 ? INF : cap(n->maxOccurs * hi);
    }
    else { __CPROVER_assert(0, "C08: expandContentModel creates only ? * + sequence and loop nodes"); LO[k] = 0; HI[k] = 0; }
  }
  int r = idx(root);
  int lo = LO[r], hi = HI[r];
  /* the compact form: (Loop){min,max} wrapped in a star (min = 0) or plus node: the wrapper's own repetition is not a further multiplication */
  if (root != &PARTICLE && (root->type == ContentSpecNode_ZeroOrMore || root->type == ContentSpecNode_OneOrMore) && root->first != &PARTICLE && root->first->type == ContentSpecNode_Loop) {
    VERIF_CANARY("compact form reachable");
    __CPROVER_assert((root->type == ContentSpecNode_ZeroOrMore) == (minOccurs == 0), "C08: the compact loop is wrapped in * exactly when zero occurrences are allowed");
    lo = LO[idx(root->first)]; hi = HI[idx(root->first)];
  }
  __CPROVER_assert(lo == minOccurs, "C08: the expanded content model requires exactly minOccurs repetitions of the particle");
  __CPROVER_assert(hi == (maxOccurs == -1 ? INF : maxOccurs), "C08: the expanded content model admits exactly maxOccurs repetitions of the particle (unbounded for -1)");
  /* ownership */
  int g; VERIF_INPUT(g); VERIF_ASSUME(g >= 0 && g <= NPOOL && (g < NN || g == NPOOL));
  if (g == r) { __CPROVER_assert(owners[g] == 0, "C01: the returned root is owned by the caller only"); }
  else { __CPROVER_assert(owners[g] == 1, "C01: every other node of the expanded tree (the particle included) is adopted by exactly one parent: no double delete, no leak"); }
}
