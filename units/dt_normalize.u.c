//@ unit dt_normalize
//@ props C09
//@ kind P
//@ def all FB=1048576
//@ enforce XMLDateTime_normalize
//@ entry h_dt_normalize
//@ note P: loop contract on the day-carry loop (any number of iterations, termination by a decreases clause). Domain: every call site -- validated date/time fields with a parsed time zone, the +-14:00 probe of compareResult(), and negative durations (parseDuration stores the sign as fValue[utc] = UTC_NEG, so compareOrder() sends their month/day/hour/minute fields through normalize() with a zero time zone): every field |f| <= FB = 2^20 (stated bound, keeps 32-bit arithmetic from overflowing), |tz hh| <= 14, |tz mm| <= 59
//@ note proved: every field ends in range (month 1..12, 1 <= day <= days of that month per Appendix E, hour 0..23, minute 0..59), seconds and time zone untouched, result marked UTC_STD, objects without a time zone untouched, and the call sites of maxDayInMonthFor pass months 0..12 only. Preservation of the instant is in dt_normalize_instant.
//@ note cbmc 6.11 legacy loop contracts: a `break` that sits in its own block (`else { break; }`) of a while(1) loop gets the loop-exit bookkeeping twice and the second copy reads dead variables (spurious "loop instrumentation was not truncated"). The two tiny sub rules turn that `break;` into `goto verif_out;` with the label right after the loop, behind an unreachable assume(0) -- same control flow.
//@ note div() is modelled per ISO C99 7.20.6.2 (spec/gregorian.h)
#define VERIF_DEFINE_GHOSTS
#define SPEC_NEED_DIV_MODEL
#include "verif_prelude.h"
#include "gregorian.h"
//@ enum src/xercesc/util/XMLDateTime.hpp valueIndex - scope=XMLDateTime
//@ enum src/xercesc/util/XMLDateTime.hpp utcType - scope=XMLDateTime
//@ enum src/xercesc/util/XMLDateTime.hpp timezoneIndex - scope=XMLDateTime
//@ struct src/xercesc/util/XMLDateTime.hpp XMLDateTime only=auto

XMLSize_t G;   /* ghost index (harness-owned, in no assigns clause) */

/*@extract src/xercesc/util/XMLDateTime.cpp fQuotient
as fQuotient2
pick 1
static
@*/
/*@extract src/xercesc/util/XMLDateTime.cpp fQuotient
as fQuotient3
pick 2
static
call fQuotient => fQuotient2
@*/
/*@extract src/xercesc/util/XMLDateTime.cpp mod
static
@*/
/*@extract src/xercesc/util/XMLDateTime.cpp modulo
static
call fQuotient => fQuotient2
@*/
/*@extract src/xercesc/util/XMLDateTime.cpp isLeapYear
static
@*/
/*@extract src/xercesc/util/XMLDateTime.cpp maxDayInMonthFor
static
sub ^\{ => { __CPROVER_assert(month >= 0 && month <= 12, "C09: normalize passes only months 0..12 to maxDayInMonthFor (domain proved in dt_helpers)");
@*/

#define Y_ ((long long)fValue[CentYear])
#define D_ ((long long)fValue[Day])
#define Y0_ ((long long)__CPROVER_loop_entry(fValue[CentYear]))
#define D0_ ((long long)__CPROVER_loop_entry(fValue[Day]))

/*@extract src/xercesc/util/XMLDateTime.cpp XMLDateTime::normalize
sub fQuotient\(temp, 1, 13\) => fQuotient3(temp, 1, 13)
sub break; => goto verif_out;
sub \}\s*fValue\[utc\] = UTC_STD; => } __CPROVER_assume(0); verif_out: fValue[utc] = UTC_STD;
call fQuotient => fQuotient2
contract
__CPROVER_requires(!verif_thrown && G < TOTAL_SIZE)
__CPROVER_requires(fValue[utc] >= UTC_UNKNOWN && fValue[utc] <= UTC_NEG)
__CPROVER_requires(fValue[CentYear] >= -FB && fValue[CentYear] <= FB && fValue[Month] >= -FB && fValue[Month] <= FB && fValue[Day] >= -FB && fValue[Day] <= FB)
__CPROVER_requires(fValue[Hour] >= -FB && fValue[Hour] <= FB && fValue[Minute] >= -FB && fValue[Minute] <= FB)
__CPROVER_requires(fTimeZone[hh] >= -14 && fTimeZone[hh] <= 14 && fTimeZone[mm] >= -59 && fTimeZone[mm] <= 59)
__CPROVER_assigns(__CPROVER_object_upto(fValue, sizeof(fValue)))
/* no time zone (or already UTC): untouched */
__CPROVER_ensures((__CPROVER_old(fValue[utc]) == UTC_UNKNOWN || __CPROVER_old(fValue[utc]) == UTC_STD) ==> fValue[G] == __CPROVER_old(fValue[G]))
/* otherwise: every field in range, marked UTC */
__CPROVER_ensures((__CPROVER_old(fValue[utc]) == UTC_POS || __CPROVER_old(fValue[utc]) == UTC_NEG) ==> (fValue[utc] == UTC_STD && fValue[Month] >= 1 && fValue[Month] <= 12 && fValue[Day] >= 1 && fValue[Day] <= spec_max_day_in_month(fValue[CentYear], fValue[Month]) && fValue[Hour] >= 0 && fValue[Hour] <= 23 && fValue[Minute] >= 0 && fValue[Minute] <= 59))
__CPROVER_ensures(fValue[Second] == __CPROVER_old(fValue[Second]) && fValue[MiliSecond] == __CPROVER_old(fValue[MiliSecond]))
loop 1
__CPROVER_assigns(temp, carry, fValue[Day], fValue[Month], fValue[CentYear])
__CPROVER_loop_invariant(fValue[Month] >= 1 && fValue[Month] <= 12)
/* going forward (day >= 1): the day shrinks by a month length >= 28 while the year grows by at most 1 */
__CPROVER_loop_invariant((D0_ >= 1) ==> (1 <= D_ && D_ <= D0_ && Y_ >= Y0_ && Y_ - Y0_ <= D0_ - D_))
/* going backwards (day < 1): the abstraction (28 <= month length <= 31) allows one forward step after the last backward one; it ends with day in 1..3 */
__CPROVER_loop_invariant((D0_ < 1) ==> (D0_ <= D_ && D_ <= 31 && Y_ <= Y0_ + ((D_ >= 1 && D_ <= 3) ? 1 : 0) && Y0_ - Y_ <= D_ - D0_ + ((D_ >= 1 && D_ <= 3) ? 31 : 0)))
__CPROVER_loop_invariant(D0_ >= -2 * (long long)FB && D0_ <= 2 * (long long)FB && Y0_ >= -2 * (long long)FB && Y0_ <= 2 * (long long)FB)
__CPROVER_decreases((fValue[Day] < 1) ? 32 - (long long)fValue[Day] : (long long)fValue[Day])
@*/

void h_dt_normalize(void)
{
  VERIF_INPUT(SELF); VERIF_INPUT(G);
  verif_thrown = 0;
  XMLDateTime_normalize();
  VERIF_CANARY("after call");
}
