//@ unit cm_stateset
//@ props C01
//@ kind W
//@ def all NCH=2
//@ def quick CMSTATE_BITFIELD_CHUNK=128 CMSTATE_BITFIELD_INT32_SIZE=(128/32)
//@ def thorough CMSTATE_BITFIELD_CHUNK=256 CMSTATE_BITFIELD_INT32_SIZE=(256/32)
//@ note quick tier: the chunk size of the dynamic representation (CMSTATE_BITFIELD_CHUNK = 1024 bits, CMSTATE_BITFIELD_INT32_SIZE = 32 words in /repo; the header requires a multiple of 128) is rebound to 128 bits / 4 words by -D (the copied #defines are #ifndef-guarded); the code is parametric in it; the thorough tier uses 256 bits / 8 words (the real 1024-bit chunk with 2 chunks does not finish within 1800 s: probed)
//@ cbmc quick --unwind 6 --unwinding-assertions
//@ cbmc thorough --unwind 10 --unwinding-assertions
//@ entry h_cm_stateset
//@ note W: complete for every set in the cached representation (1..128 bits, every content of the 4 words) and every set in the dynamic representation with up to NCH = 2 chunks (129..NCH*chunk bits, each chunk absent or present with any content); every bit index (also out of range); loops fully unwound (4 words, NCH chunks x 32 words), unwinding assertions on
//@ note the non-SSE2 paths are verified (XERCES_HAVE_SSE2_INTRINSIC undefined: the #ifdef blocks inside the bodies are removed by the C preprocessor); the SSE2 paths use compiler intrinsics and are outside the subset
//@ note stubs (trusted): fMemoryManager->allocate for a chunk = a fresh 32-word array from a harness pool (never fails), deallocate = no-op; abstraction function SPEC_BIT = the representation as described in CMStateSet.hpp (word g/32, bit g%32; dynamic: chunk g/1024, absent chunk = all zero)
#define VERIF_DEFINE_GHOSTS
#include "verif_prelude.h"
//@ define src/xercesc/validators/common/CMStateSet.hpp CMSTATE_CACHED_INT32_SIZE
//@ define src/xercesc/validators/common/CMStateSet.hpp CMSTATE_BITFIELD_CHUNK
//@ define src/xercesc/validators/common/CMStateSet.hpp CMSTATE_BITFIELD_INT32_SIZE
//@ struct src/xercesc/validators/common/CMStateSet.hpp CMDynamicBuffer self=none plain
typedef struct CMDynamicBuffer CMDynamicBuffer;
//@ struct src/xercesc/validators/common/CMStateSet.hpp CMStateSet only=auto structs=CMDynamicBuffer

struct { XMLInt32 w[CMSTATE_BITFIELD_INT32_SIZE]; } POOL[NCH + 1]; XMLSize_t POOL_USED;
static void *VERIF_allocate(XMLSize_t n)
{
  VERIF_ASSUME(n == sizeof(POOL[0].w) && POOL_USED <= NCH);
  return POOL[POOL_USED++].w;
}
static void VERIF_deallocate(void *p) { }

/*@extract src/xercesc/validators/common/CMStateSet.hpp CMStateSet::allocateChunk
inclass
static
sub fDynamicBuffer->fMemoryManager->allocate => VERIF_allocate
@*/
/*@extract src/xercesc/validators/common/CMStateSet.hpp CMStateSet::deallocateChunk
inclass
static
sub fDynamicBuffer->fMemoryManager->deallocate => VERIF_deallocate
@*/
/*@extract src/xercesc/validators/common/CMStateSet.hpp CMStateSet::getBit
inclass
ret false
@*/
/*@extract src/xercesc/validators/common/CMStateSet.hpp CMStateSet::setBit
inclass
call allocateChunk => CMStateSet_allocateChunk
@*/
/*@extract src/xercesc/validators/common/CMStateSet.hpp CMStateSet::zeroBits
inclass
call deallocateChunk => CMStateSet_deallocateChunk
@*/
/*@extract src/xercesc/validators/common/CMStateSet.hpp CMStateSet::isEmpty
inclass
@*/
/*@extract src/xercesc/validators/common/CMStateSet.hpp CMStateSet::hashCode
inclass
@*/

struct CMDynamicBuffer DYN; XMLInt32 *BITARR[NCH];
struct { struct { XMLInt32 w[CMSTATE_BITFIELD_INT32_SIZE]; } c[NCH]; } CH;
/* abstraction function: is bit g in the set (g < fBitCount) */
static int SPEC_BIT(XMLSize_t g)
{
  if (fDynamicBuffer == 0) return (int)(((XMLUInt32)fBits[g / 32] >> (g % 32)) & 1u);
  XMLInt32 *c = fDynamicBuffer->fBitArray[g / CMSTATE_BITFIELD_CHUNK];
  if (c == 0) return 0;
  return (int)(((XMLUInt32)c[(g % CMSTATE_BITFIELD_CHUNK) / 32] >> (g % 32)) & 1u);
}

void h_cm_stateset(void)
{
  _Bool dyn, present[NCH]; XMLSize_t bits, b, g;
  VERIF_INPUT(SELF); VERIF_INPUT(CH); VERIF_INPUT(dyn); VERIF_INPUT(bits); VERIF_INPUT(b); VERIF_INPUT(g);
  if (!dyn) {
    VERIF_ASSUME(bits >= 1 && bits <= CMSTATE_CACHED_INT32_SIZE * 32);
    fDynamicBuffer = 0;
  } else {
    VERIF_ASSUME(bits > CMSTATE_CACHED_INT32_SIZE * 32 && bits <= NCH * CMSTATE_BITFIELD_CHUNK);
    DYN.fArraySize = bits / CMSTATE_BITFIELD_CHUNK + ((bits % CMSTATE_BITFIELD_CHUNK) ? 1 : 0);     /* as the constructor computes it */
    DYN.fBitArray = BITARR;
    for (XMLSize_t k = 0; k < NCH; k++) { VERIF_INPUT(present[k]); BITARR[k] = (present[k] && k < DYN.fArraySize) ? CH.c[k].w : (XMLInt32 *)0; }
    fDynamicBuffer = &DYN;
  }
  fBitCount = bits;
  VERIF_ASSUME(g < bits);
  POOL_USED = 0; verif_thrown = 0;

  int before_g = SPEC_BIT(g);
  bool gb = CMStateSet_getBit(b);
  VERIF_CANARY("after getBit");
  if (b >= bits) __CPROVER_assert(verif_thrown && verif_throw_type == VT_ArrayIndexOutOfBoundsException, "C01: getBit beyond the bit count throws ArrayIndexOutOfBoundsException");
  else __CPROVER_assert(!verif_thrown && gb == (SPEC_BIT(b) != 0), "C01: getBit reads the bit of the representation");

  verif_thrown = 0;
  CMStateSet_setBit(b);
  VERIF_CANARY("after setBit");
  if (b >= bits) __CPROVER_assert(verif_thrown && verif_throw_type == VT_ArrayIndexOutOfBoundsException, "C01: setBit beyond the bit count throws ArrayIndexOutOfBoundsException");
  else {
    __CPROVER_assert(!verif_thrown && SPEC_BIT(b) == 1, "C01: setBit sets the bit");
    if (dyn && POOL_USED == 1) VERIF_CANARY("setBit: chunk allocated on demand reachable");
  }
  if (g != b) __CPROVER_assert(SPEC_BIT(g) == before_g, "C01: setBit leaves every other bit alone");

  verif_thrown = 0;
  bool e1 = CMStateSet_isEmpty();
  VERIF_CANARY("after isEmpty");
  if (e1) __CPROVER_assert(SPEC_BIT(g) == 0, "C01: an empty set has no bit set");
  if (b < bits) __CPROVER_assert(!e1, "C01: a set with a bit set is not empty");
  XMLSize_t h = CMStateSet_hashCode();
  VERIF_CANARY("after hashCode");

  CMStateSet_zeroBits();
  VERIF_CANARY("after zeroBits");
  __CPROVER_assert(SPEC_BIT(g) == 0, "C01: zeroBits clears every bit");
  __CPROVER_assert(CMStateSet_isEmpty(), "C01: the set is empty after zeroBits");
}
