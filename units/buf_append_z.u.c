//@ unit buf_append_z
//@ enforce XMLBuffer_append_z
//@ replace XMLBuffer_ensureCapacity
//@ replace memcpy
//@ def all VERIF_MEMCPY_CONTRACT
//@ note memcpy is replaced by its C11 contract (regions valid, different objects; destination object havocked)
//@ entry h_buf_append_z
//@ props C01
//@ kind P
//@ cbmc all --unsigned-overflow-check
//@ note the length loop has a loop contract (unbounded string length <= 2^40, decreases LEN - count); proved for every capacity and every fIndex + count <= 2^40: no size computation wraps, every access in bounds, RI re-established on normal and exceptional exit, frame respected; heap: fBuffer is a dynamic object of (fCapacity+1) XMLCh or more; content clauses are in unit buf_content (W, bounded sizes)
//@ note MemoryManager::allocate never fails in the model (OutOfMemoryException not modelled); callees are replaced by the contracts proved in the other buf_* units; XMLBufferFullHandler::bufferFull (reached only through ensureCapacity) may lower fIndex arbitrarily
#define VERIF_DEFINE_GHOSTS
#include "verif_prelude.h"
#include <stdlib.h>
//@ include XMLBuffer_real.inc

/*@extract src/xercesc/framework/XMLBuffer.cpp XMLBuffer::ensureCapacity
declonly
contract
CONTRACT_ensureCapacity
@*/
/*@extract src/xercesc/framework/XMLBuffer.hpp XMLBuffer::append
inclass
params const XMLCh* const chars
pick 2
as XMLBuffer_append_z
call ensureCapacity => XMLBuffer_ensureCapacity
throws XMLBuffer_ensureCapacity
contract
CONTRACT_append_z
loop 1
__CPROVER_assigns(count)
__CPROVER_loop_invariant(count <= LEN)
__CPROVER_loop_invariant(GS < count ==> chars[GS] != 0)
__CPROVER_decreases(LEN - count)
@*/

void h_buf_append_z(void)
{
  XMLSize_t alloc_extra; _Bool isnull;
  VERIF_INPUT(SELF); VERIF_INPUT(GA); VERIF_INPUT(LEN); VERIF_INPUT(GS); VERIF_INPUT(alloc_extra);
  VERIF_ASSUME(BUF_SIZE_BOUND && alloc_extra <= 16);
  /* setFullHandler may lower fCapacity below the allocated size: the object has (fCapacity + 1 + alloc_extra) characters */
  fBuffer = malloc((fCapacity + 1 + alloc_extra) * sizeof(XMLCh));
  VERIF_INPUT(NEXTSIZE); NEXTBUF = malloc(NEXTSIZE); NEXTUSED = 0;
  VERIF_ASSUME(fBuffer != 0 && NEXTBUF != 0);
  verif_thrown = 0;
  VERIF_INPUT(isnull);
  VERIF_ASSUME(LEN <= VERIF_BUFLEN_MAX && GS <= LEN);
  XMLCh *src = 0;
  if (!isnull) {
    src = malloc((LEN + 1) * sizeof(XMLCh));     /* exactly LEN + 1 characters, NUL at LEN (an earlier NUL is allowed) */
    VERIF_ASSUME(src != 0);
    src[LEN] = 0;
  }
  XMLBuffer_append_z(src);
  VERIF_CANARY("after call");
}
