//@ unit ser_tmpl_NameIdPool_XMLNotationDecl
//@ props C16
//@ kind W
//@ def quick NC=3
//@ def thorough NC=4
//@ def all TAPE_MAX=16
//@ cbmc quick --unwind 9 --unwinding-assertions
//@ cbmc thorough --unwind 11 --unwinding-assertions
//@ entry h_ser_tmpl_NameIdPool_XMLNotationDecl
//@ note W: complete for pools of <= NC declarations (all loops unwound); the real bodies of XTemplateSerializer::storeObject(NameIdPool<XMLNotationDecl>*, serEng) and loadObject(NameIdPool<XMLNotationDecl>**, int, int, serEng) (DTDGrammar::fNotationDeclPool, SchemaGrammar::fNotationDeclPool) run over the tape engine: store mode on a symbolic pool (null / written before / new), then load mode into the owner's empty pool or into none
//@ note container model (contracts/ser_container.inc, trusted stubs): a pool is <= NC entries in ID order (entry i has id i + 1: NameIdPoolEnumerator goes by id); the elements are written IN PLACE (`data.serialize(serEng)`: one record per element, the element's id standing for its content -- the content is the subject of the ser_cls_ unit of the class) and re-created by the load side: `new (mm) XMLNotationDecl(mm)` hands out a fresh object, `data->serialize(serEng)` in load mode pops the record and gives the fresh object the content of the stored element (field orig = the stored element, key string = its key); NameIdPool::put(e) files e under its OWN key getKey() = the notation name, refuses a second element of that key (IllegalArgumentException), and gives the next id
//@ note ASSUMED class invariant of the stored pool (NameIdPool::put is the only way in and files under elem->getKey(); the name of a declaration is not changed afterwards): key == the element's own key; no two entries under equal keys
//@ note the pool is ORDERED by id: the postcondition asks for every stored declaration back at the same id (ids are what DTDAttDef::fElemId and the content models refer to), under the same key, with the content of the stored element; the initial sizes handed to the constructor are the caller's (a negative modulus becomes 16)
//@ note tape engine (contracts/ser_tape.inc): operator<< / operator>> / writeSize / readSize / writeString / readString and the sub-object serialisers (DatatypeValidator::storeDV/loadDV, IdentityConstraint::storeIC/loadIC, Grammar::storeGrammar/loadGrammar, XMLNumber::loadNumber) are trusted stubs that record / check (type tag, value); the tag of a streamed operand comes from its REAL type via _Generic; strings and pointers to serialisable objects are opaque ids (the pointer value stands for the object; loading yields the id that was stored); needToStoreObject / needToLoadObject / registerObject: header record null / reference / new object (contracts/ser_container.inc); the byte-level engine is the subject of units ser_primitives, ser_fillflush, ser_rawbytes
#define VERIF_DEFINE_GHOSTS
#include "verif_prelude.h"
//@ include ser_tape.inc
//@ include ser_container.inc
typedef struct sc_cont NameIdPool_XMLNotationDecl;
typedef struct XMLNotationDecl XMLNotationDecl;
/* elements created by the load side */
int SC_NEWS;
static void* SC_newElem(MemoryManager *mm) { XMLSize_t k = 2 * (NC + 1) - 1 - (SC_NEWS < NC + 1 ? SC_NEWS : NC); SC_NEWS++; SC_ELEM.a[k].orig = 0; SC_ELEM.a[k].name = 0; return SC_EPTR(k); }
/* elem.serialize(serEng): store mode writes one record; load mode gives the receiving object the content of the stored element */
#define SC_elemSerialize(e, eng) SC_elemSerialize_(e)       /* the engine is handed on by reference */
static void SC_elemSerialize_(void *e) {
  if (ENG_STORING) { TAPE_R.tag = TG_ELEMSER; TAPE_R.v = 0; TAPE_R.p = e; TAPE_APPEND("data.serialize") }
  else { TAPE_POP(TG_ELEMSER, "data->serialize") SC_E(e)->orig = TAPE_R.p; if (TAPE_R.p != 0) SC_E(e)->name = SC_E(TAPE_R.p)->name; } }
/*@extract src/xercesc/internal/XTemplateSerializer.cpp XTemplateSerializer::storeObject
params NameIdPool<XMLNotationDecl>
as TS_store
sub NameIdPoolEnumerator<XMLNotationDecl>\s+e\( => SC_ENUM(e, 
sub XMLNotationDecl&\s+data\b => XMLNotationDecl* data_p
pre
#define data (*data_p)
end
streamops serEng
method serEng.needToStoreObject => ENG_needToStoreObject
method serEng.writeSize => ENG_writeSize
method serEng.writeString => ENG_writeString
method serEng.getMemoryManager => ENG_getMemoryManager
method objToStore->getMemoryManager => SC_getMemoryManager
method e.size => SC_enumSize
method e.hasMoreElements => SC_hasMore
method e.nextElement => SC_nextElementRef
method data.serialize => SC_elemSerializeRef
@*/
#undef data
/*@extract src/xercesc/internal/XTemplateSerializer.cpp XTemplateSerializer::loadObject
params NameIdPool<XMLNotationDecl>
as TS_load
sub new\s*\(serEng\.getMemoryManager\(\)\)\s*NameIdPool<XMLNotationDecl>\s*\( => SC_newPool(
sub new\s*\(serEng\.getMemoryManager\(\)\)\s*XMLNotationDecl\s*\( => SC_newElem(
streamops serEng
method serEng.needToLoadObject => ENG_needToLoadObject
method serEng.registerObject => ENG_registerObject
method serEng.readSize => ENG_readSize
method serEng.readString => ENG_readString
method serEng.getMemoryManager => ENG_getMemoryManager
method (*objToLoad)->put => SC_put
method data->serialize => SC_elemSerialize
@*/
#define SC_HARNESS h_ser_tmpl_NameIdPool_XMLNotationDecl
#define SC_NKEYS 1
#define SC_ORDERED 1
#define SC_INVARIANT(i) (SC_S.a[i].key1 == (const void*)SC_ELEM.a[i].name)
#define SC_ENTRY_OK(g) (SC_L.a[g].key1 == SC_S.a[g].key1 && SC_L.a[g].elem != 0 && SC_L.a[g].elem != SC_S.a[g].elem && SC_E(SC_L.a[g].elem)->orig == SC_S.a[g].elem)
#define SC_SETUP_EXTRA SC_NEWS = 0;
#define SC_CHECK_EXTRA if (which == 2) __CPROVER_assert(SC_NEWS == (int)SC_S.n, "C16: one declaration object is created per stored declaration");
#define SC_STORE(obj) TS_store(obj, &ENGINE)
#define SC_LOAD(pp, initSize, adopt, initSize2) TS_load(pp, initSize, initSize2, &ENGINE)
#define SC_CREATION_OK(initSize, adopt, initSize2) (SC_L.initSize == ((initSize) < 0 ? 16 : (initSize)) && SC_L.initSize2 == (initSize2))
//@ include ser_container_harness.inc
