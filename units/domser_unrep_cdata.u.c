//@ unit domser_unrep_cdata
//@ props C12 C01
//@ kind W
//@ def quick NV=4 NRECON=6 NSINK=10
//@ def thorough NV=6 NRECON=8 NSINK=10
//@ cbmc quick --unwind 9 --unwindset DOMLSSerializerImpl_procUnrepCharInCdataSection.0:5,DOMLSSerializerImpl_procUnrepCharInCdataSection.1:5,DOMLSSerializerImpl_procUnrepCharInCdataSection.2:5,XMLString_binToTextUL.2:5,XMLString_binToTextUL.6:5 --unwinding-assertions
//@ cbmc thorough --unwind 9 --unwindset DOMLSSerializerImpl_procUnrepCharInCdataSection.0:7,DOMLSSerializerImpl_procUnrepCharInCdataSection.1:7,DOMLSSerializerImpl_procUnrepCharInCdataSection.2:7,XMLString_binToTextUL.2:5,XMLString_binToTextUL.6:5 --unwinding-assertions
//@ entry h_unrep_cdata
//@ note W: complete for every CDATA text of length <= NV that is well-formed UTF-16 over the alphabet { 'a', ']', U+00E9, U+20AC, lead surrogate D83D, trail surrogate DE00 } x every answer of the transcoder (canTranscodeTo = nondet predicate per alphabet symbol, for the terminator and for supplementary code points); XMLString::binToText (int -> long -> unsigned long overloads, the ones C++ overload resolution picks for an XMLCh argument), stringLen and both loops of procUnrepCharInCdataSection are the real text, fully unwound
//@ note stubs (contracts/domser_stubs.inc): fFormatter->formatBuf and `*fFormatter << ..` feed the streaming reader of the output (CDATA sections + hexadecimal character references; the formatBuf call for a run of representable characters is SINK_buf_cdata, the one for the reference buffer is SINK_buf_ref: same sink, read in one piece), reportError records (severity, code, node), fFormatter->getTranscoder()->canTranscodeTo is TC_canTranscodeTo (table CAN[] given by VERIF_INPUT)
//@ note assumption on the transcoder: it answers alike for a surrogate code unit and for a supplementary code point (every transcoder in the tree does: the table transcoders say no, the UTF-8/16/UCS-4 ones say yes); lone surrogates are excluded (ensureValidString rejects them before the text gets here)
//@ note spec (C12): the character data a parser reads back is the text, in order, nothing lost; a character comes from a character reference (outside any CDATA section, the grammar allows none inside) iff the transcoder cannot represent it, and every reference is to a legal XML character (XML 1.0 WFC "Legal Character": a surrogate code point is none, a supplementary character needs ONE reference to its code point)
#define VERIF_DEFINE_GHOSTS
#include "verif_prelude.h"
//@ enum src/xercesc/dom/DOMError.hpp ErrorSeverity DOMError_ scope=DOMError
//@ enum src/xercesc/util/XMLDOMMsg.hpp Codes XMLDOMMsg_ scope=XMLDOMMsg
//@ enum src/xercesc/framework/XMLFormatter.hpp EscapeFlags XMLFormatter_ scope=XMLFormatter
//@ enum src/xercesc/framework/XMLFormatter.hpp UnRepFlags XMLFormatter_ scope=XMLFormatter
typedef struct DOMNode { int tag; } DOMNode;
//@ table src/xercesc/dom/impl/DOMLSSerializerImpl.cpp gStartCDATA
//@ table src/xercesc/dom/impl/DOMLSSerializerImpl.cpp gEndCDATA
//@ include domser_stubs.inc

MemoryManager *fMemoryManager;   /* member of the serializer: only handed on to binToText (used for its exceptions) */
/* transcoder model */
#define NALPHA 6
static const XMLCh ALPHA[NALPHA] = { 0x61, 0x5D, 0xE9, 0x20AC, 0xD83D, 0xDE00 };
struct { _Bool a[NALPHA]; _Bool nul, supp, other; } CAN;
int CAN_ASKED_OTHER;
static bool TC_canTranscodeTo(unsigned int c)
{
  if (c == 0) return CAN.nul;
  if (c > 0xFFFF) return CAN.supp;
  for (int j = 0; j < NALPHA; j++) if (c == ALPHA[j]) return CAN.a[j];
  CAN_ASKED_OTHER = 1; return CAN.other;
}

/*@extract src/xercesc/util/XMLString.hpp XMLString::stringLen
params const XMLCh* const src
static
@*/
/*@extract src/xercesc/util/XMLString.cpp XMLString::binToText
as XMLString_binToTextUL
params const unsigned long toFormat , XMLCh* const toFill
@*/
/*@extract src/xercesc/util/XMLString.cpp XMLString::binToText
as XMLString_binToTextL
params const long toFormat , XMLCh* const toFill
call binToText => XMLString_binToTextUL
throws XMLString_binToTextUL
@*/
/*@extract src/xercesc/util/XMLString.cpp XMLString::binToText
as XMLString_binToTextI
params const int toFormat , XMLCh* const toFill
call binToText => XMLString_binToTextL
throws XMLString_binToTextL
@*/

/*@extract src/xercesc/dom/impl/DOMLSSerializerImpl.cpp DOMLSSerializerImpl::procUnrepCharInCdataSection
call XMLString::stringLen => XMLString_stringLen
call XMLString_binToText => XMLString_binToTextI
throws XMLString_binToTextI
sub fFormatter->getTranscoder\(\)->canTranscodeTo\( => TC_canTranscodeTo(
sub \*fFormatter << XMLFormatter::NoEscapes << (gStartCDATA|gEndCDATA); => SINK_mode(XMLFormatter::NoEscapes); SINK_str(\1);
sub fFormatter->formatBuf\s*\(\s*srcPtr => SINK_buf_cdata(srcPtr
sub fFormatter->formatBuf\s*\(\s*tmpBuf => SINK_buf_ref(tmpBuf
sub reportError\( => SER_reportError(
@*/

struct { XMLCh a[NV + 1]; } VAL;
DOMNode NODE_TAG;

void h_unrep_cdata(void)
{
  XMLSize_t n;
  VERIF_INPUT(VAL); VERIF_INPUT(n); VERIF_INPUT(CAN); VERIF_INPUT(FATAL_THROWS);
  VERIF_ASSUME(n <= NV);
  XMLCh *s = VAL.a + (NV - n);
  VERIF_ASSUME(s[n] == 0);
  int idx[NV]; _Bool rep[NV]; int any_unrep = 0, any_pair = 0;
  for (XMLSize_t k = 0; k < NV; k++) if (k < n) {
    int j = -1; for (int q = 0; q < NALPHA; q++) if (s[k] == ALPHA[q]) j = q;
    VERIF_ASSUME(j >= 0); idx[k] = j;
    /* well-formed UTF-16 */
    if (j == 4) VERIF_ASSUME(k + 1 < n && s[k + 1] == ALPHA[5]);
    if (j == 5) VERIF_ASSUME(k >= 1 && s[k - 1] == ALPHA[4]);
    if (j >= 4) any_pair = 1;
    rep[k] = (j >= 4) ? CAN.supp : CAN.a[j];
    if (!rep[k]) any_unrep = 1;
  }
  VERIF_ASSUME(CAN.a[4] == CAN.supp && CAN.a[5] == CAN.supp);
  SER_reset(); ERR_EXPECT_CODE = XMLDOMMsg_Writer_NotRepresentChar; ERR_EXPECT_NODE = &NODE_TAG; CAN_ASKED_OTHER = 0;

  DOMLSSerializerImpl_procUnrepCharInCdataSection(s, &NODE_TAG);
  VERIF_CANARY("after call");
  if (any_unrep && any_pair && !CAN.supp) VERIF_CANARY("an unrepresentable supplementary character is reachable");

  /* the character data read back, as UTF-16 code units: a reference to a supplementary code point stands for its two units */
  XMLCh units[NRECON + 2]; _Bool byref[NRECON + 2]; XMLSize_t ul = 0; int illegal_ref = 0;
  for (XMLSize_t k = 0; k < NRECON; k++) if (k < RL) {
    unsigned int v = RECON.a[k];
    if (RECON_REF.a[k] && (v == 0 || (v >= 0xD800 && v <= 0xDFFF) || v == 0xFFFE || v == 0xFFFF || v > 0x10FFFF)) illegal_ref = 1;
    if (ul + 2 <= NRECON + 2) {
      if (v > 0xFFFF) { units[ul] = (XMLCh)(0xD800 + ((v - 0x10000) >> 10)); byref[ul++] = RECON_REF.a[k]; units[ul] = (XMLCh)(0xDC00 + ((v - 0x10000) & 0x3FF)); byref[ul++] = RECON_REF.a[k]; }
      else { units[ul] = (XMLCh)v; byref[ul++] = RECON_REF.a[k]; }
    }
  }

  SINK_check_tables();
  __CPROVER_assert(!verif_thrown && ERR_FATALS == 0, "C12: no failure: every character of a CDATA text can be written one way or the other");
  __CPROVER_assert(!CAN_ASKED_OTHER, "C12: the transcoder is asked about characters of the text only");
  __CPROVER_assert(!SINK_ESCAPED && !SINK_UNREP_NOT_FAIL, "C12: everything is written with NoEscapes / UnRep_Fail");
  __CPROVER_assert(RD_WF && RD_STATE == RD_TOP && !RECON_OVER, "C12: the output consists of complete CDATA sections and complete character references");
  __CPROVER_assert(!illegal_ref, "C12: every character reference written refers to a legal XML character (a supplementary character is ONE reference to its code point, never references to its surrogates)");
  __CPROVER_assert(ul == n, "C12: the character data read back has the length of the text (nothing lost, nothing added)");
  for (XMLSize_t k = 0; k < NV; k++) if (k < n && k < ul) {
    __CPROVER_assert(units[k] == s[k], "C12: the character data read back is the text, in order");
    __CPROVER_assert(byref[k] == !rep[k], "C12: a character is written as a character reference outside CDATA iff the transcoder cannot represent it, inside a CDATA section otherwise");
  }
  __CPROVER_assert((ERR_WARNINGS >= 1) == (any_unrep != 0) && ERR_COUNT == ERR_WARNINGS && !ERR_OTHER_CODE && !ERR_WRONG_NODE, "C12: warning Writer_NotRepresentChar on the node iff some character is unrepresentable");
}
