//@ unit scan_attvalue_basic_ig_rn_w
//@ props C02 C03 C01
//@ kind W
//@ def quick NIN=5
//@ def thorough NIN=9
//@ cbmc all --unwind 13 --unwinding-assertions --arrays-uf-always
//@ timeout quick=600 thorough=1800
//@ entry h_basicAttrValueScan
//@ note variant with per-character reader (entity) numbers: a quote character that comes from a nested entity is data, only a quote from the reader the value started in closes it, one from an outer reader is PartialMarkupInEntity
//@ note W: complete for every character sequence of length <= NIN without '&' (entity and character references are out of this unit's scope: scanEntityRef is not extractable; its stub is an unreachable assert)
//@ note single entity: the reader abstraction (contracts/scanner_stubs2.inc) has a constant reader number and never throws EndOfEntityException; the try/catch of the function is translated (R14), not removed; emitError message arguments and binToText formatting are not modelled
//@ note a literal '<' is NOT rejected by the raw scan: it stays in the raw value and its rejection (BracketInAttrValue) is the obligation of the normaliser every raw value goes through (attnorm_*_raw / attnorm_*_value); the verdict asserted here is the raw scan's own (quotes, Char, surrogate pairs, termination)
#define VERIF_DEFINE_GHOSTS
#include "verif_prelude.h"
#define RM_READERNUM_CUSTOM 1
/* reader numbers: RNUM[k] = number of the reader (entity) character k comes from; nested entities have larger numbers */
#ifndef NIN
#error NIN
#endif
struct { XMLSize_t a[NIN]; } RNUM; XMLSize_t RNUM_START;
static XMLSize_t RM_getCurrentReaderNum(void);
//@ include scanner_stubs2.inc
//@ enum src/xercesc/internal/XMLScanner.hpp EntityExpRes - scope=XMLScanner
void *fMemoryManager;
static void XMLString_binToText(unsigned int v, XMLCh *buf, unsigned int maxc, unsigned int radix, void *mm) { buf[0] = 0; }
static int SC_scanEntityRef_p(bool inAtt, XMLCh *a, XMLCh *b, bool *esc) { __CPROVER_assert(0, "scanEntityRef is unreachable without '&' in the input"); return EntityExp_Failed; }
#define SC_scanEntityRef(inAtt, a, b, e) SC_scanEntityRef_p(inAtt, &(a), &(b), &(e))

/*@extract src/xercesc/internal/IGXMLScanner2.cpp IGXMLScanner::basicAttrValueScan
ret false
method toFill.reset => XB_reset
method toFill.append => XB_append
sub* fReaderMgr\.skipIfQuote\( => RM_skipIfQuote(
sub* fReaderMgr\.getCurrentReaderNum\( => RM_getCurrentReaderNum(
sub* fReaderMgr\.getNextChar\( => RM_getNextChar(
sub* fReaderMgr\.getCurrentReader\(\)->isXMLChar\( => RD_isXMLChar(
sub* (?<![\w>])emitError\( => SC_emitErrorV(
sub* (?<![\w>])scanEntityRef\( => SC_scanEntityRef(
@*/
#define SC_BASIC_CALL IGXMLScanner_basicAttrValueScan
//@ include scan_attvalue_basic_rn_harness.inc
