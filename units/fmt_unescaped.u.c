//@ unit fmt_unescaped
//@ props C12 C01
//@ kind P
//@ def quick kTmpBufSize=4 NS=8
//@ def thorough kTmpBufSize=8 NS=24
//@ rebind src/xercesc/framework/XMLFormatter.hpp kTmpBufSize
//@ enforce XMLFormatter_handleUnEscapedChars
//@ replace XMLTranscoder_transcodeTo
//@ replace XMLFormatTarget_writeChars
//@ entry h_fmt_unescaped
//@ note P: the number of transcoding rounds is unbounded (loop contract with decreases clause); only the size of the object holding the source text is bounded by -DNS (cbmc needs finite objects)
//@ note XMLTranscoder::transcodeTo (pure virtual) is contract-only = T_iface, the documented interface of every transcoder (TransService.hpp: "charsEaten: the number of source characters consumed ... may be less than srcCount"; returns the bytes stored, <= maxBytes): BOTH may be 0. XMLUTF8Transcoder, XMLUTF16Transcoder and XMLUCS4Transcoder really return charsEaten == 0 for a chunk that consists of a lone leading surrogate ("give up now and leave it for next time"). The signature is taken from XMLUTF8Transcoder::transcodeTo
//@ note XMLFormatTarget::writeChars (pure virtual) is contract-only; signature from MemBufFormatTarget::writeChars
//@ note "every source character reaches the target exactly once" is stated on ghosts: GH_consumed (characters eaten so far; each transcodeTo call must start exactly at GH_src0 + GH_consumed and may only be offered unconsumed characters), GH_pending / GH_lastOut (a produced byte block must be handed to writeChars, whole and once, before the next transcodeTo call overwrites fTmpBuf)
#define VERIF_DEFINE_GHOSTS
#include "verif_prelude.h"

typedef int UnRepFlags;
typedef int UnRepOpts;
typedef int XMLTranscoder_UnRepOpts;
typedef struct XMLFormatter XMLFormatter;
//@ enum src/xercesc/framework/XMLFormatter.hpp UnRepFlags - scope=XMLFormatter
//@ enum src/xercesc/util/TransService.hpp UnRepOpts XMLTranscoder_ scope=XMLTranscoder
//@ struct src/xercesc/framework/XMLFormatter.hpp XMLFormatter only=auto
struct XMLTranscoder { char opaque; };
struct XMLFormatTarget { char opaque; };

/* ghosts (harness-owned) */
const XMLCh *GH_src0;      /* start of the text handed to handleUnEscapedChars */
XMLSize_t GH_total;        /* its length */
XMLSize_t GH_consumed;     /* characters eaten by the transcoder so far */
_Bool GH_pending;          /* fTmpBuf holds a produced block that has not been written yet */
XMLSize_t GH_lastOut;      /* size of that block */

/*@extract src/xercesc/util/XMLUTF8Transcoder.cpp XMLUTF8Transcoder::transcodeTo
as XMLTranscoder_transcodeTo
selfparam XMLTranscoder
declonly
contract
__CPROVER_requires(!verif_thrown)
/* the caller offers at least one character, only characters not yet consumed, starting at the first unconsumed one */
__CPROVER_requires(srcCount >= 1 && GH_consumed <= GH_total && srcCount <= GH_total - GH_consumed)
__CPROVER_requires(__CPROVER_same_object(srcData, GH_src0) && __CPROVER_POINTER_OFFSET(srcData) == __CPROVER_POINTER_OFFSET(GH_src0) + GH_consumed * sizeof(XMLCh))
/* the previous block has been delivered */
__CPROVER_requires(!GH_pending)
/* output area: maxBytes bytes inside fTmpBuf plus room for the caller's four terminator bytes */
__CPROVER_requires(maxBytes >= 1 && __CPROVER_same_object(toFill, fTmpBuf) && __CPROVER_POINTER_OFFSET(toFill) - OFS_XMLFormatter_fTmpBuf + maxBytes + 4 <= sizeof(fTmpBuf))
__CPROVER_requires(__CPROVER_w_ok(charsEaten_p, sizeof(*charsEaten_p)))
__CPROVER_assigns(*charsEaten_p, __CPROVER_object_upto(toFill, maxBytes), GH_consumed, GH_pending, GH_lastOut, verif_thrown, verif_throw_type, verif_throw_code)
/* T_iface */
__CPROVER_ensures(__CPROVER_return_value <= maxBytes && *charsEaten_p <= srcCount)
__CPROVER_ensures(verif_thrown ==> (__CPROVER_return_value == 0 && *charsEaten_p == 0))
__CPROVER_ensures(GH_consumed == __CPROVER_old(GH_consumed) + *charsEaten_p)
__CPROVER_ensures(GH_lastOut == __CPROVER_return_value && GH_pending == (__CPROVER_return_value != 0))
@*/

/*@extract src/xercesc/framework/MemBufFormatTarget.cpp MemBufFormatTarget::writeChars
as XMLFormatTarget_writeChars
selfparam XMLFormatTarget
declonly
contract
/* exactly the block just produced, whole */
__CPROVER_requires(!verif_thrown && GH_pending && count == GH_lastOut && count >= 1)
__CPROVER_requires(__CPROVER_same_object(toWrite, fTmpBuf) && __CPROVER_POINTER_OFFSET(toWrite) == OFS_XMLFormatter_fTmpBuf)
__CPROVER_requires(count + 4 <= sizeof(fTmpBuf) && toWrite[count] == 0 && toWrite[count + 1] == 0 && toWrite[count + 2] == 0 && toWrite[count + 3] == 0)
__CPROVER_assigns(GH_pending)
__CPROVER_ensures(!GH_pending)
@*/

/*@extract src/xercesc/framework/XMLFormatter.cpp XMLFormatter::handleUnEscapedChars
ret 0
method fXCoder->transcodeTo => XMLTranscoder_transcodeTo
method fTarget->writeChars => XMLFormatTarget_writeChars
throws XMLTranscoder_transcodeTo
sub \bthis\b => (&SELF)
contract
__CPROVER_requires(!verif_thrown && oCount <= NS)
__CPROVER_requires(srcPtr == GH_src0 && oCount == GH_total && GH_consumed == 0 && !GH_pending)
__CPROVER_requires(__CPROVER_r_ok(srcPtr, oCount * sizeof(XMLCh)))
__CPROVER_assigns(__CPROVER_object_upto(fTmpBuf, sizeof(fTmpBuf)), GH_consumed, GH_pending, GH_lastOut, verif_thrown, verif_throw_type, verif_throw_code)
/* C12: every character consumed exactly once, every produced block delivered */
__CPROVER_ensures(!verif_thrown ==> (GH_consumed == GH_total && !GH_pending))
__CPROVER_ensures(!verif_thrown ==> __CPROVER_return_value == __CPROVER_old(oCount))
loop 1
__CPROVER_assigns(count, srcPtr, charsEaten, __CPROVER_object_upto(fTmpBuf, sizeof(fTmpBuf)), GH_consumed, GH_pending, GH_lastOut, verif_thrown, verif_throw_type, verif_throw_code)
__CPROVER_loop_invariant(!verif_thrown && !GH_pending && count <= oCount && GH_consumed == oCount - count)
__CPROVER_loop_invariant(__CPROVER_same_object(srcPtr, GH_src0) && __CPROVER_POINTER_OFFSET(srcPtr) == __CPROVER_POINTER_OFFSET(GH_src0) + GH_consumed * sizeof(XMLCh))
/* C01 termination: every round must consume at least one character */
__CPROVER_decreases(count)
@*/

struct { XMLCh a[NS]; } SRC;
struct XMLTranscoder XC;
struct XMLFormatTarget TG;
void h_fmt_unescaped(void)
{
  XMLSize_t n; int unrep;
  VERIF_INPUT(SELF); VERIF_INPUT(SRC); VERIF_INPUT(n); VERIF_INPUT(unrep);
  VERIF_ASSUME(n <= NS);
  fXCoder = &XC; fTarget = &TG;
  GH_src0 = SRC.a + (NS - n); GH_total = n; GH_consumed = 0; GH_pending = 0;
  verif_thrown = 0;
  XMLFormatter_handleUnEscapedChars(GH_src0, n, unrep);
  VERIF_CANARY("after call");
}
