//@ unit c11_range_match
//@ props C11
//@ kind B
//@ def quick NR=3 MAPSIZE=32 VMAX=95
//@ def thorough NR=3 MAPSIZE=32 VMAX=95
//@ rebind src/xercesc/util/regx/RangeToken.cpp MAPSIZE
//@ cbmc quick --unwind 5 --unwindset RangeToken_doCreateMap.1:34 --unwinding-assertions
//@ cbmc thorough --unwind 5 --unwindset RangeToken_doCreateMap.1:34 --unwinding-assertions
//@ entry h_c11_range_match
//@ note B: bounded stand-in (never a proof of C11): a sorted, compacted token (what the parsers hand to the matcher) of type T_RANGE or T_NRANGE with 1..NR ranges over 0..VMAX, with the bitmap size MAPSIZE rebound to 32 (quick) / 64 (thorough) so that the bitmap fill loop can be unwound; VMAX = 3*MAPSIZE-1 resp. 4*MAPSIZE-1, so ranges lie below, above and across the MAPSIZE boundary; ghost character ch on both sides of it
//@ note checked: match(ch) == (ch in the range list) for T_RANGE and the negation for T_NRANGE, in particular for a range that starts below MAPSIZE and ends at or above it (fNonMapIndex must point at that range); bitmap allocation of exactly MAPSIZE/32 ints
//@ note `1<<(k&0x1F)` is written `(int)(1u<<(k&0x1F))` by two sub rules: for k&0x1F == 31 the C semantics cbmc applies calls the shift undefined, C++ (CWG 1457, C++14) defines it; the bit pattern is the same
#define VERIF_DEFINE_GHOSTS
#include <assert.h>
#include "verif_prelude.h"
//@ include RangeToken_c11.inc

/*@extract src/xercesc/util/regx/RangeToken.cpp RangeToken::doCreateMap
selfparam RangeToken
sub fMemoryManager->allocate\s*\( => verif_alloc(
sub 1<<\(k&0x1F\) => (int)(1u<<(k&0x1F))
sub (?<![\w>.])(fRanges|fElemCount|fMaxCount|fSorted|fCompacted|fMap|fNonMapIndex|fCaseIToken)\b => self->\1
@*/
/*@extract src/xercesc/util/regx/RangeToken.hpp RangeToken::createMap
selfparam RangeToken
sub (?<![\w>.])doCreateMap\(\) => RangeToken_doCreateMap(self)
sub (?<![\w>.])(fRanges|fElemCount|fMaxCount|fSorted|fCompacted|fMap|fNonMapIndex|fCaseIToken)\b => self->\1
@*/
/*@extract src/xercesc/util/regx/RangeToken.cpp RangeToken::match
selfparam RangeToken
sub (?<![\w>.])createMap\(\) => RangeToken_createMap(self)
sub (?<![\w>.])getTokenType\(\) => TOKTYPE(self)
sub \(1<<\(ch&0x1f\)\) => ((int)(1u<<(ch&0x1f)))
sub (?<![\w>.])(fRanges|fElemCount|fMaxCount|fSorted|fCompacted|fMap|fNonMapIndex|fCaseIToken)\b => self->\1
@*/

struct RTok A;

void h_c11_range_match(void)
{
  unsigned n; XMLInt32 ch; _Bool neg;
  ARENA_INPUT() VERIF_INPUT(n); VERIF_INPUT(ch); VERIF_INPUT(neg);
  VERIF_ASSUME(n >= 1 && n <= NR && ch >= 0 && ch <= VMAX);
  mk_token(&A, neg ? T_NRANGE : T_RANGE, n, 2 * NR, 1, 1);
  WELLFORMED(A.rt.fRanges, n)
  COMPACT(A.rt.fRanges, n)
  int member = spec_member(A.rt.fRanges, 2 * n, ch);
  verif_thrown = 0;
  bool r = RangeToken_match(&A.rt, ch);
  VERIF_CANARY("after call");
  __CPROVER_assert(!verif_thrown, "C11(bounded): match does not throw");
  __CPROVER_assert((r != 0) == (neg ? !member : member), "C11(bounded): match(ch) agrees with the range list below, above and across MAPSIZE (negated for T_NRANGE)");
  /* second look-up on the cached map */
  XMLInt32 ch2; VERIF_INPUT(ch2); VERIF_ASSUME(ch2 >= 0 && ch2 <= VMAX);
  bool r2 = RangeToken_match(&A.rt, ch2);
  __CPROVER_assert((r2 != 0) == (neg ? !spec_member(A.rt.fRanges, 2 * n, ch2) : spec_member(A.rt.fRanges, 2 * n, ch2)), "C11(bounded): match answers from the cached map consistently");
}
