//@ unit attnorm_sg_value
//@ props C03 C01
//@ kind W
//@ def quick NV=5
//@ def thorough NV=8
//@ cbmc all --unwind 11 --unwinding-assertions
//@ entry h_attnorm
//@ note W: complete for every raw attribute value of length < NV (all 16-bit units, incl. escape markers), every declared type, standalone/validate flags
//@ note SGXMLScanner never receives DTD attribute definitions: type Enumeration is excluded by an assumption
//@ note stubs: XMLAttDef accessors, reader isWhitespace = production [3] S, XMLBuffer as a concrete array, emitError counters (trusted harness models)
#define VERIF_DEFINE_GHOSTS
#include "verif_prelude.h"
//@ include attnorm_common.inc

/*@extract src/xercesc/internal/SGXMLScanner.cpp SGXMLScanner::normalizeAttValue
as SC_normalizeAttValue
ret false
sub attDef->getType\(\) => AD_getType(attDef)
sub attDef->isExternal\(\) => AD_isExternal(attDef)
sub fReaderMgr\.getCurrentReader\(\)->isWhitespace\( => RD_isWhitespace(
sub fValidator->emitError\((XMLValid::\w+), attName\) => VA_emitError(\1)
sub (?<![\w>])emitError\((XMLErrs::\w+), attName\) => SC_emitError(\1)
sub \bStates curState => enum States curState
method toFill.reset => XB_reset
method toFill.append => XB_append
@*/
#define SC_CALL(def, val, out) SC_normalizeAttValue(def, (const XMLCh*)0, val, out)
#define HAS_TYPE 1
#define ATTNORM_NO_ENUMERATION 1
//@ include attnorm_harness.inc
