//@ unit fmt_membuf
//@ props C12 C01
//@ kind W
//@ cbmc all --unwind 45 --unwinding-assertions
//@ entry h_fmt_membuf
//@ note W: the functions are loop-free as they stand; an unwinding bound of 45 (more than log2 of the size range) is given so that a growth LOOP, should one be introduced, is still judged (memcpy is cbmc's built-in model); symbolic capacity, fill level and block size, each <= 2^40 bytes (MAXSZ): "growth arithmetic does not wrap" is proved for that range only (at 2^63 (fIndex + extraNeeded) * 2 does wrap -- unreachable with real allocations)
//@ note MemoryManager::allocate / deallocate are harness stubs = malloc / free (ledger item 6: allocate returns a fresh block of the requested size; OutOfMemory not modelled)
//@ note RI_membuf: fIndex <= fCapacity and fDataBuf points to the start of a heap block of exactly fCapacity + 4 bytes (what the constructor and ensureCapacity allocate)
//@ note content preservation / append are stated for one harness-chosen ghost position G (universal statement without quantifier)
#define VERIF_DEFINE_GHOSTS
#include "verif_prelude.h"
#include <stdlib.h>

typedef struct XMLFormatter XMLFormatter;
//@ struct src/xercesc/framework/MemBufFormatTarget.hpp MemBufFormatTarget only=auto

/* MemoryManagerImpl::allocate never returns NULL (it throws OutOfMemoryException, which is not modelled: ledger item 2) */
static void *MM_allocate(void *mm, XMLSize_t n) { (void)mm; void *p = malloc(n); __CPROVER_assume(p != 0); return p; }
static void MM_deallocate(void *mm, void *p) { (void)mm; free(p); }

/*@extract src/xercesc/framework/MemBufFormatTarget.cpp MemBufFormatTarget::ensureCapacity
method fMemoryManager->allocate => MM_allocate
method fMemoryManager->deallocate => MM_deallocate
@*/
/*@extract src/xercesc/framework/MemBufFormatTarget.cpp MemBufFormatTarget::writeChars
call ensureCapacity => MemBufFormatTarget_ensureCapacity
@*/
/*@extract src/xercesc/framework/MemBufFormatTarget.cpp MemBufFormatTarget::getRawBuffer
@*/
/*@extract src/xercesc/framework/MemBufFormatTarget.cpp MemBufFormatTarget::reset
@*/

#define MAXSZ ((XMLSize_t)1 << 40)
#define RI_MEMBUF (fIndex <= fCapacity && fDataBuf != 0 && __CPROVER_POINTER_OFFSET(fDataBuf) == 0 && \
                   __CPROVER_OBJECT_SIZE(fDataBuf) == fCapacity + 4)

void h_fmt_membuf(void)
{
  XMLSize_t cap, idx, count, G; _Bool do_reset;
  VERIF_INPUT(cap); VERIF_INPUT(idx); VERIF_INPUT(count); VERIF_INPUT(G); VERIF_INPUT(do_reset);
  VERIF_ASSUME(cap <= MAXSZ && idx <= cap && count <= MAXSZ);
  /* state as the constructor / earlier calls leave it */
  fCapacity = cap; fIndex = idx; fMemoryManager = 0;
  fDataBuf = malloc(cap + 4);
  __CPROVER_assume(fDataBuf != 0);
  XMLByte *src = malloc(count);          /* exactly count bytes: reading more leaves the object */
  __CPROVER_assume(src != 0);
  /* ghost: one arbitrary position of the final content */
  VERIF_ASSUME(G < idx + count);
  XMLByte old_at_G = (G < idx) ? fDataBuf[G] : 0;
  XMLByte src_at_G = (G >= idx) ? src[G - idx] : 0;
  verif_thrown = 0;

  MemBufFormatTarget_writeChars(src, count, (XMLFormatter *)0);
  VERIF_CANARY("after call");

  __CPROVER_assert(RI_MEMBUF, "C01: RI_membuf re-established: fIndex <= fCapacity, buffer block of fCapacity + 4 bytes");
  __CPROVER_assert(fIndex == idx + count, "C12: every byte of the block is appended (fill level advances by count)");
  __CPROVER_assert(fCapacity >= cap && fCapacity <= 2 * (idx + count) + cap, "C01: capacity only grows, growth arithmetic does not wrap");
  __CPROVER_assert(G >= idx || fDataBuf[G] == old_at_G, "C12: earlier content preserved (also across reallocation)");
  __CPROVER_assert(G < idx || fDataBuf[G] == src_at_G, "C12: the new block is stored behind the earlier content, in order");

  /* getRawBuffer caps the data with four NUL bytes inside the block and does not disturb the content */
  const XMLByte *raw = MemBufFormatTarget_getRawBuffer();
  __CPROVER_assert(raw == fDataBuf && raw[fIndex] == 0 && raw[fIndex + 3] == 0, "C12: getRawBuffer returns the NUL-capped buffer");
  __CPROVER_assert(G >= idx || raw[G] == old_at_G, "C12: getRawBuffer leaves the content alone (old part)");
  __CPROVER_assert(G < idx || raw[G] == src_at_G, "C12: getRawBuffer leaves the content alone (new part)");
  if (do_reset) {
    MemBufFormatTarget_reset();
    __CPROVER_assert(RI_MEMBUF && fIndex == 0, "C01: reset keeps RI_membuf");
  }
}
