//@ unit rdr_refreshCharBuffer
//@ props C04 C01
//@ kind P
//@ def quick kCharBufSize=6 kRawBufSize=4
//@ def thorough kCharBufSize=12 kRawBufSize=4
//@ rebind src/xercesc/internal/XMLReader.hpp kCharBufSize
//@ rebind src/xercesc/internal/XMLReader.hpp kRawBufSize
//@ enforce XMLReader_refreshCharBuffer
//@ replace XMLReader_xcodeMoreChars
//@ replace XMLTransService_makeNewTranscoderFor
//@ entry h_refreshCharBuffer
//@ note xcodeMoreChars is replaced by the contract proved in unit rdr_xcodeMoreChars (same text: contracts/XMLReader_xcodeMoreChars.contract.inc)
//@ note makeNewTranscoderFor is contract-only (may return NULL or any object; writes *failReason)
#define VERIF_DEFINE_GHOSTS
#include "verif_prelude.h"
//@ enum src/xercesc/framework/XMLRecognizer.hpp Encodings XMLRecognizer_
//@ enum src/xercesc/internal/XMLReader.hpp Types - scope=XMLReader
//@ enum src/xercesc/internal/XMLReader.hpp Sources - scope=XMLReader
//@ enum src/xercesc/internal/XMLReader.hpp RefFrom - scope=XMLReader
//@ enum src/xercesc/internal/XMLReader.hpp XMLVersion - scope=XMLReader
//@ struct src/xercesc/internal/XMLReader.hpp XMLReader only=auto enums=XMLRecognizer_Encodings,RefFrom,Sources,Types,XMLVersion

/* ghost index: harness-chosen, in no assigns clause (universal statement without a quantifier) */
XMLSize_t G;
/* ghosts of the xcodeMoreChars contract (contracts/XMLReader_xcodeMoreChars.contract.inc, proved in unit rdr_xcodeMoreChars):
   GR universal index into the raw bytes (never assigned); the others are observation ghosts written by the stream / transcoder contracts */
XMLSize_t GR, STREAM_R, STREAM_SEQ, XC_SEQ, XC_SRCOFS, XC_SRCCOUNT, XC_EATEN, XC_RET;
typedef int XMLTransService_Codes;
//@ opaque XMLTranscoder

/*@extract src/xercesc/util/TransService.cpp XMLTransService::makeNewTranscoderFor
params const XMLCh* const
declonly
contract
__CPROVER_requires(__CPROVER_w_ok(resValue_p, sizeof(*resValue_p)))
__CPROVER_assigns(*resValue_p)
__CPROVER_ensures(1)
@*/

/*@extract src/xercesc/internal/XMLReader.cpp XMLReader::xcodeMoreChars
declonly
contract
//@ include XMLReader_xcodeMoreChars.contract.inc
@*/

/*@extract src/xercesc/internal/XMLReader.cpp XMLReader::refreshCharBuffer
ret false
call xcodeMoreChars => XMLReader_xcodeMoreChars
throws XMLReader_xcodeMoreChars
sub XMLPlatformUtils::fgTransService->makeNewTranscoderFor => XMLTransService_makeNewTranscoderFor
contract
__CPROVER_requires(fCharIndex <= fCharsAvail && fCharsAvail <= kCharBufSize && !verif_thrown)
__CPROVER_requires(fNoMore ==> fCharIndex == fCharsAvail)
__CPROVER_requires(fRawBufIndex <= fRawBytesAvail && fRawBytesAvail <= kRawBufSize)
__CPROVER_requires(G < kCharBufSize && GR < kRawBufSize)
__CPROVER_assigns(SELF, STREAM_R, STREAM_SEQ, XC_SEQ, XC_SRCOFS, XC_SRCCOUNT, XC_EATEN, XC_RET, verif_thrown, verif_throw_type, verif_throw_code)
/* RI_rdr re-established on normal and exceptional exit */
__CPROVER_ensures(fNoMore ==> fCharIndex == fCharsAvail)
__CPROVER_ensures(fCharIndex <= fCharsAvail && fCharsAvail <= kCharBufSize)
__CPROVER_ensures(fRawBufIndex <= fRawBytesAvail && fRawBytesAvail <= kRawBufSize)
__CPROVER_ensures(verif_thrown ==> !__CPROVER_return_value)
__CPROVER_ensures(__CPROVER_return_value ==> (fCharsAvail >= 1 && fCharIndex == 0))
__CPROVER_ensures((!verif_thrown && !__CPROVER_return_value) ==> fCharIndex == fCharsAvail)
/* the two extra postconditions of contracts/XMLReader_ri2.inc: a successful refill never shrinks the window of unread characters (no ghost guard);
   a refill that reports end-of-data leaves fNoMore set */
__CPROVER_ensures((!verif_thrown && __CPROVER_return_value) ==> fCharsAvail - fCharIndex >= __CPROVER_old(fCharsAvail) - __CPROVER_old(fCharIndex))
__CPROVER_ensures((!verif_thrown && !__CPROVER_return_value) ==> fNoMore)
/* with at least one spare character the refill cannot report end-of-data */
__CPROVER_ensures((!verif_thrown && __CPROVER_old(fCharIndex) < __CPROVER_old(fCharsAvail)) ==> __CPROVER_return_value)
/* C04 refill transparency: every spare (unread) character survives the refill, unchanged and in order, at the front */
__CPROVER_ensures((!verif_thrown && __CPROVER_return_value && G < (__CPROVER_old(fCharsAvail) - __CPROVER_old(fCharIndex))) ==> (fCharIndex == 0 && fCharsAvail >= (__CPROVER_old(fCharsAvail) - __CPROVER_old(fCharIndex)) && fCharBuf[G] == __CPROVER_old(fCharBuf[(fCharIndex + G < kCharBufSize) ? fCharIndex + G : 0])))
__CPROVER_ensures((!verif_thrown && __CPROVER_return_value && G < (__CPROVER_old(fCharsAvail) - __CPROVER_old(fCharIndex))) ==> fCharSizeBuf[G] == __CPROVER_old(fCharSizeBuf[(fCharIndex + G < kCharBufSize) ? fCharIndex + G : 0]))
loop 1
__CPROVER_assigns(startInd, fSrcOfsBase)
__CPROVER_loop_invariant(startInd <= fCharIndex)
__CPROVER_decreases(fCharIndex - startInd)
loop 2
__CPROVER_assigns(index, startInd, __CPROVER_object_upto(fCharBuf, sizeof(fCharBuf)), __CPROVER_object_upto(fCharSizeBuf, sizeof(fCharSizeBuf)))
__CPROVER_loop_invariant(fCharIndex <= index && index <= fCharsAvail && startInd == index - fCharIndex)
__CPROVER_loop_invariant((G < startInd) ==> (fCharBuf[G] == __CPROVER_loop_entry(fCharBuf[(fCharIndex + G < kCharBufSize) ? fCharIndex + G : 0])))
__CPROVER_loop_invariant((G >= startInd && fCharIndex + G < kCharBufSize) ==> (fCharBuf[fCharIndex + G] == __CPROVER_loop_entry(fCharBuf[(fCharIndex + G < kCharBufSize) ? fCharIndex + G : 0])))
__CPROVER_loop_invariant((G < startInd) ==> (fCharSizeBuf[G] == __CPROVER_loop_entry(fCharSizeBuf[(fCharIndex + G < kCharBufSize) ? fCharIndex + G : 0])))
__CPROVER_loop_invariant((G >= startInd && fCharIndex + G < kCharBufSize) ==> (fCharSizeBuf[fCharIndex + G] == __CPROVER_loop_entry(fCharSizeBuf[(fCharIndex + G < kCharBufSize) ? fCharIndex + G : 0])))
__CPROVER_decreases(fCharsAvail - index)
loop 3
__CPROVER_assigns(index, last, __CPROVER_object_upto(fCharOfsBuf, sizeof(fCharOfsBuf)))
__CPROVER_loop_invariant(1 <= index && (index <= fCharsAvail || fCharsAvail == 0))
__CPROVER_decreases(kCharBufSize + 1 - index)
@*/

void h_refreshCharBuffer(void)
{
  VERIF_INPUT(SELF);
  verif_thrown = 0;
  XMLReader_refreshCharBuffer();
  VERIF_CANARY("after call");
}
