//@ unit str_substr5
//@ props C01
//@ kind P
//@ def quick STRN=6
//@ def thorough STRN=12
//@ enforce XMLString_subString5
//@ replace XMLString_stringLen
//@ replace XMLString_subString6
//@ entry h_str_substr5
//@ note loop-free caller: stringLen and the 6-argument subString are replaced by the contracts proved in str_len / str_copy
#define VERIF_DEFINE_GHOSTS
#include "verif_prelude.h"
//@ include str_common.inc
#define SL_LEN LEN1

/*@extract src/xercesc/util/XMLString.hpp XMLString::stringLen
params const XMLCh* const src
declonly
contract
//@ include str_stringLen.contract.inc
@*/

#define SUB_VALID (startIndex <= endIndex && endIndex <= srcStrLength)
/*@extract src/xercesc/util/XMLString.cpp XMLString::subString
as XMLString_subString6
params XMLCh* const targetStr, const XMLCh* const srcStr , const XMLSize_t startIndex, const XMLSize_t endIndex , const XMLSize_t srcStrLength
declonly
contract
//@ include str_subString6.contract.inc
@*/

#undef SUB_VALID
#define SUB_VALID (startIndex <= endIndex && endIndex <= LEN1)
/*@extract src/xercesc/util/XMLString.cpp XMLString::subString
as XMLString_subString5
params XMLCh* const targetStr, const XMLCh* const srcStr , const XMLSize_t startIndex, const XMLSize_t endIndex , MemoryManager* const manager
sub (?<!:)\bsubString\( => XMLString_subString6(
call stringLen => XMLString_stringLen
throws XMLString_subString6
contract
__CPROVER_requires(G < STRN && LEN1 < STRN && !verif_thrown)
__CPROVER_requires(STR_IS(srcStr, LEN1))
__CPROVER_requires(targetStr == 0 || !SUB_VALID || (!__CPROVER_same_object(srcStr, targetStr) && __CPROVER_w_ok(targetStr, (endIndex - startIndex + 1) * sizeof(XMLCh))))
__CPROVER_assigns((targetStr != 0 && SUB_VALID): __CPROVER_object_upto(targetStr, (endIndex - startIndex + 1) * sizeof(XMLCh)); verif_thrown, verif_throw_type, verif_throw_code)
__CPROVER_ensures(targetStr == 0 ==> (verif_thrown && verif_throw_type == VT_IllegalArgumentException))
__CPROVER_ensures((targetStr != 0 && !SUB_VALID) ==> (verif_thrown && verif_throw_type == VT_ArrayIndexOutOfBoundsException))
__CPROVER_ensures((targetStr != 0 && SUB_VALID) ==> (!verif_thrown && targetStr[endIndex - startIndex] == 0))
__CPROVER_ensures((targetStr != 0 && SUB_VALID && G < endIndex - startIndex) ==> targetStr[CL(G, LEN1)] == srcStr[CL(startIndex + G, LEN1)])
@*/

struct { XMLCh a[STRN]; } S2, T1;
void h_str_substr5(void)
{
  XMLSize_t l2, si, ei; _Bool tnull;
  VERIF_INPUT(S2); VERIF_INPUT(T1); VERIF_INPUT(G); VERIF_INPUT(l2); VERIF_INPUT(si); VERIF_INPUT(ei); VERIF_INPUT(tnull);
  VERIF_ASSUME(l2 < STRN);
  XMLCh *s2 = S2.a + (STRN - (l2 + 1));
  XMLSize_t room = (si <= ei && ei <= l2) ? ei - si + 1 : 0;
  LEN1 = l2; verif_thrown = 0;
  XMLString_subString5(tnull ? (XMLCh *)0 : T1.a + (STRN - room), s2, si, ei, (MemoryManager *)0);
  VERIF_CANARY("after subString5");
  if (!tnull && room == 0) VERIF_CANARY("subString5: bad indices case reachable");
  if (!tnull && room > 1) VERIF_CANARY("subString5: copying case reachable");
}
