//@ unit buf_append_ch
//@ enforce XMLBuffer_append_ch
//@ replace XMLBuffer_ensureCapacity
//@ entry h_buf_append_ch
//@ props C01
//@ kind P
//@ cbmc all --unsigned-overflow-check
//@ note proved for every capacity and every fIndex + count <= 2^40: no size computation wraps, every access in bounds, RI re-established on normal and exceptional exit, frame respected; heap: fBuffer is a dynamic object of (fCapacity+1) XMLCh or more; content clauses are in unit buf_content (W, bounded sizes)
//@ note MemoryManager::allocate never fails in the model (OutOfMemoryException not modelled); callees are replaced by the contracts proved in the other buf_* units; XMLBufferFullHandler::bufferFull (reached only through ensureCapacity) may lower fIndex arbitrarily
#define VERIF_DEFINE_GHOSTS
#include "verif_prelude.h"
#include <stdlib.h>
//@ include XMLBuffer_real.inc

/*@extract src/xercesc/framework/XMLBuffer.cpp XMLBuffer::ensureCapacity
declonly
contract
CONTRACT_ensureCapacity
@*/
/*@extract src/xercesc/framework/XMLBuffer.hpp XMLBuffer::append
inclass
params const XMLCh toAppend
as XMLBuffer_append_ch
call ensureCapacity => XMLBuffer_ensureCapacity
throws XMLBuffer_ensureCapacity
contract
CONTRACT_append_ch
@*/

void h_buf_append_ch(void)
{
  XMLSize_t alloc_extra, count; XMLCh ch; _Bool which;
  VERIF_INPUT(SELF); VERIF_INPUT(GA); VERIF_INPUT(LEN); VERIF_INPUT(GS); VERIF_INPUT(alloc_extra);
  VERIF_ASSUME(BUF_SIZE_BOUND && alloc_extra <= 16);
  /* setFullHandler may lower fCapacity below the allocated size: the object has (fCapacity + 1 + alloc_extra) characters */
  fBuffer = malloc((fCapacity + 1 + alloc_extra) * sizeof(XMLCh));
  VERIF_INPUT(NEXTSIZE); NEXTBUF = malloc(NEXTSIZE); NEXTUSED = 0;
  VERIF_ASSUME(fBuffer != 0 && NEXTBUF != 0);
  verif_thrown = 0;
  VERIF_INPUT(count); VERIF_INPUT(ch); VERIF_INPUT(which);
  XMLBuffer_append_ch(ch);
  VERIF_CANARY("after call");
}
