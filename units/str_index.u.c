//@ unit str_index
//@ props C01
//@ kind P
//@ def quick STRN=6
//@ def thorough STRN=12
//@ enforce XMLString_indexOf2
//@ enforce XMLString_indexOf4
//@ enforce XMLString_lastIndexOf3
//@ enforce XMLString_lastIndexOf4
//@ replace XMLString_stringLen
//@ entry h_str_index
//@ note P: iterations unbounded through loop contracts; string buffers bounded by -DSTRN, END-aligned at the NUL
//@ note the downward scans of lastIndexOf leave the loop with the cursor one element BEFORE the string (formally undefined pointer arithmetic, never dereferenced; cbmc's pointer-formation checks are the excluded pedantic class, DESIGN ledger 3). In cbmc's pointer model `base - 1 >= base` is TRUE when base starts its object (probed: spurious out-of-bounds read), so the lastIndexOf harness objects carry ONE pad element in front of the string; an under-read of the pad is still caught, by the loop invariant cursor >= base - 1 (the cursor is dereferenced only under cursor >= base)
//@ note indexOf(s, ch) accepts a null string (returns -1); the lastIndexOf overloads dereference their argument unconditionally: precondition non-null
#define VERIF_DEFINE_GHOSTS
#include "verif_prelude.h"
//@ include str_common.inc
#define SL_LEN LEN1
/* upper end of the range that must be free of ch: the result, or the length when nothing was found */
#define UPTO(r) (((r) < 0) ? LEN1 : (XMLSize_t)(r))

/*@extract src/xercesc/util/XMLString.hpp XMLString::stringLen
params const XMLCh* const src
declonly
contract
//@ include str_stringLen.contract.inc
@*/

/*@extract src/xercesc/util/XMLString.cpp XMLString::indexOf
as XMLString_indexOf2
params const XMLCh* const toSearch, const XMLCh ch
contract
__CPROVER_requires(G < STRN && LEN1 < STRN)
__CPROVER_requires(toSearch == 0 || STR_IS(toSearch, LEN1))
__CPROVER_assigns()
__CPROVER_ensures(toSearch == 0 ==> __CPROVER_return_value == -1)
__CPROVER_ensures(toSearch != 0 ==> (__CPROVER_return_value == -1 || (__CPROVER_return_value >= 0 && __CPROVER_return_value < (int)LEN1)))
__CPROVER_ensures((toSearch != 0 && __CPROVER_return_value >= 0) ==> toSearch[CL((XMLSize_t)__CPROVER_return_value, LEN1)] == ch)
/* first occurrence / no occurrence: nothing before the result (or in the whole string) is ch */
__CPROVER_ensures((toSearch != 0 && G < UPTO(__CPROVER_return_value)) ==> toSearch[CL(G, LEN1)] != ch)
loop 1
__CPROVER_assigns(srcPtr)
__CPROVER_loop_invariant(PTR_IN(srcPtr, toSearch, LEN1))
__CPROVER_loop_invariant((G < PIDX(srcPtr, toSearch)) ==> toSearch[CL(G, LEN1)] != ch)
__CPROVER_decreases(LEN1 - PIDX(srcPtr, toSearch))
@*/

/*@extract src/xercesc/util/XMLString.cpp XMLString::indexOf
as XMLString_indexOf4
params const XMLCh* const toSearch , const XMLCh ch , const XMLSize_t fromIndex
call stringLen => XMLString_stringLen
contract
__CPROVER_requires(G < STRN && LEN1 < STRN && !verif_thrown)
__CPROVER_requires(toSearch == 0 || STR_IS(toSearch, LEN1))
__CPROVER_assigns(verif_thrown, verif_throw_type, verif_throw_code)
__CPROVER_ensures((toSearch == 0 || fromIndex >= LEN1) ==> (verif_thrown && verif_throw_type == VT_ArrayIndexOutOfBoundsException))
__CPROVER_ensures((toSearch != 0 && fromIndex < LEN1) ==> (!verif_thrown && (__CPROVER_return_value == -1 || (__CPROVER_return_value >= (int)fromIndex && __CPROVER_return_value < (int)LEN1))))
__CPROVER_ensures((toSearch != 0 && fromIndex < LEN1 && __CPROVER_return_value >= 0) ==> toSearch[CL((XMLSize_t)__CPROVER_return_value, LEN1)] == ch)
__CPROVER_ensures((toSearch != 0 && fromIndex < LEN1 && G >= fromIndex && G < UPTO(__CPROVER_return_value)) ==> toSearch[CL(G, LEN1)] != ch)
loop 1
__CPROVER_assigns(srcPtr)
__CPROVER_loop_invariant(PTR_IN(srcPtr, toSearch, LEN1) && PIDX(srcPtr, toSearch) >= fromIndex)
__CPROVER_loop_invariant((G >= fromIndex && G < PIDX(srcPtr, toSearch)) ==> toSearch[CL(G, LEN1)] != ch)
__CPROVER_decreases(LEN1 - PIDX(srcPtr, toSearch))
@*/

/*@extract src/xercesc/util/XMLString.cpp XMLString::lastIndexOf
as XMLString_lastIndexOf3
params const XMLCh ch, const XMLCh* const toSearch, const XMLSize_t toSearchLen
contract
//@ include str_lastIndexOf3.contract.inc
loop 1
__CPROVER_assigns(srcPtr)
__CPROVER_loop_invariant(PTR_IN_DOWN(srcPtr, toSearch, toSearchLen))
__CPROVER_loop_invariant((G <= toSearchLen && (XMLSSize_t)G > SIDX(srcPtr, toSearch)) ==> toSearch[CL(G, toSearchLen)] != ch)
__CPROVER_decreases(SIDX(srcPtr, toSearch) + 1)
@*/

/*@extract src/xercesc/util/XMLString.cpp XMLString::lastIndexOf
as XMLString_lastIndexOf4
params const XMLCh* const toSearch , const XMLCh ch , const XMLSize_t fromIndex
call stringLen => XMLString_stringLen
contract
__CPROVER_requires(G < STRN && LEN1 < STRN && !verif_thrown)
__CPROVER_requires(STR_IS(toSearch, LEN1))
__CPROVER_assigns(verif_thrown, verif_throw_type, verif_throw_code)
__CPROVER_ensures(fromIndex >= LEN1 ==> (verif_thrown && verif_throw_type == VT_ArrayIndexOutOfBoundsException))
__CPROVER_ensures(fromIndex < LEN1 ==> (!verif_thrown && __CPROVER_return_value >= -1 && __CPROVER_return_value <= (int)fromIndex))
__CPROVER_ensures((fromIndex < LEN1 && __CPROVER_return_value >= 0) ==> toSearch[CL((XMLSize_t)__CPROVER_return_value, LEN1)] == ch)
__CPROVER_ensures((fromIndex < LEN1 && G <= fromIndex && (XMLSSize_t)G > (XMLSSize_t)__CPROVER_return_value) ==> toSearch[CL(G, LEN1)] != ch)
loop 1
__CPROVER_assigns(srcPtr)
__CPROVER_loop_invariant(PTR_IN_DOWN(srcPtr, toSearch, fromIndex))
__CPROVER_loop_invariant((G <= fromIndex && (XMLSSize_t)G > SIDX(srcPtr, toSearch)) ==> toSearch[CL(G, LEN1)] != ch)
__CPROVER_decreases(SIDX(srcPtr, toSearch) + 1)
@*/

struct { XMLCh a[STRN]; } S1;
struct { XMLCh a[STRN + 1]; } SP;    /* a[0] = pad in front of the string for the downward scans */
void h_str_index(void)
{
  XMLSize_t l1, from, slen; XMLCh ch; _Bool isnull;
  VERIF_INPUT(S1); VERIF_INPUT(SP); VERIF_INPUT(G); VERIF_INPUT(l1); VERIF_INPUT(from); VERIF_INPUT(slen); VERIF_INPUT(ch); VERIF_INPUT(isnull);
  VERIF_ASSUME(l1 < STRN);
  const XMLCh *s1 = S1.a + (STRN - (l1 + 1));
  LEN1 = l1;
  verif_thrown = 0;

  int r1 = XMLString_indexOf2(isnull ? (const XMLCh *)0 : s1, ch);
  VERIF_CANARY("after indexOf2");
  if (!isnull && r1 > 1) VERIF_CANARY("indexOf2: found beyond the first units reachable");
  if (!isnull && r1 == -1 && l1 > 1) VERIF_CANARY("indexOf2: not found reachable");

  verif_thrown = 0;
  int r2 = XMLString_indexOf4(isnull ? (const XMLCh *)0 : s1, ch, from, (MemoryManager *)0);
  VERIF_CANARY("after indexOf4");
  if (verif_thrown) VERIF_CANARY("indexOf4: start index past the end reachable");
  if (!verif_thrown && r2 > (int)from && from > 0) VERIF_CANARY("indexOf4: found after the start index reachable");

  /* lastIndexOf(ch, s, len): any len whose unit [len] is still in the buffer (callers pass the length) */
  VERIF_ASSUME(slen < STRN);
  verif_thrown = 0;
  int r3 = XMLString_lastIndexOf3(ch, SP.a + 1 + (STRN - (slen + 1)), slen);
  VERIF_CANARY("after lastIndexOf3");
  if (r3 == -1 && slen + 1 == STRN) VERIF_CANARY("lastIndexOf3: not found in a string that starts its object reachable");
  if (r3 >= 0 && r3 < (int)slen) VERIF_CANARY("lastIndexOf3: found reachable");

  verif_thrown = 0;
  int r4 = XMLString_lastIndexOf4(SP.a + 1 + (STRN - (l1 + 1)), ch, from, (MemoryManager *)0);
  VERIF_CANARY("after lastIndexOf4");
  if (!verif_thrown && r4 == -1 && from > 0) VERIF_CANARY("lastIndexOf4: not found reachable");
}
