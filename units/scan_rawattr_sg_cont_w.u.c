//@ unit scan_rawattr_sg_cont_w
//@ props C02 C03 C01
//@ kind W
//@ def quick NIN=5 NERR=5
//@ def thorough NIN=7 NERR=7
//@ cbmc quick --unwind 7 --unwinding-assertions
//@ cbmc thorough --unwind 9 --unwinding-assertions
//@ timeout quick=600 thorough=1800
//@ entry h_rawAttrScan
//@ note fragment of rawAttrScan: the scanning loop (everything after the three initialisations), entered in the state reached after 1 or 2 attributes, so that the second and third attribute (pair index, vector growth, colon list growth with its copy loop) are within reach of short inputs; the whole function from the start is scan_rawattr_sg_w
//@ note W: complete for every sequence of length <= NIN of the tokens name, '=', quoted value, white space, '/', '>', '<', end of input after the a0-th attribute value (the remaining token kinds are covered from the start state in scan_rawattr_sg_w) (tokens: name, malformed name, '=', quoted value, unterminated quote, white space, '/', '>', '<', other character, end of input), every initial size of the pair vector, colon list capacity 1 or 2 (so that the growth path is taken)
//@ note token-level stubs (contracts/scan_rawattr_harness.inc): getQName and basicAttrValueScan consume one token (their own syntax is proved in rdr_getQName / scan_attvalue_basic_*); scanEq and resizeRawAttrColonList are the real functions; KVStringPair / RefVectorOf are recording sinks; emitError message arguments are not modelled
//@ note colon positions and the previous contents of the pair vector / colon list are distinct concrete markers, not symbolic values: rawAttrScan only stores and copies them, it never inspects them
#define VERIF_DEFINE_GHOSTS
#include "verif_prelude.h"
//@ include scan_rawattr_harness.inc

/*@extract src/xercesc/internal/XMLScanner.cpp XMLScanner::scanEq
ret false
sub* fReaderMgr\.skipPastSpaces\( => RM_skipPastSpaces(
sub* fReaderMgr\.skippedChar\( => RM_skippedChar(
@*/
#define SC_scanEq() XMLScanner_scanEq(false)

/*@extract src/xercesc/internal/SGXMLScanner.cpp SGXMLScanner::resizeRawAttrColonList
sub* fMemoryManager->allocate\s*\( => MM_allocate(
sub* fMemoryManager->deallocate\s*\( => MM_deallocate(
@*/

/*@extract src/xercesc/internal/SGXMLScanner.cpp SGXMLScanner::rawAttrScan
as SG_rawAttrScan_cont
ret 0
fragment while \(true\) ||| return attCount;(?=\s*\}\s*$)
sig XMLSize_t SG_rawAttrScan_cont(const XMLCh* const elemName, RefVectorOf_KVStringPair& toFill, bool& isEmpty, XMLSize_t attCount, XMLSize_t curVecSize)
call scanEq => SC_scanEq
call basicAttrValueScan => SC_basicAttrValueScan
call resizeRawAttrColonList => SGXMLScanner_resizeRawAttrColonList
throws SC_basicAttrValueScan
method toFill.size => RV_size
method toFill.addElement => RV_addElement
method toFill.elementAt => RV_elementAt
method curPair->set => KV_set
method fAttNameBuf.isEmpty => XB_isEmpty
method fAttNameBuf.getRawBuffer => XB_getRawBuffer
method fAttNameBuf.getLen => XB_getLen
method fAttValueBuf.getRawBuffer => XB_getRawBuffer
method fAttValueBuf.getLen => XB_getLen
sub* new \(fMemoryManager\) KVStringPair\s*\( => KV_new(
sub* fReaderMgr\.peekNextChar\( => RM_peekNextChar(
sub* fReaderMgr\.getNextChar\( => RM_getNextChar(
sub* fReaderMgr\.skippedChar\( => RM_skippedChar(
sub* fReaderMgr\.skipPastSpaces\( => RM_skipPastSpaces(
sub* fReaderMgr\.skipPastChar\( => RM_skipPastChar(
sub* fReaderMgr\.skipUntilInOrWS\( => RM_skipUntilInOrWS(
sub* fReaderMgr\.skipQuotedString\( => RMT_skipQuotedString(
sub* fReaderMgr\.getQName\( => RM_getQName(
sub* fReaderMgr\.getCurrentReader\(\)->isSpecialStartTagChar\( => RD_isSpecialStartTagChar(
sub* fReaderMgr\.getCurrentReader\(\)->isWhitespace\( => RD_isWhitespace(
sub* (?<![\w>])emitError\( => SC_emitErrorV(
@*/
#define SC_RAWATTR_CONT SG_rawAttrScan_cont
//@ include scan_rawattr_harness2.inc
