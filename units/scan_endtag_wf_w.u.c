//@ unit scan_endtag_wf_w
//@ props C02 C03 C01
//@ kind W
//@ def quick NIN=5 NE=2
//@ def thorough NIN=9 NE=4
//@ cbmc all --unwind 12 --unwinding-assertions
//@ entry h_scanEndTag
//@ note W: complete for every character sequence of length <= NIN after '</', every open-element name of length <= NE, stack depth 0..2, reader number equal or different, handler installed or not
//@ note whole function; the element stack (2 levels), the element declarations, the reader (one entity, contracts/scanner_reader2.inc), emitError and the document handler are trusted models (contracts/scan_endtag_harness.inc); getFullName / getElementName()->getPrefix() are read as members of the declaration model
#define VERIF_DEFINE_GHOSTS
#include "verif_prelude.h"
//@ enum src/xercesc/validators/common/Grammar.hpp GrammarType Grammar_ scope=Grammar
//@ include scan_endtag_harness.inc

/*@extract src/xercesc/internal/WFXMLScanner.cpp WFXMLScanner::scanEndTag
method fElemStack.isEmpty => ES_isEmpty
method fElemStack.popTop => ES_popTop
method fElemStack.getCurrentURI => ES_getCurrentURI
method fDocHandler->endElement => DH_endElement
sub* ->getElementName\(\)->getPrefix\(\) => ->prefix
sub* ->getFullName\(\) => ->fullName
sub* fReaderMgr\.skippedStringLong\( => RM_skippedStringLong(
sub* fReaderMgr\.skipPastChar\( => RM_skipPastChar(
sub* fReaderMgr\.skipPastSpaces\( => RM_skipPastSpaces(
sub* fReaderMgr\.skippedChar\( => RM_skippedChar(
sub* fReaderMgr\.getCurrentReaderNum\( => RM_getCurrentReaderNum(
sub* (?<![\w>])emitError\s*\( => SC_emitErrorV(
@*/
#define SC_ENDTAG_CALL WFXMLScanner_scanEndTag
#define SC_ENDTAG_WHOLE 1
#define SC_ENDTAG_SCHEMA 0
//@ include scan_endtag_harness2.inc
