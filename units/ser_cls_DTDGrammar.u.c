//@ unit ser_cls_DTDGrammar
//@ props C16
//@ kind L
//@ entry h_ser_cls_DTDGrammar
//@ note L: loop-free; the real body of DTDGrammar::serialize runs twice on one object: store mode onto the tape, then -- after the whole object has been given arbitrary values again -- load mode from the tape; every member value is symbolic (full range of its real type)
//@ note tape engine (contracts/ser_tape.inc): operator<< / operator>> / writeSize / readSize / writeString / readString and the sub-object serialisers (XTemplateSerializer::storeObject/loadObject, DatatypeValidator::storeDV/loadDV, Base::serialize ...) are trusted stubs that record / check (type tag, value); the tag of a streamed operand comes from its REAL type (member types from the real class declaration, casts from the code) via _Generic; strings, containers and pointers to serialisable objects are opaque ids (the pointer value stands for the object; loading yields the id that was stored); the byte-level engine is the subject of units ser_primitives, ser_fillflush, ser_rawbytes
//@ note compared after load (store then load restores the value): fElemDeclPool, fEntityDeclPool, fNotationDeclPool, fValidated; NOT compared: fElemNonDeclPool (elements faulted in during validation: deliberately not stored, must be null after load -- checked), fGramDesc (made by the constructor, serialised in place in both modes: position checked, pointer must stay), fDefaultEntities (static), fMemoryManager (not persistent state: the loading object keeps its own)
#define VERIF_DEFINE_GHOSTS
#include "verif_prelude.h"
//@ include ser_tape.inc
#define Grammar_serialize(e) ENG_BASE(Grammar)
//@ struct src/xercesc/validators/DTD/DTDGrammar.hpp DTDGrammar only=auto structs=XMLDTDDescription

/*@extract src/xercesc/validators/DTD/DTDGrammar.cpp DTDGrammar::serialize
streamops serEng
method serEng.isStoring => ENG_isStoring
method serEng.isLoading => ENG_isLoading
method serEng.writeSize => ENG_writeSize
method serEng.readSize => ENG_readSize
method serEng.writeString => ENG_writeString
method serEng.readString => ENG_readString
method fGramDesc->serialize => ENG_EMBEDDED
@*/

#define FIELDS(X) X(fElemDeclPool) X(fEntityDeclPool) X(fNotationDeclPool) X(fValidated)

void h_ser_cls_DTDGrammar(void)
{
  VERIF_INPUT(SELF); TAPE_INIT();
  SER_FIELD_SAVE(fGramDesc)
  FIELDS(SER_FIELD_SAVE)
  verif_thrown = 0;
  TAPE_BEGIN_STORE();
  DTDGrammar_serialize(&ENGINE);
  VERIF_INPUT(SELF);                      /* the object that is loaded into: arbitrary contents */
  fGramDesc = sv_fGramDesc;   /* the grammar description is made by the constructor and loaded in place */
  TAPE_BEGIN_LOAD();
  DTDGrammar_serialize(&ENGINE);
  VERIF_CANARY("after store and load");
  __CPROVER_assert(!verif_thrown, "C16: serialize does not throw by itself");
  TAPE_END_CHECK();
  FIELDS(SER_FIELD_CHECK)
  __CPROVER_assert(fGramDesc == sv_fGramDesc, "C16: load keeps the constructor-made grammar description object (it is filled in place)");
  __CPROVER_assert(fElemNonDeclPool == 0, "C16: the pool of non-declared elements, which is not serialised, is null after load");
}
