//@ unit scan_chardata_dg_w
//@ props C02 C03 C01
//@ kind W
//@ def quick NIN=4
//@ def thorough NIN=6
//@ cbmc all --unwind 10 --unwinding-assertions --arrays-uf-always
//@ timeout quick=600 thorough=1800
//@ entry h_scanCharData
//@ note W: complete for every character sequence of length <= NIN without '&' (entity and character references are out of this unit's scope: scanEntityRef is not extractable)
//@ note DGXMLScanner version (the standalone-whitespace validity block at the end is cut by a sub rule); single entity only: the try/catch for EndOfEntityException and the ThrowEOEJanitor are removed by sub rules (the reader abstraction never crosses an entity boundary); sendCharData is a sink stub that accumulates the text; reader abstraction, emitError and buffers are trusted stubs (contracts/scanner_stubs.inc)
#define VERIF_DEFINE_GHOSTS
#include "verif_prelude.h"
//@ include scanner_stubs.inc
typedef struct XMLBuffer { char o; } XMLBuffer;
enum { EntityExp_Failed, EntityExp_Pushed, EntityExp_Returned };
static int SC_scanEntityRef(bool inAtt, XMLCh *a, XMLCh *b, bool *esc) { __CPROVER_assert(0, "scanEntityRef is unreachable without '&' in the input"); return EntityExp_Failed; }
struct { XMLCh a[NIN + 2]; } ACC; XMLSize_t ACCLEN;
static void SC_sendCharData(void) { for (XMLSize_t k = 0; k < NIN + 1; k++) if (k < OUTLEN && ACCLEN < NIN + 1) ACC.a[ACCLEN++] = OUT.a[k]; if (OUTLEN) DOC_EVENTS++; OUTLEN = 0; }

/*@extract src/xercesc/internal/DGXMLScanner.cpp DGXMLScanner::scanCharData
sub \bStates\s+curState => enum States curState
sub if \(fValidate && fStandalone\)[\s\S]*(?=sendCharData\(toUse\);\s*\}\s*$) =>
sub else\s*\{\s*if \(escaped && !fElemStack\.isEmpty\(\)\)\s*fElemStack\.setReferenceEscaped\(\);\s*\} =>
sub ThrowEOEJanitor jan\(&fReaderMgr, true\); =>
sub ThrowEOEJanitor jan\(&fReaderMgr, false\); =>
sub \btry\s*\{ => {
sub catch\s*\(const EndOfEntityException& toCatch\)\s*\{[^{}]*\} =>
sub toUse\.reset\(\) => XB_reset()
sub toUse\.append\( => XB_append(
sub fReaderMgr\.movePlainContentChars\(toUse\) => RM_movePlainContentChars()
sub fReaderMgr\.getNextCharIfNot\(chOpenAngle, nextCh\) => RM_getNextCharIfNot(chOpenAngle, &nextCh)
sub fReaderMgr\.getCurrentReader\(\)->isXMLChar\( => RD_isXMLChar(
sub scanEntityRef\(false, nextCh, secondCh, escaped\) => SC_scanEntityRef(false, &nextCh, &secondCh, &escaped)
sub sendCharData\(toUse\) => SC_sendCharData()
sub XMLCh tmpBuf\[9\];\s*XMLString::binToText\s*\([^;]*\); =>
sub emitError\(XMLErrs::InvalidCharacter, tmpBuf\) => SC_emitError(XMLErrs::InvalidCharacter)
sub (?<!SC_)emitError\( => SC_emitError(
@*/
#define SC_CHARDATA_CALL DGXMLScanner_scanCharData
//@ include scan_chardata_harness.inc
