//@ unit str_icmp_w
//@ props C01
//@ kind W
//@ def quick STRN=6
//@ def thorough STRN=10
//@ cbmc all --unwind 12 --unwinding-assertions
//@ entry h_str_icmp
//@ note W: complete for every pair of strings of length < STRN (all 16-bit units; null allowed) and every string for isValidEncName, buffers END-aligned at the NUL; loops fully unwound, unwinding assertions on
//@ note compareIStringASCII: sign/value = difference of the first units that differ after folding A-Z to a-z (only ASCII letters are identified); null compares like the other string's length (XMLString.cpp); isValidEncName: production [81] EncName ::= [A-Za-z] ([A-Za-z0-9._] | '-')*
//@ note compareIString / compareNIString themselves only forward to the transcoding service (virtual; ICU build): not in the subset
#define VERIF_DEFINE_GHOSTS
#include "verif_prelude.h"

/*@extract src/xercesc/util/XMLString.hpp XMLString::stringLen
params const XMLCh* const src
static
@*/
/*@extract src/xercesc/util/XMLString.cpp XMLString::compareIStringASCII
call XMLString::stringLen => XMLString_stringLen
sub (?<![\w\(])int\(([^()]*)\) => ((int)(\1))
@*/
/*@extract src/xercesc/util/XMLString.cpp XMLString::isAlpha
static
@*/
/*@extract src/xercesc/util/XMLString.cpp XMLString::isDigit
static
@*/
/*@extract src/xercesc/util/XMLString.cpp XMLString::isValidEncName
call isAlpha => XMLString_isAlpha
call isDigit => XMLString_isDigit
@*/

#define FOLD(c) ((XMLCh)(((c) >= 'A' && (c) <= 'Z') ? (c) + 32 : (c)))
struct { XMLCh a[STRN]; } S1, S2;
void h_str_icmp(void)
{
  XMLSize_t n, m; _Bool null1, null2;
  VERIF_INPUT(S1); VERIF_INPUT(S2); VERIF_INPUT(n); VERIF_INPUT(m); VERIF_INPUT(null1); VERIF_INPUT(null2);
  VERIF_ASSUME(n >= 1 && n <= STRN && m >= 1 && m <= STRN);
  const XMLCh *s = S1.a + (STRN - n), *t = S2.a + (STRN - m);
  VERIF_ASSUME(s[n - 1] == 0 && t[m - 1] == 0);
  for (XMLSize_t k = 0; k + 1 < n; k++) VERIF_ASSUME(s[k] != 0);
  for (XMLSize_t k = 0; k + 1 < m; k++) VERIF_ASSUME(t[k] != 0);
  verif_thrown = 0;

  int r = XMLString_compareIStringASCII(null1 ? (const XMLCh *)0 : s, null2 ? (const XMLCh *)0 : t);
  VERIF_CANARY("after compareIStringASCII");
  int exp = 0;
  if (null1 && null2) exp = 0;
  else if (null1) exp = 0 - (int)(m - 1);
  else if (null2) exp = (int)(n - 1);
  else {
    XMLSize_t k = 0;
    while (k < STRN && FOLD(s[k]) == FOLD(t[k]) && s[k] != 0) k++;
    exp = (int)FOLD(s[k]) - (int)FOLD(t[k]);
  }
  __CPROVER_assert(r == exp, "C01: compareIStringASCII = difference of the first units that differ after ASCII case folding");
  if (!null1 && !null2 && r == 0 && n > 3 && s[1] != t[1]) VERIF_CANARY("compareIStringASCII: equal up to case reachable");

  bool v = XMLString_isValidEncName(null1 ? (const XMLCh *)0 : s);
  VERIF_CANARY("after isValidEncName");
  int ok = !null1 && n > 1 && ((s[0] >= 'a' && s[0] <= 'z') || (s[0] >= 'A' && s[0] <= 'Z'));
  for (XMLSize_t k = 1; k + 1 < n; k++) {
    XMLCh c = s[k];
    if (!((c >= 'a' && c <= 'z') || (c >= 'A' && c <= 'Z') || (c >= '0' && c <= '9') || c == '.' || c == '_' || c == '-')) ok = 0;
  }
  __CPROVER_assert(v == (ok != 0), "C01: isValidEncName <=> production [81] EncName");
  if (v && n > 3) VERIF_CANARY("isValidEncName: valid name reachable");
}
