//@ unit xmlstring_tobin_big
//@ props C09 C01
//@ kind W
//@ def all NB=3
//@ cbmc all --unwind 6 --unwinding-assertions
//@ entry h_xmlstring_tobin_big
//@ note W: the numeric conversion is abstracted: strtoul / strtol return an ARBITRARY value V of their 64-bit result type (LP64 target model), an arbitrary end pointer inside the string and errno 0 or ERANGE (ERANGE only together with ULONG_MAX resp. LONG_MAX / LONG_MIN, ISO C 7.20.1.4) -- so the unit is complete for every numeral of any length, without evaluating digit strings (ten-digit multiplication chains are out of SAT reach: a first version with concrete strtoul models timed out after 900 s); input strings of length 1..3 only drive the surrounding code; loops fully unwound, unwinding assertions on. Which strings count as numerals is unit xmlstring_tobin.
//@ note obligation ("no overflow accepted silently"): textToBin returns true only if the converted value fits unsigned int, and then toFill is exactly that value; parseInt returns exactly the converted value and throws NumberFormatException when it does not fit int
//@ note input alphabet = XML 1.0 Char (production [2]): the C library also skips #xB and #xC as white space, which no XML document can contain; with them textToBin("\\f12") is accepted -- API-only, recorded here, not an obligation
//@ note models: strtoul / strtol per ISO C 7.20.1.4 (spec/libc_model.h), errno -> verif_errno, XMLString::transcode -> identity on ASCII and '?' for anything else (every local-code-page transcoder xerces supports maps ASCII to itself and no non-ASCII character to a digit, sign or space), XMLChar1_0::isWhitespace -> XML 1.0 production S, allocation = fresh object of exactly n bytes, memcpy of XMLCh elements = element loop; janitors dropped
#define VERIF_DEFINE_GHOSTS
#include <stdlib.h>
#include "verif_prelude.h"
#include "xsd_lexical.h"
#include "libc_model.h"

static void *verif_alloc(size_t n) { void *p = malloc(n); __CPROVER_assume(p != 0); return p; }
/* memcpy of whole XMLCh elements as an element loop (cbmc's built-in memcpy is imprecise for symbolic sizes; a byte loop
   would double the unwinding bound of the whole unit) */
static void verif_copy_xmlch(XMLCh *dst, const XMLCh *src, size_t count) { for (size_t i = 0; i < count; i++) dst[i] = src[i]; }

/*@extract src/xercesc/util/XMLString.hpp XMLString::stringLen
params const XMLCh* const src
@*/
/*@extract src/xercesc/util/XMLString.hpp XMLString::replicate
params const XMLCh* const toRep, MemoryManager
call stringLen => XMLString_stringLen
sub manager->allocate\( => verif_alloc(
sub memcpy\(ret, toRep, \(len \+ 1\) \* sizeof\(XMLCh\)\) => verif_copy_xmlch(ret, toRep, len + 1)
@*/
/*@extract src/xercesc/util/XMLString.cpp XMLString::trim
params XMLCh* const toTrim
call stringLen => XMLString_stringLen
sub XMLChar1_0::isWhitespace => SPEC_IS_XMLWS
@*/
/*@extract src/xercesc/util/XMLString.cpp XMLString::indexOf
as XMLString_indexOf_from
params const XMLCh* const toSearch , const XMLCh ch , const XMLSize_t fromIndex
call stringLen => XMLString_stringLen
ret -1
@*/

/* abstract strtoul / strtol: any result the library may give */
unsigned long ABS_UV; long ABS_LV; size_t ABS_K; int ABS_E;     /* ghosts chosen by the harness */
static unsigned long abs_strtoul(const char *nptr, char **endptr) { *endptr = (char *)nptr + ABS_K; verif_errno = ABS_E; return ABS_UV; }
static long abs_strtol(const char *nptr, char **endptr) { *endptr = (char *)nptr + ABS_K; verif_errno = ABS_E; return ABS_LV; }

static char *verif_transcode_ascii(const XMLCh *s)
{
  XMLSize_t n = XMLString_stringLen(s);
  char *r = (char *)verif_alloc(n + 1);
  for (XMLSize_t i = 0; i < n; i++) r[i] = (s[i] < 0x80) ? (char)s[i] : '?';
  r[n] = 0;
  return r;
}

/*@extract src/xercesc/util/XMLString.cpp XMLString::textToBin
ret false
sub XMLString::indexOf\(trimmedStr, chDash, 0, manager\) => XMLString_indexOf_from(trimmedStr, chDash, 0, manager)
sub XMLString::transcode\(trimmedStr, manager\) => verif_transcode_ascii(trimmedStr)
sub ArrayJanitor<XMLCh> jan1\([^;]*\); =>
sub ArrayJanitor<char> jan2\([^;]*\); =>
sub \berrno\b => verif_errno
sub strtoul\(nptr, &endptr, 10\) => abs_strtoul(nptr, &endptr)
throws XMLString_indexOf_from
@*/
/*@extract src/xercesc/util/XMLString.cpp XMLString::parseInt
sub XMLString::transcode\(trimmedStr, manager\) => verif_transcode_ascii(trimmedStr)
sub ArrayJanitor<XMLCh> jan1\([^;]*\); =>
sub ArrayJanitor<char> jan2\([^;]*\); =>
sub \berrno\b => verif_errno
sub strtol\(nptr, &endptr, 10\) => abs_strtol(nptr, &endptr)
@*/

struct { XMLCh a[NB + 1]; } IN;

void h_xmlstring_tobin_big(void)
{
  XMLSize_t n;
  VERIF_INPUT(IN); VERIF_INPUT(n);
  VERIF_ASSUME(n >= 1 && n <= NB);
  XMLCh *s = IN.a + (NB - n);
  VERIF_ASSUME(s[n] == 0);
  /* XML 1.0 production [2] Char: the only control characters a document can contain are #x9 #xA #xD */
  for (XMLSize_t i = 0; i < n; i++) VERIF_ASSUME(s[i] >= 0x20 || s[i] == 0x9 || s[i] == 0xA || s[i] == 0xD);
  VERIF_INPUT(ABS_UV); VERIF_INPUT(ABS_LV); VERIF_INPUT(ABS_K); VERIF_INPUT(ABS_E);
  VERIF_ASSUME(ABS_K <= n && (ABS_E == 0 || ABS_E == ERANGE));
  VERIF_ASSUME(ABS_E != ERANGE || (ABS_UV == ULONG_MAX && (ABS_LV == LONG_MAX || ABS_LV == LONG_MIN)));
  unsigned int fill = 77;
  verif_thrown = 0; verif_errno = 0;
  bool ok = XMLString_textToBin(s, &fill, 0);
  __CPROVER_assert(!verif_thrown, "C01: textToBin reports failure by its result");
  if (ok)
    __CPROVER_assert(ABS_E != ERANGE && ABS_UV <= 0xFFFFFFFFul && (unsigned long)fill == ABS_UV, "C09: textToBin: an accepted numeral is stored with the exact value strtoul delivered (no silent truncation to 32 bits, no ERANGE ignored)");
  verif_thrown = 0; verif_errno = 0;
  int r = XMLString_parseInt(s, 0);
  VERIF_CANARY("after call");
  if (!verif_thrown)
    __CPROVER_assert(ABS_E != ERANGE && (long)r == ABS_LV, "C09: parseInt: a returned value is exactly the value strtol delivered (no silent truncation to 32 bits, no ERANGE ignored)");
  else
    __CPROVER_assert(verif_throw_type == VT_NumberFormatException, "C09: parseInt reports failure by NumberFormatException");
}
