//@ unit msg_replacetokens_w
//@ props C01
//@ kind W
//@ def quick MT=5 RT=5
//@ def thorough MT=6 RT=6
//@ cbmc all --unwind 10 --unwinding-assertions
//@ entry h_replacetokens
//@ note W: complete for every message text of length <= maxChars <= MT (all 16-bit units), every replacement text of length < RT or null for each of the four slots; loops fully unwound, unwinding assertions on
//@ note contract = XMLString.hpp: errText is a NUL-terminated text in a buffer of maxChars + 1 elements ("to account for the final NULL"); the result is truncated to maxChars; returns the count of characters output
//@ note stubs (trusted): XMLString::replicate copies the text into a harness array; the ArrayJanitor line is dropped
#define VERIF_DEFINE_GHOSTS
#include "verif_prelude.h"
//@ table src/xercesc/util/XMLString.cpp gNullStr

struct { XMLCh a[MT + 1]; } ORG;
static XMLCh *STUB_replicate(const XMLCh *s)
{
  XMLSize_t i = 0;
  while (i < MT && s[i] != 0) { ORG.a[i] = s[i]; i++; }
  ORG.a[i] = 0;
  return ORG.a;
}

/*@extract src/xercesc/util/XMLString.cpp XMLString::replaceTokens
sub replicate\(errText, manager\) => STUB_replicate(errText)
sub ArrayJanitor<XMLCh> janText\(orgText, manager\); =>
@*/

struct { XMLCh a[MT + 1]; } ERR;
struct { XMLCh a[RT]; } T1, T2, T3, T4;

/* spec: copy the text; every {0}..{3} is replaced by the corresponding text ("{null}" for a null pointer); everything else,
   including a '{' that does not start a token, is copied; output truncated to maxChars */
static XMLSize_t spec_replace(const XMLCh *org, XMLSize_t maxChars, const XMLCh *t[4], XMLCh *out)
{
  XMLSize_t i = 0, o = 0;
  while (org[i] != 0 && o < maxChars) {
    if (org[i] == chOpenCurly && org[i + 1] >= chDigit_0 && org[i + 1] <= chDigit_3 && org[i + 2] == chCloseCurly) {
      const XMLCh *r = t[org[i + 1] - chDigit_0];
      if (!r) r = gNullStr;
      for (XMLSize_t k = 0; r[k] != 0 && o < maxChars; k++) out[o++] = r[k];
      i += 3;
    } else {
      out[o++] = org[i++];
    }
  }
  return o;
}

void h_replacetokens(void)
{
  XMLSize_t maxChars; _Bool n1, n2, n3, n4;
  VERIF_INPUT(ERR); VERIF_INPUT(T1); VERIF_INPUT(T2); VERIF_INPUT(T3); VERIF_INPUT(T4); VERIF_INPUT(maxChars);
  VERIF_INPUT(n1); VERIF_INPUT(n2); VERIF_INPUT(n3); VERIF_INPUT(n4);
  VERIF_ASSUME(maxChars <= MT);
  XMLCh *err = ERR.a + (MT - maxChars);       /* END-aligned: exactly maxChars + 1 elements */
  VERIF_ASSUME(err[maxChars] == 0);           /* a NUL-terminated text somewhere in the buffer */
  VERIF_ASSUME(T1.a[RT - 1] == 0 && T2.a[RT - 1] == 0 && T3.a[RT - 1] == 0 && T4.a[RT - 1] == 0);
  const XMLCh *t[4] = { n1 ? (const XMLCh *)0 : T1.a, n2 ? (const XMLCh *)0 : T2.a, n3 ? (const XMLCh *)0 : T3.a, n4 ? (const XMLCh *)0 : T4.a };
  XMLCh org[MT + 1], exp[MT + 1];
  for (XMLSize_t k = 0; k <= MT; k++) org[k] = (k <= maxChars) ? err[k] : 0;
  verif_thrown = 0;

  XMLSize_t r = XMLString_replaceTokens(err, maxChars, t[0], t[1], t[2], t[3], (MemoryManager *)0);
  VERIF_CANARY("after replaceTokens");

  XMLSize_t e = spec_replace(org, maxChars, t, exp);
  __CPROVER_assert(r <= maxChars, "C01: replaceTokens reports at most maxChars characters");
  __CPROVER_assert(r <= MT && err[r <= maxChars ? r : 0] == 0, "C01: the output is NUL-terminated inside the maxChars + 1 buffer");
  __CPROVER_assert(r == e, "C01: output length = length of the replaced text truncated to maxChars");
  for (XMLSize_t k = 0; k < MT; k++)
    if (k < r && k < e) __CPROVER_assert(err[k] == exp[k], "C01: output = message text with {0}..{3} replaced, truncated to maxChars");
}
