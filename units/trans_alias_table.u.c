//@ unit trans_alias_table
//@ props C05
//@ kind W
//@ entry h_alias
//@ note W: the one loop of the function (one recognizer slot per auto-sensed encoding) and the harness searches are unwound completely; the REAL body of XMLTransService::initTransService (the table that binds encoding names to the intrinsic transcoders) runs against a recording registry; the name strings are the real XMLUni constants (copied from XMLUni.cpp on every run)
//@ note spec (harness table): IANA character-set registry names/aliases and XML 1.0 4.3.3 -- US-ASCII family -> ASCII transcoder; UTF-8; ISO-8859-1 family (ISO_8859-1, latin1, l1, IBM819, CP819, csISOLatin1, iso-ir-100) -> Latin-1; UTF-16 / UCS-2 names -> UTF-16 transcoder (byte order left to the BOM: not swapped), UTF-16LE/BE -> swapped iff the host order differs; UCS-4 / UTF-32 likewise; IBM037 / ebcdic-cp-us -> IBM037 table; IBM1047; IBM01140 / CCSID01140 / CP01140 -> IBM1140 table; windows-1252.  Names the library registers that are not in this table are not judged (adding an alias is not a violation)
//@ note trusted stubs: `new ENameMapFor<T>(name)` / `new EEndianNameMapFor<T>(name, swapped)` record (class tag of T, name, swapped); gMappings->put(key, map) and gMappingsRecognizer->setElementAt(map, index) record; that ENameMapFor<T>::makeNew creates a T and that look-ups upper-case the requested name (XMLTransService::makeNewTranscoderFor) is outside the unit
//@ cbmc all --unwind 66 --unwinding-assertions
#define VERIF_DEFINE_GHOSTS
#include "verif_prelude.h"
//@ enum src/xercesc/framework/XMLRecognizer.hpp Encodings XMLRecognizer_ scope=XMLRecognizer
//@ table src/xercesc/util/XMLUni.cpp fgEBCDICEncodingString as XMLUni_fgEBCDICEncodingString
//@ table src/xercesc/util/XMLUni.cpp fgIBM037EncodingString as XMLUni_fgIBM037EncodingString
//@ table src/xercesc/util/XMLUni.cpp fgIBM037EncodingString2 as XMLUni_fgIBM037EncodingString2
//@ table src/xercesc/util/XMLUni.cpp fgIBM1047EncodingString as XMLUni_fgIBM1047EncodingString
//@ table src/xercesc/util/XMLUni.cpp fgIBM1047EncodingString2 as XMLUni_fgIBM1047EncodingString2
//@ table src/xercesc/util/XMLUni.cpp fgIBM1140EncodingString as XMLUni_fgIBM1140EncodingString
//@ table src/xercesc/util/XMLUni.cpp fgIBM1140EncodingString2 as XMLUni_fgIBM1140EncodingString2
//@ table src/xercesc/util/XMLUni.cpp fgIBM1140EncodingString3 as XMLUni_fgIBM1140EncodingString3
//@ table src/xercesc/util/XMLUni.cpp fgIBM1140EncodingString4 as XMLUni_fgIBM1140EncodingString4
//@ table src/xercesc/util/XMLUni.cpp fgISO88591EncodingString as XMLUni_fgISO88591EncodingString
//@ table src/xercesc/util/XMLUni.cpp fgISO88591EncodingString2 as XMLUni_fgISO88591EncodingString2
//@ table src/xercesc/util/XMLUni.cpp fgISO88591EncodingString3 as XMLUni_fgISO88591EncodingString3
//@ table src/xercesc/util/XMLUni.cpp fgISO88591EncodingString4 as XMLUni_fgISO88591EncodingString4
//@ table src/xercesc/util/XMLUni.cpp fgISO88591EncodingString5 as XMLUni_fgISO88591EncodingString5
//@ table src/xercesc/util/XMLUni.cpp fgISO88591EncodingString6 as XMLUni_fgISO88591EncodingString6
//@ table src/xercesc/util/XMLUni.cpp fgISO88591EncodingString7 as XMLUni_fgISO88591EncodingString7
//@ table src/xercesc/util/XMLUni.cpp fgISO88591EncodingString8 as XMLUni_fgISO88591EncodingString8
//@ table src/xercesc/util/XMLUni.cpp fgISO88591EncodingString9 as XMLUni_fgISO88591EncodingString9
//@ table src/xercesc/util/XMLUni.cpp fgISO88591EncodingString10 as XMLUni_fgISO88591EncodingString10
//@ table src/xercesc/util/XMLUni.cpp fgISO88591EncodingString11 as XMLUni_fgISO88591EncodingString11
//@ table src/xercesc/util/XMLUni.cpp fgISO88591EncodingString12 as XMLUni_fgISO88591EncodingString12
//@ table src/xercesc/util/XMLUni.cpp fgUCS4EncodingString as XMLUni_fgUCS4EncodingString
//@ table src/xercesc/util/XMLUni.cpp fgUCS4EncodingString2 as XMLUni_fgUCS4EncodingString2
//@ table src/xercesc/util/XMLUni.cpp fgUCS4EncodingString3 as XMLUni_fgUCS4EncodingString3
//@ table src/xercesc/util/XMLUni.cpp fgUCS4EncodingString4 as XMLUni_fgUCS4EncodingString4
//@ table src/xercesc/util/XMLUni.cpp fgUCS4EncodingString5 as XMLUni_fgUCS4EncodingString5
//@ table src/xercesc/util/XMLUni.cpp fgUCS4BEncodingString as XMLUni_fgUCS4BEncodingString
//@ table src/xercesc/util/XMLUni.cpp fgUCS4BEncodingString2 as XMLUni_fgUCS4BEncodingString2
//@ table src/xercesc/util/XMLUni.cpp fgUCS4LEncodingString as XMLUni_fgUCS4LEncodingString
//@ table src/xercesc/util/XMLUni.cpp fgUCS4LEncodingString2 as XMLUni_fgUCS4LEncodingString2
//@ table src/xercesc/util/XMLUni.cpp fgUSASCIIEncodingString as XMLUni_fgUSASCIIEncodingString
//@ table src/xercesc/util/XMLUni.cpp fgUSASCIIEncodingString2 as XMLUni_fgUSASCIIEncodingString2
//@ table src/xercesc/util/XMLUni.cpp fgUSASCIIEncodingString3 as XMLUni_fgUSASCIIEncodingString3
//@ table src/xercesc/util/XMLUni.cpp fgUSASCIIEncodingString4 as XMLUni_fgUSASCIIEncodingString4
//@ table src/xercesc/util/XMLUni.cpp fgUTF8EncodingString as XMLUni_fgUTF8EncodingString
//@ table src/xercesc/util/XMLUni.cpp fgUTF8EncodingString2 as XMLUni_fgUTF8EncodingString2
//@ table src/xercesc/util/XMLUni.cpp fgUTF16EncodingString as XMLUni_fgUTF16EncodingString
//@ table src/xercesc/util/XMLUni.cpp fgUTF16EncodingString2 as XMLUni_fgUTF16EncodingString2
//@ table src/xercesc/util/XMLUni.cpp fgUTF16EncodingString3 as XMLUni_fgUTF16EncodingString3
//@ table src/xercesc/util/XMLUni.cpp fgUTF16EncodingString4 as XMLUni_fgUTF16EncodingString4
//@ table src/xercesc/util/XMLUni.cpp fgUTF16EncodingString5 as XMLUni_fgUTF16EncodingString5
//@ table src/xercesc/util/XMLUni.cpp fgUTF16EncodingString6 as XMLUni_fgUTF16EncodingString6
//@ table src/xercesc/util/XMLUni.cpp fgUTF16EncodingString7 as XMLUni_fgUTF16EncodingString7
//@ table src/xercesc/util/XMLUni.cpp fgUTF16BEncodingString as XMLUni_fgUTF16BEncodingString
//@ table src/xercesc/util/XMLUni.cpp fgUTF16BEncodingString2 as XMLUni_fgUTF16BEncodingString2
//@ table src/xercesc/util/XMLUni.cpp fgUTF16LEncodingString as XMLUni_fgUTF16LEncodingString
//@ table src/xercesc/util/XMLUni.cpp fgUTF16LEncodingString2 as XMLUni_fgUTF16LEncodingString2
//@ table src/xercesc/util/XMLUni.cpp fgWin1252EncodingString as XMLUni_fgWin1252EncodingString
//@ table src/xercesc/util/XMLUni.cpp fgXMLChEncodingString as XMLUni_fgXMLChEncodingString
enum { TG_XMLChTranscoder = 1, TG_XMLASCIITranscoder, TG_XMLUTF8Transcoder, TG_XML88591Transcoder, TG_XMLUTF16Transcoder, TG_XMLUCS4Transcoder,
       TG_XMLEBCDICTranscoder, TG_XMLIBM1047Transcoder, TG_XMLIBM1140Transcoder, TG_XMLWin1252Transcoder };
struct ENameMap { int cls; const XMLCh *name; int swapped; int endian; }; typedef struct ENameMap ENameMap;
#define NMAPS 64
struct { ENameMap m[NMAPS]; } MAPS; int NMAP;
struct { const XMLCh *key[NMAPS]; ENameMap *map[NMAPS]; } REG; int NREG;
ENameMap *RECOG[XMLRecognizer_Encodings_Count + 1]; int NRECOG;
_Bool XMLPlatformUtils_fgXMLChBigEndian;
static ENameMap* MK(int cls, const XMLCh *name, int endian, bool swapped)
{ ENameMap *r = &MAPS.m[NMAP < NMAPS ? NMAP : 0]; __CPROVER_assert(NMAP < NMAPS, "registry bound"); NMAP++; r->cls = cls; r->name = name; r->swapped = swapped; r->endian = endian; return r; }
static void MAP_put(const XMLCh *key, ENameMap *m) { __CPROVER_assert(NREG < NMAPS, "registry bound"); if (NREG < NMAPS) { REG.key[NREG] = key; REG.map[NREG] = m; } NREG++; }
static void REC_add(ENameMap *m) { if (NRECOG <= XMLRecognizer_Encodings_Count) RECOG[NRECOG] = m; NRECOG++; }
static void REC_set(ENameMap *m, int i) { __CPROVER_assert(i >= 0 && i < NRECOG && i < XMLRecognizer_Encodings_Count, "C01: recognizer table index in range"); if (i >= 0 && i < XMLRecognizer_Encodings_Count) RECOG[i] = m; }

/*@extract src/xercesc/util/TransService.cpp XMLTransService::initTransService
as TS_initTransService
sub* new ENameMapFor<(\w+)>\s*\(\s*([\w:]+)\s*\) => MK(TG_\1, \2, 0, 0)
sub* new EEndianNameMapFor<(\w+)>\s*\(\s*([\w:]+)\s*,\s*(\w+)\s*\) => MK(TG_\1, \2, 1, \3)
sub* gMappings->put\s*\(\s*\(void\*\)\s* => MAP_put(
sub* gMappingsRecognizer->setElementAt\( => REC_set(
sub* gMappingsRecognizer->addElement\(0\) => REC_add(0)
@*/

/* the spec table: name (ASCII, as registered: upper case), class, 0 = byte order not forced, 'L' / 'B' = little / big endian forced */
struct spec_row { const char *name; int cls; char order; };
static const struct spec_row SPEC[] = {
  { "US-ASCII", TG_XMLASCIITranscoder, 0 }, { "ASCII", TG_XMLASCIITranscoder, 0 }, { "USASCII", TG_XMLASCIITranscoder, 0 }, { "US_ASCII", TG_XMLASCIITranscoder, 0 },
  { "UTF-8", TG_XMLUTF8Transcoder, 0 }, { "UTF8", TG_XMLUTF8Transcoder, 0 },
  { "ISO-8859-1", TG_XML88591Transcoder, 0 }, { "ISO_8859-1", TG_XML88591Transcoder, 0 }, { "ISO8859-1", TG_XML88591Transcoder, 0 }, { "LATIN1", TG_XML88591Transcoder, 0 },
  { "L1", TG_XML88591Transcoder, 0 }, { "IBM819", TG_XML88591Transcoder, 0 }, { "CP819", TG_XML88591Transcoder, 0 }, { "CSISOLATIN1", TG_XML88591Transcoder, 0 },
  { "ISO-IR-100", TG_XML88591Transcoder, 0 }, { "IBM-819", TG_XML88591Transcoder, 0 }, { "LATIN-1", TG_XML88591Transcoder, 0 }, { "LATIN_1", TG_XML88591Transcoder, 0 },
  { "UTF-16", TG_XMLUTF16Transcoder, 0 }, { "UTF16", TG_XMLUTF16Transcoder, 0 }, { "UCS-2", TG_XMLUTF16Transcoder, 0 }, { "UCS2", TG_XMLUTF16Transcoder, 0 },
  { "ISO-10646-UCS-2", TG_XMLUTF16Transcoder, 0 }, { "IBM1200", TG_XMLUTF16Transcoder, 0 }, { "IBM-1200", TG_XMLUTF16Transcoder, 0 },
  { "UTF-16LE", TG_XMLUTF16Transcoder, 'L' }, { "UTF-16 (LE)", TG_XMLUTF16Transcoder, 'L' }, { "UTF-16BE", TG_XMLUTF16Transcoder, 'B' }, { "UTF-16 (BE)", TG_XMLUTF16Transcoder, 'B' },
  { "UCS-4", TG_XMLUCS4Transcoder, 0 }, { "UCS4", TG_XMLUCS4Transcoder, 0 }, { "UCS_4", TG_XMLUCS4Transcoder, 0 }, { "UTF-32", TG_XMLUCS4Transcoder, 0 }, { "ISO-10646-UCS-4", TG_XMLUCS4Transcoder, 0 },
  { "UCS-4LE", TG_XMLUCS4Transcoder, 'L' }, { "UCS-4 (LE)", TG_XMLUCS4Transcoder, 'L' }, { "UCS-4BE", TG_XMLUCS4Transcoder, 'B' }, { "UCS-4 (BE)", TG_XMLUCS4Transcoder, 'B' },
  { "IBM037", TG_XMLEBCDICTranscoder, 0 }, { "EBCDIC-CP-US", TG_XMLEBCDICTranscoder, 0 },
  { "IBM1047", TG_XMLIBM1047Transcoder, 0 }, { "IBM-1047", TG_XMLIBM1047Transcoder, 0 },
  { "IBM01140", TG_XMLIBM1140Transcoder, 0 }, { "IBM1140", TG_XMLIBM1140Transcoder, 0 }, { "CCSID01140", TG_XMLIBM1140Transcoder, 0 }, { "CP01140", TG_XMLIBM1140Transcoder, 0 },
  { "WINDOWS-1252", TG_XMLWin1252Transcoder, 0 },
};
#define NSPEC ((int)(sizeof SPEC / sizeof SPEC[0]))
static int name_is(const XMLCh *w, const char *a) { int i = 0; for (; i < 24; i++) { if (w[i] != (XMLCh)(unsigned char)a[i]) return 0; if (!a[i]) return 1; } return 0; }

void h_alias(void)
{
  unsigned char be; int g, r;
  VERIF_INPUT(be); VERIF_INPUT(g); VERIF_INPUT(r);
  XMLPlatformUtils_fgXMLChBigEndian = (be & 1) != 0;
  NMAP = 0; NREG = 0; NRECOG = 0; verif_thrown = 0;
  TS_initTransService();
  VERIF_CANARY("after initTransService");
  __CPROVER_assert(!verif_thrown && NREG <= NMAPS, "C05: the intrinsic encodings are registered");
  /* every spec name is registered, under its own name, with the right transcoder and byte order */
  VERIF_ASSUME(g >= 0 && g < NSPEC);
  int found = -1;
  for (int k = 0; k < NMAPS; k++) if (k < NREG && found < 0 && name_is(REG.key[k], SPEC[g].name)) found = k;
  __CPROVER_assert(found >= 0, "C05: every IANA name / alias of the intrinsic encodings is known to the transcoding service");
  if (found >= 0) {
    const ENameMap *m = REG.map[found];
    __CPROVER_assert(m->cls == SPEC[g].cls, "C05: an encoding name is bound to the transcoder of that encoding");
    int hostBE = (be & 1) != 0;
    int wantSwapped = SPEC[g].order == 'L' ? hostBE : SPEC[g].order == 'B' ? !hostBE : 0;
    __CPROVER_assert((m->swapped != 0) == (wantSwapped != 0), "C05: a name that fixes the byte order swaps exactly when the host order differs; a name that does not leaves it to the BOM");
  }
  /* every registered entry is filed under the name its map reports */
  VERIF_ASSUME(r >= 0 && r < NREG && r < NMAPS);
  __CPROVER_assert(REG.key[r] == REG.map[r]->name, "C05: a transcoder map is registered under its own encoding name");
  /* the auto-sensed encodings */
  __CPROVER_assert(NRECOG == XMLRecognizer_Encodings_Count, "C05: one recognizer slot per auto-sensed encoding");
  __CPROVER_assert(RECOG[XMLRecognizer_US_ASCII] && RECOG[XMLRecognizer_US_ASCII]->cls == TG_XMLASCIITranscoder && RECOG[XMLRecognizer_UTF_8] && RECOG[XMLRecognizer_UTF_8]->cls == TG_XMLUTF8Transcoder
                   && RECOG[XMLRecognizer_EBCDIC] && RECOG[XMLRecognizer_EBCDIC]->cls == TG_XMLEBCDICTranscoder && RECOG[XMLRecognizer_XERCES_XMLCH] && RECOG[XMLRecognizer_XERCES_XMLCH]->cls == TG_XMLChTranscoder,
                   "C05: auto-sensed ASCII / UTF-8 / EBCDIC / internal encodings use their transcoders");
  __CPROVER_assert(RECOG[XMLRecognizer_UTF_16L] && RECOG[XMLRecognizer_UTF_16L]->cls == TG_XMLUTF16Transcoder && (RECOG[XMLRecognizer_UTF_16L]->swapped != 0) == ((be & 1) != 0)
                   && RECOG[XMLRecognizer_UTF_16B] && RECOG[XMLRecognizer_UTF_16B]->cls == TG_XMLUTF16Transcoder && (RECOG[XMLRecognizer_UTF_16B]->swapped != 0) == ((be & 1) == 0),
                   "C05: auto-sensed UTF-16 LE / BE swap exactly when the host order differs");
  __CPROVER_assert(RECOG[XMLRecognizer_UCS_4L] && RECOG[XMLRecognizer_UCS_4L]->cls == TG_XMLUCS4Transcoder && (RECOG[XMLRecognizer_UCS_4L]->swapped != 0) == ((be & 1) != 0)
                   && RECOG[XMLRecognizer_UCS_4B] && RECOG[XMLRecognizer_UCS_4B]->cls == TG_XMLUCS4Transcoder && (RECOG[XMLRecognizer_UCS_4B]->swapped != 0) == ((be & 1) == 0),
                   "C05: auto-sensed UCS-4 LE / BE swap exactly when the host order differs");
}
