//@ unit dupattr_wf_w
//@ props C02 C06
//@ kind W
//@ def quick NATT=4
//@ def thorough NATT=6
//@ cbmc all --unwind 8 --unwinding-assertions
//@ entry h_dupattr
//@ note fragment of WFXMLScanner::scanStartTagNS (the namespace-level duplicate-attribute check), verified as a function of its own: complete for attribute lists of <= NATT entries in both modes (pairwise and hashed)
//@ note attribute list, hash registry, setAttrDupChkRegistry and emitError are trusted stubs (contracts/dupattr_common.inc)
#define VERIF_DEFINE_GHOSTS
#include "verif_prelude.h"
//@ include dupattr_common.inc

/*@extract src/xercesc/internal/WFXMLScanner.cpp WFXMLScanner::scanStartTagNS
as WF_dupcheck
fragment bool toUseHashTable = false; ||| fAttrDupChkRegistry->put\([^;]*\);\s*\}\s*\}
sig void WF_dupcheck(XMLSize_t attCount)
sub setAttrDupChkRegistry\(attCount, toUseHashTable\) => SC_setAttrDupChkRegistry(attCount, &toUseHashTable)
sub fAttrList->elementAt\( => AL_elementAt(
sub curAtt->getURIId\(\) == loopAttr->getURIId\(\) => curAtt->uri == loopAttr->uri
sub XMLString::equals\(curAtt->getName\(\), loopAttr->getName\(\)\) => (curAtt->name == loopAttr->name)
sub fAttrDupChkRegistry->containsKey\(\(void\*\)loopAttr->getName\(\), loopAttr->getURIId\(\)\) => REG_contains(loopAttr->name, loopAttr->uri)
sub fAttrDupChkRegistry->put\(\(void\*\)loopAttr->getName\(\), loopAttr->getURIId\(\), loopAttr\) => REG_put(loopAttr->name, loopAttr->uri)
sub emitError\s*\(\s*XMLErrs::AttrAlreadyUsedInSTag\s*,[^;]*\); => SC_dupError();
@*/

/* spec (Namespaces in XML, "Attributes Unique"): an error iff two attributes have the same local part and namespace name */
void h_dupattr(void)
{
  XMLSize_t n;
  VERIF_INPUT(ATTS); VERIF_INPUT(n); VERIF_INPUT(USE_HASH);
  VERIF_ASSUME(n >= 1 && n <= NATT);
  DUP_ERRORS = 0; REGN = 0; verif_thrown = 0;
  WF_dupcheck(n);
  VERIF_CANARY("after call");
  int dup = 0;
  for (XMLSize_t i = 0; i < NATT; i++) for (XMLSize_t j = 0; j < NATT; j++)
    if (i < j && j < n && ATTS.a[i].uri == ATTS.a[j].uri && ATTS.a[i].name == ATTS.a[j].name) dup = 1;
  __CPROVER_assert((DUP_ERRORS >= 1) == (dup != 0), "C02/C06: AttrAlreadyUsedInSTag is reported iff two attributes have the same expanded name (both duplicate-check modes)");
}
