//@ unit rdr_getNextCharIfNot
//@ props C03 C04 C01
//@ kind L
//@ def all kCharBufSize=4
//@ rebind src/xercesc/internal/XMLReader.hpp kCharBufSize
//@ enforce XMLReader_getNextCharIfNot
//@ replace XMLReader_refreshCharBuffer
//@ entry h_getNextCharIfNot
//@ note spec/eol.h is written from XML 1.0 5th ed. 2.11 and XML 1.1 2nd ed. 2.11; its parameter r11 ("the 1.1 rule set applies") is instantiated with fNEL, which xerces also sets for 1.0 documents under the non-standard enableNELWS option
//@ note refreshCharBuffer is replaced by the contract proved in unit rdr_refreshCharBuffer; the calls go through the ghost shim of contracts/XMLReader_refill_obs.inc, which records what each refill returned and delivered
//@ note handleEOL is NOT replaced by a contract: its real body is extracted and verified in place
//@ note line/column: the recommendations define none; SPEC_EOL_LINE / SPEC_EOL_COL (DESIGN C03: every character that does not end a line advances the column by one) are the oracle
#define VERIF_DEFINE_GHOSTS
#include "verif_prelude.h"
#include "eol.h"
//@ enum src/xercesc/internal/XMLReader.hpp Sources - scope=XMLReader
//@ enum src/xercesc/internal/XMLReader.hpp XMLVersion - scope=XMLReader
//@ struct src/xercesc/internal/XMLReader.hpp XMLReader only=auto enums=Sources,XMLVersion
//@ include XMLReader_ri.inc
//@ include XMLReader_refill_obs.inc
#define EXT (fSource == Source_External)

/* the sub rule turns `a || f()` into the equivalent `a ? 1 : f()`: goto-instrument 6.11 aborts ("no definite size for lvalue target
   tmp_if_expr") on the bool temporary of a side-effecting || inside a function that is inlined into the enforced one */
/*@extract src/xercesc/internal/XMLReader.cpp XMLReader::handleEOL
sub \(fCharIndex < fCharsAvail\) \|\| refreshCharBuffer\(\) => (fCharIndex < fCharsAvail) ? 1 : refreshCharBuffer()
call refreshCharBuffer => XMLReader_refreshCharBuffer_obs
throws XMLReader_refreshCharBuffer_obs
@*/

/*@extract src/xercesc/internal/XMLReader.hpp XMLReader::getNextCharIfNot
ret false
call refreshCharBuffer => XMLReader_refreshCharBuffer_obs
call handleEOL => XMLReader_handleEOL
throws XMLReader_refreshCharBuffer_obs XMLReader_handleEOL
contract
//@ include XMLReader_nextchar.contract.inc
/* getNextCharIfNot: U[0] is taken iff there is one and it is not the character the caller does not want */
__CPROVER_ensures(!verif_thrown ==> __CPROVER_return_value == (GOT0 && U0 != chNotToGet))
/* refused or nothing there: nothing is consumed -- the unread sequence still starts at U[0], wherever it now sits */
__CPROVER_ensures((!verif_thrown && !__CPROVER_return_value && HAD0) ==> (RF_N == 0 && fCharIndex == O_IDX && fCharsAvail == O_AV))
__CPROVER_ensures((!verif_thrown && !__CPROVER_return_value && !HAD0 && GOT0) ==> (RF_N == 1 && fCharIndex == 0 && fCharsAvail == RF1_AVAIL && fCharBuf[0] == RF1_C0))
__CPROVER_ensures((!verif_thrown && !__CPROVER_return_value && !GOT0) ==> fCharIndex == fCharsAvail)
@*/

XMLCh CH;
void h_getNextCharIfNot(void)
{
  VERIF_INPUT(SELF);
  VERIF_INPUT(CH);
  verif_thrown = 0; RF_N = 0;
  XMLCh notToGet; VERIF_INPUT(notToGet);
  XMLReader_getNextCharIfNot(notToGet, &CH);
  VERIF_CANARY("after call");
}
