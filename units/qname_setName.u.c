//@ unit qname_setName
//@ props C06 C01
//@ kind W
//@ def quick N=4
//@ def thorough N=7
//@ cbmc quick --unwind 30
//@ cbmc thorough --unwind 36
//@ cbmc all --unwinding-assertions
//@ timeout quick=900 thorough=1800
//@ entry h_qname_setName
//@ note W: the REAL bodies of QName::setName(rawName, uriId), setNPrefix, setNLocalPart, XMLString::stringLen / indexOf / moveChars, complete for every NUL-terminated raw name of length <= N and every initial QName whose three buffers are absent (size 0) or hold 1..3 characters; loops (string length, colon search, memmove byte loop) fully unwound, unwinding assertions on
//@ note heap model: allocate(n) = n bytes END-aligned in a constant-size pool object (an overrun leaves the object; never fails; at most three allocations per call), deallocate(p) must get null or one of the three live buffer pointers; memmove = byte loop through a temporary (C11 7.24.2.2)
//@ note oracle (Namespaces in XML [7]-[11]): prefix = the characters before the FIRST colon, local part = everything after it; no colon: empty prefix, local part = the whole name
#define VERIF_DEFINE_GHOSTS
#include "verif_prelude.h"
#include <stdlib.h>
//@ struct src/xercesc/util/QName.hpp QName only=fPrefixBufSz,fLocalPartBufSz,fRawNameBufSz,fURIId,fPrefix,fLocalPart,fRawName,fMemoryManager

#define POOLCH (N + 8 + 1)
#define POOLBYTES (POOLCH * sizeof(XMLCh))
struct { unsigned char *p[6]; } POOLS;        /* 0..2: the initial buffers, 3..5: the allocations of this call */
void *LIVE[3]; int NALLOC;
static void *verif_alloc(size_t n)
{
  __CPROVER_assert(NALLOC < 3, "model: at most three allocations per call");
  __CPROVER_assert(n <= POOLBYTES, "model: allocation fits the pool of the bounded unit");
  void *r = POOLS.p[3 + NALLOC] + (POOLBYTES - n);
  NALLOC++;
  return r;
}
static void verif_free(void *p)
{
  if (p == 0) return;
  __CPROVER_assert(p == LIVE[0] || p == LIVE[1] || p == LIVE[2], "C01: deallocate() gets a live buffer pointer");
  for (int i = 0; i < 3; i++) if (p == LIVE[i]) { LIVE[i] = 0; free(POOLS.p[i]); }
}
void *memmove(void *dst, const void *src, size_t n)
{
  __CPROVER_precondition(n == 0 || __CPROVER_w_ok(dst, n), "memmove destination region writeable");
  __CPROVER_precondition(n == 0 || __CPROVER_r_ok(src, n), "memmove source region readable");
  unsigned char tmp[POOLBYTES];
  __CPROVER_assert(n <= POOLBYTES, "model: memmove length within the bounded unit");
  for (size_t i = 0; i < n; i++) tmp[i] = ((const unsigned char *)src)[i];
  for (size_t i = 0; i < n; i++) ((unsigned char *)dst)[i] = tmp[i];
  return dst;
}
static const XMLCh XMLUni_fgZeroLenString[1] = { 0 };

/*@extract src/xercesc/util/XMLString.hpp XMLString::stringLen
params const XMLCh* const src
@*/
/*@extract src/xercesc/util/XMLString.hpp XMLString::moveChars
@*/
/*@extract src/xercesc/util/XMLString.cpp XMLString::indexOf
params const XMLCh* const toSearch, const XMLCh ch
@*/
/*@extract src/xercesc/util/QName.cpp QName::setNPrefix
sub fMemoryManager->allocate => verif_alloc
sub fMemoryManager->deallocate => verif_free
@*/
/*@extract src/xercesc/util/QName.cpp QName::setNLocalPart
sub fMemoryManager->allocate => verif_alloc
sub fMemoryManager->deallocate => verif_free
@*/
/*@extract src/xercesc/util/QName.cpp QName::setName
params const XMLCh* const rawName
call setNPrefix => QName_setNPrefix
call setNLocalPart => QName_setNLocalPart
sub fMemoryManager->allocate => verif_alloc
sub fMemoryManager->deallocate => verif_free
@*/

struct { XMLCh a[N + 1]; } STR;
static XMLCh *init_buf(int k, XMLSize_t sz)
{
  if (sz == 0) { LIVE[k] = 0; return 0; }
  LIVE[k] = POOLS.p[k] + (POOLBYTES - (sz + 1) * sizeof(XMLCh));
  return LIVE[k];
}
void h_qname_setName(void)
{
  XMLSize_t n; unsigned int uri;
  VERIF_INPUT(SELF); VERIF_INPUT(STR); VERIF_INPUT(n); VERIF_INPUT(uri);
  VERIF_ASSUME(n <= N && STR.a[N] == 0);
  const XMLCh *s = STR.a + (N - n);
  for (XMLSize_t i = 0; i < n; i++) VERIF_ASSUME(s[i] != 0);
  for (int i = 0; i < 6; i++) { POOLS.p[i] = malloc(POOLBYTES); VERIF_ASSUME(POOLS.p[i] != 0); }
  VERIF_ASSUME(fPrefixBufSz <= 3 && fLocalPartBufSz <= 3 && fRawNameBufSz <= 3);
  fPrefix = init_buf(0, fPrefixBufSz); fLocalPart = init_buf(1, fLocalPartBufSz); fRawName = init_buf(2, fRawNameBufSz);
  NALLOC = 0;
  verif_thrown = 0;

  QName_setName(s, uri);
  VERIF_CANARY("after call");

  XMLSize_t colon = n;        /* first colon, n if none */
  for (XMLSize_t i = n; i > 0; i--) if (s[i - 1] == ':') colon = i - 1;
  __CPROVER_assert(!verif_thrown && fURIId == uri, "C06: setName stores the URI id, never throws");
  __CPROVER_assert(fPrefix != 0 && fLocalPart != 0 && __CPROVER_r_ok(fPrefix, (fPrefixBufSz + 1) * sizeof(XMLCh)) && __CPROVER_r_ok(fLocalPart, (fLocalPartBufSz + 1) * sizeof(XMLCh)) &&
                   (fRawName == 0 ? fRawNameBufSz == 0 : __CPROVER_r_ok(fRawName, (fRawNameBufSz + 1) * sizeof(XMLCh))), "C01: the three buffers hold BufSz + 1 characters");
  if (colon < n) {
    __CPROVER_assert(colon <= fPrefixBufSz && fPrefix[colon] == 0, "C06: prefix length = index of the first colon");
    for (XMLSize_t i = 0; i < colon; i++) __CPROVER_assert(fPrefix[i] == s[i], "C06: prefix = the characters before the first colon");
    __CPROVER_assert(n - colon - 1 <= fLocalPartBufSz && fLocalPart[n - colon - 1] == 0, "C06: local part length = what follows the first colon");
    for (XMLSize_t i = colon + 1; i < n; i++) __CPROVER_assert(fLocalPart[i - colon - 1] == s[i], "C06: local part = the characters after the first colon");
    __CPROVER_assert(fRawName != 0 && n <= fRawNameBufSz, "C01: raw name buffer large enough");
    for (XMLSize_t i = 0; i <= n; i++) __CPROVER_assert(fRawName[i] == s[i], "C06: raw name stored unchanged");
  } else {
    __CPROVER_assert(fPrefix[0] == 0, "C06: no colon: empty prefix");
    __CPROVER_assert(n <= fLocalPartBufSz && fLocalPart[n] == 0, "C06: no colon: local part has the length of the name");
    for (XMLSize_t i = 0; i < n; i++) __CPROVER_assert(fLocalPart[i] == s[i], "C06: no colon: local part = the whole name");
    __CPROVER_assert(fRawName == 0 || fRawName[0] == 0, "C06: no colon: cached raw name cleared");
  }
}
