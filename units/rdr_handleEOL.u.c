//@ unit rdr_handleEOL
//@ props C03 C04 C01
//@ kind L
//@ def all kCharBufSize=4
//@ rebind src/xercesc/internal/XMLReader.hpp kCharBufSize
//@ enforce XMLReader_handleEOL
//@ replace XMLReader_refreshCharBuffer
//@ entry h_handleEOL
//@ note spec/eol.h is written from XML 1.0 5th ed. 2.11 and XML 1.1 2nd ed. 2.11; its parameter r11 ("the 1.1 rule set applies") is instantiated with fNEL, which xerces also sets for 1.0 documents under the non-standard enableNELWS option
//@ note refreshCharBuffer is replaced by the contract proved in unit rdr_refreshCharBuffer; the calls go through the ghost shim of contracts/XMLReader_refill_obs.inc, which records what each refill returned and delivered
//@ note line/column: the recommendations define none; SPEC_EOL_LINE / SPEC_EOL_COL (DESIGN C03: every character that does not end a line advances the column by one) are the oracle
#define VERIF_DEFINE_GHOSTS
#include "verif_prelude.h"
#include "eol.h"
//@ enum src/xercesc/internal/XMLReader.hpp Sources - scope=XMLReader
//@ enum src/xercesc/internal/XMLReader.hpp XMLVersion - scope=XMLReader
//@ struct src/xercesc/internal/XMLReader.hpp XMLReader only=auto enums=Sources,XMLVersion
//@ include XMLReader_ri.inc
//@ include XMLReader_refill_obs.inc
#define EXT (fSource == Source_External)
#define OLD_NEXT __CPROVER_old(fCharBuf[(fCharIndex < kCharBufSize) ? fCharIndex : 0])

/*@extract src/xercesc/internal/XMLReader.cpp XMLReader::handleEOL
call refreshCharBuffer => XMLReader_refreshCharBuffer_obs
throws XMLReader_refreshCharBuffer_obs
contract
//@ include XMLReader_handleEOL.contract.inc
@*/

XMLCh CH;
void h_handleEOL(void)
{
  VERIF_INPUT(SELF);
  VERIF_INPUT(CH);
  _Bool inDecl; VERIF_INPUT(inDecl);
  verif_thrown = 0; RF_N = 0;
  XMLReader_handleEOL(&CH, inDecl);
  VERIF_CANARY("after call");
}
