//@ unit str_case
//@ props C01
//@ kind P
//@ def quick STRN=6
//@ def thorough STRN=12
//@ enforce XMLString_upperCaseASCII
//@ enforce XMLString_hash
//@ entry h_str_case
//@ note P: iterations unbounded through loop contracts; string buffers bounded by -DSTRN, END-aligned at the NUL
//@ note "no NUL before the terminator" is carried through the case-mapping loops as a finite conjunction over the STRN elements (the mapping never produces a NUL)
//@ note hash: the hash VALUE is not specified (any function of the characters); proved: no division by zero under the documented precondition hashModulus != 0, result < hashModulus, reads end at the terminator
#define VERIF_DEFINE_GHOSTS
#include "verif_prelude.h"
//@ include str_common.inc
#define UP_ASCII(c) ((XMLCh)(((c) >= 0x61 && (c) <= 0x7A) ? (c) - 0x20 : (c)))
#define LOW_ASCII(c) ((XMLCh)(((c) >= 0x41 && (c) <= 0x5A) ? (c) + 0x20 : (c)))

/*@extract src/xercesc/util/XMLString.cpp XMLString::upperCaseASCII
contract
__CPROVER_requires(G < STRN && LEN1 < STRN)
__CPROVER_requires(toUpperCase == 0 || (STR_IS(toUpperCase, LEN1) && __CPROVER_w_ok(toUpperCase, (LEN1 + 1) * sizeof(XMLCh))))
__CPROVER_assigns(toUpperCase != 0: __CPROVER_object_upto(toUpperCase, (LEN1 + 1) * sizeof(XMLCh)))
__CPROVER_ensures(toUpperCase != 0 ==> toUpperCase[LEN1] == 0)
__CPROVER_ensures((toUpperCase != 0 && G < LEN1) ==> toUpperCase[CL(G, LEN1)] == UP_ASCII(__CPROVER_old(toUpperCase[CL(G, LEN1)])))
loop 1
__CPROVER_assigns(psz1, __CPROVER_object_upto(toUpperCase, (LEN1 + 1) * sizeof(XMLCh)))
__CPROVER_loop_invariant(PTR_IN(psz1, toUpperCase, LEN1) && toUpperCase[LEN1] == 0 && NONUL_BEFORE(toUpperCase, LEN1))
__CPROVER_loop_invariant((G < PIDX(psz1, toUpperCase)) ==> toUpperCase[CL(G, LEN1)] == UP_ASCII(__CPROVER_loop_entry(toUpperCase[CL(G, LEN1)])))
__CPROVER_loop_invariant((G >= PIDX(psz1, toUpperCase) && G <= LEN1) ==> toUpperCase[CL(G, LEN1)] == __CPROVER_loop_entry(toUpperCase[CL(G, LEN1)]))
__CPROVER_decreases(LEN1 - PIDX(psz1, toUpperCase))
@*/


/*@extract src/xercesc/util/XMLString.hpp XMLString::hash
params const XMLCh* const tohash , const XMLSize_t hashModulus
contract
__CPROVER_requires(LEN1 < STRN && hashModulus != 0)
__CPROVER_requires(tohash == 0 || STR_OK(tohash, LEN1))
__CPROVER_assigns()
__CPROVER_ensures(__CPROVER_return_value < hashModulus)
__CPROVER_ensures((tohash == 0 || tohash[0] == 0) ==> __CPROVER_return_value == 0)
loop 1
__CPROVER_assigns(curCh, hashVal)
__CPROVER_loop_invariant(PTR_IN(curCh, tohash, LEN1))
__CPROVER_decreases(LEN1 - PIDX(curCh, tohash))
@*/

struct { XMLCh a[STRN]; } S1, S2, S3;
void h_str_case(void)
{
  XMLSize_t l1, mod; _Bool isnull;
  VERIF_INPUT(S1); VERIF_INPUT(S2); VERIF_INPUT(S3); VERIF_INPUT(G); VERIF_INPUT(l1); VERIF_INPUT(mod); VERIF_INPUT(isnull);
  VERIF_ASSUME(l1 < STRN);
  LEN1 = l1;
  verif_thrown = 0;
  XMLString_upperCaseASCII(isnull ? (XMLCh *)0 : S1.a + (STRN - (l1 + 1)));
  VERIF_CANARY("after upperCaseASCII");
  XMLSize_t h = XMLString_hash(isnull ? (const XMLCh *)0 : S3.a + (STRN - (l1 + 1)), mod);
  VERIF_CANARY("after hash");
  if (h > 1 && l1 > 2) VERIF_CANARY("hash: non-trivial value reachable");
}
