//@ unit msg_tables_w
//@ props C01
//@ kind W
//@ cbmc all --unwind 400 --unwinding-assertions
//@ entry h_msg_tables
//@ note W: the four compiled-in message tables of the InMemory message loader are copied textually from XercesMessages_en_US.hpp; loops over all rows fully unwound (no input: the tables are constants)
//@ note closes the table assumptions of unit msg_loadmsg: every row is NUL-terminated inside its 128 units (a row whose initialiser filled all 128 units would have no terminator), and every message code the library can pass (XMLErrs / XMLValid / XMLExcepts / XMLDOMMsg enumerators; the enumerators beyond the last row are the Low/HighBounds markers of EMPTY categories) names an existing row
//@ note finding msg_table_size_mismatch (latent, not asserted here): the g...ArraySize constants that loadMsg tests against are 1, 5, 3 and 5 larger than the row counts (they count NoError and the trailing markers), so the range test would admit marker ids whose rows do not exist; no caller passes them
#define VERIF_DEFINE_GHOSTS
#include "verif_prelude.h"
//@ enum src/xercesc/util/XMLDOMMsg.hpp Codes XMLDOMMsg_ scope=XMLDOMMsg
//@ table src/xercesc/util/MsgLoaders/InMemory/XercesMessages_en_US.hpp gXMLErrArray
//@ table src/xercesc/util/MsgLoaders/InMemory/XercesMessages_en_US.hpp gXMLErrArraySize
//@ table src/xercesc/util/MsgLoaders/InMemory/XercesMessages_en_US.hpp gXMLValidityArray
//@ table src/xercesc/util/MsgLoaders/InMemory/XercesMessages_en_US.hpp gXMLValidityArraySize
//@ table src/xercesc/util/MsgLoaders/InMemory/XercesMessages_en_US.hpp gXMLExceptArray
//@ table src/xercesc/util/MsgLoaders/InMemory/XercesMessages_en_US.hpp gXMLExceptArraySize
//@ table src/xercesc/util/MsgLoaders/InMemory/XercesMessages_en_US.hpp gXMLDOMMsgArray
//@ table src/xercesc/util/MsgLoaders/InMemory/XercesMessages_en_US.hpp gXMLDOMMsgArraySize

#define ROWS(t) (sizeof(t) / sizeof(t[0]))
#define ROWW(t) (sizeof(t[0]) / sizeof(t[0][0]))
#define CHECK_TABLE(t, n) \
  __CPROVER_assert(ROWS(t) <= (n), "C01: " #t " has at most " #n " rows"); \
  for (XMLSize_t r = 0; r < ROWS(t); r++) __CPROVER_assert(t[r][ROWW(t) - 1] == 0, "C01: every row of " #t " is NUL-terminated inside its row");

void h_msg_tables(void)
{
  verif_thrown = 0;
  CHECK_TABLE(gXMLErrArray, gXMLErrArraySize)
  CHECK_TABLE(gXMLValidityArray, gXMLValidityArraySize)
  CHECK_TABLE(gXMLExceptArray, gXMLExceptArraySize)
  CHECK_TABLE(gXMLDOMMsgArray, gXMLDOMMsgArraySize)
  /* every code that names a message has a row: the last real category ends at the last row, the categories after it are empty */
  __CPROVER_assert(XMLErrs_F_HighBounds == ROWS(gXMLErrArray) && XMLErrs_W_LowBounds == 1, "C01: XMLErrs codes 1..F_HighBounds are the rows of gXMLErrArray");
  __CPROVER_assert(XMLValid_E_HighBounds == ROWS(gXMLValidityArray) && XMLValid_E_LowBounds == 1 && XMLValid_W_LowBounds == XMLValid_E_HighBounds + 1 && XMLValid_W_HighBounds == XMLValid_W_LowBounds + 1
                   && XMLValid_F_LowBounds == XMLValid_W_HighBounds + 1 && XMLValid_F_HighBounds == XMLValid_F_LowBounds + 1, "C01: XMLValid codes 1..E_HighBounds are the rows of gXMLValidityArray, the W and F categories are empty");
  __CPROVER_assert(XMLExcepts_F_HighBounds == ROWS(gXMLExceptArray) && XMLExcepts_W_LowBounds == 1 && XMLExcepts_E_LowBounds == XMLExcepts_F_HighBounds + 1 && XMLExcepts_E_HighBounds == XMLExcepts_E_LowBounds + 1,
                   "C01: XMLExcepts codes 1..F_HighBounds are the rows of gXMLExceptArray, the E category is empty");
  __CPROVER_assert(XMLDOMMsg_F_HighBounds == ROWS(gXMLDOMMsgArray) && XMLDOMMsg_F_LowBounds == 1 && XMLDOMMsg_W_LowBounds == XMLDOMMsg_F_HighBounds + 1 && XMLDOMMsg_W_HighBounds == XMLDOMMsg_W_LowBounds + 1
                   && XMLDOMMsg_E_LowBounds == XMLDOMMsg_W_HighBounds + 1 && XMLDOMMsg_E_HighBounds == XMLDOMMsg_E_LowBounds + 1, "C01: XMLDOMMsg codes 1..F_HighBounds are the rows of gXMLDOMMsgArray, the W and E categories are empty");
  VERIF_CANARY("after table checks");
}
