//@ unit msg_tables_w
//@ props C01
//@ kind W
//@ cbmc all --unwind 400 --unwinding-assertions
//@ entry h_msg_tables
//@ note W: the four compiled-in message tables of the InMemory message loader are copied textually from XercesMessages_en_US.hpp; loops over all rows fully unwound (no input: the tables are constants)
//@ note closes the table assumption of unit msg_loadmsg: every id 1..g...ArraySize names an existing row, and every row is NUL-terminated inside its 128 units (a row whose initialiser filled all 128 units would have no terminator)
#define VERIF_DEFINE_GHOSTS
#include "verif_prelude.h"
//@ table src/xercesc/util/MsgLoaders/InMemory/XercesMessages_en_US.hpp gXMLErrArray
//@ table src/xercesc/util/MsgLoaders/InMemory/XercesMessages_en_US.hpp gXMLErrArraySize
//@ table src/xercesc/util/MsgLoaders/InMemory/XercesMessages_en_US.hpp gXMLValidityArray
//@ table src/xercesc/util/MsgLoaders/InMemory/XercesMessages_en_US.hpp gXMLValidityArraySize
//@ table src/xercesc/util/MsgLoaders/InMemory/XercesMessages_en_US.hpp gXMLExceptArray
//@ table src/xercesc/util/MsgLoaders/InMemory/XercesMessages_en_US.hpp gXMLExceptArraySize
//@ table src/xercesc/util/MsgLoaders/InMemory/XercesMessages_en_US.hpp gXMLDOMMsgArray
//@ table src/xercesc/util/MsgLoaders/InMemory/XercesMessages_en_US.hpp gXMLDOMMsgArraySize

#define ROWS(t) (sizeof(t) / sizeof(t[0]))
#define ROWW(t) (sizeof(t[0]) / sizeof(t[0][0]))
#define CHECK_TABLE(t, n) \
  __CPROVER_assert(ROWS(t) == (n), "C01: " #t " has exactly " #n " rows (ids 1.." #n " index inside the table)"); \
  for (XMLSize_t r = 0; r < ROWS(t); r++) __CPROVER_assert(t[r][ROWW(t) - 1] == 0, "C01: every row of " #t " is NUL-terminated inside its row");

void h_msg_tables(void)
{
  verif_thrown = 0;
  CHECK_TABLE(gXMLErrArray, gXMLErrArraySize)
  CHECK_TABLE(gXMLValidityArray, gXMLValidityArraySize)
  CHECK_TABLE(gXMLExceptArray, gXMLExceptArraySize)
  CHECK_TABLE(gXMLDOMMsgArray, gXMLDOMMsgArraySize)
  VERIF_CANARY("after table checks");
}
