//@ unit str_equals
//@ props C01
//@ kind P
//@ def quick STRN=6
//@ def thorough STRN=12
//@ enforce XMLString_equals
//@ enforce XMLString_equalsN
//@ entry h_str_equals
//@ note P: iterations unbounded through loop contracts; string buffers bounded by -DSTRN, END-aligned at the own NUL (equals) or at the last unit the comparison may look at (equalsN)
//@ note functional spec by witness KW (see str_cmp): equals <=> the units at the first position where the strings differ or end are the same; a null pointer equals the empty string (XMLString.hpp)
#define VERIF_DEFINE_GHOSTS
#include "verif_prelude.h"
//@ include str_common.inc
XMLSize_t KW, NW;
const XMLCh *P1, *P2;           /* ghost copies of the arguments (equals/equalsN advance their parameters) */

/*@extract src/xercesc/util/XMLString.hpp XMLString::equals
params const XMLCh* str1 , const XMLCh* str2
contract
__CPROVER_requires(KW < STRN && LEN1 < STRN && LEN2 < STRN && P1 == str1 && P2 == str2)
__CPROVER_requires(str1 == 0 || STR_OK(str1, LEN1))
__CPROVER_requires(str2 == 0 || STR_OK(str2, LEN2))
__CPROVER_requires((str1 != 0 && str2 != 0) ==> (KW <= LEN1 && KW <= LEN2 && EQ_BEFORE(str1, str2, KW) && (str1[KW] != str2[KW] || str1[KW] == 0)))
__CPROVER_assigns()
__CPROVER_ensures((P1 != 0 && P2 != 0) ==> __CPROVER_return_value == (P1[KW] == P2[KW]))
/* a null pointer equals the empty string */
__CPROVER_ensures((P1 == 0 || P2 == 0) ==> __CPROVER_return_value == ((P1 == 0 || P1[0] == 0) && (P2 == 0 || P2[0] == 0)))
loop 1
__CPROVER_assigns(str1, str2)
__CPROVER_loop_invariant(PTR_IN(str1, P1, KW) && PTR_IN(str2, P2, KW) && PIDX(str1, P1) == PIDX(str2, P2))
__CPROVER_decreases(KW - PIDX(str1, P1))
@*/

/*@extract src/xercesc/util/XMLString.hpp XMLString::equalsN
params const XMLCh* str1, const XMLCh* str2, XMLSize_t n
contract
__CPROVER_requires(KW < STRN && NW == n && KW <= n && P1 == str1 && P2 == str2)
__CPROVER_requires(str1 == 0 || __CPROVER_r_ok(str1, ((KW == n) ? KW : KW + 1) * sizeof(XMLCh)))
__CPROVER_requires(str2 == 0 || __CPROVER_r_ok(str2, ((KW == n) ? KW : KW + 1) * sizeof(XMLCh)))
__CPROVER_requires((str1 != 0 && str2 != 0) ==> (EQ_BEFORE(str1, str2, KW) && (KW == n || str1[KW] != str2[KW] || str1[KW] == 0)))
/* with a null argument the other one is looked at only at index 0 */
__CPROVER_requires((str1 == 0 || str2 == 0) ==> (n == 0 || KW >= 1 || KW < n))
__CPROVER_assigns()
__CPROVER_ensures((P1 != 0 && P2 != 0) ==> __CPROVER_return_value == (KW == NW || P1[KW] == P2[KW]))
__CPROVER_ensures(((P1 == 0 || P2 == 0) && NW != 0 && P1 != P2) ==> __CPROVER_return_value == ((P1 == 0 || P1[0] == 0) && (P2 == 0 || P2[0] == 0)))
__CPROVER_ensures((NW == 0 || P1 == P2) ==> __CPROVER_return_value)
loop 1
__CPROVER_assigns(str1, str2, n)
__CPROVER_loop_invariant(PTR_IN(str1, P1, KW) && PTR_IN(str2, P2, KW) && PIDX(str1, P1) == PIDX(str2, P2) && n <= NW && PIDX(str1, P1) == NW - n)
__CPROVER_decreases(n)
@*/

struct { XMLCh a[STRN]; } S1, S2;
void h_str_equals(void)
{
  XMLSize_t l1, l2, maxChars; _Bool null1, null2, same;
  VERIF_INPUT(S1); VERIF_INPUT(S2); VERIF_INPUT(KW); VERIF_INPUT(l1); VERIF_INPUT(l2); VERIF_INPUT(maxChars);
  VERIF_INPUT(null1); VERIF_INPUT(null2); VERIF_INPUT(same);
  VERIF_ASSUME(l1 < STRN && l2 < STRN);
  const XMLCh *s1 = null1 ? (const XMLCh *)0 : S1.a + (STRN - (l1 + 1));
  const XMLCh *s2 = null2 ? (const XMLCh *)0 : S2.a + (STRN - (l2 + 1));
  LEN1 = l1; LEN2 = l2; P1 = same ? s2 : s1; P2 = s2;
  if (same) LEN1 = l2;
  verif_thrown = 0;

  bool e1 = XMLString_equals(P1, P2);
  VERIF_CANARY("after equals");
  if (e1 && !same && !null1 && !null2 && l1 > 1) VERIF_CANARY("equals: equal non-empty strings reachable");
  if (null1 && !null2 && !same) VERIF_CANARY("equals: null first argument reachable");

  /* independent inputs for the second function (the two witness assumptions must not constrain each other) */
  VERIF_INPUT(KW); VERIF_INPUT(S1); VERIF_INPUT(S2);
  VERIF_ASSUME(KW <= maxChars);
  XMLSize_t need = (KW == maxChars) ? KW : KW + 1;
  P1 = null1 ? (const XMLCh *)0 : S1.a + (STRN - need); P2 = null2 ? (const XMLCh *)0 : S2.a + (STRN - need); NW = maxChars;
  bool e2 = XMLString_equalsN(P1, P2, maxChars);
  VERIF_CANARY("after equalsN");
  if (!null1 && !null2 && KW == maxChars && KW > 1) VERIF_CANARY("equalsN: count exhausted reachable");
}
