//@ unit fmt_special
//@ props C12 C01
//@ kind P
//@ def quick NS=6
//@ def thorough NS=16
//@ enforce XMLFormatter_specialFormat
//@ replace XMLTranscoder_canTranscodeTo
//@ replace XMLFormatter_formatBuf
//@ replace XMLFormatter_writeCharRef_ch
//@ replace XMLFormatter_writeCharRef_sz
//@ cbmc all --arrays-uf-always
//@ entry h_fmt_special
//@ note P: unbounded text length through loop contracts; only the object holding the text is bounded by -DNS. The text object has EXACTLY count elements (formatBuf's interface is pointer + count; nothing in XMLFormatter.hpp asks for a terminator behind the counted part)
//@ note XMLTranscoder::canTranscodeTo (pure virtual; signature from XMLUTF8Transcoder) is replaced by a contract over an ARBITRARY (nondet) representability table REP[]; formatBuf (re-entered with UnRep_Fail for the representable runs; proved in fmt_formatbuf) and both writeCharRef overloads (fmt_charref) are contract-only
//@ note ghost GH_pos as in fmt_formatbuf: each callee must be handed exactly the character(s) at GH_pos: representable runs go to formatBuf, every unrepresentable character becomes ONE character reference, a surrogate pair ONE reference to the code point it encodes (Unicode D91), and GH_pos == count at exit
#define VERIF_DEFINE_GHOSTS
#include "verif_prelude.h"
#include "unicode.h"

typedef int EscapeFlags;
typedef int UnRepFlags;
typedef int XMLFormatter_EscapeFlags;
typedef int XMLFormatter_UnRepFlags;
typedef struct XMLFormatter XMLFormatter;
//@ enum src/xercesc/framework/XMLFormatter.hpp EscapeFlags XMLFormatter_ scope=XMLFormatter
//@ enum src/xercesc/framework/XMLFormatter.hpp UnRepFlags XMLFormatter_ scope=XMLFormatter
//@ struct src/xercesc/framework/XMLFormatter.hpp XMLFormatter only=auto enums=EscapeFlags,UnRepFlags
struct XMLTranscoder { char opaque; };

const XMLCh *GH_base; XMLSize_t GH_total, GH_pos, G;
int GH_mode;
_Bool REP[65536];                  /* arbitrary: which UTF-16 code units the target encoding can represent */
#define REPRESENTABLE(c) (REP[(XMLCh)(c)])
#define IS_AT_POS(p) (__CPROVER_same_object((p), GH_base) && __CPROVER_POINTER_OFFSET(p) == __CPROVER_POINTER_OFFSET(GH_base) + GH_pos * sizeof(XMLCh))
#define AT(i) (GH_base[(i) < GH_total ? (i) : 0])
#define IS_LEAD(c) ((c) >= 0xD800 && (c) <= 0xDBFF)
#define IS_TRAIL(c) ((c) >= 0xDC00 && (c) <= 0xDFFF)

/*@extract src/xercesc/util/XMLUTF8Transcoder.cpp XMLUTF8Transcoder::canTranscodeTo
as XMLTranscoder_canTranscodeTo
selfparam XMLTranscoder
declonly
contract
__CPROVER_requires(toCheck <= 0xFFFF)
__CPROVER_assigns()
__CPROVER_ensures(__CPROVER_return_value == REPRESENTABLE(toCheck))
@*/
/*@extract src/xercesc/framework/XMLFormatter.cpp XMLFormatter::formatBuf
declonly
contract
/* a non-empty run of representable characters starting at GH_pos, to be written with the caller's escape mode; UnRep_Fail */
__CPROVER_requires(!verif_thrown && count >= 1 && GH_pos <= GH_total && count <= GH_total - GH_pos && IS_AT_POS(toFormat))
__CPROVER_requires(escapeFlags == GH_mode && unrepFlags == XMLFormatter_UnRep_Fail)
__CPROVER_requires(G < count ==> REPRESENTABLE(toFormat[G < count ? G : 0]))
__CPROVER_assigns(GH_pos, verif_thrown, verif_throw_type, verif_throw_code)
__CPROVER_ensures(!verif_thrown ==> GH_pos == __CPROVER_old(GH_pos) + count)
__CPROVER_ensures(verif_thrown ==> GH_pos == __CPROVER_old(GH_pos))
@*/
/*@extract src/xercesc/framework/XMLFormatter.cpp XMLFormatter::writeCharRef
params const XMLCh &toWrite
as XMLFormatter_writeCharRef_ch
declonly
contract
/* one reference for the unrepresentable character at GH_pos (not half of a surrogate pair) */
__CPROVER_requires(!verif_thrown && GH_pos < GH_total && IS_AT_POS(toWrite_p) && !REPRESENTABLE(*toWrite_p) && !IS_LEAD(*toWrite_p))
__CPROVER_assigns(GH_pos, verif_thrown, verif_throw_type, verif_throw_code)
__CPROVER_ensures(!verif_thrown ==> GH_pos == __CPROVER_old(GH_pos) + 1)
__CPROVER_ensures(verif_thrown ==> GH_pos == __CPROVER_old(GH_pos))
@*/
/*@extract src/xercesc/framework/XMLFormatter.cpp XMLFormatter::writeCharRef
params XMLSize_t toWrite
as XMLFormatter_writeCharRef_sz
declonly
contract
/* one reference for the surrogate pair at GH_pos, GH_pos + 1 -- both inside the text -- naming the code point it encodes */
__CPROVER_requires(!verif_thrown && GH_total >= 2 && GH_pos <= GH_total - 2 && IS_LEAD(AT(GH_pos)) && !REPRESENTABLE(AT(GH_pos)))
__CPROVER_requires(IS_TRAIL(AT(GH_pos + 1)) /* a lead surrogate without its trail is not well-formed text: nothing sensible can be referenced */)
__CPROVER_requires(toWrite == spec_pair_to_cp(AT(GH_pos), AT(GH_pos + 1)))
__CPROVER_assigns(GH_pos, verif_thrown, verif_throw_type, verif_throw_code)
__CPROVER_ensures(!verif_thrown ==> GH_pos == __CPROVER_old(GH_pos) + 2)
__CPROVER_ensures(verif_thrown ==> GH_pos == __CPROVER_old(GH_pos))
@*/

/*@extract src/xercesc/framework/XMLFormatter.cpp XMLFormatter::specialFormat
method fXCoder->canTranscodeTo => XMLTranscoder_canTranscodeTo
call formatBuf => XMLFormatter_formatBuf
sub writeCharRef\(\(XMLSize_t\) => writeCharRef_sz((XMLSize_t)
sub writeCharRef\(\*srcPtr\) => writeCharRef_ch(*srcPtr)
call writeCharRef_sz => XMLFormatter_writeCharRef_sz
call writeCharRef_ch => XMLFormatter_writeCharRef_ch
throws XMLFormatter_formatBuf XMLFormatter_writeCharRef_sz XMLFormatter_writeCharRef_ch
contract
__CPROVER_requires(!verif_thrown && count <= NS && __CPROVER_r_ok(toFormat, count * sizeof(XMLCh)) && G < NS)
__CPROVER_requires(toFormat == GH_base && count == GH_total && GH_pos == 0 && escapeFlags == GH_mode && fXCoder != 0)
__CPROVER_assigns(GH_pos, verif_thrown, verif_throw_type, verif_throw_code)
__CPROVER_ensures(!verif_thrown ==> GH_pos == GH_total)
loop 1
__CPROVER_assigns(srcPtr, GH_pos, verif_thrown, verif_throw_type, verif_throw_code)
__CPROVER_loop_invariant(!verif_thrown && GH_pos <= GH_total && IS_AT_POS(srcPtr))
__CPROVER_loop_invariant(__CPROVER_same_object(endPtr, GH_base) && __CPROVER_POINTER_OFFSET(endPtr) == __CPROVER_POINTER_OFFSET(GH_base) + GH_total * sizeof(XMLCh))
__CPROVER_decreases(GH_total - GH_pos)
loop 2
__CPROVER_assigns(tmpPtr)
__CPROVER_loop_invariant(__CPROVER_same_object(tmpPtr, GH_base) && __CPROVER_POINTER_OFFSET(tmpPtr) >= __CPROVER_POINTER_OFFSET(srcPtr) && __CPROVER_POINTER_OFFSET(tmpPtr) <= __CPROVER_POINTER_OFFSET(endPtr))
__CPROVER_loop_invariant((__CPROVER_POINTER_OFFSET(tmpPtr) - __CPROVER_POINTER_OFFSET(GH_base)) % sizeof(XMLCh) == 0)
__CPROVER_loop_invariant((GH_pos + G) * sizeof(XMLCh) + __CPROVER_POINTER_OFFSET(GH_base) < __CPROVER_POINTER_OFFSET(tmpPtr) ==> REPRESENTABLE(AT(GH_pos + G)))
__CPROVER_decreases(__CPROVER_POINTER_OFFSET(endPtr) - __CPROVER_POINTER_OFFSET(tmpPtr))
loop 3
__CPROVER_assigns(srcPtr, tmpPtr, GH_pos, verif_thrown, verif_throw_type, verif_throw_code)
__CPROVER_loop_invariant(!verif_thrown && GH_pos <= GH_total && IS_AT_POS(srcPtr))
/* the character at GH_pos, if any, is unrepresentable (first round: the scan stopped on it; later rounds: the representable test did not break) */
__CPROVER_loop_invariant(GH_pos < GH_total ==> !REPRESENTABLE(AT(GH_pos)))
__CPROVER_loop_invariant(GH_pos >= __CPROVER_loop_entry(GH_pos) && (GH_pos > __CPROVER_loop_entry(GH_pos) || GH_pos < GH_total))
__CPROVER_decreases(GH_total - GH_pos)
@*/

struct { XMLCh a[NS]; } SRC;
struct XMLTranscoder XC;
void h_fmt_special(void)
{
  XMLSize_t n; int esc;
  VERIF_INPUT(SELF); VERIF_INPUT(SRC); VERIF_INPUT(n); VERIF_INPUT(esc); VERIF_INPUT(G);
  VERIF_ASSUME(n <= NS && G < NS && esc >= XMLFormatter_NoEscapes && esc <= XMLFormatter_CharEscapes);
  fXCoder = &XC;
  GH_base = SRC.a + (NS - n); GH_total = n; GH_pos = 0; GH_mode = esc;
  verif_thrown = 0;
  XMLFormatter_specialFormat(GH_base, n, esc);
  VERIF_CANARY("after call");
}
