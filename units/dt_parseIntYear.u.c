//@ unit dt_parseIntYear
//@ props C09 C01
//@ kind P
//@ enforce XMLDateTime_parseIntYear
//@ replace XMLDateTime_parseInt
//@ entry h_dt_parseIntYear
//@ note P (loop-free caller): parseInt is replaced by the contract of unit dt_parseInt ("error or exact value"), which does NOT hold on the unchanged tree (finding F5) -- this unit shows that parseIntYear adds no defect of its own once parseInt keeps its contract (in particular (-1) * yearVal cannot overflow then)
//@ note precondition fStart == 0: both call sites (parseYear, getYearMonth) run right after initParser() set fStart = 0; the function mixes fStart-relative (`start`) and absolute (parseInt(0|1, end)) indices, so it is only meaningful there
//@ note lexical space of the year part (XML Schema Part 2, 3.2.7.1): '-'? digit{4,}, no leading zero when more than four digits; buffer length <= DT_NB = 12
#define VERIF_DEFINE_GHOSTS
#include "verif_prelude.h"
//@ struct src/xercesc/util/XMLDateTime.hpp XMLDateTime only=auto
//@ include XMLDateTime_numeral.inc

/*@extract src/xercesc/util/XMLDateTime.cpp XMLDateTime::parseInt
declonly
contract
PARSEINT_CONTRACT
@*/

#define YS ((XMLSize_t)(fBuffer[0] == 0x2D ? 1 : 0))   /* start of the digits: after an optional '-' */
/*@extract src/xercesc/util/XMLDateTime.cpp XMLDateTime::parseIntYear
call parseInt => XMLDateTime_parseInt
throws XMLDateTime_parseInt
contract
__CPROVER_requires(!verif_thrown && fStart == 0 && fEnd <= DT_NB && end <= fEnd && __CPROVER_r_ok(fBuffer, (fEnd + 1) * sizeof(XMLCh)))
__CPROVER_requires(GS == YS && YS <= end)
__CPROVER_assigns(verif_thrown, verif_throw_type, verif_throw_code)
__CPROVER_ensures((end - YS < 4) ==> (verif_thrown && verif_throw_type == VT_SchemaDateTimeException))
__CPROVER_ensures((end - YS > 4 && fBuffer[YS] == 0x30) ==> (verif_thrown && verif_throw_type == VT_SchemaDateTimeException))
__CPROVER_ensures(!DIGOK[end - YS] ==> verif_thrown)
__CPROVER_ensures((DIGOK[end - YS] && end - YS >= 4 && end - YS <= 9 && !(end - YS > 4 && fBuffer[YS] == 0x30)) ==> !verif_thrown)
__CPROVER_ensures(!verif_thrown ==> (VAL[end - YS] <= 2147483647ull && (long long)__CPROVER_return_value == (YS ? -(long long)VAL[end - YS] : (long long)VAL[end - YS])))
@*/

struct { XMLCh a[DT_NB + 1]; } BUF;

void h_dt_parseIntYear(void)
{
  XMLSize_t n, end;
  VERIF_INPUT(BUF); VERIF_INPUT(n); VERIF_INPUT(end); VERIF_INPUT(GS); VERIF_INPUT(NUMERAL);
  VERIF_ASSUME(n <= DT_NB && end <= n);
  fBuffer = BUF.a + (DT_NB - n);        /* end-aligned: n characters + terminator */
  VERIF_ASSUME(fBuffer[n] == 0);
  fEnd = n;
  fStart = 0;
  VERIF_ASSUME(GS == YS);
  NUMERAL_DEFINE()
  verif_thrown = 0;
  XMLDateTime_parseIntYear(end);
  VERIF_CANARY("after call");
}
