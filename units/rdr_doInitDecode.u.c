//@ unit rdr_doInitDecode
//@ props C01 C05
//@ kind P
//@ def quick kCharBufSize=6 kRawBufSize=16
//@ def thorough kCharBufSize=10 kRawBufSize=32
//@ rebind src/xercesc/internal/XMLReader.hpp kCharBufSize
//@ rebind src/xercesc/internal/XMLReader.hpp kRawBufSize
//@ enforce XMLReader_doInitDecode
//@ replace XMLString_compareNString
//@ replace VERIF_memcmp_raw
//@ replace XMLEBCDICTranscoder_xlatThisOne
//@ entry h_doInitDecode
//@ note call-site precondition (the only caller is the auto-sensing constructor): nothing decoded yet (fCharIndex = fCharsAvail = fRawBufIndex = 0), fRawBytesAvail <= kRawBufSize as left by refreshRawBuffer, and fEncoding = XMLRecognizer::basicEncodingProbe(fRawByteBuf, fRawBytesAvail), of which only this is used: UCS-4 => at least 4 bytes, UTF-16 => at least 2 bytes, EBCDIC => more than fgEBCDICPreLen bytes (read off basicEncodingProbe; not re-proved here)
//@ note R13 rebinding additionally assumes kRawBufSize >= fgUTF8BOMLen + fgASCIIPreLen, fgUTF16PreLen + 2 and kCharBufSize (true for 49152 / 16384): the prefix comparisons and the EBCDIC loop rely on the real buffer being that much larger than the prolog
//@ note assumed of the callees: XMLString::compareNString(char*) (= strncmp) and memcmp read at most `count` bytes of each operand and write nothing (their RESULT is left arbitrary: weaker assumption); XMLEBCDICTranscoder::xlatThisOne returns some XMLCh (table lookup, proved in the tbl_* units)
//@ note the memory-manager calls that precede each throw (deallocate, ArrayJanitor) are removed by sub rules: the constructor is being abandoned there, ownership is outside this unit
//@ note C05 part: the target model is little-endian (XMLPlatformUtils::fgXMLChBigEndian = false); the decoded value is specified from the encoding name alone (UCS-4BE / UTF-16BE = most significant octet first), fSwapped is derived by the real checkForSwapped, which the harness runs first
//@ note BitOps::swapBytes is overloaded on the operand width; C has no overloading, so the two extracted overloads are selected by a _Generic macro exactly as C++ overload resolution would
#define VERIF_DEFINE_GHOSTS
#include "verif_prelude.h"
//@ enum src/xercesc/framework/XMLRecognizer.hpp Encodings XMLRecognizer_
//@ enum src/xercesc/internal/XMLReader.hpp Types - scope=XMLReader
//@ enum src/xercesc/internal/XMLReader.hpp Sources - scope=XMLReader
//@ enum src/xercesc/internal/XMLReader.hpp RefFrom - scope=XMLReader
//@ enum src/xercesc/internal/XMLReader.hpp XMLVersion - scope=XMLReader
//@ struct src/xercesc/internal/XMLReader.hpp XMLReader only=auto enums=XMLRecognizer_Encodings,RefFrom,Sources,Types,XMLVersion
//@ table src/xercesc/framework/XMLRecognizer.cpp fgASCIIPre as XMLRecognizer_fgASCIIPre
//@ table src/xercesc/framework/XMLRecognizer.cpp fgASCIIPreLen as XMLRecognizer_fgASCIIPreLen
//@ table src/xercesc/framework/XMLRecognizer.cpp fgEBCDICPreLen as XMLRecognizer_fgEBCDICPreLen
//@ table src/xercesc/framework/XMLRecognizer.cpp fgUTF16BPre as XMLRecognizer_fgUTF16BPre
//@ table src/xercesc/framework/XMLRecognizer.cpp fgUTF16LPre as XMLRecognizer_fgUTF16LPre
//@ table src/xercesc/framework/XMLRecognizer.cpp fgUTF16PreLen as XMLRecognizer_fgUTF16PreLen
//@ table src/xercesc/framework/XMLRecognizer.cpp fgUTF8BOM as XMLRecognizer_fgUTF8BOM
//@ table src/xercesc/framework/XMLRecognizer.cpp fgUTF8BOMLen as XMLRecognizer_fgUTF8BOMLen

/* p points into fRawByteBuf with n readable bytes left in the ARRAY (r_ok would only see the enclosing object SELF) */
#define RAW_SLICE(p, n) (__CPROVER_same_object((p), fRawByteBuf) && __CPROVER_POINTER_OFFSET(p) >= OFS_XMLReader_fRawByteBuf && __CPROVER_POINTER_OFFSET(p) - OFS_XMLReader_fRawByteBuf + (n) <= sizeof(fRawByteBuf))
/* p == &fRawByteBuf[i] */
#define RAW_AT(p, i) (__CPROVER_same_object((p), fRawByteBuf) && __CPROVER_POINTER_OFFSET(p) == OFS_XMLReader_fRawByteBuf + (i))

/*@extract src/xercesc/util/XMLString.cpp XMLString::compareNString
params const char* const str1
declonly
contract
__CPROVER_requires(count == 0 || (RAW_SLICE(str1, count) && __CPROVER_r_ok(str2, count)))
__CPROVER_assigns()
__CPROVER_ensures(1)
@*/
int VERIF_memcmp_raw(const void *s1, const void *s2, size_t n)
__CPROVER_requires(n == 0 || (RAW_SLICE(s1, n) && __CPROVER_r_ok(s2, n)))
__CPROVER_assigns()
__CPROVER_ensures(1)
;
/*@extract src/xercesc/util/XMLEBCDICTranscoder.cpp XMLEBCDICTranscoder::xlatThisOne
declonly
contract
__CPROVER_requires(1)
__CPROVER_assigns()
__CPROVER_ensures(1)
@*/
/*@extract src/xercesc/util/BitOps.hpp BitOps::swapBytes
inclass
params const UTF16Ch toSwap
as BitOps_swapBytes16
static
@*/
/*@extract src/xercesc/util/BitOps.hpp BitOps::swapBytes
inclass
params const UCS4Ch toSwap
as BitOps_swapBytes32
static
@*/
#define BitOps_swapBytes(x) _Generic((x), UTF16Ch: BitOps_swapBytes16, UCS4Ch: BitOps_swapBytes32)(x)

/* ---- C05: what "decoding the declaration line" means, written from the encoding definitions (ISO/IEC 10646 UCS-4 = 4 octets, UTF-16 = 2 octets,
   most significant first for the BE forms; UTF-8 one-octet form = the octet itself, < 0x80) -- target model little-endian (DESIGN ledger) ---- */
XMLSize_t G;                                        /* universal ghost index into the decoded characters; harness-chosen, never assigned */
#define RAW8(k)   ((XMLUInt32)fRawByteBuf[((k) < kRawBufSize) ? (k) : 0])
#define BE32(o)   ((RAW8(o) << 24) | (RAW8((o) + 1) << 16) | (RAW8((o) + 2) << 8) | RAW8((o) + 3))
#define LE32(o)   ((RAW8((o) + 3) << 24) | (RAW8((o) + 2) << 16) | (RAW8((o) + 1) << 8) | RAW8(o))
#define BE16(o)   ((RAW8(o) << 8) | RAW8((o) + 1))
#define LE16(o)   ((RAW8((o) + 1) << 8) | RAW8(o))
#define IS_UCS4   (fEncoding == XMLRecognizer_UCS_4B || fEncoding == XMLRecognizer_UCS_4L)
#define IS_UTF16  (fEncoding == XMLRecognizer_UTF_16B || fEncoding == XMLRecognizer_UTF_16L)
#define UCS4_AT(o)  (fEncoding == XMLRecognizer_UCS_4B ? BE32(o) : LE32(o))
#define UTF16_AT(o) (fEncoding == XMLRecognizer_UTF_16B ? BE16(o) : LE16(o))
/* number of characters decoded from the raw bytes (the rest is the one space slipped in for a PE referenced outside a literal) */
#define PE_SPACE  ((fType == Type_PE && fRefFrom == RefFrom_NonLiteral) ? 1 : 0)
#define NDEC      (fCharsAvail - PE_SPACE)
#define XMLPlatformUtils_fgXMLChBigEndian 0         /* little-endian target model */
/*@extract src/xercesc/internal/XMLReader.cpp XMLReader::checkForSwapped
@*/

/*@extract src/xercesc/internal/XMLReader.cpp XMLReader::doInitDecode
sub fMemoryManager->deallocate\([^)]*\); =>
sub ArrayJanitor<XMLCh> janValue\(fSystemId, fMemoryManager\); =>
sub \bmemcmp\( => VERIF_memcmp_raw(
contract
__CPROVER_requires(!verif_thrown && fCharIndex == 0 && fCharsAvail == 0 && fRawBufIndex == 0 && fRawBytesAvail <= kRawBufSize)
/* fEncoding comes from basicEncodingProbe(fRawByteBuf, fRawBytesAvail) */
__CPROVER_requires((fEncoding == XMLRecognizer_UCS_4B || fEncoding == XMLRecognizer_UCS_4L) ==> fRawBytesAvail >= 4)
__CPROVER_requires((fEncoding == XMLRecognizer_UTF_16B || fEncoding == XMLRecognizer_UTF_16L) ==> fRawBytesAvail >= 2)
__CPROVER_requires(fEncoding == XMLRecognizer_EBCDIC ==> fRawBytesAvail > XMLRecognizer_fgEBCDICPreLen)
/* fSwapped comes from checkForSwapped() (the harness runs the real one and checks this relation) */
__CPROVER_requires(fSwapped == (fEncoding == XMLRecognizer_UTF_16B || fEncoding == XMLRecognizer_UCS_4B) && G < kCharBufSize)
/* parametricity in the rebound sizes (see note) */
__CPROVER_requires(kRawBufSize >= XMLRecognizer_fgUTF8BOMLen + XMLRecognizer_fgASCIIPreLen && kRawBufSize >= XMLRecognizer_fgUTF16PreLen + 2 && kRawBufSize >= kCharBufSize && kCharBufSize >= 2)
__CPROVER_assigns(fRawBufIndex, fRawBytesAvail, fCharsAvail, __CPROVER_object_upto(fRawByteBuf, sizeof(fRawByteBuf)), __CPROVER_object_upto(fCharBuf, sizeof(fCharBuf)), __CPROVER_object_upto(fCharSizeBuf, sizeof(fCharSizeBuf)), __CPROVER_object_upto(fCharOfsBuf, sizeof(fCharOfsBuf)), verif_thrown, verif_throw_type, verif_throw_code)
/* C01: reader invariant (both buffers) established for the constructed reader; every throw leaves the windows empty */
__CPROVER_ensures(fCharIndex == 0 && fCharsAvail <= kCharBufSize && fRawBufIndex <= fRawBytesAvail && fRawBytesAvail <= kRawBufSize)
__CPROVER_ensures(verif_thrown ==> (verif_throw_type == VT_TranscodingException && fCharsAvail == 0 && fRawBufIndex == 0))
/* the only thing ever removed from the raw window is a UCS-4 byte-order mark */
__CPROVER_ensures(fRawBytesAvail == __CPROVER_old(fRawBytesAvail) || ((fEncoding == XMLRecognizer_UCS_4B || fEncoding == XMLRecognizer_UCS_4L) && fRawBytesAvail + 4 == __CPROVER_old(fRawBytesAvail)))
/* C05: every character put into fCharBuf is exactly the decoding of its raw bytes, which are consumed contiguously; sizes recorded accordingly.
   UCS-4 (after the BOM, if any, was removed): 4 octets per character, value <= 0xFFFF */
__CPROVER_ensures((!verif_thrown && IS_UCS4) ==> (fRawBufIndex == 4 * NDEC && (G < NDEC ==> (fCharBuf[G] == UCS4_AT(4 * G) && UCS4_AT(4 * G) <= 0xFFFF && fCharSizeBuf[G] == 4))))
/* UTF-16: 2 octets per character, after an optional byte-order mark */
/* C05 (added by the lead): a UTF-16 byte order mark is stepped over for EVERY entity that has one (however short: '<a/>' is
   10 bytes), and nothing is skipped when there is none */
__CPROVER_ensures((!verif_thrown && IS_UTF16 && ((fRawByteBuf[0] == 0xFE && fRawByteBuf[1] == 0xFF) || (fRawByteBuf[0] == 0xFF && fRawByteBuf[1] == 0xFE))) ==> fRawBufIndex >= 2)
__CPROVER_ensures((!verif_thrown && IS_UTF16 && NDEC == 0 && !((fRawByteBuf[0] == 0xFE && fRawByteBuf[1] == 0xFF) || (fRawByteBuf[0] == 0xFF && fRawByteBuf[1] == 0xFE))) ==> fRawBufIndex == 0)
__CPROVER_ensures((!verif_thrown && IS_UTF16 && NDEC > 0) ==> ((fRawBufIndex == 2 * NDEC || fRawBufIndex == 2 + 2 * NDEC) && (G < NDEC ==> (fCharBuf[G] == UTF16_AT(fRawBufIndex - 2 * NDEC + 2 * G) && fCharSizeBuf[G] == 2))))
/* UTF-8 / ASCII-compatible: 1 octet per character, all < 0x80, after an optional 3-octet byte-order mark */
__CPROVER_ensures((!verif_thrown && fEncoding == XMLRecognizer_UTF_8 && NDEC > 0) ==> ((fRawBufIndex == NDEC || fRawBufIndex == 3 + NDEC) && (G < NDEC ==> (fCharBuf[G] == RAW8(fRawBufIndex - NDEC + G) && fCharBuf[G] < 0x80 && fCharSizeBuf[G] == 1))))
/* the decl line ends at the first '>' : nothing after it is decoded here */
__CPROVER_ensures((!verif_thrown && G + 1 < NDEC) ==> fCharBuf[G] != chCloseAngle)
loop 1
__CPROVER_assigns(i, __CPROVER_object_upto(fRawByteBuf, sizeof(fRawByteBuf)))
__CPROVER_loop_invariant(i <= fRawBytesAvail)
__CPROVER_decreases(fRawBytesAvail - i)
loop 2
__CPROVER_assigns(asUCS, fRawBufIndex, fCharsAvail, __CPROVER_object_upto(fCharBuf, sizeof(fCharBuf)), __CPROVER_object_upto(fCharSizeBuf, sizeof(fCharSizeBuf)), verif_thrown, verif_throw_type, verif_throw_code)
__CPROVER_loop_invariant(!verif_thrown && fRawBufIndex <= fRawBytesAvail && fCharsAvail <= kCharBufSize - 1 && RAW_AT(asUCS, fRawBufIndex))
__CPROVER_loop_invariant(fRawBufIndex == 4 * fCharsAvail)
__CPROVER_loop_invariant((G < fCharsAvail) ==> (fCharBuf[G] == UCS4_AT(4 * G) && UCS4_AT(4 * G) <= 0xFFFF && fCharSizeBuf[G] == 4 && fCharBuf[G] != chCloseAngle))
__CPROVER_decreases(fRawBytesAvail - fRawBufIndex)
loop 3
__CPROVER_assigns(asChars, fRawBufIndex, fCharsAvail, __CPROVER_object_upto(fCharBuf, sizeof(fCharBuf)), __CPROVER_object_upto(fCharSizeBuf, sizeof(fCharSizeBuf)), verif_thrown, verif_throw_type, verif_throw_code)
__CPROVER_loop_invariant(!verif_thrown && fRawBufIndex <= fRawBytesAvail && fCharsAvail <= kCharBufSize - 1 && RAW_AT(asChars, fRawBufIndex))
__CPROVER_loop_invariant(fRawBufIndex == __CPROVER_loop_entry(fRawBufIndex) + fCharsAvail)
__CPROVER_loop_invariant((G < fCharsAvail) ==> (fCharBuf[G] == RAW8(__CPROVER_loop_entry(fRawBufIndex) + G) && fCharBuf[G] < 0x80 && fCharSizeBuf[G] == 1 && fCharBuf[G] != chCloseAngle))
__CPROVER_decreases(fRawBytesAvail - fRawBufIndex)
loop 4
__CPROVER_assigns(asUTF16, fRawBufIndex, fCharsAvail, __CPROVER_object_upto(fCharBuf, sizeof(fCharBuf)), __CPROVER_object_upto(fCharSizeBuf, sizeof(fCharSizeBuf)), verif_thrown, verif_throw_type, verif_throw_code)
__CPROVER_loop_invariant(!verif_thrown && fRawBufIndex <= fRawBytesAvail && fCharsAvail <= kCharBufSize - 1 && RAW_AT(asUTF16, fRawBufIndex))
__CPROVER_loop_invariant(fRawBufIndex == __CPROVER_loop_entry(fRawBufIndex) + 2 * fCharsAvail)
__CPROVER_loop_invariant((G < fCharsAvail) ==> (fCharBuf[G] == UTF16_AT(__CPROVER_loop_entry(fRawBufIndex) + 2 * G) && fCharSizeBuf[G] == 2 && fCharBuf[G] != chCloseAngle))
__CPROVER_decreases(fRawBytesAvail - fRawBufIndex)
loop 5
__CPROVER_assigns(srcPtr, fRawBufIndex, fCharsAvail, __CPROVER_object_upto(fCharBuf, sizeof(fCharBuf)), __CPROVER_object_upto(fCharSizeBuf, sizeof(fCharSizeBuf)), verif_thrown, verif_throw_type, verif_throw_code)
__CPROVER_loop_invariant(!verif_thrown && fRawBufIndex < fRawBytesAvail && fCharsAvail <= kCharBufSize - 1 && RAW_AT(srcPtr, fRawBufIndex))
__CPROVER_loop_invariant((G < fCharsAvail) ==> fCharBuf[G] != chCloseAngle)
__CPROVER_decreases(fRawBytesAvail - fRawBufIndex)
loop 6
__CPROVER_assigns(index, __CPROVER_object_upto(fCharOfsBuf, sizeof(fCharOfsBuf)))
__CPROVER_loop_invariant(1 <= index && (index <= fCharsAvail || fCharsAvail == 0))
__CPROVER_decreases(kCharBufSize + 1 - index)
@*/

void h_doInitDecode(void)
{
  VERIF_INPUT(SELF);
  verif_thrown = 0;
  XMLReader_checkForSwapped();
  __CPROVER_assert(fSwapped == (fEncoding == XMLRecognizer_UTF_16B || fEncoding == XMLRecognizer_UCS_4B), "C05: checkForSwapped sets fSwapped iff the auto-sensed encoding is big-endian (little-endian target)");
  XMLReader_doInitDecode();
  VERIF_CANARY("after call");
}
