//@ unit elemstack_addLevel_fresh
//@ props C07 C01
//@ kind P
//@ enforce ElemStack_addLevel
//@ enforce ElemStack_addLevel_decl
//@ replace memcpy
//@ cbmc all --unsigned-overflow-check
//@ def all VERIF_STK_MAX=((XMLSize_t)64)
//@ entry h_elemstack_addLevel_fresh
//@ note loop-free; per-level state of the NEW top element after ElemStack::addLevel() / addLevel(XMLElementDecl*, readerNum): the row is either created now or RECYCLED from an earlier, popped element at the same depth (a previous sibling, or a cousin): the recycled row holds ARBITRARY old values of every member (flags set, counts non-zero, scope / grammar / URI of the old element)
//@ note obligation (XML 1.0 3 VC Element Valid, as checked in IGXMLScanner/DGXMLScanner::scanEndTag: "EMPTY ... no content (not even entity references, comments, PIs or white space)", "children ... white space" must not come from an escaped reference; the child sequence checked against the content model is the element's OWN children; Namespaces in XML 6.1: a declaration scopes over the element it is on): the new element starts with NO children, NO namespace bindings, "no comment / PI seen", "no escaped reference seen"; validation flag off, scope = top level, no grammar, URI unknown (the start-tag scanner fills these in after it has resolved the element: scanStartTagNS reads getCurrentScope / getValidationFlag of the PARENT before addLevel and sets the new level's afterwards); element declaration and reader number as given (none / 0xFFFFFFFF for the no-argument form)
//@ note buffers survive recycling (no leak, no dangling pointer): fChildren / fMap / fSchemaElemName and their capacities are kept on a recycled row and null / 0 on a new one
//@ note fPrefixColonPos is NOT part of the contract: addLevel leaves it alone (stale on a recycled row, uninitialised on a new one); every schema-path caller (IGXMLScanner / SGXMLScanner / XSAXMLScanner::scanStartTag[NS]) calls setPrefixColonPos right after addLevel(), and scanEndTag reads it for schema grammars only
//@ note stack capacity 4..64 here (the growth arithmetic over capacities up to 2^40 is unit elemstack_addLevel, whose machinery -- contracts/ElemStack_ri.inc, expandStack inlined, memcpy by its C11 contract, harness-prepared allocations -- this unit reuses)
#define VERIF_DEFINE_GHOSTS
#include "verif_prelude.h"
#include <stdlib.h>
//@ include ElemStack_ri.inc

/*@extract src/xercesc/internal/ElemStack.cpp ElemStack::expandStack
as ElemStack_expandStack_body
sub fMemoryManager->allocate => verif_alloc
sub fMemoryManager->deallocate => verif_free
@*/
/*@extract src/xercesc/internal/ElemStack.cpp ElemStack::addLevel
pick 1
call expandStack => ElemStack_expandStack_body
sub new \(fMemoryManager\) StackElem => verif_new_row()
contract
ADDLEVEL_REQUIRES
__CPROVER_assigns(ADDLEVEL_FRAME)
ADDLEVEL_ENSURES
@*/
/*@extract src/xercesc/internal/ElemStack.cpp ElemStack::addLevel
pick 2
as ElemStack_addLevel_decl
call expandStack => ElemStack_expandStack_body
sub new \(fMemoryManager\) StackElem => verif_new_row()
contract
ADDLEVEL_REQUIRES
__CPROVER_assigns(ADDLEVEL_FRAME)
ADDLEVEL_ENSURES
@*/

struct StackElem ROW_OLD, ROW_NEW, OLD0;
char OLD_CHILDREN, OLD_MAP, OLD_NAME, A_DECL, A_GRAMMAR;      /* opaque objects the recycled row may point to */
void h_elemstack_addLevel_fresh(void)
{
  int op; _Bool recycled, hc, hm, hn, hg; XMLSize_t rd;
  VERIF_INPUT(SELF); VERIF_INPUT(ROW_OLD); VERIF_INPUT(ROW_NEW); VERIF_INPUT(GW); VERIF_INPUT(GZ); VERIF_INPUT(NEXTSIZE); VERIF_INPUT(op); VERIF_INPUT(recycled); VERIF_INPUT(rd);
  VERIF_INPUT(hc); VERIF_INPUT(hm); VERIF_INPUT(hn); VERIF_INPUT(hg);
  VERIF_ASSUME(fStackCapacity >= 4 && fStackCapacity <= VERIF_STK_MAX && fStackTop <= fStackCapacity);
  fStack = malloc(fStackCapacity * sizeof(struct StackElem *));
  NEXTBUF = malloc(NEXTSIZE); NEXTUSED = 0;
  VERIF_ASSUME(fStack != 0 && NEXTBUF != 0);
  NEXTROW = &ROW_NEW; NEXTROW_USED = 0;
  /* the recycled row: every scalar member arbitrary (VERIF_INPUT above); its buffers present or not */
  ROW_OLD.fChildren = hc ? (void *)&OLD_CHILDREN : (void *)0; ROW_OLD.fMap = hm ? (void *)&OLD_MAP : (void *)0;
  ROW_OLD.fSchemaElemName = hn ? (void *)&OLD_NAME : (void *)0; ROW_OLD.fCurrentGrammar = hg ? (void *)&A_GRAMMAR : (void *)0; ROW_OLD.fThisElement = (void *)&A_GRAMMAR;
  OLD0 = ROW_OLD;
  /* slot fStackTop holds a row left by an earlier, popped level -- or null */
  if (fStackTop < fStackCapacity) fStack[fStackTop] = recycled ? &ROW_OLD : 0;
  const int reuse = (fStackTop < fStackCapacity && recycled);
  NEWTOP = reuse ? &ROW_OLD : &ROW_NEW;
  verif_thrown = 0;
  GZ = fStackTop;
  const XMLSize_t top0 = fStackTop; const unsigned int unk = fUnknownNamespaceId;
  if (op == 1) ElemStack_addLevel();
  else ElemStack_addLevel_decl((void *)&A_DECL, rd);
  VERIF_CANARY("after call");
  if (reuse && OLD0.fCommentOrPISeen && OLD0.fReferenceEscaped && OLD0.fValidationFlag && OLD0.fChildCount != 0 && OLD0.fMapCount != 0) VERIF_CANARY("recycled row with every old flag set reachable");
  if (!reuse) VERIF_CANARY("new row reachable");
  if (top0 == fStackCapacity - 1 || fStack == NEXTBUF) VERIF_CANARY("grown stack reachable");
  const struct StackElem *t = fStack[top0];
  __CPROVER_assert(!verif_thrown && fStackTop == top0 + 1 && t == NEWTOP, "C01: exactly one level is pushed; the new top row is the recycled row of that depth, or a new one");
  __CPROVER_assert(t->fChildCount == 0, "C07: the new element has no children yet (the child sequence checked at its end tag is its own)");
  __CPROVER_assert(t->fMapCount == 0, "C07: the new element has no namespace bindings of its own yet");
  __CPROVER_assert(!t->fCommentOrPISeen, "C07: 'comment or PI seen' is off for the new element (VC Element Valid / EMPTY is judged on the element's own content, not a previous sibling's)");
  __CPROVER_assert(!t->fReferenceEscaped, "C07: 'escaped reference seen' is off for the new element (VC Element Valid / children white space, standalone)");
  __CPROVER_assert(!t->fValidationFlag, "C07: the validation flag of the new element is off until the start-tag scanner sets it");
  __CPROVER_assert(t->fCurrentScope == Grammar_TOP_LEVEL_SCOPE && t->fCurrentGrammar == 0 && t->fCurrentURI == unk, "C07: scope = top level, no grammar, namespace unknown until the start-tag scanner has resolved the element");
  if (op == 1) __CPROVER_assert(t->fThisElement == 0 && t->fReaderNum == 0xFFFFFFFF, "C07: addLevel(): no declaration yet, reader number 0xFFFFFFFF");
  else __CPROVER_assert(t->fThisElement == (void *)&A_DECL && t->fReaderNum == rd, "C07: addLevel(decl, readerNum) records the declaration and the reader (entity) the start tag came from");
  if (reuse) __CPROVER_assert(t->fChildren == OLD0.fChildren && t->fChildCapacity == OLD0.fChildCapacity && t->fMap == OLD0.fMap && t->fMapCapacity == OLD0.fMapCapacity
                              && t->fSchemaElemName == OLD0.fSchemaElemName && t->fSchemaElemNameMaxLen == OLD0.fSchemaElemNameMaxLen, "C01: a recycled row keeps its buffers and their capacities (no leak, no dangling pointer)");
  else __CPROVER_assert(t->fChildren == 0 && t->fChildCapacity == 0 && t->fMap == 0 && t->fMapCapacity == 0 && t->fSchemaElemName == 0 && t->fSchemaElemNameMaxLen == 0, "C01: a new row has no buffers: null pointers, capacity 0");
}
