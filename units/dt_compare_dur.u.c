//@ unit dt_compare_dur
//@ props C09
//@ kind B
//@ def all FMAX=40
//@ cbmc all --unwind 9 --unwinding-assertions
//@ entry h_dt_compare_dur
//@ note B: bounded stand-in -- duration fields 0..FMAX (=40) per component, common sign, as parseDuration() leaves them (sign in fValue[utc]: UTC_STD for positive, UTC_NEG for negative durations; all fields of a negative duration <= 0; fTimeZone = 0; fraction in fMilliSecond with the representation invariant fMilliSecond != 0 ==> fHasTime, established by parseDuration / parseDateTime / parseTime). With these bounds the day-carry loop of normalize() runs at most 3 times, so --unwind 9 with unwinding assertions is complete for the stated ranges; it is a stand-in because the ranges are small.
//@ note obligation: XMLDateTime::compare(d1, d2, strict) starts with `if (compareOrder(d1, d2) == EQUAL) return EQUAL;`. Per XML Schema Part 2 3.2.6.2 two durations are equal only if they add the same to every reference dateTime, i.e. they have the same number of months and the same number of seconds (fraction included). EXPECTED TO FAIL on the current tree (known finding): compareOrder() normalises its copies and normalize() takes the UTC_NEG sign marker of a negative duration for a '-hh:mm' zone: days are carried into months, -P1M and -P30D get the same field vector (native reproduction /verif/findings/dur_negative_equal). The second obligation (fractions) failed before the repo fix "fractions of a second were ignored when comparing durations" (native reproduction /verif/findings/dur_fraction_ignored) and holds now.
//@ note div() is modelled per ISO C99 7.20.6.2 (spec/gregorian.h)
#define VERIF_DEFINE_GHOSTS
#define SPEC_NEED_DIV_MODEL
#include "verif_prelude.h"
#include "gregorian.h"
//@ enum src/xercesc/util/XMLNumber.hpp anon:LESS_THAN - scope=XMLNumber
//@ enum src/xercesc/util/XMLDateTime.hpp valueIndex - scope=XMLDateTime
//@ enum src/xercesc/util/XMLDateTime.hpp utcType - scope=XMLDateTime
//@ enum src/xercesc/util/XMLDateTime.hpp timezoneIndex - scope=XMLDateTime
//@ struct src/xercesc/util/XMLDateTime.hpp XMLDateTime self=none only=fValue,fTimeZone,fMilliSecond,fHasTime
typedef struct XMLDateTime XMLDateTime;

/*@extract src/xercesc/util/XMLDateTime.cpp fQuotient
as fQuotient2
pick 1
static
@*/
/*@extract src/xercesc/util/XMLDateTime.cpp fQuotient
as fQuotient3
pick 2
static
call fQuotient => fQuotient2
@*/
/*@extract src/xercesc/util/XMLDateTime.cpp mod
static
@*/
/*@extract src/xercesc/util/XMLDateTime.cpp modulo
static
call fQuotient => fQuotient2
@*/
/*@extract src/xercesc/util/XMLDateTime.cpp isLeapYear
static
@*/
/*@extract src/xercesc/util/XMLDateTime.cpp maxDayInMonthFor
static
@*/


/* normalize() as a method of an explicit object */
#define fValue (self->fValue)
#define fTimeZone (self->fTimeZone)
/*@extract src/xercesc/util/XMLDateTime.cpp XMLDateTime::normalize
selfparam XMLDateTime
sub fQuotient\(temp, 1, 13\) => fQuotient3(temp, 1, 13)
call fQuotient => fQuotient2
@*/
#undef fValue
#undef fTimeZone

/*@extract src/xercesc/util/XMLDateTime.cpp XMLDateTime::compareOrder
method lTemp.normalize => XMLDateTime_normalize
method rTemp.normalize => XMLDateTime_normalize
@*/

struct XMLDateTime A, B;
#define IN(x, neg) ((neg) ? ((x) >= -FMAX && (x) <= 0) : ((x) >= 0 && (x) <= FMAX))
/* a duration as parseDuration() stores it: magnitudes with a common sign */
#define DURATION(X, neg) (IN((X).fValue[CentYear], neg) && IN((X).fValue[Month], neg) && IN((X).fValue[Day], neg) && IN((X).fValue[Hour], neg) && \
   IN((X).fValue[Minute], neg) && IN((X).fValue[Second], neg) && \
   (X).fValue[MiliSecond] == 0 && (X).fValue[utc] == ((neg) ? UTC_NEG : UTC_STD) && (X).fTimeZone[hh] == 0 && (X).fTimeZone[mm] == 0)
#define MONTHS(X) (12 * (long)(X).fValue[CentYear] + (X).fValue[Month])
#define SECONDS(X) ((((long)(X).fValue[Day] * 24 + (X).fValue[Hour]) * 60 + (X).fValue[Minute]) * 60 + (X).fValue[Second])

void h_dt_compare_dur(void)
{
  _Bool na, nb;
  unsigned fa, fb;      /* fractions in tenths: 0.0 .. 0.9 (exactly comparable decimal values as the parser produces them) */
  VERIF_INPUT(A); VERIF_INPUT(B); VERIF_INPUT(na); VERIF_INPUT(nb); VERIF_INPUT(fa); VERIF_INPUT(fb);
  VERIF_ASSUME(DURATION(A, na) && DURATION(B, nb) && fa <= 9 && fb <= 9);
  A.fMilliSecond = (na ? -1 : 1) * ((double)fa / 10);
  B.fMilliSecond = (nb ? -1 : 1) * ((double)fb / 10);
  /* representation invariant fMilliSecond != 0 ==> fHasTime: parseDuration() sets fHasTime exactly when it stores a
     seconds fraction ("PT1.0S" stores a zero fraction with fHasTime set: both states allowed for a zero fraction) */
  VERIF_ASSUME((fa == 0 || A.fHasTime) && (fb == 0 || B.fHasTime));
  long ma = MONTHS(A), mb = MONTHS(B), sa = SECONDS(A), sb = SECONDS(B);
  verif_thrown = 0;
  int r = XMLDateTime_compareOrder(&A, &B);
  VERIF_CANARY("after call");
  __CPROVER_assert(r != EQUAL || (ma == mb && sa == sb), "C09: duration compareOrder EQUAL only for equal durations: same months and same whole seconds (3.2.6.2)");
  __CPROVER_assert(r != EQUAL || !(ma == mb && sa == sb) || (na ? -(int)fa : (int)fa) == (nb ? -(int)fb : (int)fb), "C09: duration compareOrder EQUAL only for equal durations: same fractional seconds (3.2.6.2)");
}
