//@ unit sgc_derivation_w
//@ props C08
//@ kind W
//@ def quick NTY=4
//@ def thorough NTY=6
//@ cbmc all --unwind 9 --unwinding-assertions
//@ entry h_sgc
//@ note fragment of SubstitutionGroupComparator::isEquivalentTo (the member's type is complex: derivation chain from the member's type to the head's type against the blocking constraint), verified as a function of its own: complete for derivation chains of <= NTY complex types, every derivation method bit, every block set of the head element and of each type
//@ note spec (XML Schema Structures 3.3.6 Substitution Group OK (Transitive) 2.3): the derivation methods used between the member's type D and the head's type C must not intersect the union of the head's blocking constraint, C's {prohibited substitutions} and those of every INTERMEDIATE type (not D's own)
//@ note trusted stubs: ComplexTypeInfo is a record (base, derivedBy, blockSet) with an acyclic base chain; the search for the head element along the substitutionGroup affiliations and the simple-type case are outside the fragment
#define VERIF_DEFINE_GHOSTS
#include "verif_prelude.h"
struct ComplexTypeInfo { int base; int derivedBy; int blockSet; }; typedef struct ComplexTypeInfo ComplexTypeInfo;
struct { ComplexTypeInfo t[NTY]; } TYPES;
ComplexTypeInfo *HEAD_TYPE;
static ComplexTypeInfo* CT_base(ComplexTypeInfo *t) { return t->base < 0 ? (ComplexTypeInfo*)0 : &TYPES.t[t->base < NTY ? t->base : 0]; }

/*@extract src/xercesc/validators/schema/SubstitutionGroupComparator.cpp SubstitutionGroupComparator::isEquivalentTo
as SGC_derivation
fragment int devMethod = 0; ||| return true;
sig bool SGC_derivation(ComplexTypeInfo *aComplexType, int exemplarBlockSet)
sub* pElemDecl->getComplexTypeInfo\(\) => HEAD_TYPE
sub* (\w+)->getBaseComplexTypeInfo\(\) => CT_base(\1)
sub* (\w+)->getDerivedBy\(\) => \1->derivedBy
sub* (\w+)->getBlockSet\(\) => \1->blockSet
@*/

void h_sgc(void)
{
  int c, d, headBlock;
  VERIF_INPUT(TYPES); VERIF_INPUT(c); VERIF_INPUT(d); VERIF_INPUT(headBlock);
  VERIF_ASSUME(c >= 0 && c < NTY && d >= 0 && d < NTY && (headBlock & ~31) == 0);
  for (int k = 0; k < NTY; k++) {
    VERIF_ASSUME(TYPES.t[k].base >= -1 && TYPES.t[k].base < k);
    VERIF_ASSUME(TYPES.t[k].derivedBy == 1 || TYPES.t[k].derivedBy == 2 || TYPES.t[k].derivedBy == 4 || TYPES.t[k].derivedBy == 8 || TYPES.t[k].derivedBy == 16);
    VERIF_ASSUME((TYPES.t[k].blockSet & ~31) == 0);
  }
  HEAD_TYPE = &TYPES.t[c]; verif_thrown = 0;
  bool r = SGC_derivation(&TYPES.t[d], headBlock);
  VERIF_CANARY("after fragment");
  int methods = 0, blocked = headBlock, derived = 0, cur = d;
  for (int s = 0; s <= NTY; s++) if (cur >= 0 && !derived) {
    if (cur == c) { derived = 1; blocked |= TYPES.t[c].blockSet; }
    else { methods |= TYPES.t[cur].derivedBy; if (cur != d) blocked |= TYPES.t[cur].blockSet; cur = TYPES.t[cur].base; }
  }
  if (d == c) blocked = headBlock;    /* same type: no derivation step at all */
  __CPROVER_assert(!verif_thrown, "C08: no exception");
  __CPROVER_assert(r == (derived && (methods & blocked) == 0), "C08: a substitution-group member may stand for its head iff its type is derived from the head's type by methods that neither the head element nor the head's type nor an intermediate type blocks");
  if (derived && d != c && (methods & TYPES.t[c].blockSet)) { VERIF_CANARY("blocked by the head's type reachable"); }
}
