//@ unit elemstack_expandMap
//@ props C06 C01
//@ kind P
//@ enforce ElemStack_expandMap
//@ replace memcpy
//@ cbmc all --unsigned-overflow-check
//@ entry h_elemstack_expandMap
//@ note loop-free; proved for every capacity 0 or 4..2^40 (the floating-point growth (XMLSize_t)(cap * 1.25) is evaluated bit-precisely by cbmc); memcpy is replaced by its C11 contract stated at the ghost-selected entry; MemoryManager::allocate never fails in the model
//@ note RI_stk: a map capacity is 0 or >= 4 (1..3 would not grow and the caller would then write one entry past the array); established by expandMap itself (0 -> 16 -> 20 -> ...)
#define VERIF_DEFINE_GHOSTS
#include "verif_prelude.h"
#include <stdlib.h>
//@ include ElemStack_ri.inc

/*@extract src/xercesc/internal/ElemStack.cpp ElemStack::expandMap
sub fMemoryManager->allocate => verif_alloc
sub fMemoryManager->deallocate => verif_free
contract
CONTRACT_expandMap
@*/

struct StackElem ROW;
void h_elemstack_expandMap(void)
{
  VERIF_INPUT(ROW); VERIF_INPUT(G); VERIF_INPUT(NEXTSIZE);
  VERIF_ASSUME(ROW.fMapCapacity <= VERIF_STK_MAX);
  ROW.fMap = ROW.fMapCapacity ? malloc(ROW.fMapCapacity * sizeof(struct PrefMapElem)) : 0;
  NEXTBUF = malloc(NEXTSIZE); NEXTUSED = 0;
  VERIF_ASSUME(NEXTBUF != 0 && (ROW.fMapCapacity == 0 || ROW.fMap != 0));
  GW = G;
  verif_thrown = 0;
  ElemStack_expandMap(&ROW);
  VERIF_CANARY("after call");
}
