//@ unit ser_cls_XMLDTDDescriptionImpl
//@ props C16
//@ kind L
//@ entry h_ser_cls_XMLDTDDescriptionImpl
//@ note L: loop-free; the real body of XMLDTDDescriptionImpl::serialize runs twice on one object: store mode onto the tape, then -- after the whole object has been given arbitrary values again -- load mode from the tape; every member value is symbolic (full range of its real type)
//@ note tape engine (contracts/ser_tape.inc): operator<< / operator>> / writeSize / readSize / writeString / readString and the sub-object serialisers (XTemplateSerializer::storeObject/loadObject, DatatypeValidator::storeDV/loadDV, Base::serialize ...) are trusted stubs that record / check (type tag, value); the tag of a streamed operand comes from its REAL type (member types from the real class declaration, casts from the code) via _Generic; strings, containers and pointers to serialisable objects are opaque ids (the pointer value stands for the object; loading yields the id that was stored); the byte-level engine is the subject of units ser_primitives, ser_fillflush, ser_rawbytes
//@ note compared after load (store then load restores the value): fSystemId, fRootName; NOT compared: nothing; base class XMLDTDDescription has no data
//@ note load mode: the constructor-made strings of the loading object are released before the stored ones are read (deallocate = recording stub): checked
#define VERIF_DEFINE_GHOSTS
#include "verif_prelude.h"
//@ include ser_tape.inc
#define XMLDTDDescription_serialize(e) ENG_BASE(XMLDTDDescription)
/* memory model (trusted stub): deallocate records what was freed */
void *FREED[4]; int NFREED;
#define XMLGrammarDescription_getMemoryManager() ((MemoryManager*)0)
static void MM_deallocate(MemoryManager *mm, void *p) { if (NFREED < 4) FREED[NFREED] = p; NFREED++; }
//@ struct src/xercesc/validators/DTD/XMLDTDDescriptionImpl.hpp XMLDTDDescriptionImpl only=auto

/*@extract src/xercesc/validators/DTD/XMLDTDDescriptionImpl.cpp XMLDTDDescriptionImpl::serialize
streamops serEng
method serEng.isStoring => ENG_isStoring
method serEng.isLoading => ENG_isLoading
method serEng.writeSize => ENG_writeSize
method serEng.readSize => ENG_readSize
method serEng.writeString => ENG_writeString
method serEng.readString => ENG_readString
method serEng.writeUInt64 => ENG_writeUInt64
method serEng.readUInt64 => ENG_readUInt64
method serEng.writeInt64 => ENG_writeInt64
method serEng.readInt64 => ENG_readInt64
method serEng.getMemoryManager => ENG_getMemoryManager
sub* \(XMLCh\*&\)\s*(\w+) => (*(XMLCh**)&\1)
method XMLGrammarDescription_getMemoryManager()->deallocate => MM_deallocate
@*/

#define FIELDS(X) X(fSystemId) X(fRootName)

void h_ser_cls_XMLDTDDescriptionImpl(void)
{
  VERIF_INPUT(SELF); TAPE_INIT();
  FIELDS(SER_FIELD_SAVE)
  verif_thrown = 0;
  TAPE_BEGIN_STORE();
  XMLDTDDescriptionImpl_serialize(&ENGINE);
  VERIF_INPUT(SELF);                      /* the object that is loaded into: arbitrary contents */
  VERIF_ASSUME(fSystemId == 0 || (fSystemId != sv_fSystemId && fSystemId != sv_fRootName));   /* the strings the constructor of the loading object made are not the stored ones */
  VERIF_ASSUME(fRootName == 0 || (fRootName != sv_fSystemId && fRootName != sv_fRootName)); VERIF_ASSUME(fSystemId != fRootName || fSystemId == 0);
  const void *own_sys = fSystemId, *own_root = fRootName; NFREED = 0;
  TAPE_BEGIN_LOAD();
  XMLDTDDescriptionImpl_serialize(&ENGINE);
  VERIF_CANARY("after store and load");
  __CPROVER_assert(!verif_thrown, "C16: serialize does not throw by itself");
  TAPE_END_CHECK();
  FIELDS(SER_FIELD_CHECK)
  __CPROVER_assert(NFREED == (own_sys != 0) + (own_root != 0) && (own_sys == 0 || FREED[0] == own_sys) && (own_root == 0 || FREED[own_sys != 0] == own_root),
                   "C01/C16: load frees exactly the constructor-made system id and root name of the loading object (not the strings just loaded), once each");
}
