//@ unit ser_tmpl_RefHash2KeysTableOf_SchemaAttDef
//@ props C16
//@ kind W
//@ def quick NC=3
//@ def thorough NC=4
//@ def all TAPE_MAX=16
//@ cbmc quick --unwind 9 --unwinding-assertions
//@ cbmc thorough --unwind 11 --unwinding-assertions
//@ entry h_ser_tmpl_RefHash2KeysTableOf_SchemaAttDef
//@ note W: complete for tables of <= NC attribute declarations (all loops unwound); the real bodies of XTemplateSerializer::storeObject(RefHash2KeysTableOf<SchemaAttDef>*, serEng) and loadObject(RefHash2KeysTableOf<SchemaAttDef>**, int, bool, serEng) (ComplexTypeInfo::fAttDefs = SchemaAttDefList::fList; SchemaElementDecl::fAttDefs is never allocated) run over the tape engine: store mode on a symbolic table (null / written before / new), then load mode into the owner's empty table or into none
//@ note container model (contracts/ser_container.inc, trusted stubs): a table is <= NC entries (key1 string id, key2 int AS FILED, element) + hash modulus; the enumerator yields the entries in index order -- they are symbolic, so this is an arbitrary order; get(k1, k2) finds the entry filed under equal keys; put(k1, k2, e) replaces an entry filed under equal keys, else appends; the element attributes getAttName()->getLocalPart() / getAttName()->getURI() / getId() are symbolic fields of the element, separate from the keys as filed
//@ note ASSUMED class invariant of the stored table (the one put site, ComplexTypeInfo::addAttDef: `fAttDefs->put((void*)(toAdd->getAttName()->getLocalPart()), toAdd->getAttName()->getURI(), toAdd)`; SchemaAttDef::setAttName has no caller): key1 == getAttName()->getLocalPart(), key2 == getAttName()->getURI(); NOT assumed: key2 == getId() (the comment in the load loop); no two entries under equal keys; elements non-null and distinct objects
//@ note the table is UNORDERED: the postcondition asks for every stored entry to be in the loaded table under the same two keys with the same element, for the same number of entries, for the stored hash modulus and the caller's adopt flag when the table is created by the load side
//@ note tape engine (contracts/ser_tape.inc): operator<< / operator>> / writeSize / readSize / writeString / readString and the sub-object serialisers (DatatypeValidator::storeDV/loadDV, IdentityConstraint::storeIC/loadIC, Grammar::storeGrammar/loadGrammar, XMLNumber::loadNumber) are trusted stubs that record / check (type tag, value); the tag of a streamed operand comes from its REAL type via _Generic; strings and pointers to serialisable objects are opaque ids (the pointer value stands for the object; loading yields the id that was stored); needToStoreObject / needToLoadObject / registerObject: header record null / reference / new object (contracts/ser_container.inc); the byte-level engine is the subject of units ser_primitives, ser_fillflush, ser_rawbytes
#define VERIF_DEFINE_GHOSTS
#include "verif_prelude.h"
//@ include ser_tape.inc
//@ include ser_container.inc
typedef struct sc_cont RefHash2KeysTableOf_SchemaAttDef;
typedef struct SchemaAttDef SchemaAttDef;
/*@extract src/xercesc/internal/XTemplateSerializer.cpp XTemplateSerializer::storeObject
params RefHash2KeysTableOf<SchemaAttDef>
as TS_store
sub RefHash2KeysTableOfEnumerator<SchemaAttDef>\s+e\( => SC_ENUM(e, 
streamops serEng
method serEng.needToStoreObject => ENG_needToStoreObject
method serEng.writeSize => ENG_writeSize
method serEng.writeString => ENG_writeString
method serEng.getMemoryManager => ENG_getMemoryManager
method objToStore->getHashModulus => SC_getHashModulus
method objToStore->getMemoryManager => SC_getMemoryManager
method objToStore->get => SC_get
method e.hasMoreElements => SC_hasMore
method e.nextElement => SC_nextElement
method e.nextElementKey => SC_nextKey
method e.Reset => SC_Reset
@*/
/*@extract src/xercesc/internal/XTemplateSerializer.cpp XTemplateSerializer::loadObject
params RefHash2KeysTableOf<SchemaAttDef>
as TS_load
sub new\s*\(serEng\.getMemoryManager\(\)\)\s*RefHash2KeysTableOf<SchemaAttDef>\s*\( => SC_newHash(
streamops serEng
method serEng.needToLoadObject => ENG_needToLoadObject
method serEng.registerObject => ENG_registerObject
method serEng.readSize => ENG_readSize
method serEng.readString => ENG_readString
method serEng.getMemoryManager => ENG_getMemoryManager
method (*objToLoad)->put => SC_put
method data->getAttName => EL_self
method EL_self(data)->getLocalPart => EL_name
method EL_self(data)->getURI => EL_uri
method data->getId => EL_id
@*/
#define SC_HARNESS h_ser_tmpl_RefHash2KeysTableOf_SchemaAttDef
#define SC_NKEYS 2
#define SC_ORDERED 0
#define SC_INVARIANT(i) (SC_S.a[i].key1 == (const void*)SC_ELEM.a[i].name && SC_S.a[i].key2 == SC_ELEM.a[i].uri)
#define SC_STORE(obj) TS_store(obj, &ENGINE)
#define SC_LOAD(pp, initSize, adopt, initSize2) TS_load(pp, initSize, adopt, &ENGINE)
#define SC_CREATION_OK(initSize, adopt, initSize2) (SC_L.modulus == SC_S.modulus && SC_L.adopt == adopt)
//@ include ser_container_harness.inc
