//@ unit fmt_localfile
//@ props C12 C01
//@ kind W
//@ cbmc all --unwind 19 --unwinding-assertions
//@ entry h_fmt_localfile
//@ note W: complete over every capacity 1 <= fCapacity < 2^18, fill level <= capacity and block size <= 2^18 (both sides of MAX_BUFFER_SIZE = 65536: cached path, grow path, flush path, direct-write path); the doubling loop of ensureCapacity is fully unwound (<= 18 doublings from capacity 1) with unwinding assertions
//@ note XMLPlatformUtils::writeBufferToFile is a harness stub (trusted model of the file: ghost tape = number of bytes written so far + the byte at ONE harness-chosen absolute stream position GA); it may fail (IOException) at any call
//@ note MemoryManager::allocate / deallocate = malloc / free (ledger item 6), OutOfMemory not modelled
//@ note RI_file: 1 <= fCapacity, fIndex <= fCapacity, fDataBuf = start of a heap block of exactly fCapacity bytes
#define VERIF_DEFINE_GHOSTS
#include "verif_prelude.h"
#include <stdlib.h>

typedef struct XMLFormatter XMLFormatter;
//@ table src/xercesc/framework/LocalFileFormatTarget.cpp MAX_BUFFER_SIZE
//@ struct src/xercesc/framework/LocalFileFormatTarget.hpp LocalFileFormatTarget only=auto ov:fSource=void*~fSource

static void *MM_allocate(void *mm, XMLSize_t n) { (void)mm; void *p = malloc(n); __CPROVER_assume(p != 0); return p; }
static void MM_deallocate(void *mm, void *p) { (void)mm; free(p); }

/* ---- ghost tape ---- */
XMLSize_t TAPE_n;       /* bytes that reached the file */
XMLSize_t GA;           /* harness-chosen absolute stream position */
XMLByte TAPE_ch;        /* the byte at GA, once written */
int TAPE_calls;
static void XMLPlatformUtils_writeBufferToFile(void *h, XMLSize_t n, const XMLByte *buf, void *mm)
{
  (void)h; (void)mm;
  __CPROVER_assert(n == 0 || __CPROVER_r_ok(buf, n), "C01: writeBufferToFile is handed a readable block of n bytes");
  _Bool fail; { _Bool nd; fail = nd; }
  if (fail) { verif_thrown = 1; verif_throw_type = VT_IOException; return; }
  if (GA >= TAPE_n && GA - TAPE_n < n) TAPE_ch = buf[GA - TAPE_n];
  TAPE_n += n; TAPE_calls++;
}

/*@extract src/xercesc/framework/LocalFileFormatTarget.cpp LocalFileFormatTarget::flush
throws XMLPlatformUtils_writeBufferToFile
@*/
/*@extract src/xercesc/framework/LocalFileFormatTarget.cpp LocalFileFormatTarget::ensureCapacity
method fMemoryManager->allocate => MM_allocate
method fMemoryManager->deallocate => MM_deallocate
@*/
/*@extract src/xercesc/framework/LocalFileFormatTarget.cpp LocalFileFormatTarget::writeChars
call ensureCapacity => LocalFileFormatTarget_ensureCapacity
sub \bflush\(\); => { flush(); }
call flush => LocalFileFormatTarget_flush
throws LocalFileFormatTarget_flush XMLPlatformUtils_writeBufferToFile
@*/

#define MAXC ((XMLSize_t)1 << 18)
#define RI_FILE (fCapacity >= 1 && fIndex <= fCapacity && fDataBuf != 0 && __CPROVER_POINTER_OFFSET(fDataBuf) == 0 && \
                 __CPROVER_OBJECT_SIZE(fDataBuf) == fCapacity)
/* the byte of the logical output stream (file ++ cache) at absolute position GA */
#define STREAM_AT_GA ((GA < TAPE_n) ? TAPE_ch : fDataBuf[GA - TAPE_n])

void h_fmt_localfile(void)
{
  XMLSize_t cap, idx, count, t0;
  VERIF_INPUT(cap); VERIF_INPUT(idx); VERIF_INPUT(count); VERIF_INPUT(t0); VERIF_INPUT(GA); VERIF_INPUT(TAPE_ch);
  VERIF_ASSUME(cap >= 1 && cap < MAXC && idx <= cap && count <= MAXC && t0 <= ((XMLSize_t)1 << 40));
  fCapacity = cap; fIndex = idx; fMemoryManager = 0; fSource = 0;
  fDataBuf = malloc(cap);
  __CPROVER_assume(fDataBuf != 0);
  XMLByte *src = malloc(count);
  __CPROVER_assume(src != 0);
  TAPE_n = t0; TAPE_calls = 0;
  XMLSize_t len0 = t0 + idx;                    /* logical stream length before the call */
  VERIF_ASSUME(GA < len0 + count);
  XMLByte old_at_GA = (GA < len0) ? STREAM_AT_GA : 0;
  XMLByte src_at_GA = (GA >= len0) ? src[GA - len0] : 0;
  verif_thrown = 0;

  LocalFileFormatTarget_writeChars(src, count, (XMLFormatter *)0);
  VERIF_CANARY("after call");

  __CPROVER_assert(RI_FILE, "C01: RI_file re-established (also when the file write failed)");
  __CPROVER_assert(fCapacity >= cap, "C01: capacity only grows");
  if (!verif_thrown) {
    __CPROVER_assert(TAPE_n + fIndex == len0 + count, "C12: stream length (file + cache) advances by exactly count");
    __CPROVER_assert(GA >= len0 || STREAM_AT_GA == old_at_GA, "C12: earlier stream content unchanged, in order (across grow / flush)");
    __CPROVER_assert(GA < len0 || STREAM_AT_GA == src_at_GA, "C12: the block is appended to the stream, in order, exactly once");
  } else {
    __CPROVER_assert(verif_throw_type == VT_IOException, "C01: only the file error propagates");
  }
}
