//@ unit ser_cls_SchemaElementDecl
//@ props C16
//@ kind L
//@ entry h_ser_cls_SchemaElementDecl
//@ note L: loop-free; the real body of SchemaElementDecl::serialize runs twice on one object: store mode onto the tape, then -- after the whole object has been given arbitrary values again -- load mode from the tape; every member value is symbolic (full range of its real type)
//@ note tape engine (contracts/ser_tape.inc): operator<< / operator>> / writeSize / readSize / writeString / readString and the sub-object serialisers (XTemplateSerializer::storeObject/loadObject, DatatypeValidator::storeDV/loadDV, Base::serialize ...) are trusted stubs that record / check (type tag, value); the tag of a streamed operand comes from its REAL type (member types from the real class declaration, casts from the code) via _Generic; strings, containers and pointers to serialisable objects are opaque ids (the pointer value stands for the object; loading yields the id that was stored); the byte-level engine is the subject of units ser_primitives, ser_fillflush, ser_rawbytes
//@ note compared after load (store then load restores the value): fModelType, fPSVIScope, fEnclosingScope, fFinalSet, fBlockSet, fMiscFlags, fDefaultValue, fComplexTypeInfo, fAttDefs, fIdentityConstraints, fAttWildCard, fSubstitutionGroupElem, fDatatypeValidator; NOT compared: nothing (every data member of SchemaElementDecl is persistent); the members of the base class XMLElementDecl are the subject of unit ser_cls_XMLElementDecl
#define VERIF_DEFINE_GHOSTS
#include "verif_prelude.h"
//@ include ser_tape.inc
typedef int ModelTypes;
typedef int PSVIDefs_PSVIScope;
#define XMLElementDecl_serialize(e) ENG_BASE(XMLElementDecl)   /* base-class part: one record, checked in both modes */
//@ struct src/xercesc/validators/schema/SchemaElementDecl.hpp SchemaElementDecl only=auto enums=ModelTypes,PSVIDefs_PSVIScope structs=ComplexTypeInfo,SchemaAttDef,SchemaElementDecl,DatatypeValidator

/*@extract src/xercesc/validators/schema/SchemaElementDecl.cpp SchemaElementDecl::serialize
streamops serEng
method serEng.isStoring => ENG_isStoring
method serEng.isLoading => ENG_isLoading
method serEng.writeSize => ENG_writeSize
method serEng.readSize => ENG_readSize
method serEng.writeString => ENG_writeString
method serEng.readString => ENG_readString
@*/

#define FIELDS(X) X(fModelType) X(fPSVIScope) X(fEnclosingScope) X(fFinalSet) X(fBlockSet) X(fMiscFlags) X(fDefaultValue) X(fComplexTypeInfo) X(fAttDefs) X(fIdentityConstraints) X(fAttWildCard) X(fSubstitutionGroupElem) X(fDatatypeValidator)

void h_ser_cls_SchemaElementDecl(void)
{
  VERIF_INPUT(SELF); TAPE_INIT();
  FIELDS(SER_FIELD_SAVE)
  verif_thrown = 0;
  TAPE_BEGIN_STORE();
  SchemaElementDecl_serialize(&ENGINE);
  VERIF_INPUT(SELF);                      /* the object that is loaded into: arbitrary contents */
  TAPE_BEGIN_LOAD();
  SchemaElementDecl_serialize(&ENGINE);
  VERIF_CANARY("after store and load");
  __CPROVER_assert(!verif_thrown, "C16: serialize does not throw by itself");
  TAPE_END_CHECK();
  FIELDS(SER_FIELD_CHECK)
}
