//@ unit rdr_xcodeMoreChars
//@ props C04 C01
//@ kind P
//@ def quick kCharBufSize=4 kRawBufSize=6
//@ def thorough kCharBufSize=8 kRawBufSize=16
//@ rebind src/xercesc/internal/XMLReader.hpp kCharBufSize
//@ rebind src/xercesc/internal/XMLReader.hpp kRawBufSize
//@ enforce XMLReader_xcodeMoreChars
//@ replace XMLReader_refreshRawBuffer
//@ replace XMLTranscoder_transcodeFrom
//@ entry h_xcodeMoreChars
//@ note refreshRawBuffer is replaced by the contract proved in unit rdr_refreshRawBuffer (same text: contracts/XMLReader_refreshRawBuffer.contract.inc)
//@ note transcoder contract T_iface (proved for the intrinsic transcoders in the xc_* units, assumed for ICU): return <= maxChars, bytesEaten <= srcCount, writes nothing outside toFill[0..maxChars) and charSizes[0..maxChars), may throw; the signature is taken from XMLUTF8Transcoder::transcodeFrom (the base declaration is pure virtual)
//@ note ghost XC_SEQ counts transcoder calls and is assumed not to wrap (fewer than 2^64 calls)
//@ note the `while (!bytesEaten)` loop waits on the stream; it nevertheless has a decreases measure because every needMore round must strictly increase the number of raw bytes offered to the transcoder, which is bounded by kRawBufSize (so: at most kRawBufSize + 2 rounds, each making progress or returning). That each stream call returns is part of S_iface.
#define VERIF_DEFINE_GHOSTS
#include "verif_prelude.h"
//@ struct src/xercesc/internal/XMLReader.hpp XMLReader only=auto

XMLSize_t GR;        /* ghost index into the carried raw bytes; harness-chosen, in no assigns clause */
XMLSize_t STREAM_R, STREAM_SEQ;  /* ghosts: what the last stream read returned / number of stream reads (written by the stream contract only) */
/* observation ghosts, written only by the transcoder contract: call counter, and for the LAST call the offset of srcData in
   fRawByteBuf, srcCount, bytesEaten, return value */
XMLSize_t XC_SEQ, XC_SRCOFS, XC_SRCCOUNT, XC_EATEN, XC_RET;
struct XMLTranscoder { char opaque; };

/*@extract src/xercesc/internal/XMLReader.cpp XMLReader::refreshRawBuffer
declonly
contract
//@ include XMLReader_refreshRawBuffer.contract.inc
@*/

/*@extract src/xercesc/util/XMLUTF8Transcoder.cpp XMLUTF8Transcoder::transcodeFrom
as XMLTranscoder_transcodeFrom
selfparam XMLTranscoder
declonly
contract
__CPROVER_requires(!verif_thrown && __CPROVER_w_ok(bytesEaten_p, sizeof(*bytesEaten_p)))
/* slices pinned to the member arrays (r_ok / w_ok would only see the enclosing object SELF) */
__CPROVER_requires(__CPROVER_same_object(srcData, fRawByteBuf) && __CPROVER_POINTER_OFFSET(srcData) - OFS_XMLReader_fRawByteBuf + srcCount <= sizeof(fRawByteBuf))
__CPROVER_requires(__CPROVER_same_object(toFill, fCharBuf) && __CPROVER_POINTER_OFFSET(toFill) - OFS_XMLReader_fCharBuf + maxChars * sizeof(XMLCh) <= sizeof(fCharBuf))
__CPROVER_requires(__CPROVER_same_object(charSizes, fCharSizeBuf) && __CPROVER_POINTER_OFFSET(charSizes) - OFS_XMLReader_fCharSizeBuf + maxChars <= sizeof(fCharSizeBuf))
__CPROVER_assigns(__CPROVER_object_upto(toFill, maxChars * sizeof(XMLCh)), __CPROVER_object_upto(charSizes, maxChars), *bytesEaten_p)
__CPROVER_assigns(XC_SEQ, XC_SRCOFS, XC_SRCCOUNT, XC_EATEN, XC_RET, verif_thrown, verif_throw_type, verif_throw_code)
__CPROVER_ensures(__CPROVER_return_value <= maxChars && *bytesEaten_p <= srcCount)
__CPROVER_ensures(XC_SEQ > __CPROVER_old(XC_SEQ) && XC_SRCOFS == __CPROVER_POINTER_OFFSET(srcData) - OFS_XMLReader_fRawByteBuf && XC_SRCCOUNT == srcCount && XC_EATEN == *bytesEaten_p && XC_RET == __CPROVER_return_value)
@*/

/*@extract src/xercesc/internal/XMLReader.cpp XMLReader::xcodeMoreChars
call refreshRawBuffer => XMLReader_refreshRawBuffer
method fTranscoder->transcodeFrom => XMLTranscoder_transcodeFrom
throws XMLReader_refreshRawBuffer XMLTranscoder_transcodeFrom
contract
//@ include XMLReader_xcodeMoreChars.contract.inc
loop 1
__CPROVER_assigns(charsDone, bytesEaten, needMode, fRawBufIndex, fRawBytesAvail, __CPROVER_object_upto(fRawByteBuf, sizeof(fRawByteBuf)), __CPROVER_object_upto(bufToFill, maxChars * sizeof(XMLCh)), __CPROVER_object_upto(charSizes, maxChars), STREAM_R, STREAM_SEQ, XC_SEQ, XC_SRCOFS, XC_SRCCOUNT, XC_EATEN, XC_RET, verif_thrown, verif_throw_type, verif_throw_code)
__CPROVER_loop_invariant(!verif_thrown && fRawBufIndex <= fRawBytesAvail && fRawBytesAvail <= kRawBufSize && charsDone <= maxChars)
__CPROVER_loop_invariant(XC_SEQ >= __CPROVER_loop_entry(XC_SEQ) && STREAM_SEQ >= __CPROVER_loop_entry(STREAM_SEQ))
__CPROVER_loop_invariant((XC_SEQ == __CPROVER_loop_entry(XC_SEQ)) ==> (bytesEaten == 0 && !needMode))
__CPROVER_loop_invariant((XC_SEQ != __CPROVER_loop_entry(XC_SEQ)) ==> (bytesEaten == XC_EATEN && charsDone == XC_RET && (bytesEaten == 0 ==> needMode)))
__CPROVER_loop_invariant((bytesEaten != 0) ==> (fRawBufIndex == XC_SRCOFS + XC_EATEN && fRawBytesAvail == XC_SRCOFS + XC_SRCCOUNT))
/* progress: a round that consumed bytes ends the loop; the first fruitless round sets needMode; every later round either
   returns or offers the transcoder strictly more raw bytes than the round before */
__CPROVER_decreases(bytesEaten ? (XMLSize_t)0 : (XMLSize_t)1 + (needMode ? (XMLSize_t)0 : (XMLSize_t)kRawBufSize + 1) + ((XMLSize_t)kRawBufSize - (fRawBytesAvail - fRawBufIndex)))
@*/

void h_xcodeMoreChars(void)
{
  VERIF_INPUT(SELF);
  verif_thrown = 0;
  XMLSize_t ofs, maxChars; VERIF_INPUT(ofs); VERIF_INPUT(maxChars);
  VERIF_ASSUME(ofs <= kCharBufSize && maxChars <= kCharBufSize - ofs);
  XMLSize_t r = XMLReader_xcodeMoreChars(&fCharBuf[ofs], &fCharSizeBuf[ofs], maxChars);
  VERIF_CANARY("after call");
  (void)r;
}
