//@ unit rdr_getUpToCharOrWS
//@ props C01 C04 C03
//@ kind P
//@ def all kCharBufSize=4
//@ rebind src/xercesc/internal/XMLReader.hpp kCharBufSize
//@ enforce XMLReader_getUpToCharOrWS
//@ replace XMLReader_refreshCharBuffer
//@ replace XMLReader_isWhitespace
//@ replace XMLBuffer_append_1
//@ cbmc all --arrays-uf-always
//@ entry h_getUpToCharOrWS
//@ note isWhitespace is replaced by a contract over an arbitrary (nondet) predicate table WS; the tables behind it are checked against the XML productions in the chartab_* units. NB fgCharCharsTable1_1 flags U+0085 and U+2028 as white space (see findings/xml11_nel_is_whitespace), so WS[0x2028] = 1 is a real case for version 1.1 documents
//@ note assumed of the table: WS[#xD] and WS[#xA] (XML 1.0/1.1 production [3] S; checked for the real tables in the chartab_* units)
//@ note spec/eol.h is written from XML 1.0 5th ed. 2.11 and XML 1.1 2nd ed. 2.11; its parameter r11 is instantiated with fNEL
//@ note refreshCharBuffer is replaced by the contract proved in unit rdr_refreshCharBuffer; handleEOL is NOT replaced: its real body is extracted and verified in place
//@ note abstract XMLBuffer: length assumed <= 2^40 characters (machine arithmetic; OutOfMemory not modelled)
//@ note the loops wait on the stream (`while (true) { ... if (!refreshCharBuffer()) break; }`): no decreases clause; each round either consumes a character, or returns, or ends on end-of-data
#define VERIF_DEFINE_GHOSTS
#include "verif_prelude.h"
#include "eol.h"
//@ enum src/xercesc/internal/XMLReader.hpp Sources - scope=XMLReader
//@ enum src/xercesc/internal/XMLReader.hpp XMLVersion - scope=XMLReader
//@ struct src/xercesc/internal/XMLReader.hpp XMLReader only=auto enums=Sources,XMLVersion
//@ include XMLReader_ri.inc
//@ include XMLBuffer_abs.inc
//@ include XMLBuffer_abs1.inc
#define EXT (fSource == Source_External)
#define VERIF_REFILL XMLReader_refreshCharBuffer
_Bool WS[65536];
/*@extract src/xercesc/internal/XMLReader.hpp XMLReader::isWhitespace
declonly
contract
__CPROVER_requires(1)
__CPROVER_assigns()
__CPROVER_ensures(__CPROVER_return_value == WS[toCheck])
@*/
//@ include XMLReader_eolinline.inc

XMLSize_t BUFLEN0; XMLCh BUFCH0;   /* entry ghosts (harness-owned, never assigned) */
/* what 2.11 allows to be delivered for a character that is not white space and not the stop character: #xA for a line break
   (NEL / LSEP under the 1.1 rules), the character itself otherwise */
#define NWS_DELIVERED(c, stop) (((c) == SPEC_LF && fNEL && EXT) || (!WS[(XMLCh)(c)] && (c) != (stop) && !SPEC_EOL_BREAK((c), EXT, fNEL)))

/*@extract src/xercesc/internal/XMLReader.cpp XMLReader::getUpToCharOrWS
ret false
call refreshCharBuffer => XMLReader_refreshCharBuffer
call isWhitespace => XMLReader_isWhitespace
call handleEOL => XMLReader_handleEOL
method toFill.append => XMLBuffer_append_1
throws XMLReader_refreshCharBuffer XMLReader_handleEOL
contract
__CPROVER_requires(RI_RDR && !verif_thrown && G == 0 && BUFLEN <= VERIF_BUFLEN_MAX && BUFLEN0 == BUFLEN && BUFCH0 == BUFCH)
/* S ::= (#x20 | #x9 | #xD | #xA)+ : CR and LF are white space in every table (chartab_* units), so a character that is not white space is never one of them */
__CPROVER_requires(WS[SPEC_CR] && WS[SPEC_LF])
__CPROVER_assigns(fCurLine, fCurCol, fCharIndex, fCharsAvail, fNoMore, __CPROVER_object_upto(fCharBuf, sizeof(fCharBuf)), BUFLEN, BUFCH, verif_thrown, verif_throw_type, verif_throw_code)
/* C01 */
__CPROVER_ensures(RI_RDR && (verif_thrown ==> !__CPROVER_return_value))
__CPROVER_ensures(BUFLEN >= BUFLEN0 && BUFLEN <= VERIF_BUFLEN_MAX && (GA < BUFLEN0 ==> BUFCH == BUFCH0))
/* true: stopped in front of a white-space character or the stop character; false: end of data */
__CPROVER_ensures((!verif_thrown && __CPROVER_return_value) ==> (fCharIndex < fCharsAvail && (WS[fCharBuf[fCharIndex]] || fCharBuf[fCharIndex] == toCheck)))
__CPROVER_ensures((!verif_thrown && !__CPROVER_return_value) ==> fCharIndex == fCharsAvail)
/* C03 2.11: every character handed to the caller is what the recommendation delivers for a non-space, non-stop character */
__CPROVER_ensures((GA >= BUFLEN0 && GA < BUFLEN) ==> NWS_DELIVERED(BUFCH, toCheck))
loop 1
__CPROVER_assigns(fCurLine, fCurCol, fCharIndex, fCharsAvail, fNoMore, __CPROVER_object_upto(fCharBuf, sizeof(fCharBuf)), BUFLEN, BUFCH, verif_thrown, verif_throw_type, verif_throw_code)
__CPROVER_loop_invariant(RI_RDR && !verif_thrown && BUFLEN >= BUFLEN0 && BUFLEN <= VERIF_BUFLEN_MAX)
__CPROVER_loop_invariant((GA < BUFLEN0) ==> BUFCH == BUFCH0)
__CPROVER_loop_invariant((GA >= BUFLEN0 && GA < BUFLEN) ==> NWS_DELIVERED(BUFCH, toCheck))
loop 2
__CPROVER_assigns(fCurLine, fCurCol, fCharIndex, fCharsAvail, fNoMore, __CPROVER_object_upto(fCharBuf, sizeof(fCharBuf)), BUFLEN, BUFCH, verif_thrown, verif_throw_type, verif_throw_code)
__CPROVER_loop_invariant(RI_RDR && !verif_thrown && BUFLEN >= BUFLEN0 && BUFLEN <= VERIF_BUFLEN_MAX)
__CPROVER_loop_invariant((GA < BUFLEN0) ==> BUFCH == BUFCH0)
__CPROVER_loop_invariant((GA >= BUFLEN0 && GA < BUFLEN) ==> NWS_DELIVERED(BUFCH, toCheck))
@*/

struct XMLBuffer TOFILL;
void h_getUpToCharOrWS(void)
{
  VERIF_INPUT(SELF);
  verif_thrown = 0;
  XMLCh toCheck; VERIF_INPUT(toCheck);
  XMLReader_getUpToCharOrWS(&TOFILL, toCheck);
  VERIF_CANARY("after call");
}
