//@ unit domser_cdata_split
//@ props C12 C01
//@ kind W
//@ def quick NV=6 NRECON=8 VERIF_ALLOC_MAX=20
//@ def thorough NV=8 NRECON=10 VERIF_ALLOC_MAX=24
//@ cbmc quick --unwind 12 --unwindset DOMLSSerializerImpl_procCdataSection.0:5,XMLString_patternMatch.0:22 --unwinding-assertions
//@ cbmc thorough --unwind 14 --unwindset DOMLSSerializerImpl_procCdataSection.0:5,XMLString_patternMatch.0:28 --unwinding-assertions
//@ entry h_cdata_split
//@ note W: complete for every CDATA node value of length <= NV over the alphabet { ']', '>', 'a', '<' } (split-cdata-sections = true); all loops (stringLen, copyString, catString, patternMatch, the split loop) are the real text, fully unwound, unwinding assertions on
//@ note stubs (contracts/domser_stubs.inc): the XMLFormatter sink feeds a streaming reader of the output and remembers the escape mode; reportError records (severity, code, node); fMemoryManager->allocate is verif_alloc = exactly the requested number of bytes at the END of a pool object (so that one element past `len + 3 + 1` is an out-of-bounds dereference); the ArrayJanitor (release at scope exit) is dropped; procUnrepCharInCdataSection is a stub that forwards a non-empty argument to the sink as one CDATA section (what the real one does when every character is representable: unit domser_unrep_cdata)
//@ note spec = a reader of the output (XML 1.0 productions [18]-[21]: CDSect ::= '<![CDATA[' CData ']]>' where CData contains no ']]>'): the output must be a sequence of complete CDATA sections whose contents, concatenated, are the node value (C12: "equal up to the division of character data between adjacent CDATA nodes where a section had to be split")
#define VERIF_DEFINE_GHOSTS
#include "verif_prelude.h"
//@ enum src/xercesc/dom/DOMError.hpp ErrorSeverity DOMError_ scope=DOMError
//@ enum src/xercesc/util/XMLDOMMsg.hpp Codes XMLDOMMsg_ scope=XMLDOMMsg
//@ enum src/xercesc/framework/XMLFormatter.hpp EscapeFlags XMLFormatter_ scope=XMLFormatter
//@ enum src/xercesc/framework/XMLFormatter.hpp UnRepFlags XMLFormatter_ scope=XMLFormatter
typedef struct DOMNode { int tag; } DOMNode;
//@ table src/xercesc/dom/impl/DOMLSSerializerImpl.cpp gStartCDATA
//@ table src/xercesc/dom/impl/DOMLSSerializerImpl.cpp gEndCDATA
//@ include domser_stubs.inc

/*@extract src/xercesc/util/XMLString.hpp XMLString::stringLen
params const XMLCh* const src
static
@*/
/*@extract src/xercesc/util/XMLString.cpp XMLString::copyString
params XMLCh* const target, const XMLCh* const src
@*/
/*@extract src/xercesc/util/XMLString.cpp XMLString::catString
params XMLCh* const target, const XMLCh* const src
call stringLen => XMLString_stringLen
@*/
/*@extract src/xercesc/util/XMLString.cpp XMLString::patternMatch
call XMLString::stringLen => XMLString_stringLen
@*/

/* procUnrepCharInCdataSection, all characters representable: one section for a non-empty text, nothing for an empty one */
static void SER_procUnrep(const XMLCh *s, const void *node)
{
  if (node != ERR_EXPECT_NODE) ERR_WRONG_NODE = 1;
  if (s[0]) { SINK_setUnRepFail(); SINK_mode(XMLFormatter_NoEscapes); SINK_str(gStartCDATA); SINK_str(s); SINK_str(gEndCDATA); }
}

/*@extract src/xercesc/dom/impl/DOMLSSerializerImpl.cpp DOMLSSerializerImpl::procCdataSection
sub static const XMLSize_t offset => const XMLSize_t offset
sub fMemoryManager->allocate => verif_alloc
sub ArrayJanitor<XMLCh>\s*jName\(repNodeValue, fMemoryManager\); =>
sub \*fFormatter << XMLFormatter::NoEscapes << gStartCDATA << gEndCDATA; => SINK_mode(XMLFormatter::NoEscapes); SINK_str(gStartCDATA); SINK_str(gEndCDATA);
sub reportError\( => SER_reportError(
sub procUnrepCharInCdataSection\( => SER_procUnrep(
@*/

struct { XMLCh a[NV + 1]; } VAL;
DOMNode NODE_TAG;

void h_cdata_split(void)
{
  XMLSize_t n;
  VERIF_INPUT(VAL); VERIF_INPUT(n); VERIF_INPUT(FATAL_THROWS);
  VERIF_ASSUME(n <= NV);
  XMLCh *s = VAL.a + (NV - n);
  VERIF_ASSUME(s[n] == 0);
  for (XMLSize_t k = 0; k < NV; k++) VERIF_ASSUME(k >= n || s[k] == ']' || s[k] == '>' || s[k] == 'a' || s[k] == '<');
  SER_reset(); ERR_EXPECT_CODE = XMLDOMMsg_Writer_NestedCDATA; ERR_EXPECT_NODE = &NODE_TAG; ALLOC_COUNT = 0;
  XMLCh before[NV + 1]; for (XMLSize_t k = 0; k <= NV; k++) before[k] = VAL.a[k];

  DOMLSSerializerImpl_procCdataSection(s, &NODE_TAG);
  VERIF_CANARY("after call");

  /* does the value contain ']]>' ? */
  int nested = 0;
  for (XMLSize_t k = 0; k + 3 <= NV; k++) if (k + 3 <= n && s[k] == ']' && s[k + 1] == ']' && s[k + 2] == '>') nested = 1;
  if (nested) VERIF_CANARY("a value containing the CDATA end marker is reachable");

  int wf = RD_WF && RD_STATE == RD_TOP; XMLSize_t rl = RL, sections = RD_SECTIONS;

  SINK_check_tables();
  __CPROVER_assert(!RECON_OVER, "C12: no more character data comes out than went in (harness array large enough)");
  __CPROVER_assert(ALLOC_COUNT == 1 && ALLOC_BYTES == (n + 3 + 1) * sizeof(XMLCh), "C01: one temporary buffer of len + 3 + 1 elements is requested");
  for (XMLSize_t k = 0; k <= NV; k++) __CPROVER_assert(VAL.a[k] == before[k], "C01: the node value itself is not modified");
  __CPROVER_assert(!SINK_ESCAPED, "C12: CDATA markup and content are written with NoEscapes");
  __CPROVER_assert(wf, "C12: the output is a sequence of complete CDATA sections (read as a parser does -- a section ends at the FIRST ']]>' --, nothing outside a section, nothing unterminated)");
  __CPROVER_assert(!wf || rl == n, "C12: the contents of the emitted CDATA sections, concatenated, have the length of the node value (nothing lost, nothing added)");
  if (wf && rl == n) for (XMLSize_t k = 0; k < NV; k++) if (k < n) __CPROVER_assert(RECON.a[k] == s[k], "C12: the contents of the emitted CDATA sections, concatenated, are the node value");
  __CPROVER_assert(n == 0 || sections >= 1, "C12: a non-empty value produces at least one section");
  __CPROVER_assert((ERR_WARNINGS >= 1) == (nested != 0), "C12: a warning is reported iff the value contains ']]>' (a section had to be split)");
  __CPROVER_assert(ERR_FATALS == 0 && ERR_COUNT == ERR_WARNINGS && !verif_thrown, "C12: splitting reports warnings only");
  __CPROVER_assert(!ERR_OTHER_CODE && !ERR_WRONG_NODE, "C12: the warning is Writer_NestedCDATA on the node being written");
}
