//@ unit domser_cdata_split
//@ props C12 C01
//@ kind W
//@ def quick NV=6 NOUT=44 VERIF_ALLOC_MAX=20
//@ def thorough NV=7 NOUT=44 VERIF_ALLOC_MAX=22
//@ cbmc all --unwind 12 --unwindset DOMLSSerializerImpl_procCdataSection.0:5,XMLString_patternMatch.0:30,spec_read_output.1:46 --unwinding-assertions
//@ entry h_cdata_split
//@ note W: complete for every CDATA node value of length <= NV over the alphabet { ']', '>', 'a', '<' } (split-cdata-sections = true); all loops (stringLen, copyString, catString, patternMatch, the split loop) are the real text, fully unwound, unwinding assertions on
//@ note stubs (contracts/domser_stubs.inc): the XMLFormatter sink appends to OUT[] and remembers the escape mode; reportError records (severity, code, node); fMemoryManager->allocate is verif_alloc = exactly the requested number of bytes at the END of a pool object (so that one element past `len + 3 + 1` is an out-of-bounds dereference); the ArrayJanitor (release at scope exit) is dropped; procUnrepCharInCdataSection is a stub that forwards a non-empty argument to the sink as one CDATA section (what the real one does when every character is representable: unit domser_unrep_cdata)
//@ note spec = a reader of the output (XML 1.0 productions [18]-[21]: CDSect ::= '<![CDATA[' CData ']]>' where CData contains no ']]>'): the output must be a sequence of complete CDATA sections whose contents, concatenated, are the node value (C12: "equal up to the division of character data between adjacent CDATA nodes where a section had to be split")
#define VERIF_DEFINE_GHOSTS
#include "verif_prelude.h"
//@ enum src/xercesc/dom/DOMError.hpp ErrorSeverity DOMError_ scope=DOMError
//@ enum src/xercesc/util/XMLDOMMsg.hpp Codes XMLDOMMsg_ scope=XMLDOMMsg
//@ enum src/xercesc/framework/XMLFormatter.hpp EscapeFlags XMLFormatter_ scope=XMLFormatter
typedef struct DOMNode { int tag; } DOMNode;
//@ include domser_stubs.inc
//@ table src/xercesc/dom/impl/DOMLSSerializerImpl.cpp gStartCDATA
//@ table src/xercesc/dom/impl/DOMLSSerializerImpl.cpp gEndCDATA

/*@extract src/xercesc/util/XMLString.hpp XMLString::stringLen
params const XMLCh* const src
static
@*/
/*@extract src/xercesc/util/XMLString.cpp XMLString::copyString
params XMLCh* const target, const XMLCh* const src
@*/
/*@extract src/xercesc/util/XMLString.cpp XMLString::catString
params XMLCh* const target, const XMLCh* const src
call stringLen => XMLString_stringLen
@*/
/*@extract src/xercesc/util/XMLString.cpp XMLString::patternMatch
call XMLString::stringLen => XMLString_stringLen
@*/

/* procUnrepCharInCdataSection, all characters representable: one section for a non-empty text, nothing for an empty one */
static void SER_procUnrep(const XMLCh *s, const void *node)
{
  if (node != ERR_EXPECT_NODE) ERR_WRONG_NODE = 1;
  if (s[0]) { SINK_setUnRepFail(); SINK_mode(XMLFormatter_NoEscapes); SINK_str(gStartCDATA); SINK_str(s); SINK_str(gEndCDATA); }
}

/*@extract src/xercesc/dom/impl/DOMLSSerializerImpl.cpp DOMLSSerializerImpl::procCdataSection
sub static const XMLSize_t offset => const XMLSize_t offset
sub fMemoryManager->allocate => verif_alloc
sub ArrayJanitor<XMLCh>\s*jName\(repNodeValue, fMemoryManager\); =>
sub \*fFormatter << XMLFormatter::NoEscapes << gStartCDATA << gEndCDATA; => SINK_mode(XMLFormatter::NoEscapes); SINK_str(gStartCDATA); SINK_str(gEndCDATA);
sub reportError\( => SER_reportError(
sub procUnrepCharInCdataSection\( => SER_procUnrep(
@*/

/* XML 1.0 [19] CDStart and [21] CDEnd, spelled here (not taken from the code's tables) */
static const XMLCh SPEC_CDSTART[9] = { '<', '!', '[', 'C', 'D', 'A', 'T', 'A', '[' };
struct { XMLCh a[NV + 1]; } VAL;
DOMNode NODE_TAG;

/* reference reader of the output: top level accepts only CDStart; inside a section everything up to the FIRST ']]>' is content */
struct { XMLCh a[NOUT]; } RECON; XMLSize_t RL, SECTIONS; int WF;
static void spec_read_output(void)
{
  int inside = 0; XMLSize_t skip = 0; RL = 0; SECTIONS = 0; WF = 1;
  for (XMLSize_t i = 0; i < NOUT; i++) {
    if (i >= OUTLEN) break;
    if (skip > 0) { skip--; continue; }
    if (!inside) {
      int m = (i + 9 <= OUTLEN);
      for (XMLSize_t k = 0; k < 9; k++) if (m && OUT.a[i + k] != SPEC_CDSTART[k]) m = 0;
      if (m) { inside = 1; skip = 8; SECTIONS++; } else WF = 0;
    } else {
      if (i + 3 <= OUTLEN && OUT.a[i] == ']' && OUT.a[i + 1] == ']' && OUT.a[i + 2] == '>') { inside = 0; skip = 2; }
      else RECON.a[RL++] = OUT.a[i];
    }
  }
  if (inside || skip) WF = 0;
}

void h_cdata_split(void)
{
  XMLSize_t n;
  VERIF_INPUT(VAL); VERIF_INPUT(n); VERIF_INPUT(FATAL_THROWS);
  VERIF_ASSUME(n <= NV);
  XMLCh *s = VAL.a + (NV - n);
  VERIF_ASSUME(s[n] == 0);
  for (XMLSize_t k = 0; k < NV; k++) VERIF_ASSUME(k >= n || s[k] == ']' || s[k] == '>' || s[k] == 'a' || s[k] == '<');
  SER_reset(); ERR_EXPECT_CODE = XMLDOMMsg_Writer_NestedCDATA; ERR_EXPECT_NODE = &NODE_TAG; ALLOC_COUNT = 0;
  XMLCh before[NV + 1]; for (XMLSize_t k = 0; k <= NV; k++) before[k] = VAL.a[k];

  DOMLSSerializerImpl_procCdataSection(s, &NODE_TAG);
  VERIF_CANARY("after call");

  /* does the value contain ']]>' ? */
  int nested = 0;
  for (XMLSize_t k = 0; k + 3 <= NV; k++) if (k + 3 <= n && s[k] == ']' && s[k + 1] == ']' && s[k + 2] == '>') nested = 1;
  if (nested) VERIF_CANARY("a value containing the CDATA end marker is reachable");

  spec_read_output();
  int wf = WF; XMLSize_t rl = RL, sections = SECTIONS;

  __CPROVER_assert(!OUT_OVERFLOW, "C01: harness output array large enough (no write dropped)");
  __CPROVER_assert(ALLOC_COUNT == 1, "C01: exactly one temporary buffer is requested");
  for (XMLSize_t k = 0; k <= NV; k++) __CPROVER_assert(VAL.a[k] == before[k], "C01: the node value itself is not modified");
  __CPROVER_assert(!SINK_ESCAPED, "C12: CDATA markup and content are written with NoEscapes");
  __CPROVER_assert(wf, "C12: the output is a sequence of complete CDATA sections (no section content contains ']]>', nothing outside a section)");
  __CPROVER_assert(!wf || rl == n, "C12: the contents of the emitted CDATA sections, concatenated, have the length of the node value (nothing lost, nothing added)");
  if (wf && rl == n) for (XMLSize_t k = 0; k < NV; k++) if (k < n) __CPROVER_assert(RECON.a[k] == s[k], "C12: the contents of the emitted CDATA sections, concatenated, are the node value");
  __CPROVER_assert(n == 0 || sections >= 1, "C12: a non-empty value produces at least one section");
  __CPROVER_assert((ERR_WARNINGS >= 1) == (nested != 0), "C12: a warning is reported iff the value contains ']]>' (a section had to be split)");
  __CPROVER_assert(ERR_FATALS == 0 && ERR_COUNT == ERR_WARNINGS && !verif_thrown, "C12: splitting reports warnings only");
  __CPROVER_assert(!ERR_OTHER_CODE && !ERR_WRONG_NODE, "C12: the warning is Writer_NestedCDATA on the node being written");
}
