//@ unit num_doublefloat_compare
//@ props C09
//@ kind L
//@ entry h_num_doublefloat_compare
//@ note L: loop-free, complete: XMLAbstractDoubleFloat::compareValues + compareSpecial + isSpecialValue (the order used by xs:float / xs:double facets, enumerations and identity constraints) over EVERY pair / triple of values {fType in NegINF, PosINF, NaN, Normal; fValue any finite double (also +0 / -0, subnormals) when Normal, any bit pattern otherwise}
//@ note obligation (XML Schema Part 2 3.2.4 / 3.2.5 with erratum E2-40, quoted in the code): "x < y iff y - x is positive for x and y in the value space. Positive infinity is greater than all other non-NaN values. NaN equals itself but is incomparable with (neither greater than nor less than) any other value in the value space" (and symmetrically for negative infinity). The result is one of XMLNumber::LESS_THAN / EQUAL / GREATER_THAN / INDETERMINATE (the only values the callers test for); compare(b, a) is the mirror image of compare(a, b); < is transitive
//@ note representation invariant (from init / convert / checkBoundary): fType is one of NegINF, PosINF, NaN, Normal (SpecialTypeNum is a count, never stored), and fType == Normal carries a finite fValue (strtod of a checked lexical form; ERANGE overflow / the float range check turn the type into +-INF)
//@ note compareSpecial's default branch (an fType outside the three special kinds: internal error, NumberFormatException) formats the type number with XMLString::binToText into value1[BUF_LEN+1]: binToText is a stub that carries the documented buffer obligation (maxChars + 1 elements; the real function is proved in str_bintext); second part of the harness calls compareSpecial with an arbitrary fType
//@ note NOT in scope: init / convert / checkBoundary (strtod), the lexical checks, canonical form, XMLFloat / XMLDouble constructors; AbstractNumericValidator::boundsCheck (how the verdicts are used)
//@ note STRICT unit: fails on the unchanged tree on a genuine defect: compareValues(finite, NaN) returns (-1) * INDETERMINATE = -2 (findings/doublefloat_compare_finite_vs_nan); everything else is covered by num_doublefloat_compare_rest
//@ def all DF_EXCLUDE_KNOWN=0
#define VERIF_DEFINE_GHOSTS
#include "verif_prelude.h"
//@ include num_doublefloat_body.inc

void h_num_doublefloat_compare(void) { df_compare_run(); }
