//@ unit str_hashn
//@ props C01
//@ kind P
//@ def quick STRN=6
//@ def thorough STRN=12
//@ enforce XMLString_hashN
//@ entry h_str_hashn
//@ note P: the loop runs through a loop contract; buffer bounded by -DSTRN, END-aligned
//@ note hashN(tohash, n, modulus) reads n + 1 units (the first one before the loop, then n more): the buffer must hold n + 1 units -- true for its only caller DOMDocumentImpl::getPooledNString, which passes a prefix of a NUL-terminated name. Observation (functional, not asserted): the value therefore depends on the unit AFTER the n-unit prefix, so equal prefixes of different strings are pooled under different hashes and hashN(s, len) != hash(s)
#define VERIF_DEFINE_GHOSTS
#include "verif_prelude.h"
//@ include str_common.inc

/*@extract src/xercesc/util/XMLString.hpp XMLString::hashN
params const XMLCh* const tohash , const XMLSize_t n , const XMLSize_t hashModulus
contract
__CPROVER_requires(n < STRN && hashModulus != 0)
__CPROVER_requires(tohash == 0 || __CPROVER_r_ok(tohash, (n + 1) * sizeof(XMLCh)))
__CPROVER_assigns()
__CPROVER_ensures(__CPROVER_return_value < hashModulus)
__CPROVER_ensures((tohash == 0 || n == 0) ==> __CPROVER_return_value == 0)
loop 1
__CPROVER_assigns(i, curCh, hashVal)
__CPROVER_loop_invariant(i <= n && PTR_IN(curCh, tohash, n + 1) && PIDX(curCh, tohash) == i + 1)
__CPROVER_decreases(n - i)
@*/

struct { XMLCh a[STRN]; } S1;
void h_str_hashn(void)
{
  XMLSize_t n, mod; _Bool isnull;
  VERIF_INPUT(S1); VERIF_INPUT(n); VERIF_INPUT(mod); VERIF_INPUT(isnull);
  VERIF_ASSUME(n < STRN);
  verif_thrown = 0;
  XMLSize_t h = XMLString_hashN(isnull ? (const XMLCh *)0 : S1.a + (STRN - (n + 1)), n, mod);
  VERIF_CANARY("after hashN");
  if (h > 1 && n > 2) VERIF_CANARY("hashN: non-trivial value reachable");
}
