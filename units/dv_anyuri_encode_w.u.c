//@ unit dv_anyuri_encode_w
//@ props C09
//@ kind W
//@ def quick NC=3
//@ def thorough NC=4
//@ cbmc all --unwind 18 --unwinding-assertions
//@ entry h_encode
//@ note W: AnyURIDatatypeValidator::encode (the escaping applied to an xs:anyURI value before it is checked against RFC 2396/2732) for every string of <= NC BMP characters (no surrogates); both loops unwound completely
//@ note spec (XML Schema Datatypes 3.2.17 -> XLink 5.4 Locator Attribute: "all non-ASCII characters, plus the excluded characters listed in Section 2.4 of RFC 2396, except for # % [ ] ... each disallowed character is converted to UTF-8 as one or more bytes, each escaped as %HH"): the output (a) percent-decodes to the UTF-8 encoding of the input -- nothing lost, nothing added; (b) contains no character that must be escaped (non-ASCII, controls, space, < > " { } | \ ^ `) literally, wherever it stands in the string; (c) writes escapes as % and two upper-case hex digits; (d) leaves every other ASCII character (apart from '~', which the library chooses to escape) as it is
//@ note trusted stubs: the UTF-8 transcoder object is the spec encoder of spec/unicode.h (XMLUTF8Transcoder::transcodeTo is proved in utf8_to_w); sprintf("%02X") writes two upper-case hex digits; XMLBuffer::append records; allocate hands out a block of the requested size
#define VERIF_DEFINE_GHOSTS
#include "verif_prelude.h"
#include "unicode.h"
#define OUTN (NC * 9 + 1)
typedef struct XMLBuffer { XMLCh a[OUTN]; int n; } XMLBuffer;
static void XB_append(XMLBuffer *b, XMLCh c) { if (b->n < OUTN) b->a[b->n] = c; b->n++; }
struct { XMLByte a[NC * 4 + 1]; } U8BLK;
static void* MM_allocate(XMLSize_t n) { __CPROVER_assert(n <= NC * 4 + 1, "harness capacity"); return &U8BLK.a[(NC * 4 + 1) - (n <= NC * 4 + 1 ? n : 0)]; }
#define MM_deallocate(p) ((void)0)
static void HEX2(char *t, int v) { static const char d[] = "0123456789ABCDEF"; t[0] = d[(v >> 4) & 15]; t[1] = d[v & 15]; t[2] = 0; }
#define sprintf(buf, fmt, v) HEX2((buf), (int)(v))
#define assert(c) __CPROVER_assert((c), "C09: the transcoder consumed the whole rest of the value")
/* transcoder.transcodeTo(src, n, dst, max, eaten, opt): the spec UTF-8 encoder (BMP, no surrogates) */
static XMLSize_t U8_transcodeTo(const XMLCh *src, XMLSize_t n, XMLByte *dst, XMLSize_t max, XMLSize_t *eaten)
{
  XMLSize_t o = 0, i = 0;
  for (; i < NC; i++) if (i < n) { uint8_t t[4]; int L = spec_utf8_encode(src[i], t); for (int k = 0; k < 4; k++) if (k < L) { __CPROVER_assert(o < max, "C01: UTF-8 output room"); dst[o++] = t[k]; } }
  *eaten = n; return o;
}
#define TC_transcodeTo(src, n, dst, max, eaten, opt) U8_transcodeTo((src), (n), (dst), (max), &(eaten))

/*@extract src/xercesc/validators/datatype/AnyURIDatatypeValidator.cpp AnyURIDatatypeValidator::encode
as DV_anyuri_encode
method encoded.append => XB_append
sub* XMLUTF8Transcoder\s+transcoder\([^;]*\); => ;
sub* transcoder\.transcodeTo\( => TC_transcodeTo(
sub* manager->allocate\( => MM_allocate(
sub* manager->deallocate\( => MM_deallocate(
sub* XMLTranscoder::UnRep_RepChar => 0
@*/

static int must_escape(unsigned b) { return b >= 128 || b <= 0x20 || b == 0x7F || b == '<' || b == '>' || b == '"' || b == '{' || b == '}' || b == '|' || b == '\\' || b == '^' || b == '`'; }
static int hexval(XMLCh c) { return (c >= '0' && c <= '9') ? c - '0' : (c >= 'A' && c <= 'F') ? c - 'A' + 10 : -1; }
struct { XMLCh a[NC]; } IN;
XMLBuffer ENC;
void h_encode(void)
{
  XMLSize_t len;
  VERIF_INPUT(IN); VERIF_INPUT(len); VERIF_ASSUME(len <= NC);
  for (int i = 0; i < NC; i++) VERIF_ASSUME(IN.a[i] != 0 && IN.a[i] != '%' && (IN.a[i] < 0xD800 || IN.a[i] > 0xDFFF));   /* '%' is exempt (a value may carry escapes already) and would make the read-back ambiguous */
  ENC.n = 0; verif_thrown = 0;
  DV_anyuri_encode(IN.a + (NC - len), len, &ENC, (MemoryManager*)0);
  VERIF_CANARY("after encode");
  __CPROVER_assert(!verif_thrown && ENC.n <= OUTN - 1, "C01: at most 9 output characters per input character");
  /* expected byte string */
  uint8_t exp[NC * 3 + 1]; int en = 0;
  for (int i = 0; i < NC; i++) if ((XMLSize_t)i < len) { uint8_t t[4]; int L = spec_utf8_encode(IN.a[(NC - len) + i], t); for (int k = 0; k < 3; k++) if (k < L) exp[en++] = t[k]; }
  /* decode the output */
  int o = 0, bi = 0, ok = 1;
  for (int s = 0; s < NC * 3; s++) if (o < ENC.n && o < OUTN && ok) {
    XMLCh c = ENC.a[o];
    unsigned b;
    if (c == '%') {
      int h = (o + 2 < ENC.n && o + 2 < OUTN) ? hexval(ENC.a[o + 1]) : -1, l = (o + 2 < ENC.n + 0 && o + 2 < OUTN) ? hexval(ENC.a[o + 2]) : -1;
      if (o + 2 >= ENC.n) { h = -1; l = -1; }
      __CPROVER_assert(h >= 0 && l >= 0, "C09: an escape is % followed by two upper-case hexadecimal digits");
      if (h < 0 || l < 0) { ok = 0; b = 0; } else b = (unsigned)(h * 16 + l);
      o += 3;
    } else {
      __CPROVER_assert(!must_escape(c), "C09: no non-ASCII or excluded character is left unescaped, wherever it stands in the value");
      b = c; o += 1;
    }
    if (ok) { __CPROVER_assert(bi < en && exp[bi < NC * 3 ? bi : 0] == b, "C09: the escaped value decodes to the UTF-8 bytes of the value, in order"); bi++; }
  }
  __CPROVER_assert(!ok || (o == ENC.n && bi == en), "C09: nothing of the value is lost and nothing is added");
  if (len >= 2 && IN.a[NC - len] >= 0x80) { VERIF_CANARY("non-ASCII first, more after it: reachable"); }
}
