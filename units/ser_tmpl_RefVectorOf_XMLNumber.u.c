//@ unit ser_tmpl_RefVectorOf_XMLNumber
//@ props C16
//@ kind W
//@ def quick NC=3
//@ def thorough NC=4
//@ def all TAPE_MAX=16
//@ cbmc quick --unwind 9 --unwinding-assertions
//@ cbmc thorough --unwind 11 --unwinding-assertions
//@ entry h_ser_tmpl_RefVectorOf_XMLNumber
//@ note W: complete for vectors of <= NC elements (all loops unwound); the real bodies of XTemplateSerializer::storeObject(RefVectorOf<XMLNumber>*, serEng) and loadObject(RefVectorOf<XMLNumber>**, .., serEng) (AbstractNumericFacetValidator::fEnumeration) run over the tape engine: store mode on a symbolic vector (null / written before / new), then load mode into the owner's empty vector or into none
//@ note container model (contracts/ser_container.inc, trusted stubs): a vector is <= NC entries; size() / elementAt(i) read the stored vector, addElement appends to the loaded one; an element is a number id or null, written by `serEng << data` (dynamic class of the number) and re-created by XMLNumber::loadNumber(numType, serEng) (unit ser_pair_loadNumber): the stub pops the record and checks that the caller's number type is handed on; the vector is ORDERED: the postcondition asks for every element back at the same index
//@ note tape engine (contracts/ser_tape.inc): operator<< / operator>> / writeSize / readSize / writeString / readString and the sub-object serialisers (DatatypeValidator::storeDV/loadDV, IdentityConstraint::storeIC/loadIC, Grammar::storeGrammar/loadGrammar, XMLNumber::loadNumber) are trusted stubs that record / check (type tag, value); the tag of a streamed operand comes from its REAL type via _Generic; strings and pointers to serialisable objects are opaque ids (the pointer value stands for the object; loading yields the id that was stored); needToStoreObject / needToLoadObject / registerObject: header record null / reference / new object (contracts/ser_container.inc); the byte-level engine is the subject of units ser_primitives, ser_fillflush, ser_rawbytes
#define VERIF_DEFINE_GHOSTS
#include "verif_prelude.h"
//@ include ser_tape.inc
//@ include ser_container.inc
typedef struct sc_cont RefVectorOf_XMLNumber;
typedef struct XMLNumber XMLNumber;
typedef int XMLNumber_NumberType;
//@ enum src/xercesc/util/XMLNumber.hpp NumberType XMLNumber_ scope=XMLNumber
int H_NUMTYPE;
#define XMLNumber_loadNumber(numType, eng) ({ TAPE_POP(TG_OBJ_XMLNumber, "loadNumber") __CPROVER_assert((numType) == H_NUMTYPE, "C16: the stored numbers are re-created with the number type the caller names"); (XMLNumber*)TAPE_R.p; })
/*@extract src/xercesc/internal/XTemplateSerializer.cpp XTemplateSerializer::storeObject
params RefVectorOf<XMLNumber>
as TS_store
streamops serEng
method serEng.needToStoreObject => ENG_needToStoreObject
method serEng.writeSize => ENG_writeSize
method serEng.writeString => ENG_writeString
method serEng.getMemoryManager => ENG_getMemoryManager
method objToStore->size => SC_size
method objToStore->elementAt => SC_elementAt
@*/
/*@extract src/xercesc/internal/XTemplateSerializer.cpp XTemplateSerializer::loadObject
params RefVectorOf<XMLNumber>
as TS_load
sub new\s*\(serEng\.getMemoryManager\(\)\)\s*RefVectorOf<XMLNumber>\s*\( => SC_newVec(
streamops serEng
method serEng.needToLoadObject => ENG_needToLoadObject
method serEng.registerObject => ENG_registerObject
method serEng.readSize => ENG_readSize
method serEng.readString => ENG_readString
method serEng.getMemoryManager => ENG_getMemoryManager
method (*objToLoad)->addElement => SC_addElement
method (*objToLoad)->insertElementAt => SC_insertElementAt
@*/
#define SC_HARNESS h_ser_tmpl_RefVectorOf_XMLNumber
#define SC_NKEYS 0
#define SC_ORDERED 1
#define SC_INVARIANT(i) 1
#define SC_NULL_ELEMS 1
#define SC_STORE(obj) TS_store(obj, &ENGINE)
#define SC_LOAD(pp, initSize, adopt, initSize2) TS_load(pp, initSize, adopt, H_NUMTYPE, &ENGINE)
#define SC_CREATION_OK(initSize, adopt, initSize2) (SC_L.initSize == ((initSize) < 0 ? 16 : (initSize)) && SC_L.adopt == adopt)
#define SC_SETUP_EXTRA VERIF_INPUT(H_NUMTYPE);
//@ include ser_container_harness.inc
