//@ unit tbl_win1252_strict_w
//@ props C05 C01
//@ kind W
//@ def quick NB=1
//@ def thorough NB=2
//@ def all TBL_PART=2 TBL_ORACLE=SPEC_CP1252
//@ cbmc all --unwind 4 --unwindset tbl_check_sorted.0:353,tbl_check_bytes.0:257,spec_byte_for.0:257,spec_bestfit.0:353,XML256TableTranscoder_xlatOneTo.0:11 --unwinding-assertions
//@ entry h_tbl256_w
//@ note W: XML256TableTranscoder instantiated with the REAL tables of XMLWin1252Transcoder (windows-1252); table facts are concrete and complete (all 256 bytes, all to-table entries); interface checks over every byte / unit string of length <= NB, both UnRepOpts; canTranscodeTo over every 32-bit argument; loops fully unwound, unwinding assertions on
//@ note oracle: python3 codec cp1252 (Unicode.org MAPPINGS/VENDORS/MICSFT/WINDOWS/CP1252.TXT) frozen in spec/codepages.h; the five bytes it leaves undefined (81 8D 8F 90 9D) must decode to the C1 control of the same value (WHATWG Encoding index windows-1252)
//@ note part 1 (tbl_*_w) scopes the encoder checks to units other than U+0000 and other than the best-fit entries of the to-table (a to-table entry whose byte decodes to a different character); part 2 (tbl_*_strict_w) judges exactly those against the strict reading of the property
//@ note XMLString::binToText (exception message text only), getMemoryManager() and getEncodingName() are dropped; harness: contracts/tbl256_w_harness.inc
#define VERIF_DEFINE_GHOSTS
#include "verif_prelude.h"
#include "codepages.h"

typedef int UnRepOpts;
//@ enum src/xercesc/util/TransService.hpp UnRepOpts - scope=XMLTranscoder
//@ struct src/xercesc/util/TransService.hpp TransRec name=XMLTransService_TransRec self=none plain
typedef struct XMLTransService_TransRec XMLTransService_TransRec;
//@ table src/xercesc/util/XMLWin1252Transcoder.cpp gFromTable
//@ table src/xercesc/util/XMLWin1252Transcoder.cpp gToTable
//@ table src/xercesc/util/XMLWin1252Transcoder.cpp gToTableSz
//@ struct src/xercesc/util/XML256TableTranscoder.hpp XML256TableTranscoder only=auto structs=XMLTransService_TransRec

/*@extract src/xercesc/util/XML256TableTranscoder.cpp XML256TableTranscoder::xlatOneTo
@*/

/*@extract src/xercesc/util/XML256TableTranscoder.cpp XML256TableTranscoder::transcodeFrom
@*/

/*@extract src/xercesc/util/XML256TableTranscoder.cpp XML256TableTranscoder::transcodeTo
sub XMLString::binToText\s*\([^;]*\)\s*; =>
call xlatOneTo => XML256TableTranscoder_xlatOneTo
@*/

/*@extract src/xercesc/util/XML256TableTranscoder.cpp XML256TableTranscoder::canTranscodeTo
call xlatOneTo => XML256TableTranscoder_xlatOneTo
@*/

//@ include tbl256_w_harness.inc
