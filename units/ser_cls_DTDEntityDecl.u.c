//@ unit ser_cls_DTDEntityDecl
//@ props C16
//@ kind L
//@ entry h_ser_cls_DTDEntityDecl
//@ note L: loop-free; the real body of DTDEntityDecl::serialize runs twice on one object: store mode onto the tape, then -- after the whole object has been given arbitrary values again -- load mode from the tape; every member value is symbolic (full range of its real type)
//@ note tape engine (contracts/ser_tape.inc): operator<< / operator>> / writeSize / readSize / writeString / readString and the sub-object serialisers (XTemplateSerializer::storeObject/loadObject, DatatypeValidator::storeDV/loadDV, Base::serialize ...) are trusted stubs that record / check (type tag, value); the tag of a streamed operand comes from its REAL type (member types from the real class declaration, casts from the code) via _Generic; strings, containers and pointers to serialisable objects are opaque ids (the pointer value stands for the object; loading yields the id that was stored); the byte-level engine is the subject of units ser_primitives, ser_fillflush, ser_rawbytes
//@ note compared after load (store then load restores the value): fDeclaredInIntSubset, fIsParameter, fIsSpecialChar; NOT compared: nothing; base class XMLEntityDecl: unit ser_cls_XMLEntityDecl
#define VERIF_DEFINE_GHOSTS
#include "verif_prelude.h"
//@ include ser_tape.inc
#define XMLEntityDecl_serialize(e) ENG_BASE(XMLEntityDecl)
//@ struct src/xercesc/validators/DTD/DTDEntityDecl.hpp DTDEntityDecl only=auto

/*@extract src/xercesc/validators/DTD/DTDEntityDecl.cpp DTDEntityDecl::serialize
streamops serEng
method serEng.isStoring => ENG_isStoring
method serEng.isLoading => ENG_isLoading
method serEng.writeSize => ENG_writeSize
method serEng.readSize => ENG_readSize
method serEng.writeString => ENG_writeString
method serEng.readString => ENG_readString
@*/

#define FIELDS(X) X(fDeclaredInIntSubset) X(fIsParameter) X(fIsSpecialChar)

void h_ser_cls_DTDEntityDecl(void)
{
  VERIF_INPUT(SELF); TAPE_INIT();
  FIELDS(SER_FIELD_SAVE)
  verif_thrown = 0;
  TAPE_BEGIN_STORE();
  DTDEntityDecl_serialize(&ENGINE);
  VERIF_INPUT(SELF);                      /* the object that is loaded into: arbitrary contents */
  TAPE_BEGIN_LOAD();
  DTDEntityDecl_serialize(&ENGINE);
  VERIF_CANARY("after store and load");
  __CPROVER_assert(!verif_thrown, "C16: serialize does not throw by itself");
  TAPE_END_CHECK();
  FIELDS(SER_FIELD_CHECK)
}
