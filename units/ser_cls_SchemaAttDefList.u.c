//@ unit ser_cls_SchemaAttDefList
//@ props C16
//@ kind W
//@ def all NL=3
//@ cbmc all --unwind 5 --unwinding-assertions
//@ entry h_ser_cls_SchemaAttDefList
//@ note W: complete for attribute lists of <= NL declarations (the refill loop of the load branch is unwound); the real body of SchemaAttDefList::serialize runs in store mode on a list object in declaration order and then in load mode on an object in the state the deserialisation constructor SchemaAttDefList(MemoryManager*) leaves (fEnum, fList, fArray null, fSize = fCount = 0)
//@ note tape engine (contracts/ser_tape.inc): operator<< / operator>> / writeSize / readSize / writeString / readString and the sub-object serialisers (XTemplateSerializer::storeObject/loadObject, DatatypeValidator::storeDV/loadDV, Base::serialize ...) are trusted stubs that record / check (type tag, value); the tag of a streamed operand comes from its REAL type (member types from the real class declaration, casts from the code) via _Generic; strings, containers and pointers to serialisable objects are opaque ids (the pointer value stands for the object; loading yields the id that was stored); the byte-level engine is the subject of units ser_primitives, ser_fillflush, ser_rawbytes
//@ note model (trusted stubs): the hash table is an id plus LIST_N elements ATT[0..LIST_N); its enumerator yields them in an ARBITRARY order (harness permutation PERM: the hash order of the loaded table is unrelated to the declaration order); allocate(n) hands out a static block of exactly n bytes; class invariant assumed for the stored object: fCount == number of elements of the table, fArray[i] = i-th declaration
//@ note the ORDER of the array is the subject of the strict variant ser_cls_SchemaAttDefList_order
#define VERIF_DEFINE_GHOSTS
#include "verif_prelude.h"
//@ include ser_tape.inc
typedef struct SchemaAttDef { char o; } SchemaAttDef;
#define XMLAttDefList_serialize(e) ENG_BASE(XMLAttDefList)
//@ struct src/xercesc/validators/schema/SchemaAttDefList.hpp SchemaAttDefList only=auto structs=SchemaAttDef

SchemaAttDef ATT[NL]; static char LIST_OBJ; XMLSize_t LIST_N;
struct { XMLSize_t a[NL]; } PERM;
struct { SchemaAttDef *a[NL]; } ORIGBLK;
static SchemaAttDef *BLK1[1], *BLK2[2], *BLK3[3];
struct { XMLSize_t pos; } ENUM_OBJ; int ENUM_NEW, ALLOCS, FREES; void *FREED_LAST;
static MemoryManager* AL_getMemoryManager(void) { return 0; }
static void* ENUM_new(void *list, bool adopt, MemoryManager *mm) { ENUM_NEW++; ENUM_OBJ.pos = 0; __CPROVER_assert(list == (void*)&LIST_OBJ && !adopt, "C16: the enumerator is made over the loaded table, which stays owned by its element declaration / type"); return &ENUM_OBJ; }
static bool ENUM_hasMore(void *e) { return ENUM_OBJ.pos < LIST_N; }
static SchemaAttDef* ENUM_next(void *e) { XMLSize_t k = ENUM_OBJ.pos < NL ? ENUM_OBJ.pos : 0; ENUM_OBJ.pos++; return &ATT[PERM.a[k] < NL ? PERM.a[k] : 0]; }
static void MM_deallocate(void *p) { FREES++; FREED_LAST = p; }
static void* MM_allocate(XMLSize_t n) { ALLOCS++; switch (n) { case 1 * sizeof(void*): return BLK1; case 2 * sizeof(void*): return BLK2; case 3 * sizeof(void*): return BLK3; default: __CPROVER_assert(0, "C16: the array is sized by the stored number of declarations (1..NL slots)"); return 0; } }

/*@extract src/xercesc/validators/schema/SchemaAttDefList.cpp SchemaAttDefList::serialize
sub* new \(getMemoryManager\(\)\) \w+<SchemaAttDef>\( => ENUM_new(
sub* \(getMemoryManager\(\)\)->deallocate\( => MM_deallocate(
sub* \(getMemoryManager\(\)\)->allocate\( => MM_allocate(
sub* &fEnum->nextElement\(\) => ENUM_next(fEnum)
streamops serEng
method serEng.isStoring => ENG_isStoring
method serEng.isLoading => ENG_isLoading
method serEng.writeSize => ENG_writeSize
method serEng.readSize => ENG_readSize
method fEnum->hasMoreElements => ENUM_hasMore
call getMemoryManager => AL_getMemoryManager
@*/

void h_ser_cls_SchemaAttDefList(void)
{
  _Bool have_list;
  VERIF_INPUT(SELF); VERIF_INPUT(LIST_N); VERIF_INPUT(PERM); VERIF_INPUT(have_list); TAPE_INIT();
  VERIF_ASSUME(LIST_N <= NL && (have_list || LIST_N == 0));
  /* PERM is a permutation of 0..LIST_N-1 */
  for (XMLSize_t i = 0; i < NL; i++) for (XMLSize_t j = 0; j < NL; j++) if (i < LIST_N && j < i) VERIF_ASSUME(PERM.a[i] < LIST_N && PERM.a[j] < LIST_N && PERM.a[i] != PERM.a[j]);
  if (LIST_N == 1) VERIF_ASSUME(PERM.a[0] == 0);
  /* the stored object: table id, count, array in declaration order */
  fList = have_list ? (void*)&LIST_OBJ : (void*)0; fCount = LIST_N; fArray = ORIGBLK.a;
  for (XMLSize_t i = 0; i < NL; i++) ORIGBLK.a[i] = &ATT[i];
  VERIF_ASSUME(fSize >= fCount);
  verif_thrown = 0;
  TAPE_BEGIN_STORE();
  SchemaAttDefList_serialize(&ENGINE);
  /* the object that is loaded into: as the deserialisation constructor leaves it */
  fEnum = 0; fList = 0; fArray = 0; fSize = 0; fCount = 0;
  ENUM_NEW = 0; ALLOCS = 0; FREES = 0;
  TAPE_BEGIN_LOAD();
  SchemaAttDefList_serialize(&ENGINE);
  VERIF_CANARY("after store and load");
  __CPROVER_assert(!verif_thrown, "C16: serialize does not throw by itself");
  TAPE_END_CHECK();
  __CPROVER_assert(fList == (have_list ? (void*)&LIST_OBJ : (void*)0), "C16: store then load restores the field fList");
  __CPROVER_assert(fCount == LIST_N, "C16: store then load restores the number of attribute declarations (fCount)");
  __CPROVER_assert(!have_list || (ENUM_NEW == 1 && fEnum == (void*)&ENUM_OBJ), "C16: the enumerator, which is not serialised, is re-created over the loaded table");
  if (LIST_N > 0) {
    __CPROVER_assert(fSize == LIST_N && ALLOCS == 1 && FREES == 1 && FREED_LAST == 0 && fArray == (LIST_N == 1 ? BLK1 : LIST_N == 2 ? BLK2 : BLK3),
                     "C16: the array is re-created with exactly one slot per stored declaration");
    for (XMLSize_t i = 0; i < NL; i++) if (i < LIST_N)
      __CPROVER_assert(fArray[i] == &ATT[PERM.a[i]], "C16: after load the array holds every declaration of the loaded table exactly once (the enumeration is a permutation)");
#ifdef SER_STRICT_ORDER
    for (XMLSize_t i = 0; i < NL; i++) if (i < LIST_N)
      __CPROVER_assert(fArray[i] == &ATT[i], "C16: store then load restores the ORDER of the attribute list (getAttDef(i) is the same declaration as before)");
#endif
    if (LIST_N == NL) VERIF_CANARY("full list");
  }
}
