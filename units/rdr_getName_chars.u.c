//@ unit rdr_getName_chars
//@ props C02
//@ kind P
//@ def quick kCharBufSize=4
//@ def thorough kCharBufSize=8
//@ timeout quick=600 thorough=1800
//@ rebind src/xercesc/internal/XMLReader.hpp kCharBufSize
//@ enforce XMLReader_getName
//@ replace XMLReader_refreshCharBuffer
//@ replace XMLBuffer_append_n
//@ replace XMLBuffer_isEmpty
//@ replace XMLReader_isNameChar
//@ replace XMLReader_isFirstNameChar
//@ cbmc all --arrays-uf-always
//@ entry h_getName_chars
//@ note isNameChar / isFirstNameChar are replaced by contracts over arbitrary (nondet) predicate tables; the tables behind them are proved against the XML productions in the chartab_* units
//@ note abstract XMLBuffer: length assumed <= 2^40 characters (machine arithmetic; OutOfMemory not modelled)
//@ note refreshCharBuffer is replaced by the contract proved in unit rdr_refreshCharBuffer (the members it does not mention there -- raw buffer, offsets -- are outside this unit's struct)
#define VERIF_DEFINE_GHOSTS
#include "verif_prelude.h"
//@ struct src/xercesc/internal/XMLReader.hpp XMLReader only=auto
//@ include XMLReader_ri.inc
//@ include XMLBuffer_abs.inc

/* the two character-class predicates as arbitrary (nondet) total functions XMLCh -> bool */
_Bool NAMECH[65536]; _Bool FIRSTNAMECH[65536];
#define PRED_namechar(c) (NAMECH[(XMLCh)(c)])
#define PRED_firstnamechar(c) (FIRSTNAMECH[(XMLCh)(c)])
/*@extract src/xercesc/internal/XMLReader.hpp XMLReader::isNameChar
declonly
contract
__CPROVER_requires(1)
__CPROVER_assigns()
__CPROVER_ensures(__CPROVER_return_value == PRED_namechar(toCheck))
@*/
/*@extract src/xercesc/internal/XMLReader.hpp XMLReader::isFirstNameChar
declonly
contract
__CPROVER_requires(1)
__CPROVER_assigns()
__CPROVER_ensures(__CPROVER_return_value == PRED_firstnamechar(toCheck))
@*/

/* spec: a UTF-16 unit that may continue a Name: a NameChar, or one half of a supplementary NameChar
   (XML 1.0 5th ed. [4a]: #x10000-#xEFFFF  =  lead D800..DB7F + trail DC00..DFFF) */
#define IS_LEAD_NAME(c)  ((c) >= 0xD800 && (c) <= 0xDB7F)
#define IS_TRAIL(c)      ((c) >= 0xDC00 && (c) <= 0xDFFF)

XMLSize_t BUFLEN0;  /* ghost: buffer length at function entry (harness-owned, in no assigns clause) */
#define NAMEISH(c) (PRED_namechar(c) || PRED_firstnamechar(c) || IS_LEAD_NAME(c) || IS_TRAIL(c))

/*@extract src/xercesc/internal/XMLReader.cpp XMLReader::getName
ret false
call refreshCharBuffer => XMLReader_refreshCharBuffer
call isNameChar => XMLReader_isNameChar
call isFirstNameChar => XMLReader_isFirstNameChar
method toFill.append => XMLBuffer_append_n
method toFill.isEmpty => XMLBuffer_isEmpty
throws XMLReader_refreshCharBuffer
contract
__CPROVER_requires(RI_RDR && !verif_thrown && G == 0 /* instantiates the universally quantified ghost of the refill contract at the look-ahead position */)
__CPROVER_requires(BUFLEN0 == BUFLEN)
__CPROVER_requires(BUFLEN <= VERIF_BUFLEN_MAX && fCurCol < ((XMLFileLoc)1 << 62))
__CPROVER_assigns(fCharIndex, fCharsAvail, fNoMore, fCurCol, __CPROVER_object_upto(fCharBuf, sizeof(fCharBuf)), BUFLEN, BUFCH, verif_thrown, verif_throw_type, verif_throw_code)
/* C01: reader invariant re-established on every exit (also when the refill threw) */
__CPROVER_ensures(RI_RDR)
__CPROVER_ensures(BUFLEN >= __CPROVER_old(BUFLEN))
/* C02: only name characters (or halves of supplementary name characters) are ever appended */
__CPROVER_ensures((!verif_thrown && GA >= __CPROVER_old(BUFLEN) && GA < BUFLEN) ==> NAMEISH(BUFCH))
/* C02 maximality: on a normal return the next unread character, if there is one and it is not a surrogate, does not continue the name */
__CPROVER_ensures((!verif_thrown && __CPROVER_return_value && fCharIndex < fCharsAvail) ==> !(PRED_namechar(fCharBuf[fCharIndex]) && !(fCharBuf[fCharIndex] >= 0xD800 && fCharBuf[fCharIndex] <= 0xDFFF)))
__CPROVER_ensures(__CPROVER_return_value == (BUFLEN != 0) || !__CPROVER_return_value)
loop 1
__CPROVER_assigns(fCharIndex, fCharsAvail, fNoMore, fCurCol, charIndex_start, __CPROVER_object_upto(fCharBuf, sizeof(fCharBuf)), BUFLEN, BUFCH, verif_thrown, verif_throw_type, verif_throw_code)
__CPROVER_loop_invariant(RI_RDR && charIndex_start <= fCharIndex && !verif_thrown)
__CPROVER_loop_invariant(BUFLEN >= __CPROVER_loop_entry(BUFLEN) && BUFLEN >= BUFLEN0 && BUFLEN <= VERIF_BUFLEN_MAX)
__CPROVER_loop_invariant((GA >= BUFLEN0 && GA < BUFLEN) ==> NAMEISH(BUFCH))
__CPROVER_loop_invariant((GA >= BUFLEN && GA - BUFLEN < fCharIndex - charIndex_start) ==> NAMEISH(fCharBuf[charIndex_start + (GA - BUFLEN)]))
loop 2
__CPROVER_assigns(fCharIndex, fCharsAvail, fNoMore, fCurCol, charIndex_start, __CPROVER_object_upto(fCharBuf, sizeof(fCharBuf)), BUFLEN, BUFCH, verif_thrown, verif_throw_type, verif_throw_code)
__CPROVER_loop_invariant(RI_RDR && charIndex_start <= fCharIndex && !verif_thrown)
__CPROVER_loop_invariant(BUFLEN >= __CPROVER_loop_entry(BUFLEN) && BUFLEN >= BUFLEN0 && BUFLEN <= VERIF_BUFLEN_MAX)
__CPROVER_loop_invariant((GA >= BUFLEN0 && GA < BUFLEN) ==> NAMEISH(BUFCH))
__CPROVER_loop_invariant((GA >= BUFLEN && GA - BUFLEN < fCharIndex - charIndex_start) ==> NAMEISH(fCharBuf[charIndex_start + (GA - BUFLEN)]))
@*/

struct XMLBuffer TOFILL;
void h_getName_chars(void)
{
  VERIF_INPUT(SELF);
  verif_thrown = 0;
  _Bool token; VERIF_INPUT(token);
  XMLReader_getName(&TOFILL, token);
  VERIF_CANARY("after call");
}
