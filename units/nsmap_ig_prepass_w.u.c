//@ unit nsmap_ig_prepass_w
//@ props C06 C08
//@ kind W
//@ def quick NATT=3
//@ def thorough NATT=5
//@ cbmc all --unwind 7 --unwinding-assertions
//@ entry h_prepass
//@ note fragment of IGXMLScanner::scanRawAttrListforNameSpaces (the first pass over the raw attribute list that collects the namespace declarations of a start tag before any name is resolved), verified as a function of its own: complete for <= NATT attributes over all name kinds (xmlns, xmlns:p, xmlnsx, xmlnsx:a, p:a, a) and value kinds
//@ note trusted stubs: raw names are kinds, compareNString(name, "xmlns:", 6) / equals(name, "xmlns") are kind tests; updateNSMap (proved in nsmap_ig_l) is a recording sink; the later passes (xsi:schemaLocation, xsi:type, xsi:nil) are not part of the fragment
#define VERIF_DEFINE_GHOSTS
#include "verif_prelude.h"
static void SC_prepass(XMLSize_t attCount);
//@ include nsmap_prepass_harness.inc

/*@extract src/xercesc/internal/IGXMLScanner2.cpp IGXMLScanner::scanRawAttrListforNameSpaces
as SC_prepass
fragment for \(XMLSize_t index\b[^)]*\) ||| @balanced
sig static void SC_prepass(XMLSize_t attCount)
sub* fRawAttrList->elementAt\( => RL_elementAt(
sub* const XMLCh\* rawPtr = => int rawPtr =
sub* const XMLCh\* valuePtr = => int valuePtr =
sub* curPair->getKey\(\) => curPair->key
sub* curPair->getValue\(\) => curPair->value
sub* XMLString::compareNString\((\w+), XMLUni::fgXMLNSColonString, (\w+)\) => ST_cmpN_xmlnsColon(\1, \2)
sub* XMLString::equals\((\w+), XMLUni::fgXMLNSString\) => ((\1) == KK_XMLNS)
sub* XMLString::equals\((\w+), SchemaSymbols::fgURI_XSI\) => ((\1) == V_XSI)
sub* updateNSMap\( => SC_updateNSMap(
@*/
