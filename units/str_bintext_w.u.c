//@ unit str_bintext_w
//@ props C01
//@ kind W
//@ def quick VBITS=14
//@ def thorough VBITS=20
//@ cbmc all --unwind 23 --unwinding-assertions
//@ entry h_str_bintext_w
//@ note W: radix 10, every value below 2^VBITS (quick 14 bits, thorough 20 bits: the div/mod chain against Horner multiplication is a hard SAT instance -- 32 bits time out; the code has no value-dependent branch besides the loop exit, larger values only add iterations), maxChars = 20 (every decimal result fits); loops fully unwound (at most 20 digits), unwinding assertions on
//@ note complements str_bintext (P), which proves bounds, digit count and digit characters for every radix but leaves the decimal digit VALUES open: here the output is read back by Horner's rule and compared with the value
#define VERIF_DEFINE_GHOSTS
#include "verif_prelude.h"

/*@extract src/xercesc/util/XMLString.cpp XMLString::binToText
as XMLString_binToTextUL
params const unsigned long toFormat , XMLCh* const toFill
@*/

struct { XMLCh a[21]; } OUT;
void h_str_bintext_w(void)
{
  unsigned long v;
  VERIF_INPUT(v); VERIF_INPUT(OUT);
#if VBITS < 64
  VERIF_ASSUME(v < (1ul << VBITS));
#endif
  verif_thrown = 0;
  XMLString_binToTextUL(v, OUT.a, 20, 10, (MemoryManager *)0);
  VERIF_CANARY("after binToText");
  __CPROVER_assert(!verif_thrown, "C01: 20 characters hold every decimal unsigned long");
  /* read back: value of the digit string by Horner's rule (no overflow: the string spells v) */
  unsigned long r = 0; XMLSize_t i = 0; int ok = 1;
  while (i < 21 && OUT.a[i] != 0) {
    XMLCh c = OUT.a[i];
    if (c < chDigit_0 || c > chDigit_9) ok = 0;
    r = r * 10 + (unsigned long)(c - chDigit_0);
    i++;
  }
  __CPROVER_assert(ok && i >= 1 && i <= 20, "C01: binToText radix 10 writes 1..20 decimal digits and a terminator");
  __CPROVER_assert(r == v, "C01: the decimal digits spell the value");
  __CPROVER_assert(i == 1 || OUT.a[0] != chDigit_0, "C01: no leading zero");
}
