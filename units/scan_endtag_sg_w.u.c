//@ unit scan_endtag_sg_w
//@ props C02 C03 C01
//@ kind W
//@ def quick NIN=5 NE=2
//@ def thorough NIN=9 NE=4
//@ cbmc all --unwind 12 --unwinding-assertions
//@ entry h_scanEndTag
//@ note fragment of SGXMLScanner::scanEndTag: the syntax part, from the start of the function to the UnterminatedEndTag check (the rest -- PSVI, content-model validation, endElement, grammar restore -- calls into validators and is outside the extractable subset), verified as a function of its own
//@ note W: complete for every character sequence of length <= NIN after '</', every open-element name of length <= NE, stack depth 0..2, DTD and schema grammar type, reader number equal or different
//@ note the element stack (2 levels), the element declarations, the reader (one entity, contracts/scanner_reader2.inc) and emitError are trusted models (contracts/scan_endtag_harness.inc); getFullName is read as a member of the declaration model; getCurrentSchemaElemName returns the open element's raw name
#define VERIF_DEFINE_GHOSTS
#include "verif_prelude.h"
//@ enum src/xercesc/validators/common/Grammar.hpp GrammarType Grammar_ scope=Grammar
//@ include scan_endtag_harness.inc
/* PSVI bookkeeping inside the fragment: sinks */
struct { bool fErrorOccurred; } fPSVIElemContext; struct ValueStackOf_bool { char o; } ERRSTACK, *fErrorStack = &ERRSTACK;
static bool ERRSTACK_pop(struct ValueStackOf_bool *s) { return false; }

/*@extract src/xercesc/internal/SGXMLScanner.cpp SGXMLScanner::scanEndTag
as SG_scanEndTag_syntax
fragment (?<=\{)\s*(?://[^\n]*\n\s*)*gotData = true; ||| emitError\s*\(\s*XMLErrs::UnterminatedEndTag[^;]*;\s*\}
sig void SG_scanEndTag_syntax(bool& gotData)
method fElemStack.isEmpty => ES_isEmpty
method fErrorStack->pop => ERRSTACK_pop
method fElemStack.popTop => ES_popTop
method fElemStack.topElement => ES_topElement
method fElemStack.getCurrentURI => ES_getCurrentURI
method fElemStack.getCurrentSchemaElemName => ES_getCurrentSchemaElemName
sub* ->getFullName\(\) => ->fullName
sub* fReaderMgr\.skippedStringLong\( => RM_skippedStringLong(
sub* fReaderMgr\.skipPastChar\( => RM_skipPastChar(
sub* fReaderMgr\.skipPastSpaces\( => RM_skipPastSpaces(
sub* fReaderMgr\.skippedChar\( => RM_skippedChar(
sub* fReaderMgr\.getCurrentReaderNum\( => RM_getCurrentReaderNum(
sub* (?<![\w>])emitError\s*\( => SC_emitErrorV(
@*/
#define SC_ENDTAG_CALL SG_scanEndTag_syntax
#define SC_ENDTAG_SCHEMA 1
#define SC_ENDTAG_POPS(m) ((m) ? 0 : 1)
//@ include scan_endtag_harness2.inc
