//@ unit attnorm_sg_raw
//@ props C03 C01
//@ kind W
//@ def quick NV=5
//@ def thorough NV=8
//@ cbmc all --unwind 11 --unwinding-assertions
//@ entry h_attnorm
//@ note W: complete for every raw attribute value of length < NV (all 16-bit units, incl. escape markers), every declared type, standalone/validate flags
//@ note stubs: XMLAttDef accessors, reader isWhitespace = production [3] S, XMLBuffer as a concrete array, emitError counters (trusted harness models)
#define VERIF_DEFINE_GHOSTS
#include "verif_prelude.h"
//@ include attnorm_common.inc

/*@extract src/xercesc/internal/SGXMLScanner.cpp SGXMLScanner::normalizeAttRawValue
as SC_normalizeAttRawValue
ret false
sub fReaderMgr\.getCurrentReader\(\)->isWhitespace\( => RD_isWhitespace(
sub (?<![\w>])emitError\((XMLErrs::\w+), attrName\) => SC_emitError(\1)
method toFill.reset => XB_reset
method toFill.append => XB_append
@*/
#define SC_CALL(def, val, out) SC_normalizeAttRawValue((const XMLCh*)0, val, out)
#define HAS_TYPE 0
//@ include attnorm_harness.inc
