//@ unit c11_range_compact
//@ props C11
//@ kind B
//@ def quick NR=3
//@ def thorough NR=3
//@ cbmc quick --unwind 5 --unwinding-assertions
//@ cbmc thorough --unwind 5 --unwinding-assertions
//@ entry h_c11_range_compact
//@ note B: bounded stand-in (never a proof of C11): every list of up to NR (quick 3, thorough 4) well-formed ranges lo <= hi over 0..0x10FFFF in any order, ghost code point c anywhere in 0..0x10FFFF; loops unwound with unwinding assertions. Writing inductive invariants for the sort / compaction loops is out of budget (DESIGN C11).
//@ note checked: sortRanges + compactRanges keep the denoted set (c in this' <=> c in this), the result is sorted, pairwise disjoint and non-adjacent, the element count stays even and within the allocation (exact-size allocation model)
#define VERIF_DEFINE_GHOSTS
#include "verif_prelude.h"
//@ include RangeToken_c11.inc

struct RTok A;

void h_c11_range_compact(void)
{
  unsigned n; XMLInt32 c;
  ARENA_INPUT() VERIF_INPUT(n); VERIF_INPUT(c);
  VERIF_ASSUME(n >= 1 && n <= NR && c >= 0 && c <= UTF16_MAX);
  mk_token(&A, T_RANGE, n, 2 * NR, 0, 0);     /* allocation of a constant size: symbolic sizes make cbmc's memory model explode (probed: 11 GB) */
  WELLFORMED(A.rt.fRanges, n)
  int before = spec_member(A.rt.fRanges, 2 * n, c);
  verif_thrown = 0;
  RangeToken_sortRanges(&A.rt);
  __CPROVER_assert(A.rt.fSorted && A.rt.fElemCount == 2 * n, "C11(bounded): sortRanges keeps the element count and marks the token sorted");
  __CPROVER_assert(spec_member(A.rt.fRanges, A.rt.fElemCount, c) == before, "C11(bounded): sortRanges keeps the denoted set");
  for (unsigned k = 0; k + 1 < n; k++)
    __CPROVER_assert(A.rt.fRanges[2 * k] < A.rt.fRanges[2 * k + 2] || (A.rt.fRanges[2 * k] == A.rt.fRanges[2 * k + 2] && A.rt.fRanges[2 * k + 1] <= A.rt.fRanges[2 * k + 3]), "C11(bounded): sortRanges orders the pairs by (start, end)");
  RangeToken_compactRanges(&A.rt);
  VERIF_CANARY("after call");
  __CPROVER_assert(!verif_thrown, "C11(bounded): compactRanges does not hit its internal-error branch on a sorted list");
  __CPROVER_assert(A.rt.fElemCount % 2 == 0 && A.rt.fElemCount >= 2 && A.rt.fElemCount <= 2 * n, "C11(bounded): compactRanges: even element count, not larger than before");
  __CPROVER_assert(spec_member(A.rt.fRanges, A.rt.fElemCount, c) == before, "C11(bounded): compactRanges keeps the denoted set (c in this' <=> c in this)");
  for (unsigned k = 0; 2 * k + 3 < A.rt.fElemCount; k++)
    __CPROVER_assert(A.rt.fRanges[2 * k + 1] + 1 < A.rt.fRanges[2 * k + 2], "C11(bounded): after compactRanges the ranges are sorted, disjoint and non-adjacent");
  for (unsigned k = 0; 2 * k + 1 < A.rt.fElemCount; k++)
    __CPROVER_assert(A.rt.fRanges[2 * k] <= A.rt.fRanges[2 * k + 1], "C11(bounded): after compactRanges every range is well-formed");
}
