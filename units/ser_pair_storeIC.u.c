//@ unit ser_pair_storeIC
//@ props C16
//@ kind L
//@ entry h_ser_pair_storeIC
//@ note L: loop-free; the real bodies of IdentityConstraint::storeIC and IdentityConstraint::loadIC (the static pair the class-level serialize() methods use for their IdentityConstraint* members) on the tape engine: storeIC(p) in store mode, then loadIC() in load mode; p is null or an object of ANY concrete kind (IC_Unique, IC_Key, IC_KeyRef; symbolic)
//@ note tape engine (contracts/ser_tape.inc): operator<< / operator>> / writeSize / readSize / writeString / readString and the sub-object serialisers (XTemplateSerializer::storeObject/loadObject, DatatypeValidator::storeDV/loadDV, Base::serialize ...) are trusted stubs that record / check (type tag, value); the tag of a streamed operand comes from its REAL type (member types from the real class declaration, casts from the code) via _Generic; strings, containers and pointers to serialisable objects are opaque ids (the pointer value stands for the object; loading yields the id that was stored); the byte-level engine is the subject of units ser_primitives, ser_fillflush, ser_rawbytes
//@ note what `serEng << p` writes is the DYNAMIC class of p (XSerializeEngine::write(XSerializable*) stores the class name of its prototype) and `serEng >> x` with x of static type X* accepts only that class: the unit's ENG_PUT gives an object whose getType() is E the class tag of the class that returns E (ICType_UNIQUE <-> IC_Unique, ICType_KEY <-> IC_Key, ICType_KEYREF <-> IC_KeyRef: the specification, from the classes' own getType()), ENG_GET takes the tag from the static type of the local variable in the matching case of loadIC
#define VERIF_DEFINE_GHOSTS
#include "verif_prelude.h"
//@ include ser_tape.inc
#undef IdentityConstraint_storeIC   /* the tape stubs of the pair (if any): here the real bodies are extracted */
#undef IdentityConstraint_loadIC
typedef void IdentityConstraint;         /* so that every concrete X* converts to the return type, as in C++ */
typedef int ICType; typedef struct IC_Unique IC_Unique; typedef struct IC_Key IC_Key; typedef struct IC_KeyRef IC_KeyRef;
//@ enum src/xercesc/validators/schema/identity/IdentityConstraint.hpp ICType - scope=IdentityConstraint
struct obj { int type; } THE_OBJ;
static int OBJ_getType(const void *p) { return ((const struct obj*)p)->type; }
static int OBJ_class_tag(const void *p) { switch (OBJ_getType(p)) { case ICType_UNIQUE: return TG_OBJ_IC_Unique; case ICType_KEY: return TG_OBJ_IC_Key; case ICType_KEYREF: return TG_OBJ_IC_KeyRef; default: return TG_OBJ_ANY; } }
#undef ENG_PUT
#define ENG_PUT(eng, x) { TAPE_R = _Generic((x), int: TAPE_mk_long, default: TAPE_mk_ptr)(x); \
  TAPE_R.tag = _Generic((x), int: TG_INT, default: OBJ_class_tag((const void*)(uintptr_t)(x))); TAPE_APPEND(#x) }

/*@extract src/xercesc/validators/schema/identity/IdentityConstraint.cpp IdentityConstraint::storeIC
streamops serEng
method ic->getType => OBJ_getType
@*/
/*@extract src/xercesc/validators/schema/identity/IdentityConstraint.cpp IdentityConstraint::loadIC
sub* (case\s+\w+\s*:) => \1 ;
streamops serEng
@*/

void h_ser_pair_storeIC(void)
{
  _Bool have;
  VERIF_INPUT(have); VERIF_INPUT(THE_OBJ); TAPE_INIT();
  VERIF_ASSUME(THE_OBJ.type == ICType_UNIQUE || THE_OBJ.type == ICType_KEY || THE_OBJ.type == ICType_KEYREF);
  void *p = have ? (void*)&THE_OBJ : (void*)0;
  verif_thrown = 0;
  TAPE_BEGIN_STORE();
  IdentityConstraint_storeIC(&ENGINE, p);
  TAPE_BEGIN_LOAD();
  void *back = IdentityConstraint_loadIC(&ENGINE);
  VERIF_CANARY("after store and load");
  __CPROVER_assert(!verif_thrown, "C16: storeIC / loadIC do not throw by themselves");
  TAPE_END_CHECK();
  __CPROVER_assert(back == p, "C16: loadIC yields the object storeIC was given (null or the stored object -- for every concrete kind)");
  if (!have) VERIF_CANARY("null"); if (have && THE_OBJ.type == ICType_KEYREF) VERIF_CANARY("object");
}
