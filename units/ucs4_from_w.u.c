//@ unit ucs4_from_w
//@ props C05 C01 C04
//@ kind W
//@ def quick NV=2 MC=3
//@ def thorough NV=3 MC=5
//@ cbmc all --unwind 6 --unwinding-assertions
//@ entry h_ucs4_from_w
//@ note W: complete for every source of <= NV 32-bit values plus 0..3 dangling bytes, every maxChars <= MC and both byte orders (loop fully unwound, unwinding assertions on); the loop body reads one 32-bit value and the three cursors only
//@ note target model little-endian: fSwapped == false decodes UCS-4LE, fSwapped == true UCS-4BE; the spec side reads the source BYTES (D99/D100 UTF-32BE/LE encoding schemes)
//@ note postcondition "values above 10FFFF and D800..DFFF are rejected" comes from the property statement and D90 (UTF-32 encoding form = scalar values only), not from the code
#define VERIF_DEFINE_GHOSTS
#include "verif_prelude.h"
#include "unicode.h"

//@ struct src/xercesc/util/XMLUCS4Transcoder.hpp XMLUCS4Transcoder only=auto

/*@extract src/xercesc/util/BitOps.hpp BitOps::swapBytes
inclass
static
params const XMLUInt32
as BitOps_swapBytes
@*/

/*@extract src/xercesc/util/XMLUCS4Transcoder.cpp XMLUCS4Transcoder::transcodeFrom
@*/

struct { XMLByte a[4 * NV + 3]; } SRC;
struct { XMLCh a[MC]; } OUT;
struct { unsigned char a[MC]; } SZ;

void h_ucs4_from_w(void)
{
  XMLSize_t n, m, be = 0;
  VERIF_INPUT(n); VERIF_INPUT(m); VERIF_INPUT(SRC); VERIF_INPUT(SELF);   /* all byte strings, both byte orders */
  VERIF_ASSUME(n <= 4 * NV + 3 && m <= MC);
  XMLByte *src = SRC.a + (4 * NV + 3 - n);   /* end-aligned: reading past srcCount leaves the object */
  XMLCh *out = OUT.a + (MC - m);             /* end-aligned: writing past maxChars leaves the object */
  unsigned char *sz = SZ.a + (MC - m);
  verif_thrown = 0;

  XMLSize_t r = XMLUCS4Transcoder_transcodeFrom(src, n, out, m, &be, sz);
  VERIF_CANARY("after call");

  /* reference decoding: D90 (UTF-32 = scalar values), D99/D100 byte order, D91 for the UTF-16 side */
  XMLSize_t i = 0, o = 0, nvals = n / 4;
  int stop = 0;          /* 1: pair does not fit, deferred; 2: not a scalar value at i */
  while (i < nvals && o < m && !stop) {
    const XMLByte *b = src + 4 * i;
    uint32_t v = fSwapped ? (((uint32_t)b[0] << 24) | ((uint32_t)b[1] << 16) | ((uint32_t)b[2] << 8) | b[3])
                          : (((uint32_t)b[3] << 24) | ((uint32_t)b[2] << 16) | ((uint32_t)b[1] << 8) | b[0]);
    if (!spec_is_scalar(v)) { stop = 2; break; }
    uint16_t u[2];
    XMLSize_t k = (XMLSize_t)spec_utf16_units(v, u);
    if (o + k > m) { stop = 1; break; }
    if (!verif_thrown) {
      __CPROVER_assert(r >= o + k, "C05: every scalar value that is available and fits is decoded");
      if (r >= o + k) {
        if (k == 1) {
          __CPROVER_assert(out[o] == u[0], "C05: BMP scalar decoded exactly, in the byte order of the encoding scheme");
          __CPROVER_assert(sz[o] == 4, "C04: charSizes records 4 source bytes");
        } else {
          __CPROVER_assert(out[o] == u[0] && out[o + 1] == u[1], "C05: supplementary scalar decoded to exactly its surrogate pair (D91)");
          __CPROVER_assert(sz[o] == 4 && sz[o + 1] == 0, "C04: charSizes of a pair is (4, 0)");
        }
      }
    }
    o += k;
    i += 1;
  }
  if (stop == 2) {
    __CPROVER_assert(verif_thrown || (i > 0 && r == o && be == 4 * i),
                     "C05: a UCS-4 value above 10FFFF or in D800..DFFF is rejected (or left unconsumed behind good data), never decoded");
  } else {
    __CPROVER_assert(!verif_thrown, "C05: well-formed UCS-4 never throws");
    __CPROVER_assert(r == o, "C05: number of UTF-16 units produced");
    __CPROVER_assert(be == 4 * i, "C04: bytesEaten = whole values only; dangling bytes and a pair that does not fit are not consumed");
  }
  __CPROVER_assert(verif_thrown || (r <= m && be <= n), "C01: T_iface bounds");
}
