//@ unit hexbin
//@ props C09 C01
//@ kind W
//@ def quick NB=6
//@ def thorough NB=10
//@ cbmc quick --unwind 16 --unwinding-assertions
//@ cbmc thorough --unwind 24 --unwinding-assertions
//@ entry h_hexbin
//@ note W: complete for every NUL-terminated XMLCh string of length 0..NB (quick 6, thorough 10; every 16-bit unit value, so also characters far beyond the 255-entry look-up table); loops fully unwound, unwinding assertions on
//@ note specification: XML Schema Part 2 3.2.15.1 hexBinary lexical space = ([0-9a-fA-F]{2})*, value = the octets, 3.2.15.2 canonical form = upper-case digits. decodeToXMLByte reports the empty literal by null (callers special-case it), isArrayByteHex / getDataLength accept it (length 0).
//@ note allocation model: verif_alloc(n) = fresh object of exactly n bytes, never fails (manager->allocate mapped by sub rules; ArrayJanitor dropped)
#define VERIF_DEFINE_GHOSTS
#include <stdlib.h>
#include "verif_prelude.h"
#include "xsd_lexical.h"
//@ table src/xercesc/util/HexBin.cpp BASELENGTH asenum
//@ table src/xercesc/util/HexBin.cpp hexNumberTable

static void *verif_alloc(size_t n) { void *p = malloc(n); __CPROVER_assume(p != 0); return p; }
/* ISO C 7.21.2.1 memcpy as a plain byte loop: cbmc 6.11's built-in model loses the copied bytes when both the size and the
   destination object's size are symbolic (probed: replicate() of a symbolic-length string came back unterminated) */
void *memcpy(void *dst, const void *src, size_t n)
{
  for (size_t i = 0; i < n; i++) ((char *)dst)[i] = ((const char *)src)[i];
  return dst;
}

/*@extract src/xercesc/util/XMLString.hpp XMLString::stringLen
params const XMLCh* const src
@*/
/*@extract src/xercesc/util/XMLString.hpp XMLString::replicate
params const XMLCh* const toRep, MemoryManager
call stringLen => XMLString_stringLen
sub manager->allocate\( => verif_alloc(
@*/
/*@extract src/xercesc/util/XMLString.cpp XMLString::upperCaseASCII
@*/
/*@extract src/xercesc/util/HexBin.cpp HexBin::isHex
constref-byvalue
@*/
/*@extract src/xercesc/util/HexBin.cpp HexBin::isArrayByteHex
call isHex => HexBin_isHex
@*/
/*@extract src/xercesc/util/HexBin.cpp HexBin::getDataLength
call isArrayByteHex => HexBin_isArrayByteHex
@*/
/*@extract src/xercesc/util/HexBin.cpp HexBin::getCanonicalRepresentation
call getDataLength => HexBin_getDataLength
@*/
/*@extract src/xercesc/util/HexBin.cpp HexBin::decodeToXMLByte
sub manager->allocate\( => verif_alloc(
sub ArrayJanitor<XMLByte> janFill\([^;]*\); =>
sub janFill\.release\(\); =>
@*/

struct { XMLCh a[NB + 1]; } IN;

void h_hexbin(void)
{
  XMLSize_t n;
  VERIF_INPUT(IN); VERIF_INPUT(n);
  VERIF_ASSUME(n <= NB);
  XMLCh *s = IN.a + (NB - n);
  VERIF_ASSUME(s[n] == 0);
  for (XMLSize_t i = 0; i < n; i++) VERIF_ASSUME(s[i] != 0);
  /* reference */
  int ok = (n % 2 == 0);
  for (XMLSize_t i = 0; i < n; i++) if (spec_hex_value(s[i]) < 0) ok = 0;
  verif_thrown = 0;
  bool is = HexBin_isArrayByteHex(s);
  int len = HexBin_getDataLength(s);
  XMLByte *d = HexBin_decodeToXMLByte(s, 0);
  XMLCh *c = HexBin_getCanonicalRepresentation(s, 0);
  VERIF_CANARY("after call");
  __CPROVER_assert(!verif_thrown, "C01: HexBin reports errors by its result, not by exceptions");
  __CPROVER_assert((is != 0) == (ok != 0), "C09: HexBin::isArrayByteHex accepts exactly ([0-9a-fA-F]{2})*");
  __CPROVER_assert(len == (ok ? (int)(n / 2) : -1), "C09: HexBin::getDataLength = number of octets, -1 outside the lexical space");
  __CPROVER_assert((d != 0) == (ok && n > 0), "C09: HexBin::decodeToXMLByte succeeds exactly on non-empty hexBinary literals");
  if (d != 0) {
    for (XMLSize_t k = 0; k < n / 2; k++)
      __CPROVER_assert(d[k] == (XMLByte)((spec_hex_value(s[2 * k]) << 4) | spec_hex_value(s[2 * k + 1])), "C09: HexBin::decodeToXMLByte: octet = 16 * first digit + second digit");
    __CPROVER_assert(d[n / 2] == 0, "C01: HexBin::decodeToXMLByte: result is terminated");
  }
  __CPROVER_assert((c != 0) == (ok != 0), "C09: HexBin::getCanonicalRepresentation exists exactly for valid literals");
  if (c != 0) {
    for (XMLSize_t k = 0; k < n; k++) {
      __CPROVER_assert(spec_hex_value(c[k]) == spec_hex_value(s[k]), "C09: canonical hexBinary is value-preserving");
      __CPROVER_assert(!(c[k] >= 'a' && c[k] <= 'f'), "C09: canonical hexBinary has no lower-case digit");
    }
    __CPROVER_assert(c[n] == 0, "C01: canonical hexBinary is terminated");
    /* idempotent: the canonical form of the canonical form is itself */
    XMLCh *cc = HexBin_getCanonicalRepresentation(c, 0);
    __CPROVER_assert(cc != 0, "C09: canonical hexBinary is valid");
    if (cc != 0) for (XMLSize_t k = 0; k <= n; k++) __CPROVER_assert(cc[k] == c[k], "C09: canonical hexBinary is idempotent");
  }
}
