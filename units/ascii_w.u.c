//@ unit ascii_w
//@ props C05 C01 C04
//@ kind W
//@ def quick NB=4 MC=4
//@ def thorough NB=6 MC=6
//@ def all SB_LIMIT=128 SB_FROM=XMLASCIITranscoder_transcodeFrom SB_TO=XMLASCIITranscoder_transcodeTo SB_CAN=XMLASCIITranscoder_canTranscodeTo
//@ cbmc all --unwind 8 --unwinding-assertions
//@ entry h_sbcs_w
//@ note W: complete for every byte / unit string of length <= NB, every maxChars / maxBytes <= MC, both UnRepOpts, every 32-bit argument of canTranscodeTo (loops fully unwound, unwinding assertions on); longer buffers: ascii_from (W, 34+ bytes), unbounded encoder lengths: ascii_to (P)
//@ note spec: US-ASCII (ANSI X3.4-1986 / ISO 646-US) is the identity onto U+0000..U+007F; bytes 80..FF are not in the code set; harness shared with latin1_w (contracts/sbcs_w_harness.inc)
//@ note XMLString::binToText (exception message text only), getMemoryManager() and getEncodingName() are dropped
//@ note the decoder's "more than 32 good characters: stop in front of the bad byte instead of throwing" branch is unreachable at these widths; it is covered by ascii_from (W, NB >= 34)
#define VERIF_DEFINE_GHOSTS
#include "verif_prelude.h"

typedef int UnRepOpts;
//@ enum src/xercesc/util/TransService.hpp UnRepOpts - scope=XMLTranscoder

/*@extract src/xercesc/util/XMLASCIITranscoder.cpp XMLASCIITranscoder::transcodeFrom
sub XMLString::binToText\s*\([^;]*\)\s*; =>
@*/

/*@extract src/xercesc/util/XMLASCIITranscoder.cpp XMLASCIITranscoder::transcodeTo
sub XMLString::binToText\s*\([^;]*\)\s*; =>
@*/

/*@extract src/xercesc/util/XMLASCIITranscoder.cpp XMLASCIITranscoder::canTranscodeTo
@*/

//@ include sbcs_w_harness.inc
