//@ unit dtd_attcheck_colon
//@ props C07
//@ kind W
//@ def all ATT_ENUM=0 ATT_COLON=1
//@ def quick NV=4 NL=4
//@ def thorough NV=6 NL=5
//@ cbmc quick --unwind 7 --unwinding-assertions
//@ cbmc thorough --unwind 9 --unwinding-assertions
//@ entry h_dtd_attcheck_colon
//@ note W: fragment of DTDValidator::validateAttrValue (from the empty-value test to the end of the token loop: the lexical checks Name / Names / Nmtoken / Nmtokens, the colon rule with namespaces, enumeration / notation membership through the real XMLString::isInList, the ID / ENTITY look-ups), verified as a function of its own, HERE ONLY the namespace colon rule; EXPECTED TO FAIL on the unchanged tree (finding dtd_attr_leading_colon_with_ns: the colon test sits in the loop over the characters after the first one, so `:ab` passes while `a:b` is reported): complete for the attribute types ID, IDREF, IDREFS, ENTITY, ENTITIES, NMTOKEN, NMTOKENS (NOTATION and enumerations: unit dtd_attcheck_enum, same text with ATT_ENUM=1), every normalized value of <= NV characters with code units < 256 (name-character classes = arbitrary nondet tables over that range: the code treats characters only through isNameChar / isFirstNameChar, #x20 and ':'), every enumeration list of <= NL characters
//@ note precondition from the call sites: the value is already normalized as a tokenized value (XML 1.0 3.3.3: no leading / trailing / double #x20, no other white space) by the scanners (normalizeAttValue, DTDScanner::scanAttValue); XMLString::collapseWS, stringLen, copyString are harness stubs; the ID table and the entity pool answer per token as the harness chooses
//@ note facts about the character classes assumed: NameStartChar is a subset of NameChar, ':' is a NameStartChar, #x20 and #x0 are no NameChars (proved of the real tables in chartab_* / xmlchar_names_*)
//@ note NOT in scope: the #FIXED comparison before the fragment, buildAttList (presence / defaults), checkIDRefs, DTDValidator::checkContent, DTDScanner
#define VERIF_DEFINE_GHOSTS
#include "verif_prelude.h"
//@ enum src/xercesc/framework/XMLAttDef.hpp AttTypes XMLAttDef_ scope=XMLAttDef
typedef int XMLAttDef_AttTypes;
struct { _Bool a[256]; } NAMECH_T, FIRSTNAMECH_T;   /* class tables for the 8-bit code units the harness uses */
#define NAMECH (NAMECH_T.a)
#define FIRSTNAMECH (FIRSTNAMECH_T.a)
static bool RD_isFirstNameChar(XMLCh c) { return c < 256 ? FIRSTNAMECH[c] : 0; }
static bool RD_isNameChar(XMLCh c) { return c < 256 ? NAMECH[c] : 0; }
int ERRS, ERR_CODES[8]; _Bool SC_STANDALONE, SC_DONS;
static void VA_err(int code) { if (ERRS < 8) ERR_CODES[ERRS] = code; ERRS++; }
static XMLSize_t VA_stringLen(const XMLCh *s) { XMLSize_t n = 0; while (s[n]) n++; return n; }
static void VA_copyString(XMLCh *d, const XMLCh *s) { XMLSize_t n = 0; while (s[n]) { d[n] = s[n]; n++; } d[n] = 0; }
static XMLCh* VA_replicate(const XMLCh *s) { __CPROVER_assert(0, "C01: unreachable: values shorter than the stack buffer are not replicated"); return (XMLCh*)0; }
int COLLAPSE_CALLS;
static void VA_collapseWS(XMLCh *s) { COLLAPSE_CALLS++; /* identity on a normalized value (precondition) */ }
/* ID table / entity pool: the answer for the k-th looked-up token is chosen by the harness */
typedef struct XMLRefInfo { bool declared, used; } XMLRefInfo;
typedef struct XMLEntityDecl { bool unparsed; } XMLEntityDecl;
struct { XMLRefInfo a[NV]; } REFS; struct { _Bool a[NV]; } REF_KNOWN; int REF_CALLS, REF_NEW;
struct { XMLEntityDecl a[NV]; } ENTS; struct { _Bool a[NV]; } ENT_KNOWN; int ENT_CALLS;
static XMLRefInfo* IDL_get(const XMLCh *tok) { int k = REF_CALLS < NV ? REF_CALLS : NV - 1; REF_CALLS++; return REF_KNOWN.a[k] ? &REFS.a[k] : (XMLRefInfo*)0; }
static XMLRefInfo* IDL_new(const XMLCh *tok) { int k = (REF_CALLS >= 1 && REF_CALLS <= NV) ? REF_CALLS - 1 : 0; REF_NEW++; REFS.a[k].declared = false; REFS.a[k].used = false; return &REFS.a[k]; }
static void IDL_put(XMLRefInfo *r) { }
static const XMLEntityDecl* ENT_get(const XMLCh *tok) { int k = ENT_CALLS < NV ? ENT_CALLS : NV - 1; ENT_CALLS++; return ENT_KNOWN.a[k] ? &ENTS.a[k] : (const XMLEntityDecl*)0; }

/*@extract src/xercesc/util/XMLString.cpp XMLString::isInList
sub XMLString::stringLen\( => VA_stringLen(
@*/

/*@extract src/xercesc/validators/DTD/DTDValidator.cpp DTDValidator::validateAttrValue
as DTD_attcheck
fragment if \(!attrValue\[0\]\) ||| pszTmpVal = valPtr;\s*\}
sig void DTD_attcheck(const XMLCh* attrValue, const XMLAttDef_AttTypes type, const XMLCh* fullName, const XMLCh* enumList, bool preValidation, bool isExternal)
sub const bool isARefType\s*\( => const bool isARefType = (
sub ArrayJanitor<XMLCh> janTmpVal\(0\); =>
sub janTmpVal\.reset\(XMLString::replicate\(attrValue, getScanner\(\)->getMemoryManager\(\)\), getScanner\(\)->getMemoryManager\(\)\);\s*pszTmpVal = janTmpVal\.get\(\); => pszTmpVal = VA_replicate(attrValue);
sub XMLString::stringLen\( => VA_stringLen(
sub XMLString::copyString\( => VA_copyString(
sub XMLString::collapseWS\(pszTmpVal, getScanner\(\)->getMemoryManager\(\)\) => VA_collapseWS(pszTmpVal)
sub getScanner\(\)->getStandalone\(\) => SC_STANDALONE
sub getScanner\(\)->getDoNamespaces\(\) => SC_DONS
sub getReaderMgr\(\)->getCurrentReader\(\)->isFirstNameChar\( => RD_isFirstNameChar(
sub getReaderMgr\(\)->getCurrentReader\(\)->isNameChar\( => RD_isNameChar(
sub emitError\s*\(\s*XMLValid::(\w+)[^;]*\); => VA_err(XMLValid_\1);
sub XMLRefInfo\* find = getScanner\(\)->getIDRefList\(\)->get\(pszTmpVal\); => XMLRefInfo* find = IDL_get(pszTmpVal);
sub find = new \(getScanner\(\)->getMemoryManager\(\)\) XMLRefInfo\s*\([^;]*\); => find = IDL_new(pszTmpVal);
sub getScanner\(\)->getIDRefList\(\)->put\(\(void\*\)find->getRefName\(\), find\); => IDL_put(find);
sub find->getDeclared\(\) => find->declared
sub find->setDeclared\(true\) => find->declared = true
sub find->setUsed\(true\) => find->used = true
sub const XMLEntityDecl\* decl = fDTDGrammar->getEntityDecl\(pszTmpVal\); => const XMLEntityDecl* decl = ENT_get(pszTmpVal);
sub decl->isUnparsed\(\) => decl->unparsed
sub XMLString::isInList\( => XMLString_isInList(
@*/

struct { XMLCh a[NV + 1]; } VAL; struct { XMLCh a[NL + 1]; } LIST; struct { XMLCh a[2]; } FULLNAME;

/* is VAL[from, to) a member of the enumeration list (names separated by single spaces)? */
static int spec_in_list(XMLSize_t from, XMLSize_t to, XMLSize_t llen)
{
  int found = 0; XMLSize_t ts = 0;
  for (XMLSize_t i = 0; i <= NL; i++) if (i <= llen && (i == llen || LIST.a[i] == 0x20)) {
    if (i - ts == to - from) { int eq = 1; for (XMLSize_t j = 0; j < NV; j++) if (j < to - from && LIST.a[(ts + j) <= NL ? ts + j : 0] != VAL.a[(from + j) <= NV ? from + j : 0]) eq = 0; if (eq) found = 1; }
    ts = i + 1;
  }
  return found;
}

void h_dtd_attcheck_colon(void)
{
  XMLSize_t len, llen; int type; _Bool preValidation, isExternal;
  VERIF_INPUT(VAL); VERIF_INPUT(LIST); VERIF_INPUT(len); VERIF_INPUT(llen); VERIF_INPUT(type); VERIF_INPUT(preValidation); VERIF_INPUT(isExternal);
  VERIF_INPUT(NAMECH_T); VERIF_INPUT(FIRSTNAMECH_T); VERIF_INPUT(SC_STANDALONE); VERIF_INPUT(SC_DONS);
  VERIF_INPUT(REFS); VERIF_INPUT(REF_KNOWN); VERIF_INPUT(ENTS); VERIF_INPUT(ENT_KNOWN);
  VERIF_ASSUME(len <= NV && llen <= (ATT_ENUM ? NL : 0));
#if ATT_ENUM
  VERIF_ASSUME(type == XMLAttDef_Notation || type == XMLAttDef_Enumeration);
#else
  VERIF_ASSUME(type >= XMLAttDef_ID && type <= XMLAttDef_NmTokens);
#endif
  VERIF_ASSUME(FIRSTNAMECH[':'] && NAMECH[':'] && !NAMECH[0x20] && !NAMECH[0] && !FIRSTNAMECH[0x20] && !FIRSTNAMECH[0]);
  for (XMLSize_t k = 0; k <= NV; k++) {
    if (k < len) { VERIF_ASSUME(VAL.a[k] < 256 && VAL.a[k] != 0 && VAL.a[k] != 0x9 && VAL.a[k] != 0xA && VAL.a[k] != 0xD); VERIF_ASSUME(!FIRSTNAMECH[VAL.a[k]] || NAMECH[VAL.a[k]]); }
    else VAL.a[k] = 0;
    /* normalized: no leading, trailing or double space */
    if (k < len && VAL.a[k] == 0x20) VERIF_ASSUME(k > 0 && k + 1 < len && VAL.a[k + 1] != 0x20);
  }
  /* the enumeration string built by DTDScanner::scanEnumeration: Nmtokens separated by single spaces */
  for (XMLSize_t k = 0; k <= NL; k++) {
    if (k < llen) { VERIF_ASSUME(LIST.a[k] != 0 && LIST.a[k] < 256); VERIF_ASSUME(LIST.a[k] == 0x20 ? (k > 0 && k + 1 < llen && LIST.a[k + 1] != 0x20) : NAMECH[LIST.a[k]]); }
    else LIST.a[k] = 0;
  }
  FULLNAME.a[0] = 'x'; FULLNAME.a[1] = 0;
  ERRS = 0; REF_CALLS = 0; REF_NEW = 0; ENT_CALLS = 0; COLLAPSE_CALLS = 0; verif_thrown = 0;
  _Bool ref_known0[NV], ref_decl0[NV]; for (int k = 0; k < NV; k++) { ref_known0[k] = REF_KNOWN.a[k]; ref_decl0[k] = REFS.a[k].declared; }
  DTD_attcheck(VAL.a, type, FULLNAME.a, LIST.a, preValidation, isExternal);
  VERIF_CANARY("after call");

  /* reference: XML 1.0 3.3.1 validity constraints ID, IDREF, Entity Name, Name Token, Notation Attributes, Enumeration
     (+ Namespaces in XML: values of the Name-typed attributes are NCNames when namespace processing is on) */
  int is_list = (type == XMLAttDef_IDRefs || type == XMLAttDef_Entities || type == XMLAttDef_NmTokens);
  int name_typed = (type == XMLAttDef_ID || type == XMLAttDef_IDRef || type == XMLAttDef_IDRefs || type == XMLAttDef_Entity || type == XMLAttDef_Entities || type == XMLAttDef_Notation);
  int ok = (len > 0), colon = 0; XMLSize_t ts = 0; int tok = 0;
  for (XMLSize_t i = 0; i <= NV; i++) if (i <= len && len > 0 && (i == len || (is_list && VAL.a[i] == 0x20))) {
    /* token VAL[ts, i) */
    if (i == ts) ok = 0;
    for (XMLSize_t j = 0; j < NV; j++) if (j >= ts && j < i) {
      if (!NAMECH[VAL.a[j]]) ok = 0;
      if (name_typed && j == ts && !FIRSTNAMECH[VAL.a[j]]) ok = 0;
      if (name_typed && SC_DONS && VAL.a[j] == ':') colon = 1;
    }
#if ATT_ENUM
    if ((type == XMLAttDef_Notation || type == XMLAttDef_Enumeration) && !spec_in_list(ts, i, llen)) ok = 0;
#endif
    if (type == XMLAttDef_ID && ref_known0[tok < NV ? tok : 0] && ref_decl0[tok < NV ? tok : 0]) ok = 0;             /* VC ID: the name appears once as an ID value */
    if ((type == XMLAttDef_Entity || type == XMLAttDef_Entities) && !preValidation && !(ENT_KNOWN.a[tok < NV ? tok : 0] && ENTS.a[tok < NV ? tok : 0].unparsed)) ok = 0;   /* VC Entity Name */
    ts = i + 1; tok++;
  }
  __CPROVER_assert(!verif_thrown, "C01: no exception");
#if ATT_COLON
  if (ok && colon) __CPROVER_assert(ERRS >= 1, "C07: with namespace processing on, a colon in a value of type ID / IDREF(S) / ENTITY(IES) / NOTATION is reported (Namespaces in XML, section 6: such values are NCNames)");
#else
  if (!ok) __CPROVER_assert(ERRS >= 1, "C07: a validity error is reported when the attribute value violates the constraint of its declared type (Name / Names / Nmtoken / Nmtokens syntax, enumeration / notation membership, ID uniqueness, unparsed-entity reference)");
  if (ok && !colon) __CPROVER_assert(ERRS == 0, "C07: no validity error for a value that satisfies the constraints of its declared type");
#endif
}
