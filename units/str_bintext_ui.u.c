//@ unit str_bintext_ui
//@ props C01
//@ kind L
//@ def quick BTN=8
//@ def thorough BTN=24
//@ enforce XMLString_binToTextUI
//@ replace XMLString_binToTextUL
//@ entry h_str_bintext_ui
//@ note L: binToText(unsigned int, ...) only widens and forwards; the unsigned long version is replaced by the contract proved in str_bintext; the wrapper inherits that contract verbatim (same parameter names)
#define VERIF_DEFINE_GHOSTS
#include "verif_prelude.h"
XMLSize_t G;
//@ include str_bintext_defs.inc

/*@extract src/xercesc/util/XMLString.cpp XMLString::binToText
as XMLString_binToTextUL
params const unsigned long toFormat , XMLCh* const toFill
declonly
contract
//@ include str_binToTextUL.contract.inc
@*/

/*@extract src/xercesc/util/XMLString.cpp XMLString::binToText
as XMLString_binToTextUI
params const unsigned int toFormat , XMLCh* const toFill
call binToText => XMLString_binToTextUL
throws XMLString_binToTextUL
contract
//@ include str_binToTextUL.contract.inc
@*/

struct { XMLCh a[BTN + 1]; } OUT;
void h_str_bintext_ui(void)
{
  unsigned int v; XMLSize_t maxChars; unsigned int radix;
  VERIF_INPUT(OUT); VERIF_INPUT(G); VERIF_INPUT(v); VERIF_INPUT(maxChars); VERIF_INPUT(radix); VERIF_INPUT(ND);
  VERIF_ASSUME(maxChars <= BTN);
  verif_thrown = 0;
  XMLString_binToTextUI(v, OUT.a + (BTN + 1 - (maxChars + 1)), maxChars, radix, (MemoryManager *)0);
  VERIF_CANARY("after binToText(unsigned int)");
  if (!verif_thrown && radix == 16 && v > 0xFFFF) VERIF_CANARY("binToText(unsigned int): hex with several digits reachable");
}
