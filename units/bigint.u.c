//@ unit bigint
//@ props C09 C01
//@ kind W
//@ def quick NB=6
//@ def thorough NB=10
//@ cbmc all --unwind 13 --unwinding-assertions
//@ entry h_bigint
//@ note W: complete for every NUL-terminated XMLCh string of length <= NB (quick 6, thorough 10); loops fully unwound, unwinding assertions on. retBuffer has stringLen+1 elements as the only caller (the XMLBigInteger constructor) allocates it; both buffers are end-aligned so any overrun leaves the object.
//@ note XMLChar1_0::isWhitespace is replaced by the XML 1.0 production S (#x20 #x9 #xD #xA); the table behind the real predicate is proved against the productions in the chartab units
//@ note lexical space: XML Schema Part 2 3.3.13.1 integer = (+|-)?[0-9]+ after trimming of S. Value space: sign and the digit string without leading zeros (compareValues: unit bigint_compare).
#define VERIF_DEFINE_GHOSTS
#include "verif_prelude.h"
#include "xsd_lexical.h"

/*@extract src/xercesc/util/XMLString.hpp XMLString::stringLen
params const XMLCh* const src
@*/
/*@extract src/xercesc/util/XMLBigInteger.cpp XMLBigInteger::parseBigInteger
sub XMLChar1_0::isWhitespace => SPEC_IS_XMLWS
@*/

struct { XMLCh a[NB + 1]; } IN, OUT;

void h_bigint(void)
{
  XMLSize_t n;
  int sign = 7;
  VERIF_INPUT(IN); VERIF_INPUT(OUT); VERIF_INPUT(n);
  VERIF_ASSUME(n <= NB);
  XMLCh *s = IN.a + (NB - n);
  XMLCh *out = OUT.a + (NB - n);          /* n + 1 elements, as allocated by the constructor */
  VERIF_ASSUME(s[n] == 0);
  for (XMLSize_t i = 0; i < n; i++) VERIF_ASSUME(s[i] != 0);
  verif_thrown = 0;
  XMLBigInteger_parseBigInteger(s, out, &sign, 0);
  VERIF_CANARY("after call");
  {
    int neg; uint16_t ip[NB + 1], fp[NB + 1]; size_t ni, nf;
    int ok = spec_parse_decimal(s, n, 0, &neg, ip, &ni, fp, &nf);
    if (!ok) {
      __CPROVER_assert(verif_thrown && verif_throw_type == VT_NumberFormatException, "C09: parseBigInteger rejects everything outside (+|-)?[0-9]+ (NumberFormatException)");
    } else {
      __CPROVER_assert(!verif_thrown, "C09: parseBigInteger accepts the integer lexical space");
      __CPROVER_assert(sign == (ni == 0 ? 0 : (neg ? -1 : 1)), "C09: parseBigInteger: sign of the value (zero has sign 0 whatever its lexical form)");
      if (ni != 0) {
        for (size_t k = 0; k < ni; k++) __CPROVER_assert(out[k] == ip[k], "C09: parseBigInteger: magnitude = digits without leading zeros");
        __CPROVER_assert(out[ni] == 0, "C09: parseBigInteger: magnitude is terminated");
      }
    }
  }
}
