//@ unit latin1_from
//@ props C05 C01 C04
//@ kind P
//@ def quick NMAX=8
//@ def thorough NMAX=16
//@ enforce XML88591Transcoder_transcodeFrom
//@ entry h_latin1_from
//@ note P: iterations unbounded through the loop contract; buffer LENGTHS are bounded by -DNMAX (srcCount, maxChars <= NMAX) because cbmc needs finite objects
//@ note spec: ISO/IEC 8859-1 byte b decodes to U+00bb (identity onto U+0000..U+00FF); every byte is legal; memset is cbmc's built-in model (byte-typed destination)
#define VERIF_DEFINE_GHOSTS
#include "verif_prelude.h"

/* ghost index: harness-chosen, in no assigns clause */
XMLSize_t G;
#define GI(lim) ((G < (lim)) ? G : 0)
#define MINC ((srcCount < maxChars) ? srcCount : maxChars)
#define DONE ((XMLSize_t)(__CPROVER_POINTER_OFFSET(srcPtr) - __CPROVER_POINTER_OFFSET(srcData)))

/*@extract src/xercesc/util/XML88591Transcoder.cpp XML88591Transcoder::transcodeFrom
contract
__CPROVER_requires(G < NMAX && srcCount <= NMAX && maxChars <= NMAX && !verif_thrown)
__CPROVER_requires(__CPROVER_r_ok(srcData, srcCount))
__CPROVER_requires(__CPROVER_w_ok(toFill, maxChars * sizeof(XMLCh)))
__CPROVER_requires(__CPROVER_w_ok(charSizes, maxChars))
__CPROVER_requires(__CPROVER_w_ok(bytesEaten_p, sizeof(XMLSize_t)))
__CPROVER_assigns(__CPROVER_object_upto(toFill, maxChars * sizeof(XMLCh)), __CPROVER_object_upto(charSizes, maxChars), *bytesEaten_p)
__CPROVER_ensures(!verif_thrown)
/* T_iface + progress: everything that is available and fits is decoded, one byte per character */
__CPROVER_ensures(__CPROVER_return_value == MINC && *bytesEaten_p == __CPROVER_return_value)
/* C05: identity, for every byte value */
__CPROVER_ensures(G < __CPROVER_return_value ==> toFill[G] == (XMLCh)srcData[G])
__CPROVER_ensures(G < __CPROVER_return_value ==> charSizes[G] == 1)
/* frame inside the buffers */
__CPROVER_ensures((G >= __CPROVER_return_value && G < maxChars) ==> toFill[G] == __CPROVER_old(toFill[GI(maxChars)]))
__CPROVER_ensures((G >= __CPROVER_return_value && G < maxChars) ==> charSizes[G] == __CPROVER_old(charSizes[GI(maxChars)]))
loop 1
__CPROVER_assigns(srcPtr, destPtr, __CPROVER_object_upto(toFill, maxChars * sizeof(XMLCh)))
__CPROVER_loop_invariant(__CPROVER_same_object(srcPtr, srcData) && __CPROVER_POINTER_OFFSET(srcData) <= __CPROVER_POINTER_OFFSET(srcPtr) && DONE <= countToDo)
__CPROVER_loop_invariant(__CPROVER_same_object(destPtr, toFill) && __CPROVER_POINTER_OFFSET(destPtr) == __CPROVER_POINTER_OFFSET(toFill) + 2 * DONE)
__CPROVER_loop_invariant((G < DONE) ==> toFill[G] == (XMLCh)srcData[G])
__CPROVER_loop_invariant((G >= DONE && G < maxChars) ==> toFill[G] == __CPROVER_loop_entry(toFill[GI(maxChars)]))
__CPROVER_decreases(countToDo - DONE)
@*/

struct { XMLByte a[NMAX]; } SRC;
struct { XMLCh a[NMAX]; } OUT;
struct { unsigned char a[NMAX]; } SZ;

void h_latin1_from(void)
{
  XMLSize_t n, m, be = 0;
  VERIF_INPUT(n); VERIF_INPUT(m); VERIF_INPUT(G); VERIF_INPUT(SRC); VERIF_INPUT(OUT); VERIF_INPUT(SZ);
  VERIF_ASSUME(n <= NMAX && m <= NMAX);
  verif_thrown = 0;
  /* end-aligned: any access beyond srcCount / maxChars leaves the object */
  XML88591Transcoder_transcodeFrom(SRC.a + (NMAX - n), n, OUT.a + (NMAX - m), m, &be, SZ.a + (NMAX - m));
  VERIF_CANARY("after call");
}
