//@ unit nsmap_ig_l
//@ props C06 C02
//@ kind L
//@ entry h_nsmap
//@ note IGXMLScanner::updateNSMap(attrName, attrValue, colonOfs) over all combinations of (prefixed declaration?, declared prefix kind, namespace-name kind, XML version); strings are kinds (contracts/nsmap_common.inc); the raw-value normalisation (normalizeAttRawValue, proved in attnorm_ig_raw) is replaced by "the normalised value is the namespace name"; `&attrName[colonOfs + 1]` is the declared-prefix kind of the harness; fElemStack.addPrefix / fURIStringPool->addOrFind / emitError are recording sinks
#define VERIF_DEFINE_GHOSTS
#include "verif_prelude.h"
//@ include nsmap_common.inc
int LOCAL_KIND;
#define LOCAL_OF(name, ofs) (LOCAL_KIND)

/*@extract src/xercesc/internal/IGXMLScanner2.cpp IGXMLScanner::updateNSMap
params const int colonOfs
as SC_updateNSMap
sig void SC_updateNSMap(int attrName, int attrValue, int colonOfs)
fragment ^\{ ||| \}\s*$
sub XMLBufBid bbNormal\(&fBufMgr\);\s*XMLBuffer& normalBuf = bbNormal\.getBuffer\(\);\s*normalizeAttRawValue\(attrName, attrValue, normalBuf\);\s*XMLCh\* namespaceURI = normalBuf\.getRawBuffer\(\); => int namespaceURI = attrValue;
sub const XMLCh\* prefPtr = XMLUni::fgZeroLenString; => int prefPtr = K_EMPTY;
sub &attrName\[colonOfs \+ 1\] => LOCAL_OF(attrName, colonOfs)
sub XMLString::equals\((\w+), XMLUni::fgXMLNSString\) => ST_equalsK(\1, K_XMLNS)
sub XMLString::equals\((\w+), XMLUni::fgXMLString\) => ST_equalsK(\1, K_XML)
sub XMLString::equals\((\w+), XMLUni::fgXMLURIName\) => ST_equalsK(\1, K_XMLURI)
sub XMLString::equals\((\w+), XMLUni::fgXMLNSURIName\) => ST_equalsK(\1, K_XMLNSURI)
sub \*namespaceURI\b => (namespaceURI != K_EMPTY)
sub emitError\((XMLErrs::\w+)(?:, \w+)?\) => SC_emitError(\1)
sub fElemStack\.addPrefix\s*\(\s*prefPtr\s*, fURIStringPool->addOrFind\(namespaceURI\)\s*\) => ES_addPrefix(prefPtr, SP_addOrFind(namespaceURI))
@*/

void h_nsmap(void)
{
  int value, colonOfs;
  VERIF_INPUT(LOCAL_KIND); VERIF_INPUT(value); VERIF_INPUT(colonOfs); VERIF_INPUT(fXMLVersion);
  VERIF_ASSUME(LOCAL_KIND == K_XMLNS || LOCAL_KIND == K_XML || LOCAL_KIND == K_OTHER);
  VERIF_ASSUME(value == K_NULL || value == K_EMPTY || value == K_XMLURI || value == K_XMLNSURI || value == K_OTHER);
  VERIF_ASSUME(fXMLVersion == XMLReader_XMLV1_0 || fXMLVersion == XMLReader_XMLV1_1);
  VERIF_ASSUME(colonOfs == -1 || colonOfs == 5);    /* "xmlns" (default declaration) or "xmlns:p" */
  int declaresPrefix = (colonOfs != -1);
  NERR = 0; ADDED = 0; verif_thrown = 0;
  SC_updateNSMap(K_OTHER2, value, colonOfs);
  VERIF_CANARY("after call");
  int e1, e2, e3, e4, e5;
  spec_nsdecl(declaresPrefix, declaresPrefix ? LOCAL_KIND : K_EMPTY, value, fXMLVersion, &e1, &e2, &e3, &e4, &e5);
  __CPROVER_assert(has_err(XMLErrs_NoUseOfxmlnsAsPrefix) == e1, "C06: declaring the prefix xmlns is reported, nothing else is");
  __CPROVER_assert(has_err(XMLErrs_PrefixXMLNotMatchXMLURI) == e2, "C06: binding xml to another namespace name is reported");
  __CPROVER_assert(has_err(XMLErrs_NoEmptyStrNamespace) == e3, "C06: un-declaring a prefix is an error in XML 1.0 only");
  __CPROVER_assert(has_err(XMLErrs_NoUseOfxmlnsURI) == e4, "C06: binding anything to the xmlns namespace name is reported");
  __CPROVER_assert(has_err(XMLErrs_XMLURINotMatchXMLPrefix) == e5, "C06: binding another prefix (or the default) to the xml namespace name is reported");
  __CPROVER_assert(ADDED == 1 && ADD_URI == (int)SP_addOrFind(value) && ADD_PREFIX == (declaresPrefix ? LOCAL_KIND : K_EMPTY), "C06: the binding (declared prefix -> namespace name id) is recorded in the element stack");
  for (int k = 0; k < 8; k++) if (k < NERR) __CPROVER_assert(ERRS[k] >= XMLErrs_F_LowBounds && ERRS[k] <= XMLErrs_F_HighBounds, "C02: namespace constraint violations are fatal errors");
}
